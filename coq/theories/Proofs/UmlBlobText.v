(* C19 adaptor, text level: ParseBLOB_Recursive (quote aware: braces inside double quoted text are ordinary characters) run
   over str(bytes) of a structured blob printed by the assumed writer returns the dictionary [top_pv] of that blob.
   Main theorem: parse_top_q (free-text pieces IRaw and quoted values may hold braces); parse_top is its brace-free corollary. *)
From Coq Require Import String Ascii List Bool Arith Lia.
From KV Require Import Lib.Str Lib.ODict Gen.VppSrc Model.Vpp Model.VppWriter Model.Uml Model.UmlBlob Model.UmlWriter
                       Proofs.VppStr Proofs.UmlBlobDefs Proofs.UmlBlobTree Proofs.UmlBlobFields Proofs.UmlBlobStruct.
Import ListNotations.  Open Scope string_scope.

(* ---------------------------------------------------------------- induction on nodes through their child nodes *)

Lemma wnode_ind2 (P : wnode -> Prop) :
  (forall id nm ty its tl, Forall P (children_of its) -> P (WNode id nm ty its tl)) -> forall n, P n.
Proof.
  intros H. fix IH 1. intros [id nm ty its tl]. apply H.
  exact ((fix go (l : list witem) : Forall P (children_of l) :=
            match l return Forall P (children_of l) with
            | [] => Forall_nil P
            | it :: r =>
                proj2 (Forall_app P _ _)
                  (conj (match it return Forall P (match it with IChildren _ _ _ _ _ ns => ns | _ => [] end) with
                         | IChildren _ _ _ _ _ ns =>
                             (fix each (l : list wnode) : Forall P l :=
                                match l with [] => Forall_nil P | x :: t => Forall_cons x (IH x) (each t) end) ns
                         | _ => Forall_nil P
                         end) (go r))
            end) its).
Qed.

Definition kids_of (it : witem) : list wnode := match it with IChildren _ _ _ _ _ ns => ns | _ => [] end.

Lemma children_of_cons : forall it r, children_of (it :: r) = (kids_of it ++ children_of r)%list.
Proof. reflexivity. Qed.

(* ---------------------------------------------------------------- the inline fixes are list functions *)

Definition nodes_text (sep : string) : list wnode -> string :=
  fix nodes (l : list wnode) : string :=
    match l with
    | [] => ""
    | [n] => "{" ++ print_node n ++ "}"
    | n :: r => "{" ++ print_node n ++ "}" ++ sep ++ nodes r
    end.

Lemma nodes_text_one : forall sep x, nodes_text sep [x] = "{" ++ print_node x ++ "}".
Proof. reflexivity. Qed.
Lemma nodes_text_more : forall sep x y t,
  nodes_text sep (x :: y :: t) = "{" ++ print_node x ++ "}" ++ sep ++ nodes_text sep (y :: t).
Proof. reflexivity. Qed.

Lemma print_items_cat : forall l : list witem,
  (fix items (l : list witem) : string := match l with [] => "" | it :: r => print_item it ++ items r end) l
  = cat (map print_item l).
Proof. induction l as [|it r IH]; [reflexivity|]. cbn [map cat]. rewrite <- IH. reflexivity. Qed.

Lemma print_node_eq : forall id nm ty its tl,
  print_node (WNode id nm ty its tl) = head_text id nm ty ++ "{" ++ cat (map print_item its) ++ tl ++ "}".
Proof.
  intros. rewrite <- print_items_cat. unfold head_text. rewrite !sapp_assoc. reflexivity.
Qed.

Lemma print_children_eq : forall ws k o sep c ns,
  print_item (IChildren ws k o sep c ns) = ws ++ k ++ "=" ++ o ++ nodes_text sep ns ++ c ++ ";".
Proof. reflexivity. Qed.

Lemma kids_eq : forall its : list witem,
  (fix kids (l : list witem) : list pv :=
     match l with
     | [] => []
     | IChildren _ _ _ _ _ ns :: r =>
         ((fix each (l : list wnode) : list pv := match l with [] => [] | x :: t => node_pv x :: each t end) ns ++ kids r)%list
     | _ :: r => kids r
     end) its = map node_pv (children_of its).
Proof.
  induction its as [|it r IH]; [reflexivity|].
  rewrite children_of_cons, map_app, <- IH.
  destruct it as [ws k v|ws k o sep c ids|ws k o sep c ns|s|s]; reflexivity.
Qed.

Lemma node_pv_eq : forall id nm ty its tl,
  node_pv (WNode id nm ty its tl) =
  with_children [("id", PStr id); ("name", PStr (name_text nm)); ("type", PStr ty)] (number_children [body_pv its]).
Proof. intros. unfold body_pv. rewrite <- kids_eq. reflexivity. Qed.

Definition wf_item (it : witem) : bool :=
  match it with
  | IInert _ => false
  | IRaw s => String.eqb s (chop s ++ ";") && raw_ok (chop s)
  | IChildren ws k o sep c ns => seg_ok (seg_of it) && forallb (fun x => wf_node x) ns
  | _ => seg_ok (seg_of it)
  end.

Lemma wf_node_eq : forall id nm ty its tl,
  wf_node (WNode id nm ty its tl) = headok id nm ty && wsok tl && forallb wf_item its.
Proof.
  intros.
  assert (E : forall l : list witem,
    (fix items (l : list witem) : bool :=
       match l with
       | [] => true
       | it :: r =>
           match it with
           | IInert _ => false
           | IRaw s => String.eqb s (chop s ++ ";") && raw_ok (chop s)
           | IChildren ws k o sep c ns =>
               seg_ok (seg_of it) && (fix each (l : list wnode) : bool := match l with [] => true | x :: t => wf_node x && each t end) ns
           | _ => seg_ok (seg_of it)
           end && items r
       end) l = forallb wf_item l).
  { induction l as [|it r IH]; [reflexivity|]. cbn [forallb]. rewrite <- IH.
    destruct it as [ws k v|ws k o sep c ids|ws k o sep c ns|s|s]; reflexivity. }
  rewrite <- E. reflexivity.
Qed.

(* a well formed item is a well formed segment *)
Lemma wf_item_seg : forall it, wf_item it = true -> seg_ok (seg_of it) = true.
Proof.
  intros it H. destruct it as [ws k v|ws k o sep c ids|ws k o sep c ns|s|s]; try discriminate H; try exact H;
    cbn [wf_item] in H; apply andb_true_iff in H; [exact (proj1 H) | exact (proj2 H)].
Qed.

(* a well formed free-text piece is the text of its segment *)
Lemma wf_raw_text : forall s, wf_item (IRaw s) = true -> s = seg_text (seg_of (IRaw s)).
Proof. intros s H. cbn [wf_item] in H. apply andb_true_iff in H. destruct H as [E _]. apply String.eqb_eq in E. exact E. Qed.

(* ---------------------------------------------------------------- the brace forest of str(bytes) of a node *)

Fixpoint blocks (sep : string) (l : list (list bt)) : list bt :=
  match l with
  | [] => []
  | [b] => [BBlock b]
  | b :: r => BBlock b :: BText (R sep) :: blocks sep r
  end.

Lemma blocks_one : forall sep b, blocks sep [b] = [BBlock b].
Proof. reflexivity. Qed.
Lemma blocks_more : forall sep b b' r, blocks sep (b :: b' :: r) = BBlock b :: BText (R sep) :: blocks sep (b' :: r).
Proof. reflexivity. Qed.

Fixpoint node_bts (n : wnode) : list bt :=
  match n with
  | WNode id nm ty its tl =>
      [BText (R (head_text id nm ty));
       BBlock (flat_map (fun it => match it with
                                   | IChildren ws k o sep c ns =>
                                       BText (R (ws ++ k ++ "=" ++ o)) :: (blocks sep (map node_bts ns) ++ [BText (R (c ++ ";"))])%list
                                   | _ => [BText (R (print_item it))]
                                   end) its ++ [BText (R tl)])%list]
  end.

Definition item_bts (it : witem) : list bt :=
  match it with
  | IChildren ws k o sep c ns =>
      BText (R (ws ++ k ++ "=" ++ o)) :: (blocks sep (map node_bts ns) ++ [BText (R (c ++ ";"))])%list
  | _ => [BText (R (print_item it))]
  end.

Definition body_bts (its : list witem) (tl : string) : list bt := (flat_map item_bts its ++ [BText (R tl)])%list.

Lemma node_bts_eq : forall id nm ty its tl,
  node_bts (WNode id nm ty its tl) = [BText (R (head_text id nm ty)); BBlock (body_bts its tl)].
Proof. reflexivity. Qed.

(* ---------------------------------------------------------------- str(bytes) of the print is the print of the forest *)

Lemma R_app : forall a b, R (a ++ b) = R a ++ R b.
Proof. intros. apply repr_body_app. Qed.

Lemma bts_print_app : forall a b, bts_print (a ++ b)%list = bts_print a ++ bts_print b.
Proof. induction a as [|x a IH]; intro b; [reflexivity|]. cbn [app bts_print]. rewrite IH, sapp_assoc. reflexivity. Qed.

Definition print_spec (x : wnode) : Prop := R (print_node x) = bts_print (node_bts x).

Lemma blocks_print : forall sep ns, Forall print_spec ns -> R (nodes_text sep ns) = bts_print (blocks sep (map node_bts ns)).
Proof.
  intros sep ns. induction ns as [|x t IH]; intro H; [reflexivity|].
  pose proof (Forall_inv H) as Hx. pose proof (Forall_inv_tail H) as Ht. unfold print_spec in Hx.
  destruct t as [|y t'].
  - rewrite nodes_text_one. cbn [map]. rewrite blocks_one. cbn [bts_print]. rewrite bt_print_block, sapp_nil_r.
    rewrite !R_app, Hx. reflexivity.
  - rewrite nodes_text_more. cbn [map]. rewrite blocks_more. cbn [bts_print]. rewrite bt_print_block.
    change (node_bts y :: map node_bts t') with (map node_bts (y :: t')). rewrite <- (IH Ht).
    rewrite !R_app, Hx, !sapp_assoc. reflexivity.
Qed.

Lemma item_print : forall it, Forall print_spec (kids_of it) -> R (print_item it) = bts_print (item_bts it).
Proof.
  intros it H. destruct it as [ws k v|ws k o sep c ids|ws k o sep c ns|s|s];
    try (cbn [item_bts bts_print bt_print]; rewrite sapp_nil_r; reflexivity).
  cbn [kids_of] in H. rewrite print_children_eq. cbn [item_bts bts_print bt_print].
  rewrite bts_print_app, <- (blocks_print sep ns H). cbn [bts_print bt_print]. rewrite sapp_nil_r.
  rewrite <- !R_app, !sapp_assoc. reflexivity.
Qed.

Lemma items_print : forall its, Forall print_spec (children_of its) ->
  R (cat (map print_item its)) = bts_print (flat_map item_bts its).
Proof.
  induction its as [|it r IH]; intro H; [reflexivity|].
  rewrite children_of_cons in H. apply Forall_app in H. destruct H as [H1 H2].
  cbn [map cat flat_map]. rewrite R_app, bts_print_app, (IH H2), (item_print it H1). reflexivity.
Qed.

Lemma node_print : forall n, print_spec n.
Proof.
  induction n as [id nm ty its tl H] using wnode_ind2. unfold print_spec.
  rewrite print_node_eq, node_bts_eq. cbn [bts_print]. rewrite bt_print_block. cbn [bt_print]. unfold body_bts.
  rewrite bts_print_app, <- (items_print its H). cbn [bts_print bt_print].
  rewrite !sapp_nil_r, !R_app, !sapp_assoc. reflexivity.
Qed.

(* ---------------------------------------------------------------- brace-free texts *)

(* [plain] accepts '{' and '}': the domain of the theorem needs them excluded from ids, names, types, keys, values and
   reference ids (layout strings are brace-free by wsok / layok) *)
Definition nb_item (it : witem) : bool :=
  match it with
  | IField _ k v => nobrace k && nobrace v
  | IRefs _ k _ _ _ ids => nobrace k && forallb nobrace ids
  | IChildren _ k _ _ _ _ => nobrace k
  | IRaw s | IInert s => nobrace s
  end.

Fixpoint nb_node (n : wnode) : bool :=
  match n with
  | WNode id nm ty its _ =>
      nobrace id && nobrace (name_text nm) && nobrace ty
      && forallb (fun it => nb_item it && match it with IChildren _ _ _ _ _ ns => forallb nb_node ns | _ => true end) its
  end.

Definition nb_full (it : witem) : bool :=
  nb_item it && match it with IChildren _ _ _ _ _ ns => forallb nb_node ns | _ => true end.

Lemma nb_node_eq : forall id nm ty its tl,
  nb_node (WNode id nm ty its tl) = nobrace id && nobrace (name_text nm) && nobrace ty && forallb nb_full its.
Proof.
  reflexivity.
Qed.

Definition nbc (c : ascii) : bool := negb (Ascii.eqb c "{") && negb (Ascii.eqb c "}").

Lemma nobrace_allc : forall s, nobrace s = allc nbc s.
Proof. induction s as [|c s IH]; [reflexivity|]. cbn [nobrace allc]. rewrite IH. reflexivity. Qed.

Lemma nobrace_app : forall a b, nobrace (a ++ b) = nobrace a && nobrace b.
Proof. intros. rewrite !nobrace_allc. apply allc_app. Qed.

Lemma nobrace_R : forall s, nobrace s = true -> nobrace (R s) = true.
Proof.
  intros s H. rewrite nobrace_allc in *. unfold R. rewrite repr_flat.
  apply (allc_flat nbc); [|exact H]. intro c. enum c.
Qed.

Lemma ws_nobrace : forall s, wsok s = true -> nobrace s = true.
Proof. intros s H. rewrite wsok_allc in H. rewrite nobrace_allc. revert H. apply allc_imp. intro c. enum c. Qed.

Lemma lay_nobrace : forall s, layok s = true -> nobrace s = true.
Proof. intros s H. rewrite layok_allc in H. rewrite nobrace_allc. revert H. apply allc_imp. intro c. enum c. Qed.

Lemma refs_nobrace : forall sep ids, nobrace sep = true -> forallb nobrace ids = true -> nobrace (refs_text sep ids) = true.
Proof.
  intros sep ids Hs. induction ids as [|i r IH]; intro H; [reflexivity|].
  cbn [forallb] in H. apply andb_true_iff in H. destruct H as [Hi Hr].
  destruct r as [|j r'].
  - change (refs_text sep [i]) with ("<" ++ i ++ ">"). rewrite !nobrace_app, Hi. reflexivity.
  - change (refs_text sep (i :: j :: r')) with ("<" ++ i ++ ">" ++ sep ++ refs_text sep (j :: r')).
    rewrite !nobrace_app, Hi, Hs, (IH Hr). reflexivity.
Qed.

Lemma qname_nobrace : forall nm, nobrace (name_text nm) = true -> nobrace (qname nm) = true.
Proof.
  intros [s|] H; [|reflexivity]. cbn [name_text] in H. unfold qname, dq. rewrite !nobrace_app, H. reflexivity.
Qed.

Ltac nbr :=
  repeat (rewrite nobrace_app; apply andb_true_iff; split);
  first [assumption | reflexivity | apply ws_nobrace; assumption | apply lay_nobrace; assumption].

(* ---------------------------------------------------------------- the children of well formed items *)

Lemma wf_items_children : forall its, forallb wf_item its = true -> Forall (fun x => wf_node x = true) (children_of its).
Proof.
  induction its as [|it r IH]; intro H; [constructor|].
  cbn [forallb] in H. apply andb_true_iff in H. destruct H as [H1 H2].
  rewrite children_of_cons. apply Forall_app. split; [|exact (IH H2)].
  destruct it as [ws k v|ws k o sep c ids|ws k o sep c ns|s|s]; try constructor.
  cbn [wf_item] in H1. apply andb_true_iff in H1. destruct H1 as [_ H1]. cbn [kids_of].
  apply Forall_forall. intros x Hx. rewrite forallb_forall in H1. exact (H1 x Hx).
Qed.

Lemma nb_items_children : forall its, forallb nb_full its = true -> Forall (fun x => nb_node x = true) (children_of its).
Proof.
  induction its as [|it r IH]; intro H; [constructor|].
  cbn [forallb] in H. apply andb_true_iff in H. destruct H as [H1 H2].
  rewrite children_of_cons. apply Forall_app. split; [|exact (IH H2)].
  unfold nb_full in H1. apply andb_true_iff in H1. destruct H1 as [_ H1].
  destruct it as [ws k v|ws k o sep c ids|ws k o sep c ns|s|s]; try constructor. cbn [kids_of].
  apply Forall_forall. intros x Hx. rewrite forallb_forall in H1. exact (H1 x Hx).
Qed.

(* ---------------------------------------------------------------- braces outside quoted texts only *)

(* like nb_item, but a quoted value and a free-text piece may hold braces *)
Definition nbq_item (it : witem) : bool :=
  match it with
  | IField _ k v => nobrace k && (prefixb dq v || nobrace v)
  | IRefs _ k _ _ _ ids => nobrace k && forallb nobrace ids
  | IChildren _ k _ _ _ _ => nobrace k
  | IRaw _ | IInert _ => true
  end.

Definition nbq_full (it : witem) : bool :=
  nbq_item it && match it with IChildren _ _ _ _ _ ns => forallb nbq_node ns | _ => true end.

Lemma nbq_node_eq : forall id nm ty its tl,
  nbq_node (WNode id nm ty its tl) = nobrace id && nobrace (name_text nm) && nobrace ty && forallb nbq_full its.
Proof.
  intros.
  assert (E : forall l : list witem,
    (fix items (l : list witem) : bool :=
       match l with
       | [] => true
       | it :: r =>
           match it with
           | IField _ k v => nobrace k && (prefixb dq v || nobrace v)
           | IRefs _ k _ _ _ ids => nobrace k && forallb nobrace ids
           | IChildren _ k _ _ _ ns =>
               nobrace k && (fix each (l : list wnode) : bool := match l with [] => true | x :: t => nbq_node x && each t end) ns
           | _ => true
           end && items r
       end) l = forallb nbq_full l).
  { induction l as [|it r IH]; [reflexivity|]. cbn [forallb]. rewrite <- IH. unfold nbq_full.
    destruct it as [ws k v|ws k o sep c ids|ws k o sep c ns|s|s]; cbn [nbq_item]; rewrite ?andb_true_r; reflexivity. }
  rewrite <- E. reflexivity.
Qed.

Lemma seg_nb_of : forall it, seg_nb (seg_of it) = nbq_item it.
Proof. destruct it; reflexivity. Qed.

Lemma nbq_items_children : forall its, forallb nbq_full its = true -> Forall (fun x => nbq_node x = true) (children_of its).
Proof.
  induction its as [|it r IH]; intro H; [constructor|].
  cbn [forallb] in H. apply andb_true_iff in H. destruct H as [H1 H2].
  rewrite children_of_cons. apply Forall_app. split; [|exact (IH H2)].
  unfold nbq_full in H1. apply andb_true_iff in H1. destruct H1 as [_ H1].
  destruct it as [ws k v|ws k o sep c ids|ws k o sep c ns|s|s]; try constructor. cbn [kids_of].
  apply Forall_forall. intros x Hx. rewrite forallb_forall in H1. exact (H1 x Hx).
Qed.

(* the brace-free domain is part of the quote-aware one *)
Lemma nb_nbq_item : forall it, nb_item it = true -> nbq_item it = true.
Proof.
  intros it H. destruct it as [ws k v|ws k o sep c ids|ws k o sep c ns|s|s]; try reflexivity; try exact H.
  cbn [nb_item] in H. apply andb_true_iff in H. destruct H as [H1 H2]. cbn [nbq_item]. rewrite H1, H2. apply orb_true_r.
Qed.

Lemma nb_nbq_items : forall its, Forall (fun x => nb_node x = true -> nbq_node x = true) (children_of its) ->
  forallb nb_full its = true -> forallb nbq_full its = true.
Proof.
  induction its as [|it r IH]; intros H Hf; [reflexivity|].
  cbn [forallb] in Hf. apply andb_true_iff in Hf. destruct Hf as [H1 H2].
  rewrite children_of_cons in H. apply Forall_app in H. destruct H as [K1 K2].
  cbn [forallb]. rewrite (IH K2 H2), andb_true_r.
  unfold nb_full in H1. apply andb_true_iff in H1. destruct H1 as [H1 H3].
  unfold nbq_full. rewrite (nb_nbq_item it H1). cbn [andb].
  destruct it as [ws k v|ws k o sep c ids|ws k o sep c ns|s|s]; try reflexivity.
  cbn [kids_of] in K1. apply forallb_forall. intros x Hx. rewrite forallb_forall in H3.
  exact (proj1 (Forall_forall _ _) K1 x Hx (H3 x Hx)).
Qed.

Lemma nb_nbq : forall n, nb_node n = true -> nbq_node n = true.
Proof.
  induction n as [id nm ty its tl H] using wnode_ind2. intro Hn.
  rewrite nb_node_eq in Hn. rewrite nbq_node_eq. split_and.
  rewrite (nb_nbq_items its H) by assumption.
  repeat match goal with E : _ = true |- _ => rewrite E; clear E end. reflexivity.
Qed.

Lemma sq_quote_ok : forall s, no_char SQ s = true -> quote_ok s = true.
Proof. intros s H. unfold quote_ok. rewrite H. apply orb_true_r. Qed.

(* ---------------------------------------------------------------- the forest is well formed *)

Lemma bts_scan_app : forall a b st, bts_scan (a ++ b)%list st = bts_scan b (bts_scan a st).
Proof. induction a as [|x a IH]; intros b st; [reflexivity|]. cbn [app bts_scan]. apply IH. Qed.

(* from the initial string state the forest of a node holds no brace outside quoted text, and ends in that state *)
Definition ok_spec (x : wnode) : Prop := bts_scan (node_bts x) (Some qst0) = Some qst0.

Lemma block_ok : forall l, bts_scan l (Some qst0) = Some qst0 -> bt_scan (BBlock l) (Some qst0) = Some qst0.
Proof. intros l H. rewrite bt_scan_block, H. reflexivity. Qed.

Lemma text_ok : forall s, free_of ["{"; "}"]%char qst0 s = true -> scan qst0 s = qst0 -> bt_scan (BText s) (Some qst0) = Some qst0.
Proof. intros s H1 H2. cbn [bt_scan]. rewrite H1, H2. reflexivity. Qed.

(* a text without double quote and brace *)
Lemma nqb_ok : forall x, allc nqb x = true -> bt_scan (BText (R x)) (Some qst0) = Some qst0.
Proof. intros x H. destruct (nqb_atomic x H) as [A1 A2]. exact (text_ok _ A1 A2). Qed.

Lemma semi_free : forall q, free_of ["{"; "}"]%char q ";" = true.
Proof. intros [[] []]; reflexivity. Qed.

(* a text closed by its ';' *)
Lemma semi_ok : forall x, free_of ["{"; "}"]%char qst0 (R x) = true -> scan qst0 (R x ++ ";") = qst0 ->
  bt_scan (BText (R (x ++ ";"))) (Some qst0) = Some qst0.
Proof.
  intros x H1 H2. apply text_ok; rewrite R_app; change (R ";") with ";".
  - rewrite UmlBlobFields.free_of_app, H1, semi_free. reflexivity.
  - exact H2.
Qed.

Lemma seg_text_ok : forall s, seg_ok s = true -> seg_nb s = true -> bt_scan (BText (R (seg_text s))) (Some qst0) = Some qst0.
Proof.
  intros s H Hn. rewrite seg_text_body. destruct (seg_atomic s H) as [_ A2].
  apply semi_ok; [exact (seg_nobrace s H Hn) | exact A2].
Qed.

Lemma blocks_ok : forall sep ns, allc nqb sep = true -> Forall ok_spec ns ->
  bts_scan (blocks sep (map node_bts ns)) (Some qst0) = Some qst0.
Proof.
  intros sep ns Hs. induction ns as [|x t IH]; intro H; [reflexivity|].
  pose proof (Forall_inv H) as Hx. pose proof (Forall_inv_tail H) as Ht. unfold ok_spec in Hx.
  destruct t as [|y t'].
  - cbn [map]. rewrite blocks_one. cbn [bts_scan]. rewrite (block_ok _ Hx). reflexivity.
  - cbn [map]. rewrite blocks_more. cbn [bts_scan]. rewrite (block_ok _ Hx), (nqb_ok sep Hs).
    change (node_bts y :: map node_bts t') with (map node_bts (y :: t')). exact (IH Ht).
Qed.

Lemma item_ok : forall it, wf_item it = true -> nbq_item it = true -> Forall ok_spec (kids_of it) ->
  bts_scan (item_bts it) (Some qst0) = Some qst0.
Proof.
  intros it Hw Hn H. rewrite <- seg_nb_of in Hn.
  destruct it as [ws k v|ws k o sep c ids|ws k o sep c ns|s|s]; [| | | |discriminate Hw].
  - cbn [wf_item] in Hw. cbn [item_bts bts_scan]. exact (seg_text_ok _ Hw Hn).
  - cbn [wf_item] in Hw. cbn [item_bts bts_scan]. exact (seg_text_ok _ Hw Hn).
  - cbn [wf_item seg_of seg_ok] in Hw. cbn [seg_of seg_nb] in Hn. cbn [kids_of] in H. split_and.
    rewrite wsok_allc, layok_allc in *.
    pose proof (keyok_plain k ltac:(assumption)) as Hk. rewrite nobrace_allc in Hn.
    pose proof (allc_and plain_char nbc k Hk Hn) as Hkb.
    assert (Hc : allc nqb c = true) by cls.
    cbn [item_bts bts_scan].
    rewrite (nqb_ok (ws ++ k ++ "=" ++ o)) by cls.
    rewrite bts_scan_app, (blocks_ok sep ns) by cls.
    cbn [bts_scan]. destruct (nqb_atomic c Hc) as [A1 A2].
    apply semi_ok; [exact A1 | apply semi_after; exact A2].
  - pose proof (wf_raw_text s Hw) as E. pose proof (wf_item_seg _ Hw) as Hr.
    cbn [item_bts bts_scan print_item]. rewrite E. exact (seg_text_ok _ Hr Hn).
Qed.

Lemma items_ok : forall its, forallb wf_item its = true -> forallb nbq_full its = true -> Forall ok_spec (children_of its) ->
  bts_scan (flat_map item_bts its) (Some qst0) = Some qst0.
Proof.
  induction its as [|it r IH]; intros Hw Hn H; [reflexivity|].
  cbn [forallb] in Hw, Hn. unfold nbq_full in Hn at 1. split_and.
  rewrite children_of_cons in H. apply Forall_app in H. destruct H as [K1 K2].
  cbn [flat_map]. rewrite bts_scan_app, item_ok by assumption. apply IH; assumption.
Qed.

(* the header: id, quoted name (or NULL), type; the quotes of the name are balanced *)
Lemma head_ok : forall id nm ty, headok id nm ty = true -> nobrace id = true -> nobrace ty = true ->
  bt_scan (BText (R (head_text id nm ty))) (Some qst0) = Some qst0.
Proof.
  intros id nm ty H Hi Ht. destruct (headok_parts _ _ _ H) as [[Pi _] [Pn [Pt _]]].
  rewrite nobrace_allc in Hi, Ht.
  pose proof (allc_and plain_char nbc id Pi Hi) as Qi. pose proof (allc_and plain_char nbc ty Pt Ht) as Qt.
  destruct nm as [s|].
  - destruct Pn as [Ps _].
    assert (H1 : allc nqb (id ++ ":") = true) by cls.
    assert (H3 : allc nqb (":" ++ ty ++ " ") = true) by cls.
    destruct (nqb_atomic _ H1) as [A1 A2]. destruct (quoted_atomic_name ["{"; "}"]%char s Ps eq_refl) as [B1 B2].
    destruct (nqb_atomic _ H3) as [C1 C2].
    unfold head_text, qname.
    replace (id ++ ":" ++ (dq ++ s ++ dq) ++ ":" ++ ty ++ " ") with ((id ++ ":") ++ (dq ++ s ++ dq) ++ (":" ++ ty ++ " "))
      by (rewrite !sapp_assoc; reflexivity).
    unfold R. rewrite (repr_body_app SQ (id ++ ":")), (repr_body_app SQ (dq ++ s ++ dq)).
    apply text_ok.
    + rewrite UmlBlobFields.free_of_app, A1, A2, UmlBlobFields.free_of_app, B1, B2, C1. reflexivity.
    + rewrite UmlBlobFields.scan_app, A2, UmlBlobFields.scan_app, B2. exact C2.
  - apply nqb_ok. unfold head_text, qname. cls.
Qed.

Lemma node_ok : forall n, wf_node n = true -> nbq_node n = true -> ok_spec n.
Proof.
  induction n as [id nm ty its tl H] using wnode_ind2. intros Hw Hn. unfold ok_spec.
  rewrite wf_node_eq in Hw. rewrite nbq_node_eq in Hn. split_and.
  assert (Hc : Forall ok_spec (children_of its)).
  { apply Forall_forall. intros x Hx.
    apply (proj1 (Forall_forall _ _) H x Hx).
    - exact (proj1 (Forall_forall _ _) (wf_items_children its ltac:(assumption)) x Hx).
    - exact (proj1 (Forall_forall _ _) (nbq_items_children its ltac:(assumption)) x Hx). }
  rewrite node_bts_eq. cbn [bts_scan]. rewrite head_ok by assumption. apply block_ok.
  unfold body_bts. rewrite bts_scan_app, items_ok by assumption. cbn [bts_scan].
  apply nqb_ok. match goal with E : wsok tl = true |- _ => rewrite wsok_allc in E end. cls.
Qed.

(* ---------------------------------------------------------------- frames: the outside read so far, the children, the string state *)

Definition mk (t : string) (cs : list (string * pv)) (st : qst) : frame := {| f_out := srev t; f_children := cs; f_st := st |}.
Definition addc (cs : list (string * pv)) (v : pv) : list (string * pv) :=
  upsert String.eqb ("child_" ++ dec (List.length cs)) v cs.

Lemma srev_onto_app : forall t s acc, srev_onto (t ++ s) acc = srev_onto s (srev_onto t acc).
Proof. induction t as [|c t IH]; intros s acc; [reflexivity|]. cbn [append srev_onto]. apply IH. Qed.

Lemma srev_onto_invol : forall t a b, srev_onto (srev_onto t a) b = srev_onto a (t ++ b).
Proof. induction t as [|c t IH]; intros a b; [reflexivity|]. cbn [srev_onto]. rewrite IH. reflexivity. Qed.

Lemma srev_srev : forall t, srev (srev t) = t.
Proof. intro t. unfold srev. rewrite srev_onto_invol. cbn [srev_onto]. apply sapp_nil_r. Qed.

Lemma feed_eq : forall s f,
  feed s f = {| f_out := srev_onto s (f_out f); f_children := f_children f; f_st := scan (f_st f) s |}.
Proof. induction s as [|c s IH]; intro f; [destruct f; reflexivity|]. cbn [feed]. rewrite IH. reflexivity. Qed.

Lemma feed_mk : forall s t cs st, feed s (mk t cs st) = mk (t ++ s) cs (scan st s).
Proof. intros. rewrite feed_eq. unfold mk, srev. cbn [f_out f_children f_st]. rewrite srev_onto_app. reflexivity. Qed.

(* after a child the scanner is in its initial state *)
Lemma add_child_mk : forall t cs st v, add_child (resume (mk t cs st)) v = mk t (addc cs v) qst0.
Proof. reflexivity. Qed.

(* the dictionary of a frame does not depend on the string state *)
Lemma finalize_mk : forall t cs st,
  finalize (mk t cs st) = match values_from_outside t with Some res => Some (with_children res cs) | None => None end.
Proof. intros. unfold finalize, mk. cbn [f_out f_children]. rewrite srev_srev. reflexivity. Qed.

Lemma frame0_mk : frame0 = mk "" [] qst0.
Proof. reflexivity. Qed.

Lemma bt_frame_text : forall s t cs st, bt_frame (BText s) (Some (mk t cs st)) = Some (mk (t ++ s) cs (scan st s)).
Proof. intros. cbn [bt_frame]. rewrite feed_mk. reflexivity. Qed.

Lemma bts_frame_app : forall a b acc, bts_frame (a ++ b)%list acc = bts_frame b (bts_frame a acc).
Proof. induction a as [|x a IH]; intros b acc; [reflexivity|]. cbn [app bts_frame]. apply IH. Qed.

Lemma block_sem : forall l v f, sem l = Some v -> bt_frame (BBlock l) (Some f) = Some (add_child (resume f) v).
Proof.
  intros l v f H. rewrite bt_frame_block. unfold sem in H.
  destruct (bts_frame l (Some frame0)) as [fr|]; [|discriminate H]. rewrite H. reflexivity.
Qed.

(* the string state of the frame after a forest (when it is read) *)
Fixpoint bts_st (l : list bt) (st : qst) : qst :=
  match l with
  | [] => st
  | BText s :: r => bts_st r (scan st s)
  | BBlock _ :: r => bts_st r qst0
  end.

Lemma bts_st_app : forall a b st, bts_st (a ++ b)%list st = bts_st b (bts_st a st).
Proof. induction a as [|x a IH]; intros b st; [reflexivity|]. destruct x as [s|l]; cbn [app bts_st]; apply IH. Qed.

(* ---------------------------------------------------------------- the structural reading of the forest *)

Definition sem_spec (x : wnode) : Prop := sem (node_bts x) = Some (node_pv x).

Lemma blocks_frame : forall sep ns, Forall sem_spec ns -> forall t cs st,
  bts_frame (blocks sep (map node_bts ns)) (Some (mk t cs st)) =
  Some (mk (t ++ R (rep sep (List.length ns - 1))) (fold_left addc (map node_pv ns) cs) (bts_st (blocks sep (map node_bts ns)) st)).
Proof.
  intros sep ns. induction ns as [|x r IH]; intros H t cs st.
  - cbn [map blocks bts_frame bts_st List.length Nat.sub rep fold_left]. change (R "") with "". rewrite sapp_nil_r. reflexivity.
  - pose proof (Forall_inv H) as Hx. pose proof (Forall_inv_tail H) as Hr. unfold sem_spec in Hx.
    destruct r as [|y r'].
    + cbn [map]. rewrite blocks_one. cbn [bts_frame bts_st]. rewrite (block_sem _ _ _ Hx), add_child_mk.
      cbn [List.length Nat.sub rep fold_left]. change (R "") with "". rewrite sapp_nil_r. reflexivity.
    + cbn [map]. rewrite blocks_more. cbn [bts_frame bts_st]. rewrite (block_sem _ _ _ Hx), add_child_mk, bt_frame_text.
      change (node_bts y :: map node_bts r') with (map node_bts (y :: r')). rewrite (IH Hr).
      replace (List.length (x :: y :: r') - 1) with (S (List.length (y :: r') - 1)) by (cbn [List.length]; lia).
      cbn [rep fold_left]. rewrite R_app, sapp_assoc. reflexivity.
Qed.

Lemma item_frame : forall it, wf_item it = true -> Forall sem_spec (kids_of it) -> forall t cs st,
  bts_frame (item_bts it) (Some (mk t cs st)) =
  Some (mk (t ++ R (seg_text (seg_of it))) (fold_left addc (map node_pv (kids_of it)) cs) (bts_st (item_bts it) st)).
Proof.
  intros it Hw H t cs st. destruct it as [ws k v|ws k o sep c ids|ws k o sep c ns|s|s]; [| | | |discriminate Hw].
  - cbn [item_bts bts_frame bts_st]. rewrite bt_frame_text. reflexivity.
  - cbn [item_bts bts_frame bts_st]. rewrite bt_frame_text. reflexivity.
  - cbn [kids_of] in *. cbn [item_bts bts_frame bts_st]. rewrite bt_frame_text, bts_frame_app, (blocks_frame sep ns H), bts_st_app.
    cbn [bts_frame bts_st]. rewrite bt_frame_text. cbn [seg_of seg_text].
    f_equal. apply f_equal3; [|reflexivity|reflexivity].
    rewrite !sapp_assoc, <- !R_app, !sapp_assoc. reflexivity.
  - cbn [item_bts bts_frame bts_st]. rewrite bt_frame_text. cbn [print_item kids_of map fold_left].
    rewrite <- (wf_raw_text s Hw). reflexivity.
Qed.

Definition items_segs_text (its : list witem) : string := cat (map (fun it => seg_text (seg_of it)) its).

Lemma items_frame : forall its, forallb wf_item its = true -> Forall sem_spec (children_of its) -> forall t cs st,
  bts_frame (flat_map item_bts its) (Some (mk t cs st)) =
  Some (mk (t ++ R (items_segs_text its)) (fold_left addc (map node_pv (children_of its)) cs) (bts_st (flat_map item_bts its) st)).
Proof.
  induction its as [|it r IH]; intros Hw H t cs st.
  - cbn [flat_map bts_frame bts_st]. unfold items_segs_text. cbn [map cat]. change (R "") with "". rewrite sapp_nil_r. reflexivity.
  - cbn [forallb] in Hw. apply andb_true_iff in Hw. destruct Hw as [Hw1 Hw2].
    rewrite children_of_cons in *. apply Forall_app in H. destruct H as [K1 K2].
    cbn [flat_map]. rewrite bts_frame_app, (item_frame it Hw1 K1), (IH Hw2 K2), bts_st_app.
    unfold items_segs_text. cbn [map cat]. rewrite map_app, fold_left_app, R_app, sapp_assoc. reflexivity.
Qed.

Lemma wf_items_segs : forall its, forallb wf_item its = true -> forallb seg_ok (map seg_of its) = true.
Proof.
  induction its as [|it r IH]; intro H; [reflexivity|].
  cbn [forallb] in H. apply andb_true_iff in H. destruct H as [H1 H2].
  cbn [map forallb]. rewrite (IH H2), (wf_item_seg it H1). reflexivity.
Qed.

Lemma items_segs_text_eq : forall its, items_segs_text its = segs_text (map seg_of its).
Proof. intro its. unfold items_segs_text, segs_text. rewrite concat_empty_cat, map_map. reflexivity. Qed.

Lemma body_sem : forall its tl, forallb wf_item its = true -> wsok tl = true -> Forall sem_spec (children_of its) ->
  sem (body_bts its tl) = Some (body_pv its).
Proof.
  intros its tl Hw Ht H. unfold sem, body_bts. rewrite frame0_mk, bts_frame_app, (items_frame its Hw H).
  cbn [bts_frame]. rewrite bt_frame_text, finalize_mk. cbn [append fold_left].
  rewrite <- R_app, items_segs_text_eq. unfold R. rewrite (values_segments _ _ (wf_items_segs its Hw) Ht). reflexivity.
Qed.

Lemma node_sem : forall n, wf_node n = true -> sem_spec n.
Proof.
  induction n as [id nm ty its tl H] using wnode_ind2. intros Hw. unfold sem_spec.
  rewrite wf_node_eq in Hw. apply andb_true_iff in Hw. destruct Hw as [Hw Hi]. apply andb_true_iff in Hw. destruct Hw as [Hh Ht].
  assert (Hc : Forall sem_spec (children_of its)).
  { apply Forall_forall. intros x Hx. apply (proj1 (Forall_forall _ _) H x Hx).
    exact (proj1 (Forall_forall _ _) (wf_items_children its Hi) x Hx). }
  rewrite node_bts_eq. unfold sem. rewrite frame0_mk. cbn [bts_frame]. rewrite bt_frame_text.
  rewrite (block_sem _ _ _ (body_sem its tl Hi Ht Hc)), add_child_mk, finalize_mk. cbn [append].
  unfold R. rewrite (values_header id nm ty Hh), node_pv_eq. reflexivity.
Qed.

(* ---------------------------------------------------------------- the whole text: b' ... ' *)

Definition top_bts (n : wnode) : list bt :=
  BText (String "b" (String SQ "")) :: (node_bts n ++ [BText (String SQ "")])%list.

(* str(bytes) quotes with an apostrophe as soon as the bytes hold a double quote or no apostrophe *)
Lemma py_str_bytes_q : forall s, quote_ok s = true ->
  py_str_bytes s = String "b" (String SQ (repr_body SQ s ++ String SQ "")).
Proof.
  intros s H. unfold py_str_bytes, repr_quote. unfold quote_ok in H.
  destruct (no_char SQ s), (no_char DQ s); try reflexivity; discriminate H.
Qed.

Lemma top_print : forall n, quote_ok (print_node n) = true -> py_str_bytes (print_node n) = bts_print (top_bts n).
Proof.
  intros n H. rewrite (py_str_bytes_q _ H). unfold top_bts. cbn [bts_print bt_print append].
  rewrite bts_print_app. cbn [bts_print bt_print]. rewrite sapp_nil_r. fold (R (print_node n)). rewrite (node_print n).
  reflexivity.
Qed.

(* the leading  b'  and the closing apostrophe leave the string state alone *)
Lemma top_ok : forall n, wf_node n = true -> nbq_node n = true -> bts_ok (top_bts n) = true.
Proof.
  intros n Hw Hn. unfold bts_ok, top_bts. cbn [bts_scan].
  change (bt_scan (BText (String "b" (String SQ ""))) (Some qst0)) with (Some qst0).
  rewrite bts_scan_app, (node_ok n Hw Hn). reflexivity.
Qed.

Lemma top_sem : forall n, wf_node n = true -> sem (top_bts n) = Some (top_pv n).
Proof.
  intros [id nm ty its tl] Hw.
  pose proof Hw as Hw'. rewrite wf_node_eq in Hw'.
  apply andb_true_iff in Hw'. destruct Hw' as [Hw' Hi]. apply andb_true_iff in Hw'. destruct Hw' as [Hh Ht].
  assert (Hc : Forall sem_spec (children_of its)).
  { apply Forall_forall. intros x Hx. apply node_sem.
    exact (proj1 (Forall_forall _ _) (wf_items_children its Hi) x Hx). }
  unfold top_bts, sem. rewrite node_bts_eq, frame0_mk. cbn [app bts_frame]. rewrite !bt_frame_text.
  rewrite (block_sem _ _ _ (body_sem its tl Hi Ht Hc)), add_child_mk, bt_frame_text, finalize_mk. cbn [append].
  unfold R. rewrite (values_header_top id nm ty Hh). reflexivity.
Qed.

(* [wf_node] alone is not enough: [plain] texts may hold braces, here an unquoted value *)
Example parse_top_refuted :
  let n := WNode "a" None "T" [IField "" "k" "{"] "" in
  wf_node n = true /\ no_char SQ (print_node n) = true /\ parse_blob (py_str_bytes (print_node n)) <> Some (top_pv n).
Proof. cbv zeta. split; [vm_compute; reflexivity|]. split; [vm_compute; reflexivity|]. vm_compute. discriminate. Qed.

(* the quote-aware domain: free-text pieces (IRaw) and quoted values may hold braces, ';', '=' and apostrophes inside their
   quoted texts; str(bytes) must quote with an apostrophe *)
Theorem parse_top_q : forall n : wnode,
  wf_node n = true -> nbq_node n = true -> quote_ok (print_node n) = true ->
  parse_blob (py_str_bytes (print_node n)) = Some (top_pv n).
Proof.
  intros n Hw Hn Hq. rewrite (top_print n Hq), (parse_blob_sem _ (top_ok n Hw Hn)). exact (top_sem n Hw).
Qed.

Print Assumptions parse_top_q.

Lemma parse_top_nb : forall n : wnode,
  wf_node n = true -> nb_node n = true -> no_char SQ (print_node n) = true ->
  parse_blob (py_str_bytes (print_node n)) = Some (top_pv n).
Proof.
  intros n Hw Hn Hq. exact (parse_top_q n Hw (nb_nbq n Hn) (sq_quote_ok _ Hq)).
Qed.

(* the statement asked for, with the extra brace-freeness hypothesis [nb_node n = true] (see parse_top_refuted) *)
Lemma parse_top : forall n : wnode,
  wf_node n = true -> nb_node n = true -> no_char SQ (print_node n) = true ->
  parse_blob (py_str_bytes (print_node n)) = Some (top_pv n).
Proof. exact parse_top_nb. Qed.

Print Assumptions parse_top.

(* ---------------------------------------------------------------- a top-level name that may hold colons *)

(* the header text again: a name with colons is still a balanced quoted text *)
Lemma head_ok_c : forall id nm ty, headok_top id nm ty = true -> nobrace id = true -> nobrace ty = true ->
  bt_scan (BText (R (head_text id nm ty))) (Some qst0) = Some qst0.
Proof.
  intros id nm ty H Hi Ht. destruct (headok_top_parts _ _ _ H) as [[Pi _] [Pn [Pt _]]].
  rewrite nobrace_allc in Hi, Ht.
  pose proof (allc_and plain_char nbc id Pi Hi) as Qi. pose proof (allc_and plain_char nbc ty Pt Ht) as Qt.
  destruct nm as [s|].
  - assert (H1 : allc nqb (id ++ ":") = true) by cls.
    assert (H3 : allc nqb (":" ++ ty ++ " ") = true) by cls.
    destruct (nqb_atomic _ H1) as [A1 A2]. destruct (quoted_atomic_name ["{"; "}"]%char s (proj1 Pn) eq_refl) as [B1 B2].
    destruct (nqb_atomic _ H3) as [C1 C2].
    unfold head_text, qname.
    replace (id ++ ":" ++ (dq ++ s ++ dq) ++ ":" ++ ty ++ " ") with ((id ++ ":") ++ (dq ++ s ++ dq) ++ (":" ++ ty ++ " "))
      by (rewrite !sapp_assoc; reflexivity).
    unfold R. rewrite (repr_body_app SQ (id ++ ":")), (repr_body_app SQ (dq ++ s ++ dq)).
    apply text_ok.
    + rewrite UmlBlobFields.free_of_app, A1, A2, UmlBlobFields.free_of_app, B1, B2, C1. reflexivity.
    + rewrite UmlBlobFields.scan_app, A2, UmlBlobFields.scan_app, B2. exact C2.
  - apply nqb_ok. unfold head_text, qname. cls.
Qed.

(* the parts of wf_top: the header, the tail, the items *)
Lemma wf_top_parts : forall id nm ty its tl, wf_top (WNode id nm ty its tl) = true ->
  headok_top id nm ty = true /\ headok id None ty = true /\ wsok tl = true /\ forallb wf_item its = true.
Proof.
  intros id nm ty its tl H. unfold wf_top in H. apply andb_true_iff in H. destruct H as [Hh Hw].
  rewrite wf_node_eq in Hw. apply andb_true_iff in Hw. destruct Hw as [Hw Hi]. apply andb_true_iff in Hw. destruct Hw as [H0 Ht].
  repeat split; assumption.
Qed.

Lemma top_ok_c : forall n, wf_top n = true -> nbq_node n = true -> bts_ok (top_bts n) = true.
Proof.
  intros [id nm ty its tl] Hw Hn. destruct (wf_top_parts _ _ _ _ _ Hw) as [Hh [H0 _]].
  unfold wf_top in Hw. apply andb_true_iff in Hw. destruct Hw as [_ Hw0].
  rewrite nbq_node_eq in Hn. apply andb_true_iff in Hn. destruct Hn as [Hn Hits].
  apply andb_true_iff in Hn. destruct Hn as [Hn Hty]. apply andb_true_iff in Hn. destruct Hn as [Hid _].
  assert (Hn0 : nbq_node (WNode id None ty its tl) = true).
  { rewrite nbq_node_eq, Hid, Hty, Hits. reflexivity. }
  pose proof (node_ok _ Hw0 Hn0) as K. unfold ok_spec in K. rewrite node_bts_eq in K. cbn [bts_scan] in K.
  rewrite (head_ok id None ty H0 Hid Hty) in K.
  unfold bts_ok, top_bts. cbn [bts_scan].
  change (bt_scan (BText (String "b" (String SQ ""))) (Some qst0)) with (Some qst0).
  rewrite bts_scan_app, node_bts_eq. cbn [bts_scan]. rewrite (head_ok_c id nm ty Hh Hid Hty), K. reflexivity.
Qed.

Lemma top_sem_c : forall n, wf_top n = true -> sem (top_bts n) = Some (top_pv_c n).
Proof.
  intros [id nm ty its tl] Hw. destruct (wf_top_parts _ _ _ _ _ Hw) as [Hh [_ [Ht Hi]]].
  assert (Hc : Forall sem_spec (children_of its)).
  { apply Forall_forall. intros x Hx. apply node_sem.
    exact (proj1 (Forall_forall _ _) (wf_items_children its Hi) x Hx). }
  unfold top_bts, sem. rewrite node_bts_eq, frame0_mk. cbn [app bts_frame]. rewrite !bt_frame_text.
  rewrite (block_sem _ _ _ (body_sem its tl Hi Ht Hc)), add_child_mk, bt_frame_text, finalize_mk. cbn [append].
  unfold R. rewrite (values_header_top_c id nm ty Hh). reflexivity.
Qed.

(* the top-level name may hold colons (the reader then splits the header at them: top_head) *)
Theorem parse_top_c : forall n : wnode,
  wf_top n = true -> nbq_node n = true -> quote_ok (print_node n) = true ->
  parse_blob (py_str_bytes (print_node n)) = Some (top_pv_c n).
Proof.
  intros n Hw Hn Hq. rewrite (top_print n Hq), (parse_blob_sem _ (top_ok_c n Hw Hn)). exact (top_sem_c n Hw).
Qed.

Print Assumptions parse_top_c.

Lemma wf_node_wf_top : forall n, wf_node n = true -> wf_top n = true.
Proof.
  intros [id nm ty its tl] H. unfold wf_top. rewrite wf_node_eq in H.
  apply andb_true_iff in H. destruct H as [H Hi]. apply andb_true_iff in H. destruct H as [Hh Ht].
  rewrite (headok_headok_top _ _ _ Hh), wf_node_eq, Ht, Hi.
  assert (H0 : headok id None ty = true).
  { destruct nm as [s|]; [|exact Hh]. unfold headok in Hh |- *. split_and.
    repeat match goal with E : _ = true |- _ => rewrite E; clear E end. reflexivity. }
  rewrite H0. reflexivity.
Qed.

Lemma top_pv_c_plain : forall id nm ty its tl, headok id nm ty = true ->
  top_pv_c (WNode id nm ty its tl) = top_pv (WNode id nm ty its tl).
Proof. intros id nm ty its tl H. unfold top_pv_c, top_pv. rewrite (top_head_plain _ _ _ H). reflexivity. Qed.

Print Assumptions wf_node_wf_top.
Print Assumptions top_pv_c_plain.
