(* C15 -- proofs: lockset table, skeleton tie, invariants of the dispatcher LTS, ranking functions. *)
From Coq Require Import String List Bool Arith NArith Lia.
From KV Require Import Model.CxxSyncIR Model.CxxQueue Gen.CxxSync.
Import ListNotations.
Open Scope list_scope.

Definition members_of (cls : string) : list (string * mkind) :=
  if String.eqb cls "threadsafe_queue" then members_threadsafe_queue
  else if String.eqb cls "threaded_dispatcher" then members_threaded_dispatcher else [].

(* ---- lockset: a finite, source-derived table *)
Lemma lockset_table_ok : lockset_ok members_of lockset_table = true.
Proof. vm_compute. reflexivity. Qed.

Lemma lockset : forall a b, In a lockset_table -> In b lockset_table -> conflict a b = true ->
  (exists m, In m (a_locks a) /\ In m (a_locks b)) \/
  kind_in (a_var a) (members_of (a_cls a)) = Some KAtomic \/
  ordered (a_phase a) (a_phase b) = true.
Proof.
  intros a b Ha Hb Hc. pose proof lockset_table_ok as H. unfold lockset_ok in H.
  rewrite forallb_forall in H. specialize (H a Ha). rewrite forallb_forall in H. specialize (H b Hb).
  unfold safe_pair in H. rewrite Hc in H. cbn [negb orb] in H.
  apply orb_prop in H as [H|H]; [apply orb_prop in H as [H|H]|].
  - left. unfold common_lock in H. apply existsb_exists in H as (m & Hm & H). apply existsb_exists in H as (m' & Hm' & E).
    apply String.eqb_eq in E. subst m'. eauto.
  - right. left. unfold atomic_member in H. destruct (kind_in (a_var a) (members_of (a_cls a))) as [[]|]; try discriminate. reflexivity.
  - right. right. exact H.
Qed.

(* the queue sub-object is declared before the thread vector: constructed before any worker starts *)
Lemma queue_before_threads :
  match index_of "m_queue" members_threaded_dispatcher, index_of "m_threads" members_threaded_dispatcher with
  | Some i, Some j => Nat.ltb i j | _, _ => false end = true.
Proof. vm_compute. reflexivity. Qed.

(* no lost wake-up: every predicate-enabling operation of a public queue method is followed by a notification *)
Lemma wake_discipline_ok : wake_discipline "threadsafe_queue" members_threadsafe_queue methods_threadsafe_queue = true.
Proof. vm_compute. reflexivity. Qed.

Lemma notify_per_push_ok : notify_per_push methods_threadsafe_queue = true /\ notifications_unconditional = true.
Proof. vm_compute. auto. Qed.

(* the discipline really demands one notification per push: these variants of push are rejected *)
Lemma notify_per_push_rejects :
  let wp := ("wait_and_pop"%string, lookup_ir_nth 1 "wait_and_pop" methods_threadsafe_queue) in
  notify_per_push [wp; ("push"%string, [Lock "m_mutex"; Write "m_data"; PushBack; Unlock "m_mutex"])] = false /\
  notify_per_push [wp; ("push2"%string, [Lock "m_mutex"; Write "m_data"; PushBack; Write "m_data"; PushBack; NotifyOne "m_cond"; Unlock "m_mutex"])] = false /\
  notify_per_push [wp; ("push"%string, [Lock "m_mutex"; NotifyOne "m_cond"; Write "m_data"; PushBack; Unlock "m_mutex"])] = false /\
  notify_per_push [wp; ("push"%string, [Lock "m_mutex"; Write "m_data"; PushBack; Unlock "m_mutex"; NotifyOne "m_cond"])] = true.
Proof. vm_compute. auto. Qed.

(* the shape of the destruction protocol in the source: shutdown() is protected (callable from a derived destructor), the
   handler is a protected pure virtual, the base destructor calls shutdown(), shutdown() sets the flag, wakes the queue and
   joins every (joinable) worker *)
Lemma shutdown_protocol_shape :
  kind_in "x" [] = None /\
  existsb (fun p => String.eqb (fst p) "shutdown" && match snd p with AProtected => true | _ => false end) access_threaded_dispatcher = true /\
  existsb (fun p => String.eqb (fst p) "handle_dispatch" && match snd p with AProtected => true | _ => false end) access_threaded_dispatcher = true /\
  existsb (String.eqb "handle_dispatch") pure_virtual_threaded_dispatcher = true /\
  lookup_ir "~threaded_dispatcher" methods_threaded_dispatcher = [Call "this" "shutdown"] /\
  lookup_ir "shutdown" methods_threaded_dispatcher =
    [Write "m_shutting_down"; Call "m_queue" "wake_up"; Read "m_threads"; JoinAll "m_threads"] /\
  joins_guarded_by_joinable = true /\
  kind_in "m_shutting_down" members_threaded_dispatcher = Some KAtomic.
Proof. vm_compute. repeat split; reflexivity. Qed.

(* ---- tie: the LTS of Model/CxxQueue.v is written for exactly these critical sections *)
Lemma skeleton_as_modelled :
  lookup_ir "push" methods_threadsafe_queue = [Lock "m_mutex"; Write "m_data"; PushBack; NotifyOne "m_cond"; Unlock "m_mutex"] /\
  lookup_ir_nth 1 "wait_and_pop" methods_threadsafe_queue =
    [Lock "m_mutex"; WaitUntil "m_cond" ["m_data"; "m_stopped"]; Read "m_data"; Write "m_data"; Write "m_data"; PopFront; Unlock "m_mutex"] /\
  lookup_ir "wake_up" methods_threadsafe_queue = [Lock "m_mutex"; Write "m_stopped"; Unlock "m_mutex"; NotifyAll "m_cond"] /\
  lookup_ir "dispatch" methods_threaded_dispatcher = [Call "m_queue" "push"] /\
  lookup_ir "handle_dispatch_internal" methods_threaded_dispatcher =
    [Read "m_shutting_down"; Call "m_queue" "wait_and_pop"; Read "m_shutting_down"; CallHandler] /\
  lookup_ir "~threaded_dispatcher" methods_threaded_dispatcher = [Call "this" "shutdown"] /\
  lookup_ir "shutdown" methods_threaded_dispatcher =
    [Write "m_shutting_down"; Call "m_queue" "wake_up"; Read "m_threads"; JoinAll "m_threads"].
Proof. vm_compute. repeat split; reflexivity. Qed.

(* ---------------------------------------------------------------- invariants, any number of workers *)
Definition flags_ok (s : st) : Prop :=
  match d s with
  | DAlive => shutting s = false /\ stopped s = false
  | DFlagSet => shutting s = true /\ stopped s = false
  | DJoin k => shutting s = true /\ stopped s = true /\ k < length (workers s) /\
               forall j, j < k -> nth_error (workers s) j = Some WDone
  | DJoined => shutting s = true /\ stopped s = true /\ all_done (workers s) = true
  end.

Record Inv (m : nat) (sc : list (list N)) (s : st) : Prop := mkInv {
  v_fifo : popped s ++ q s = map snd (pushes s);
  v_ord : forall p, pushes_by p (pushes s) ++ nth p (prods s) [] = nth p sc [];
  v_np : length (prods s) = length sc;
  v_flags : flags_ok s;
  v_nw : length (workers s) = m;
  v_alive : d s = DAlive -> forallb snd (fates s) = true /\ forallb (fun w => match w with WDone => false | _ => true end) (workers s) = true
}.

Lemma pushes_by_app : forall p a b, pushes_by p (a ++ b) = pushes_by p a ++ pushes_by p b.
Proof. intros. unfold pushes_by. rewrite filter_app, map_app. reflexivity. Qed.

Lemma nth_upd_same : forall {A} i (x dflt : A) l, i < length l -> nth i (upd i x l) dflt = x.
Proof. intros A i x dflt l. revert i. induction l; destruct i; cbn; intros; try lia; auto. apply IHl. lia. Qed.
Lemma nth_upd_other : forall {A} i j (x dflt : A) l, i <> j -> nth j (upd i x l) dflt = nth j l dflt.
Proof. intros A i j x dflt l. revert i j. induction l; destruct i, j; cbn; intros; auto; try lia. Qed.
Lemma length_upd : forall {A} i (x : A) l, length (upd i x l) = length l.
Proof. intros A i x l. revert i. induction l; destruct i; cbn; auto. Qed.
Lemma nth_error_upd_other : forall {A} i j (x : A) l, i <> j -> nth_error (upd i x l) j = nth_error l j.
Proof. intros A i j x l. revert i j. induction l; destruct i, j; cbn; intros; auto; try lia. Qed.
Lemma nth_error_nth' : forall {A} (l : list A) i x dflt, nth_error l i = Some x -> nth i l dflt = x.
Proof. intros. apply nth_error_nth. assumption. Qed.

Lemma forallb_upd : forall (f : wpc -> bool) i x l, forallb f l = true -> f x = true -> forallb f (upd i x l) = true.
Proof.
  intros f i x l. revert i. induction l; destruct i; cbn; intros; auto; apply andb_prop in H as [H1 H2]; rewrite ?H0, ?H1, ?H2; auto.
  cbn. apply IHl; auto.
Qed.

Lemma forallb_app1 : forall {A} (f : A -> bool) l x, forallb f l = true -> f x = true -> forallb f (l ++ [x]) = true.
Proof. intros. rewrite forallb_app, H. cbn. rewrite H0. reflexivity. Qed.

Lemma all_done_nth : forall l w pc, all_done l = true -> nth_error l w = Some pc -> pc = WDone.
Proof.
  intros l w pc A H. unfold all_done in A. rewrite forallb_forall in A. apply nth_error_In in H. specialize (A _ H).
  destruct pc; try discriminate; reflexivity.
Qed.

Lemma init_inv : forall m sc, Inv m sc (init m sc).
Proof.
  intros. constructor; cbn; auto.
  - apply repeat_length.
  - intros _. split; auto. induction m; cbn; auto.
Qed.

Lemma step_inv : forall m sc s t s', Inv m sc s -> step t s = Some s' -> Inv m sc s'.
Proof.
  intros m sc s t s' HI H. destruct HI. unfold flags_ok in *. destruct t as [|w|p]; cbn [step] in H.
  - (* destroyer *)
    destruct (d s) eqn:D.
    + inversion H; subst s'; clear H. constructor; cbn; auto; try discriminate; unfold flags_ok; cbn; intuition.
    + inversion H; subst s'; clear H. constructor; cbn; auto; try discriminate.
      * unfold flags_ok; cbn. destruct (workers s) eqn:W; cbn; intuition; lia.
      * destruct (workers s); discriminate.
    + destruct (nth_error (workers s) k) as [[| | | |]|] eqn:K; try discriminate.
      destruct v_flags0 as (SH & ST & Hk & Hj).
      assert (Hj' : forall j, j < S k -> nth_error (workers s) j = Some WDone).
      { intros j Hlt. destruct (Nat.eq_dec j k) as [->|]; [exact K|apply Hj; lia]. }
      destruct (Nat.eqb_spec (S k) (length (workers s))) as [E|E]; inversion H; subst s'; clear H.
      * constructor; cbn; auto; try discriminate. unfold flags_ok; cbn. repeat split; auto.
        unfold all_done. rewrite forallb_forall. intros x Hx. apply In_nth_error in Hx as [j Hjx].
        assert (j < length (workers s)) by (apply nth_error_Some; congruence). rewrite Hj' in Hjx by lia. inversion Hjx. reflexivity.
      * constructor; cbn; auto; try discriminate. unfold flags_ok; cbn. repeat split; auto. lia.
    + discriminate.
  - (* worker *)
    destruct (nth_error (workers s) w) as [pc|] eqn:W; [|discriminate].
    assert (Hal : forall x, (d s = DAlive -> x <> WDone) -> d s = DAlive ->
              forallb (fun w0 => match w0 with WDone => false | _ => true end) (upd w x (workers s)) = true).
    { intros x Hx Hd. apply forallb_upd; [apply v_alive0; auto|]. specialize (Hx Hd). destruct x; auto; congruence. }
    assert (Hfl : forall x qq pp ff hh, pc <> WDone ->
              flags_ok (mkSt qq (stopped s) (shutting s) (upd w x (workers s)) (prods s) (d s) (pushes s) pp ff hh)).
    { intros x qq pp ff hh Hpc. unfold flags_ok. cbn. destruct (d s); auto.
      - destruct v_flags0 as (SH & ST & Hk & Hj). repeat split; auto; [rewrite length_upd; auto|].
        intros j Hlt. rewrite nth_error_upd_other; [apply Hj; auto|]. intros ->. rewrite (Hj _ Hlt) in W. inversion W. congruence.
      - destruct v_flags0 as (_ & _ & A). exfalso. apply Hpc. eapply all_done_nth; eauto. }
    destruct pc as [| |i|i|].
    + inversion H; subst s'; clear H. constructor; cbn; auto; try (rewrite length_upd; auto); try (apply Hfl; discriminate).
      intros Hd. split; [apply v_alive0; auto|]. apply Hal; auto. intros Hd'. rewrite Hd' in v_flags0. destruct v_flags0 as [-> _]. discriminate.
    + destruct (q s) as [|i r] eqn:Q.
      * destruct (stopped s) eqn:ST; [|discriminate]. inversion H; subst s'; clear H.
        constructor; cbn; auto; try (rewrite length_upd; auto); try (apply Hfl; discriminate).
        intros Hd. rewrite Hd in v_flags0. destruct v_flags0; congruence.
      * inversion H; subst s'; clear H. constructor; cbn; auto; try (rewrite length_upd; auto); try (apply Hfl; discriminate).
        { rewrite <- v_fifo0, <- app_assoc. reflexivity. }
        intros Hd. split; [apply v_alive0; auto|]. apply Hal; auto. discriminate.
    + destruct (shutting s) eqn:SH; inversion H; subst s'; clear H; constructor; cbn; auto; try (rewrite length_upd; auto); try (apply Hfl; discriminate).
      * intros Hd. rewrite Hd in v_flags0. destruct v_flags0; congruence.
      * intros Hd. split; [apply forallb_app1; [apply v_alive0; auto|reflexivity]|]. apply Hal; auto. discriminate.
    + inversion H; subst s'; clear H. constructor; cbn; auto; try (rewrite length_upd; auto); try (apply Hfl; discriminate).
      intros Hd. split; [apply v_alive0; auto|]. apply Hal; auto. discriminate.
    + discriminate.
  - (* producer *)
    destruct (d s) eqn:D; try discriminate. destruct (nth_error (prods s) p) as [[|i r]|] eqn:P; try discriminate.
    inversion H; subst s'; clear H. constructor; cbn; auto; try (rewrite length_upd; auto); try (apply Hfl; discriminate).
    + rewrite map_app, <- v_fifo0, <- app_assoc. reflexivity.
    + intros p'. unfold pushes_by in *. rewrite filter_app, map_app. cbn [filter fst].
      assert (Hp : p < length (prods s)) by (apply nth_error_Some; congruence).
      destruct (Nat.eqb_spec p p') as [->|Hne].
      * rewrite nth_upd_same by auto. rewrite <- (v_ord0 p'), (nth_error_nth' _ _ _ [] P), <- app_assoc. reflexivity.
      * rewrite nth_upd_other by auto. cbn. rewrite app_nil_r. apply v_ord0.
Qed.

Lemma reach_inv : forall m sc s, reach m sc s -> Inv m sc s.
Proof. intros m sc s R. induction R; [apply init_inv|eapply step_inv; eauto]. Qed.

(* ---------------------------------------------------------------- one worker: hand-off at most once, in order, one at a time *)
Definition got1 (l : list wpc) : list N := match l with [WGot i] => [i] | _ => [] end.
Definition hand1 (l : list wpc) : list N := match l with [WHandling i] => [i] | _ => [] end.
Definition open1 (l : list wpc) : list hev := match l with [WHandling i] => [HB 0 i] | _ => [] end.

Record Inv1 (s : st) (dn : list N) : Prop := mkInv1 {
  o_one : length (workers s) = 1;
  o_fates : map fst (fates s) ++ got1 (workers s) = popped s;
  o_log : hlog s = hpairs 0 dn ++ open1 (workers s);
  o_done : dn ++ hand1 (workers s) = handled_of (fates s)
}.

Arguments handled_of : simpl never.
Arguments hpairs : simpl never.
Arguments hbegun : simpl never.

Lemma handled_of_app : forall a b, handled_of (a ++ b) = handled_of a ++ handled_of b.
Proof. intros. unfold handled_of. rewrite filter_app, map_app. reflexivity. Qed.
Lemma handled_of_one : forall i b, handled_of [(i, b)] = if b then [i] else [].
Proof. intros i []; reflexivity. Qed.
Lemma hpairs_one : forall w i, hpairs w [i] = [HB w i; HE w i].
Proof. reflexivity. Qed.
Lemma hpairs_app : forall w a b, hpairs w (a ++ b) = hpairs w a ++ hpairs w b.
Proof. intros. unfold hpairs. apply flat_map_app. Qed.

Lemma step_inv1 : forall s t s' dn, Inv1 s dn -> step t s = Some s' -> exists dn', Inv1 s' dn'.
Proof.
  intros s t s' dn [H1 H2 H3 H4] H. destruct (workers s) as [|pc [|? ?]] eqn:W; try discriminate. clear H1.
  destruct t as [|w|p]; cbn [step] in H.
  - exists dn. rewrite W in H. destruct (d s) as [| |k|]; try discriminate.
    + inversion H; subst s'; clear H. constructor; cbn; rewrite ?W; auto.
    + inversion H; subst s'; clear H. constructor; cbn; rewrite ?W; auto.
    + destruct (nth_error [pc] k) as [[| | | |]|]; try discriminate. inversion H; subst s'; clear H. constructor; cbn; rewrite ?W; auto.
  - rewrite W in H. destruct w as [|w]; [|destruct w; discriminate]. cbn [nth_error upd] in H.
    destruct pc as [| |i|i|].
    + exists dn. inversion H; subst s'; clear H. constructor; cbn; auto; destruct (shutting s); cbn in *; auto.
    + destruct (q s) as [|i r].
      * destruct (stopped s); [|discriminate]. exists dn. inversion H; subst s'; clear H. constructor; cbn in *; auto.
      * exists dn. inversion H; subst s'; clear H. constructor; cbn in *; auto. rewrite app_nil_r in H2. rewrite H2. reflexivity.
    + destruct (shutting s); inversion H; subst s'; clear H.
      * exists dn. constructor; cbn in *; auto.
        -- rewrite map_app, app_nil_r. exact H2.
        -- rewrite handled_of_app, handled_of_one, !app_nil_r in *. exact H4.
      * exists dn. constructor; cbn in *; auto.
        -- rewrite map_app, app_nil_r. exact H2.
        -- rewrite H3, app_nil_r. reflexivity.
        -- rewrite handled_of_app, handled_of_one. rewrite app_nil_r in H4. rewrite H4. reflexivity.
    + exists (dn ++ [i]). inversion H; subst s'; clear H. constructor; cbn in *; auto.
      * rewrite H3, hpairs_app, hpairs_one, <- !app_assoc. reflexivity.
      * rewrite app_nil_r. exact H4.
    + discriminate.
  - exists dn. destruct (d s); try discriminate. destruct (nth_error (prods s) p) as [[|i r]|]; try discriminate.
    inversion H; subst s'; clear H. constructor; cbn; rewrite ?W; auto.
Qed.

Lemma reach_inv1 : forall sc s, reach 1 sc s -> exists dn, Inv1 s dn.
Proof.
  intros sc s R. induction R.
  - exists []. constructor; reflexivity.
  - destruct IHR as [dn HI]. eapply step_inv1; eauto.
Qed.

Lemma hbegun_app : forall a b, hbegun (a ++ b) = hbegun a ++ hbegun b.
Proof. intros. unfold hbegun. apply flat_map_app. Qed.
Lemma hbegun_hpairs : forall w l, hbegun (hpairs w l) = l.
Proof. induction l; [reflexivity|]. unfold hbegun, hpairs in *. cbn [flat_map app]. f_equal. exact IHl. Qed.

Lemma at_most_once : forall sc s, reach 1 sc s ->
  exists got, length got <= 1 /\ map fst (fates s) ++ got ++ q s = map snd (pushes s) /\ hbegun (hlog s) = handled_of (fates s).
Proof.
  intros sc s R. destruct (reach_inv1 sc s R) as [dn [H1 H2 H3 H4]]. destruct (reach_inv 1 sc s R).
  exists (got1 (workers s)). split; [|split].
  - destruct (workers s) as [|[| |i| |] [|? ?]]; cbn; lia.
  - rewrite app_assoc, H2. exact v_fifo0.
  - rewrite H3, hbegun_app, hbegun_hpairs, <- H4. f_equal. destruct (workers s) as [|[| |i| |] [|? ?]]; reflexivity.
Qed.

Lemma no_overlap : forall sc s, reach 1 sc s ->
  exists dn o, hlog s = hpairs 0 dn ++ o /\ (o = [] \/ exists i, o = [HB 0 i]).
Proof.
  intros sc s R. destruct (reach_inv1 sc s R) as [dn [H1 H2 H3 H4]].
  exists dn, (open1 (workers s)). split; [exact H3|]. destruct (workers s) as [|[| |i|i|] [|? ?]]; cbn; eauto.
Qed.

Definition prefix {A} (a b : list A) : Prop := exists r, b = a ++ r.

Lemma per_producer_order : forall m sc s, reach m sc s ->
  prefix (popped s) (map snd (pushes s)) /\ forall p, prefix (pushes_by p (pushes s)) (nth p sc []).
Proof.
  intros m sc s R. destruct (reach_inv m sc s R). split.
  - exists (q s). auto.
  - intros p. exists (nth p (prods s) []). symmetry. apply v_ord0.
Qed.

(* ---------------------------------------------------------------- liveness *)
Lemma sumw_upd : forall f w x l old, nth_error l w = Some old -> sumw f (upd w x l) + f old = sumw f l + f x.
Proof.
  intros f w x l. revert w. unfold sumw. induction l; destruct w; cbn; intros; try discriminate.
  - inversion H; subst. lia.
  - specialize (IHl _ _ H). lia.
Qed.

Definition lens (l : list (list N)) : nat := fold_right (fun sc n => length sc + n) 0 l.
Lemma lens_upd : forall p r l i, nth_error l p = Some (i :: r) -> lens (upd p r l) + 1 = lens l.
Proof.
  intros p r l. revert p. unfold lens. induction l; destruct p; cbn; intros; try discriminate.
  - inversion H; subst. cbn. lia.
  - specialize (IHl _ _ H). lia.
Qed.

(* once the destructor has started, EVERY step (only the destroyer and the workers can move) decreases rank_down *)
Lemma down_decreases : forall m sc s t s', reach m sc s -> d s <> DAlive -> step t s = Some s' -> rank_down s' < rank_down s.
Proof.
  intros m sc s t s' R Hd H. destruct (reach_inv m sc s R). unfold flags_ok in v_flags0. unfold rank_down.
  destruct t as [|w|p]; cbn [step] in H.
  - destruct (d s) as [| |k|] eqn:D; [congruence| | |discriminate].
    + inversion H; subst s'; cbn [d workers]. destruct (workers s); cbn [drank length]; lia.
    + destruct (nth_error (workers s) k) as [[| | | |]|] eqn:K; try discriminate.
      assert (k < length (workers s)) by (apply nth_error_Some; congruence).
      destruct (Nat.eqb (S k) (length (workers s))); inversion H; subst s'; cbn [d workers drank]; lia.
  - assert (SH : shutting s = true) by (destruct (d s); try congruence; tauto).
    destruct (nth_error (workers s) w) as [pc|] eqn:W; [|discriminate]. rewrite SH in H.
    assert (U : forall x, sumw wrank_down (upd w x (workers s)) + wrank_down pc = sumw wrank_down (workers s) + wrank_down x)
      by (intros; apply sumw_upd; exact W).
    destruct pc as [| |i|i|]; try discriminate.
    + inversion H; subst s'; cbn [d workers]. rewrite length_upd. specialize (U WDone). cbn in U. lia.
    + destruct (q s); [destruct (stopped s); [|discriminate]|]; inversion H; subst s'; cbn [d workers]; rewrite length_upd.
      * specialize (U WLoop). cbn in U. lia.
      * specialize (U (WGot n)). cbn in U. lia.
    + inversion H; subst s'; cbn [d workers]. rewrite length_upd. specialize (U WLoop). cbn in U. lia.
    + inversion H; subst s'; cbn [d workers]. rewrite length_upd. specialize (U WLoop). cbn in U. lia.
  - destruct (d s); try congruence; discriminate.
Qed.

(* ... and some step of the destroyer or of a worker is always possible until the destructor has returned *)
Lemma down_enabled : forall m sc s, reach m sc s -> (d s = DFlagSet \/ exists k, d s = DJoin k) ->
  exists t s', (t = TDestroy \/ exists w, t = TWorker w) /\ step t s = Some s'.
Proof.
  intros m sc s R Hd. destruct (reach_inv m sc s R). unfold flags_ok in v_flags0. destruct Hd as [Hd|[k Hd]].
  - exists TDestroy. cbn. rewrite Hd. eauto.
  - rewrite Hd in v_flags0. destruct v_flags0 as (SH & ST & Hk & _).
    destruct (nth_error (workers s) k) as [pc|] eqn:K; [|apply nth_error_None in K; lia].
    destruct pc as [| |i|i|].
    5: { exists TDestroy. cbn. rewrite Hd, K. eauto. }
    all: exists (TWorker k); cbn; rewrite K, ?SH, ?ST; eauto.
    destruct (q s); eauto.
Qed.

Lemma joined_final : forall m sc s, reach m sc s -> d s = DJoined ->
  all_done (workers s) = true /\ forall t, step t s = None.
Proof.
  intros m sc s R Hd. destruct (reach_inv m sc s R). unfold flags_ok in v_flags0. rewrite Hd in v_flags0.
  destruct v_flags0 as (_ & _ & A). split; [exact A|]. intros [|w|p]; cbn; rewrite ?Hd; auto.
  destruct (nth_error (workers s) w) as [pc|] eqn:W; auto. rewrite (all_done_nth _ _ _ A W). reflexivity.
Qed.

(* while the dispatcher is alive every step of a producer or a worker decreases rank_alive, nothing is dropped, and a
   non-empty queue always lets every worker move *)
Lemma alive_decreases : forall m sc s t s', reach m sc s -> d s = DAlive -> t <> TDestroy -> step t s = Some s' ->
  rank_alive s' < rank_alive s.
Proof.
  intros m sc s t s' R Hd Ht H. destruct (reach_inv m sc s R). unfold flags_ok in v_flags0. rewrite Hd in v_flags0.
  destruct v_flags0 as [SH ST]. unfold rank_alive. destruct t as [|w|p]; [congruence| |]; cbn [step] in H.
  - destruct (nth_error (workers s) w) as [pc|] eqn:W; [|discriminate]. rewrite SH in H.
    assert (U : forall x, sumw wrank_alive (upd w x (workers s)) + wrank_alive pc = sumw wrank_alive (workers s) + wrank_alive x)
      by (intros; apply sumw_upd; exact W).
    destruct pc as [| |i|i|]; try discriminate.
    + inversion H; subst s'; cbn [prods q workers]. specialize (U WWait). cbn in U. lia.
    + destruct (q s); [rewrite ST in H; discriminate|]. inversion H; subst s'; cbn [prods q workers].
      specialize (U (WGot n)). cbn in U. cbn [length]. lia.
    + inversion H; subst s'; cbn [prods q workers]. specialize (U (WHandling i)). cbn in U. lia.
    + inversion H; subst s'; cbn [prods q workers]. specialize (U WLoop). cbn in U. lia.
  - rewrite Hd in H. destruct (nth_error (prods s) p) as [[|i r]|] eqn:P; try discriminate. inversion H; subst s'; cbn [prods q workers].
    pose proof (lens_upd p r (prods s) i P). fold (lens (upd p r (prods s))). fold (lens (prods s)). rewrite app_length. cbn. lia.
Qed.

Lemma alive_enabled : forall m sc s w pc, reach m sc s -> d s = DAlive -> q s <> [] -> nth_error (workers s) w = Some pc ->
  exists s', step (TWorker w) s = Some s'.
Proof.
  intros m sc s w pc R Hd Hq W. destruct (reach_inv m sc s R). cbn. rewrite W.
  destruct (v_alive0 Hd) as [_ ND]. rewrite forallb_forall in ND. specialize (ND _ (nth_error_In _ _ W)).
  destruct pc as [| |i|i|]; try discriminate; eauto.
  - destruct (q s); [congruence|eauto].
  - destruct (shutting s); eauto.
Qed.

Lemma alive_nothing_dropped : forall m sc s, reach m sc s -> d s = DAlive -> forallb snd (fates s) = true.
Proof. intros m sc s R Hd. destruct (reach_inv m sc s R). apply v_alive0. exact Hd. Qed.
