(* C19 semantic read-back: parameters and operations.  The object builders parse_param / parse_operation read the
   dictionaries of the semantic writer's blobs back as rparam_of / rop_of (goal_param, goal_op); reference paths are
   read back as qualified names (nested_names, typed_path).  Inert properties of a layout are invisible to the fixed-key
   lookups (body_lookup: the key is in kind_keys K) and to the parameter loop (their keys hold no "child", their owned
   elements are no parameters: op_loop).  Generic tools for the sibling files: unq_q, foldM_app, foldM_skip, noise_key_neq,
   noise_key_part, layout_parts, layout_body, body_lookup, entries_in, children_of_slots, remove_char_nochar, txt_simple,
   vtxt_simple, noise_val_simple, text_field_entries, qfield_entries, code_entries. *)
From Coq Require Import String Ascii List Bool Arith Lia.
From KV Require Import Lib.Str Lib.ODict Model.Vpp Model.VppWriter Model.Uml Model.UmlBlob Model.UmlWriter Model.UmlSem
                       Proofs.UmlBlobDefs Proofs.UmlBlobStruct Proofs.UmlSemDefs Proofs.UmlSemDict Proofs.UmlSemGoals Proofs.UmlSemDoc.
Import ListNotations.
Open Scope string_scope.

Ltac split_andb :=
  repeat match goal with
         | H : (_ && _)%bool = true |- _ => apply andb_true_iff in H; destruct H
         end.

(* ---------------------------------------------------------------- strings *)

Lemma sapp_assoc : forall a b c : string, (a ++ b) ++ c = a ++ (b ++ c).
Proof. induction a as [|x a IH]; intros b c; [reflexivity|]. cbn [append]. rewrite IH. reflexivity. Qed.

Lemma sapp_nil_r : forall a : string, a ++ "" = a.
Proof. induction a as [|x a IH]; [reflexivity|]. cbn [append]. rewrite IH. reflexivity. Qed.

Lemma slen_app_op : forall a b, String.length (a ++ b) = String.length a + String.length b.
Proof. induction a as [|x a IH]; intro b; [reflexivity|]. cbn [append String.length]. rewrite IH. reflexivity. Qed.

Lemma substring_app_len_op : forall a b, substring 0 (String.length a) (a ++ b) = a.
Proof.
  induction a as [|c a IH]; intro b; [destruct b; reflexivity|].
  cbn [String.length append substring]. rewrite IH. reflexivity.
Qed.

Lemma unq_q : forall v, unq (q v) = v.
Proof.
  intro v. unfold q, dq. cbn [append unq]. rewrite Ascii.eqb_refl, slen_app_op. cbn [String.length].
  replace (String.length v + 1 - 1) with (String.length v) by lia. apply substring_app_len_op.
Qed.

Lemma unq_plain : forall v, prefixb dq v = false -> unq v = v.
Proof.
  intros v H. destruct v as [|c r]; [reflexivity|].
  unfold dq in H. cbn [prefixb] in H. rewrite andb_true_r in H. rewrite Ascii.eqb_sym in H.
  cbn [unq]. rewrite H. reflexivity.
Qed.

Lemma eqb_false_ne : forall a b : string, String.eqb a b = false -> a <> b.
Proof. intros a b H E. subst b. rewrite String.eqb_refl in H. discriminate H. Qed.

(* ---------------------------------------------------------------- the option monad *)

Lemma foldM_app : forall {A S0} (f : S0 -> A -> option S0) l1 l2 s,
  foldM f (l1 ++ l2)%list s = (s' <- foldM f l1 s ;; foldM f l2 s').
Proof.
  intros A S0 f l1. induction l1 as [|x r IH]; intros l2 s; [reflexivity|].
  cbn [app foldM]. destruct (f s x) as [s1|]; cbn [bind]; [apply IH|reflexivity].
Qed.

Lemma foldM_skip : forall {A S0} (f : S0 -> A -> option S0) l s,
  (forall x s', In x l -> f s' x = Some s') -> foldM f l s = Some s.
Proof.
  intros A S0 f l. induction l as [|x r IH]; intros s H; [reflexivity|].
  cbn [foldM]. rewrite H by (left; reflexivity). cbn [bind]. apply IH.
  intros y s' Hy. apply H. right. exact Hy.
Qed.

(* ---------------------------------------------------------------- noise keys *)

Lemma noise_key_neq : forall k r, noise_key k = true -> In r reserved_keys -> k <> r.
Proof.
  intros k r H Hin E. unfold noise_key in H. split_andb.
  match goal with H : negb (existsb _ reserved_keys) = true |- _ => apply negb_true_iff in H; rename H into Hx end.
  assert (Ht : existsb (String.eqb k) reserved_keys = true).
  { apply existsb_exists. exists r. split; [exact Hin|]. subst r. apply String.eqb_refl. }
  rewrite Ht in Hx. discriminate Hx.
Qed.

Lemma noise_key_part : forall k p, noise_key k = true -> In p reserved_parts -> contains p (lower k) = false.
Proof.
  intros k p H Hin. unfold noise_key in H. split_andb.
  match goal with H : forallb _ reserved_parts = true |- _ => rewrite forallb_forall in H; specialize (H p Hin); rename H into Hx end.
  apply negb_true_iff in Hx. exact Hx.
Qed.

(* `p in k` implies `p.lower() in k.lower()` *)
Lemma prefixb_lower : forall p s, prefixb p s = true -> prefixb (lower p) (lower s) = true.
Proof.
  induction p as [|a p IH]; intros s H; [reflexivity|].
  destruct s as [|b s]; [discriminate H|].
  cbn [prefixb] in H. apply andb_true_iff in H. destruct H as [H1 H2].
  apply Ascii.eqb_eq in H1. subst b. cbn [lower prefixb]. rewrite Ascii.eqb_refl, (IH s H2). reflexivity.
Qed.

Lemma contains_lower : forall p s, contains p s = true -> contains (lower p) (lower s) = true.
Proof.
  intros p s. induction s as [|b s IH]; intro H.
  - cbn [contains] in H. rewrite orb_false_r in H. apply prefixb_lower in H.
    cbn [contains lower]. cbn [lower] in H. rewrite H. reflexivity.
  - cbn [contains] in H. apply orb_true_iff in H. destruct H as [H|H].
    + apply prefixb_lower in H. cbn [lower] in H. cbn [contains lower]. rewrite H. reflexivity.
    + cbn [contains lower]. rewrite (IH H). apply orb_true_r.
Qed.

Lemma contains_lower_false : forall p k, lower p = p -> contains p (lower k) = false -> contains p k = false.
Proof.
  intros p k Hp H. destruct (contains p k) eqn:E; [|reflexivity].
  apply contains_lower in E. rewrite Hp, H in E. discriminate E.
Qed.

Lemma noise_key_nochild : forall k, noise_key k = true -> contains "child" k = false.
Proof.
  intros k H. apply contains_lower_false; [reflexivity|].
  apply noise_key_part; [exact H|]. left. reflexivity.
Qed.

(* ---------------------------------------------------------------- layouts *)

Lemma all_tags : forall t : tag,
  In t [TVis; TRet; TTypeMod; TAbstract; TQuery; TScope; TDoc; TChild; TType; TTypeString; TDir; TDefault; TMult; TInit; TSetter; TGetter;
        TReadOnly; TStereo; TFrom; TTo; TAgg].
Proof. destruct t; cbn [In]; repeat first [left; reflexivity | right]. Qed.

Lemma layout_parts : forall f l, layout_ok f l = true ->
  nodup_tags l [] = true
  /\ nodups (entry_keys (items_of "" f l)) = true
  /\ forallb (fun k => negb (prefixb "child_" k)) (entry_keys (items_of "" f l)) = true
  /\ (forall k v, In (SNoise k v) l -> noise_key k = true /\ noise_val v = true)
  /\ (forall t it, f t = Some it -> has_tag t l = true).
Proof.
  intros f l H. unfold layout_ok in H. split_andb.
  split; [assumption|]. split; [assumption|]. split; [assumption|]. split.
  - intros k v Hin.
    match goal with H : forallb _ l = true |- _ => rewrite forallb_forall in H; specialize (H _ Hin) end.
    cbn beta iota in *. split_andb. split; assumption.
  - intros t it Hf.
    match goal with H : forallb _ (TVis :: _) = true |- _ => rewrite forallb_forall in H; specialize (H t (all_tags t)) end.
    cbn beta in *. rewrite Hf in *. assumption.
Qed.

Lemma noise_val_unq : forall v, noise_val v = true -> unq v <> "".
Proof.
  intros v H. unfold noise_val in H. apply orb_true_iff in H. destruct H as [H|H].
  - split_andb.
    match goal with H : negb (prefixb dq v) = true |- _ => apply negb_true_iff in H; rewrite (unq_plain v H) end.
    match goal with H : negb (String.eqb v "") = true |- _ => apply negb_true_iff in H; apply eqb_false_ne; exact H end.
  - remember (substring 1 (String.length v - 2) v) as u eqn:Eu. clear Eu. split_andb.
    match goal with H : String.eqb v (q u) = true |- _ => apply String.eqb_eq in H; subst v end.
    rewrite unq_q.
    match goal with H : negb (String.eqb u "") = true |- _ => apply negb_true_iff in H; apply eqb_false_ne; exact H end.
Qed.

(* the reader's test "something but commas and blanks is left" on a comma-free stripped text is "non-empty" *)
Lemma remove_char_nochar : forall c s, no_char c s = true -> remove_char c s = s.
Proof.
  intros c s. induction s as [|x r IH]; intro H; [reflexivity|].
  cbn [no_char] in H. apply andb_true_iff in H. destruct H as [H1 H2]. apply negb_true_iff in H1.
  cbn [remove_char]. rewrite H1, (IH H2). reflexivity.
Qed.

Lemma txt_simple : forall s, txt s = true -> s <> "" -> negb (String.eqb (py_strip (remove_char "," s)) "") = true.
Proof.
  intros s H Hne. unfold txt in H. split_andb.
  rewrite remove_char_nochar by assumption.
  match goal with H : String.eqb (py_strip s) s = true |- _ => apply String.eqb_eq in H; rewrite H end.
  apply negb_true_iff. destruct (String.eqb s "") eqn:E; [|reflexivity]. apply String.eqb_eq in E. contradiction.
Qed.

Lemma vtxt_simple : forall s, vtxt s = true -> s <> "" -> negb (String.eqb (py_strip (remove_char "," s)) "") = true.
Proof.
  intros s H Hne. unfold vtxt in H. split_andb.
  match goal with H : (String.eqb s "" || _)%bool = true |- _ => apply orb_true_iff in H; destruct H as [Hx|Hx] end.
  - apply String.eqb_eq in Hx. contradiction.
  - assumption.
Qed.

Lemma noise_val_simple : forall v, noise_val v = true -> negb (String.eqb (py_strip (remove_char "," (unq v))) "") = true.
Proof.
  intros v H. unfold noise_val in H. apply orb_true_iff in H. destruct H as [H|H].
  - split_andb.
    match goal with H : negb (prefixb dq v) = true |- _ => apply negb_true_iff in H; rewrite (unq_plain v H) end.
    apply txt_simple; [assumption|].
    match goal with H : negb (String.eqb v "") = true |- _ => apply negb_true_iff in H; apply eqb_false_ne; exact H end.
  - remember (substring 1 (String.length v - 2) v) as u eqn:Eu. clear Eu. split_andb.
    match goal with H : String.eqb v (q u) = true |- _ => apply String.eqb_eq in H; subst v end.
    rewrite unq_q. apply txt_simple; [assumption|].
    match goal with H : negb (String.eqb u "") = true |- _ => apply negb_true_iff in H; apply eqb_false_ne; exact H end.
Qed.

Lemma layout_body : forall ws f l, layout_ok f l = true ->
  body_pv (items_of ws f l) = PDict (entries (items_of ws f l) ++ numbered (map node_pv (children_of (items_of ws f l))) 0)%list.
Proof.
  intros ws f l H. destruct (layout_parts f l H) as [_ [Hd [Hp _]]].
  apply body_explicit.
  - rewrite entry_keys_ws. exact Hd.
  - rewrite entry_keys_ws. exact Hp.
Qed.

Print Assumptions layout_body.

(* ---------------------------------------------------------------- reference paths and qualified names *)

Lemma split_on_cons : forall c s, exists h t, split_on c s = h :: t.
Proof.
  intros c s. induction s as [|x r IH]; [exists "", []; reflexivity|].
  cbn [split_on]. destruct IH as [h [t E]]. rewrite E.
  destruct (Ascii.eqb x c); [exists "", (h :: t)|exists (String x h), t]; reflexivity.
Qed.

Lemma split_on_nochar : forall c s, no_char c s = true -> split_on c s = [s].
Proof.
  intros c s. induction s as [|x r IH]; intro H; [reflexivity|].
  cbn [no_char] in H. apply andb_true_iff in H. destruct H as [H1 H2]. apply negb_true_iff in H1.
  cbn [split_on]. rewrite (IH H2), H1. reflexivity.
Qed.

Lemma split_on_app : forall c a b, no_char c a = true -> split_on c (a ++ String c b) = a :: split_on c b.
Proof.
  intros c a b. induction a as [|x r IH]; intro H.
  - cbn [append split_on]. destruct (split_on_cons c b) as [h [t E]]. rewrite E, Ascii.eqb_refl. reflexivity.
  - cbn [no_char] in H. apply andb_true_iff in H. destruct H as [H1 H2]. apply negb_true_iff in H1.
    cbn [append split_on]. rewrite (IH H2), H1. reflexivity.
Qed.

Lemma join_cons2 : forall sep x y (r : list string), Uml.join sep (x :: y :: r) = x ++ sep ++ Uml.join sep (y :: r).
Proof. reflexivity. Qed.

Lemma split_join : forall ids, ids <> [] -> forallb (no_char ":") ids = true -> split_on ":" (Uml.join ":" ids) = ids.
Proof.
  induction ids as [|x r IH]; intros Hne H; [contradiction|].
  cbn [forallb] in H. apply andb_true_iff in H. destruct H as [H1 H2].
  destruct r as [|y r].
  - cbn [Uml.join]. apply split_on_nochar. exact H1.
  - rewrite join_cons2. change (":" ++ Uml.join ":" (y :: r)) with (String ":" (Uml.join ":" (y :: r))).
    rewrite split_on_app by exact H1. rewrite IH; [reflexivity|discriminate|exact H2].
Qed.

Lemma rstrip_cons : forall c x s,
  rstrip_char c (String x s) = match rstrip_char c s with
                               | EmptyString => if Ascii.eqb x c then "" else String x ""
                               | r' => String x r'
                               end.
Proof. reflexivity. Qed.

Lemma rstrip_app_ne : forall c a b, rstrip_char c b <> "" -> rstrip_char c (a ++ b) = a ++ rstrip_char c b.
Proof.
  intros c a b H. induction a as [|x r IH]; [reflexivity|].
  cbn [append rstrip_char]. rewrite IH.
  destruct (r ++ rstrip_char c b) eqn:E; [|reflexivity].
  exfalso. destruct r; cbn [append] in E; [exact (H E)|discriminate E].
Qed.

Lemma rstrip_name : forall c n, no_char c n = true -> n <> "" -> rstrip_char c (n ++ String c (String c "")) = n.
Proof.
  intros c n. induction n as [|x r IH]; intros H Hne; [contradiction|].
  cbn [no_char] in H. apply andb_true_iff in H. destruct H as [H1 H2]. apply negb_true_iff in H1.
  destruct r as [|y r].
  - cbn [append rstrip_char]. rewrite Ascii.eqb_refl, H1. reflexivity.
  - change (String x (String y r) ++ String c (String c "")) with (String x (String y r ++ String c (String c ""))).
    rewrite rstrip_cons, IH; [reflexivity|exact H2|discriminate].
Qed.

(* name1::name2::...:: *)
Definition cat_names (l : list string) : string := fold_right (fun n r => n ++ "::" ++ r) "" l.

Lemma join_ne : forall sep x (r : list string), x <> "" -> Uml.join sep (x :: r) <> "".
Proof.
  intros sep x r Hx. destruct r as [|y r]; [exact Hx|]. rewrite join_cons2.
  destruct x; [contradiction|]. cbn [append]. discriminate.
Qed.

Lemma rstrip_cat : forall names, names <> [] -> (forall n, In n names -> no_char ":" n = true /\ n <> "") ->
  rstrip_char ":" (cat_names names) = Uml.join "::" names.
Proof.
  induction names as [|n r IH]; intros Hne H; [contradiction|].
  destruct (H n (or_introl eq_refl)) as [Hn1 Hn2].
  destruct r as [|m r].
  - cbn [cat_names fold_right Uml.join]. change ("::" ++ "") with (String ":" (String ":" "")).
    apply rstrip_name; assumption.
  - change (cat_names (n :: m :: r)) with (n ++ "::" ++ cat_names (m :: r)).
    assert (IH' : rstrip_char ":" (cat_names (m :: r)) = Uml.join "::" (m :: r)).
    { apply IH; [discriminate|]. intros k Hk. apply H. right. exact Hk. }
    assert (Hm : Uml.join "::" (m :: r) <> "").
    { apply join_ne. exact (proj2 (H m (or_intror (or_introl eq_refl)))). }
    rewrite <- sapp_assoc. rewrite rstrip_app_ne by (rewrite IH'; exact Hm).
    rewrite IH', join_cons2, sapp_assoc. reflexivity.
Qed.

Lemma ident_parts_op : forall s, ident s = true -> txt s = true /\ no_char ":" s = true /\ s <> "".
Proof.
  intros s H. unfold ident in H. split_andb. repeat split; try assumption.
  apply eqb_false_ne. apply negb_true_iff. assumption.
Qed.

Lemma path_ok_cons : forall D i r, path_ok D (i :: r) = true ->
  ident i = true /\ (exists n, name_of D i = Some n /\ ident n = true) /\ path_ok D r = true.
Proof.
  intros D i r H. unfold path_ok in H. cbn [forallb] in H. split_andb.
  split; [assumption|]. split; [|assumption].
  unfold known in *. destruct (name_of D i) as [n|]; [|discriminate].
  exists n. split; [reflexivity|]. assumption.
Qed.

Lemma names_fold : forall D g ids acc, g_names D g -> path_ok D ids = true ->
  foldM (fun acc t => e <- g t ;; Some (acc ++ ve_name e ++ "::")) ids acc
  = Some (acc ++ cat_names (map (fun i => ostr (name_of D i)) ids)).
Proof.
  intros D g ids. induction ids as [|i r IH]; intros acc Hg H.
  - cbn [foldM map cat_names fold_right]. rewrite sapp_nil_r. reflexivity.
  - destruct (path_ok_cons D i r H) as [_ [[n [Hn _]] Hr]].
    destruct (Hg i n Hn) as [v [Hv Hvn]].
    cbn [foldM]. rewrite Hv. cbn [bind]. rewrite (IH _ Hg Hr), Hvn.
    cbn [map]. rewrite Hn. cbn [ostr].
    change (cat_names (n :: map (fun i0 => ostr (name_of D i0)) r)) with (n ++ "::" ++ cat_names (map (fun i0 => ostr (name_of D i0)) r)).
    rewrite !sapp_assoc. reflexivity.
Qed.

Lemma path_idents : forall D ids, path_ok D ids = true -> forallb (no_char ":") ids = true.
Proof.
  intros D ids. induction ids as [|i r IH]; intro H; [reflexivity|].
  destruct (path_ok_cons D i r H) as [Hi [_ Hr]].
  cbn [forallb]. rewrite (IH Hr). destruct (ident_parts_op i Hi) as [_ [Hc _]]. rewrite Hc. reflexivity.
Qed.

Lemma path_names : forall D ids, path_ok D ids = true ->
  forall n, In n (map (fun i => ostr (name_of D i)) ids) -> no_char ":" n = true /\ n <> "".
Proof.
  intros D ids. induction ids as [|i r IH]; intros H n Hin; [destruct Hin|].
  destruct (path_ok_cons D i r H) as [_ [[m [Hm Hmi]] Hr]].
  cbn [map In] in Hin. destruct Hin as [Hin|Hin].
  - rewrite Hm in Hin. cbn [ostr] in Hin. subst m. destruct (ident_parts_op n Hmi) as [_ [Hc Hne]]. split; assumption.
  - exact (IH Hr n Hin).
Qed.

Lemma nested_names : forall S g ids, g_names S g -> path_ok S ids = true -> ids <> [] ->
  nested_type_names g (path_text ids) = Some (type_name S ids).
Proof.
  intros D g ids Hg H Hne. unfold nested_type_names, path_text.
  rewrite split_join; [|exact Hne|exact (path_idents D ids H)].
  rewrite (names_fold D g ids "" Hg H). cbn [bind]. change ("" ++ ?x) with x.
  unfold type_name. f_equal. cbn [append]. apply rstrip_cat.
  - destruct ids; [contradiction|discriminate].
  - exact (path_names D ids H).
Qed.

Lemma typed_path : forall S g ids, g_names S g -> tpath_ok S ids = true -> ids <> [] ->
  (n <- nested_type_names g (path_text ids) ;; Some (clean_modifiers n)) = Some (clean_modifiers (type_name S ids)).
Proof.
  intros D g ids Hg H Hne. unfold tpath_ok in H. apply andb_true_iff in H. destruct H as [H1 H2].
  rewrite (nested_names D g ids Hg H1 Hne). reflexivity.
Qed.

Print Assumptions nested_names.
Print Assumptions typed_path.

(* ---------------------------------------------------------------- reading a dictionary *)

Lemma has_dict : forall k d, has k (PDict d) = match lookup String.eqb k d with Some _ => true | None => false end.
Proof. reflexivity. Qed.
Lemma idx_dict : forall k d, idx k (PDict d) = lookup String.eqb k d.
Proof. reflexivity. Qed.
Lemma sidx_dict : forall k d, sidx k (PDict d) = (x <- lookup String.eqb k d ;; as_str x).
Proof. reflexivity. Qed.
Lemma opt_field_dict : forall k d dflt,
  opt_field k (PDict d) dflt = match lookup String.eqb k d with Some x => as_str x | None => Some dflt end.
Proof. intros k d dflt. unfold opt_field. rewrite has_dict, sidx_dict. destruct (lookup String.eqb k d); reflexivity. Qed.

Lemma node_child0 : forall a b c x, idx "child_0" (PDict [("id", a); ("name", b); ("type", c); ("child_0", x)]) = Some x.
Proof. reflexivity. Qed.
Lemma node_name_str : forall a b c x, sidx "name" (PDict [("id", a); ("name", PStr b); ("type", c); ("child_0", x)]) = Some b.
Proof. reflexivity. Qed.
Lemma node_type_str : forall a b c x, sidx "type" (PDict [("id", a); ("name", b); ("type", PStr c); ("child_0", x)]) = Some c.
Proof. reflexivity. Qed.

(* a property key is looked up in the entries of the one tag that writes it *)
Lemma body_lookup : forall ws f l vals k t0 K, layout_ok f l = true -> inerts_ok K l = true ->
  In k reserved_keys -> In k (kind_keys K) -> prefixb "child_" k = false ->
  (forall t, t <> t0 -> lookup String.eqb k (tag_entries f t) = None) ->
  lookup String.eqb k (entries (items_of ws f l) ++ numbered vals 0)%list = lookup String.eqb k (tag_entries f t0).
Proof.
  intros ws f l vals k t0 K H Hi Hk Hkk Hp Ho. destruct (layout_parts f l H) as [_ [_ [_ [Hn Hh]]]].
  rewrite lookup_app, (lookup_numbered_none k vals 0 Hp).
  assert (E : lookup String.eqb k (entries (items_of ws f l)) = lookup String.eqb k (tag_entries f t0)).
  { rewrite lookup_drop_noise.
    - rewrite (lookup_single_tag f (tags_of l) k t0 Ho), <- has_tag_tags_of.
      destruct (has_tag t0 l) eqn:Eh; [reflexivity|].
      unfold tag_entries. destruct (f t0) as [it|] eqn:Ef; [|reflexivity].
      rewrite (Hh t0 it Ef) in Eh. discriminate Eh.
    - intros s0 Hin. destruct s0 as [kn vn|t|it]; [|exact Logic.I|].
      + apply noise_key_neq; [exact (proj1 (Hn kn vn Hin))|exact Hk].
      + intro Hc. destruct (inert_key_free K l it k Hi Hin Hc) as [Hf _].
        assert (Ht : existsb (String.eqb k) (kind_keys K) = true).
        { apply existsb_exists. exists k. split; [exact Hkk|apply String.eqb_refl]. }
        rewrite Ht in Hf. discriminate Hf. }
  rewrite E. destruct (lookup String.eqb k (tag_entries f t0)); reflexivity.
Qed.

Definition opt_entry (k v : string) : list (string * UmlBlob.pv) := if String.eqb v "" then [] else [(k, PStr v)].

Lemma text_field_entries : forall ws k v, vtxt v = true ->
  match text_field ws k v with Some it => item_entries it | None => [] end = opt_entry k v.
Proof.
  intros ws k v Hv. unfold text_field, opt_entry. destruct (String.eqb v "") eqn:E; [reflexivity|].
  cbn [item_entries]. rewrite unq_q.
  assert (Hs := vtxt_simple v Hv (eqb_false_ne _ _ E)). apply negb_true_iff in Hs. rewrite Hs. reflexivity.
Qed.

(* a quoted non-empty text, a code *)
Lemma qfield_entries : forall ws k s, txt s = true -> s <> "" -> item_entries (IField ws k (q s)) = [(k, PStr s)].
Proof.
  intros ws k s0 H Hne. cbn [item_entries]. rewrite unq_q.
  assert (Hs := txt_simple s0 H Hne). apply negb_true_iff in Hs. rewrite Hs. reflexivity.
Qed.

Lemma code_entries : forall ws k c, code_ok (Some c) = true -> item_entries (IField ws k c) = [(k, PStr c)].
Proof.
  intros ws k c H. cbn [code_ok] in H. split_andb. cbn [item_entries].
  rewrite unq_plain by (apply negb_true_iff; assumption).
  match goal with H : txt c = true |- _ => rename H into Ht end.
  assert (Hs : negb (String.eqb (py_strip (remove_char "," c)) "") = true).
  { apply txt_simple; [exact Ht|]. apply eqb_false_ne. apply negb_true_iff. assumption. }
  apply negb_true_iff in Hs. rewrite Hs. reflexivity.
Qed.

Ltac in_reserved := unfold reserved_keys; cbn [In]; repeat first [left; reflexivity | right].
Ltac in_kind := cbn [kind_keys In]; repeat first [left; reflexivity | right].

Ltac other_tags lem :=
  let t := fresh "t" in
  let Ht := fresh "Ht" in
  intros t Ht; rewrite lem; destruct t; try (exfalso; apply Ht; reflexivity); unfold opt_entry;
  repeat match goal with |- context [match ?x with _ => _ end] => destruct x end; reflexivity.

(* ---------------------------------------------------------------- parameters *)

Lemma param_entries : forall D p, param_ok D p = true -> forall t,
  tag_entries (param_item p) t =
  match t with
  | TTypeString => match sp_basic p with Some s => [("type_string", PStr s)] | None => [] end
  | TType => match sp_basic p with
             | Some _ => []
             | None => match sp_type p with [] => [] | _ => [("type_0", PStr (path_text (sp_type p)))] end
             end
  | TDir => match sp_dir p with Some true => [("direction", PStr "65")] | Some false => [("direction", PStr "66")] | None => [] end
  | TTypeMod => opt_entry "typeModifier" (sp_mod p)
  | TDefault => opt_entry "defaultValue_string" (sp_default p)
  | TMult => opt_entry "multiplicity" (sp_mult p)
  | _ => []
  end.
Proof.
  intros D p H t. unfold param_ok in H. split_andb.
  unfold tag_entries, param_item. destruct t; try reflexivity; try (apply text_field_entries; assumption).
  - destruct (sp_basic p); [reflexivity|]. destruct (sp_type p); reflexivity.
  - destruct (sp_basic p) as [s|]; [|reflexivity].
    match goal with H : type_ok s = true |- _ => unfold type_ok in H; split_andb end.
    apply qfield_entries; [assumption|]. apply eqb_false_ne. apply negb_true_iff. assumption.
  - destruct (sp_dir p) as [[|]|]; reflexivity.
Qed.

Lemma build_param : goal_param.
Proof.
  intros D g p Hg Hok.
  assert (Hok' := Hok). unfold param_ok in Hok'. split_andb.
  match goal with H : layout_ok _ _ = true |- _ => rename H into Hl end.
  match goal with H : inerts_ok _ _ = true |- _ => rename H into Hin end.
  unfold tree_of_param. rewrite node_explicit.
  rewrite (layout_body (tabsn (sp_nl p) 5) (param_item p) (sp_layout p) Hl).
  remember (map node_pv (children_of (items_of (tabsn (sp_nl p) 5) (param_item p) (sp_layout p)))) as vals eqn:Ev. clear Ev.
  assert (L1 : lookup String.eqb "type_string" (entries (items_of (tabsn (sp_nl p) 5) (param_item p) (sp_layout p)) ++ numbered vals 0)%list
               = match sp_basic p with Some s => Some (PStr s) | None => None end).
  { rewrite (body_lookup _ _ _ _ _ TTypeString KParam Hl Hin); [|in_reserved|in_kind|reflexivity|other_tags (param_entries D p Hok)].
    rewrite (param_entries D p Hok). destruct (sp_basic p); reflexivity. }
  assert (L2 : lookup String.eqb "type_0" (entries (items_of (tabsn (sp_nl p) 5) (param_item p) (sp_layout p)) ++ numbered vals 0)%list
               = match sp_basic p with
                 | Some _ => None
                 | None => match sp_type p with [] => None | _ => Some (PStr (path_text (sp_type p))) end
                 end).
  { rewrite (body_lookup _ _ _ _ _ TType KParam Hl Hin); [|in_reserved|in_kind|reflexivity|other_tags (param_entries D p Hok)].
    rewrite (param_entries D p Hok). destruct (sp_basic p); [reflexivity|]. destruct (sp_type p); reflexivity. }
  assert (L3 : lookup String.eqb "direction" (entries (items_of (tabsn (sp_nl p) 5) (param_item p) (sp_layout p)) ++ numbered vals 0)%list
               = match sp_dir p with Some true => Some (PStr "65") | Some false => Some (PStr "66") | None => None end).
  { rewrite (body_lookup _ _ _ _ _ TDir KParam Hl Hin); [|in_reserved|in_kind|reflexivity|other_tags (param_entries D p Hok)].
    rewrite (param_entries D p Hok). destruct (sp_dir p) as [[|]|]; reflexivity. }
  assert (L4 : lookup String.eqb "typeModifier" (entries (items_of (tabsn (sp_nl p) 5) (param_item p) (sp_layout p)) ++ numbered vals 0)%list
               = if String.eqb (sp_mod p) "" then None else Some (PStr (sp_mod p))).
  { rewrite (body_lookup _ _ _ _ _ TTypeMod KParam Hl Hin); [|in_reserved|in_kind|reflexivity|other_tags (param_entries D p Hok)].
    rewrite (param_entries D p Hok). unfold opt_entry. destruct (String.eqb (sp_mod p) ""); reflexivity. }
  assert (L5 : lookup String.eqb "defaultValue_string" (entries (items_of (tabsn (sp_nl p) 5) (param_item p) (sp_layout p)) ++ numbered vals 0)%list
               = if String.eqb (sp_default p) "" then None else Some (PStr (sp_default p))).
  { rewrite (body_lookup _ _ _ _ _ TDefault KParam Hl Hin); [|in_reserved|in_kind|reflexivity|other_tags (param_entries D p Hok)].
    rewrite (param_entries D p Hok). unfold opt_entry. destruct (String.eqb (sp_default p) ""); reflexivity. }
  assert (L6 : lookup String.eqb "multiplicity" (entries (items_of (tabsn (sp_nl p) 5) (param_item p) (sp_layout p)) ++ numbered vals 0)%list
               = if String.eqb (sp_mult p) "" then None else Some (PStr (sp_mult p))).
  { rewrite (body_lookup _ _ _ _ _ TMult KParam Hl Hin); [|in_reserved|in_kind|reflexivity|other_tags (param_entries D p Hok)].
    rewrite (param_entries D p Hok). unfold opt_entry. destruct (String.eqb (sp_mult p) ""); reflexivity. }
  remember (entries (items_of (tabsn (sp_nl p) 5) (param_item p) (sp_layout p)) ++ numbered vals 0)%list as dict eqn:Ed. clear Ed.
  unfold parse_param. rewrite node_child0. cbn [bind]. rewrite node_name_str.
  rewrite !has_dict, !idx_dict, !sidx_dict, !opt_field_dict.
  rewrite L1, L2, L3, L4, L5, L6.
  unfold rparam_of.
  assert (Hty : (if match match sp_basic p with Some s => Some (PStr s) | None => None end with Some _ => true | None => false end
                 then t <- (x <- match sp_basic p with Some s => Some (PStr s) | None => None end ;; as_str x) ;; Some (clean_modifiers t)
                 else t <- (x <- match sp_basic p with
                                 | Some _ => None
                                 | None => match sp_type p with [] => None | _ => Some (PStr (path_text (sp_type p))) end
                                 end ;; as_str x) ;; n <- nested_type_names g t ;; Some (clean_modifiers n))
                = Some (clean_modifiers match sp_basic p with Some s => s | None => type_name D (sp_type p) end)).
  { destruct (sp_basic p) as [s|].
    - reflexivity.
    - split_andb. destruct (sp_type p) as [|i r] eqn:Et; [discriminate|].
      cbn [bind as_str]. rewrite <- Et. apply typed_path; [exact Hg|rewrite Et; assumption|rewrite Et; discriminate]. }
  match goal with |- bind ?e _ = _ => replace e with (Some (clean_modifiers match sp_basic p with Some s => s | None => type_name D (sp_type p) end))
                                        by (symmetry; exact Hty) end.
  cbn [bind].
  destruct (sp_dir p) as [[|]|]; destruct (String.eqb (sp_mod p) "") eqn:E1; destruct (String.eqb (sp_default p) "") eqn:E2;
    destruct (String.eqb (sp_mult p) "") eqn:E3;
    try (apply String.eqb_eq in E1; rewrite E1); try (apply String.eqb_eq in E2; rewrite E2); try (apply String.eqb_eq in E3; rewrite E3);
    reflexivity.
Qed.

Print Assumptions build_param.

(* ---------------------------------------------------------------- the owned elements of a layout *)

Ltac destr_inner :=
  match goal with
  | |- context [match ?x with _ => _ end] =>
      lazymatch x with context [match _ with _ => _ end] => fail | _ => destruct x end
  end.

Definition tag_kids (f : tag -> option witem) (t : tag) : list wnode :=
  match f t with Some (IChildren _ _ _ _ _ ns) => ns | _ => [] end.

(* the owned elements a slot of a layout contributes: those of its tag's item, those of an inert item *)
Definition slot_kids (f : tag -> option witem) (s : slot) : list wnode :=
  match s with
  | SNoise _ _ => []
  | STag t => tag_kids f t
  | SInert it => UmlBlobText.kids_of it
  end.

Lemma children_of_app : forall a b, children_of (a ++ b)%list = (children_of a ++ children_of b)%list.
Proof. exact UmlSemDict.children_of_app. Qed.

Lemma children_of_slots : forall ws f l, children_of (items_of ws f l) = flat_map (slot_kids f) l.
Proof.
  intros ws f l. rewrite children_of_layout. apply flat_map_ext. intro s0. destruct s0 as [k v|t|it]; reflexivity.
Qed.

Lemma nodup_tags_seen : forall l seen t, nodup_tags l seen = true -> In t seen -> has_tag t l = false.
Proof.
  induction l as [|s r IH]; intros seen t H Hin; [reflexivity|].
  destruct s as [k v|x|it].
  - cbn [nodup_tags] in H. unfold has_tag. cbn [existsb orb]. exact (IH seen t H Hin).
  - cbn [nodup_tags] in H. apply andb_true_iff in H. destruct H as [H1 H2]. apply negb_true_iff in H1.
    unfold has_tag. cbn [existsb]. fold (has_tag t r). rewrite (IH (x :: seen) t H2 (or_intror Hin)), orb_false_r.
    destruct (tag_eqb x t) eqn:E; [|reflexivity].
    apply tag_eqb_eq in E. subst x. exfalso.
    assert (Ht : existsb (tag_eqb t) seen = true).
    { apply existsb_exists. exists t. split; [exact Hin|]. apply tag_eqb_eq. reflexivity. }
    rewrite Ht in H1. discriminate H1.
  - cbn [nodup_tags] in H. unfold has_tag. cbn [existsb orb]. exact (IH seen t H Hin).
Qed.

(* the entries of a layout come from its noise slots, from its tags and from its inert items *)
Lemma entries_in : forall ws f l kv, In kv (entries (items_of ws f l)) ->
  (exists k v, In (SNoise k v) l /\ fst kv = k) \/ (exists t, In kv (tag_entries f t))
  \/ (exists it, In (SInert it) l /\ In kv (item_entries it)).
Proof.
  intros ws f l kv. induction l as [|s r IH]; intro H; [destruct H|].
  rewrite items_of_cons, entries_app in H. apply in_app_or in H. destruct H as [H|H].
  - destruct s as [k v|t|it].
    + left. exists k, v. split; [left; reflexivity|].
      rewrite entries_cons in H. cbn [entries flat_map item_entries] in H. rewrite app_nil_r in H.
      destruct (String.eqb (py_strip (remove_char "," (unq v))) ""); [destruct H|].
      destruct H as [H|[]]. subst kv. reflexivity.
    + right. left. exists t. rewrite tag_item_entries in H. exact H.
    + right. right. exists it. split; [left; reflexivity|].
      rewrite entries_cons in H. cbn [entries flat_map] in H. rewrite app_nil_r in H. exact H.
  - destruct (IH H) as [[k [v [Hin E]]]|[Ht|[it [Hin Hk]]]].
    + left. exists k, v. split; [right; exact Hin|exact E].
    + right. left. exact Ht.
    + right. right. exists it. split; [right; exact Hin|exact Hk].
Qed.

(* ---------------------------------------------------------------- operations *)

Lemma op_entries : forall D o, op_ok D o = true -> forall t,
  tag_entries (op_item o) t =
  match t with
  | TVis => match so_vis o with Some c => [("visibility", PStr c)] | None => [] end
  | TRet => match so_ret o with [] => [] | _ => [("returnType_0", PStr (path_text (so_ret o)))] end
  | TTypeMod => opt_entry "typeModifier" (so_retmod o)
  | TAbstract => if so_abstract o then [("abstract", PStr "T")] else []
  | TQuery => if so_query o then [("query", PStr "T")] else []
  | TScope => if so_static o then [("scope", PStr "65")] else []
  | TDoc => match doc_field (tabsn (so_nl o) 3) (so_doc o) with
            | Some _ => [("documentation_plain", PStr (doc_value (so_doc o)))]
            | None => []
            end
  | _ => []
  end.
Proof.
  intros D o H t. unfold op_ok in H. split_andb.
  unfold tag_entries, op_item. destruct t; try reflexivity; try (apply text_field_entries; assumption).
  - destruct (so_vis o) as [c|]; [|reflexivity]. apply code_entries. assumption.
  - destruct (so_ret o); reflexivity.
  - destruct (so_abstract o); reflexivity.
  - destruct (so_query o); reflexivity.
  - destruct (so_static o); reflexivity.
  - destruct (doc_field (tabsn (so_nl o) 3) (so_doc o)) as [it|] eqn:E; [|reflexivity].
    match goal with Hn : nl_ok _ = true, Hd : doc_ok _ _ = true |- _ => exact (proj1 (doc_entries _ _ _ _ Hn Hd E)) end.
  - destruct (so_params o); reflexivity.
Qed.

Lemma op_tag_kids : forall o t, tag_kids (op_item o) t = match t with TChild => map tree_of_param (so_params o) | _ => [] end.
Proof.
  intros o t. unfold tag_kids, op_item, doc_field, text_field, flag_field, ref_field.
  destruct t; try reflexivity; repeat destr_inner; reflexivity.
Qed.

Lemma op_entries_nochild : forall D ws o kv, op_ok D o = true ->
  In kv (entries (items_of ws (op_item o) (so_layout o))) -> contains "child" (fst kv) = false.
Proof.
  intros D ws o kv Hok Hin.
  assert (Hok' := Hok). unfold op_ok in Hok'. split_andb.
  match goal with H : layout_ok _ _ = true |- _ => rename H into Hl end.
  match goal with H : inerts_ok _ _ = true |- _ => rename H into Hi end.
  destruct (layout_parts _ _ Hl) as [_ [_ [_ [Hn _]]]].
  apply entries_in in Hin. destruct Hin as [[k [v [Hs E]]]|[[t Ht]|[it [Hs Hk]]]].
  - rewrite E. apply noise_key_nochild. exact (proj1 (Hn k v Hs)).
  - rewrite (op_entries D o Hok) in Ht. unfold opt_entry in Ht.
    destruct t; try (destruct Ht; fail);
      repeat match type of Ht with context [match ?x with _ => _ end] => destruct x end;
      try (destruct Ht; fail); destruct Ht as [Ht|[]]; subst kv; reflexivity.
  - assert (Hk' : In (fst kv) (item_keys it)).
    { rewrite <- item_entries_keys. apply in_map. exact Hk. }
    destruct (inert_key_free KOp _ it (fst kv) Hi Hs Hk') as [_ Hp].
    cbn [kind_parts forallb] in Hp. rewrite andb_true_r in Hp. apply negb_true_iff in Hp.
    apply contains_lower_false; [reflexivity|exact Hp].
Qed.

(* the body of the parameter loop of ClassOperation *)
Definition param_step (g : string -> option velem) (acc : list rparam) (kv : string * UmlBlob.pv) : option (list rparam) :=
  if contains "child" (fst kv) then
    if truthy (snd kv) then
      t <- sidx "type" (snd kv) ;;
      if String.eqb "parameter" (lower t) then p <- parse_param g (snd kv) ;; Some (acc ++ [p])%list else Some acc
    else Some acc
  else Some acc.

Lemma child_key_contains : forall x, contains "child" ("child_" ++ x) = true.
Proof. reflexivity. Qed.

Lemma param_step_child : forall D g p n acc, g_names D g -> param_ok D p = true ->
  param_step g acc ("child_" ++ dec n, node_pv (tree_of_param p)) = Some (acc ++ [rparam_of D p])%list.
Proof.
  intros D g p n acc Hg Hok. unfold param_step. cbn [fst snd].
  rewrite child_key_contains, (build_param D g p Hg Hok).
  unfold tree_of_param. rewrite node_explicit, node_type_str. reflexivity.
Qed.

(* an owned element of another type is passed over *)
Lemma param_step_other : forall g n x acc, kind_child_ok KOp (node_type n) = true ->
  param_step g acc ("child_" ++ x, node_pv n) = Some acc.
Proof.
  intros g n x acc H. destruct n as [id nm ty its tl]. cbn [kind_child_ok node_type] in H.
  apply negb_true_iff in H. rewrite String.eqb_sym in H.
  unfold param_step. cbn [fst snd]. rewrite child_key_contains, node_explicit. cbn [truthy].
  rewrite node_type_str. cbn [bind]. rewrite H. reflexivity.
Qed.

Lemma params_numbered : forall D g ps n acc, g_names D g -> forallb (param_ok D) ps = true ->
  foldM (param_step g) (numbered (map node_pv (map tree_of_param ps)) n) acc = Some (acc ++ map (rparam_of D) ps)%list.
Proof.
  intros D g ps. induction ps as [|p r IH]; intros n acc Hg H.
  - cbn [map numbered foldM]. rewrite app_nil_r. reflexivity.
  - cbn [forallb] in H. apply andb_true_iff in H. destruct H as [H1 H2].
    cbn [map numbered foldM]. rewrite (param_step_child D g p n acc Hg H1). cbn [bind].
    rewrite (IH _ _ Hg H2), <- app_assoc. reflexivity.
Qed.

Lemma others_numbered : forall g ns n acc, (forall x, In x ns -> kind_child_ok KOp (node_type x) = true) ->
  foldM (param_step g) (numbered (map node_pv ns) n) acc = Some acc.
Proof.
  intros g ns. induction ns as [|x r IH]; intros n acc H; [reflexivity|].
  cbn [map numbered foldM]. rewrite (param_step_other g x (dec n) acc (H x (or_introl eq_refl))). cbn [bind].
  apply IH. intros y Hy. apply H. right. exact Hy.
Qed.

(* the loop over the owned elements of an operation, in layout order: the parameters, the inert ones skipped *)
Lemma op_loop : forall D g o, g_names D g -> forallb (param_ok D) (so_params o) = true ->
  forall l seen n acc, nodup_tags l seen = true -> inerts_ok KOp l = true ->
  foldM (param_step g) (numbered (map node_pv (flat_map (slot_kids (op_item o)) l)) n) acc
  = Some (acc ++ if has_tag TChild l then map (rparam_of D) (so_params o) else [])%list.
Proof.
  intros D g o Hg Hps. induction l as [|s r IH]; intros seen n acc Hd Hi.
  - cbn [flat_map map numbered foldM has_tag existsb]. rewrite app_nil_r. reflexivity.
  - cbn [flat_map]. rewrite map_app, numbered_app, foldM_app.
    cbn [inerts_ok forallb] in Hi. apply andb_true_iff in Hi. destruct Hi as [Hi1 Hi2]. fold (inerts_ok KOp r) in Hi2.
    destruct s as [k v|t|it].
    + cbn [nodup_tags] in Hd. cbn [slot_kids map numbered foldM bind].
      unfold has_tag. cbn [existsb orb]. fold (has_tag TChild r). exact (IH seen _ acc Hd Hi2).
    + cbn [nodup_tags] in Hd. apply andb_true_iff in Hd. destruct Hd as [Hd1 Hd2].
      cbn [slot_kids]. rewrite op_tag_kids.
      unfold has_tag. cbn [existsb]. fold (has_tag TChild r).
      destruct t; cbn [map numbered foldM bind tag_eqb orb]; try exact (IH _ _ acc Hd2 Hi2).
      rewrite (params_numbered D g (so_params o) n acc Hg Hps). cbn [bind].
      rewrite (IH _ _ _ Hd2 Hi2), (nodup_tags_seen r (TChild :: seen) TChild Hd2 (or_introl eq_refl)), app_nil_r. reflexivity.
    + cbn [nodup_tags] in Hd. cbn [slot_kids].
      rewrite others_numbered.
      * cbn [bind]. unfold has_tag. cbn [existsb orb]. fold (has_tag TChild r). exact (IH seen _ acc Hd Hi2).
      * intros x Hx. unfold inert_ok in Hi1. split_andb. destruct it; try (destruct Hx; fail).
        cbn [UmlBlobText.kids_of] in Hx.
        match goal with H : forallb _ _ = true |- _ => rewrite forallb_forall in H; exact (H x Hx) end.
Qed.

(* the owned elements of an operation body *)
Lemma children_of_items : forall ws o,
  children_of (items_of ws (op_item o) (so_layout o)) = flat_map (slot_kids (op_item o)) (so_layout o).
Proof. intros ws o. apply children_of_slots. Qed.

Lemma vis_pkg : forall c, String.eqb (py_strip (lower (vis_of_code c))) "package" = String.eqb (vis_of_code c) "package".
Proof.
  intro c. unfold vis_of_code.
  destruct (String.eqb c "71"); [reflexivity|]. destruct (String.eqb c "67"); [reflexivity|].
  destruct (String.eqb c "66"); [reflexivity|]. destruct (String.eqb c "68"); reflexivity.
Qed.

Lemma visibility_code : forall c, visibility_str (PStr c) = vis_of_code c.
Proof. reflexivity. Qed.

Lemma build_op : goal_op.
Proof.
  intros D g o Hg Hok.
  assert (Hok' := Hok). unfold op_ok in Hok'. split_andb.
  match goal with H : layout_ok _ _ = true |- _ => rename H into Hl end.
  match goal with H : inerts_ok _ _ = true |- _ => rename H into Hin end.
  match goal with H : forallb (param_ok D) _ = true |- _ => rename H into Hps end.
  unfold tree_of_op. rewrite node_explicit.
  rewrite (layout_body (tabsn (so_nl o) 3) (op_item o) (so_layout o) Hl).
  rewrite (children_of_items (tabsn (so_nl o) 3) o).
  assert (Hloop : foldM (param_step g)
                    (entries (items_of (tabsn (so_nl o) 3) (op_item o) (so_layout o))
                     ++ numbered (map node_pv (flat_map (slot_kids (op_item o)) (so_layout o))) 0)%list []
                  = Some (map (rparam_of D) (so_params o))).
  { rewrite foldM_app, foldM_skip.
    - cbn [bind]. destruct (layout_parts _ _ Hl) as [Hd [_ [_ [_ Hh]]]].
      rewrite (op_loop D g o Hg Hps (so_layout o) [] 0 [] Hd Hin). cbn [app].
      destruct (has_tag TChild (so_layout o)) eqn:E; [reflexivity|].
      destruct (so_params o) as [|p r] eqn:Ep; [reflexivity|].
      assert (Hc : op_item o TChild = Some (IChildren (tabsn (so_nl o) 3) "Child" (list_open (so_nl o) 4) (list_sep (so_nl o) 4)
                                              (list_close (so_nl o) 3) (map tree_of_param (p :: r)))).
      { cbn [op_item]. rewrite Ep. reflexivity. }
      rewrite (Hh _ _ Hc) in E. discriminate E.
    - intros kv acc Hi. unfold param_step. rewrite (op_entries_nochild D _ _ _ Hok Hi). reflexivity. }
  remember (map node_pv (flat_map (slot_kids (op_item o)) (so_layout o))) as vals eqn:Ev. clear Ev.
  assert (L1 : lookup String.eqb "visibility" (entries (items_of (tabsn (so_nl o) 3) (op_item o) (so_layout o)) ++ numbered vals 0)%list
               = match so_vis o with Some c => Some (PStr c) | None => None end).
  { rewrite (body_lookup _ _ _ _ _ TVis KOp Hl Hin); [|in_reserved|in_kind|reflexivity|other_tags (op_entries D o Hok)].
    rewrite (op_entries D o Hok). destruct (so_vis o) as [c|]; reflexivity. }
  assert (L2 : lookup String.eqb "returnType_0" (entries (items_of (tabsn (so_nl o) 3) (op_item o) (so_layout o)) ++ numbered vals 0)%list
               = match so_ret o with [] => None | _ => Some (PStr (path_text (so_ret o))) end).
  { rewrite (body_lookup _ _ _ _ _ TRet KOp Hl Hin); [|in_reserved|in_kind|reflexivity|other_tags (op_entries D o Hok)].
    rewrite (op_entries D o Hok). destruct (so_ret o); reflexivity. }
  assert (L3 : lookup String.eqb "typeModifier" (entries (items_of (tabsn (so_nl o) 3) (op_item o) (so_layout o)) ++ numbered vals 0)%list
               = if String.eqb (so_retmod o) "" then None else Some (PStr (so_retmod o))).
  { rewrite (body_lookup _ _ _ _ _ TTypeMod KOp Hl Hin); [|in_reserved|in_kind|reflexivity|other_tags (op_entries D o Hok)].
    rewrite (op_entries D o Hok). unfold opt_entry. destruct (String.eqb (so_retmod o) ""); reflexivity. }
  assert (L4 : lookup String.eqb "documentation_plain" (entries (items_of (tabsn (so_nl o) 3) (op_item o) (so_layout o)) ++ numbered vals 0)%list
               = match doc_field (tabsn (so_nl o) 3) (so_doc o) with Some _ => Some (PStr (doc_value (so_doc o))) | None => None end).
  { rewrite (body_lookup _ _ _ _ _ TDoc KOp Hl Hin); [|in_reserved|in_kind|reflexivity|other_tags (op_entries D o Hok)].
    rewrite (op_entries D o Hok). destruct (doc_field (tabsn (so_nl o) 3) (so_doc o)); reflexivity. }
  assert (L5 : lookup String.eqb "scope" (entries (items_of (tabsn (so_nl o) 3) (op_item o) (so_layout o)) ++ numbered vals 0)%list
               = if so_static o then Some (PStr "65") else None).
  { rewrite (body_lookup _ _ _ _ _ TScope KOp Hl Hin); [|in_reserved|in_kind|reflexivity|other_tags (op_entries D o Hok)].
    rewrite (op_entries D o Hok). destruct (so_static o); reflexivity. }
  assert (L6 : lookup String.eqb "abstract" (entries (items_of (tabsn (so_nl o) 3) (op_item o) (so_layout o)) ++ numbered vals 0)%list
               = if so_abstract o then Some (PStr "T") else None).
  { rewrite (body_lookup _ _ _ _ _ TAbstract KOp Hl Hin); [|in_reserved|in_kind|reflexivity|other_tags (op_entries D o Hok)].
    rewrite (op_entries D o Hok). destruct (so_abstract o); reflexivity. }
  assert (L7 : lookup String.eqb "query" (entries (items_of (tabsn (so_nl o) 3) (op_item o) (so_layout o)) ++ numbered vals 0)%list
               = if so_query o then Some (PStr "T") else None).
  { rewrite (body_lookup _ _ _ _ _ TQuery KOp Hl Hin); [|in_reserved|in_kind|reflexivity|other_tags (op_entries D o Hok)].
    rewrite (op_entries D o Hok). destruct (so_query o); reflexivity. }
  remember (entries (items_of (tabsn (so_nl o) 3) (op_item o) (so_layout o)) ++ numbered vals 0)%list as dict eqn:Ed. clear Ed.
  unfold param_step in Hloop.
  unfold parse_operation. rewrite node_name_str. cbn [bind]. rewrite node_child0. cbn [bind].
  rewrite !has_dict, !idx_dict, !sidx_dict, !opt_field_dict.
  rewrite L1, L2, L3, L4, L5, L6, L7.
  cbn [items].
  assert (Hvis : (if match match so_vis o with Some c => Some (PStr c) | None => None end with Some _ => true | None => false end
                  then x <- match so_vis o with Some c => Some (PStr c) | None => None end ;; Some (visibility_str x)
                  else Some "public")
                 = Some match so_vis o with Some c => vis_of_code c | None => "public" end).
  { destruct (so_vis o); reflexivity. }
  rewrite Hvis. cbn [bind].
  assert (Hret : (if match match so_ret o with [] => None | _ => Some (PStr (path_text (so_ret o))) end with Some _ => true | None => false end
                  then t <- (x <- match so_ret o with [] => None | _ => Some (PStr (path_text (so_ret o))) end ;; as_str x) ;;
                       n <- nested_type_names g t ;; Some (clean_modifiers n)
                  else Some "void")
                 = Some match so_ret o with [] => "void" | _ => clean_modifiers (type_name D (so_ret o)) end).
  { destruct (so_ret o) as [|i r] eqn:Er; [reflexivity|].
    cbn [bind as_str]. apply typed_path; [exact Hg|assumption|discriminate]. }
  rewrite Hret. cbn [bind]. rewrite Hloop. cbn [bind].
  unfold rop_of.
  assert (Hpkg : String.eqb (py_strip (lower match so_vis o with Some c => vis_of_code c | None => "public" end)) "package"
                 = String.eqb match so_vis o with Some c => vis_of_code c | None => "public" end "package").
  { destruct (so_vis o); [apply vis_pkg|reflexivity]. }
  rewrite Hpkg. cbn zeta.
  destruct (doc_field (tabsn (so_nl o) 3) (so_doc o)) eqn:E2; [|rewrite (doc_absent _ _ E2)];
    destruct (so_ret o); destruct (String.eqb (so_retmod o) "") eqn:E1;
    try (apply String.eqb_eq in E1; rewrite E1);
    destruct (so_static o); destruct (so_abstract o); destruct (so_query o); reflexivity.
Qed.

Print Assumptions build_op.

(* the statements other files rely on *)
Goal True.
  pose proof (nested_names : forall S g ids, g_names S g -> path_ok S ids = true -> ids <> [] ->
    nested_type_names g (path_text ids) = Some (type_name S ids)).
  pose proof (typed_path : forall S g ids, g_names S g -> tpath_ok S ids = true -> ids <> [] ->
    (n <- nested_type_names g (path_text ids) ;; Some (clean_modifiers n)) = Some (clean_modifiers (type_name S ids))).
  pose proof (build_param : goal_param).
  pose proof (build_op : goal_op).
  pose proof (unq_q : forall v, unq (q v) = v).
  pose proof (@foldM_app : forall {A S0} (f : S0 -> A -> option S0) l1 l2 s,
    foldM f (l1 ++ l2)%list s = (s' <- foldM f l1 s ;; foldM f l2 s')).
  pose proof (@foldM_skip : forall {A S0} (f : S0 -> A -> option S0) l s,
    (forall x s', In x l -> f s' x = Some s') -> foldM f l s = Some s).
  pose proof (noise_key_neq : forall k r, noise_key k = true -> In r reserved_keys -> k <> r).
  pose proof (noise_key_part : forall k p, noise_key k = true -> In p reserved_parts -> contains p (lower k) = false).
  pose proof (layout_body : forall ws f l, layout_ok f l = true ->
    body_pv (items_of ws f l) = PDict (entries (items_of ws f l) ++ numbered (map node_pv (children_of (items_of ws f l))) 0)%list).
  pose proof (children_of_items : forall ws o,
    children_of (items_of ws (op_item o) (so_layout o)) = flat_map (slot_kids (op_item o)) (so_layout o)).
  pose proof (text_field_entries : forall ws k v, vtxt v = true ->
    match text_field ws k v with Some it => item_entries it | None => [] end = opt_entry k v).
  exact Logic.I.
Qed.
