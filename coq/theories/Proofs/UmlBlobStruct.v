(* C19 adaptor: the structural reading of a structured blob (what Python dictionary it stands for) and its brace forest. *)
From Coq Require Import String Ascii List Bool Arith.
From KV Require Import Lib.Str Lib.ODict Gen.VppSrc Model.Vpp Model.VppWriter Model.Uml Model.UmlBlob Model.UmlWriter Proofs.UmlBlobDefs.
Import ListNotations.
Open Scope string_scope.

Definition R (s : string) : string := repr_body SQ s.

(* a text without its last character *)
Fixpoint chop (s : string) : string :=
  match s with EmptyString => "" | String c EmptyString => "" | String c r => String c (chop r) end.

Definition seg_of (it : witem) : seg :=
  match it with
  | IField ws k v => SField ws k v
  | IRefs ws k o sep c ids => SRefs ws k o sep c ids
  | IChildren ws k o sep c ns => SChildren ws k o sep c (List.length ns)
  | IRaw s => SRaw (chop s)              (* a free-text piece  text;  *)
  | IInert s => SField "" "" ""          (* excluded by wf_node *)
  end.

(* children["child_" + str(len(children))] = child *)
Definition number_children (vals : list pv) : list (string * pv) :=
  fold_left (fun cs v => upsert String.eqb ("child_" ++ dec (List.length cs)) v cs) vals [].

Definition with_children (fields : list (string * pv)) (children : list (string * pv)) : pv :=
  PDict (fold_left (fun acc kv => upsert String.eqb (fst kv) (snd kv) acc) children fields).

(* the dictionary of an element (as a child of another one) and of its body *)
Fixpoint node_pv (n : wnode) : pv :=
  match n with
  | WNode id nm ty its _ =>
      with_children [("id", PStr id); ("name", PStr (name_text nm)); ("type", PStr ty)]
        (number_children [with_children (segs_fields (map seg_of its))
           (number_children ((fix kids (l : list witem) : list pv :=
                                match l with
                                | [] => []
                                | IChildren _ _ _ _ _ ns :: r => ((fix each (l : list wnode) : list pv := match l with [] => [] | x :: t => node_pv x :: each t end) ns ++ kids r)%list
                                | _ :: r => kids r
                                end) its))])
  end.

Definition children_of (its : list witem) : list wnode :=
  flat_map (fun it => match it with IChildren _ _ _ _ _ ns => ns | _ => [] end) its.
Definition body_pv (its : list witem) : pv :=
  with_children (segs_fields (map seg_of its)) (number_children (map node_pv (children_of its))).

(* the dictionary ParseBLOB_Recursive returns for the whole blob of a row (str(bytes) adds b' and ') *)
Definition top_pv (n : wnode) : pv :=
  match n with
  | WNode id nm ty its _ =>
      with_children [("id", PStr (String "b" (String SQ id))); ("name", PStr (name_text nm)); ("type", PStr (ty ++ " '"))]
        (number_children [body_pv its])
  end.

(* ... the same when the element NAME may hold colons (top level only: UmlBlobDefs.top_head) *)
Definition top_pv_c (n : wnode) : pv :=
  match n with
  | WNode id nm ty its _ => with_children (top_head id nm ty) (number_children [body_pv its])
  end.

(* domain of the text-level theorem: plain keys, values, ids; layout strings made of line breaks, tabs, blanks, ( ) , ;
   free text (IRaw: e.g. an HTML documentation) with closed quoted texts and no ';' or brace outside them *)
Fixpoint wf_node (n : wnode) : bool :=
  match n with
  | WNode id nm ty its tl =>
      headok id nm ty && wsok tl
      && (fix items (l : list witem) : bool :=
            match l with
            | [] => true
            | it :: r =>
                match it with
                | IInert _ => false
                | IRaw s => String.eqb s (chop s ++ ";") && raw_ok (chop s)
                | IChildren ws k o sep c ns =>
                    seg_ok (seg_of it) && (fix each (l : list wnode) : bool := match l with [] => true | x :: t => wf_node x && each t end) ns
                | _ => seg_ok (seg_of it)
                end && items r
            end) its
  end.

(* braces: none in ids, names, types, keys, reference ids and unquoted values; a "quoted value" may hold them *)
Fixpoint nbq_node (n : wnode) : bool :=
  match n with
  | WNode id nm ty its tl =>
      nobrace id && nobrace (name_text nm) && nobrace ty
      && (fix items (l : list witem) : bool :=
            match l with
            | [] => true
            | it :: r =>
                match it with
                | IField _ k v => nobrace k && (prefixb dq v || nobrace v)
                | IRefs _ k _ _ _ ids => nobrace k && forallb nobrace ids
                | IChildren _ k _ _ _ ns => nobrace k && (fix each (l : list wnode) : bool := match l with [] => true | x :: t => nbq_node x && each t end) ns
                | _ => true
                end && items r
            end) its
  end.

(* str(bytes) quotes with an apostrophe unless the bytes hold an apostrophe and no double quote *)
(* the domain for a row's blob: as wf_node, but the NAME in the top-level header may hold colons *)
Definition wf_top (n : wnode) : bool :=
  match n with
  | WNode id nm ty its tl => headok_top id nm ty && wf_node (WNode id None ty its tl)
  end.

Definition quote_ok (s : string) : bool := negb (no_char DQ s) || no_char SQ s.
