(* C19 adaptor: the structural reading of a structured blob (what Python dictionary it stands for) and its brace forest. *)
From Coq Require Import String Ascii List Bool Arith.
From KV Require Import Lib.Str Lib.ODict Gen.VppSrc Model.Vpp Model.VppWriter Model.Uml Model.UmlBlob Model.UmlWriter Proofs.UmlBlobDefs.
Import ListNotations.
Open Scope string_scope.

Definition R (s : string) : string := repr_body SQ s.

(* children["child_" + str(len(children))] = child *)
Definition number_children (vals : list pv) : list (string * pv) :=
  fold_left (fun cs v => upsert String.eqb ("child_" ++ dec (List.length cs)) v cs) vals [].

Definition with_children (fields : list (string * pv)) (children : list (string * pv)) : pv :=
  PDict (fold_left (fun acc kv => upsert String.eqb (fst kv) (snd kv) acc) children fields).

(* the dictionary of an element (as a child of another one) and of its body *)
Fixpoint node_pv (n : wnode) : pv :=
  match n with
  | WNode id nm ty its _ =>
      with_children [("id", PStr id); ("name", PStr (name_text nm)); ("type", PStr ty)]
        (number_children [with_children (segs_fields (map seg_of its))
           (number_children ((fix kids (l : list witem) : list pv :=
                                match l with
                                | [] => []
                                | IChildren _ _ _ _ _ ns :: r => ((fix each (l : list wnode) : list pv := match l with [] => [] | x :: t => node_pv x :: each t end) ns ++ kids r)%list
                                | _ :: r => kids r
                                end) its))])
  end.

Definition children_of (its : list witem) : list wnode :=
  flat_map (fun it => match it with IChildren _ _ _ _ _ ns => ns | _ => [] end) its.
Definition body_pv (its : list witem) : pv :=
  with_children (segs_fields (map seg_of its)) (number_children (map node_pv (children_of its))).

(* the dictionary ParseBLOB_Recursive returns for the whole blob of a row (str(bytes) adds b' and ') *)
Definition top_pv (n : wnode) : pv :=
  match n with
  | WNode id nm ty its _ =>
      with_children [("id", PStr (String "b" (String SQ id))); ("name", PStr (name_text nm)); ("type", PStr (ty ++ " '"))]
        (number_children [body_pv its])
  end.

(* ... the same when the element NAME may hold colons (top level only: UmlBlobDefs.top_head) *)
Definition top_pv_c (n : wnode) : pv :=
  match n with
  | WNode id nm ty its _ => with_children (top_head id nm ty) (number_children [body_pv its])
  end.

