(* Lines without "<<<": inert for every stage and phase of the engine. *)
From Coq Require Import String Ascii List Bool Arith Lia.
From KV Require Import Lib.Str Lib.StrOps Lib.ODict Gen.Tags Gen.Pipeline Model.Engine Model.EngineSM Model.EngineDomain
                       Model.EngineDomain16 Spec.RefExpand Spec.RefExpand16
                       Proofs.StrProofs Proofs.EngineStr Proofs.EngineRepl Proofs.EngineC17 Proofs.EnginePipe Proofs.EngineC16
                       Proofs.EngineBlock.
Import ListNotations.
Open Scope string_scope.
Open Scope list_scope.

(* ---------------------------------------------------------------- lines without "<<<" *)
Definition tagfree (s : string) : bool := no3 s.

Lemma tagfree_findall s : tagfree s = true -> findall s = [].
Proof. apply no3_findall. Qed.

Lemma tagfree_hasTag s : tagfree s = true -> hasTag s = false.
Proof. intros H. unfold hasTag. rewrite (tagfree_findall s H). reflexivity. Qed.

Lemma tagfree_specific s t : tagfree s = true -> hasSpecificTag s t = false.
Proof. intros H. unfold hasSpecificTag. rewrite (tagfree_hasTag s H). reflexivity. Qed.

Definition starts3 (p : string) : bool := prefixb OPEN3 p.

Lemma tagfree_contains p s : starts3 p = true -> tagfree s = true -> contains p s = false.
Proof. apply no3_contains. Qed.

Lemma init_tags_start_lt : forallb (fun tv => starts3 (fst tv)) init_state_tags = true.
Proof. vm_compute. reflexivity. Qed.
Lemma first_filter_start_lt : forallb starts3 first_filter_tags = true.
Proof. vm_compute. reflexivity. Qed.

(* a tag-free line is inert for every stage whatever its tags are *)
Lemma tagfree_stage_inert s st : tagfree s = true -> stage_inert s st = true.
Proof.
  intros H. destruct st as [[[[kind b] e] inner] coll]. unfold stage_inert.
  destruct (String.eqb kind "Init").
  - pose proof init_tags_start_lt as I. revert I. generalize init_state_tags. induction l as [|tv l IH]; [reflexivity|].
    cbn [forallb]. intros I. apply andb_prop in I as [I1 I2]. rewrite (tagfree_contains _ s I1 H), (IH I2). reflexivity.
  - destruct (String.eqb kind "Single"); rewrite ?(tagfree_specific s b H), ?(tagfree_specific s e H); reflexivity.
Qed.

Lemma tagfree_load_inert s : tagfree s = true -> (count_char LF s <=? 1)%nat = true -> load_inert s = true.
Proof.
  intros H Hc. unfold load_inert. rewrite !(tagfree_specific s _ H), Hc. cbn [negb andb]. rewrite andb_true_r.
  pose proof first_filter_start_lt as I. revert I. generalize first_filter_tags. induction l as [|t l IH]; [reflexivity|].
  cbn [forallb]. intros I. apply andb_prop in I as [I1 I2]. rewrite (tagfree_contains _ s I1 H), (IH I2). reflexivity.
Qed.

(* ---------------------------------------------------------------- expanded copies are tag-free *)
Lemma lookup_some_ok n : forall tb, forallb (fun kv : string * string => no_lg (snd kv)) tb = true ->
  existsb (String.eqb n) (map fst tb) = true -> exists v, lookup String.eqb n tb = Some v /\ no_lg v = true.
Proof.
  induction tb as [|[k v] tb IH]; cbn [forallb map existsb fst snd lookup]; intros H E; [discriminate|].
  apply andb_prop in H as [Hv H]. destruct (String.eqb n k); [exists v; auto|]. apply IH; assumption.
Qed.

Lemma closed_copy_litok tb : forall l, line_ok l = true -> forallb (closed_seg (map fst tb)) l = true ->
  forallb (fun kv : string * string => no_lg (snd kv)) tb = true -> lit_ok (render_body (map (subst16 tb) l)) = true.
Proof.
  induction l as [|g l IH]; intros Hl Hc Hv; [reflexivity|].
  cbn [line_ok forallb] in Hl, Hc. apply andb_prop in Hl as [Hg Hl]. fold (line_ok l) in Hl. apply andb_prop in Hc as [Hcg Hc].
  cbn [map render_body]. apply lit_ok_app; [|exact (IH Hl Hc Hv)].
  destruct g as [s|n [d|]]; cbn [closed_seg] in Hcg; [exact Hg|discriminate|].
  cbn [subst16]. destruct (lookup_some_ok n tb Hv Hcg) as (v & Ev & Hvv). rewrite Ev. exact (no_lg_lit_ok v Hvv).
Qed.

Lemma copy_tagfree tb l : line_ok l = true -> forallb (closed_seg (map fst tb)) l = true ->
  forallb (fun kv : string * string => no_lg (snd kv)) tb = true -> tagfree (render_line (map (subst16 tb) l)) = true.
Proof.
  intros Hl Hc Hv. unfold tagfree, render_line. apply no3_app; [apply lit_ok_no3; exact (closed_copy_litok tb l Hl Hc Hv)|reflexivity].
Qed.


Lemma forallb_impl {A} (f g : A -> bool) l : (forall x, f x = true -> g x = true) -> forallb f l = true -> forallb g l = true.
Proof. intros H. induction l as [|x l IH]; [reflexivity|]. cbn [forallb]. intros K. apply andb_prop in K as [K1 K2]. rewrite (H x K1), (IH K2). reflexivity. Qed.

