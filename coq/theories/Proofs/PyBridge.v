(* C08 bridge: the reference expansion (Spec/RefExpand16.v, which the engine's output equals by C16_engine_is_ref) of the
   "State Processing" region of the SHIPPED Python template reads, line by line, as the abstract program gen_py of
   Model/PySM.v.  The region's shape is computed from Gen/Templates.v: if the template's text changes this file stops compiling. *)
From Coq Require Import String Ascii List Bool Arith Lia.
From KV Require Import Lib.Str Lib.StrOps Lib.ODict Lib.TableDef Gen.Tags Gen.Templates Gen.PyTmpl Model.TTable Model.PyShape Model.PySM
                       Model.Engine Model.EngineSM Model.EngineDomain Model.EngineDomain16 Model.Parse16 Spec.RefExpand Spec.RefExpand16
                       Model.PyRender Proofs.EngineStr Proofs.PySMGen.
Import ListNotations.
Open Scope string_scope.
Open Scope list_scope.

Definition gbody : list uline :=
  [[Lit "            if self.context."; Tag "GUARDNAME" (Some "if True:"); Lit "(event):"];
   [Lit "                self.context.On"; Tag "STATENAMEIFNEXTSTATE" None; Lit "Exit(event)"];
   [Lit "                self.context."; Tag "ACTIONNAME" None; Lit "(event)"];
   [Lit "                self.context.On"; Tag "NEXTSTATENAME" None; Lit "Entry(event)"];
   [Lit "                self.currentState = XStateId.c"; Tag "NEXTSTATENAME" None];
   [Lit "                return"]].

Definition ebody : list eitem :=
  [ELine [Lit "        if isinstance(event, "; Tag "EVENTNAME" None; Lit "):"]; EGuard "            " "            " gbody].

Definition sbody : list titem :=
  [TLine [Lit "    def process"; Tag "STATENAME" None; Lit "(self, event) -> None:"];
   TEvent "        " "        " ebody;
   TLine [Lit "        print(""XStateMachine no transition in state '"; Tag "STATENAME" None;
          Lit "' on event "", str(type(event)).replace(""<class '"",'').replace(""'>"",''));"];
   TLine [Lit "        self.context.NoTransition(event)"];
   TLine []].

Definition dbody : list titem :=
  [TLine [Lit "        if self.currentState == XStateId.c"; Tag "STATENAME" None; Lit ":"];
   TLine [Lit "            self.process"; Tag "STATENAME" None; Lit "(event)"];
   TLine [Lit "            return"]].

Lemma py_proc16_shape : py_proc16 =
  [Text "    def process(self, event) -> None:";
   Text "        #print(""XStateMachine::process "", str(type(event)).replace(""<class '"",'').replace(""'>"",''))";
   TransBlock "        " "        " dbody;
   Text "        # A state without outgoing transitions has no handler : nothing can fire.";
   Text "        self.context.NoTransition(event)";
   Text "";
   TransBlock "    " "    " sbody;
   Text "    #@}"].
Proof. vm_compute. reflexivity. Qed.

Lemma py_proc16_checked : py_proc16_opt = Some py_proc16.
Proof. vm_compute. reflexivity. Qed.

(* ---------------------------------------------------------------- the abstract side *)
Definition proc_closed (t : table) : list line :=
  ([(4, ADef "process"); (8, ASkip)] ++
   flat_map dispatch_lines (tps_states t) ++
   [(8, ASkip); (8, ANoTrans); (0, ASkip)] ++
   flat_map (state_lines t) (tps_states t) ++ [(4, ASkip)])%list.

Lemma gen_proc_closed t : gen_proc t = proc_closed t.
Proof.
  unfold gen_proc, gen_from, py_process. expand_tmpl. rewrite expand_states_dispatch, expand_states_defs. reflexivity.
Qed.

Lemma gen_py_split t : gen_py t = [(4, ADef "__init__"); (8, AEntryStartup (getfirststate t)); (8, ASetState (getfirststate t))] ++ gen_proc t.
Proof. rewrite gen_py_closed, gen_proc_closed. reflexivity. Qed.

(* ---------------------------------------------------------------- line by line *)
Definition R (s : string) (l : line) : Prop := reads "X" s l = true.

Lemma Forall2_flat_map {A} (f : A -> list string) (g : A -> list line) l :
  (forall x, Forall2 R (f x) (g x)) -> Forall2 R (flat_map f l) (flat_map g l).
Proof. intros H. induction l as [|x l IH]; [constructor|]. cbn [flat_map]. apply Forall2_app; [apply H|exact IH]. Qed.

Lemma flat_map_map {A B C} (f : B -> list C) (g : A -> B) l : flat_map f (map g l) = flat_map (fun x => f (g x)) l.
Proof. induction l as [|x l IH]; [reflexivity|]. cbn [map flat_map]. rewrite IH. reflexivity. Qed.

Ltac line_eq :=
  unfold R, reads; cbn [snd fst];
  first [ apply String.eqb_eq; unfold render_pyline, atom_text; cbn; repeat rewrite app_assoc_s; cbn [append]; reflexivity
        | cbn; reflexivity ].

Lemma row_reads ev (r : TableDef.row) : Forall2 R (flat_map (ref_gline ev (trans_table r)) gbody) (row_lines r).
Proof.
  unfold trans_table, row_lines, row_body, guard_atom, opt, gbody.
  destruct (is_none (r_act r)), (is_none (TableDef.r_guard r)), (is_none (TableDef.r_next r));
    cbn; repeat (constructor; [line_eq|]); constructor.
Qed.

Lemma event_reads (t : table) s ev :
  Forall2 R (flat_map (ref_eitem ev (map trans_table (trans_of t s ev))) ebody) (event_lines t s ev).
Proof.
  unfold ebody, event_lines. cbn [flat_map ref_eitem]. rewrite app_nil_r. constructor; [line_eq|].
  rewrite flat_map_map. apply Forall2_flat_map. intros r. apply row_reads.
Qed.

Lemma state_reads (t : table) s :
  Forall2 R (flat_map (ref_titem s (map (fun ev => (ev, map trans_table (trans_of t s ev))) (events_of t s))) sbody) (state_lines t s).
Proof.
  unfold sbody, state_lines. cbn [flat_map ref_titem]. rewrite app_nil_r.
  constructor; [line_eq|]. apply Forall2_app.
  - rewrite flat_map_map. apply Forall2_flat_map. intros ev. cbn [fst snd]. apply event_reads.
  - repeat (constructor; [line_eq|]). constructor.
Qed.

Lemma dispatch_reads s evs : Forall2 R (flat_map (ref_titem s evs) dbody) (dispatch_lines s).
Proof. unfold dbody, dispatch_lines. cbn [flat_map ref_titem]. repeat (constructor; [line_eq|]). constructor. Qed.

(* The reference expansion of the shipped region, for EVERY table and interface: each line is the text of the corresponding
   abstract line of gen_py's process part (skip lines: blank / comment / print at the same indentation). *)
Theorem py_ref_reads (t : table) structs protos msgs :
  Forall2 R (flat_map (ref_item16 (elements_of t structs protos msgs)) py_proc16) (gen_proc t).
Proof.
  rewrite gen_proc_closed, py_proc16_shape. unfold proc_closed.
  cbn [flat_map ref_item16 el_tps elements_of]. rewrite app_nil_r. unfold ref_trans, tps_of. rewrite !flat_map_map. cbn [fst snd].
  constructor; [line_eq|]. constructor; [line_eq|]. apply Forall2_app.
  - apply Forall2_flat_map. intros s. apply dispatch_reads.
  - constructor; [line_eq|]. constructor; [line_eq|]. constructor; [line_eq|]. apply Forall2_app.
    + apply Forall2_flat_map. intros s. apply state_reads.
    + constructor; [line_eq|constructor].
Qed.

Lemma Forall2_reads_all ss ls : Forall2 R ss ls -> reads_all "X" ss ls = true.
Proof. induction 1 as [|s l ss ls H _ IH]; [reflexivity|]. cbn [reads_all]. unfold R in H. rewrite H, IH. reflexivity. Qed.

(* boolean form, and the engine: for every table model the file the pipeline writes from the region is the concatenation of
   lines that read as gen_py's process part *)
Theorem py_ref_reads_b (t : table) structs protos msgs :
  reads_all "X" (flat_map (ref_item16 (elements_of t structs protos msgs)) py_proc16) (gen_proc t) = true.
Proof. apply Forall2_reads_all, py_ref_reads. Qed.

(* ---------------------------------------------------------------- well-formed tables are admitted: no side condition left *)
From KV Require Import Proofs.CharClass Proofs.TTableProofs.

Lemma all_alnum_allc s : all_alnum s = allc alnumc s.
Proof. induction s as [|c s IH]; [reflexivity|]. cbn [all_alnum allc]. rewrite IH. reflexivity. Qed.

Lemma ident_ok_identc s : ident_ok s = true -> allc identc s = true.
Proof.
  destruct s as [|c s]; [discriminate|]. unfold ident_ok. intros H. do 3 (apply andb_prop in H as [H _]). apply andb_prop in H as [Hc Hs].
  cbn [allc]. rewrite all_alnum_allc in Hs. rewrite (allc_impl alnumc identc s alnum_ident Hs), andb_true_r.
  apply alnum_ident. unfold alnumc. change (StrOps.is_upper c) with (TTable.is_upper c). rewrite Hc. reflexivity.
Qed.

Lemma ident_family a b c s : ident_ok s = true -> forallb (fun kv : string * string => no_lg (snd kv)) (family a b c s) = true.
Proof.
  intros H. pose proof (ident_ok_identc s H) as K. unfold family. cbn [forallb snd].
  rewrite (ident_no_lg s K).
  change (camel s) with (camel_case_small s). unfold snake.
  rewrite (ident_no_lg _ (allc_camel identc lower_c_ident s K)).
  rewrite (ident_no_lg _ (allc_snake identc eq_refl lower_c_ident s K)). reflexivity.
Qed.

Lemma ident_of_opt s : ident_or_none s = true -> is_none s = false -> ident_ok s = true.
Proof. unfold ident_or_none. intros H N. rewrite N in H. exact H. Qed.

Lemma in_present x l : In x (TTable.present l) <-> In x l /\ is_none x = false.
Proof. unfold TTable.present. rewrite filter_In, negb_true_iff. tauto. Qed.

Lemma trans_table_wf (r : TableDef.row) : row_ok r = true -> trans_wf (trans_table r) = true.
Proof.
  unfold row_ok. intros H. do 4 (apply andb_prop in H as [H ?K]).
  unfold trans_table, trans_wf.
  destruct (is_none (r_act r)) eqn:Na, (is_none (TableDef.r_guard r)) eqn:Ng, (is_none (TableDef.r_next r)) eqn:Nn; cbn [app forallb fst snd];
    repeat match goal with
           | |- context [existsb ?f cond_names] => let e := eval vm_compute in (existsb f cond_names) in change (existsb f cond_names) with e
           end; cbn [andb];
    try pose proof (ident_family "" "" "" _ (ident_of_opt _ K0 Na)) as Fa;
    try pose proof (ident_family "" "" "" _ (ident_of_opt _ K Ng)) as Fg;
    try pose proof (ident_family "" "" "" _ (ident_of_opt _ K1 Nn)) as Fn;
    pose proof (ident_family "" "" "" _ H) as Fs;
    unfold family in *; cbn [forallb snd] in *;
    repeat match goal with F : _ && _ = true |- _ => apply andb_prop in F as [?F1 F] end;
    unfold camel, snake in *;
    repeat match goal with F : no_lg _ = true |- _ => rewrite F; clear F end; reflexivity.
Qed.

Lemma tps_wf_table (t : table) : forallb row_ok t = true -> tps_wf (tps_of t) = true.
Proof.
  intros Hok. rewrite forallb_forall in Hok.
  assert (Hrow : forall r, In r t -> row_ok r = true) by exact Hok.
  assert (Hstate : forall s, In s (tps_states t) -> ident_ok s = true).
  { intros s Hs. unfold tps_states in Hs. apply in_app_or in Hs as [Hs|Hs].
    - unfold src_states in Hs. apply In_dedup, in_present in Hs as [Hs N]. apply in_map_iff in Hs as (r & <- & Hr).
      specialize (Hrow r Hr). unfold row_ok in Hrow. do 4 (apply andb_prop in Hrow as [Hrow _]). exact Hrow.
    - destruct Gen.TTModelSrc.tt_tps_all_states; [|contradiction]. apply filter_In in Hs as [Hs _]. unfold TTable.states in Hs.
      apply In_dedup, in_present in Hs as [Hs N]. apply in_flat_map in Hs as (r & Hr & [E|[E|[]]]); subst s; specialize (Hrow r Hr); unfold row_ok in Hrow.
      + do 4 (apply andb_prop in Hrow as [Hrow _]). exact Hrow.
      + do 2 (apply andb_prop in Hrow as [Hrow _]). apply andb_prop in Hrow as [_ Hn]. exact (ident_of_opt _ Hn N). }
  unfold tps_wf, tps_of. apply forallb_forall. intros se Hse. apply in_map_iff in Hse as (s & <- & Hs). cbn [fst snd].
  unfold state_table. rewrite (ident_family _ _ _ s (Hstate s Hs)). cbn [andb].
  apply forallb_forall. intros et Het. apply in_map_iff in Het as (ev & <- & Hev). cbn [fst snd].
  assert (Iev : ident_ok ev = true).
  { unfold events_of in Hev. apply In_dedup, in_present in Hev as [Hev N]. apply in_map_iff in Hev as (r & <- & Hr). apply filter_In in Hr as [Hr _].
    specialize (Hrow r Hr). unfold row_ok in Hrow. do 3 (apply andb_prop in Hrow as [Hrow _]). apply andb_prop in Hrow as [_ He]. exact He. }
  unfold event_table. rewrite (ident_family _ _ _ ev Iev). cbn [andb].
  apply forallb_forall. intros tr Htr. apply in_map_iff in Htr as (r & <- & Hr). unfold trans_of, rows_for in Hr. apply filter_In in Hr as [Hr _].
  apply trans_table_wf. exact (Hrow r Hr).
Qed.

(* ---------------------------------------------------------------- the engine *)
From KV Require Import Gen.Pipeline Proofs.EngineWhole16 Proofs.PySMSem Spec.TableInterp.

Lemma py_proc16_in_grammar : in_grammar16 py_proc16 = true.
Proof. vm_compute. reflexivity. Qed.

Lemma py_proc16_wf (t : table) structs protos msgs :
  forallb row_ok t = true -> wf_elements16 py_proc16 (elements_of t structs protos msgs) = true.
Proof.
  intros H. rewrite py_proc16_shape. unfold wf_elements16. cbn [forallb item16_wf el_tps elements_of]. rewrite (tps_wf_table t H). reflexivity.
Qed.

Lemma wf_table_rows (t : table) : wf_table t = true -> forallb row_ok t = true.
Proof. unfold wf_table. intros H. do 6 (apply andb_prop in H as [H _]). apply andb_prop in H as [_ H]. exact H. Qed.

Lemma engine_lines_gen T tt structs protos msgs m dict :
  in_grammar16 T = true -> wf16_rows tt structs protos msgs T = true ->
  tt_model tt structs protos msgs = Some m -> dict_ok dict = true ->
  engine16 m dict T = Some (concat_lines (map tab4 (flat_map (ref_item16 (elements_of (table_of tt) structs protos msgs)) T))).
Proof. intros Hg Hw Hm Hd. exact (engine16_is_ref_table tt structs protos msgs m dict T Hm Hd Hg Hw). Qed.

(* For EVERY well-formed table: the file the engine's pipeline writes from the shipped region is a sequence of lines that read,
   one by one, as the process part of gen_py. *)
Theorem py_engine_reads tt structs protos msgs m dict :
  tt_model tt structs protos msgs = Some m -> dict_ok dict = true -> wf_table (table_of tt) = true ->
  exists L, engine16 m dict py_proc16 = Some (concat_lines (map tab4 L)) /\ reads_all "X" L (gen_proc (table_of tt)) = true.
Proof.
  intros Hm Hd Hw. exists (flat_map (ref_item16 (elements_of (table_of tt) structs protos msgs)) py_proc16). split.
  - apply engine_lines_gen; [exact py_proc16_in_grammar| |exact Hm|exact Hd].
    exact (py_proc16_wf (table_of tt) structs protos msgs (wf_table_rows _ Hw)).
  - apply py_ref_reads_b.
Qed.

(* ... and that program executes the table: C08_sem about what the engine writes *)
Theorem py_sem_engine tt structs protos msgs m dict :
  tt_model tt structs protos msgs = Some m -> dict_ok dict = true -> wf_table (table_of tt) = true -> forall evs gv,
  exists L prog,
    engine16 m dict py_proc16 = Some (concat_lines (map tab4 L))
    /\ reads_all "X" L (gen_proc (table_of tt)) = true
    /\ gen_py (table_of tt) = ([(4, ADef "__init__"); (8, AEntryStartup (getfirststate (table_of tt))); (8, ASetState (getfirststate (table_of tt)))] ++ gen_proc (table_of tt))%list
    /\ parse_indent (gen_py (table_of tt)) = Some prog
    /\ run_py prog evs gv = Some (table_interp (table_of tt) evs gv).
Proof.
  intros Hm Hd Hw evs gv. destruct (py_engine_reads tt structs protos msgs m dict Hm Hd Hw) as (L & HL & HR).
  destruct (py_sem (table_of tt) Hw evs gv) as (prog & HP & HRun).
  exists L, prog. split; [exact HL|]. split; [exact HR|]. split; [apply gen_py_split|]. split; [exact HP|exact HRun].
Qed.

(* ---------------------------------------------------------------- the constructor's lines (filterInitialState) *)
Lemma py_init16_shape : py_init16 =
  [Text "    def __init__(self, controller):";
   InitLine [Lit "        self.context.On"; Tag "STATE_0" None; Lit "Entry(EventStartup())"];
   InitLine [Lit "        self.currentState = XStateId.c"; Tag "STATE_0" None]].
Proof. vm_compute. reflexivity. Qed.

Lemma py_init16_checked : py_init16_opt = Some py_init16.
Proof. vm_compute. reflexivity. Qed.

Lemma py_init16_in_grammar : in_grammar16 py_init16 = true.
Proof. vm_compute. reflexivity. Qed.

Theorem py_init_reads (t : table) structs protos msgs :
  reads_all "X" (flat_map (ref_item16 (elements_of t structs protos msgs)) py_init16) (gen_init t) = true.
Proof.
  rewrite py_init16_shape. unfold gen_init. cbn [flat_map ref_item16 el_first elements_of app].
  apply Forall2_reads_all. repeat (constructor; [line_eq|]). constructor.
Qed.

Lemma first_state_ident (t : table) : wf_table t = true -> ident_ok (getfirststate t) = true.
Proof.
  intros H. pose proof (wf_table_rows t H) as Hr. destruct t as [|r t]; [discriminate|]. cbn [getfirststate forallb] in *.
  apply andb_prop in Hr as [Hr _]. unfold row_ok in Hr. do 4 (apply andb_prop in Hr as [Hr _]). exact Hr.
Qed.

Lemma py_init16_wf (t : table) structs protos msgs :
  wf_table t = true -> wf_elements16 py_init16 (elements_of t structs protos msgs) = true.
Proof.
  intros H. rewrite py_init16_shape. unfold wf_elements16. cbn [forallb item16_wf el_first elements_of].
  unfold init_table. change ([("STATE_0", getfirststate t); ("state_0", camel (getfirststate t))]) with
    (firstn 2 (family "STATE_0" "state_0" "" (getfirststate t))).
  pose proof (ident_family "STATE_0" "state_0" "" _ (first_state_ident t H)) as F. unfold family in *. cbn [forallb snd firstn] in *.
  apply andb_prop in F as [F1 F]. apply andb_prop in F as [F2 _]. rewrite F1, F2. reflexivity.
Qed.

Theorem py_engine_init_reads tt structs protos msgs m dict :
  tt_model tt structs protos msgs = Some m -> dict_ok dict = true -> wf_table (table_of tt) = true ->
  exists L0, engine16 m dict py_init16 = Some (concat_lines (map tab4 L0)) /\ reads_all "X" L0 (gen_init (table_of tt)) = true.
Proof.
  intros Hm Hd Hw. exists (flat_map (ref_item16 (elements_of (table_of tt) structs protos msgs)) py_init16). split.
  - apply engine_lines_gen; [exact py_init16_in_grammar| |exact Hm|exact Hd].
    exact (py_init16_wf (table_of tt) structs protos msgs Hw).
  - apply py_init_reads.
Qed.

(* C08_sem about everything gen_py consists of: the constructor's lines and the process part, both as the engine writes them *)
Theorem py_sem_engine_full tt structs protos msgs m dict :
  tt_model tt structs protos msgs = Some m -> dict_ok dict = true -> wf_table (table_of tt) = true -> forall evs gv,
  exists L0 L prog,
    engine16 m dict py_init16 = Some (concat_lines (map tab4 L0))
    /\ engine16 m dict py_proc16 = Some (concat_lines (map tab4 L))
    /\ reads_all "X" (L0 ++ L) (gen_py (table_of tt)) = true
    /\ parse_indent (gen_py (table_of tt)) = Some prog
    /\ run_py prog evs gv = Some (table_interp (table_of tt) evs gv).
Proof.
  intros Hm Hd Hw evs gv.
  destruct (py_engine_init_reads tt structs protos msgs m dict Hm Hd Hw) as (L0 & H0 & R0).
  destruct (py_engine_reads tt structs protos msgs m dict Hm Hd Hw) as (L & HL & HR).
  destruct (py_sem (table_of tt) Hw evs gv) as (prog & HP & HRun).
  exists L0, L, prog. split; [exact H0|]. split; [exact HL|]. split; [|split; [exact HP|exact HRun]].
  rewrite gen_py_split. fold (gen_init (table_of tt)).
  clear -R0 HR. revert R0. generalize (gen_init (table_of tt)). induction L0 as [|s L0 IH]; intros [|g G] R0; try discriminate; [exact HR|].
  cbn [reads_all app] in *. apply andb_prop in R0 as [A B]. rewrite A. exact (IH G B).
Qed.


(* ---------------------------------------------------------------- the WHOLE shipped TEMPLATEStateMachine.py *)
From KV Require Import Proofs.EngineTps Proofs.Shipped16.

Lemma py_file16_checked : shipped16 dict0 py_file = Some (render16 py_file16, py_file16).
Proof. vm_compute. reflexivity. Qed.
Lemma py_file16_opt_eq : py_file16_opt = Some py_file16.
Proof. vm_compute. reflexivity. Qed.

(* the last eight items of the file are the State Processing region, items 34 / 40 / 41 the constructor's behaviour-deciding lines *)
Lemma py_file16_regions : skipn 79 py_file16 = py_proc16 /\ map (nth_error py_file16) [34; 40; 41] = map Some py_init16 /\ List.length py_file16 = 87.
Proof. split; [|split]; vm_compute; reflexivity. Qed.

Lemma ref_lines_proc e : flat_map (ref_item16 e) py_file16 = flat_map (ref_item16 e) (firstn 79 py_file16) ++ flat_map (ref_item16 e) py_proc16.
Proof. rewrite <- (proj1 py_file16_regions). rewrite <- flat_map_app, firstn_skipn. reflexivity. Qed.

(* the process region only looks at the transitions-per-state structure of the element record *)
Lemma proc_lines_tps e1 e2 : el_tps e1 = el_tps e2 -> flat_map (ref_item16 e1) py_proc16 = flat_map (ref_item16 e2) py_proc16.
Proof. intros H. rewrite py_proc16_shape. cbn [flat_map ref_item16]. rewrite H. reflexivity. Qed.

Lemma init_lines_first e1 e2 : el_first e1 = el_first e2 -> flat_map (ref_item16 e1) py_init16 = flat_map (ref_item16 e2) py_init16.
Proof. intros H. rewrite py_init16_shape. cbn [flat_map ref_item16]. rewrite H. reflexivity. Qed.

(* For EVERY table, interface, oracle of signature strings and assignment of user tags admitted for the file (py_file_wf, computed): what
   smgen.Generate's pipeline writes from the WHOLE shipped TEMPLATEStateMachine.py is the reference expansion of the file; its text is
   Lpre ++ L where L, the expansion of the last eight items, reads line by line as the process part of gen_py, and items 34 / 40 / 41 expand to
   the lines that read as the constructor part. *)
Theorem py_file_engine (tt : list EngineSM.row) (structs protos msgs : list string) (m : smodel) (sigs : list (string * (string * string))) (a : usertags) :
  tt_model tt structs protos msgs = Some m -> py_file_wf tt structs protos msgs sigs a = true ->
  generate_file (with_sigs sigs m) dict0 a py_file = Some (py_file_ref tt structs protos msgs sigs a)
  /\ exists Lpre L L0,
       flat_map (ref_item16 (py_elements tt structs protos msgs sigs a)) py_file16 = Lpre ++ L
       /\ reads_all "X" L (gen_proc (table_of tt)) = true
       /\ L0 = flat_map (ref_item16 (py_elements tt structs protos msgs sigs a)) (flat_map (fun k => match nth_error py_file16 k with Some it => [it] | None => [] end) [34; 40; 41])
       /\ reads_all "X" L0 (gen_init (table_of tt)) = true.
Proof.
  intros Hm Hw. split.
  - unfold py_file_ref, py_file_wf, py_elements in *. rewrite py_file16_opt_eq in Hw.
    rewrite <- (model_elements_full tt structs protos msgs m Hm). rewrite <- (model_elements_full tt structs protos msgs m Hm) in Hw.
    change (with_evsigs sigs (elements_of_model m)) with (elements_of_model (with_sigs sigs m)) in *.
    exact (shipped_output_user py_file (render16 py_file16) py_file16 py_file16_checked (with_sigs sigs m) a Hw).
  - set (e := py_elements tt structs protos msgs sigs a).
    exists (flat_map (ref_item16 e) (firstn 79 py_file16)), (flat_map (ref_item16 e) py_proc16).
    exists (flat_map (ref_item16 e) py_init16). split; [apply ref_lines_proc|]. split; [|split].
    + rewrite (proc_lines_tps e (elements_of (table_of tt) structs protos msgs) eq_refl). apply py_ref_reads_b.
    + assert (E : flat_map (fun k => match nth_error py_file16 k with Some it => [it] | None => [] end) [34; 40; 41] = py_init16) by (vm_compute; reflexivity).
      rewrite E. reflexivity.
    + rewrite (init_lines_first e (elements_of (table_of tt) structs protos msgs) eq_refl). apply py_init_reads.
Qed.

(* C08_sem over the whole file *)
Theorem py_sem_engine_whole (tt : list EngineSM.row) (structs protos msgs : list string) (m : smodel) (sigs : list (string * (string * string))) (a : usertags) :
  tt_model tt structs protos msgs = Some m -> py_file_wf tt structs protos msgs sigs a = true -> wf_table (table_of tt) = true -> forall evs gv,
  exists Lpre L L0 prog,
    generate_file (with_sigs sigs m) dict0 a py_file = Some (concat_lines (map tab4 (Lpre ++ L)))
    /\ reads_all "X" L (gen_proc (table_of tt)) = true
    /\ L0 = flat_map (ref_item16 (py_elements tt structs protos msgs sigs a)) (flat_map (fun k => match nth_error py_file16 k with Some it => [it] | None => [] end) [34; 40; 41])
    /\ reads_all "X" L0 (gen_init (table_of tt)) = true
    /\ gen_py (table_of tt) = (gen_init (table_of tt) ++ gen_proc (table_of tt))%list
    /\ parse_indent (gen_py (table_of tt)) = Some prog
    /\ run_py prog evs gv = Some (table_interp (table_of tt) evs gv).
Proof.
  intros Hm Hw Hwf evs gv. destruct (py_file_engine tt structs protos msgs m sigs a Hm Hw) as (G & Lpre & L & L0 & E & R & E0 & R0).
  destruct (py_sem (table_of tt) Hwf evs gv) as (prog & HP & HRun).
  exists Lpre, L, L0, prog. split; [|split; [exact R|split; [exact E0|split; [exact R0|split; [apply gen_py_split|split; [exact HP|exact HRun]]]]]].
  rewrite G. unfold py_file_ref, ref16. rewrite E. reflexivity.
Qed.
