(* C19 semantic read-back: the dictionaries of structured blobs in explicit form (entries ++ numbered children), and
   lookups in the entries of a layout. *)
From Coq Require Import String Ascii List Bool Arith Lia.
From KV Require Import Lib.Str Lib.ODict Model.Vpp Model.VppWriter Model.Uml Model.UmlBlob Model.UmlWriter Model.UmlSem
                       Proofs.UmlBlobDefs Proofs.UmlBlobStruct Proofs.UmlBlobText Proofs.UmlSemDefs.
Import ListNotations.
Open Scope string_scope.

(* ---------------------------------------------------------------- generic dictionary facts *)

Lemma lookup_app : forall (k : string) (a b : list (string * UmlBlob.pv)),
  lookup String.eqb k (a ++ b)%list = match lookup String.eqb k a with Some v => Some v | None => lookup String.eqb k b end.
Proof.
  intros k a b. induction a as [|[k' v'] r IH]; [reflexivity|].
  cbn [app lookup]. destruct (String.eqb k k'); [reflexivity|exact IH].
Qed.

Lemma mem_lookup : forall (k : string) (d : list (string * UmlBlob.pv)),
  mem String.eqb k d = match lookup String.eqb k d with Some _ => true | None => false end.
Proof. reflexivity. Qed.

Lemma upsert_new : forall (V : Type) k (v : V) d,
  ~ In k (map fst d) -> upsert String.eqb k v d = (d ++ [(k, v)])%list.
Proof.
  intros V k v d. induction d as [|[k' v'] r IH]; intros H.
  - reflexivity.
  - cbn [upsert app]. cbn [map fst In] in H.
    destruct (String.eqb k k') eqn:E.
    + apply String.eqb_eq in E. subst. exfalso. apply H. left. reflexivity.
    + rewrite IH; auto.
Qed.

Lemma NoDup_app_intro : forall (A : Type) (a b : list A),
  NoDup a -> NoDup b -> (forall x, In x a -> ~ In x b) -> NoDup (a ++ b)%list.
Proof.
  induction a as [|x r IH]; intros b Ha Hb Hd; [exact Hb|].
  cbn [app]. inversion Ha; subst. constructor.
  - intro Hin. apply in_app_or in Hin. destruct Hin as [Hin|Hin]; [contradiction|].
    apply (Hd x); [left; reflexivity|exact Hin].
  - apply IH; auto. intros y Hy. apply Hd. right. exact Hy.
Qed.

Lemma NoDup_app_left : forall (A : Type) (a b : list A), NoDup (a ++ b)%list -> NoDup a.
Proof.
  induction a as [|x r IH]; intros b H; [constructor|].
  cbn [app] in H. inversion H; subst. constructor.
  - intro Hin. apply H2. apply in_or_app. left. exact Hin.
  - apply (IH b). exact H3.
Qed.

Lemma existsb_eqb_notin : forall x l, existsb (String.eqb x) l = false -> ~ In x l.
Proof.
  induction l as [|y r IH]; intros H Hin; [exact Hin|].
  cbn [existsb] in H. apply orb_false_iff in H. destruct H as [H1 H2].
  destruct Hin as [Hin|Hin].
  - subst y. rewrite String.eqb_refl in H1. discriminate.
  - exact (IH H2 Hin).
Qed.

Lemma nodups_NoDup : forall l, nodups l = true -> NoDup l.
Proof.
  induction l as [|x r IH]; intros H; [constructor|].
  cbn [nodups] in H. apply andb_true_iff in H. destruct H as [H1 H2].
  constructor.
  - apply negb_true_iff in H1. apply existsb_eqb_notin. exact H1.
  - exact (IH H2).
Qed.

Lemma fold_upsert_app : forall (ch acc : list (string * UmlBlob.pv)),
  NoDup (map fst acc ++ map fst ch)%list ->
  fold_left (fun acc kv => upsert String.eqb (fst kv) (snd kv) acc) ch acc = (acc ++ ch)%list.
Proof.
  induction ch as [|[k v] r IH]; intros acc H.
  - cbn [fold_left]. rewrite app_nil_r. reflexivity.
  - cbn [fold_left fst snd]. rewrite upsert_new.
    + rewrite IH.
      * rewrite <- app_assoc. reflexivity.
      * rewrite map_app. cbn [map fst]. rewrite <- app_assoc. exact H.
    + cbn [map fst] in H. apply NoDup_remove_2 in H. intro Hin. apply H. apply in_or_app. left. exact Hin.
Qed.

(* ---------------------------------------------------------------- (F0) str(n) is injective *)

Lemma dec_fuel_val : forall fuel n, n < fuel ->
  exists k, forall acc a, digits_val (dec_fuel fuel n acc) a = digits_val acc (a * 10 ^ k + n).
Proof.
  induction fuel as [|f IH]; intros n Hn; [lia|].
  cbn [dec_fuel].
  assert (Hd : n mod 10 < 10) by (apply Nat.mod_upper_bound; lia).
  assert (Hstep : forall acc a, digits_val (String (ascii_of_nat (48 + n mod 10)) acc) a = digits_val acc (a * 10 + n mod 10)).
  { intros acc a. cbn [digits_val]. rewrite nat_ascii_embedding by lia.
    replace (Nat.leb 48 (48 + n mod 10)) with true by (symmetry; apply Nat.leb_le; lia).
    replace (Nat.leb (48 + n mod 10) 57) with true by (symmetry; apply Nat.leb_le; lia).
    cbn [andb]. f_equal. lia. }
  destruct (Nat.ltb n 10) eqn:E.
  - apply Nat.ltb_lt in E. exists 1. intros acc a. rewrite Hstep. rewrite Nat.mod_small by exact E.
    rewrite Nat.pow_1_r. reflexivity.
  - apply Nat.ltb_ge in E. destruct (IH (n / 10)) as [k Hk].
    { assert (n / 10 < n) by (apply Nat.div_lt; lia). lia. }
    exists (S k). intros acc a. rewrite Hk, Hstep. f_equal. rewrite Nat.pow_succ_r'.
    assert (Hdm : n = 10 * (n / 10) + n mod 10) by (apply Nat.div_mod; lia).
    revert Hdm. generalize (n / 10), (n mod 10), (10 ^ k). intros q r P Hdm. lia.
Qed.

Lemma dec_val : forall n, digits_val (dec n) 0 = Some n.
Proof.
  intro n. unfold dec. destruct (dec_fuel_val (S n) n) as [k Hk]; [lia|].
  rewrite Hk. reflexivity.
Qed.

Lemma dec_inj : forall a b, dec a = dec b -> a = b.
Proof.
  intros a b H. pose proof (dec_val a) as Ha. rewrite H, dec_val in Ha. injection Ha as Ha. symmetry. exact Ha.
Qed.

Print Assumptions dec_inj.

(* ---------------------------------------------------------------- (F0b) vstep only upserts *)

Lemma idx_key_inj : forall K a b, K ++ "_" ++ dec a = K ++ "_" ++ dec b -> a = b.
Proof.
  induction K as [|c K IH]; intros a b H; cbn [append] in H; injection H as H.
  - apply dec_inj. exact H.
  - apply IH. exact H.
Qed.

(* the entries of the vector form  key=<e1>, <e2> : key_n, key_(n+1) ... for the pieces of which something is left *)
Fixpoint vents (K : string) (l : list string) (n : nat) : list (string * UmlBlob.pv) :=
  match l with
  | [] => []
  | i :: r => if Nat.ltb 0 (String.length (py_strip (remove_char "," (mass_replace i))))
              then (K ++ "_" ++ dec n, PStr (py_strip (remove_char "," (mass_replace i)))) :: vents K r (S n)
              else vents K r n
  end.

Lemma vector_fold : forall K l res n,
  fst (fold_left (fun (st : list (string * UmlBlob.pv) * nat) i =>
                    let i' := py_strip (remove_char "," (mass_replace i)) in
                    if Nat.ltb 0 (String.length i')
                    then (upsert String.eqb (K ++ "_" ++ dec (snd st)) (PStr i') (fst st), S (snd st))
                    else st) l (res, n))
  = fold_left (fun a kv => upsert String.eqb (fst kv) (snd kv) a) (vents K l n) res.
Proof.
  intros K l. induction l as [|i r IH]; intros res n; [reflexivity|].
  cbn [fold_left vents]. cbv zeta.
  destruct (Nat.ltb 0 (String.length (py_strip (remove_char "," (mass_replace i))))).
  - cbn [fst snd fold_left]. apply IH.
  - apply IH.
Qed.

Lemma vents_keys_in : forall K l n k, In k (map fst (vents K l n)) -> exists i, n <= i /\ k = K ++ "_" ++ dec i.
Proof.
  intros K l. induction l as [|x r IH]; intros n k H; [destruct H|].
  cbn [vents] in H. destruct (Nat.ltb 0 (String.length (py_strip (remove_char "," (mass_replace x))))).
  - cbn [map fst In] in H. destruct H as [H|H].
    + exists n. split; [lia|]. symmetry. exact H.
    + destruct (IH _ _ H) as [i [H1 H2]]. exists i. split; [lia|exact H2].
  - exact (IH _ _ H).
Qed.

Lemma vents_NoDup : forall K l n, NoDup (map fst (vents K l n)).
Proof.
  intros K l. induction l as [|x r IH]; intro n; [constructor|].
  cbn [vents]. destruct (Nat.ltb 0 (String.length (py_strip (remove_char "," (mass_replace x))))); [|apply IH].
  cbn [map fst]. constructor; [|apply IH].
  intro Hin. apply vents_keys_in in Hin. destruct Hin as [i [H1 H2]]. apply idx_key_inj in H2. lia.
Qed.

Lemma vector_entries_vents : forall k b1 acc, exists l,
  vector_entries k b1 acc = fold_left (fun a kv => upsert String.eqb (fst kv) (snd kv) a) (vents (mass_replace k) l 0) acc
  /\ vector_entries k b1 [] = vents (mass_replace k) l 0.
Proof.
  intros k b1 acc. unfold vector_entries. cbv zeta.
  exists (split_on "<" (remove_char ")" (remove_char "(" (remove_char TAB (remove_char LF (remove_char ">" b1)))))).
  split.
  - apply (vector_fold (mass_replace k)).
  - etransitivity; [apply (vector_fold (mass_replace k))|].
    apply (fold_upsert_app _ []). cbn [map app]. apply vents_NoDup.
Qed.

Lemma vector_entries_upserts : forall k b1 acc,
  vector_entries k b1 acc = fold_left (fun a kv => upsert String.eqb (fst kv) (snd kv) a) (vector_entries k b1 []) acc.
Proof.
  intros k b1 acc. destruct (vector_entries_vents k b1 acc) as [l [H1 H2]]. rewrite H2. exact H1.
Qed.

Lemma vstep_upserts : forall acc p,
  vstep acc p = fold_left (fun a kv => upsert String.eqb (fst kv) (snd kv) a) (vstep [] p) acc.
Proof.
  intros acc p. unfold vstep. cbv zeta.
  destruct (contains "=" p); [|reflexivity].
  destruct (split_on "=" p) as [|b0 [|b1 r]]; [reflexivity|reflexivity|].
  destruct (Nat.ltb 0 (String.length (py_strip (remove_char "," (mass_replace b1))))); [|reflexivity].
  destruct (contains "<" b1 && contains ">" b1); [apply vector_entries_upserts|reflexivity].
Qed.

Print Assumptions vstep_upserts.

(* a key no entry has is not found *)
Lemma lookup_notin : forall (k : string) (d : list (string * UmlBlob.pv)), ~ In k (map fst d) -> lookup String.eqb k d = None.
Proof.
  intros k d. induction d as [|[k' v'] r IH]; intro H; [reflexivity|].
  cbn [lookup]. cbn [map fst In] in H. destruct (String.eqb k k') eqn:E.
  - apply String.eqb_eq in E. exfalso. apply H. left. symmetry. exact E.
  - apply IH. intro Hin. apply H. right. exact Hin.
Qed.

(* ---------------------------------------------------------------- (F1a) the keys of the entries *)

Lemma indexed_keys : forall k ids n,
  map fst (indexed k ids n) =
  (fix go (l : list string) (n : nat) : list string :=
     match l with [] => [] | _ :: r => (k ++ "_" ++ dec n) :: go r (S n) end) ids n.
Proof.
  induction ids as [|i r IH]; intro n; [reflexivity|].
  cbn [indexed map fst]. rewrite IH. reflexivity.
Qed.

Lemma item_entries_keys : forall it, map fst (item_entries it) = item_keys it.
Proof.
  destruct it as [ws k v|ws k o sep c ids|ws k o sep c ns|s|s]; try reflexivity.
  - cbn [item_entries item_keys]. destruct (String.eqb (py_strip (remove_char "," (unq v))) ""); reflexivity.
  - cbn [item_entries item_keys]. apply indexed_keys.
Qed.

Lemma entries_cons : forall it r, entries (it :: r) = (item_entries it ++ entries r)%list.
Proof. reflexivity. Qed.

Lemma entries_app : forall a b, entries (a ++ b)%list = (entries a ++ entries b)%list.
Proof. intros a b. unfold entries. apply flat_map_app. Qed.

Lemma entries_keys : forall its, map fst (entries its) = entry_keys its.
Proof.
  induction its as [|it r IH]; [reflexivity|].
  rewrite entries_cons, map_app, IH, item_entries_keys. reflexivity.
Qed.

(* ---------------------------------------------------------------- (F1b) the fields of items with distinct keys *)

Lemma refs_fold : forall k ids acc n,
  NoDup (map fst acc ++ map fst (indexed k ids n))%list ->
  fold_left (fun (st : list (string * UmlBlob.pv) * nat) i =>
               (upsert String.eqb (k ++ "_" ++ dec (snd st)) (PStr i) (fst st), S (snd st))) ids (acc, n)
  = ((acc ++ indexed k ids n)%list, n + List.length ids).
Proof.
  induction ids as [|i r IH]; intros acc n H.
  - cbn [fold_left indexed List.length]. rewrite app_nil_r. f_equal. lia.
  - cbn [fold_left fst snd]. cbn [indexed map fst] in H. rewrite upsert_new.
    + rewrite IH.
      * cbn [indexed List.length]. rewrite <- app_assoc. f_equal. lia.
      * rewrite map_app. cbn [map fst]. rewrite <- app_assoc. exact H.
    + apply NoDup_remove_2 in H. intro Hin. apply H. apply in_or_app. left. exact Hin.
Qed.

Lemma seg_fields_item : forall it acc,
  NoDup (map fst acc ++ map fst (item_entries it))%list ->
  seg_fields (seg_of it) acc = (acc ++ item_entries it)%list.
Proof.
  intros it acc H. destruct it as [ws k v|ws k o sep c ids|ws k o sep c ns|s|s].
  - cbn [seg_of seg_fields item_entries]. cbn [item_entries] in H.
    destruct (String.eqb (py_strip (remove_char "," (unq v))) "").
    + rewrite app_nil_r. reflexivity.
    + apply upsert_new. cbn [map fst] in H. apply NoDup_remove_2 in H.
      intro Hin. apply H. apply in_or_app. left. exact Hin.
  - cbn [seg_of seg_fields item_entries]. cbn [item_entries] in H. rewrite refs_fold by exact H. reflexivity.
  - cbn [seg_of seg_fields item_entries]. rewrite app_nil_r. reflexivity.
  - cbn [seg_of seg_fields item_entries]. cbn [item_entries] in H.
    rewrite vstep_upserts. apply fold_upsert_app. exact H.
  - cbn [seg_of item_entries]. rewrite app_nil_r. reflexivity.
Qed.

Lemma fold_seg_fields : forall its acc,
  NoDup (map fst acc ++ map fst (entries its))%list ->
  fold_left (fun acc s => seg_fields s acc) (map seg_of its) acc = (acc ++ entries its)%list.
Proof.
  induction its as [|it r IH]; intros acc H.
  - cbn [map fold_left]. unfold entries. cbn [flat_map]. rewrite app_nil_r. reflexivity.
  - cbn [map fold_left].
    rewrite entries_cons, map_app, app_assoc in H.
    rewrite seg_fields_item; [|exact (NoDup_app_left _ _ _ H)].
    rewrite IH; [|rewrite map_app; exact H].
    rewrite entries_cons, app_assoc. reflexivity.
Qed.

Lemma segs_fields_entries : forall its,
  nodups (entry_keys its) = true ->
  segs_fields (map seg_of its) = entries its.
Proof.
  intros its Hn. unfold segs_fields. rewrite fold_seg_fields; [reflexivity|].
  cbn [map app]. rewrite entries_keys. apply nodups_NoDup. exact Hn.
Qed.

(* ---------------------------------------------------------------- (F1c) numbering the children *)

Lemma child_key_inj : forall a b, "child_" ++ dec a = "child_" ++ dec b -> a = b.
Proof. intros a b H. cbn [append] in H. injection H as H. apply dec_inj. exact H. Qed.

Lemma numbered_keys_in : forall vals n k, In k (map fst (numbered vals n)) ->
  exists i, n <= i /\ i < n + List.length vals /\ k = "child_" ++ dec i.
Proof.
  induction vals as [|v r IH]; intros n k H; [destruct H|].
  cbn [numbered map fst In List.length] in H |- *. destruct H as [H|H].
  - exists n. repeat split; [lia|lia|]. symmetry. exact H.
  - destruct (IH _ _ H) as [i [H1 [H2 H3]]]. exists i. repeat split; [lia|lia|exact H3].
Qed.

Lemma numbered_app : forall a b n, numbered (a ++ b)%list n = (numbered a n ++ numbered b (n + List.length a))%list.
Proof.
  induction a as [|x r IH]; intros b n.
  - cbn [app numbered List.length]. rewrite Nat.add_0_r. reflexivity.
  - cbn [app numbered List.length]. rewrite IH. f_equal. f_equal. f_equal. lia.
Qed.

Lemma length_numbered : forall vals n, List.length (numbered vals n) = List.length vals.
Proof. induction vals as [|v r IH]; intro n; [reflexivity|]. cbn [numbered List.length]. rewrite IH. reflexivity. Qed.

Lemma numbered_NoDup : forall vals n, NoDup (map fst (numbered vals n)).
Proof.
  induction vals as [|v r IH]; intro n; [constructor|].
  cbn [numbered map fst]. constructor; [|apply IH].
  intro Hin. apply numbered_keys_in in Hin. destruct Hin as [i [H1 [H2 H3]]].
  apply child_key_inj in H3. lia.
Qed.

Lemma numbered_prefix : forall vals n k, In k (map fst (numbered vals n)) -> prefixb "child_" k = true.
Proof.
  intros vals n k H. apply numbered_keys_in in H. destruct H as [i [_ [_ H]]]. subst k. reflexivity.
Qed.

Lemma number_children_gen : forall vals done,
  fold_left (fun cs v => upsert String.eqb ("child_" ++ dec (List.length cs)) v cs) vals (numbered done 0)
  = numbered (done ++ vals)%list 0.
Proof.
  induction vals as [|v r IH]; intros done.
  - cbn [fold_left]. rewrite app_nil_r. reflexivity.
  - cbn [fold_left]. rewrite length_numbered. rewrite upsert_new.
    + replace (numbered done 0 ++ [(("child_" ++ dec (List.length done))%string, v)])%list with (numbered (done ++ [v])%list 0)
        by (rewrite numbered_app; reflexivity).
      rewrite IH, <- app_assoc. reflexivity.
    + intro Hin. apply numbered_keys_in in Hin. destruct Hin as [i [H1 [H2 H3]]].
      apply child_key_inj in H3. lia.
Qed.

Lemma number_children_numbered : forall vals, number_children vals = numbered vals 0.
Proof. intro vals. unfold number_children. exact (number_children_gen vals []). Qed.

(* ---------------------------------------------------------------- (F1d) fields and children together *)

Lemma with_children_numbered : forall fields vals,
  NoDup (map fst fields) -> forallb (fun k => negb (prefixb "child_" k)) (map fst fields) = true ->
  with_children fields (numbered vals 0) = PDict (fields ++ numbered vals 0)%list.
Proof.
  intros fields vals Hn Hp. unfold with_children. rewrite fold_upsert_app; [reflexivity|].
  apply NoDup_app_intro; [exact Hn|apply numbered_NoDup|].
  intros x Hx Hy. apply numbered_prefix in Hy. rewrite forallb_forall in Hp. apply Hp in Hx.
  rewrite Hy in Hx. discriminate Hx.
Qed.

(* ---------------------------------------------------------------- (F1) *)

Lemma body_explicit : forall its,
  nodups (entry_keys its) = true ->
  forallb (fun k => negb (prefixb "child_" k)) (entry_keys its) = true ->
  body_pv its = PDict (entries its ++ numbered (map node_pv (children_of its)) 0)%list.
Proof.
  intros its Hn Hp. unfold body_pv.
  rewrite segs_fields_entries by assumption. rewrite number_children_numbered.
  apply with_children_numbered; rewrite entries_keys; [apply nodups_NoDup; exact Hn|exact Hp].
Qed.

Print Assumptions body_explicit.

(* ---------------------------------------------------------------- (F2) *)

Lemma number_children_one : forall x, number_children [x] = [("child_0", x)].
Proof. reflexivity. Qed.

Lemma with_children_head : forall a b c x,
  with_children [("id", a); ("name", b); ("type", c)] [("child_0", x)] = PDict [("id", a); ("name", b); ("type", c); ("child_0", x)].
Proof. reflexivity. Qed.

Lemma node_explicit : forall id nm ty its tl,
  node_pv (WNode id nm ty its tl) = PDict [("id", PStr id); ("name", PStr (name_text nm)); ("type", PStr ty); ("child_0", body_pv its)].
Proof. intros. rewrite node_pv_eq, number_children_one. apply with_children_head. Qed.

Lemma top_explicit : forall id nm ty its tl,
  top_pv (WNode id nm ty its tl) = PDict [("id", PStr (String "b" (String SQ id))); ("name", PStr (name_text nm)); ("type", PStr (ty ++ " '")); ("child_0", body_pv its)].
Proof. intros. unfold top_pv. rewrite number_children_one. apply with_children_head. Qed.

(* the same for a row whose element NAME may hold colons (UmlBlobDefs.top_head) *)
Lemma top_explicit_c : forall id nm ty its tl,
  top_pv_c (WNode id nm ty its tl) = PDict (top_head id nm ty ++ [("child_0", body_pv its)])%list.
Proof. intros. unfold top_pv_c, top_head. rewrite number_children_one. apply with_children_head. Qed.

(* ---------------------------------------------------------------- (F3) lookups in the entries of a layout *)

Lemma entry_keys_app : forall a b, entry_keys (a ++ b)%list = (entry_keys a ++ entry_keys b)%list.
Proof. intros a b. unfold entry_keys. apply flat_map_app. Qed.

Lemma items_of_cons : forall ws f s r,
  items_of ws f (s :: r) =
  (match s with SNoise k v => [IField ws k v] | STag t => match f t with Some it => [it] | None => [] end | SInert it => [it] end
   ++ items_of ws f r)%list.
Proof. reflexivity. Qed.

Lemma entry_keys_ws : forall ws f l, entry_keys (items_of ws f l) = entry_keys (items_of "" f l).
Proof.
  intros ws f l. induction l as [|s r IH]; [reflexivity|].
  rewrite !items_of_cons, !entry_keys_app, IH. f_equal.
  destruct s as [k v|t|it]; reflexivity.
Qed.

Lemma entry_keys_one : forall it, entry_keys [it] = item_keys it.
Proof. intro it. unfold entry_keys. cbn [flat_map]. apply app_nil_r. Qed.

Lemma tag_item_entries : forall f t,
  entries (match f t with Some it => [it] | None => [] end) = tag_entries f t.
Proof.
  intros f t. unfold tag_entries. destruct (f t) as [it|]; [|reflexivity].
  rewrite entries_cons. apply app_nil_r.
Qed.

Lemma lookup_inert : forall k it, ~ In k (item_keys it) -> lookup String.eqb k (entries [it]) = None.
Proof.
  intros k it H. apply lookup_notin. rewrite entries_keys, entry_keys_one. exact H.
Qed.

Lemma lookup_drop_noise : forall ws f l k,
  (forall s, In s l -> match s with SNoise kn _ => kn <> k | SInert it => ~ In k (item_keys it) | STag _ => True end) ->
  lookup String.eqb k (entries (items_of ws f l)) = lookup String.eqb k (flat_map (tag_entries f) (tags_of l)).
Proof.
  intros ws f l k. induction l as [|s r IH]; intro Hn; [reflexivity|].
  assert (IH' : lookup String.eqb k (entries (items_of ws f r)) = lookup String.eqb k (flat_map (tag_entries f) (tags_of r))).
  { apply IH. intros s0 Hin. apply (Hn s0). right. exact Hin. }
  pose proof (Hn s (or_introl eq_refl)) as Hs.
  rewrite items_of_cons, entries_app, lookup_app, IH'.
  destruct s as [kn vn|t|it].
  - change (tags_of (SNoise kn vn :: r)) with (tags_of r).
    rewrite lookup_inert; [reflexivity|].
    cbn [item_keys]. destruct (String.eqb (py_strip (remove_char "," (unq vn))) ""); [intros []|].
    intros [E|[]]. exact (Hs E).
  - change (tags_of (STag t :: r)) with (t :: tags_of r). cbn [flat_map].
    rewrite tag_item_entries, lookup_app. reflexivity.
  - change (tags_of (SInert it :: r)) with (tags_of r).
    rewrite lookup_inert; [reflexivity|exact Hs].
Qed.

Lemma tag_eqb_eq : forall a b, tag_eqb a b = true <-> a = b.
Proof.
  intros a b. split; intro H.
  - destruct a, b; first [reflexivity | discriminate H].
  - subst b. destruct a; reflexivity.
Qed.

Lemma tag_eqb_sym : forall a b, tag_eqb a b = tag_eqb b a.
Proof. destruct a, b; reflexivity. Qed.

Lemma lookup_single_tag : forall f (ts : list tag) k t0,
  (forall t, t <> t0 -> lookup String.eqb k (tag_entries f t) = None) ->
  lookup String.eqb k (flat_map (tag_entries f) ts) = if existsb (tag_eqb t0) ts then lookup String.eqb k (tag_entries f t0) else None.
Proof.
  intros f ts. induction ts as [|t r IH]; intros k t0 Hn; [reflexivity|].
  cbn [flat_map existsb]. rewrite lookup_app, (IH k t0 Hn).
  destruct (tag_eqb t0 t) eqn:E.
  - apply tag_eqb_eq in E. subst t. cbn [orb].
    destruct (lookup String.eqb k (tag_entries f t0)); [reflexivity|].
    destruct (existsb (tag_eqb t0) r); reflexivity.
  - cbn [orb]. rewrite Hn; [reflexivity|].
    intro Ht. subst t. destruct t0; discriminate E.
Qed.

Lemma has_tag_tags_of : forall t l, has_tag t l = existsb (tag_eqb t) (tags_of l).
Proof.
  intros t l. unfold has_tag. induction l as [|s r IH]; [reflexivity|].
  destruct s as [k v|x|it].
  - change (tags_of (SNoise k v :: r)) with (tags_of r). cbn [existsb orb]. exact IH.
  - change (tags_of (STag x :: r)) with (x :: tags_of r). cbn [existsb]. rewrite IH, (tag_eqb_sym x t). reflexivity.
  - change (tags_of (SInert it :: r)) with (tags_of r). cbn [existsb orb]. exact IH.
Qed.

(* ---------------------------------------------------------------- (F4) inert properties *)

Lemma inerts_ok_in : forall K l it, inerts_ok K l = true -> In (SInert it) l -> inert_ok K it = true.
Proof.
  intros K l it H Hin. unfold inerts_ok in H. rewrite forallb_forall in H. exact (H _ Hin).
Qed.

(* a key of an inert property is none of the keys the reader looks up in such an element, and holds none of the words it
   scans the keys for *)
Lemma inert_key_free : forall K l it k, inerts_ok K l = true -> In (SInert it) l -> In k (item_keys it) ->
  existsb (String.eqb k) (kind_keys K) = false /\ forallb (fun p => negb (contains p (lower k))) (kind_parts K) = true.
Proof.
  intros K l it k H Hin Hk. pose proof (inerts_ok_in _ _ _ H Hin) as Hi.
  unfold inert_ok in Hi. apply andb_true_iff in Hi. destruct Hi as [Hi _].
  apply andb_true_iff in Hi. destruct Hi as [_ Hi].
  rewrite forallb_forall in Hi. specialize (Hi _ Hk).
  apply andb_true_iff in Hi. destruct Hi as [H1 H2].
  split; [apply negb_true_iff; exact H1|exact H2].
Qed.

Lemma children_of_app : forall a b, children_of (a ++ b)%list = (children_of a ++ children_of b)%list.
Proof. intros a b. unfold children_of. apply flat_map_app. Qed.

(* the owned elements of a layout: those of its tags and of its inert properties, in the order written *)
Lemma children_of_layout : forall ws f l,
  children_of (items_of ws f l) =
  flat_map (fun s => match s with
                     | STag t => match f t with Some it => kids_of it | None => [] end
                     | SInert it => kids_of it
                     | SNoise _ _ => []
                     end) l.
Proof.
  intros ws f l. induction l as [|s r IH]; [reflexivity|].
  rewrite items_of_cons, children_of_app, IH. cbn [flat_map]. f_equal.
  destruct s as [k v|t|it].
  - reflexivity.
  - destruct (f t) as [it|]; [|reflexivity]. rewrite children_of_cons. apply app_nil_r.
  - rewrite children_of_cons. apply app_nil_r.
Qed.

(* an element owned by an inert property is none the reader would take for a member *)
Lemma inert_child_ok : forall K l ws k o sep c ns n,
  inerts_ok K l = true -> In (SInert (IChildren ws k o sep c ns)) l -> In n ns -> kind_child_ok K (node_type n) = true.
Proof.
  intros K l ws k o sep c ns n H Hin Hn. pose proof (inerts_ok_in _ _ _ H Hin) as Hi.
  unfold inert_ok in Hi. apply andb_true_iff in Hi. destruct Hi as [_ Hi].
  rewrite forallb_forall in Hi. exact (Hi _ Hn).
Qed.

Lemma lookup_numbered_none : forall k vals n, prefixb "child_" k = false -> lookup String.eqb k (numbered vals n) = None.
Proof.
  intros k vals. induction vals as [|v r IH]; intros n H; [reflexivity|].
  cbn [numbered lookup]. destruct (String.eqb k ("child_" ++ dec n)) eqn:E.
  - apply String.eqb_eq in E. subst k. discriminate H.
  - apply IH. exact H.
Qed.

Print Assumptions lookup_numbered_none.
Print Assumptions has_tag_tags_of.
Print Assumptions lookup_single_tag.
Print Assumptions lookup_drop_noise.
Print Assumptions entry_keys_ws.
Print Assumptions node_explicit.
Print Assumptions top_explicit.
Print Assumptions seg_fields_item.
Print Assumptions inert_key_free.
Print Assumptions children_of_layout.
Print Assumptions inert_child_ok.
