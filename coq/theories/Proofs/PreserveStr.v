(* String-level instantiation of the preservation theorems: bytes on disk -> bytes on disk. *)
From Coq Require Import String Ascii List Bool Arith Lia.
From KV Require Import Lib.Str Lib.ODict Model.PreserveCore Model.Preserve Gen.Tags
                       Proofs.StrProofs Proofs.PreserveCoreProofs.
Import ListNotations.
Open Scope string_scope.
Open Scope list_scope.

(* ---------------------------------------------------------------- obligations on the source-derived constants *)
(* createoutput's last filter is the one the model hard-codes as [tab4] *)
Lemma tab_filter_is_tab4 : tab_from = String TAB EmptyString /\ tab_to = "    ".
Proof. split; reflexivity. Qed.

(* the tag prefix is non-empty and contains neither TAB nor SP, nor LF/CR *)
Lemma tag_prefix_tabfree : tabfree tag_prefix = true /\ tag_prefix <> EmptyString.
Proof. split; [reflexivity|discriminate]. Qed.

Lemma is_tag_tab4 l : is_tag (tab4 l) = is_tag l.
Proof. unfold is_tag. apply contains_tab4; apply tag_prefix_tabfree. Qed.

Lemma eqb_spec_str a b : String.eqb a b = true <-> a = b.
Proof. apply String.eqb_eq. Qed.

(* ---------------------------------------------------------------- parse_items / wfb reflect the abstract notions *)
Lemma parse_items_flatten ls : forall its, parse_items ls = Some its -> flatten its = ls.
Proof.
  induction ls as [ls IH] using (well_founded_induction (Wf_nat.well_founded_ltof _ (@List.length string))).
  intros its H. destruct ls as [|l r]; simpl in H.
  - inversion H; reflexivity.
  - destruct (is_tag (tab4 l)).
    + destruct r as [|c r']; [discriminate|].
      destruct (parse_items r') as [its'|] eqn:E; [|discriminate]. inversion H; subst.
      simpl. f_equal. f_equal. apply IH; [unfold Wf_nat.ltof; simpl; lia|assumption].
    + destruct (parse_items r) as [its'|] eqn:E; [|discriminate]. inversion H; subst.
      simpl. f_equal. apply IH; [unfold Wf_nat.ltof; simpl; lia|assumption].
Qed.

Notation wf_s := (wf tab4 is_tag kof kpfx vis).
Notation wf_item_s := (wf_item tab4 is_tag kof kpfx vis).

Lemma nodupb_NoDup l : nodupb l = true -> NoDup l.
Proof.
  induction l as [|x r IH]; simpl; intros H; [constructor|].
  apply andb_prop in H as [H1 H2]. constructor; [|auto].
  intros Hin. apply negb_true_iff in H1.
  assert (E : existsb (String.eqb x) r = true).
  { apply existsb_exists. exists x. split; [assumption|apply String.eqb_refl]. }
  congruence.
Qed.

Lemma wfb_wf its : wfb its = true -> wf_s its.
Proof.
  unfold wfb. intros H. apply andb_prop in H as [H1 H2]. split.
  - apply Forall_forall. intros it Hit. rewrite forallb_forall in H1. specialize (H1 it Hit).
    destruct it as [l|o c]; simpl in *.
    + apply andb_prop in H1 as [Ha Hb]. apply negb_true_iff in Hb. split; [|assumption].
      intros x Hx. rewrite forallb_forall in Ha. specialize (Ha x Hx). apply negb_true_iff in Ha. exact Ha.
    + repeat (apply andb_prop in H1 as [H1 ?]).
      repeat match goal with H : String.eqb _ _ = true |- _ => apply String.eqb_eq in H end.
      repeat split; assumption.
  - apply nodupb_NoDup. exact H2.
Qed.

(* ---------------------------------------------------------------- shape of the lines written to disk *)
Lemma tab4_nonempty l : l <> "" -> tab4 l <> "".
Proof. destruct l as [|c l]; [contradiction|]. simpl. destruct (Ascii.eqb c TAB); discriminate. Qed.

Lemma canonical_tab4 l : canonical (tab4 l) = canonical l.
Proof.
  induction l as [|c l IH]; [reflexivity|].
  destruct l as [|d l'].
  - simpl. destruct (Ascii.eqb c TAB) eqn:E; [|reflexivity].
    apply Ascii.eqb_eq in E. subst c. reflexivity.
  - remember (String d l') as t eqn:Et.
    assert (Hne1 : t <> "") by (subst; discriminate).
    assert (Hne : tab4 t <> "") by (apply tab4_nonempty; assumption).
    rewrite (canon_cons c t) by assumption.
    simpl tab4.
    destruct (Ascii.eqb c TAB) eqn:E.
    + apply Ascii.eqb_eq in E. subst c.
      rewrite !canon_cons by (assumption || discriminate). rewrite IH. reflexivity.
    + rewrite canon_cons by assumption. rewrite IH. reflexivity.
Qed.

Lemma no_cr_tab4 l : no_char CR l = true -> no_char CR (tab4 l) = true.
Proof.
  induction l as [|c l IH]; [reflexivity|]. simpl. intros H. apply andb_prop in H as [H1 H2].
  destruct (Ascii.eqb c TAB); simpl; [apply IH; assumption|]. rewrite H1. simpl. apply IH; assumption.
Qed.

Lemma no_lf_tab4 l : no_char LF l = true -> no_char LF (tab4 l) = true.
Proof.
  induction l as [|c l IH]; [reflexivity|]. simpl. intros H. apply andb_prop in H as [H1 H2].
  destruct (Ascii.eqb c TAB); simpl; [apply IH; assumption|]. rewrite H1. simpl. apply IH; assumption.
Qed.

(* universal newlines is the identity on CR-free content *)
Lemma universal_newlines_nocr s : no_char CR s = true -> universal_newlines s = s.
Proof.
  induction s as [|c s IH]; [reflexivity|]. simpl. intros H. apply andb_prop in H as [H1 H2].
  apply negb_true_iff in H1. rewrite H1. rewrite IH by assumption. reflexivity.
Qed.

Lemma no_char_append x a b : no_char x (a ++ b)%string = no_char x a && no_char x b.
Proof. induction a as [|c a IH]; simpl; [reflexivity|]. rewrite IH. apply andb_assoc. Qed.

Lemma no_char_concat x ls : forallb (no_char x) ls = true -> no_char x (concat_lines ls) = true.
Proof.
  induction ls as [|l ls IH]; [reflexivity|]. intros H. simpl in H. apply andb_prop in H as [H1 H2].
  rewrite concat_lines_cons, no_char_append, H1, IH by assumption. reflexivity.
Qed.

Lemma lines_shape_app a b : forallb canonical a = true -> lines_shape b = true -> b <> [] ->
  lines_shape (a ++ b) = true.
Proof.
  induction a as [|x a IH]; intros Ha Hb Hne; [assumption|].
  simpl in Ha. apply andb_prop in Ha as [H1 H2]. simpl app.
  specialize (IH H2 Hb Hne).
  destruct (a ++ b) as [|y r] eqn:E.
  - destruct a; [simpl in E; contradiction|discriminate].
  - change (lines_shape (x :: y :: r)) with (canonical x && lines_shape (y :: r)). rewrite H1, IH. reflexivity.
Qed.

Lemma lines_shape_all a : forallb canonical a = true -> lines_shape a = true.
Proof.
  induction a as [|x a IH]; [reflexivity|]. simpl. intros H. apply andb_prop in H as [H1 H2].
  destruct a; [rewrite H1; reflexivity|]. rewrite H1, IH by assumption. reflexivity.
Qed.

Lemma lines_shape_cons_inv x y r : lines_shape (x :: y :: r) = true -> canonical x = true /\ lines_shape (y :: r) = true.
Proof. intros H. change (canonical x && lines_shape (y :: r) = true) in H. apply andb_prop in H. exact H. Qed.

Lemma last_ok_tab4 l : last_ok l = true -> last_ok (tab4 l) = true.
Proof.
  unfold last_ok. intros H. apply orb_prop in H as [H|H].
  - rewrite canonical_tab4, H. reflexivity.
  - apply andb_prop in H as [H1 H2]. rewrite (no_lf_tab4 l H1). apply negb_true_iff in H2.
    apply String.eqb_neq in H2. apply tab4_nonempty in H2. apply String.eqb_neq in H2. rewrite H2.
    simpl. apply orb_true_r.
Qed.

Notation disk_s := (disk tab4 kof vis).
Notation written_s := (written_items tab4 kof).

Definition block_ok (B : list string) : bool :=
  forallb (fun l => negb (is_tag l) && canonical l && no_char CR l) B.

Lemma block_ok_tab4 B : block_ok B = true -> block_ok (map tab4 B) = true.
Proof.
  unfold block_ok. rewrite !forallb_forall. intros H l Hl. apply in_map_iff in Hl as [l0 [E Hl0]]. subst l.
  specialize (H l0 Hl0). apply andb_prop in H as [H H3]. apply andb_prop in H as [H1 H2].
  rewrite is_tag_tab4, H1, canonical_tab4, H2, no_cr_tab4 by assumption. reflexivity.
Qed.

Lemma disk_nil_inv' U (its : list (item string)) : items_okb its = true -> disk_s U its = [] -> its = [] \/ True.
Proof. intros; right; exact Logic.I. Qed.

(* the written elements and the lines they are read back as hold the same bytes *)
Lemma concat_written_disk U its : concat_lines (written_s U its) = concat_lines (disk_s U its).
Proof.
  unfold written_items, disk. induction its as [|[l|o c] its IH]; [reflexivity| |].
  - cbn [flat_map]. rewrite !concat_lines_app, IH. f_equal. unfold vis. rewrite concat_split.
    rewrite concat_lines_cons. unfold concat_lines. simpl. apply append_empty_r.
  - cbn [flat_map]. rewrite !concat_lines_app, IH. reflexivity.
Qed.

Lemma disk_cons_plain U l r : disk_s U (Plain l :: r) = vis l ++ disk_s U r.
Proof. reflexivity. Qed.

Lemma disk_cons_pair U o c r : disk_s U (Pair o c :: r) = ((tab4 o :: U (kof o)) ++ [tab4 c]) ++ disk_s U r.
Proof. unfold disk. cbn [flat_map]. rewrite app_comm_cons. reflexivity. Qed.

(* every line of the re-read content is canonical, except possibly the very last one *)
Lemma forallb_canonical_chunk l : (String.eqb l "" || ends_lf l) = true -> forallb canonical (vis l) = true.
Proof.
  intros H. unfold vis. apply orb_prop in H as [H|H].
  - apply String.eqb_eq in H. subst. reflexivity.
  - apply split_canonical. rewrite ends_lf_tab4. assumption.
Qed.

Lemma pair_lines_last U o c :
  (forall k, forallb canonical (U k) = true) -> canonical o = true -> last_ok c = true ->
  lines_shape ((tab4 o :: U (kof o)) ++ [tab4 c]) = true.
Proof.
  intros HU Ho Hc. apply lines_shape_app; [| |discriminate].
  - cbn [forallb]. rewrite canonical_tab4, Ho, HU. reflexivity.
  - rewrite lines_shape_single. apply last_ok_tab4; assumption.
Qed.

Lemma pair_lines_canonical U o c :
  (forall k, forallb canonical (U k) = true) -> canonical o = true -> canonical c = true ->
  forallb canonical ((tab4 o :: U (kof o)) ++ [tab4 c]) = true.
Proof.
  intros HU Ho Hc. rewrite forallb_app. cbn [forallb]. rewrite !canonical_tab4, Ho, Hc, HU. reflexivity.
Qed.

Lemma lines_shape_disk U its :
  (forall k, forallb canonical (U k) = true) ->
  items_okb its = true -> lines_shape (disk_s U its) = true.
Proof.
  intros HU. induction its as [|it r IH]; [reflexivity|]. intros H.
  destruct r as [|it2 r2].
  - destruct it as [l|o c].
    + rewrite disk_cons_plain. cbn [disk flat_map]. rewrite app_nil_r. unfold vis. apply split_shape.
    + cbn [items_okb] in H. repeat (apply andb_prop in H as [H ?]).
      rewrite disk_cons_pair. cbn [disk flat_map]. rewrite app_nil_r.
      apply pair_lines_last; assumption.
  - assert (Hr : items_okb (it2 :: r2) = true).
    { destruct it as [l|o c]; cbn [items_okb] in H; repeat (apply andb_prop in H as [H ?]); assumption. }
    specialize (IH Hr).
    destruct it as [l|o c]; cbn [items_okb] in H; repeat (apply andb_prop in H as [H ?]).
    + rewrite disk_cons_plain.
      destruct (disk_s U (it2 :: r2)) as [|y ys] eqn:Ed.
      * rewrite app_nil_r. unfold vis. apply split_shape.
      * apply lines_shape_app; [apply forallb_canonical_chunk; assumption|assumption|discriminate].
    + rewrite disk_cons_pair.
      destruct (disk_s U (it2 :: r2)) as [|y ys] eqn:Ed.
      * rewrite app_nil_r. apply pair_lines_last; [assumption|assumption|].
        unfold last_ok. match goal with Hc : canonical c = true |- _ => rewrite Hc end. reflexivity.
      * apply lines_shape_app; [apply pair_lines_canonical; assumption|assumption|discriminate].
Qed.

Lemma items_okb_nocr its : items_okb its = true ->
  forallb (fun it => match it with Plain l => no_char CR l | Pair o c => no_char CR o && no_char CR c end) its = true.
Proof.
  induction its as [|it r IH]; [reflexivity|]. intros H. destruct r as [|it2 r2].
  - destruct it as [l|o c]; cbn [items_okb] in H; cbn [forallb].
    + rewrite H. reflexivity.
    + repeat (apply andb_prop in H as [H ?]).
      repeat match goal with Hx : _ = true |- _ => rewrite Hx; clear Hx end. reflexivity.
  - destruct it as [l|o c]; cbn [items_okb] in H; repeat (apply andb_prop in H as [H ?]).
    + change (forallb _ (Plain l :: it2 :: r2)) with (no_char CR l && forallb (fun it => match it with Plain l => no_char CR l | Pair o c => no_char CR o && no_char CR c end) (it2 :: r2)).
      rewrite IH by assumption. rewrite H. reflexivity.
    + change (forallb _ (Pair o c :: it2 :: r2)) with ((no_char CR o && no_char CR c) && forallb (fun it => match it with Plain l => no_char CR l | Pair o c => no_char CR o && no_char CR c end) (it2 :: r2)).
      rewrite IH by assumption.
      repeat match goal with Hx : no_char CR _ = true |- _ => rewrite Hx; clear Hx end. reflexivity.
Qed.

Lemma nocr_disk U its :
  (forall k, forallb (no_char CR) (U k) = true) ->
  items_okb its = true -> forallb (no_char CR) (disk_s U its) = true.
Proof.
  intros HU H. apply items_okb_nocr in H. induction its as [|[l|o c] r IH]; [reflexivity| |]; cbn [forallb] in H;
    apply andb_prop in H as [H1 H2].
  - rewrite disk_cons_plain. rewrite forallb_app, IH by assumption.
    unfold vis. rewrite split_nochar by (apply no_cr_tab4; assumption). reflexivity.
  - apply andb_prop in H1 as [Ho Hc].
    rewrite disk_cons_pair.
    rewrite !forallb_app, IH by assumption. cbn [forallb]. rewrite !no_cr_tab4 by assumption.
    rewrite HU. reflexivity.
Qed.

(* ---------------------------------------------------------------- per-file, bytes to bytes *)
(* one regeneration of one file whose previous content could be read *)
Definition regen_file (path : string) (fresh : list string) (content : string) : string * list string :=
  let '(out, lost) := regen1 path fresh (read_lines content) in (concat_lines out, lost).

Definition on_disk (u : string -> list string) (its : list (item string)) : string :=
  concat_lines (written_s (fun k => map tab4 (u k)) its).

Lemma read_on_disk (u : string -> list string) its :
  items_okb its = true -> (forall k, block_ok (u k) = true) ->
  read_lines (on_disk u its) = disk_s (fun k => map tab4 (u k)) its.
Proof.
  intros Hl Hu.
  assert (HuT : forall k, block_ok (map tab4 (u k)) = true) by (intros k; apply block_ok_tab4, Hu).
  unfold read_lines, on_disk. rewrite concat_written_disk.
  rewrite universal_newlines_nocr.
  - apply split_concat. apply lines_shape_disk; [|assumption].
    intros k. specialize (HuT k). unfold block_ok in HuT. rewrite forallb_forall in *.
    intros x Hx. specialize (HuT x Hx). apply andb_prop in HuT as [H _]. apply andb_prop in H as [_ H]. exact H.
  - apply no_char_concat. apply nocr_disk; [|assumption].
    intros k. specialize (HuT k). unfold block_ok in HuT. rewrite forallb_forall in *.
    intros x Hx. specialize (HuT x Hx). apply andb_prop in HuT as [_ H]. exact H.
Qed.

Lemma user_ok_blocks (u : string -> list string) : (forall k, block_ok (u k) = true) ->
  user_ok is_tag (fun k => map tab4 (u k)) /\
  (forall k l, In l (map tab4 (u k)) -> tab4 l = l).
Proof.
  intros Hu. split.
  - intros k l Hl. apply in_map_iff in Hl as [l0 [E Hl0]]. subst l. rewrite is_tag_tab4.
    specialize (Hu k). unfold block_ok in Hu. rewrite forallb_forall in Hu. specialize (Hu l0 Hl0).
    apply andb_prop in Hu as [H _]. apply andb_prop in H as [H _]. apply negb_true_iff in H. exact H.
  - intros k l Hl. apply in_map_iff in Hl as [l0 [E Hl0]]. subst l. apply tab4_idem.
Qed.

(* C02 at the level of bytes: old content = model [its] with user blocks [u]; new fresh file [fresh'] *)
Theorem regen_file_evolution path (u : string -> list string) its fresh' its' :
  wfb its = true -> items_okb its = true -> (forall k, block_ok (u k) = true) ->
  parse_items fresh' = Some its' -> Forall (wf_fresh_item kof kpfx) its' ->
  fst (regen_file path fresh' (on_disk u its))
  = on_disk (fun k => if memk String.eqb k (pair_keys kof its) then u k else []) its'.
Proof.
  intros Hwf Hl Hu Hp Hwf'. unfold regen_file.
  rewrite (read_on_disk u its Hl Hu).
  apply parse_items_flatten in Hp. subst fresh'.
  destruct (user_ok_blocks u Hu) as [Huo HT].
  unfold regen1.
  rewrite (regen_evolution String.eqb eqb_spec_str tab4 is_tag kof sub_of kpfx vis nl nl (nl (basename path)) (nl lost_sep)
             (fun k => map tab4 (u k)) its its' "" (wfb_wf its Hwf) Huo Hwf' HT).
  simpl fst. unfold on_disk. f_equal. apply written_ext. intros k _.
  destruct (memk String.eqb k (pair_keys kof its)); reflexivity.
Qed.

(* C01 at the level of bytes *)
Theorem regen_file_fixed_point path (u : string -> list string) fresh its :
  parse_items fresh = Some its -> wfb its = true -> items_okb its = true ->
  (forall k, block_ok (u k) = true) ->
  regen_file path fresh (on_disk u its) = (on_disk u its, []).
Proof.
  intros Hp Hwf Hl Hu. unfold regen_file.
  pose proof (parse_items_flatten fresh its Hp) as Hf. subst fresh.
  rewrite (read_on_disk u its Hl Hu).
  destruct (user_ok_blocks u Hu) as [Huo HT].
  unfold regen1.
  rewrite (regen_fixed_point String.eqb eqb_spec_str tab4 is_tag kof sub_of kpfx vis nl nl (nl (basename path)) (nl lost_sep)
             (fun k => map tab4 (u k)) its "" (wfb_wf its Hwf) Huo HT).
  reflexivity.
Qed.
