(* Calibration of the assumed Visual Paradigm writer and of the reader model on the shipped project
   (Gen/VppShipped.v is regenerated from kojen/test/blob.xml on every run). *)
From Coq Require Import String List Bool.
From KV Require Import Lib.Str Model.Vpp Model.VppWriter Spec.VppSpec Gen.VppShipped.
Import ListNotations.
Open Scope string_scope.

Definition shipped_rows : list (list string) :=
  [["StateRed"; "EventButtonPressed"; "StateOrange"; "OnOrange"; "GuardCanChangeToOrange"];
   ["StateOrange"; "EventButtonPressed"; "StateGreen"; "OnGreen"; "GuardCanChangeToGreen"];
   ["StateGreen"; "EventButtonPressed"; "StateRed"; "OnRed"; "GuardCanChangeToRed"]].

(* the writer reproduces every row of the shipped state diagram byte for byte (hosts compares the rows of
   encode_diagram shipped_D with the rows found in the shipped tables), between the rows of the two class diagrams *)
Lemma calib_writer : hosts shipped_db shipped_D = true /\ wf_diagram shipped_D = true.
Proof. split; vm_compute; reflexivity. Qed.

Lemma calib_reader : extract shipped_db shipped_name = Some shipped_rows.
Proof. vm_compute. reflexivity. Qed.

Lemma calib_spec : expected_rows shipped_D = shipped_rows.
Proof. vm_compute. reflexivity. Qed.
