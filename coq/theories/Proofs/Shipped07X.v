(* C07, USER-tag half, for the whole shipped files TEMPLATEStateMachine.py and TEMPLATEStateMachine.h (whole files of the C16 grammar with the
   signature oracle).  Their USER tags are all fixed text (USER_IMPORTS; USER_HEADER_INCLUDES, USER_FORWARD_DECLARATIONS, USER_LOCALS,
   USER_PUBLIC_MEMBERS, USER_PROTECTED_MEMBERS): the cleaned tag names are pairwise distinct for EVERY element record; the per-state blocks are
   plain lines for alphanumeric names; the output chunks of the transition blocks, the per-event signature blocks, the initial-state lines and the
   transition-table line are plain chunks whenever the names, table cells and oracle strings are free of '{', backslash and CR (Proofs/Dyn07.v:
   dyn_plain_of_names; the literal pieces of those items are: dyn_ok07, computed on the shipped file).  Hence for every element record with the
   syntactic names_ok_x the generated file is a well-formed fresh file, and regeneration over any user edits is a fixed point. *)
From Coq Require Import String Ascii List Bool Arith Lia.
From KV Require Import Lib.Str Lib.StrOps Lib.ODict Gen.Tags Gen.Templates Model.PreserveCore Model.Preserve Model.Engine Model.EngineSM
                       Model.EngineDomain Model.EngineDomain16 Model.EngineDomain07 Model.Parse16 Spec.RefExpand Spec.RefExpand16
                       Proofs.StrProofs Proofs.EngineStr Proofs.PreserveStr Proofs.EngineWhole16 Proofs.Shipped16 Proofs.Shipped07 Proofs.Dyn07 Proofs.PreserveTop.
Import ListNotations.
Open Scope string_scope.
Open Scope list_scope.

(* the empty-string entries add nothing to the written text *)
Lemma ref16_strip e : forall t, ref16 e (strip t) = ref16 e t.
Proof.
  unfold ref16. induction t as [|it t IH]; [reflexivity|]. unfold strip in *. cbn [filter].
  destruct (is_empty_raw it) eqn:E; cbn [negb].
  - destruct it as [l|s|k ib ie body|ib ie body|ib ie body|ib ie body|ib ie sfx body|il|ul|pre ee]; cbn [is_empty_raw] in E; try discriminate.
    apply String.eqb_eq in E. subst s. rewrite IH. cbn [flat_map ref_item16 app map]. rewrite concat_lines_cons. reflexivity.
  - cbn [flat_map]. rewrite !map_app, !concat_lines_app, IH. reflexivity.
Qed.

Lemma names_plain_fine e : names_plain e = true -> names_fine e.
Proof. unfold names_plain, names_fine. intros H n Hn. rewrite forallb_forall in H. exact (H n Hn). Qed.

Lemma flat_map_nil' {A B} (l : list A) : flat_map (fun _ : A => @nil B) l = [].
Proof. induction l; [reflexivity|assumption]. Qed.

Section FixedTags.
  Variables (lines l0 : list string) (t : template16).
  Hypothesis Hs : shipped16 dict0 lines = Some (l0, t).
  Hypothesis Ht : texts_ok07 (strip t) = true.
  Hypothesis Hi : forallb item16_ok (strip t) = true.
  Hypothesis Hdyn : dyn_ok07 (strip t) = true.
  Hypothesis Hk : forall e, NoDup (keys07 e (strip t)).

  (* the lines the engine produces for the file (before createoutput's TAB filter) *)
  Definition fresh_x (e : elements) : list string := flat_map (ref_item16 e) (strip t).

  Theorem wf_fresh_x e : names_ok_x (strip t) e = true -> user_lines_plain e (strip t) = true -> wf_fresh_file (fresh_x e) = true.
  Proof.
    intros H Hu. unfold names_ok_x in H. apply andb_prop in H as [H Hsg]. apply andb_prop in H as [Hn Hd].
    exact (fresh_of_template_x e (strip t) (names_plain_fine e Hn) Ht Hu (dyn_plain_of_names e (strip t) Hdyn Hd Hsg) Hi (Hk e)).
  Qed.

  Theorem wf_out_x m (a : usertags) :
    names_ok_x (strip t) (with_user a (elements_of_model m)) = true -> user_lines_plain (with_user a (elements_of_model m)) (strip t) = true ->
    wf_elements16 t (with_user a (elements_of_model m)) = true ->
    generate_file m dict0 a lines = Some (concat_lines (map tab4 (fresh_x (with_user a (elements_of_model m)))))
    /\ wf_fresh_file (fresh_x (with_user a (elements_of_model m))) = true.
  Proof.
    intros H Hu W. split; [|exact (wf_fresh_x _ H Hu)].
    rewrite (shipped_output_user lines l0 t Hs m a W). f_equal. symmetry. exact (ref16_strip _ t).
  Qed.

  Theorem fixed_point_x e path (u : string -> list string) :
    names_ok_x (strip t) e = true -> user_lines_plain e (strip t) = true -> (forall k, block_ok (u k) = true) ->
    regen_file path (fresh_x e) (on_disk u (items_of (fresh_x e))) = (on_disk u (items_of (fresh_x e)), []).
  Proof.
    intros H Hu' Hu. destruct (wf_fresh_file_inv _ (wf_fresh_x e H Hu')) as (Ok & Pa & Wf).
    exact (regen_file_fixed_point path u (fresh_x e) _ Pa Wf Ok Hu).
  Qed.
End FixedTags.

Definition nil_of {A} (l : list A) : list string := flat_map (fun _ => []) (enumerate_from 0 l).
Lemma nil_of_nil {A} (l : list A) : nil_of l = [].
Proof. apply flat_map_nil'. Qed.

(* ---------------------------------------------------------------- TEMPLATEStateMachine.py *)
Definition lines_py : list string := file_of "TEMPLATEStateMachine.py" tmpl_py.
Definition t_py : template16 := Eval vm_compute in match shipped16 dict0 lines_py with Some (_, t) => t | None => [] end.
Definition l0_py : list string := Eval vm_compute in match shipped16 dict0 lines_py with Some (l, _) => l | None => [] end.

Lemma shipped_py : shipped16 dict0 lines_py = Some (l0_py, t_py).
Proof. vm_compute. reflexivity. Qed.
Lemma texts_py : texts_ok07 (strip t_py) = true.
Proof. vm_compute. reflexivity. Qed.
Lemma items_ok_py : forallb item16_ok (strip t_py) = true.
Proof. vm_compute. reflexivity. Qed.
Lemma dyn_ok_py : dyn_ok07 (strip t_py) = true.
Proof. vm_compute. reflexivity. Qed.
Lemma keys_py_eq e : keys07 e (strip t_py) = "{{{USER_IMPORTS" :: nil_of (el_states e) ++ nil_of (el_states e) ++ [].
Proof. vm_compute. reflexivity. Qed.
Theorem nodup_keys_py e : NoDup (keys07 e (strip t_py)).
Proof. rewrite keys_py_eq, !nil_of_nil. apply nodupb_NoDup. reflexivity. Qed.

Definition names_ok_py (e : elements) : bool := names_ok_x (strip t_py) e.
Definition fresh_py (e : elements) : list string := fresh_x t_py e.

Theorem wf_fresh_py e : names_ok_py e = true -> user_lines_plain e (strip t_py) = true -> wf_fresh_file (fresh_py e) = true.
Proof. exact (wf_fresh_x t_py texts_py items_ok_py dyn_ok_py nodup_keys_py e). Qed.

Theorem shipped_py_wf_out m (a : usertags) :
  names_ok_py (with_user a (elements_of_model m)) = true -> user_lines_plain (with_user a (elements_of_model m)) (strip t_py) = true ->
  wf_elements16 t_py (with_user a (elements_of_model m)) = true ->
  generate_file m dict0 a lines_py = Some (concat_lines (map tab4 (fresh_py (with_user a (elements_of_model m)))))
  /\ wf_fresh_file (fresh_py (with_user a (elements_of_model m))) = true.
Proof. exact (wf_out_x lines_py l0_py t_py shipped_py texts_py items_ok_py dyn_ok_py nodup_keys_py m a). Qed.

Theorem fixed_point_py e path (u : string -> list string) :
  names_ok_py e = true -> user_lines_plain e (strip t_py) = true -> (forall k, block_ok (u k) = true) ->
  regen_file path (fresh_py e) (on_disk u (items_of (fresh_py e))) = (on_disk u (items_of (fresh_py e)), []).
Proof. exact (fixed_point_x t_py texts_py items_ok_py dyn_ok_py nodup_keys_py e path u). Qed.

(* ---------------------------------------------------------------- TEMPLATEStateMachine.h *)
Definition lines_h : list string := file_of "TEMPLATEStateMachine.h" tmpl_cpp.
Definition t_h : template16 := Eval vm_compute in match shipped16 dict0 lines_h with Some (_, t) => t | None => [] end.
Definition l0_h : list string := Eval vm_compute in match shipped16 dict0 lines_h with Some (l, _) => l | None => [] end.

Lemma shipped_h : shipped16 dict0 lines_h = Some (l0_h, t_h).
Proof. vm_compute. reflexivity. Qed.
Lemma texts_h : texts_ok07 (strip t_h) = true.
Proof. vm_compute. reflexivity. Qed.
Lemma items_ok_h : forallb item16_ok (strip t_h) = true.
Proof. vm_compute. reflexivity. Qed.
Lemma dyn_ok_h : dyn_ok07 (strip t_h) = true.
Proof. vm_compute. reflexivity. Qed.
Lemma keys_h_eq e : keys07 e (strip t_h)
  = "{{{USER_HEADER_INCLUDES" :: "{{{USER_FORWARD_DECLARATIONS" :: "{{{USER_LOCALS" :: nil_of (el_states e) ++ ["{{{USER_PUBLIC_MEMBERS"; "{{{USER_PROTECTED_MEMBERS"].
Proof. vm_compute. reflexivity. Qed.
Theorem nodup_keys_h e : NoDup (keys07 e (strip t_h)).
Proof. rewrite keys_h_eq, !nil_of_nil. apply nodupb_NoDup. reflexivity. Qed.

Definition names_ok_h (e : elements) : bool := names_ok_x (strip t_h) e.
Definition fresh_h (e : elements) : list string := fresh_x t_h e.

Theorem wf_fresh_h e : names_ok_h e = true -> user_lines_plain e (strip t_h) = true -> wf_fresh_file (fresh_h e) = true.
Proof. exact (wf_fresh_x t_h texts_h items_ok_h dyn_ok_h nodup_keys_h e). Qed.

Theorem shipped_h_wf_out m (a : usertags) :
  names_ok_h (with_user a (elements_of_model m)) = true -> user_lines_plain (with_user a (elements_of_model m)) (strip t_h) = true ->
  wf_elements16 t_h (with_user a (elements_of_model m)) = true ->
  generate_file m dict0 a lines_h = Some (concat_lines (map tab4 (fresh_h (with_user a (elements_of_model m)))))
  /\ wf_fresh_file (fresh_h (with_user a (elements_of_model m))) = true.
Proof. exact (wf_out_x lines_h l0_h t_h shipped_h texts_h items_ok_h dyn_ok_h nodup_keys_h m a). Qed.

Theorem fixed_point_h e path (u : string -> list string) :
  names_ok_h e = true -> user_lines_plain e (strip t_h) = true -> (forall k, block_ok (u k) = true) ->
  regen_file path (fresh_h e) (on_disk u (items_of (fresh_h e))) = (on_disk u (items_of (fresh_h e)), []).
Proof. exact (fixed_point_x t_h texts_h items_ok_h dyn_ok_h nodup_keys_h e path u). Qed.
