(* C19 adaptor proofs, field level: what Get_ValuesFromOutside reads from the str(bytes) text of field segments and
   element headers written by the assumed class-diagram writer. *)
From Coq Require Import String Ascii List Bool Arith Lia.
From KV Require Import Lib.Str Lib.ODict Gen.VppSrc Model.Vpp Model.VppWriter Model.Uml Model.UmlBlob Model.UmlWriter Proofs.VppStr Proofs.UmlBlobDefs.
Import ListNotations.
Open Scope string_scope.

(* facts about all characters: 256 cases *)
Ltac enum c :=
  destruct c as [[] [] [] [] [] [] [] []]; vm_compute;
  try reflexivity; try (let H := fresh in intro H; (reflexivity || discriminate H)).

(* ---------------------------------------------------------------- character classes and character-wise maps *)

Fixpoint allc (P : ascii -> bool) (s : string) : bool :=
  match s with EmptyString => true | String c r => P c && allc P r end.

Fixpoint flat (f : ascii -> string) (s : string) : string :=
  match s with EmptyString => "" | String c r => f c ++ flat f r end.

Lemma allc_app : forall P a b, allc P (a ++ b) = allc P a && allc P b.
Proof. induction a as [|x a IH]; intros; cbn [append allc]; [reflexivity | rewrite IH, andb_assoc; reflexivity]. Qed.

Lemma allc_imp : forall (P Q : ascii -> bool) s, (forall c, P c = true -> Q c = true) -> allc P s = true -> allc Q s = true.
Proof.
  intros P Q s H. induction s as [|x s IH]; intro Hs; [reflexivity|].
  cbn [allc] in *. apply andb_true_iff in Hs. destruct Hs as [H1 H2]. rewrite (H _ H1), (IH H2). reflexivity.
Qed.

Lemma flat_app : forall f a b, flat f (a ++ b) = flat f a ++ flat f b.
Proof. induction a as [|x a IH]; intros; cbn [append flat]; [reflexivity | rewrite IH, sapp_assoc; reflexivity]. Qed.

Lemma flat_ext : forall (P : ascii -> bool) f g x, (forall c, P c = true -> f c = g c) -> allc P x = true -> flat f x = flat g x.
Proof.
  intros P f g x H. induction x as [|c x IH]; intro Hx; [reflexivity|].
  cbn [allc] in Hx. apply andb_true_iff in Hx. destruct Hx as [H1 H2]. cbn [flat]. rewrite (H _ H1), (IH H2). reflexivity.
Qed.

Lemma flat_id : forall (P : ascii -> bool) f x, (forall c, P c = true -> f c = String c "") -> allc P x = true -> flat f x = x.
Proof.
  intros P f x H. induction x as [|c x IH]; intro Hx; [reflexivity|].
  cbn [allc] in Hx. apply andb_true_iff in Hx. destruct Hx as [H1 H2]. cbn [flat]. rewrite (H _ H1), (IH H2). reflexivity.
Qed.

Lemma flat_nil : forall (P : ascii -> bool) f x, (forall c, P c = true -> f c = "") -> allc P x = true -> flat f x = "".
Proof.
  intros P f x H. induction x as [|c x IH]; intro Hx; [reflexivity|].
  cbn [allc] in Hx. apply andb_true_iff in Hx. destruct Hx as [H1 H2]. cbn [flat]. rewrite (H _ H1), (IH H2). reflexivity.
Qed.

Lemma allc_flat : forall (P Q : ascii -> bool) f x, (forall c, P c = true -> allc Q (f c) = true) -> allc P x = true -> allc Q (flat f x) = true.
Proof.
  intros P Q f x H. induction x as [|c x IH]; intro Hx; [reflexivity|].
  cbn [allc] in Hx. apply andb_true_iff in Hx. destruct Hx as [H1 H2]. cbn [flat]. rewrite allc_app, (H _ H1), (IH H2). reflexivity.
Qed.

Lemma no_char_allc : forall ch s, no_char ch s = allc (fun b => negb (Ascii.eqb b ch)) s.
Proof. induction s as [|x s IH]; [reflexivity|]. cbn [no_char allc]. rewrite IH. reflexivity. Qed.

Lemma allc_no_char : forall (P : ascii -> bool) ch s, (forall c, P c = true -> negb (Ascii.eqb c ch) = true) -> allc P s = true -> no_char ch s = true.
Proof. intros P ch s H Hs. rewrite no_char_allc. exact (allc_imp _ _ _ H Hs). Qed.

Lemma no_char_flat : forall (P : ascii -> bool) ch f x, (forall c, P c = true -> no_char ch (f c) = true) -> allc P x = true ->
  no_char ch (flat f x) = true.
Proof.
  intros P ch f x H Hx. rewrite no_char_allc. apply (allc_flat P); [|exact Hx].
  intros c Hc. rewrite <- no_char_allc. exact (H _ Hc).
Qed.

Lemma remove_char_flat : forall a f x, remove_char a (flat f x) = flat (fun c => remove_char a (f c)) x.
Proof. induction x as [|c x IH]; [reflexivity|]. cbn [flat]. rewrite remove_char_app, IH. reflexivity. Qed.

Lemma clean_step_flat : forall p (P : ascii -> bool) f x,
  (forall c, P c = true -> match p with String a (String _ EmptyString) => negb (ends_with a (f c)) | _ => true end = true) ->
  allc P x = true -> clean_step (flat f x) p = flat (fun c => clean_step (f c) p) x.
Proof.
  intros p P f x H. induction x as [|c x IH]; intro Hx.
  - cbn [flat]. destruct p as [|a [|b [|d p]]]; reflexivity.
  - cbn [allc] in Hx. apply andb_true_iff in Hx. destruct Hx as [H1 H2]. cbn [flat].
    change (f c ++ flat f x) with (f c ++ "" ++ flat f x). rewrite clean_step_mid.
    + cbn [append]. rewrite (IH H2). reflexivity.
    + destruct p; reflexivity.
    + exact (H _ H1).
Qed.

Lemma clean_flat : forall pats (P : ascii -> bool) f x, (forall c, P c = true -> track pats (f c) = true) -> allc P x = true ->
  clean_with pats (flat f x) = flat (fun c => clean_with pats (f c)) x.
Proof.
  induction pats as [|p ps IH]; intros P f x H Hx; [reflexivity|].
  rewrite clean_with_cons, (clean_step_flat p P f x).
  - rewrite (IH P (fun c => clean_step (f c) p) x); [reflexivity | | exact Hx].
    intros c Hc. specialize (H c Hc). cbn [track] in H. apply andb_true_iff in H. exact (proj2 H).
  - intros c Hc. specialize (H c Hc). cbn [track] in H. apply andb_true_iff in H. exact (proj1 H).
  - exact Hx.
Qed.

(* ---------------------------------------------------------------- L1: str(bytes) then mass_replace on the alphabet *)

Definition kc (c : ascii) : string := if dropped c then "" else String c "".

Lemma alpha_allc : forall x, alpha x = allc alpha_char x.
Proof. induction x as [|c x IH]; [reflexivity|]. cbn [alpha allc]. rewrite IH. reflexivity. Qed.

Lemma repr_flat : forall x, repr_body SQ x = flat (repr_char SQ) x.
Proof. induction x as [|c x IH]; [reflexivity|]. cbn [repr_body flat]. rewrite IH. reflexivity. Qed.

Lemma keepm_flat : forall x, keepm x = flat kc x.
Proof. induction x as [|c x IH]; [reflexivity|]. cbn [keepm flat]. rewrite IH. unfold kc. destruct (dropped c); reflexivity. Qed.

Lemma rc_track : forall c, alpha_char c = true -> track mass_pats (repr_char SQ c) = true.
Proof. intro c. enum c. Qed.

Lemma rc_clean : forall c, alpha_char c = true -> clean_with mass_pats (repr_char SQ c) = kc c.
Proof. intro c. enum c. Qed.

Lemma mass_repr : forall x, alpha x = true -> mass_replace (repr_body SQ x) = keepm x.
Proof.
  intros x H. rewrite alpha_allc in H. unfold mass_replace.
  rewrite repr_flat, keepm_flat, (clean_flat mass_pats alpha_char _ _ rc_track H).
  exact (flat_ext alpha_char _ _ _ rc_clean H).
Qed.
Print Assumptions mass_repr.

(* ---------------------------------------------------------------- the classes of the writer's texts *)

Definition wsc (c : ascii) : bool := existsb (Ascii.eqb c) [CR; LF; TAB].
Definition layc (c : ascii) : bool := existsb (Ascii.eqb c) [CR; LF; TAB; SP; "("; ")"; ","]%char.
Definition pqc (c : ascii) : bool := plain_char c || Ascii.eqb c DQ.           (* plain or the double quote *)
Definition psq (c : ascii) : bool := plain_char c || Ascii.eqb c SQ.           (* plain or the apostrophe *)
Definition refc (c : ascii) : bool := layc c || plain_char c || Ascii.eqb c "<" || Ascii.eqb c ">".
Definition nsp (c : ascii) : bool := negb (is_space c).

Lemma in_chars_allc : forall cs s, in_chars cs s = allc (fun c => existsb (Ascii.eqb c) cs) s.
Proof. intros cs s. unfold in_chars. induction s as [|x s IH]; [reflexivity|]. cbn [allc]. rewrite <- IH. reflexivity. Qed.

Lemma wsok_allc : forall s, wsok s = allc wsc s.
Proof. intro s. apply in_chars_allc. Qed.
Lemma layok_allc : forall s, layok s = allc layc s.
Proof. intro s. apply in_chars_allc. Qed.
Lemma plain_allc : forall s, plain s = allc plain_char s.
Proof. induction s as [|x s IH]; [reflexivity|]. cbn [plain allc]. rewrite IH. reflexivity. Qed.

Ltac split_and :=
  repeat match goal with H : _ && _ = true |- _ => apply andb_true_iff in H; destruct H end.

(* allc Q s from a hypothesis allc P s, P included in Q; literals by computation *)
Ltac cls1 :=
  first [ assumption
        | match goal with H : allc ?P ?s = true |- allc ?Q ?s = true =>
            solve [apply (allc_imp P Q s); [let c := fresh "c" in intro c; enum c | exact H]] end
        | solve [vm_compute; reflexivity] ].
Ltac cls := repeat (rewrite allc_app; apply andb_true_iff; split); cls1.

Ltac nc1 :=
  first [ assumption
        | match goal with H : allc ?P ?s = true |- no_char ?ch ?s = true =>
            solve [apply (allc_no_char P ch s); [let c := fresh "c" in intro c; enum c | exact H]] end
        | solve [vm_compute; reflexivity] ].
Ltac nc := repeat (rewrite no_char_app; apply andb_true_iff; split); nc1.

(* ---------------------------------------------------------------- str.strip *)

Lemma slen_app : forall a b, String.length (a ++ b) = String.length a + String.length b.
Proof. induction a as [|x a IH]; intros; cbn [append String.length]; [reflexivity | rewrite IH; reflexivity]. Qed.

Lemma rstrip_cons_ns : forall c r, is_space c = false -> rstrip (String c r) = String c (rstrip r).
Proof. intros c r H. cbn [rstrip]. rewrite H. destruct (rstrip r); reflexivity. Qed.

Lemma rstrip_blank0 : forall w, allc is_space w = true -> rstrip w = "".
Proof.
  induction w as [|c w IH]; intro H; [reflexivity|].
  cbn [allc] in H. apply andb_true_iff in H. destruct H as [H1 H2]. cbn [rstrip]. rewrite (IH H2), H1. reflexivity.
Qed.

Lemma rstrip_blank : forall x w, allc is_space w = true -> rstrip (x ++ w) = rstrip x.
Proof.
  induction x as [|c x IH]; intros w H.
  - cbn [append]. rewrite (rstrip_blank0 _ H). reflexivity.
  - cbn [append rstrip]. rewrite (IH _ H). reflexivity.
Qed.

Lemma strip_blank : forall w, allc is_space w = true -> py_strip w = "".
Proof. intros w H. unfold py_strip. rewrite (rstrip_blank0 _ H). reflexivity. Qed.

Lemma lstrip_len : forall s, String.length (lstrip s) <= String.length s.
Proof. induction s as [|c s IH]; cbn [lstrip]; [lia|]. destruct (is_space c); cbn [String.length]; lia. Qed.

Lemma rstrip_prefix : forall s, exists w, s = rstrip s ++ w.
Proof.
  induction s as [|c s [w Hw]]; [exists ""; reflexivity|].
  cbn [rstrip]. destruct (rstrip s) as [|y t] eqn:E.
  - destruct (is_space c); [exists (String c s); reflexivity | exists s; reflexivity].
  - exists w. cbn [append]. f_equal. exact Hw.
Qed.

Lemma strip_fix : forall s, py_strip s = s -> rstrip s = s /\ lstrip s = s.
Proof.
  intros s H. unfold py_strip in H. destruct (rstrip_prefix s) as [w Hw].
  pose proof (f_equal String.length Hw) as Hl. rewrite slen_app in Hl.
  pose proof (lstrip_len (rstrip s)) as H2. rewrite H in H2.
  destruct w as [|y w]; [|cbn [String.length] in Hl; lia].
  rewrite sapp_nil_r in Hw. split; [symmetry; exact Hw|]. rewrite <- Hw in H. exact H.
Qed.

Lemma lstrip_head : forall s, lstrip s = s -> s <> "" -> exists ch r, s = String ch r /\ is_space ch = false.
Proof.
  intros s H Hn. destruct s as [|c s]; [congruence|]. cbn [lstrip] in H. destruct (is_space c) eqn:E.
  - pose proof (lstrip_len s) as Hl. rewrite H in Hl. cbn [String.length] in Hl. lia.
  - exists c, s. split; [reflexivity | exact E].
Qed.

Lemma lstrip_app : forall s w, lstrip s = s -> s <> "" -> lstrip (s ++ w) = s ++ w.
Proof.
  intros s w H Hn. destruct (lstrip_head s H Hn) as [ch [r [E1 E2]]]. subst s.
  cbn [append lstrip]. rewrite E2. reflexivity.
Qed.

Lemma rstrip_app_ne : forall a b, rstrip b <> "" -> rstrip (a ++ b) = a ++ rstrip b.
Proof.
  induction a as [|c a IH]; intros b H; [reflexivity|].
  cbn [append rstrip]. rewrite (IH _ H). destruct (a ++ rstrip b) as [|y t] eqn:E; [|reflexivity].
  exfalso. destruct a; cbn [append] in E; [congruence | discriminate].
Qed.

Lemma lstrip_mid : forall a ch y, is_space ch = false -> lstrip (a ++ String ch y) <> "".
Proof.
  induction a as [|c a IH]; intros ch y H; cbn [append lstrip].
  - rewrite H. discriminate.
  - destruct (is_space c); [apply IH; exact H | discriminate].
Qed.

Lemma strip_nonblank : forall a ch b, is_space ch = false -> py_strip (a ++ String ch b) <> "".
Proof.
  intros a ch b H. unfold py_strip.
  rewrite rstrip_app_ne, (rstrip_cons_ns _ _ H); [apply lstrip_mid; exact H|].
  rewrite (rstrip_cons_ns _ _ H). discriminate.
Qed.

Lemma strip_ns : forall k, allc nsp k = true -> py_strip k = k.
Proof.
  intros k H. assert (Hr : rstrip k = k).
  { induction k as [|c k IH]; [reflexivity|]. cbn [allc] in H. apply andb_true_iff in H. destruct H as [H1 H2].
    unfold nsp in H1. apply negb_true_iff in H1. rewrite (rstrip_cons_ns _ _ H1), (IH H2). reflexivity. }
  unfold py_strip. rewrite Hr. destruct k as [|c k]; [reflexivity|].
  cbn [allc] in H. apply andb_true_iff in H. destruct H as [H1 _]. unfold nsp in H1. apply negb_true_iff in H1.
  cbn [lstrip]. rewrite H1. reflexivity.
Qed.

Lemma ltb_len : forall s, Nat.ltb 0 (String.length s) = negb (String.eqb s "").
Proof. destruct s; reflexivity. Qed.

(* ---------------------------------------------------------------- str(bytes) and mass_replace on the classes *)

Lemma repr_pq : forall x, allc pqc x = true -> repr_body SQ x = x.
Proof. intros x H. rewrite repr_flat. apply (flat_id pqc); [intro c; enum c | exact H]. Qed.

Lemma keepm_app : forall a b, keepm (a ++ b) = keepm a ++ keepm b.
Proof. intros. rewrite !keepm_flat. apply flat_app. Qed.

Lemma keepm_plain : forall x, allc plain_char x = true -> keepm x = x.
Proof. intros x H. rewrite keepm_flat. apply (flat_id plain_char); [intro c; enum c | exact H]. Qed.

Lemma mass_pq : forall x, allc pqc x = true -> mass_replace x = keepm x.
Proof.
  intros x H. rewrite <- (repr_pq x H) at 1. apply mass_repr. rewrite alpha_allc. cls.
Qed.

Lemma mass_psq : forall x, allc psq x = true -> mass_replace x = x.
Proof.
  intros x H. transitivity (mass_replace (flat (fun c => String c "") x)).
  - rewrite (flat_id psq _ x); [reflexivity | reflexivity | exact H].
  - unfold mass_replace. rewrite (clean_flat mass_pats psq).
    + apply (flat_id psq); [intro c; enum c | exact H].
    + intro c; enum c.
    + exact H.
Qed.

(* ---------------------------------------------------------------- headers *)

Lemma vfo_colon : forall a b c,
  no_char ";" a = true -> no_char ";" b = true -> no_char ";" c = true ->
  no_char ":" a = true -> no_char ":" b = true -> no_char ":" c = true ->
  values_from_outside (a ++ ":" ++ b ++ ":" ++ c) =
  Some [("id", PStr (py_strip (mass_replace a))); ("name", PStr (py_strip (mass_replace b))); ("type", PStr (py_strip (mass_replace c)))].
Proof.
  intros a b c Ha Hb Hc Ha' Hb' Hc'. unfold values_from_outside.
  assert (E1 : no_char ";" (a ++ ":" ++ b ++ ":" ++ c) = true) by nc.
  assert (E2 : no_char ":" (a ++ ":" ++ b ++ ":" ++ c) = false).
  { rewrite no_char_app. cbn [append no_char]. rewrite Ascii.eqb_refl. cbn [negb andb]. apply andb_false_r. }
  rewrite E1, E2. cbn [andb negb].
  assert (E3 : split_on ":" (a ++ ":" ++ b ++ ":" ++ c) = [a; b; c]).
  { cbn [append]. rewrite !split_on_app, !split_on_none by assumption. reflexivity. }
  rewrite E3. reflexivity.
Qed.

Lemma headok_parts : forall id nm ty, headok id nm ty = true ->
  (allc plain_char id = true /\ no_char ":" id = true /\ py_strip id = id /\ id <> "") /\
  (match nm with Some s => allc plain_char s = true /\ no_char ":" s = true /\ py_strip s = s | None => True end) /\
  (allc plain_char ty = true /\ no_char ":" ty = true /\ py_strip ty = ty /\ ty <> "").
Proof.
  intros id nm ty H. unfold headok, textok in H. split_and.
  repeat match goal with H : String.eqb _ _ = true |- _ => apply String.eqb_eq in H end.
  repeat match goal with H : negb (String.eqb _ _) = true |- _ => apply negb_true_iff in H; apply String.eqb_neq in H end.
  repeat match goal with H : plain _ = true |- _ => rewrite plain_allc in H end.
  split; [|split].
  - repeat split; assumption.
  - destruct nm as [s|]; [|exact Logic.I]. split_and.
    repeat match goal with H : String.eqb _ _ = true |- _ => apply String.eqb_eq in H end.
    repeat match goal with H : plain _ = true |- _ => rewrite plain_allc in H end.
    repeat split; assumption.
  - repeat split; assumption.
Qed.

Lemma head_pq : forall id nm ty, headok id nm ty = true -> allc pqc (head_text id nm ty) = true.
Proof.
  intros id nm ty H. destruct (headok_parts _ _ _ H) as [[Hi _] [Hn [Ht _]]].
  unfold head_text, qname, dq. destruct nm as [s|]; [destruct Hn as [Hs _]|]; cls.
Qed.

Lemma name_clean : forall nm,
  match nm with Some s => allc plain_char s = true /\ no_char ":" s = true /\ py_strip s = s | None => True end ->
  py_strip (mass_replace (qname nm)) = name_text nm.
Proof.
  intros nm H. destruct nm as [s|]; [|vm_compute; reflexivity]. destruct H as [Hs [_ Hp]].
  unfold qname, name_text, dq. rewrite mass_pq by cls. rewrite !keepm_app, (keepm_plain _ Hs).
  change (keepm (String DQ "")) with "". cbn [append]. rewrite sapp_nil_r. exact Hp.
Qed.

Lemma values_header : forall id nm ty, headok id nm ty = true ->
  values_from_outside (repr_body SQ (head_text id nm ty)) = Some [("id", PStr id); ("name", PStr (name_text nm)); ("type", PStr ty)].
Proof.
  intros id nm ty H. rewrite (repr_pq _ (head_pq _ _ _ H)).
  destruct (headok_parts _ _ _ H) as [[Hi [Hi1 [Hi2 Hi3]]] [Hn [Ht [Ht1 [Ht2 Ht3]]]]].
  unfold head_text. rewrite vfo_colon.
  - rewrite (name_clean nm Hn). rewrite (mass_psq id) by cls. rewrite Hi2.
    rewrite (mass_psq (ty ++ " ")) by cls. unfold py_strip at 1. rewrite rstrip_blank by reflexivity.
    fold (py_strip ty). rewrite Ht2. reflexivity.
  - nc.
  - unfold qname, dq. destruct nm as [s|]; [destruct Hn as [Hs _]|]; nc.
  - nc.
  - nc.
  - unfold qname, dq. destruct nm as [s|]; [destruct Hn as [_ [Hs _]]|]; nc.
  - nc.
Qed.
Print Assumptions values_header.

Lemma values_header_top : forall id nm ty, headok id nm ty = true ->
  values_from_outside (String "b" (String SQ (repr_body SQ (head_text id nm ty) ++ String SQ ""))) =
  Some [("id", PStr (String "b" (String SQ id))); ("name", PStr (name_text nm)); ("type", PStr (ty ++ " '"))].
Proof.
  intros id nm ty H. rewrite (repr_pq _ (head_pq _ _ _ H)).
  destruct (headok_parts _ _ _ H) as [[Hi [Hi1 [Hi2 Hi3]]] [Hn [Ht [Ht1 [Ht2 Ht3]]]]].
  unfold head_text.
  replace (String "b" (String SQ ((id ++ ":" ++ qname nm ++ ":" ++ ty ++ " ") ++ String SQ "")))
    with ((String "b" (String SQ id)) ++ ":" ++ qname nm ++ ":" ++ (ty ++ String " " (String SQ "")))
    by (repeat first [rewrite !sapp_assoc | progress cbn [append]]; reflexivity).
  assert (Hq : rstrip (String " " (String SQ "")) = String " " (String SQ "")) by (vm_compute; reflexivity).
  destruct (strip_fix _ Hi2) as [Hir Hil]. destruct (strip_fix _ Ht2) as [Htr Htl].
  rewrite vfo_colon.
  - rewrite (name_clean nm Hn).
    rewrite (mass_psq (String "b" (String SQ id))) by (change (String "b" (String SQ id)) with (String "b" (String SQ "") ++ id); cls).
    rewrite (mass_psq (ty ++ String " " (String SQ ""))) by cls.
    assert (E1 : py_strip (String "b" (String SQ id)) = String "b" (String SQ id)).
    { unfold py_strip. rewrite !rstrip_cons_ns, Hir by reflexivity. reflexivity. }
    assert (E2 : py_strip (ty ++ String " " (String SQ "")) = ty ++ String " " (String SQ "")).
    { unfold py_strip. rewrite rstrip_app_ne, Hq by (rewrite Hq; discriminate). apply lstrip_app; assumption. }
    rewrite E1, E2. reflexivity.
  - change (String "b" (String SQ id)) with (String "b" (String SQ "") ++ id). nc.
  - unfold qname, dq. destruct nm as [s|]; [destruct Hn as [Hs _]|]; nc.
  - nc.
  - change (String "b" (String SQ id)) with (String "b" (String SQ "") ++ id). nc.
  - unfold qname, dq. destruct nm as [s|]; [destruct Hn as [_ [Hs _]]|]; nc.
  - nc.
Qed.
Print Assumptions values_header_top.
