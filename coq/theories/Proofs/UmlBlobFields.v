(* C19 adaptor proofs, field level: what Get_ValuesFromOutside reads from the str(bytes) text of field segments and
   element headers written by the assumed class-diagram writer. *)
From Coq Require Import String Ascii List Bool Arith Lia.
From KV Require Import Lib.Str Lib.ODict Gen.VppSrc Model.Vpp Model.VppWriter Model.Uml Model.UmlBlob Model.UmlWriter Proofs.VppStr Proofs.UmlBlobDefs.
Import ListNotations.
Open Scope string_scope.

(* facts about all characters: 256 cases *)
Ltac enum c :=
  destruct c as [[] [] [] [] [] [] [] []]; vm_compute;
  try reflexivity; try (let H := fresh in intro H; (reflexivity || discriminate H)).

(* ---------------------------------------------------------------- character classes and character-wise maps *)

Fixpoint allc (P : ascii -> bool) (s : string) : bool :=
  match s with EmptyString => true | String c r => P c && allc P r end.

Fixpoint flat (f : ascii -> string) (s : string) : string :=
  match s with EmptyString => "" | String c r => f c ++ flat f r end.

Lemma allc_app : forall P a b, allc P (a ++ b) = allc P a && allc P b.
Proof. induction a as [|x a IH]; intros; cbn [append allc]; [reflexivity | rewrite IH, andb_assoc; reflexivity]. Qed.

Lemma allc_imp : forall (P Q : ascii -> bool) s, (forall c, P c = true -> Q c = true) -> allc P s = true -> allc Q s = true.
Proof.
  intros P Q s H. induction s as [|x s IH]; intro Hs; [reflexivity|].
  cbn [allc] in *. apply andb_true_iff in Hs. destruct Hs as [H1 H2]. rewrite (H _ H1), (IH H2). reflexivity.
Qed.

Lemma flat_app : forall f a b, flat f (a ++ b) = flat f a ++ flat f b.
Proof. induction a as [|x a IH]; intros; cbn [append flat]; [reflexivity | rewrite IH, sapp_assoc; reflexivity]. Qed.

Lemma flat_ext : forall (P : ascii -> bool) f g x, (forall c, P c = true -> f c = g c) -> allc P x = true -> flat f x = flat g x.
Proof.
  intros P f g x H. induction x as [|c x IH]; intro Hx; [reflexivity|].
  cbn [allc] in Hx. apply andb_true_iff in Hx. destruct Hx as [H1 H2]. cbn [flat]. rewrite (H _ H1), (IH H2). reflexivity.
Qed.

Lemma flat_id : forall (P : ascii -> bool) f x, (forall c, P c = true -> f c = String c "") -> allc P x = true -> flat f x = x.
Proof.
  intros P f x H. induction x as [|c x IH]; intro Hx; [reflexivity|].
  cbn [allc] in Hx. apply andb_true_iff in Hx. destruct Hx as [H1 H2]. cbn [flat]. rewrite (H _ H1), (IH H2). reflexivity.
Qed.

Lemma flat_nil : forall (P : ascii -> bool) f x, (forall c, P c = true -> f c = "") -> allc P x = true -> flat f x = "".
Proof.
  intros P f x H. induction x as [|c x IH]; intro Hx; [reflexivity|].
  cbn [allc] in Hx. apply andb_true_iff in Hx. destruct Hx as [H1 H2]. cbn [flat]. rewrite (H _ H1), (IH H2). reflexivity.
Qed.

Lemma allc_flat : forall (P Q : ascii -> bool) f x, (forall c, P c = true -> allc Q (f c) = true) -> allc P x = true -> allc Q (flat f x) = true.
Proof.
  intros P Q f x H. induction x as [|c x IH]; intro Hx; [reflexivity|].
  cbn [allc] in Hx. apply andb_true_iff in Hx. destruct Hx as [H1 H2]. cbn [flat]. rewrite allc_app, (H _ H1), (IH H2). reflexivity.
Qed.

Lemma no_char_allc : forall ch s, no_char ch s = allc (fun b => negb (Ascii.eqb b ch)) s.
Proof. induction s as [|x s IH]; [reflexivity|]. cbn [no_char allc]. rewrite IH. reflexivity. Qed.

Lemma allc_no_char : forall (P : ascii -> bool) ch s, (forall c, P c = true -> negb (Ascii.eqb c ch) = true) -> allc P s = true -> no_char ch s = true.
Proof. intros P ch s H Hs. rewrite no_char_allc. exact (allc_imp _ _ _ H Hs). Qed.

Lemma no_char_flat : forall (P : ascii -> bool) ch f x, (forall c, P c = true -> no_char ch (f c) = true) -> allc P x = true ->
  no_char ch (flat f x) = true.
Proof.
  intros P ch f x H Hx. rewrite no_char_allc. apply (allc_flat P); [|exact Hx].
  intros c Hc. rewrite <- no_char_allc. exact (H _ Hc).
Qed.

Lemma remove_char_flat : forall a f x, remove_char a (flat f x) = flat (fun c => remove_char a (f c)) x.
Proof. induction x as [|c x IH]; [reflexivity|]. cbn [flat]. rewrite remove_char_app, IH. reflexivity. Qed.

Lemma clean_step_flat : forall p (P : ascii -> bool) f x,
  (forall c, P c = true -> match p with String a (String _ EmptyString) => negb (ends_with a (f c)) | _ => true end = true) ->
  allc P x = true -> clean_step (flat f x) p = flat (fun c => clean_step (f c) p) x.
Proof.
  intros p P f x H. induction x as [|c x IH]; intro Hx.
  - cbn [flat]. destruct p as [|a [|b [|d p]]]; reflexivity.
  - cbn [allc] in Hx. apply andb_true_iff in Hx. destruct Hx as [H1 H2]. cbn [flat].
    change (f c ++ flat f x) with (f c ++ "" ++ flat f x). rewrite clean_step_mid.
    + cbn [append]. rewrite (IH H2). reflexivity.
    + destruct p; reflexivity.
    + exact (H _ H1).
Qed.

Lemma clean_flat : forall pats (P : ascii -> bool) f x, (forall c, P c = true -> track pats (f c) = true) -> allc P x = true ->
  clean_with pats (flat f x) = flat (fun c => clean_with pats (f c)) x.
Proof.
  induction pats as [|p ps IH]; intros P f x H Hx; [reflexivity|].
  rewrite clean_with_cons, (clean_step_flat p P f x).
  - rewrite (IH P (fun c => clean_step (f c) p) x); [reflexivity | | exact Hx].
    intros c Hc. specialize (H c Hc). cbn [track] in H. apply andb_true_iff in H. exact (proj2 H).
  - intros c Hc. specialize (H c Hc). cbn [track] in H. apply andb_true_iff in H. exact (proj1 H).
  - exact Hx.
Qed.

(* ---------------------------------------------------------------- L1: str(bytes) then mass_replace on the alphabet *)

Definition kc (c : ascii) : string := if dropped c then "" else String c "".

Lemma alpha_allc : forall x, alpha x = allc alpha_char x.
Proof. induction x as [|c x IH]; [reflexivity|]. cbn [alpha allc]. rewrite IH. reflexivity. Qed.

Lemma repr_flat : forall x, repr_body SQ x = flat (repr_char SQ) x.
Proof. induction x as [|c x IH]; [reflexivity|]. cbn [repr_body flat]. rewrite IH. reflexivity. Qed.

Lemma keepm_flat : forall x, keepm x = flat kc x.
Proof. induction x as [|c x IH]; [reflexivity|]. cbn [keepm flat]. rewrite IH. unfold kc. destruct (dropped c); reflexivity. Qed.

Lemma rc_track : forall c, alpha_char c = true -> track mass_pats (repr_char SQ c) = true.
Proof. intro c. enum c. Qed.

Lemma rc_clean : forall c, alpha_char c = true -> clean_with mass_pats (repr_char SQ c) = kc c.
Proof. intro c. enum c. Qed.

Lemma mass_repr : forall x, alpha x = true -> mass_replace (repr_body SQ x) = keepm x.
Proof.
  intros x H. rewrite alpha_allc in H. unfold mass_replace.
  rewrite repr_flat, keepm_flat, (clean_flat mass_pats alpha_char _ _ rc_track H).
  exact (flat_ext alpha_char _ _ _ rc_clean H).
Qed.
Print Assumptions mass_repr.

(* ---------------------------------------------------------------- the classes of the writer's texts *)

Definition wsc (c : ascii) : bool := existsb (Ascii.eqb c) [CR; LF; TAB].
Definition layc (c : ascii) : bool := existsb (Ascii.eqb c) [CR; LF; TAB; SP; "("; ")"; ","]%char.
Definition pqc (c : ascii) : bool := plain_char c || Ascii.eqb c DQ.           (* plain or the double quote *)
Definition psq (c : ascii) : bool := plain_char c || Ascii.eqb c SQ.           (* plain or the apostrophe *)
Definition refc (c : ascii) : bool := layc c || plain_char c || Ascii.eqb c "<" || Ascii.eqb c ">".
Definition nsp (c : ascii) : bool := negb (is_space c).

Lemma in_chars_allc : forall cs s, in_chars cs s = allc (fun c => existsb (Ascii.eqb c) cs) s.
Proof. intros cs s. unfold in_chars. induction s as [|x s IH]; [reflexivity|]. cbn [allc]. rewrite <- IH. reflexivity. Qed.

Lemma wsok_allc : forall s, wsok s = allc wsc s.
Proof. intro s. apply in_chars_allc. Qed.
Lemma layok_allc : forall s, layok s = allc layc s.
Proof. intro s. apply in_chars_allc. Qed.
Lemma plain_allc : forall s, plain s = allc plain_char s.
Proof. induction s as [|x s IH]; [reflexivity|]. cbn [plain allc]. rewrite IH. reflexivity. Qed.

Ltac split_and :=
  repeat match goal with H : _ && _ = true |- _ => apply andb_true_iff in H; destruct H end.

(* allc Q s from a hypothesis allc P s, P included in Q; literals by computation *)
Ltac cls1 :=
  first [ assumption
        | match goal with H : allc ?P ?s = true |- allc ?Q ?s = true =>
            solve [apply (allc_imp P Q s); [let c := fresh "c" in intro c; enum c | exact H]] end
        | solve [vm_compute; reflexivity] ].
Ltac cls := repeat (rewrite allc_app; apply andb_true_iff; split); cls1.

Ltac nc1 :=
  first [ assumption
        | match goal with H : allc ?P ?s = true |- no_char ?ch ?s = true =>
            solve [apply (allc_no_char P ch s); [let c := fresh "c" in intro c; enum c | exact H]] end
        | solve [vm_compute; reflexivity] ].
Ltac nc := repeat (rewrite no_char_app; apply andb_true_iff; split); nc1.

(* ---------------------------------------------------------------- str.strip *)

Lemma slen_app : forall a b, String.length (a ++ b) = String.length a + String.length b.
Proof. induction a as [|x a IH]; intros; cbn [append String.length]; [reflexivity | rewrite IH; reflexivity]. Qed.

Lemma rstrip_cons_ns : forall c r, is_space c = false -> rstrip (String c r) = String c (rstrip r).
Proof. intros c r H. cbn [rstrip]. rewrite H. destruct (rstrip r); reflexivity. Qed.

Lemma rstrip_blank0 : forall w, allc is_space w = true -> rstrip w = "".
Proof.
  induction w as [|c w IH]; intro H; [reflexivity|].
  cbn [allc] in H. apply andb_true_iff in H. destruct H as [H1 H2]. cbn [rstrip]. rewrite (IH H2), H1. reflexivity.
Qed.

Lemma rstrip_blank : forall x w, allc is_space w = true -> rstrip (x ++ w) = rstrip x.
Proof.
  induction x as [|c x IH]; intros w H.
  - cbn [append]. rewrite (rstrip_blank0 _ H). reflexivity.
  - cbn [append rstrip]. rewrite (IH _ H). reflexivity.
Qed.

Lemma strip_blank : forall w, allc is_space w = true -> py_strip w = "".
Proof. intros w H. unfold py_strip. rewrite (rstrip_blank0 _ H). reflexivity. Qed.

Lemma lstrip_len : forall s, String.length (lstrip s) <= String.length s.
Proof. induction s as [|c s IH]; cbn [lstrip]; [lia|]. destruct (is_space c); cbn [String.length]; lia. Qed.

Lemma rstrip_prefix : forall s, exists w, s = rstrip s ++ w.
Proof.
  induction s as [|c s [w Hw]]; [exists ""; reflexivity|].
  cbn [rstrip]. destruct (rstrip s) as [|y t] eqn:E.
  - destruct (is_space c); [exists (String c s); reflexivity | exists s; reflexivity].
  - exists w. cbn [append]. f_equal. exact Hw.
Qed.

Lemma strip_fix : forall s, py_strip s = s -> rstrip s = s /\ lstrip s = s.
Proof.
  intros s H. unfold py_strip in H. destruct (rstrip_prefix s) as [w Hw].
  pose proof (f_equal String.length Hw) as Hl. rewrite slen_app in Hl.
  pose proof (lstrip_len (rstrip s)) as H2. rewrite H in H2.
  destruct w as [|y w]; [|cbn [String.length] in Hl; lia].
  rewrite sapp_nil_r in Hw. split; [symmetry; exact Hw|]. rewrite <- Hw in H. exact H.
Qed.

Lemma lstrip_head : forall s, lstrip s = s -> s <> "" -> exists ch r, s = String ch r /\ is_space ch = false.
Proof.
  intros s H Hn. destruct s as [|c s]; [congruence|]. cbn [lstrip] in H. destruct (is_space c) eqn:E.
  - pose proof (lstrip_len s) as Hl. rewrite H in Hl. cbn [String.length] in Hl. lia.
  - exists c, s. split; [reflexivity | exact E].
Qed.

Lemma lstrip_app : forall s w, lstrip s = s -> s <> "" -> lstrip (s ++ w) = s ++ w.
Proof.
  intros s w H Hn. destruct (lstrip_head s H Hn) as [ch [r [E1 E2]]]. subst s.
  cbn [append lstrip]. rewrite E2. reflexivity.
Qed.

Lemma rstrip_app_ne : forall a b, rstrip b <> "" -> rstrip (a ++ b) = a ++ rstrip b.
Proof.
  induction a as [|c a IH]; intros b H; [reflexivity|].
  cbn [append rstrip]. rewrite (IH _ H). destruct (a ++ rstrip b) as [|y t] eqn:E; [|reflexivity].
  exfalso. destruct a; cbn [append] in E; [congruence | discriminate].
Qed.

Lemma lstrip_mid : forall a ch y, is_space ch = false -> lstrip (a ++ String ch y) <> "".
Proof.
  induction a as [|c a IH]; intros ch y H; cbn [append lstrip].
  - rewrite H. discriminate.
  - destruct (is_space c); [apply IH; exact H | discriminate].
Qed.

Lemma strip_nonblank : forall a ch b, is_space ch = false -> py_strip (a ++ String ch b) <> "".
Proof.
  intros a ch b H. unfold py_strip.
  rewrite rstrip_app_ne, (rstrip_cons_ns _ _ H); [apply lstrip_mid; exact H|].
  rewrite (rstrip_cons_ns _ _ H). discriminate.
Qed.

Lemma strip_ns : forall k, allc nsp k = true -> py_strip k = k.
Proof.
  intros k H. assert (Hr : rstrip k = k).
  { induction k as [|c k IH]; [reflexivity|]. cbn [allc] in H. apply andb_true_iff in H. destruct H as [H1 H2].
    unfold nsp in H1. apply negb_true_iff in H1. rewrite (rstrip_cons_ns _ _ H1), (IH H2). reflexivity. }
  unfold py_strip. rewrite Hr. destruct k as [|c k]; [reflexivity|].
  cbn [allc] in H. apply andb_true_iff in H. destruct H as [H1 _]. unfold nsp in H1. apply negb_true_iff in H1.
  cbn [lstrip]. rewrite H1. reflexivity.
Qed.

Lemma ltb_len : forall s, Nat.ltb 0 (String.length s) = negb (String.eqb s "").
Proof. destruct s; reflexivity. Qed.

(* ---------------------------------------------------------------- str(bytes) and mass_replace on the classes *)

Lemma repr_pq : forall x, allc pqc x = true -> repr_body SQ x = x.
Proof. intros x H. rewrite repr_flat. apply (flat_id pqc); [intro c; enum c | exact H]. Qed.

Lemma keepm_app : forall a b, keepm (a ++ b) = keepm a ++ keepm b.
Proof. intros. rewrite !keepm_flat. apply flat_app. Qed.

Lemma keepm_plain : forall x, allc plain_char x = true -> keepm x = x.
Proof. intros x H. rewrite keepm_flat. apply (flat_id plain_char); [intro c; enum c | exact H]. Qed.

Lemma mass_pq : forall x, allc pqc x = true -> mass_replace x = keepm x.
Proof.
  intros x H. rewrite <- (repr_pq x H) at 1. apply mass_repr. rewrite alpha_allc. cls.
Qed.

Lemma mass_psq : forall x, allc psq x = true -> mass_replace x = x.
Proof.
  intros x H. transitivity (mass_replace (flat (fun c => String c "") x)).
  - rewrite (flat_id psq _ x); [reflexivity | reflexivity | exact H].
  - unfold mass_replace. rewrite (clean_flat mass_pats psq).
    + apply (flat_id psq); [intro c; enum c | exact H].
    + intro c; enum c.
    + exact H.
Qed.

(* ---------------------------------------------------------------- field segments: the loop body *)

(* the loop body is UmlBlob.vstep *)

Lemma vfo_else : forall o, no_char ";" o && negb (no_char ":" o) = false ->
  values_from_outside o = Some (fold_left vstep (qsplit ";" o) []).
Proof. intros o H. unfold values_from_outside. rewrite H. reflexivity. Qed.

Definition vec_step (k : string) (st : list (string * pv) * nat) (i : string) : list (string * pv) * nat :=
  let i' := py_strip (remove_char "," (mass_replace i)) in
  if Nat.ltb 0 (String.length i')
  then (upsert String.eqb (mass_replace k ++ "_" ++ dec (snd st)) (PStr i') (fst st), S (snd st))
  else st.

Definition gc (c : ascii) : string :=
  remove_char ")" (remove_char "(" (remove_char TAB (remove_char LF (remove_char ">" (repr_char SQ c))))).

Lemma vect_flat : forall t,
  remove_char ")" (remove_char "(" (remove_char TAB (remove_char LF (remove_char ">" (repr_body SQ t))))) = flat gc t.
Proof. intro t. rewrite repr_flat, !remove_char_flat. reflexivity. Qed.

Lemma vector_entries_eq : forall k b1 res,
  vector_entries k (repr_body SQ b1) res = fst (fold_left (vec_step k) (split_on "<" (flat gc b1)) (res, 0)).
Proof. intros. rewrite <- vect_flat. reflexivity. Qed.

Lemma gc_track : forall c, alpha_char c = true -> track mass_pats (gc c) = true.
Proof. intro c. enum c. Qed.
Lemma gc_clean : forall c, alpha_char c = true -> clean_with mass_pats (gc c) = kc c.
Proof. intro c. enum c. Qed.

Lemma mass_G : forall x, allc alpha_char x = true -> mass_replace (flat gc x) = keepm x.
Proof.
  intros x H. unfold mass_replace. rewrite keepm_flat, (clean_flat mass_pats alpha_char _ _ gc_track H).
  exact (flat_ext alpha_char _ _ _ gc_clean H).
Qed.

Lemma G_plain : forall x, allc plain_char x = true -> flat gc x = x.
Proof. intros x H. apply (flat_id plain_char); [intro c; enum c | exact H]. Qed.

Lemma contains1 : forall ch s, contains (String ch "") s = negb (no_char ch s).
Proof.
  intros ch s. induction s as [|y s IH]; [reflexivity|].
  rewrite contains_cons, IH. cbn [prefixb no_char]. rewrite negb_andb, negb_involutive, andb_true_r.
  f_equal. destruct (Ascii.eqb_spec ch y), (Ascii.eqb_spec y ch); congruence.
Qed.

Lemma nc_mid : forall ch a b, no_char ch (a ++ String ch b) = false.
Proof. intros. rewrite no_char_app. cbn [no_char]. rewrite Ascii.eqb_refl. cbn [negb andb]. apply andb_false_r. Qed.

Lemma repr_nc : forall (P : ascii -> bool) ch s, (forall c, P c = true -> no_char ch (repr_char SQ c) = true) -> allc P s = true ->
  no_char ch (repr_body SQ s) = true.
Proof. intros P ch s H Hs. rewrite repr_flat. exact (no_char_flat P ch _ _ H Hs). Qed.

Lemma repr_has : forall ch, repr_char SQ ch = String ch "" -> forall x, no_char ch x = false -> no_char ch (repr_body SQ x) = false.
Proof.
  intros ch Hc x. induction x as [|c x IH]; intro H; [discriminate H|].
  cbn [repr_body]. rewrite no_char_app. cbn [no_char] in H. destruct (Ascii.eqb c ch) eqn:E.
  - apply Ascii.eqb_eq in E. subst c. rewrite Hc. cbn [no_char]. rewrite Ascii.eqb_refl. reflexivity.
  - cbn [negb andb] in H. rewrite (IH H). apply andb_false_r.
Qed.

Ltac ncr :=
  match goal with H : allc ?P ?s = true |- no_char ?ch (repr_body SQ ?s) = true =>
    solve [apply (repr_nc P ch s); [let c := fresh "c" in intro c; enum c | exact H]] end.

Lemma vstep_eq : forall acc wk rest, no_char "=" (repr_body SQ wk) = true -> no_char "=" (repr_body SQ rest) = true ->
  vstep acc (repr_body SQ (wk ++ "=" ++ rest)) =
  if Nat.ltb 0 (String.length (py_strip (remove_char "," (mass_replace (repr_body SQ rest))))) then
    if contains "<" (repr_body SQ rest) && contains ">" (repr_body SQ rest)
    then vector_entries (repr_body SQ wk) (repr_body SQ rest) acc
    else upsert String.eqb (py_strip (mass_replace (repr_body SQ wk))) (PStr (py_strip (mass_replace (repr_body SQ rest)))) acc
  else acc.
Proof.
  intros acc wk rest H1 H2. unfold vstep. rewrite !repr_body_app. change (repr_body SQ "=") with "=". cbn [append].
  assert (E : contains "=" (repr_body SQ wk ++ String "=" (repr_body SQ rest)) = true) by (rewrite contains1, nc_mid; reflexivity).
  rewrite E, split_on_app, !split_on_none by assumption. reflexivity.
Qed.

(* ---------------------------------------------------------------- the parts of a segment *)

Definition wkc (c : ascii) : bool := wsc c || plain_char c.
Definition valc (c : ascii) : bool := refc c || Ascii.eqb c DQ.

Lemma allc_and : forall (P Q : ascii -> bool) s, allc P s = true -> allc Q s = true -> allc (fun c => P c && Q c) s = true.
Proof.
  induction s as [|c s IH]; intros H1 H2; [reflexivity|]. cbn [allc] in *. split_and.
  rewrite IH by assumption. repeat match goal with H : _ = true |- _ => rewrite H end. reflexivity.
Qed.

Lemma wk_facts : forall ws k, wsok ws = true -> keyok k = true ->
  allc wkc (ws ++ k) = true /\ mass_replace (repr_body SQ (ws ++ k)) = k /\ py_strip k = k.
Proof.
  intros ws k Hw Hk. rewrite wsok_allc in Hw. unfold keyok in Hk. split_and. rewrite plain_allc in *.
  assert (Hwk : allc wkc (ws ++ k) = true) by cls.
  split; [exact Hwk|]. split.
  - rewrite mass_repr by (rewrite alpha_allc; cls). rewrite keepm_app, (keepm_plain k) by assumption.
    rewrite keepm_flat, (flat_nil wsc kc ws); [reflexivity | intro c; enum c | assumption].
  - apply strip_ns.
    match goal with H1 : allc plain_char k = true, H2 : no_char SP k = true |- _ =>
      rewrite no_char_allc in H2; pose proof (allc_and _ _ _ H1 H2) as H3 end.
    revert H3. apply allc_imp. intro c. enum c.
Qed.

Lemma plain_not_dq : forall c, plain_char c = true -> Ascii.eqb c DQ = false.
Proof. intro c. enum c. Qed.

Lemma valok_cases : forall v, valok v = true ->
  allc pqc v = true /\ keepm v = unq v /\ allc plain_char (unq v) = true /\ py_strip (unq v) = unq v.
Proof.
  intros v H. unfold valok in H. apply orb_true_iff in H. destruct H as [H|H].
  - unfold vtextok in H. split_and. rewrite plain_allc in *.
    match goal with H : String.eqb _ _ = true |- _ => apply String.eqb_eq in H end.
    assert (E : unq v = v).
    { destruct v as [|c r]; [reflexivity|]. cbn [unq].
      match goal with H : allc plain_char (String c r) = true |- _ => cbn [allc] in H; apply andb_true_iff in H; destruct H as [Hc _] end.
      rewrite (plain_not_dq _ Hc). reflexivity. }
    rewrite E. repeat split; try assumption; [cls | apply keepm_plain; assumption].
  - unfold vtextok in H. split_and. rewrite plain_allc in *.
    repeat match goal with H : String.eqb _ _ = true |- _ => apply String.eqb_eq in H end.
    remember (unq v) as u eqn:Eu.
    match goal with H : v = dq ++ u ++ dq |- _ => rename H into Hv end.
    unfold dq in Hv. repeat split; try assumption.
    + rewrite Hv. cls.
    + rewrite Hv, !keepm_app, (keepm_plain u) by assumption. change (keepm (String DQ "")) with "". cbn [append]. apply sapp_nil_r.
Qed.

Lemma idok_parts : forall i, idok i = true ->
  allc plain_char i = true /\ no_char "," i = true /\ py_strip i = i /\ i <> "".
Proof.
  intros i H. unfold idok, textok in H. split_and. rewrite plain_allc in *.
  match goal with H : String.eqb _ _ = true |- _ => apply String.eqb_eq in H end.
  match goal with H : negb (String.eqb _ _) = true |- _ => apply negb_true_iff in H; apply String.eqb_neq in H end.
  repeat split; assumption.
Qed.

Lemma allc_rep : forall P sep m, allc P sep = true -> allc P (rep sep m) = true.
Proof. intros P sep m H. induction m as [|m IH]; [reflexivity|]. cbn [rep]. rewrite allc_app, H, IH. reflexivity. Qed.

Lemma lay_blank : forall w, allc layc w = true -> py_strip (remove_char "," (keepm w)) = "".
Proof.
  intros w H. apply strip_blank. rewrite keepm_flat, remove_char_flat.
  apply (allc_flat layc); [intro c; enum c | exact H].
Qed.

(* a plain, stripped, comma-free text followed by list punctuation, as a piece of the vector form *)
Lemma piece_clean : forall i w, allc plain_char i = true -> no_char "," i = true -> py_strip i = i -> allc layc w = true ->
  py_strip (remove_char "," (mass_replace (i ++ flat gc w))) = i.
Proof.
  intros i w Hi Hc Hs Hw. rewrite <- (G_plain i Hi) at 1. rewrite <- flat_app, mass_G by cls.
  rewrite keepm_app, (keepm_plain _ Hi), remove_char_app, (remove_char_none _ _ Hc).
  unfold py_strip. rewrite rstrip_blank; [exact Hs|].
  rewrite keepm_flat, remove_char_flat. apply (allc_flat layc); [intro c; enum c | exact Hw].
Qed.

(* ---------------------------------------------------------------- SField, SChildren *)

Lemma vstep_field : forall ws k v acc, wsok ws = true -> keyok k = true -> valok v = true ->
  vstep acc (repr_body SQ (ws ++ k ++ "=" ++ v)) = seg_fields (SField ws k v) acc.
Proof.
  intros ws k v acc Hw Hk Hv. destruct (wk_facts _ _ Hw Hk) as [Hwk [Hm Hs]].
  destruct (valok_cases _ Hv) as [Hp [Hkeep [Hu1 Hu3]]].
  rewrite <- (sapp_assoc ws k). rewrite vstep_eq; [|ncr|ncr].
  rewrite Hm, Hs, (repr_pq v Hp), (mass_pq v Hp), Hkeep, Hu3, ltb_len.
  assert (E : contains "<" v = false) by (rewrite contains1; apply negb_false_iff; nc).
  rewrite E. cbn [andb seg_fields]. destruct (String.eqb (py_strip (remove_char "," (unq v))) ""); reflexivity.
Qed.

Lemma vstep_lay : forall ws k w acc, wsok ws = true -> keyok k = true -> allc layc w = true ->
  vstep acc (repr_body SQ (ws ++ k ++ "=" ++ w)) = acc.
Proof.
  intros ws k w acc Hw Hk Hl. destruct (wk_facts _ _ Hw Hk) as [Hwk [Hm Hs]].
  rewrite <- (sapp_assoc ws k). rewrite vstep_eq; [|ncr|ncr].
  rewrite mass_repr by (rewrite alpha_allc; cls). rewrite (lay_blank _ Hl). reflexivity.
Qed.

(* ---------------------------------------------------------------- SRefs *)

Fixpoint refs_tail (sep c : string) (r : list string) : string :=
  match r with [] => c | j :: r' => sep ++ "<" ++ j ++ ">" ++ refs_tail sep c r' end.

Lemma refs_text_tail : forall sep c r i, refs_text sep (i :: r) ++ c = "<" ++ i ++ ">" ++ refs_tail sep c r.
Proof.
  intros sep c r. induction r as [|j r IH]; intro i.
  - change (refs_text sep [i]) with ("<" ++ i ++ ">"). cbn [refs_tail]. rewrite !sapp_assoc. reflexivity.
  - change (refs_text sep (i :: j :: r)) with ("<" ++ i ++ ">" ++ sep ++ refs_text sep (j :: r)).
    rewrite !sapp_assoc, IH. reflexivity.
Qed.

Lemma refs_tail_cls : forall sep c r, allc layc sep = true -> allc layc c = true -> forallb idok r = true ->
  allc refc (refs_tail sep c r) = true.
Proof.
  intros sep c r Hs Hc. induction r as [|j r IH]; intro H; cbn [refs_tail]; [cls|].
  cbn [forallb] in H. apply andb_true_iff in H. destruct H as [Hj Hr]. destruct (idok_parts _ Hj) as [Hj1 _].
  specialize (IH Hr). cls.
Qed.

Fixpoint pieces (sep c i : string) (r : list string) : list string :=
  match r with [] => [i ++ flat gc c] | j :: r' => (i ++ flat gc sep) :: pieces sep c j r' end.

Lemma split_pieces : forall sep c r i, allc layc sep = true -> allc layc c = true -> allc plain_char i = true -> forallb idok r = true ->
  split_on "<" (flat gc (i ++ String ">" (refs_tail sep c r))) = pieces sep c i r.
Proof.
  intros sep c r. induction r as [|j r IH]; intros i Hs Hc Hi Hr; cbn [refs_tail pieces].
  - rewrite (flat_app gc i), (G_plain i Hi). cbn [flat]. change (gc ">") with "". cbn [append].
    apply split_on_none. rewrite no_char_app. apply andb_true_iff. split; [nc|].
    apply (no_char_flat layc); [intro x; enum x | exact Hc].
  - cbn [forallb] in Hr. apply andb_true_iff in Hr. destruct Hr as [Hj Hr]. destruct (idok_parts _ Hj) as [Hj1 _].
    cbn [append]. rewrite (flat_app gc i), (G_plain i Hi). cbn [flat]. change (gc ">") with "". cbn [append].
    rewrite (flat_app gc sep). cbn [flat]. change (gc "<") with "<". cbn [append].
    rewrite <- sapp_assoc, split_on_app, (IH j Hs Hc Hj1 Hr), split_on_none; [reflexivity|].
    rewrite no_char_app. apply andb_true_iff. split; [nc|].
    apply (no_char_flat layc); [intro x; enum x | exact Hs].
Qed.

Definition ref_step (k : string) (st : list (string * pv) * nat) (i : string) : list (string * pv) * nat :=
  (upsert String.eqb (k ++ "_" ++ dec (snd st)) (PStr i) (fst st), S (snd st)).

Lemma vec_step_piece : forall K k st i w, mass_replace K = k -> idok i = true -> allc layc w = true ->
  vec_step K st (i ++ flat gc w) = ref_step k st i.
Proof.
  intros K k st i w HK Hi Hw. destruct (idok_parts _ Hi) as [H1 [H2 [H3 H4]]].
  unfold vec_step. rewrite (piece_clean i w H1 H2 H3 Hw), HK, ltb_len.
  apply String.eqb_neq in H4. rewrite H4. reflexivity.
Qed.

Lemma fold_pieces : forall K k sep c r i st, mass_replace K = k -> allc layc sep = true -> allc layc c = true ->
  idok i = true -> forallb idok r = true ->
  fold_left (vec_step K) (pieces sep c i r) st = fold_left (ref_step k) (i :: r) st.
Proof.
  intros K k sep c r. induction r as [|j r IH]; intros i st HK Hs Hc Hi Hr; cbn [pieces fold_left].
  - rewrite (vec_step_piece K k st i c HK Hi Hc). reflexivity.
  - cbn [forallb] in Hr. apply andb_true_iff in Hr. destruct Hr as [Hj Hr].
    rewrite (vec_step_piece K k st i sep HK Hi Hs). exact (IH j _ HK Hs Hc Hj Hr).
Qed.

Lemma nonblank_ltb : forall s, s <> "" -> Nat.ltb 0 (String.length s) = true.
Proof. intros s H. destruct s; [congruence | reflexivity]. Qed.

Lemma repr_lt : repr_char SQ "<" = "<". Proof. reflexivity. Qed.
Lemma repr_gt : repr_char SQ ">" = ">". Proof. reflexivity. Qed.

Lemma vstep_refs : forall ws k o sep c ids acc,
  wsok ws = true -> keyok k = true -> layok o = true -> layok sep = true -> layok c = true -> forallb idok ids = true ->
  vstep acc (repr_body SQ (ws ++ k ++ "=" ++ o ++ refs_text sep ids ++ c)) = seg_fields (SRefs ws k o sep c ids) acc.
Proof.
  intros ws k o sep c ids acc Hw Hk Ho Hs Hc Hi. rewrite layok_allc in *.
  destruct ids as [|i r].
  - change (refs_text sep []) with "". cbn [append seg_fields fold_left fst].
    apply vstep_lay; [assumption | assumption | cls].
  - destruct (wk_facts _ _ Hw Hk) as [Hwk [Hm Hst]].
    cbn [forallb] in Hi. apply andb_true_iff in Hi. destruct Hi as [Hi Hr].
    destruct (idok_parts _ Hi) as [Hi1 [Hi2 [Hi3 Hi4]]].
    pose proof (refs_tail_cls sep c r Hs Hc Hr) as Ht.
    rewrite refs_text_tail. set (tl := refs_tail sep c r) in *.
    assert (HT : allc refc (o ++ "<" ++ i ++ ">" ++ tl) = true) by cls.
    rewrite <- (sapp_assoc ws k). rewrite vstep_eq; [|ncr|ncr].
    (* the emptiness test *)
    assert (E1 : Nat.ltb 0 (String.length (py_strip (remove_char "," (mass_replace (repr_body SQ (o ++ "<" ++ i ++ ">" ++ tl)))))) = true).
    { apply nonblank_ltb. rewrite mass_repr by (rewrite alpha_allc; cls).
      rewrite (keepm_app o), (keepm_app "<"), (keepm_app i), (keepm_plain _ Hi1). change (keepm "<") with "". cbn [append].
      rewrite !remove_char_app, (remove_char_none _ _ Hi2).
      destruct (strip_fix _ Hi3) as [_ Hl]. destruct (lstrip_head i Hl Hi4) as [ch [i' [Ei Ech]]]. rewrite Ei. cbn [append].
      apply strip_nonblank. exact Ech. }
    assert (E2 : contains "<" (repr_body SQ (o ++ "<" ++ i ++ ">" ++ tl)) = true).
    { rewrite contains1. apply negb_true_iff. apply (repr_has _ repr_lt). cbn [append]. apply nc_mid. }
    assert (E3 : contains ">" (repr_body SQ (o ++ "<" ++ i ++ ">" ++ tl)) = true).
    { rewrite contains1. apply negb_true_iff. apply (repr_has _ repr_gt).
      rewrite <- (sapp_assoc o), <- (sapp_assoc (o ++ "<")). cbn [append]. apply nc_mid. }
    rewrite E1, E2, E3. cbn [andb].
    rewrite vector_entries_eq. subst tl. rewrite (flat_app gc o). cbn [append flat]. change (gc "<") with "<".
    cbn [append]. rewrite split_on_app, (split_pieces sep c r i Hs Hc Hi1 Hr).
    rewrite split_on_none by (apply (no_char_flat layc); [intro x; enum x | exact Ho]).
    cbn [app fold_left].
    assert (E4 : vec_step (repr_body SQ (ws ++ k)) (acc, 0) (flat gc o) = (acc, 0)).
    { unfold vec_step. change (flat gc o) with ("" ++ flat gc o). rewrite (piece_clean "" o); reflexivity || assumption. }
    rewrite E4, (fold_pieces _ k sep c r i (acc, 0) Hm Hs Hc Hi Hr). reflexivity.
Qed.

(* ---------------------------------------------------------------- the string state: scan, free_of, qsplit *)

Lemma scan_app : forall a b st, scan st (a ++ b) = scan (scan st a) b.
Proof. induction a as [|x a IH]; intros b st; cbn [append scan]; [reflexivity | apply IH]. Qed.

Lemma free_of_app : forall bad a b st, free_of bad st (a ++ b) = free_of bad st a && free_of bad (scan st a) b.
Proof.
  intros bad. induction a as [|x a IH]; intros b st; cbn [append scan free_of]; [reflexivity|].
  rewrite IH, andb_assoc. reflexivity.
Qed.

Lemma existsb_app_b : forall (f : ascii -> bool) l1 l2, existsb f (l1 ++ l2)%list = existsb f l1 || existsb f l2.
Proof. intros f l1 l2. induction l1 as [|x l1 IH]; [reflexivity|]. cbn [app existsb]. rewrite IH, orb_assoc. reflexivity. Qed.

(* a union of forbidden characters *)
Lemma free_of_union : forall b1 b2 s st, free_of (b1 ++ b2)%list st s = free_of b1 st s && free_of b2 st s.
Proof.
  intros b1 b2. induction s as [|c s IH]; intro st; [reflexivity|].
  cbn [free_of]. rewrite IH, existsb_app_b.
  destruct (q_in (qstep st c)), (existsb (Ascii.eqb c) b1), (existsb (Ascii.eqb c) b2),
    (free_of b1 (qstep st c) s), (free_of b2 (qstep st c) s); reflexivity.
Qed.

Lemma qsplit_st_nonempty : forall sep s st, qsplit_st sep st s <> [].
Proof.
  intros sep s. induction s as [|x s IH]; intro st; cbn [qsplit_st]; [discriminate|].
  destruct (qsplit_st sep (qstep st x) s); [discriminate|].
  destruct (Ascii.eqb x sep && negb (q_in (qstep st x))); discriminate.
Qed.

(* a text without separator outside quoted text is one piece *)
Lemma qsplit_st_none : forall sep s st, free_of [sep] st s = true -> qsplit_st sep st s = [s].
Proof.
  intros sep s. induction s as [|x s IH]; intros st H; [reflexivity|].
  cbn [free_of existsb] in H. apply andb_true_iff in H. destruct H as [H1 H2].
  cbn [qsplit_st]. rewrite (IH _ H2).
  destruct (q_in (qstep st x)); [rewrite andb_false_r; reflexivity|].
  cbn [orb] in H1. rewrite orb_false_r in H1. apply negb_true_iff in H1. rewrite H1. reflexivity.
Qed.

Lemma qsplit_none : forall sep s, free_of [sep] qst0 s = true -> qsplit sep s = [s].
Proof. intros. apply qsplit_st_none. assumption. Qed.

(* a piece up to a separator outside quoted text *)
Lemma qsplit_st_atomic : forall sep a b st,
  free_of [sep] st a = true -> q_in (scan st (a ++ String sep "")) = false ->
  qsplit_st sep st (a ++ String sep b) = a :: qsplit_st sep (scan st (a ++ String sep "")) b.
Proof.
  intros sep a b. induction a as [|x a IH]; intros st H Hq.
  - cbn [append scan] in *. cbn [qsplit_st]. rewrite Hq, Ascii.eqb_refl. cbn [negb andb].
    destruct (qsplit_st sep (qstep st sep) b) eqn:E; [exfalso; exact (qsplit_st_nonempty _ _ _ E) | reflexivity].
  - cbn [free_of existsb] in H. apply andb_true_iff in H. destruct H as [H1 H2].
    cbn [append scan] in *. cbn [qsplit_st]. rewrite (IH _ H2 Hq).
    destruct (q_in (qstep st x)); [rewrite andb_false_r; reflexivity|].
    cbn [orb] in H1. rewrite orb_false_r in H1. apply negb_true_iff in H1. rewrite H1. reflexivity.
Qed.

Lemma qsplit_atomic : forall a b, free_of [";"]%char qst0 a = true -> scan qst0 (a ++ ";") = qst0 ->
  qsplit ";" (a ++ ";" ++ b) = a :: qsplit ";" b.
Proof.
  intros a b H Hs. unfold qsplit. cbn [append]. rewrite qsplit_st_atomic; [rewrite Hs; reflexivity | exact H | rewrite Hs; reflexivity].
Qed.

Lemma qsplit_cat : forall (A : Type) (g : A -> string) l tail,
  (forall x, In x l -> free_of [";"]%char qst0 (g x) = true /\ scan qst0 (g x ++ ";") = qst0) ->
  free_of [";"]%char qst0 tail = true ->
  qsplit ";" (cat (map (fun x => g x ++ ";") l) ++ tail) = (map g l ++ [tail])%list.
Proof.
  intros A g l tail. induction l as [|x l IH]; intros H Ht.
  - cbn [map cat append app]. apply qsplit_none. exact Ht.
  - cbn [map cat app]. rewrite !sapp_assoc. destruct (H x (or_introl eq_refl)) as [H1 H2].
    rewrite (qsplit_atomic _ _ H1 H2), IH; [reflexivity | | exact Ht].
    intros y Hy. apply H. right. exact Hy.
Qed.

(* the state outside / inside a quoted text, the previous character not a backslash *)
Definition nst (i : bool) : qst := {| q_in := i; q_esc := false |}.

Lemma scan_keep : forall (P : ascii -> bool) i x,
  (forall c, P c = true -> scan (nst i) (repr_char SQ c) = nst i) -> allc P x = true -> scan (nst i) (repr_body SQ x) = nst i.
Proof.
  intros P i x H. induction x as [|c x IH]; intro Hx; [reflexivity|].
  cbn [allc] in Hx. apply andb_true_iff in Hx. destruct Hx as [H1 H2].
  cbn [repr_body]. rewrite scan_app, (H _ H1). exact (IH H2).
Qed.

Lemma free_keep : forall bad (P : ascii -> bool) i x,
  (forall c, P c = true -> scan (nst i) (repr_char SQ c) = nst i) ->
  (forall c, P c = true -> free_of bad (nst i) (repr_char SQ c) = true) ->
  allc P x = true -> free_of bad (nst i) (repr_body SQ x) = true.
Proof.
  intros bad P i x H H'. induction x as [|c x IH]; intro Hx; [reflexivity|].
  cbn [allc] in Hx. apply andb_true_iff in Hx. destruct Hx as [H1 H2].
  cbn [repr_body]. rewrite free_of_app, (H _ H1), (H' _ H1). exact (IH H2).
Qed.

(* every character of a segment but the double quote *)
Definition nqc (c : ascii) : bool := refc c || Ascii.eqb c "=".
Definition nbr (c : ascii) : bool := negb (Ascii.eqb c "{") && negb (Ascii.eqb c "}").
Definition nqb (c : ascii) : bool := nqc c && nbr c.

Lemma nobrace_allc : forall s, nobrace s = allc nbr s.
Proof. induction s as [|c s IH]; [reflexivity|]. cbn [nobrace allc]. rewrite IH. reflexivity. Qed.

Lemma nqc_scan : forall i c, nqc c = true -> scan (nst i) (repr_char SQ c) = nst i.
Proof. intros i c. destruct i; enum c. Qed.
Lemma nqc_semi : forall i c, nqc c = true -> free_of [";"]%char (nst i) (repr_char SQ c) = true.
Proof. intros i c. destruct i; enum c. Qed.
Lemma nqb_scan : forall i c, nqb c = true -> scan (nst i) (repr_char SQ c) = nst i.
Proof. intros i c. destruct i; enum c. Qed.
Lemma nqb_brace : forall i c, nqb c = true -> free_of ["{"; "}"]%char (nst i) (repr_char SQ c) = true.
Proof. intros i c. destruct i; enum c. Qed.
Lemma plain_scan : forall i c, plain_char c = true -> scan (nst i) (repr_char SQ c) = nst i.
Proof. intros i c. destruct i; enum c. Qed.
Lemma plain_quoted : forall bad c, plain_char c = true -> free_of bad (nst true) (repr_char SQ c) = true.
Proof.
  intros bad c H. assert (E : repr_char SQ c = String c "") by (revert H; enum c).
  rewrite E. cbn [free_of]. assert (E2 : q_in (qstep (nst true) c) = true) by (revert H; enum c).
  rewrite E2. reflexivity.
Qed.

Lemma nq_atomic : forall x, allc nqc x = true ->
  free_of [";"]%char qst0 (repr_body SQ x) = true /\ scan qst0 (repr_body SQ x) = qst0.
Proof.
  intros x H. split; [exact (free_keep _ nqc false x (nqc_scan false) (nqc_semi false) H) | exact (scan_keep nqc false x (nqc_scan false) H)].
Qed.

Lemma nqb_atomic : forall x, allc nqb x = true ->
  free_of ["{"; "}"]%char qst0 (repr_body SQ x) = true /\ scan qst0 (repr_body SQ x) = qst0.
Proof.
  intros x H. split; [exact (free_keep _ nqb false x (nqb_scan false) (nqb_brace false) H) | exact (scan_keep nqb false x (nqb_scan false) H)].
Qed.

(* a quoted plain text: the quotes are its delimiters *)
Lemma quoted_atomic : forall bad u, allc plain_char u = true -> existsb (Ascii.eqb DQ) bad = false ->
  free_of bad qst0 (repr_body SQ (dq ++ u ++ dq)) = true /\ scan qst0 (repr_body SQ (dq ++ u ++ dq)) = qst0.
Proof.
  intros bad u H Hb. unfold dq. rewrite !repr_body_app. change (repr_body SQ (String DQ "")) with (String DQ "").
  rewrite !free_of_app, !scan_app. change (scan qst0 (String DQ "")) with (nst true).
  rewrite (scan_keep plain_char true u (plain_scan true) H).
  rewrite (free_keep bad plain_char true u (plain_scan true) (plain_quoted bad) H).
  cbn [free_of scan]. change (qstep qst0 DQ) with (nst true). change (qstep (nst true) DQ) with qst0.
  cbn [q_in nst qst0 orb]. rewrite Hb. split; reflexivity.
Qed.

(* ---------------------------------------------------------------- L2: the segments *)

(* the text of a segment without its final ';' *)
Definition seg_body (s : seg) : string :=
  match s with
  | SField ws k v => ws ++ k ++ "=" ++ v
  | SRefs ws k o sep c ids => ws ++ k ++ "=" ++ o ++ refs_text sep ids ++ c
  | SChildren ws k o sep c n => ws ++ k ++ "=" ++ o ++ rep sep (n - 1) ++ c
  | SRaw body => body
  end.

Lemma seg_text_body : forall s, seg_text s = seg_body s ++ ";".
Proof. destruct s; cbn [seg_text seg_body]; rewrite ?sapp_assoc; reflexivity. Qed.

Lemma vstep_seg : forall s acc, seg_ok s = true -> vstep acc (repr_body SQ (seg_body s)) = seg_fields s acc.
Proof.
  intros s acc H. destruct s as [ws k v | ws k o sep c ids | ws k o sep c n | body]; cbn [seg_ok] in H; split_and; cbn [seg_body].
  - apply vstep_field; assumption.
  - apply vstep_refs; assumption.
  - cbn [seg_fields]. apply vstep_lay; try assumption. rewrite layok_allc in *.
    repeat (rewrite allc_app; apply andb_true_iff; split); try assumption. apply allc_rep. assumption.
  - reflexivity.
Qed.

Lemma refs_text_allc : forall (Q : ascii -> bool) sep ids, allc Q sep = true -> Q "<"%char = true -> Q ">"%char = true ->
  (forall i, In i ids -> allc Q i = true) -> allc Q (refs_text sep ids) = true.
Proof.
  intros Q sep ids Hs Hl Hg. induction ids as [|i r IH]; intro H; [reflexivity|].
  assert (Hi : allc Q i = true) by (apply H; left; reflexivity).
  assert (Hr : allc Q (refs_text sep r) = true) by (apply IH; intros j Hj; apply H; right; exact Hj).
  destruct r as [|j r].
  - change (refs_text sep [i]) with ("<" ++ i ++ ">"). rewrite !allc_app, Hi. cbn [allc]. rewrite Hl, Hg. reflexivity.
  - change (refs_text sep (i :: j :: r)) with ("<" ++ i ++ ">" ++ sep ++ refs_text sep (j :: r)).
    rewrite !allc_app, Hi, Hs, Hr. cbn [allc]. rewrite Hl, Hg. reflexivity.
Qed.

Lemma refs_text_cls : forall sep ids, allc layc sep = true -> forallb idok ids = true -> allc refc (refs_text sep ids) = true.
Proof.
  intros sep ids Hs Hi. apply refs_text_allc; [cls | reflexivity | reflexivity |].
  intros i Hin. rewrite forallb_forall in Hi. destruct (idok_parts _ (Hi i Hin)) as [H1 _]. cls.
Qed.

(* a value is a plain text or a quoted plain text *)
Lemma valok_shape : forall v, valok v = true ->
  (prefixb dq v = false /\ allc plain_char v = true) \/ (prefixb dq v = true /\ exists u, v = dq ++ u ++ dq /\ allc plain_char u = true).
Proof.
  intros v H. unfold valok in H. apply orb_true_iff in H. destruct H as [H|H]; unfold vtextok in H; split_and; rewrite plain_allc in *.
  - left. split; [apply negb_true_iff|]; assumption.
  - right. split; [assumption|]. exists (unq v). split; [|assumption].
    match goal with H : String.eqb v _ = true |- _ => apply String.eqb_eq in H; exact H end.
Qed.

(* the key part  ws k =  and what follows it *)
Lemma body_split : forall ws k rest, repr_body SQ (ws ++ k ++ "=" ++ rest) = repr_body SQ (ws ++ k ++ "=") ++ repr_body SQ rest.
Proof. intros. rewrite <- repr_body_app, !sapp_assoc. reflexivity. Qed.

Lemma semi_after : forall x, scan qst0 x = qst0 -> scan qst0 (x ++ ";") = qst0.
Proof. intros x H. rewrite scan_app, H. reflexivity. Qed.

Lemma raw_semi_after : forall x, q_in (scan qst0 x) = false -> scan qst0 (x ++ ";") = qst0.
Proof. intros x H. rewrite scan_app. destruct (scan qst0 x) as [i e]. cbn [q_in] in H. subst i. destruct e; reflexivity. Qed.

Lemma keyok_plain : forall k, keyok k = true -> allc plain_char k = true.
Proof. intros k H. unfold keyok in H. split_and. rewrite <- plain_allc. assumption. Qed.

(* a segment is one piece of the outside text: no ';' outside a quoted text, and after its final ';' the string state is the initial one *)
Lemma seg_atomic : forall s, seg_ok s = true ->
  free_of [";"]%char qst0 (repr_body SQ (seg_body s)) = true /\ scan qst0 (repr_body SQ (seg_body s) ++ ";") = qst0.
Proof.
  intros s H. destruct s as [ws k v | ws k o sep c ids | ws k o sep c n | body]; cbn [seg_ok] in H; cbn [seg_body].
  - split_and. rewrite wsok_allc in *. pose proof (keyok_plain k ltac:(assumption)) as Hk. destruct (valok_shape v) as [[_ Hv]|[_ [u [Ev Hu]]]]; try assumption.
    + assert (Hc : allc nqc (ws ++ k ++ "=" ++ v) = true) by cls.
      destruct (nq_atomic _ Hc) as [A1 A2]. split; [exact A1 | exact (semi_after _ A2)].
    + assert (Hc : allc nqc (ws ++ k ++ "=") = true) by cls.
      destruct (nq_atomic _ Hc) as [A1 A2]. destruct (quoted_atomic [";"]%char u Hu eq_refl) as [A3 A4].
      rewrite body_split, Ev, free_of_app, A1, A2, A3. split; [reflexivity|]. apply semi_after. rewrite scan_app, A2. exact A4.
  - split_and. rewrite layok_allc, wsok_allc in *. pose proof (keyok_plain k ltac:(assumption)) as Hk.
    pose proof (refs_text_cls sep ids) as Hx.
    assert (Hc : allc nqc (ws ++ k ++ "=" ++ o ++ refs_text sep ids ++ c) = true) by (specialize (Hx ltac:(assumption) ltac:(assumption)); cls).
    destruct (nq_atomic _ Hc) as [A1 A2]. split; [exact A1 | exact (semi_after _ A2)].
  - split_and. rewrite layok_allc, wsok_allc in *. pose proof (keyok_plain k ltac:(assumption)) as Hk.
    pose proof (allc_rep layc sep (n - 1)) as Hx.
    assert (Hc : allc nqc (ws ++ k ++ "=" ++ o ++ rep sep (n - 1) ++ c) = true) by (specialize (Hx ltac:(assumption)); cls).
    destruct (nq_atomic _ Hc) as [A1 A2]. split; [exact A1 | exact (semi_after _ A2)].
  - unfold raw_ok in H. split_and. split.
    + match goal with H : free_of _ _ _ = true |- _ => change [";"; "{"; "}"]%char with ([";"] ++ ["{"; "}"])%list%char in H; rewrite free_of_union in H end.
      split_and. assumption.
    + apply raw_semi_after. apply negb_true_iff. assumption.
Qed.

(* braces: a plain key, id or unquoted value may hold one (seg_ok does not exclude it), a quoted value may hold any *)
Definition seg_nb (s : seg) : bool :=
  match s with
  | SField _ k v => nobrace k && (prefixb dq v || nobrace v)
  | SRefs _ k _ _ _ ids => nobrace k && forallb nobrace ids
  | SChildren _ k _ _ _ _ => nobrace k
  | SRaw _ => true
  end.

Lemma seg_nobrace : forall s, seg_ok s = true -> seg_nb s = true ->
  free_of ["{"; "}"]%char qst0 (repr_body SQ (seg_body s)) = true.
Proof.
  intros s H Hn. destruct s as [ws k v | ws k o sep c ids | ws k o sep c n | body]; cbn [seg_ok] in H; cbn [seg_nb] in Hn; cbn [seg_body].
  - split_and. rewrite wsok_allc, nobrace_allc in *. pose proof (keyok_plain k ltac:(assumption)) as Hk.
    pose proof (allc_and plain_char nbr k ltac:(assumption) ltac:(assumption)) as Hkb.
    destruct (valok_shape v) as [[Ep Hv]|[_ [u [Ev Hu]]]]; try assumption.
    + match goal with H : prefixb dq v || _ = true |- _ => rewrite Ep in H; cbn [orb] in H; rewrite ?nobrace_allc in H; rename H into Hvn end.
      pose proof (allc_and plain_char nbr v Hv Hvn) as Hvb.
      assert (Hc : allc nqb (ws ++ k ++ "=" ++ v) = true) by cls.
      exact (proj1 (nqb_atomic _ Hc)).
    + assert (Hc : allc nqb (ws ++ k ++ "=") = true) by cls.
      destruct (nqb_atomic _ Hc) as [A1 A2]. destruct (quoted_atomic ["{"; "}"]%char u Hu eq_refl) as [A3 _].
      rewrite body_split, Ev, free_of_app, A1, A2, A3. reflexivity.
  - split_and. rewrite layok_allc, wsok_allc, nobrace_allc in *. pose proof (keyok_plain k ltac:(assumption)) as Hk.
    pose proof (allc_and plain_char nbr k ltac:(assumption) ltac:(assumption)) as Hkb.
    assert (Hx : allc nqb (refs_text sep ids) = true).
    { apply refs_text_allc; [cls | reflexivity | reflexivity |]. intros i Hin.
      match goal with H : forallb idok ids = true |- _ => rewrite forallb_forall in H; destruct (idok_parts _ (H i Hin)) as [Hi _] end.
      match goal with H : forallb nobrace ids = true |- _ => rewrite forallb_forall in H; pose proof (H i Hin) as Hb end.
      rewrite ?nobrace_allc in Hb. pose proof (allc_and plain_char nbr i Hi Hb) as Hib. cls. }
    assert (Hc : allc nqb (ws ++ k ++ "=" ++ o ++ refs_text sep ids ++ c) = true) by cls.
    exact (proj1 (nqb_atomic _ Hc)).
  - split_and. rewrite layok_allc, wsok_allc, nobrace_allc in *. pose proof (keyok_plain k ltac:(assumption)) as Hk.
    pose proof (allc_and plain_char nbr k ltac:(assumption) ltac:(assumption)) as Hkb.
    assert (Hx : allc nqb (rep sep (n - 1)) = true) by (apply allc_rep; cls).
    assert (Hc : allc nqb (ws ++ k ++ "=" ++ o ++ rep sep (n - 1) ++ c) = true) by cls.
    exact (proj1 (nqb_atomic _ Hc)).
  - unfold raw_ok in H. split_and.
    match goal with H : free_of _ _ _ = true |- _ => change [";"; "{"; "}"]%char with ([";"] ++ ["{"; "}"])%list%char in H; rewrite free_of_union in H end.
    split_and. assumption.
Qed.

(* both: the form with the three forbidden characters *)
Lemma seg_atomic_nb : forall s, seg_ok s = true -> seg_nb s = true ->
  free_of [";"; "{"; "}"]%char qst0 (repr_body SQ (seg_body s)) = true /\ scan qst0 (repr_body SQ (seg_body s) ++ ";") = qst0.
Proof.
  intros s H Hn. destruct (seg_atomic s H) as [A1 A2]. split; [|exact A2].
  change [";"; "{"; "}"]%char with ([";"] ++ ["{"; "}"])%list%char. rewrite free_of_union, A1, (seg_nobrace s H Hn). reflexivity.
Qed.

Lemma repr_segs : forall segs tail,
  repr_body SQ (segs_text segs ++ tail) = cat (map (fun s => repr_body SQ (seg_body s) ++ ";") segs) ++ repr_body SQ tail.
Proof.
  intros segs tail. unfold segs_text. rewrite concat_empty_cat, repr_body_app, repr_body_cat, map_map.
  f_equal. f_equal. apply map_ext. intro s. rewrite seg_text_body, repr_body_app. reflexivity.
Qed.

Lemma fold_segs : forall segs tailr acc, forallb seg_ok segs = true -> contains "=" tailr = false ->
  fold_left vstep (map (fun s => repr_body SQ (seg_body s)) segs ++ [tailr])%list acc = fold_left (fun acc s => seg_fields s acc) segs acc.
Proof.
  induction segs as [|s segs IH]; intros tailr acc H Ht.
  - cbn [map app fold_left]. unfold vstep. rewrite Ht. reflexivity.
  - cbn [forallb] in H. apply andb_true_iff in H. destruct H as [H1 H2].
    cbn [map app fold_left]. rewrite (vstep_seg s acc H1). exact (IH tailr _ H2 Ht).
Qed.

(* the pieces SplitOutsideQuotes makes of the str(bytes) text of segments and a trailing line break / indentation *)
Lemma qsplit_segs : forall segs tail, forallb seg_ok segs = true -> wsok tail = true ->
  qsplit ";" (repr_body SQ (segs_text segs ++ tail)) = (map (fun s => repr_body SQ (seg_body s)) segs ++ [repr_body SQ tail])%list.
Proof.
  intros segs tail Hs Ht. rewrite wsok_allc in Ht. rewrite repr_segs.
  apply (qsplit_cat seg (fun s => repr_body SQ (seg_body s))).
  - intros s Hin. apply seg_atomic. rewrite forallb_forall in Hs. exact (Hs s Hin).
  - assert (Hc : allc nqc tail = true) by cls. exact (proj1 (nq_atomic _ Hc)).
Qed.

Lemma values_segments : forall (segs : list seg) (tail : string),
  forallb seg_ok segs = true -> wsok tail = true ->
  values_from_outside (repr_body SQ (segs_text segs ++ tail)) = Some (segs_fields segs).
Proof.
  intros segs tail Hs Ht. rewrite vfo_else.
  - rewrite (qsplit_segs segs tail Hs Ht). rewrite wsok_allc in Ht.
    assert (T3 : contains "=" (repr_body SQ tail) = false).
    { rewrite contains1. apply negb_false_iff. ncr. }
    unfold segs_fields. f_equal. apply fold_segs; assumption.
  - rewrite wsok_allc in Ht. rewrite repr_segs.
    assert (T2 : no_char ":" (repr_body SQ tail) = true) by ncr.
    destruct segs as [|s segs].
    + cbn [map cat append]. rewrite T2. apply andb_false_r.
    + cbn [map cat]. rewrite !no_char_app. change (no_char ";" ";") with false. rewrite andb_false_r. reflexivity.
Qed.
Print Assumptions values_segments.
Print Assumptions seg_atomic.
Print Assumptions seg_nobrace.
Print Assumptions qsplit_atomic.

(* ---------------------------------------------------------------- headers:  id:"name":Type  cut at the colons outside the quoted name *)

(* the characters of a header: those of a name (printable without the two quotes, the backslash and ';') and the double quote *)
Definition hdc (c : ascii) : bool := name_char c || Ascii.eqb c DQ.
Definition pqsc (c : ascii) : bool := plain_char c || Ascii.eqb c DQ || Ascii.eqb c SQ.

Lemma name_chars_allc : forall s, name_chars s = allc name_char s.
Proof. induction s as [|c s IH]; [reflexivity|]. cbn [name_chars allc]. rewrite IH. reflexivity. Qed.

Lemma repr_hd : forall x, allc hdc x = true -> repr_body SQ x = x.
Proof. intros x H. rewrite repr_flat. apply (flat_id hdc); [intro c; enum c | exact H]. Qed.

Lemma repr_name : forall s, name_chars s = true -> repr_body SQ s = s.
Proof. intros s H. rewrite name_chars_allc in H. apply repr_hd. cls. Qed.

Lemma mass_pqs : forall x, allc pqsc x = true -> mass_replace x = keepm x.
Proof.
  intros x H. transitivity (mass_replace (flat (fun c => String c "") x)).
  - rewrite (flat_id pqsc _ x); [reflexivity | reflexivity | exact H].
  - unfold mass_replace. rewrite keepm_flat, (clean_flat mass_pats pqsc).
    + apply (flat_ext pqsc); [intro c; enum c | exact H].
    + intro c; enum c.
    + exact H.
Qed.

Lemma keepm_psq : forall x, allc psq x = true -> keepm x = x.
Proof. intros x H. rewrite keepm_flat. apply (flat_id psq); [intro c; enum c | exact H]. Qed.

(* deleting characters other than the separator commutes with str.split *)
Lemma keepm_split : forall c x, dropped c = false -> map keepm (split_on c x) = split_on c (keepm x).
Proof.
  intros c x Hc. induction x as [|y r IH]; [reflexivity|].
  cbn [split_on keepm]. pose proof (split_on_nonempty c r) as Hn. destruct (dropped y) eqn:D.
  - assert (E : Ascii.eqb y c = false) by (destruct (Ascii.eqb_spec y c); [subst y; congruence | reflexivity]).
    rewrite E, <- IH. destruct (split_on c r) as [|h t]; [congruence|]. cbn [map keepm]. rewrite D. reflexivity.
  - cbn [split_on]. rewrite <- IH. destruct (split_on c r) as [|h t]; [congruence|]. cbn [map].
    destruct (Ascii.eqb y c); cbn [map keepm]; [reflexivity | rewrite D; reflexivity].
Qed.

Lemma split_on_allc : forall (P : ascii -> bool) c x, allc P x = true -> forallb (allc P) (split_on c x) = true.
Proof.
  intros P c x. induction x as [|y r IH]; intro H; [reflexivity|].
  cbn [allc] in H. apply andb_true_iff in H. destruct H as [H1 H2]. specialize (IH H2).
  cbn [split_on]. destruct (split_on c r) as [|h t]; [reflexivity|].
  cbn [forallb] in IH. apply andb_true_iff in IH. destruct IH as [I1 I2].
  destruct (Ascii.eqb y c); cbn [forallb allc]; rewrite ?H1, I1, I2; reflexivity.
Qed.

Lemma keepm_qname : forall nm, match nm with Some s => allc plain_char s = true | None => True end -> keepm (qname nm) = name_text nm.
Proof.
  intros nm H. destruct nm as [s|]; [|reflexivity]. unfold qname, name_text, dq.
  rewrite !keepm_app, (keepm_plain _ H). change (keepm (String DQ "")) with "". cbn [append]. apply sapp_nil_r.
Qed.

Lemma name_clean : forall nm,
  match nm with Some s => allc plain_char s = true /\ no_char ":" s = true /\ py_strip s = s | None => True end ->
  py_strip (mass_replace (qname nm)) = name_text nm.
Proof.
  intros nm H. destruct nm as [s|]; [|vm_compute; reflexivity]. destruct H as [Hs [_ Hp]].
  unfold qname, name_text, dq. rewrite mass_pq by cls. rewrite !keepm_app, (keepm_plain _ Hs).
  change (keepm (String DQ "")) with "". cbn [append]. rewrite sapp_nil_r. exact Hp.
Qed.

(* --- the string state over raw texts *)

Lemma free_of_nochar : forall bad s st, allc (fun c => negb (existsb (Ascii.eqb c) bad)) s = true -> free_of bad st s = true.
Proof.
  intros bad. induction s as [|c s IH]; intros st H; [reflexivity|].
  cbn [allc] in H. apply andb_true_iff in H. destruct H as [H1 H2].
  cbn [free_of]. rewrite H1, orb_true_r, (IH _ H2). reflexivity.
Qed.

Lemma free_of_no_char : forall ch s st, no_char ch s = true -> free_of [ch] st s = true.
Proof.
  intros ch s st H. rewrite no_char_allc in H. apply free_of_nochar. revert H. apply allc_imp.
  intros c Hc. cbn [existsb]. rewrite orb_false_r. exact Hc.
Qed.

Lemma scan_raw_keep : forall (P : ascii -> bool) i x,
  (forall c, P c = true -> qstep (nst i) c = nst i) -> allc P x = true -> scan (nst i) x = nst i.
Proof.
  intros P i x H. induction x as [|c x IH]; intro Hx; [reflexivity|].
  cbn [allc] in Hx. apply andb_true_iff in Hx. destruct Hx as [H1 H2]. cbn [scan]. rewrite (H _ H1). exact (IH H2).
Qed.

(* inside a quoted text nothing is forbidden *)
Lemma free_raw_quoted : forall bad (P : ascii -> bool) x,
  (forall c, P c = true -> qstep (nst true) c = nst true) -> allc P x = true -> free_of bad (nst true) x = true.
Proof.
  intros bad P x H. induction x as [|c x IH]; intro Hx; [reflexivity|].
  cbn [allc] in Hx. apply andb_true_iff in Hx. destruct Hx as [H1 H2]. cbn [free_of]. rewrite (H _ H1). exact (IH H2).
Qed.

Lemma name_step : forall c, name_char c = true -> qstep (nst true) c = nst true.
Proof. intro c. enum c. Qed.
Lemma psq_step : forall c, psq c = true -> qstep (nst false) c = nst false.
Proof. intro c. enum c. Qed.

(* a quoted name: the quotes are its delimiters, whatever it holds *)
Lemma quoted_raw : forall bad u, name_chars u = true -> existsb (Ascii.eqb DQ) bad = false ->
  free_of bad qst0 (dq ++ u ++ dq) = true /\ scan qst0 (dq ++ u ++ dq) = qst0.
Proof.
  intros bad u H Hb. rewrite name_chars_allc in H. unfold dq.
  rewrite !free_of_app, !scan_app. change (scan qst0 (String DQ "")) with (nst true).
  rewrite (scan_raw_keep name_char true u name_step H), (free_raw_quoted bad name_char u name_step H).
  cbn [free_of scan]. change (qstep qst0 DQ) with (nst true). change (qstep (nst true) DQ) with qst0.
  cbn [q_in nst qst0 orb]. rewrite Hb. split; reflexivity.
Qed.

Lemma quoted_atomic_name : forall bad u, name_chars u = true -> existsb (Ascii.eqb DQ) bad = false ->
  free_of bad qst0 (repr_body SQ (dq ++ u ++ dq)) = true /\ scan qst0 (repr_body SQ (dq ++ u ++ dq)) = qst0.
Proof.
  intros bad u H Hb. rewrite repr_hd; [exact (quoted_raw bad u H Hb)|].
  rewrite name_chars_allc in H. unfold dq. cls.
Qed.

(* a text of plain characters and apostrophes: no quoted text begins *)
Lemma psq_scan : forall x, allc psq x = true -> scan qst0 x = qst0.
Proof. intros x H. exact (scan_raw_keep psq false x psq_step H). Qed.

Lemma qsplit_sep_atomic : forall sep a b, free_of [sep] qst0 a = true -> scan qst0 (a ++ String sep "") = qst0 ->
  qsplit sep (a ++ String sep b) = a :: qsplit sep b.
Proof.
  intros sep a b H Hs. unfold qsplit. rewrite qsplit_st_atomic; [rewrite Hs; reflexivity | exact H | rewrite Hs; reflexivity].
Qed.

(* --- UnquoteName *)

Lemma substring_prefix : forall v w, substring 0 (String.length v) (v ++ w) = v.
Proof.
  induction v as [|c v IH]; intro w; cbn [String.length append substring].
  - destruct w; reflexivity.
  - rewrite IH. reflexivity.
Qed.

Lemma substring_skip : forall a b n, substring (String.length a) n (a ++ b) = substring 0 n b.
Proof. induction a as [|c a IH]; intros b n; [reflexivity|]. cbn [String.length append substring]. apply IH. Qed.

Lemma strip_quoted : forall s, py_strip (String DQ (s ++ dq)) = String DQ (s ++ dq).
Proof.
  intro s. unfold py_strip. change (String DQ (s ++ dq)) with ((String DQ s) ++ dq) at 1.
  rewrite rstrip_app_ne by (vm_compute; discriminate). change (rstrip dq) with dq. reflexivity.
Qed.

Lemma unquote_q : forall s, py_strip s = s -> unquote_name (dq ++ s ++ dq) = s.
Proof.
  intros s Hs. unfold unquote_name. change (dq ++ s ++ dq) with (String DQ (s ++ dq)). rewrite strip_quoted.
  cbn [String.length]. rewrite slen_app. change (String.length dq) with 1.
  replace (S (String.length s + 1) - 1) with (S (String.length s)) by lia.
  replace (S (String.length s + 1) - 2) with (String.length s) by lia.
  cbn [substring prefixb]. rewrite Ascii.eqb_refl, substring_skip, substring_prefix, Hs.
  replace (Nat.leb 2 (S (String.length s + 1))) with true by (symmetry; apply Nat.leb_le; lia).
  reflexivity.
Qed.

(* --- the header branch *)

Lemma vfo_colon : forall a b c,
  no_char ";" a = true -> no_char ";" b = true -> no_char ";" c = true ->
  free_of [":"]%char qst0 a = true -> scan qst0 (a ++ ":") = qst0 ->
  free_of [":"]%char qst0 b = true -> scan qst0 (b ++ ":") = qst0 ->
  free_of [":"]%char qst0 c = true ->
  values_from_outside (a ++ ":" ++ b ++ ":" ++ c) =
  Some [("id", PStr (py_strip (mass_replace a))); ("name", PStr (unquote_name b)); ("type", PStr (py_strip (mass_replace c)))].
Proof.
  intros a b c Ha Hb Hc Fa Sa Fb Sb Fc. unfold values_from_outside.
  assert (E1 : no_char ";" (a ++ ":" ++ b ++ ":" ++ c) = true) by nc.
  assert (E2 : no_char ":" (a ++ ":" ++ b ++ ":" ++ c) = false) by (cbn [append]; apply nc_mid).
  rewrite E1, E2. cbn [andb negb].
  assert (E3 : qsplit ":" (a ++ ":" ++ b ++ ":" ++ c) = [a; b; c]).
  { cbn [append]. rewrite (qsplit_sep_atomic ":" a _ Fa Sa), (qsplit_sep_atomic ":" b _ Fb Sb), (qsplit_none ":" c Fc). reflexivity. }
  rewrite E3. reflexivity.
Qed.

Lemma headok_parts : forall id nm ty, headok id nm ty = true ->
  (allc plain_char id = true /\ no_char ":" id = true /\ py_strip id = id /\ id <> "") /\
  (match nm with Some s => name_chars s = true /\ py_strip s = s | None => True end) /\
  (allc plain_char ty = true /\ no_char ":" ty = true /\ py_strip ty = ty /\ ty <> "").
Proof.
  intros id nm ty H. unfold headok, textok in H. split_and.
  repeat match goal with H : String.eqb _ _ = true |- _ => apply String.eqb_eq in H end.
  repeat match goal with H : negb (String.eqb _ _) = true |- _ => apply negb_true_iff in H; apply String.eqb_neq in H end.
  repeat match goal with H : plain _ = true |- _ => rewrite plain_allc in H end.
  split; [|split].
  - repeat split; assumption.
  - destruct nm as [s|]; [|exact Logic.I]. unfold nameok in *. split_and.
    repeat match goal with H : String.eqb _ _ = true |- _ => apply String.eqb_eq in H end.
    split; assumption.
  - repeat split; assumption.
Qed.

Lemma headok_headok_top : forall id nm ty, headok id nm ty = true -> headok_top id nm ty = true.
Proof. intros id nm ty H. exact H. Qed.

Lemma headok_top_parts : forall id nm ty, headok_top id nm ty = true ->
  (allc plain_char id = true /\ no_char ":" id = true /\ py_strip id = id /\ id <> "") /\
  (match nm with Some s => name_chars s = true /\ py_strip s = s | None => True end) /\
  (allc plain_char ty = true /\ no_char ":" ty = true /\ py_strip ty = ty /\ ty <> "").
Proof. intros id nm ty H. exact (headok_parts id nm ty H). Qed.

Lemma head_hd : forall id nm ty, headok id nm ty = true -> allc hdc (head_text id nm ty) = true.
Proof.
  intros id nm ty H. destruct (headok_parts _ _ _ H) as [[Hi _] [Hn [Ht _]]].
  unfold head_text, qname, dq. destruct nm as [s|]; [destruct Hn as [Hs _]; rewrite name_chars_allc in Hs|]; cls.
Qed.

(* the name field: "name" or NULL *)
Lemma qname_field : forall nm, match nm with Some s => name_chars s = true /\ py_strip s = s | None => True end ->
  no_char ";" (qname nm) = true /\ free_of [":"]%char qst0 (qname nm) = true /\ scan qst0 (qname nm ++ ":") = qst0 /\
  unquote_name (qname nm) = name_text nm.
Proof.
  intros nm H. destruct nm as [s|]; [|vm_compute; repeat split; reflexivity]. destruct H as [Hs Hp].
  destruct (quoted_raw [":"]%char s Hs eq_refl) as [A1 A2]. unfold qname, name_text.
  split; [|split; [exact A1|split]].
  - rewrite name_chars_allc in Hs. unfold dq. nc.
  - rewrite scan_app, A2. reflexivity.
  - apply unquote_q. exact Hp.
Qed.

Lemma values_header : forall id nm ty, headok id nm ty = true ->
  values_from_outside (repr_body SQ (head_text id nm ty)) = Some [("id", PStr id); ("name", PStr (name_text nm)); ("type", PStr ty)].
Proof.
  intros id nm ty H. rewrite (repr_hd _ (head_hd _ _ _ H)).
  destruct (headok_parts _ _ _ H) as [[Hi [Hi1 [Hi2 Hi3]]] [Hn [Ht [Ht1 [Ht2 Ht3]]]]].
  destruct (qname_field nm Hn) as [Q1 [Q2 [Q3 Q4]]].
  unfold head_text. rewrite vfo_colon.
  - rewrite Q4. rewrite (mass_psq id) by cls. rewrite Hi2.
    rewrite (mass_psq (ty ++ " ")) by cls. unfold py_strip at 1. rewrite rstrip_blank by reflexivity.
    fold (py_strip ty). rewrite Ht2. reflexivity.
  - nc.
  - exact Q1.
  - nc.
  - apply free_of_no_char. exact Hi1.
  - rewrite scan_app, psq_scan by cls. reflexivity.
  - exact Q2.
  - exact Q3.
  - apply free_of_no_char. nc.
Qed.
Print Assumptions values_header.

Lemma values_header_top : forall id nm ty, headok id nm ty = true ->
  values_from_outside (String "b" (String SQ (repr_body SQ (head_text id nm ty) ++ String SQ ""))) =
  Some [("id", PStr (String "b" (String SQ id))); ("name", PStr (name_text nm)); ("type", PStr (ty ++ " '"))].
Proof.
  intros id nm ty H. rewrite (repr_hd _ (head_hd _ _ _ H)).
  destruct (headok_parts _ _ _ H) as [[Hi [Hi1 [Hi2 Hi3]]] [Hn [Ht [Ht1 [Ht2 Ht3]]]]].
  destruct (qname_field nm Hn) as [Q1 [Q2 [Q3 Q4]]].
  unfold head_text.
  replace (String "b" (String SQ ((id ++ ":" ++ qname nm ++ ":" ++ ty ++ " ") ++ String SQ "")))
    with ((String "b" (String SQ "") ++ id) ++ ":" ++ qname nm ++ ":" ++ (ty ++ String " " (String SQ "")))
    by (repeat first [rewrite !sapp_assoc | progress cbn [append]]; reflexivity).
  set (A := String "b" (String SQ "") ++ id). set (T := ty ++ String " " (String SQ "")).
  assert (HA : allc psq A = true) by (unfold A; cls).
  assert (HT : allc psq T = true) by (unfold T; cls).
  assert (Hq : rstrip (String " " (String SQ "")) = String " " (String SQ "")) by (vm_compute; reflexivity).
  destruct (strip_fix _ Hi2) as [Hir Hil]. destruct (strip_fix _ Ht2) as [Htr Htl].
  rewrite vfo_colon.
  - rewrite Q4, (mass_psq A HA), (mass_psq T HT).
    assert (E1 : py_strip A = String "b" (String SQ id)).
    { unfold A. cbn [append]. unfold py_strip. rewrite !rstrip_cons_ns, Hir by reflexivity. reflexivity. }
    assert (E2 : py_strip T = ty ++ " '").
    { unfold T, py_strip. rewrite rstrip_app_ne, Hq by (rewrite Hq; discriminate). apply lstrip_app; assumption. }
    rewrite E1, E2. reflexivity.
  - unfold A. nc.
  - exact Q1.
  - unfold T. nc.
  - apply free_of_no_char. unfold A. nc.
  - rewrite scan_app, (psq_scan A HA). reflexivity.
  - exact Q2.
  - exact Q3.
  - apply free_of_no_char. unfold T. nc.
Qed.
Print Assumptions values_header_top.

(* (the statements written before the repair of K-C19-7: now the same facts) *)
Lemma top_head_plain : forall id nm ty, headok id nm ty = true ->
  top_head id nm ty = [("id", PStr (String "b" (String SQ id))); ("name", PStr (name_text nm)); ("type", PStr (ty ++ " '"))].
Proof. reflexivity. Qed.

Lemma values_header_top_c : forall id nm ty, headok_top id nm ty = true ->
  values_from_outside (String "b" (String SQ (repr_body SQ (head_text id nm ty) ++ String SQ ""))) = Some (top_head id nm ty).
Proof. intros id nm ty H. exact (values_header_top id nm ty H). Qed.
Print Assumptions values_header_top_c.
