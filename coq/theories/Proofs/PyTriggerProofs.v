(* Trigger<Event> in non-threaded mode calls process(event) synchronously exactly once (computed from the IR of the
   template as it is now), so driving the machine through Trigger is run_py. *)
From Coq Require Import String List Bool Arith.
From KV Require Import Lib.TableDef Model.TTable Spec.TableInterp Model.PySyncIR Gen.PySync Model.PyShape Gen.PyTmpl Model.PySM
                       Model.PyTrigger Proofs.PySMGen Proofs.PySMSem.
Import ListNotations.
Open Scope string_scope.

Lemma trigger_once : trigger_calls_unthreaded = Some 1.
Proof. vm_compute. reflexivity. Qed.

Lemma run_triggers_once : forall gv prog evs cur n, run_triggers gv prog 1 cur n evs = run_events gv prog cur n evs.
Proof.
  induction evs as [|e evs IH]; intros cur n; [reflexivity|]. cbn [run_triggers run_events run_process_n].
  destruct (run_method gv e prog "process" cur n) as [[[o t] c] n']. destruct o; try reflexivity.
  rewrite app_nil_r, IH. reflexivity.
Qed.

Lemma run_triggered_run_py : forall prog evs gv, run_triggered prog evs gv = run_py prog evs gv.
Proof.
  intros. unfold run_triggered, run_py. rewrite trigger_once.
  destruct (run_method gv "" prog "__init__" "" 0) as [[[o t] c] n]. destruct o; try reflexivity.
  rewrite run_triggers_once. reflexivity.
Qed.

Theorem py_sem_triggered : forall t, wf_table t = true -> forall evs gv,
  exists prog, parse_indent (gen_py t) = Some prog /\ run_triggered prog evs gv = Some (table_interp t evs gv).
Proof.
  intros t H evs gv. destruct (py_sem t H evs gv) as (p & A & B). exists p. split; [exact A|].
  rewrite run_triggered_run_py. exact B.
Qed.
