(* C19 adaptor: every element the semantic class-diagram writer (Model/UmlSem.v) draws lies in the domain of the
   text-level theorem (Proofs/UmlBlobText.v, parse_top_q): well formed (wf_top at the top: the name of an association may
   hold colons; wf_node below) and free of braces outside quoted texts (nbq_node).  The third part of the domain, quote_ok
   of the printed row, is a conjunct of sdiagram_ok itself (inert free text may hold apostrophes). *)
From Coq Require Import String Ascii List Bool Arith Lia.
From KV Require Import Lib.Str Lib.ODict Model.Vpp Model.VppWriter Model.Uml Model.UmlBlob Model.UmlWriter Model.UmlSem
                       Proofs.VppStr Proofs.UmlBlobDefs Proofs.UmlBlobStruct Proofs.UmlBlobFields Proofs.UmlBlobText Proofs.UmlBlobRound.
Import ListNotations.  Open Scope string_scope.

(* ---------------------------------------------------------------- lists *)

Lemma forallb_imp : forall (A : Type) (P Q : A -> bool) l,
  (forall x, P x = true -> Q x = true) -> forallb P l = true -> forallb Q l = true.
Proof.
  intros A P Q l H. induction l as [|x l IH]; intro Hl; [reflexivity|].
  cbn [forallb] in *. apply andb_true_iff in Hl. destruct Hl as [H1 H2]. rewrite (H _ H1), (IH H2). reflexivity.
Qed.

Lemma forallb_map_imp : forall (A B : Type) (P : A -> bool) (Q : B -> bool) (g : A -> B) l,
  (forall x, P x = true -> Q (g x) = true) -> forallb P l = true -> forallb Q (map g l) = true.
Proof.
  intros A B P Q g l H. induction l as [|x l IH]; intro Hl; [reflexivity|].
  cbn [forallb map] in *. apply andb_true_iff in Hl. destruct Hl as [H1 H2]. rewrite (H _ H1), (IH H2). reflexivity.
Qed.

(* ---------------------------------------------------------------- texts, identifiers *)

Lemma nobrace_nc : forall s, no_char "{" s = true -> no_char "}" s = true -> nobrace s = true.
Proof.
  induction s as [|c s IH]; intros H1 H2; [reflexivity|].
  cbn [no_char nobrace] in *. split_and. rewrite IH by assumption.
  repeat match goal with H : _ = true |- _ => rewrite H end. reflexivity.
Qed.

Lemma txt_parts : forall s, txt s = true -> plain s = true /\ textok s = true /\ nobrace s = true.
Proof.
  intros s H. unfold txt in H. split_and. split; [assumption|]. split; [|apply nobrace_nc; assumption].
  unfold textok. repeat (apply andb_true_iff; split); assumption.
Qed.

Lemma txt_textok : forall s, txt s = true -> textok s = true.
Proof. intros s H. exact (proj1 (proj2 (txt_parts s H))). Qed.
Lemma txt_nobrace : forall s, txt s = true -> nobrace s = true.
Proof. intros s H. exact (proj2 (proj2 (txt_parts s H))). Qed.
Lemma txt_vtextok : forall s, txt s = true -> vtextok s = true.
Proof. intros s H. unfold txt in H. split_and. unfold vtextok. apply andb_true_iff. split; assumption. Qed.

(* a value text (it may hold ','): plain, stripped, brace free *)
Lemma vtxt_parts : forall s, vtxt s = true -> vtextok s = true /\ nobrace s = true.
Proof.
  intros s H. unfold vtxt in H. split_and. split; [|apply nobrace_nc; assumption].
  unfold vtextok. apply andb_true_iff. split; assumption.
Qed.

Lemma ident_parts : forall s, ident s = true ->
  txt s = true /\ no_char ":" s = true /\ idok s = true /\ nobrace s = true.
Proof.
  intros s H. unfold ident in H. split_and.
  destruct (txt_parts s ltac:(assumption)) as [Hp [Ht Hn]].
  repeat split; try assumption.
  unfold idok. rewrite Ht. cbn [andb]. assumption.
Qed.

(* ---------------------------------------------------------------- values *)

Lemma substring_app_len : forall a b, substring 0 (String.length a) (a ++ b) = a.
Proof.
  induction a as [|c a IH]; intro b; [destruct b; reflexivity|].
  cbn [String.length append substring]. rewrite IH. reflexivity.
Qed.

Lemma unq_q : forall v, unq (q v) = v.
Proof.
  intro v. unfold q, dq. cbn [append unq]. rewrite Ascii.eqb_refl, slen_app. cbn [String.length].
  replace (String.length v + 1 - 1) with (String.length v) by lia. apply substring_app_len.
Qed.

Lemma valok_qt : forall v, vtextok v = true -> valok (q v) = true.
Proof.
  intros v H. unfold valok. rewrite unq_q, H.
  assert (E : prefixb dq (q v) = true) by (unfold q, dq; cbn [append prefixb]; rewrite Ascii.eqb_refl; reflexivity).
  rewrite E. unfold q. rewrite String.eqb_refl. apply orb_true_r.
Qed.

Lemma nobrace_qt : forall v, nobrace v = true -> nobrace (q v) = true.
Proof. intros v H. unfold q, dq. rewrite !nobrace_app, H. reflexivity. Qed.

Lemma valok_q : forall v, txt v = true -> valok (q v) = true.
Proof. intros v H. apply valok_qt, txt_vtextok, H. Qed.
Lemma nobrace_q : forall v, txt v = true -> nobrace (q v) = true.
Proof. intros v H. apply nobrace_qt, txt_nobrace, H. Qed.
Lemma valok_qv : forall v, vtxt v = true -> valok (q v) = true.
Proof. intros v H. apply valok_qt. exact (proj1 (vtxt_parts v H)). Qed.
Lemma nobrace_qv : forall v, vtxt v = true -> nobrace (q v) = true.
Proof. intros v H. apply nobrace_qt. exact (proj2 (vtxt_parts v H)). Qed.

Lemma code_good : forall c, code_ok (Some c) = true -> valok c = true /\ nobrace c = true.
Proof.
  intros c H. cbn [code_ok] in H. split_and. split; [|apply txt_nobrace; assumption].
  unfold valok. rewrite (txt_vtextok c) by assumption.
  match goal with H : negb (prefixb dq c) = true |- _ => rewrite H end. reflexivity.
Qed.

Lemma noise_val_good : forall v, noise_val v = true -> valok v = true /\ nobrace v = true.
Proof.
  intros v H. unfold noise_val in H. apply orb_true_iff in H. destruct H as [H|H].
  - split_and. split; [|apply txt_nobrace; assumption].
    unfold valok. rewrite (txt_vtextok v) by assumption.
    match goal with H : negb (prefixb dq v) = true |- _ => rewrite H end. reflexivity.
  - remember (substring 1 (String.length v - 2) v) as u eqn:Eu. clear Eu. split_and.
    match goal with H : String.eqb v (q u) = true |- _ => apply String.eqb_eq in H; subst v end.
    split; [apply valok_q | apply nobrace_q]; assumption.
Qed.

Lemma noise_key_good : forall k, noise_key k = true -> keyok k = true /\ nobrace k = true.
Proof.
  intros k H. unfold noise_key in H. split_and. split; [|apply nobrace_nc; assumption].
  unfold keyok. repeat (apply andb_true_iff; split); assumption.
Qed.

(* ---------------------------------------------------------------- reference paths  id:...:id *)

Definition gid (s : string) : Prop := idok s = true /\ nobrace s = true.

Lemma ident_gid : forall s, ident s = true -> gid s.
Proof. intros s H. destruct (ident_parts s H) as [_ [_ [H1 H2]]]. split; assumption. Qed.

Lemma strip_mid : forall a m b, py_strip a = a -> a <> "" -> py_strip b = b -> b <> "" -> py_strip (a ++ m ++ b) = a ++ m ++ b.
Proof.
  intros a m b Ha Hna Hb Hnb. destruct (strip_fix _ Ha) as [Har Hal]. destruct (strip_fix _ Hb) as [Hbr Hbl].
  unfold py_strip.
  assert (E : rstrip (m ++ b) = m ++ b) by (rewrite rstrip_app_ne; rewrite Hbr; [reflexivity | assumption]).
  rewrite rstrip_app_ne by (rewrite E; destruct m; [exact Hnb | cbn [append]; discriminate]).
  rewrite E. apply lstrip_app; assumption.
Qed.

Lemma gid_join2 : forall a b, gid a -> gid b -> gid (a ++ ":" ++ b).
Proof.
  intros a b [Ha Hna] [Hb Hnb].
  destruct (idok_parts _ Ha) as [A1 [A2 [A3 A4]]]. destruct (idok_parts _ Hb) as [B1 [B2 [B3 B4]]].
  split.
  - assert (E1 : allc plain_char (a ++ ":" ++ b) = true) by cls.
    assert (E2 : no_char "," (a ++ ":" ++ b) = true) by nc.
    assert (E3 : py_strip (a ++ ":" ++ b) = a ++ ":" ++ b) by (apply strip_mid; assumption).
    assert (E4 : a ++ ":" ++ b <> "") by (destruct a; [congruence | cbn [append]; discriminate]).
    unfold idok, textok. rewrite plain_allc, E1, E2, E3, String.eqb_refl. cbn [andb].
    apply negb_true_iff. apply String.eqb_neq. exact E4.
  - rewrite !nobrace_app, Hna, Hnb. reflexivity.
Qed.

Lemma path_text_gid : forall ids, ids <> [] -> forallb ident ids = true -> gid (path_text ids).
Proof.
  unfold path_text. induction ids as [|x r IH]; intros Hn H; [congruence|].
  cbn [forallb] in H. apply andb_true_iff in H. destruct H as [Hx Hr].
  destruct r as [|y r'].
  - cbn [Uml.join]. apply ident_gid. exact Hx.
  - change (Uml.join ":" (x :: y :: r')) with (x ++ ":" ++ Uml.join ":" (y :: r')).
    apply gid_join2; [apply ident_gid; exact Hx | apply IH; [discriminate | exact Hr]].
Qed.

(* ---------------------------------------------------------------- layout strings: a line break (CR LF or LF) and tabs *)

Fixpoint tabrep (n : nat) : string := match n with O => "" | S m => String TAB (tabrep m) end.

Lemma tabsn_eq : forall nl n, tabsn nl n = nl ++ tabrep n.
Proof. intros nl n. reflexivity. Qed.

Lemma nl_allc : forall nl, nl_ok nl = true -> allc wsc nl = true.
Proof.
  intros nl H. unfold nl_ok in H. apply orb_true_iff in H. destruct H as [H|H]; apply String.eqb_eq in H; subst nl; reflexivity.
Qed.

Lemma tabsn_allc : forall nl n, nl_ok nl = true -> allc wsc (tabsn nl n) = true.
Proof.
  intros nl n H. rewrite tabsn_eq, allc_app, (nl_allc nl H). cbn [andb].
  induction n as [|n IH]; [reflexivity|]. cbn [tabrep allc]. rewrite IH. reflexivity.
Qed.

Lemma tabsn_ws : forall nl n, nl_ok nl = true -> wsok (tabsn nl n) = true.
Proof. intros nl n H. rewrite wsok_allc. apply tabsn_allc, H. Qed.

Lemma nl_ws : forall nl, nl_ok nl = true -> wsok nl = true.
Proof. intros nl H. rewrite wsok_allc. apply nl_allc, H. Qed.

Lemma open_lay : forall nl n, nl_ok nl = true -> layok (list_open nl n) = true.
Proof. intros nl n H0. pose proof (tabsn_allc nl n H0) as H. unfold list_open. rewrite layok_allc. cls. Qed.
Lemma sep_lay : forall nl n, nl_ok nl = true -> layok (list_sep nl n) = true.
Proof. intros nl n H0. pose proof (tabsn_allc nl n H0) as H. unfold list_sep. rewrite layok_allc. cls. Qed.
Lemma close_lay : forall nl n, nl_ok nl = true -> layok (list_close nl n) = true.
Proof. intros nl n H0. pose proof (tabsn_allc nl n H0) as H. unfold list_close. rewrite layok_allc. cls. Qed.

(* ---------------------------------------------------------------- good items *)

Definition good (it : witem) : Prop := wf_item it = true /\ nbq_full it = true.

Lemma field_good : forall ws k v, wsok ws = true -> keyok k = true -> nobrace k = true -> valok v = true -> nobrace v = true ->
  good (IField ws k v).
Proof.
  intros ws k v H1 H2 H3 H4 H5. unfold good, nbq_full. cbn [wf_item seg_of seg_ok nbq_item].
  rewrite H1, H2, H3, H4, H5, orb_true_r. split; reflexivity.
Qed.

Lemma some_field_good : forall ws k v it, Some (IField ws k v) = Some it ->
  wsok ws = true -> keyok k = true -> nobrace k = true -> valok v = true -> nobrace v = true -> good it.
Proof. intros ws k v it E. inversion E. apply field_good. Qed.

Lemma refs_good : forall ws k o sep c ids, wsok ws = true -> keyok k = true -> nobrace k = true ->
  layok o = true -> layok sep = true -> layok c = true -> forallb idok ids = true -> forallb nobrace ids = true ->
  good (IRefs ws k o sep c ids).
Proof.
  intros ws k o sep c ids H1 H2 H3 H4 H5 H6 H7 H8. unfold good, nbq_full. cbn [wf_item seg_of seg_ok nbq_item].
  rewrite H1, H2, H3, H4, H5, H6, H7, H8. split; reflexivity.
Qed.

Lemma children_good : forall ws k o sep c ns, wsok ws = true -> keyok k = true -> nobrace k = true ->
  layok o = true -> layok sep = true -> layok c = true -> forallb (fun x => wf_node x) ns = true -> forallb nbq_node ns = true ->
  good (IChildren ws k o sep c ns).
Proof.
  intros ws k o sep c ns H1 H2 H3 H4 H5 H6 H7 H8. unfold good, nbq_full. cbn [wf_item seg_of seg_ok nbq_item].
  rewrite H1, H2, H3, H4, H5, H6, H7, H8. split; reflexivity.
Qed.

Lemma text_field_good : forall ws k v it, wsok ws = true -> keyok k = true -> nobrace k = true -> vtxt v = true ->
  text_field ws k v = Some it -> good it.
Proof.
  intros ws k v it H1 H2 H3 H4 E. unfold text_field in E. destruct (String.eqb v ""); [discriminate E|].
  inversion E. apply field_good; try assumption; [apply valok_qv | apply nobrace_qv]; assumption.
Qed.

Lemma flag_field_good : forall ws k b it, wsok ws = true -> keyok k = true -> nobrace k = true ->
  flag_field ws k b = Some it -> good it.
Proof.
  intros ws k b it H1 H2 H3 E. unfold flag_field in E. destruct b; [|discriminate E].
  inversion E. apply field_good; try assumption; reflexivity.
Qed.

Lemma ref_field_good : forall ws k ids it, wsok ws = true -> keyok k = true -> nobrace k = true -> forallb ident ids = true ->
  ref_field ws k ids = Some it -> good it.
Proof.
  intros ws k ids it H1 H2 H3 H4 E. unfold ref_field in E. destruct ids as [|i r]; [discriminate E|].
  inversion E. destruct (path_text_gid (i :: r) ltac:(discriminate) H4) as [G1 G2].
  apply refs_good; try assumption; try reflexivity; cbn [forallb]; [rewrite G1 | rewrite G2]; reflexivity.
Qed.

(* documentation: a text, or free text  ws documentation_plain="...";  (in the domain by raw_ok of the piece) *)
Lemma chop_app_semi : forall x, chop (x ++ ";") = x.
Proof.
  induction x as [|c x IH]; [reflexivity|]. cbn [append]. change (chop (String c (x ++ ";"))) with
    (match x ++ ";" with EmptyString => "" | _ => String c (chop (x ++ ";")) end).
  rewrite IH. destruct x; reflexivity.
Qed.

Lemma doc_field_good : forall ws d it, wsok ws = true -> doc_ok ws d = true -> doc_field ws d = Some it -> good it.
Proof.
  intros ws d it Hws Hd E. destruct d as [v|t]; cbn [doc_field doc_ok] in *.
  - refine (text_field_good _ _ _ _ Hws _ _ Hd E); vm_compute; reflexivity.
  - replace (ws ++ "documentation_plain=" ++ q t ++ ";") with ((ws ++ "documentation_plain=" ++ q t) ++ ";") in E
      by (rewrite !sapp_assoc; reflexivity).
    injection E as E'. subst it. split_and.
    split; [|reflexivity]. cbn [wf_item]. rewrite chop_app_semi, String.eqb_refl. cbn [andb]. assumption.
Qed.

Lemma idents_good : forall ids, forallb ident ids = true -> forallb idok ids = true /\ forallb nobrace ids = true.
Proof.
  intros ids H. split; revert H; apply forallb_imp; intros x Hx; destruct (ident_parts x Hx) as [_ [_ [H1 H2]]]; assumption.
Qed.

(* ---------------------------------------------------------------- the items of a layout, element nodes *)

Definition noise_ok (l : list slot) : bool :=
  forallb (fun s => match s with SNoise k v => noise_key k && noise_val v | _ => true end) l.

Lemma layout_noise : forall f l, layout_ok f l = true -> noise_ok l = true.
Proof. intros f l H. unfold layout_ok in H. split_and. assumption. Qed.

(* the inert properties: in the text domain as they are *)
Definition inert_txt (l : list slot) : bool :=
  forallb (fun s => match s with SInert it => item_text_ok it | _ => true end) l.

Lemma inerts_txt : forall K l, inerts_ok K l = true -> inert_txt l = true.
Proof.
  intros K l. unfold inerts_ok, inert_txt. apply forallb_imp. intros [k v|t|it] H; try reflexivity.
  unfold inert_ok in H. split_and. assumption.
Qed.

Lemma item_text_good : forall it, item_text_ok it = true -> good it.
Proof.
  intros it H. unfold item_text_ok in H. cbv zeta in H. rewrite wf_node_eq, nbq_node_eq in H. cbn [forallb] in H.
  split_and. split; assumption.
Qed.

Lemma items_of_good : forall ws f l, wsok ws = true -> noise_ok l = true -> inert_txt l = true ->
  (forall t it, f t = Some it -> good it) ->
  forallb wf_item (items_of ws f l) = true /\ forallb nbq_full (items_of ws f l) = true.
Proof.
  intros ws f l Hws Hn Hi Hf. induction l as [|s l IH]; [split; reflexivity|].
  unfold noise_ok in Hn. cbn [forallb] in Hn. apply andb_true_iff in Hn. destruct Hn as [Hs Hl].
  unfold inert_txt in Hi. cbn [forallb] in Hi. apply andb_true_iff in Hi. destruct Hi as [Hs' Hl'].
  destruct (IH Hl Hl') as [IH1 IH2]. unfold items_of. cbn [flat_map]. fold (items_of ws f l). rewrite !forallb_app, IH1, IH2, !andb_true_r.
  destruct s as [k v|t|it0].
  - apply andb_true_iff in Hs. destruct Hs as [Hk Hv].
    destruct (noise_key_good k Hk) as [K1 K2]. destruct (noise_val_good v Hv) as [V1 V2].
    destruct (field_good ws k v Hws K1 K2 V1 V2) as [G1 G2]. cbn [forallb]. rewrite G1, G2. split; reflexivity.
  - destruct (f t) as [it|] eqn:E; [|split; reflexivity].
    destruct (Hf t it E) as [G1 G2]. cbn [forallb]. rewrite G1, G2. split; reflexivity.
  - destruct (item_text_good it0 Hs') as [G1 G2]. cbn [forallb]. rewrite G1, G2. split; reflexivity.
Qed.

(* a header name: name characters (printable, no quote / backslash / apostrophe / ';' -- colons allowed), stripped, no braces *)
Definition hname_ok (nm : option string) : bool := match nm with Some s => ntxt s | None => true end.

Lemma txt_nameok : forall s, txt s = true -> nameok s = true.
Proof.
  intros s H. unfold txt in H. split_and. unfold nameok. apply andb_true_iff. split; [|assumption].
  rewrite name_chars_allc. rewrite plain_allc in *. cls.
Qed.

Lemma txt_ntxt : forall s, txt s = true -> ntxt s = true.
Proof.
  intros s H. unfold ntxt. rewrite (txt_nameok s H). cbn [andb]. unfold txt in H. split_and. unfold UmlSem.nbr.
  apply andb_true_iff. split; assumption.
Qed.

Lemma txt_hname : forall s, txt s = true -> hname_ok (Some s) = true.
Proof. intros s H. exact (txt_ntxt s H). Qed.

Lemma nn_hname : forall s, nameok s = true -> UmlSem.nbr s = true -> hname_ok (Some s) = true.
Proof. intros s H1 H2. cbn [hname_ok]. unfold ntxt. rewrite H1, H2. reflexivity. Qed.

Lemma mname_hname : forall s, mname s = true -> hname_ok (Some s) = true.
Proof. intros s H. unfold mname in H. apply andb_true_iff in H. destruct H as [H _]. exact H. Qed.

Lemma txtc_hname : forall nm, match nm with Some n => txt n && no_char ":" n | None => true end = true -> hname_ok nm = true.
Proof. intros nm H. destruct nm as [n|]; [|reflexivity]. split_and. apply txt_hname. assumption. Qed.

Lemma name_ok_hname : forall a nm, UmlSem.name_ok a nm = true -> hname_ok nm = true.
Proof.
  intros a nm H. destruct nm as [n|]; [|reflexivity]. cbn [UmlSem.name_ok] in H. split_and.
  apply txt_hname. assumption.
Qed.

Lemma ident_name_ok : forall s, ident s = true -> hname_ok (Some s) = true.
Proof. intros s H. destruct (ident_parts s H) as [H1 _]. exact (txt_hname s H1). Qed.

Lemma head_good : forall id nm ty, ident id = true -> hname_ok nm = true -> ident ty = true ->
  headok id nm ty = true /\ nobrace id = true /\ nobrace (name_text nm) = true /\ nobrace ty = true.
Proof.
  intros id nm ty Hi Hn Ht.
  destruct (ident_parts id Hi) as [I1 [I2 [I3 I4]]]. destruct (ident_parts ty Ht) as [T1 [T2 [T3 T4]]].
  unfold idok in I3, T3. apply andb_true_iff in I3, T3. destruct I3 as [I3 I5]. destruct T3 as [T3 T5].
  assert (N : match nm with Some s => nameok s | None => true end = true /\ nobrace (name_text nm) = true).
  { destruct nm as [s|]; [|split; reflexivity]. cbn [hname_ok] in Hn. unfold ntxt, UmlSem.nbr in Hn. split_and.
    cbn [name_text]. split; [assumption | apply nobrace_nc; assumption]. }
  destruct N as [N1 N2]. unfold headok. rewrite I3, I2, I5, N1, T3, T2, T5. repeat split; assumption || reflexivity.
Qed.

(* what is proved of every node the writer draws *)
Definition ngood (n : wnode) : Prop := wf_node n = true /\ nbq_node n = true.

Lemma elem_good : forall id nm ty ws f l tl,
  ident id = true -> hname_ok nm = true -> ident ty = true -> wsok ws = true -> wsok tl = true ->
  noise_ok l = true -> inert_txt l = true ->
  (forall t it, f t = Some it -> good it) ->
  ngood (WNode id nm ty (items_of ws f l) tl).
Proof.
  intros id nm ty ws f l tl Hi Hn Ht Hws Htl Hl Hin Hf.
  destruct (head_good id nm ty Hi Hn Ht) as [H1 [H2 [H3 H4]]]. destruct (items_of_good ws f l Hws Hl Hin Hf) as [G1 G2].
  split.
  - rewrite wf_node_eq, H1, Htl, G1. reflexivity.
  - rewrite nbq_node_eq, H2, H3, H4, G2. reflexivity.
Qed.

(* a top-level node (the blob of a row): its NAME may hold colons (wf_top); this is what wf_drawn demands *)
Definition tgood (n : wnode) : Prop := wf_top n = true /\ nbq_node n = true.

Lemma ngood_tgood : forall n, ngood n -> tgood n.
Proof. intros n [G1 G2]. split; [exact (wf_node_wf_top n G1) | assumption]. Qed.

(* (headok_top and headok coincide since the reader cuts the header at the colons outside quotes) *)
Lemma elem_good_top : forall id nm ty ws f l tl,
  ident id = true -> hname_ok nm = true -> ident ty = true -> wsok ws = true -> wsok tl = true ->
  noise_ok l = true -> inert_txt l = true ->
  (forall t it, f t = Some it -> good it) ->
  tgood (WNode id nm ty (items_of ws f l) tl).
Proof. intros. apply ngood_tgood, elem_good; assumption. Qed.

Lemma ngood_list : forall (A : Type) (P : A -> bool) (g : A -> wnode) l, (forall x, P x = true -> ngood (g x)) ->
  forallb P l = true ->
  forallb (fun x => wf_node x) (map g l) = true /\ forallb nbq_node (map g l) = true.
Proof.
  intros A P g l H Hl. split; revert Hl; apply forallb_map_imp; intros x Hx; destruct (H x Hx) as [G1 G2]; assumption.
Qed.

Lemma no_items_good : forall (t : tag) (it : witem), (fun _ : tag => @None witem) t = Some it -> good it.
Proof. intros t it E. discriminate E. Qed.

(* ---------------------------------------------------------------- the element kinds *)

Lemma path_ident : forall D ids, path_ok D ids = true -> forallb ident ids = true.
Proof. intros D ids. unfold path_ok. apply forallb_imp. intros x H. cbv beta in H. split_and. assumption. Qed.

Lemma tpath_ident : forall D ids, tpath_ok D ids = true -> forallb ident ids = true.
Proof. intros D ids H. unfold tpath_ok in H. apply andb_true_iff in H. destruct H as [H _]. exact (path_ident D ids H). Qed.

Lemma opt_tpath_ident : forall D l, match l with [] => true | s :: r => tpath_ok D (s :: r) end = true -> forallb ident l = true.
Proof. intros D l H. destruct l as [|x r]; [reflexivity | exact (tpath_ident D _ H)]. Qed.

(* side conditions: chosen by the shape of the goal (no blind apply / vm_compute on open terms) *)
Ltac hyp := match goal with H : ?g |- ?g => exact H end.
Ltac side :=
  lazymatch goal with
  | |- wsok (tabsn _ _) = true => apply tabsn_ws; hyp
  | |- wsok _ = true => first [hyp | apply nl_ws; hyp]
  | |- layok (list_open _ _) = true => apply open_lay; hyp
  | |- layok (list_sep _ _) = true => apply sep_lay; hyp
  | |- layok (list_close _ _) = true => apply close_lay; hyp
  | |- valok (q _) = true => apply valok_q; hyp
  | |- nobrace (q _) = true => apply nobrace_q; hyp
  | |- keyok _ = true => first [hyp | vm_compute; reflexivity]
  | |- nobrace _ = true => first [hyp | vm_compute; reflexivity]
  | |- valok _ = true => first [hyp | vm_compute; reflexivity]
  | |- layok _ = true => first [hyp | vm_compute; reflexivity]
  | |- ident _ = true => first [hyp | vm_compute; reflexivity]
  | |- hname_ok None = true => reflexivity
  | |- hname_ok _ = true => first [hyp | apply txtc_hname; hyp]
  | |- _ => hyp
  end.

Ltac item_fin E :=
  first [ refine (text_field_good _ _ _ _ _ _ _ _ E); side
        | refine (flag_field_good _ _ _ _ _ _ _ E); side
        | refine (ref_field_good _ _ _ _ _ _ _ _ E); side
        | refine (doc_field_good _ _ _ _ _ E); side
        | refine (some_field_good _ _ _ _ E _ _ _ _ _); side ].

(* the two layout facts of an element: its noise and its inert properties *)
Ltac lay :=
  lazymatch goal with
  | |- noise_ok _ = true => eapply layout_noise; eassumption
  | |- inert_txt _ = true => eapply inerts_txt; eassumption
  end.

Lemma param_item_good : forall D p, param_ok D p = true -> forall t it, param_item p t = Some it -> good it.
Proof.
  intros D p H t it E. unfold param_ok in H. split_and.
  assert (Hty : match sp_basic p with Some s => txt s = true | None => forallb ident (sp_type p) = true end).
  { destruct (sp_basic p) as [s|]; [unfold type_ok in *; split_and; assumption | split_and; apply (tpath_ident D); assumption]. }
  destruct t; cbn [param_item] in E; try discriminate E; try (item_fin E).
  - destruct (sp_basic p) as [s|]; [discriminate E | item_fin E].
  - destruct (sp_basic p) as [s|]; [item_fin E | discriminate E].
  - destruct (sp_dir p) as [[|]|]; [item_fin E | item_fin E | discriminate E].
Qed.

Lemma param_good : forall D p, param_ok D p = true -> ngood (tree_of_param p).
Proof.
  intros D p H. pose proof (param_item_good D p H) as Hf. unfold param_ok in H. split_and.
  unfold tree_of_param. apply elem_good; try side; try lay.
  apply nn_hname; assumption.
Qed.

Lemma params_good : forall D ps, forallb (param_ok D) ps = true ->
  forallb (fun x => wf_node x) (map tree_of_param ps) = true /\ forallb nbq_node (map tree_of_param ps) = true.
Proof. intros D ps. apply ngood_list. exact (param_good D). Qed.

Lemma op_item_good : forall D o, op_ok D o = true -> forall t it, op_item o t = Some it -> good it.
Proof.
  intros D o H t it E. unfold op_ok in H. split_and.
  assert (Hret : forallb ident (so_ret o) = true) by (apply (opt_tpath_ident D); assumption).
  destruct (params_good D (so_params o) ltac:(assumption)) as [P1 P2].
  destruct t; cbn [op_item] in E; try discriminate E; try (item_fin E).
  - destruct (so_vis o) as [c|]; [|discriminate E].
    destruct (code_good c ltac:(assumption)) as [C1 C2]. item_fin E.
  - destruct (so_static o); [item_fin E | discriminate E].
  - destruct (so_params o) as [|p ps]; [discriminate E|]. inversion E. apply children_good; side.
Qed.

Lemma op_good : forall D o, op_ok D o = true -> ngood (tree_of_op o).
Proof.
  intros D o H. pose proof (op_item_good D o H) as Hf. unfold op_ok in H. split_and.
  unfold tree_of_op. apply elem_good; try side; try lay.
  apply mname_hname. assumption.
Qed.

Lemma attr_item_good : forall D a, attr_ok D a = true -> forall t it, attr_item a t = Some it -> good it.
Proof.
  intros D a H t it E. unfold attr_ok in H. split_and.
  assert (Hty : forallb ident (sa_type a) = true) by (apply (opt_tpath_ident D); assumption).
  destruct t; cbn [attr_item] in E; try discriminate E; try (item_fin E).
  - destruct (sa_vis a) as [c|]; [|discriminate E].
    destruct (code_good c ltac:(assumption)) as [C1 C2]. item_fin E.
  - destruct (sa_static a); [item_fin E | discriminate E].
Qed.

Lemma attr_good : forall D a, attr_ok D a = true -> ngood (tree_of_attr a).
Proof.
  intros D a H. pose proof (attr_item_good D a H) as Hf. unfold attr_ok in H. split_and.
  unfold tree_of_attr. apply elem_good; try side; try lay.
  apply nn_hname; assumption.
Qed.

Lemma member_good : forall D m, member_ok D m = true -> ngood (tree_of_member m).
Proof.
  intros D m H. destruct m as [o|a|id name nl noise]; cbn [member_ok tree_of_member] in *.
  - exact (op_good D o H).
  - exact (attr_good D a H).
  - split_and. apply elem_good; try side; try lay.
    + apply mname_hname. assumption.
    + exact no_items_good.
Qed.

Lemma members_good : forall D ms, forallb (member_ok D) ms = true ->
  forallb (fun x => wf_node x) (map tree_of_member ms) = true /\ forallb nbq_node (map tree_of_member ms) = true.
Proof. intros D ms. apply ngood_list. exact (member_good D). Qed.

Lemma class_item_good : forall D c, class_ok D c = true -> forall t it, class_item c t = Some it -> good it.
Proof.
  intros D c H t it E. unfold class_ok in H. split_and.
  assert (Hst : forallb ident (sc_stereos c) = true).
  { match goal with H : forallb _ (sc_stereos c) = true |- _ => revert H end.
    apply forallb_imp. intros x Hx. cbv beta in Hx. split_and. assumption. }
  destruct (idents_good _ Hst) as [S1 S2].
  destruct (members_good D (sc_members c) ltac:(assumption)) as [M1 M2].
  destruct t; cbn [class_item] in E; try discriminate E; try (item_fin E).
  - destruct (sc_members c) as [|m ms]; [discriminate E|]. inversion E. apply children_good; side.
  - destruct (sc_stereos c) as [|i r]; [discriminate E|]. inversion E. apply refs_good; side.
Qed.

Lemma class_good : forall D c, class_ok D c = true -> ngood (tree_of_class c).
Proof.
  intros D c H. pose proof (class_item_good D c H) as Hf. unfold class_ok in H. split_and.
  unfold tree_of_class. apply elem_good; try side; try lay.
  apply txt_hname. assumption.
Qed.

Lemma package_item_good : forall D p, package_ok D p = true -> forall t it, package_item p t = Some it -> good it.
Proof.
  intros D p H t it E. unfold package_ok in H. split_and.
  assert (Hp : forallb idok (map path_text (sk_paths p)) = true /\ forallb nobrace (map path_text (sk_paths p)) = true).
  { match goal with H : forallb _ (sk_paths p) = true |- _ => rename H into Hps end.
    split; revert Hps; apply forallb_map_imp; intros path Hx; cbv beta in Hx; split_and;
      (destruct (path_text_gid path) as [G1 G2]; [destruct path; [discriminate | discriminate] | assumption | assumption]). }
  destruct Hp as [P1 P2].
  destruct t; cbn [package_item] in E; try discriminate E.
  destruct (sk_paths p) as [|x r]; [discriminate E|]. inversion E. apply refs_good; side.
Qed.

Lemma package_good : forall D p, package_ok D p = true -> ngood (tree_of_package p).
Proof.
  intros D p H. pose proof (package_item_good D p H) as Hf. unfold package_ok in H. split_and.
  unfold tree_of_package. apply elem_good; try side; try lay.
  apply ident_name_ok. assumption.
Qed.

Lemma inh_item_good : forall D i, inh_ok D i = true -> forall t it, inh_item i t = Some it -> good it.
Proof.
  intros D i H t it E. unfold inh_ok in H. split_and.
  assert (Hfrom : forallb ident (si_from i) = true) by (apply (path_ident D); assumption).
  assert (Hto : forallb ident (si_to i) = true) by (apply (path_ident D); assumption).
  destruct t; cbn [inh_item] in E; try discriminate E; item_fin E.
Qed.

Lemma inh_good : forall D i, inh_ok D i = true -> ngood (tree_of_inh i).
Proof.
  intros D i H. pose proof (inh_item_good D i H) as Hf. unfold inh_ok in H. split_and.
  unfold tree_of_inh. apply elem_good; try side; try lay.
  destruct (si_real i); vm_compute; reflexivity.
Qed.

(* ---------------------------------------------------------------- associations: the two ends, the association *)

Lemma end_item_good : forall D from e, end_ok D from e = true -> forall t it, end_item from e t = Some it -> good it.
Proof.
  intros D from e H t it E. unfold end_ok in H. split_and.
  assert (Hcls : forallb ident (se_class e) = true) by (apply (path_ident D); assumption).
  destruct t; cbn [end_item] in E; try discriminate E; try (item_fin E).
  - destruct (se_vis e) as [c|]; [|discriminate E].
    destruct (code_good c ltac:(assumption)) as [C1 C2]. item_fin E.
  - destruct from; item_fin E.
  - destruct (se_agg e) as [c|]; [|discriminate E].
    destruct (code_good c ltac:(assumption)) as [C1 C2]. item_fin E.
Qed.

Lemma end_good : forall D from e, end_ok D from e = true -> ngood (tree_of_end from e).
Proof.
  intros D from e H. pose proof (end_item_good D from e H) as Hf. unfold end_ok in H. split_and.
  unfold tree_of_end. apply elem_good; try side; try lay.
  eapply name_ok_hname; eassumption.
Qed.

Lemma assoc_item_good : forall D x, assoc_ok D x = true -> forall t it, assoc_item x t = Some it -> good it.
Proof.
  intros D x H t it E. unfold assoc_ok in H. split_and.
  destruct (end_good D true (sx_from x) ltac:(assumption)) as [F1 F2].
  destruct (end_good D false (sx_to x) ltac:(assumption)) as [T1 T2].
  destruct t; cbn [assoc_item] in E; try discriminate E; try (item_fin E).
  - inversion E. apply children_good; try side; cbn [forallb]; [rewrite F1 | rewrite F2]; reflexivity.
  - inversion E. apply children_good; try side; cbn [forallb]; [rewrite T1 | rewrite T2]; reflexivity.
Qed.

Lemma assoc_good : forall D x, assoc_ok D x = true -> ngood (tree_of_assoc x).
Proof.
  intros D x H. pose proof (assoc_item_good D x H) as Hf. unfold assoc_ok in H. split_and.
  unfold tree_of_assoc. apply elem_good; try side; try lay.
  destruct (sx_name x) as [n|]; [|reflexivity]. split_and. cbn [hname_ok]. assumption.
Qed.

(* ---------------------------------------------------------------- the diagram *)

(* the domain of a drawn element, without the quote_ok conjunct *)
Definition shape_ok (S : sdiagram) (se : string * selem) : bool :=
  match snd se with
  | EClass c => class_ok S c
  | EPackage p => package_ok S p
  | EInh i => inh_ok S i
  | EAssoc x => assoc_ok S x
  | EOther id nm ty _ nl noise =>
      nl_ok nl && ident id && match nm with Some n => txt n && no_char ":" n | None => true end && ident ty
      && negb (existsb (String.eqb ty) ["Class"; "Package"; "Association"; "Realization"; "Generalization"])
      && layout_ok (fun _ => None) noise && inerts_ok KNone noise
  end.

Lemma shape_good : forall D se, shape_ok D se = true -> tgood (we_node (welem_of (snd se))).
Proof.
  intros D [sid e] H. unfold shape_ok in H. cbn [snd] in *.
  destruct e as [c|p|i|x|id nm ty par nl noise]; cbn [welem_of we_node].
  - exact (ngood_tgood _ (class_good D c H)).
  - exact (ngood_tgood _ (package_good D p H)).
  - exact (ngood_tgood _ (inh_good D i H)).
  - exact (ngood_tgood _ (assoc_good D x H)).
  - apply ngood_tgood. split_and. apply elem_good; try side; try lay.
    exact no_items_good.
Qed.

(* the referenced elements (not part of wf_drawn) are in the domain as well *)
Lemma ref_good : forall r,
  nl_ok (sr_nl r) && ident (sr_id r) && txt (sr_name r) && no_char ":" (sr_name r) && ident (sr_type r)
  && layout_ok (fun _ => None) (sr_noise r) && inerts_ok KNone (sr_noise r) = true ->
  ngood (we_node (welem_of_ref r)).
Proof.
  intros r H. split_and. unfold welem_of_ref. cbn [we_node]. apply elem_good; try side; try lay.
  - apply txt_hname. assumption.
  - exact no_items_good.
Qed.

Lemma tree_of_wf_drawn : forall S : sdiagram, sdiagram_ok S = true -> wf_drawn (tree_of S) = true.
Proof.
  intros S H. unfold sdiagram_ok in H. split_and.
  match goal with H : forallb _ (sd_shapes S) = true |- _ => rename H into Hs end.
  unfold wf_drawn, tree_of. cbn [wd_drawn]. revert Hs. apply forallb_map_imp. intros se Hse. cbn [snd].
  apply andb_true_iff in Hse. destruct Hse as [Hse Hq]. change (shape_ok S se = true) in Hse.
  destruct (shape_good S se Hse) as [G1 G2]. rewrite G1, G2, Hq. reflexivity.
Qed.

Print Assumptions tree_of_wf_drawn.
