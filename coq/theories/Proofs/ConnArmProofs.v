(* C14, the __arm__ configuration: reassembly of every well-formed stream whose messages fit the largest message size, cut
   into chunks that fit the fragment buffer together with what can be pending.  Proof by simulation: as long as the exceed
   flag stays clear and everything counted is in the array, one call of the __arm__ HandleFragmentedData /
   HandleUnfragmentedData does exactly what the non-__arm__ one does on the abstraction
   (buffer = the first m_fragment_buffer_cnt bytes of the array); the refinement proof of Proofs/ConnProofs.v is then reused. *)
From Coq Require Import String Ascii List Bool Arith NArith ZArith Lia.
From KV Require Import Lib.Str Lib.ByteSeq Gen.CxxConn Model.Conn Model.ConnArm
                       Proofs.ByteSeqProofs Proofs.ConnProofs Proofs.ConnSafe Proofs.ConnArmSafe.
Import ListNotations.
Open Scope N_scope.
Open Scope list_scope.

Definition abs (sa : astate) : state := mkSt (take (cnt sa) (arr sa)) (areq sa).
Definition cleanb (sa : astate) : bool := negb (exc sa) && (cnt sa <=? cap) && (len (arr sa) =? cap).
Definition abs_o (oa : aoutcome) : outcome :=
  match oa with
  | ADone sa ds => if cleanb sa then Done (abs sa) ds else Fail OutOfBounds ds
  | AFail e ds => Fail e ds
  end.

Lemma cleanb_iff sa : cleanb sa = true <-> exc sa = false /\ cnt sa <= cap /\ len (arr sa) = cap.
Proof.
  unfold cleanb. rewrite !andb_true_iff, negb_true_iff, N.leb_le, N.eqb_eq. tauto.
Qed.

Lemma abs_o_deliver m oa : abs_o (adeliver m oa) = deliver m (abs_o oa).
Proof. destruct oa as [sa ds | e ds]; cbn [adeliver abs_o deliver]; [destruct (cleanb sa) |]; reflexivity. Qed.

Lemma abs_o_done oa st ds : abs_o oa = Done st ds -> exists sa, oa = ADone sa ds /\ cleanb sa = true /\ abs sa = st.
Proof.
  destruct oa as [sa ds' | e ds']; cbn [abs_o]; [| discriminate].
  destruct (cleanb sa) eqn:E; [| discriminate]. intros H. injection H as <- <-. eauto.
Qed.

Lemma abs_areset sa : len (arr sa) = cap -> abs_o (ADone (areset sa) []) = Done reset [].
Proof.
  intros H. cbn [abs_o]. assert (cleanb (areset sa) = true) as ->.
  { apply cleanb_iff. cbn [areset exc cnt arr]. repeat split; [lia | exact H]. }
  reflexivity.
Qed.

Lemma assert_ok_take p0 p1 n (a : list byte) : 2 <= n -> assert_ok p0 p1 (take n a) = assert_ok p0 p1 a.
Proof.
  intros H. unfold take. destruct (N.to_nat n) as [| [| k]] eqn:E; try lia.
  destruct a as [| x [| y a']]; reflexivity.
Qed.

Lemma payload_size_take n (a : list byte) : 8 <= n -> payload_size (take n a) = payload_size a.
Proof. intros H. apply payload_size_take8. apply take_take. exact H. Qed.

Section ArmSim.
  Variables p0 p1 : byte.
  Variable largest : N.
  Hypothesis Hlargest : largest <= cap.

  Definition idle (sr : astate) : Prop := cleanb sr = true /\ cnt sr = 0 /\ areq sr = 0.

  Lemma idle_areset sa : len (arr sa) = cap -> idle (areset sa).
  Proof.
    intros H. repeat split; auto. apply cleanb_iff. cbn [areset exc cnt arr]. repeat split; [lia | exact H].
  Qed.

  Lemma abs_idle sr : idle sr -> abs sr = reset.
  Proof. intros (_ & Hc & Hr). unfold abs. rewrite Hc, Hr. reflexivity. Qed.

  (* one call of the __arm__ handler = one call of the non-__arm__ handler on the abstraction *)
  Lemma handle_arm_sim (rec_a : astate -> list byte -> aoutcome) sa data :
    cleanb sa = true -> data <> [] -> len data + 65536 <= 4294967296 ->
    (0 < cnt sa -> len data + cnt sa <= cap) ->
    (areq sa = 0 -> cnt sa < 8) ->
    (0 < areq sa -> 8 <= cnt sa /\ cnt sa + areq sa <= cap) ->
    (areq sa = 0 -> 8 <= cnt sa + len data ->
       oversize (payload_size (take (cnt sa) (arr sa) ++ data)) = false ->
       8 + payload_size (take (cnt sa) (arr sa) ++ data) <= largest) ->
    exists sr, idle sr /\
      abs_o (handle_arm p0 p1 largest rec_a sa data)
      = handle p0 p1 (fun _ d => abs_o (rec_a sr d)) (abs sa) data.
  Proof.
    intros Hclean Hd H32 Hchunk Hhdr Hpay Hfit.
    apply cleanb_iff in Hclean. destruct Hclean as (Hexc & Hcc & Hlen).
    pose proof (len_pos data Hd) as Hdpos. pose proof cap_eq as Hcap.
    assert (len (take (cnt sa) (arr sa)) = cnt sa) as Hlb by (apply len_take; lia).
    unfold handle_arm, handle. unfold abs. cbn [buf]. rewrite Hlb, size_of_header_eq.
    destruct ((0 <? cnt sa) || (len data <? 8)) eqn:Efrag.
    - (* HandleFragmentedData *)
      assert (cnt sa = 0 -> len data < 8) as Hc0.
      { intros E. rewrite E in Efrag. change (0 <? 0) with false in Efrag. cbn [orb] in Efrag. apply N.ltb_lt. exact Efrag. }
      unfold handle_fragmented_arm, handle_fragmented. cbv beta iota zeta. cbn [buf required]. rewrite Hlb.
      destruct ((cnt sa =? 1) && negb (Ascii.eqb (hd0 data) p1)) eqn:Ec.
      { destruct (Ascii.eqb (hd0 data) p0).
        - exists (areset sa). split; [apply idle_areset; exact Hlen | reflexivity].
        - exists (areset sa). split; [apply idle_areset; exact Hlen | apply abs_areset; exact Hlen]. }
      rewrite (w32_small (len data + cnt sa)) by lia. rewrite size_of_header_eq.
      assert (len data + cnt sa <= cap) as Htot.
      { destruct (N.eq_dec (cnt sa) 0) as [E | E]; [specialize (Hc0 E); lia | apply Hchunk; lia]. }
      assert (cap <? len data + cnt sa = false) as Ecap by (apply N.ltb_ge; exact Htot).
      rewrite Hexc, Ecap. cbn [orb].
      assert (set_exc sa false = sa) as Eset by (destruct sa; cbn in *; subst; reflexivity).
      rewrite Eset.
      destruct (N.eqb_spec (areq sa) 0) as [Hr0 | Hr0].
      + specialize (Hhdr Hr0).
        destruct (N.ltb_spec (len data + cnt sa) 8) as [Ht8 | Ht8].
        * (* less than a header *)
          exists (areset sa). split; [apply idle_areset; exact Hlen |].
          destruct (aput_copy sa 0 (len data) data Hexc) as (bytes & a' & Hsl & Hlbytes & Hw & ->); [lia | lia |].
          assert (bytes = data) as ->.
          { unfold slice in Hsl. cbn [N.add] in Hsl. rewrite N.leb_refl in Hsl. injection Hsl as <-. rewrite drop_zero. apply take_all. }
          cbn [abs_o]. assert (cleanb (mkA a' (w16 (cnt sa + len data)) false (areq sa)) = true) as ->.
          { apply cleanb_iff. cbn [exc cnt arr]. rewrite (w16_small (cnt sa + len data)) by lia.
            rewrite (write_len _ _ _ _ Hw). repeat split; lia. }
          unfold abs, put. cbn [arr cnt areq buf required].
          rewrite (w16_small (cnt sa + len data)) by lia. rewrite (write_take _ _ _ _ Hw), Hr0. reflexivity.
        * (* the header completes *)
          rewrite (sub32_small 8 (cnt sa)) by lia.
          destruct (aput_copy sa 0 (8 - cnt sa) data Hexc) as (h & a1 & Hsl & Hlh & Hw1 & ->); [lia | lia |].
          rewrite Hsl. cbn [arr cnt exc areq buf put required].
          pose proof (write_len _ _ _ _ Hw1) as Hl1.
          rewrite (w16_small (cnt sa + (8 - cnt sa))) by lia.
          replace (cnt sa + (8 - cnt sa)) with 8 by lia.
          assert (take 8 a1 = take (cnt sa) (arr sa) ++ h) as Ht1.
          { replace 8 with (cnt sa + len h) by lia. apply (write_take _ _ _ _ Hw1). }
          assert (payload_size a1 = payload_size (take (cnt sa) (arr sa) ++ h)) as Hps1.
          { rewrite <- Ht1. symmetry. apply payload_size_take. lia. }
          rewrite Hps1.
          destruct (slice_split _ _ _ _ Hsl) as (pre & d2 & Hdata & Hpre & _).
          apply len_zero in Hpre. subst pre. cbn [app] in Hdata.
          assert (len data = len h + len d2) as Hld by (rewrite Hdata, len_app; reflexivity).
          assert (payload_size (take (cnt sa) (arr sa) ++ data) = payload_size (take (cnt sa) (arr sa) ++ h)) as Hpsd.
          { rewrite Hdata, app_assoc. apply payload_size_app. rewrite len_app. lia. }
          set (ps := payload_size (take (cnt sa) (arr sa) ++ h)) in *.
          destruct (oversize ps) eqn:Eo.
          { exists (areset (mkA a1 8 false (areq sa))). split; [apply idle_areset; cbn [arr]; lia | reflexivity]. }
          specialize (Hfit Hr0 ltac:(lia)). rewrite Hpsd in Hfit. specialize (Hfit Eo).
          apply oversize_false_iff in Eo.
          rewrite (w32_small (8 + ps)) by lia.
          assert (largest <? 8 + ps = false) as Efit by (apply N.ltb_ge; exact Hfit).
          unfold set_exc. cbn [arr cnt exc areq]. rewrite Efit. cbn [orb].
          destruct (N.ltb_spec (len data + cnt sa) (8 + ps)) as [Hin | Hout].
          -- rewrite (sub32_small (len data) (8 - cnt sa)) by lia.
             destruct (aput_copy (mkA a1 8 false (areq sa)) (8 - cnt sa) (len data - (8 - cnt sa)) data eq_refl)
               as (r & a2 & Hsl2 & Hlr & Hw2 & ->); [lia | cbn [cnt arr]; lia |].
             rewrite Hsl2. cbn [arr cnt exc areq] in *.
             exists (areset sa). split; [apply idle_areset; exact Hlen |].
             pose proof (write_len _ _ _ _ Hw2) as Hl2.
             rewrite (w16_small (8 + (len data - (8 - cnt sa)))) by lia.
             cbn [abs_o]. unfold set_req. cbn [arr cnt exc areq].
             assert (cleanb (mkA a2 (8 + (len data - (8 - cnt sa))) false (sub32 (8 + ps) (8 + (len data - (8 - cnt sa))))) = true) as ->.
             { apply cleanb_iff. cbn [exc cnt arr]. repeat split; lia. }
             unfold abs. cbn [arr cnt areq buf].
             replace (8 + (len data - (8 - cnt sa))) with (8 + len r) by lia.
             rewrite (write_take _ _ _ _ Hw2), Ht1.
             rewrite !len_app, Hlb. replace (cnt sa + len h + len r) with (8 + len r) by lia. reflexivity.
          -- rewrite (sub32_small (8 + ps) 8) by lia.
             destruct (aput_copy (mkA a1 8 false (areq sa)) (8 - cnt sa) (8 + ps - 8) data eq_refl)
               as (r & a2 & Hsl2 & Hlr & Hw2 & ->); [lia | cbn [cnt arr]; lia |].
             rewrite Hsl2. cbn [arr cnt exc areq buf] in *.
             pose proof (write_len _ _ _ _ Hw2) as Hl2.
             rewrite (w32_small (8 - cnt sa + (8 + ps - 8))) by lia.
             assert (take (8 + len r) a2 = (take (cnt sa) (arr sa) ++ h) ++ r) as Ht2.
             { rewrite (write_take _ _ _ _ Hw2), Ht1. reflexivity. }
             rewrite <- Ht2. rewrite assert_ok_take by lia.
             exists (areset (mkA a2 (w16 (8 + (8 + ps - 8))) false (areq sa))).
             split; [apply idle_areset; cbn [arr]; lia |].
             destruct (assert_ok p0 p1 a2); [| reflexivity].
             unfold deliver_from_buffer. cbn [arr].
             assert (8 + ps <=? len a2 = true) as -> by (apply N.leb_le; lia).
             rewrite abs_o_deliver. rewrite take_take by lia. f_equal.
             unfold acont. destruct (8 - cnt sa + (8 + ps - 8) <? len data); [reflexivity |].
             apply abs_areset. cbn [arr]. lia.
      + (* required > 0 *)
        destruct (Hpay ltac:(lia)) as [Hc8 Hroom].
        destruct (N.ltb_spec (len data) (areq sa)) as [Hin | Hout].
        * exists (areset sa). split; [apply idle_areset; exact Hlen |].
          destruct (aput_copy sa 0 (len data) data Hexc) as (bytes & a' & Hsl & Hlbytes & Hw & ->); [lia | lia |].
          assert (bytes = data) as ->.
          { unfold slice in Hsl. cbn [N.add] in Hsl. rewrite N.leb_refl in Hsl. injection Hsl as <-. rewrite drop_zero. apply take_all. }
          cbn [abs_o]. unfold set_req. cbn [arr cnt exc areq].
          rewrite (w16_small (cnt sa + len data)) by lia.
          assert (cleanb (mkA a' (cnt sa + len data) false (sub32 (areq sa) (len data))) = true) as ->.
          { apply cleanb_iff. cbn [exc cnt arr]. rewrite (write_len _ _ _ _ Hw). repeat split; lia. }
          unfold abs. cbn [arr cnt areq]. rewrite (write_take _ _ _ _ Hw). reflexivity.
        * destruct (aput_copy sa 0 (areq sa) data Hexc) as (r & a' & Hsl & Hlr & Hw & ->); [lia | lia |].
          rewrite Hsl. cbn [arr cnt exc areq buf put required].
          pose proof (write_len _ _ _ _ Hw) as Hl'.
          rewrite (w16_small (cnt sa + areq sa)) by lia.
          assert (take (cnt sa + len r) a' = take (cnt sa) (arr sa) ++ r) as Ht2 by (apply (write_take _ _ _ _ Hw)).
          rewrite <- Ht2. rewrite assert_ok_take by lia.
          exists (areset (mkA a' (cnt sa + areq sa) false (areq sa))).
          split; [apply idle_areset; cbn [arr]; lia |].
          destruct (assert_ok p0 p1 a'); [| reflexivity].
          unfold deliver_from_buffer. cbn [arr cnt].
          assert (cnt sa + areq sa <=? len a' = true) as -> by (apply N.leb_le; lia).
          rewrite abs_o_deliver. rewrite len_take by lia.
          rewrite (w32_small (cnt sa + len r)) by lia. rewrite take_take by lia. rewrite Hlr. f_equal.
          unfold acont. destruct (areq sa <? len data); [reflexivity |].
          apply abs_areset. cbn [arr]. lia.
    - (* HandleUnfragmentedData *)
      apply orb_false_iff in Efrag. destruct Efrag as [Ec0 Ed8]. apply N.ltb_ge in Ec0. apply N.ltb_ge in Ed8.
      assert (cnt sa = 0) as Hc0 by lia.
      assert (areq sa = 0) as Hr0.
      { destruct (N.eq_dec (areq sa) 0) as [E | E]; [exact E |]. destruct (Hpay ltac:(lia)). lia. }
      unfold handle_unfragmented_arm, handle_unfragmented. cbv beta iota zeta. rewrite size_of_header_eq.
      apply N.ltb_ge in Ed8. rewrite Ed8. apply N.ltb_ge in Ed8.
      assert (abs sa = reset) as Eabs by (unfold abs; rewrite Hc0, Hr0; reflexivity).
      assert (idle sa) as Hidle by (repeat split; auto; apply cleanb_iff; auto).
      rewrite Hc0, Hr0. change (take 0 (arr sa)) with (@nil byte). cbn [buf app]. change (mkSt [] 0) with reset.
      destruct (oversize (payload_size data)) eqn:Eo.
      { exists sa. split; [exact Hidle | reflexivity]. }
      specialize (Hfit Hr0 ltac:(lia)). rewrite Hc0 in Hfit. unfold take at 1 2 in Hfit. cbn [N.to_nat firstn app] in Hfit.
      specialize (Hfit Eo). apply oversize_false_iff in Eo.
      rewrite (w32_small (8 + payload_size data)) by lia.
      destruct (N.ltb_spec (len data) (8 + payload_size data)) as [Hin | Hout].
      + exists sa. split; [exact Hidle |].
        assert (largest <? 8 + payload_size data = false) as Efit by (apply N.ltb_ge; exact Hfit).
        rewrite Hexc, Efit. cbn [orb].
        assert (set_exc sa false = sa) as Eset by (destruct sa; cbn in *; subst; reflexivity).
        rewrite Eset.
        destruct (aput_copy sa 0 (len data) data Hexc) as (bytes & a' & Hsl & Hlbytes & Hw & ->); [lia | lia |].
        assert (bytes = data) as ->.
        { unfold slice in Hsl. cbn [N.add] in Hsl. rewrite N.leb_refl in Hsl. injection Hsl as <-. rewrite drop_zero. apply take_all. }
        cbn [abs_o]. unfold set_req. cbn [arr cnt exc areq]. rewrite Hc0, N.add_0_l.
        rewrite (w16_small (len data)) by lia.
        assert (cleanb (mkA a' (len data) false (sub32 (8 + payload_size data) (len data))) = true) as ->.
        { apply cleanb_iff. cbn [exc cnt arr]. rewrite (write_len _ _ _ _ Hw). repeat split; lia. }
        unfold abs. cbn [arr cnt areq].
        pose proof (write_take _ _ _ _ Hw) as Ht. rewrite Hc0, N.add_0_l in Ht.
        change (take 0 (arr sa)) with (@nil byte) in Ht. cbn [app] in Ht. rewrite Ht. reflexivity.
      + exists sa. split; [exact Hidle |].
        rewrite abs_o_deliver. f_equal.
        destruct (8 + payload_size data <? len data); [reflexivity |].
        cbn [abs_o]. destruct Hidle as (-> & _). rewrite Eabs. reflexivity.
  Qed.
End ArmSim.

Section ArmGood.
  Variables p0 p1 : byte.
  Variable largest : N.
  Hypothesis Hlargest : largest <= cap.

  Definition fits (m : list byte) : bool := len m <=? largest.
  Notation wfx := (wf_items p0 p1 fits).
  Notation goodx := (good p0 p1 fits).

  Lemma repr_abs_idle sa got rest : cleanb sa = true -> repr p0 p1 (abs sa) got rest -> got = [] ->
    cnt sa = 0 /\ areq sa = 0 /\ rest = [].
  Proof.
    intros Hc [Hbuf Hcases] ->. apply cleanb_iff in Hc. destruct Hc as (_ & Hcc & Hlen).
    cbn [abs buf required] in *.
    destruct Hcases as [(_ & Hr & Hq) | (Hg & _)]; [| congruence].
    assert (len (take (cnt sa) (arr sa)) = cnt sa) as Hl by (apply len_take; lia).
    rewrite Hbuf, len_nil in Hl. auto.
  Qed.

  Lemma on_data_arm_good : forall fuel data sa got rest items tail fut,
    (length data < fuel)%nat -> len data + 65536 <= 4294967296 ->
    cleanb sa = true -> repr p0 p1 (abs sa) got rest -> wfx items -> filler_ok p0 tail = true ->
    (got <> [] -> len (got ++ rest) <= largest) ->
    (0 < cnt sa -> len data + cnt sa <= cap) ->
    rest ++ stream_of items tail = data ++ fut ->
    goodx (abs_o (on_data_arm p0 p1 largest fuel sa data)) (cur_msgs got rest ++ map snd items) fut.
  Proof.
    induction fuel as [| f IH]; intros data sa got rest items tail fut Hfuel H32 Hclean Hr Hi Ht Hcur Hchunk Hs; [lia |].
    assert (forall sr, idle sr -> rec_ok p0 p1 fits (fun _ d => abs_o (on_data_arm p0 p1 largest f sr d)) (length data)) as Hrec.
    { intros sr (Hcs & Hc0 & Hr0) d its tl ft Hl H32' Hi' Ht' Hs'.
      apply (IH d sr [] [] its tl ft); auto; try lia.
      - unfold len in *. lia.
      - rewrite (abs_idle sr) by (repeat split; auto). apply repr_idle.
      - congruence. }
    cbn [on_data_arm]. cbv zeta.
    destruct data as [| x data'] eqn:Edata.
    - rewrite len_nil. change (0 =? 0) with true. cbv iota. cbn [app] in Hs. subst fut.
      cbn [abs_o]. rewrite Hclean. apply good_stay; assumption.
    - rewrite <- Edata in *. assert (data <> []) as Hd by (rewrite Edata; discriminate).
      pose proof (len_pos data Hd) as Hdpos.
      assert (len data =? 0 = false) as Hz by (apply N.eqb_neq; lia). rewrite Hz.
      pose proof Hclean as Hclean'. apply cleanb_iff in Hclean'. destruct Hclean' as (Hexc & Hcc & Hlen).
      destruct got as [| g0 got'] eqn:Egot.
      + (* nothing pending *)
        destruct (repr_abs_idle sa [] rest Hclean Hr eq_refl) as (Hc0 & Hr0 & ->).
        rewrite Hc0. change (0 =? 0) with true. cbv iota. cbn [app cur_msgs] in *.
        assert (abs sa = reset) as Eabs by (unfold abs; rewrite Hc0, Hr0; reflexivity).
        destruct (idle_split p0 p1 fits items tail data fut Hi Ht Hs)
          as [(Hfd & items' & tail' & Hi' & Ht' & Hfut & Hmap) | (fl & m & items' & d' & Hit & Hdd & Hd' & Hs')].
        * assert ((if len data =? 1
                   then if Ascii.eqb (hd0 data) p0 then handle_arm p0 p1 largest (on_data_arm p0 p1 largest f) sa data else ADone sa []
                   else match find_preamble p0 p1 data with
                        | None => ADone sa []
                        | Some i => handle_arm p0 p1 largest (on_data_arm p0 p1 largest f) sa (drop i data)
                        end) = ADone sa []) as E.
          { destruct (len data =? 1).
            - rewrite (filler_hd p0 data Hfd Hd). reflexivity.
            - rewrite (fp_none p0 p1 data Hfd). reflexivity. }
          rewrite E. cbn [abs_o]. rewrite Hclean, Eabs, <- Hmap. subst fut.
          apply (good_stay p0 p1 fits reset [] [] items' tail'); auto using repr_idle.
        * subst items. cbn [map snd].
          unfold wf_items in Hi. cbn [forallb] in Hi.
          apply andb_true_iff in Hi. destruct Hi as [Hfm Hi]. apply andb_true_iff in Hfm. destruct Hfm as [Hfm Hex].
          unfold wf_item in Hfm. cbn [fst snd] in Hfm, Hex.
          apply andb_true_iff in Hfm. destruct Hfm as [Hf Hm].
          destruct (wf_msg_inv p0 p1 m Hm) as (Hm8 & Hm32 & [t Hmt] & Hps).
          assert (d' = [p0] \/ exists t', d' = p0 :: p1 :: t') as Hshape.
          { rewrite Hmt in Hs'. destruct d' as [| a [| b d'']]; [congruence | |].
            - cbn [app] in Hs'. injection Hs' as Ha _. left. congruence.
            - cbn [app] in Hs'. injection Hs' as Ha Hb _. right. exists d''. congruence. }
          assert (len d' <= len data) as Hld' by (rewrite Hdd, len_app; lia).
          assert ((if len data =? 1
                   then if Ascii.eqb (hd0 data) p0 then handle_arm p0 p1 largest (on_data_arm p0 p1 largest f) sa data else ADone sa []
                   else match find_preamble p0 p1 data with
                        | None => ADone sa []
                        | Some i => handle_arm p0 p1 largest (on_data_arm p0 p1 largest f) sa (drop i data)
                        end) = handle_arm p0 p1 largest (on_data_arm p0 p1 largest f) sa d') as E.
          { destruct (N.eqb_spec (len data) 1) as [H1 | H1].
            - assert (fl = []) as Hfl.
              { apply len_zero. rewrite Hdd, len_app in H1. apply len_pos in Hd'. lia. }
              subst fl. cbn [app] in Hdd. subst d'.
              destruct Hshape as [-> | [t' ->]]; cbn [hd0 hd]; rewrite Ascii.eqb_refl; reflexivity.
            - unfold find_preamble. rewrite Hdd, (fp_filler p0 p1 fl 0 d' Hf), (fp_hit p0 p1 _ d' Hshape).
              cbn [N.add]. rewrite drop_app_exact. reflexivity. }
          rewrite E.
          destruct (handle_arm_sim p0 p1 largest Hlargest (on_data_arm p0 p1 largest f) sa d') as (sr & Hidle & ->); auto; try lia.
          -- rewrite Hc0. unfold take at 1 2. cbn [N.to_nat firstn app]. intros _ H8 Hov.
             rewrite (payload_size_prefix d' fut m (stream_of items' tail)); auto; try lia.
             apply N.leb_le in Hex. lia.
          -- rewrite Eabs.
             apply (handle_start p0 p1 fits _ d' m items' tail fut); auto; try lia.
             apply (rec_ok_le p0 p1 fits _ _ _ (Hrec sr Hidle)). rewrite Hdd, app_length. lia.
      + (* a message is pending *)
        rewrite <- Egot in *. assert (got <> []) as Hg by (rewrite Egot; discriminate).
        destruct Hr as [Hbuf [(Hg' & _) | (_ & Hrest & Hm & Hreq)]]; [congruence |].
        cbn [abs buf required] in Hbuf, Hreq.
        assert (cnt sa = len got) as Hcg.
        { rewrite <- Hbuf. symmetry. apply len_take. lia. }
        pose proof (len_pos got Hg) as Hgpos. pose proof (len_pos rest Hrest) as Hrpos.
        assert (cnt sa =? 0 = false) as Hcz by (apply N.eqb_neq; lia). rewrite Hcz.
        rewrite (cur_msgs_cons got rest Hg). cbn [app].
        destruct (wf_msg_inv p0 p1 _ Hm) as (Hm8 & Hm32 & [t Hmt] & Hps).
        specialize (Hcur Hg). rewrite len_app in Hm8, Hm32, Hcur.
        destruct (handle_arm_sim p0 p1 largest Hlargest (on_data_arm p0 p1 largest f) sa data) as (sr & Hidle & ->); auto; try lia.
        * intros Hr0. rewrite Hr0 in Hreq. destruct (N.ltb_spec (len got) 8); lia.
        * intros Hr0. destruct (N.ltb_spec (len got) 8); lia.
        * rewrite Hbuf. intros Hr0 H8 Hov.
          rewrite (payload_size_prefix (got ++ data) fut (got ++ rest) (stream_of items tail)); try (rewrite len_app; lia).
          -- rewrite Hps, len_app. lia.
          -- rewrite <- !app_assoc. f_equal. symmetry. exact Hs.
        * apply (handle_mid p0 p1 fits _ (abs sa) got rest data items tail fut (Hrec sr Hidle) Hd); auto; try lia.
          split; [exact Hbuf | right]. cbn [abs required]. auto.
  Qed.
End ArmGood.

Section ArmFeed.
  Variables p0 p1 : byte.
  Variable largest : N.
  Hypothesis Hlargest : largest <= cap.
  Notation fitsm := (fits largest).
  Notation wfx := (wf_items p0 p1 fitsm).

  Lemma wfx_fits items : wfx items -> forallb fitsm (map snd items) = true.
  Proof.
    unfold wf_items. induction items as [| it r IH]; [reflexivity |]. cbn [forallb map].
    rewrite !andb_true_iff. intros [[_ Hf] Hr]. split; [exact Hf | apply IH; exact Hr].
  Qed.

  Lemma feed_arm_good : forall chunks sa got rest items tail fut,
    forallb (chunk_fits largest) chunks = true ->
    cleanb sa = true -> repr p0 p1 (abs sa) got rest -> wfx items -> filler_ok p0 tail = true ->
    forallb fitsm (cur_msgs got rest) = true ->
    rest ++ stream_of items tail = concat chunks ++ fut ->
    exists sa' got' rest' items' tail' ds,
      feed_arm p0 p1 largest sa chunks = ADone sa' ds /\ cleanb sa' = true /\ repr p0 p1 (abs sa') got' rest' /\
      wfx items' /\ filler_ok p0 tail' = true /\ fut = rest' ++ stream_of items' tail' /\
      cur_msgs got rest ++ map snd items = ds ++ cur_msgs got' rest' ++ map snd items'.
  Proof.
    induction chunks as [| c r IH]; intros sa got rest items tail fut Hc Hclean Hr Hi Ht Hcur Hs.
    - cbn [feed_arm concat app] in *. subst fut. exists sa, got, rest, items, tail, [].
      split; [reflexivity |]. split; [assumption |]. split; [assumption |]. split; [assumption |]. split; [assumption |]. split; reflexivity.
    - cbn [forallb] in Hc. apply andb_true_iff in Hc. destruct Hc as [Hc Hcr].
      unfold chunk_fits in Hc. apply N.leb_le in Hc. pose proof cap_eq as Hcap.
      cbn [concat] in Hs. rewrite <- app_assoc in Hs.
      assert (got <> [] -> len (got ++ rest) <= largest) as Hcur'.
      { intros Hg. rewrite (cur_msgs_cons got rest Hg) in Hcur. cbn [forallb] in Hcur.
        apply andb_true_iff in Hcur. destruct Hcur as [Hcur _]. apply N.leb_le. exact Hcur. }
      assert (0 < cnt sa -> len c + cnt sa <= cap) as Hchunk.
      { intros Hpos. destruct Hr as [Hbuf [(Hg & _) | (Hg & Hrest & _)]].
        - exfalso. cbn [abs buf] in Hbuf. apply cleanb_iff in Hclean. destruct Hclean as (_ & Hcc & Hlen).
          assert (len (take (cnt sa) (arr sa)) = cnt sa) as Hl by (apply len_take; lia).
          rewrite Hbuf, Hg, len_nil in Hl. lia.
        - specialize (Hcur' Hg). rewrite len_app in Hcur'. apply len_pos in Hrest.
          cbn [abs buf] in Hbuf. apply cleanb_iff in Hclean. destruct Hclean as (_ & Hcc & Hlen).
          assert (len (take (cnt sa) (arr sa)) = cnt sa) as Hl by (apply len_take; lia).
          rewrite Hbuf in Hl. lia. }
      destruct (on_data_arm_good p0 p1 largest Hlargest (fuel_for c) c sa got rest items tail (concat r ++ fut))
        as (st' & got' & rest' & items' & tail' & ds & Ho & Hr' & Hi' & Ht' & Hf' & Htodo); auto.
      { unfold fuel_for. lia. }
      { lia. }
      destruct (abs_o_done _ _ _ Ho) as (sa' & Hoa & Hclean' & Habs). subst st'.
      cbn [feed_arm]. rewrite Hoa.
      assert (forallb fitsm (cur_msgs got' rest') = true) as Hcur2.
      { assert (forallb fitsm (cur_msgs got rest ++ map snd items) = true) as Hall.
        { rewrite forallb_app, Hcur, (wfx_fits items Hi). reflexivity. }
        rewrite Htodo, !forallb_app, !andb_true_iff in Hall. tauto. }
      destruct (IH sa' got' rest' items' tail' fut Hcr Hclean' Hr' Hi' Ht' Hcur2 (eq_sym Hf'))
        as (sa2 & got2 & rest2 & items2 & tail2 & ds2 & Ho2 & Hc2 & Hr2 & Hi2 & Ht2 & Hf2 & Htodo2).
      rewrite Ho2. exists sa2, got2, rest2, items2, tail2, (ds ++ ds2).
      split; [reflexivity |]. split; [assumption |]. split; [assumption |]. split; [assumption |]. split; [assumption |].
      split; [assumption |]. rewrite Htodo, Htodo2, <- app_assoc. reflexivity.
  Qed.

  Lemma ainit_clean : cleanb ainit = true.
  Proof. reflexivity. Qed.

  (* C14 for the __arm__ configuration *)
  Theorem reassembly_arm_x items tail chunks :
    forallb (wf_item p0 p1) items = true -> forallb (msg_fits largest) items = true -> filler_ok p0 tail = true ->
    forallb (chunk_fits largest) chunks = true ->
    concat chunks = stream_of items tail ->
    exists sa, feed_arm p0 p1 largest ainit chunks = ADone sa (map snd items) /\
               cnt sa = 0 /\ areq sa = 0 /\ exc sa = false.
  Proof.
    intros Hi Hfit Ht Hc Hs.
    assert (wfx items) as Hix.
    { unfold wf_items. clear Hs. induction items as [| it r IH]; [reflexivity |].
      cbn [forallb] in *. apply andb_true_iff in Hi. apply andb_true_iff in Hfit.
      destruct Hi as [H1 H2]. destruct Hfit as [H3 H4]. rewrite H1, IH by assumption.
      unfold msg_fits in H3. unfold fits. rewrite H3. reflexivity. }
    destruct (feed_arm_good chunks ainit [] [] items tail [] Hc ainit_clean) as
      (sa' & got' & rest' & items' & tail' & ds & Ho & Hclean & Hr' & Hi' & Ht' & Hf' & Htodo); auto.
    { apply repr_idle. }
    { cbn [app]. rewrite app_nil_r. symmetry. exact Hs. }
    symmetry in Hf'. apply app_eq_nil in Hf'. destruct Hf' as [Hrest' Hstream'].
    destruct (stream_nil p0 p1 fitsm items' tail' Hi' Hstream') as [-> ->].
    destruct Hr' as [Hbuf [(Hg & _ & Hreq) | (_ & Hne & _)]]; [| congruence].
    rewrite Hg in Hbuf, Htodo. unfold cur_msgs in Htodo. cbn [map app] in Htodo. rewrite ?app_nil_r in Htodo.
    cbn [app] in Htodo. exists sa'. rewrite Ho, Htodo.
    apply cleanb_iff in Hclean. destruct Hclean as (Hexc & Hcc & Hlen).
    cbn [abs buf required] in Hbuf, Hreq.
    assert (len (take (cnt sa') (arr sa')) = cnt sa') as Hl by (apply len_take; lia).
    rewrite Hbuf, len_nil in Hl. repeat split; auto.
  Qed.
End ArmFeed.

Theorem reassembly_arm p0 p1 lms items tail chunks :
  let largest := eff_largest lms in
  forallb (wf_item p0 p1) items = true -> forallb (msg_fits largest) items = true -> filler_ok p0 tail = true ->
  forallb (chunk_fits largest) chunks = true ->
  concat chunks = stream_of items tail ->
  exists sa, feed_arm p0 p1 largest ainit chunks = ADone sa (map snd items) /\
             cnt sa = 0 /\ areq sa = 0 /\ exc sa = false.
Proof. intros largest. apply (reassembly_arm_x p0 p1 largest (eff_largest_le lms)). Qed.
