(* C06: the parts of "same inputs give the same tree" that are statements about the output model, and the closure
   obligations over the source-derived inventories (also used by C05). *)
From Coq Require Import String Ascii List Bool Arith Lia Permutation.
From KV Require Import Lib.Str Lib.ODict Model.PreserveCore Model.Preserve Model.Inventory
                       Gen.Tags Gen.Inventory Gen.Templates
                       Proofs.StrProofs Proofs.PreserveStr Proofs.PreserveTree Proofs.PreserveTop.
Import ListNotations.
Open Scope string_scope.
Open Scope list_scope.

(* ---------------------------------------------------------------- closure of the inventories (finite, source-derived) *)
Lemma fs_mutations_closed : closed scanned_fs_mutations known_fs_mutations = true.
Proof. vm_compute. reflexivity. Qed.

Lemma env_reads_closed : closed scanned_env_reads known_env_reads = true.
Proof. vm_compute. reflexivity. Qed.

Lemma process_state_closed : closed scanned_process_state known_process_state = true.
Proof. vm_compute. reflexivity. Qed.

(* every scanned item really is one of the known ones (the reading of [closed]) *)
Lemma closed_spec scanned known : closed scanned known = true ->
  forall x, In x scanned -> exists y, In y known /\ triple_eqb x y = true.
Proof.
  unfold closed. rewrite forallb_forall. intros H x Hx. specialize (H x Hx).
  apply existsb_exists in H. exact H.
Qed.

(* ---------------------------------------------------------------- clock and platform *)
Definition dt_tag : string := "<<<DATETIME>>>".
Definition pf_tag : string := "<<<PLATFORM>>>".

Definition line_free (l : string) : bool := negb (contains dt_tag l) && negb (contains pf_tag l).

Definition templates_free : bool :=
  forallb (fun set => forallb (fun file => forallb line_free (snd file)) (snd set)) all_templates.

(* the two tag constants are the ones cgen.py declares *)
Lemma dt_pf_tags_are_cgens :
  existsb (fun kv => String.eqb (snd kv) dt_tag) cgen_tags = true /\
  existsb (fun kv => String.eqb (snd kv) pf_tag) cgen_tags = true.
Proof. split; vm_compute; reflexivity. Qed.

Lemma datetime_platform_unused : templates_free = true.
Proof. vm_compute. reflexivity. Qed.

Lemma datetime_platform_unused_spec :
  forall set file l, In set all_templates -> In file (snd set) -> In l (snd file) ->
  contains dt_tag l = false /\ contains pf_tag l = false.
Proof.
  intros set file l Hs Hf Hl. pose proof datetime_platform_unused as H. unfold templates_free in H.
  rewrite forallb_forall in H. specialize (H set Hs). rewrite forallb_forall in H. specialize (H file Hf).
  rewrite forallb_forall in H. specialize (H l Hl). unfold line_free in H.
  apply andb_prop in H as [H1 H2]. apply negb_true_iff in H1, H2. split; assumption.
Qed.

(* ---------------------------------------------------------------- listing order of the template folder *)
Lemma keys_perm {V} (m m' : list (string * V)) : Permutation m m' -> Permutation (keys m) (keys m').
Proof. intros H. unfold keys. apply Permutation_map. exact H. Qed.

Lemma slookup_perm {V} (m m' : list (string * V)) k : Permutation m m' -> NoDup (keys m) -> slookup k m = slookup k m'.
Proof.
  intros H. induction H as [|[k1 v1] l l' H IH|[k1 v1] [k2 v2] l|l l' l'' H1 IH1 H2 IH2]; intros Hnd.
  - reflexivity.
  - simpl. destruct (String.eqb k k1); [reflexivity|]. apply IH. inversion Hnd; assumption.
  - simpl. destruct (String.eqb k k2) eqn:E2, (String.eqb k k1) eqn:E1; try reflexivity.
    apply String.eqb_eq in E1, E2. subst. simpl in Hnd. inversion Hnd as [|? ? Hn _]. exfalso. apply Hn. left; reflexivity.
  - rewrite IH1 by assumption. apply IH2. eapply Permutation_NoDup; [apply keys_perm; exact H1|assumption].
Qed.

Lemma names_ok_perm l l' : Permutation l l' -> names_ok l -> names_ok l'.
Proof.
  intros H [Hnd Hl]. split; [eapply Permutation_NoDup; eassumption|].
  intros a b Ha Hb. apply Hl; eapply Permutation_in; try eassumption; apply Permutation_sym; assumption.
Qed.

(* what is written under every name is the same for any order of the code model *)
Theorem regen_permutation_invariant outdir old (fresh fresh' : cmodel) :
  Permutation fresh fresh' -> names_ok (keys fresh) ->
  (forall k, slookup k (fst (regen outdir old fresh)) = slookup k (fst (regen outdir old fresh')))
  /\ Permutation (keys fresh) (keys fresh').
Proof.
  intros Hp Hn. split; [|apply keys_perm; assumption].
  assert (Hn' : names_ok (keys fresh')) by (eapply names_ok_perm; [apply keys_perm; eassumption|assumption]).
  intros k.
  destruct (in_dec string_dec k (keys fresh)) as [Hin|Hnin].
  - destruct (In_keys_lookup _ _ Hin) as [lines Hl].
    assert (Hl' : slookup k fresh' = Some lines) by (rewrite <- (slookup_perm fresh fresh' k Hp (proj1 Hn)); assumption).
    destruct (regen_lookup outdir old fresh k lines Hn Hl) as [H1 _].
    destruct (regen_lookup outdir old fresh' k lines Hn' Hl') as [H1' _].
    cbv zeta in *. rewrite H1, H1'. reflexivity.
  - destruct (classic_lost k (keys fresh)) as [[fn [Hfn E]]|Hno].
    + subst k. destruct (In_keys_lookup _ _ Hfn) as [lines Hl].
      assert (Hl' : slookup fn fresh' = Some lines) by (rewrite <- (slookup_perm fresh fresh' fn Hp (proj1 Hn)); assumption).
      destruct (regen_lookup outdir old fresh fn lines Hn Hl) as [_ H2].
      destruct (regen_lookup outdir old fresh' fn lines Hn' Hl') as [_ H2'].
      cbv zeta in *. rewrite H2, H2'. reflexivity.
    + unfold regen. rewrite !createoutput_lookup.
      rewrite preserve_files_other by assumption.
      rewrite preserve_files_other; [reflexivity| |].
      * intros Hin. apply Hnin. eapply Permutation_in; [apply Permutation_sym, keys_perm; eassumption|assumption].
      * intros fn Hfn. apply Hno. eapply Permutation_in; [apply Permutation_sym, keys_perm; eassumption|assumption].
Qed.

(* ---------------------------------------------------------------- spelling of the output directory *)
Lemma basename_aux_reset a b : forall cur, basename_aux (a ++ String (chr 47) b) cur = basename_aux b "".
Proof.
  induction a as [|x a IH]; intros cur.
  - simpl. reflexivity.
  - simpl. destruct (Ascii.eqb x (chr 47)); apply IH.
Qed.

Lemma basename_aux_last_slash a b : last_is (chr 47) a = true -> forall cur, basename_aux (a ++ b) cur = basename_aux b "".
Proof.
  induction a as [|x a IH]; [discriminate|]. intros H cur. destruct a as [|y a'].
  - simpl in H. simpl. rewrite H. reflexivity.
  - change (last_is (chr 47) (String x (String y a'))) with (last_is (chr 47) (String y a')) in H.
    change ((String x (String y a') ++ b)%string) with (String x ((String y a') ++ b)%string).
    cbn [basename_aux]. destruct (Ascii.eqb x (chr 47)); apply IH; assumption.
Qed.

(* the label written into LostCode entries does not depend on how the output directory is spelled *)
Lemma basename_join outdir fn : prefixb "/" fn = false -> basename (join outdir fn) = basename fn.
Proof.
  intros Hrel. unfold join, basename. destruct outdir as [|c o]; [reflexivity|]. rewrite Hrel.
  destruct (last_is (chr 47) (String c o)) eqn:E.
  - apply basename_aux_last_slash. assumption.
  - change ((String c o ++ "/" ++ fn)%string) with ((String c o ++ String (chr 47) fn)%string).
    apply basename_aux_reset.
Qed.

Lemma preserve_file_step_outdir o1 o2 old m fn : prefixb "/" fn = false ->
  preserve_file_step o1 old m fn = preserve_file_step o2 old m fn.
Proof.
  intros H. unfold preserve_file_step. destruct (old fn); try reflexivity.
  unfold preserve1. rewrite !basename_join by assumption. reflexivity.
Qed.

(* everything that is written (relative name -> bytes) and the reported list are independent of the spelling *)
Theorem regen_outdir_independent o1 o2 old (fresh : cmodel) :
  (forall fn, In fn (keys fresh) -> prefixb "/" fn = false) ->
  regen o1 old fresh = regen o2 old fresh.
Proof.
  intros H. unfold regen, preserve_files. f_equal.
  assert (G : forall l m, (forall fn, In fn l -> prefixb "/" fn = false) ->
            fold_left (preserve_file_step o1 old) l m = fold_left (preserve_file_step o2 old) l m).
  { induction l as [|x l IH]; intros m Hl; [reflexivity|]. simpl.
    rewrite (preserve_file_step_outdir o1 o2) by (apply Hl; left; reflexivity).
    apply IH. intros; apply Hl; right; assumption. }
  apply G. assumption.
Qed.
