(* C19 semantic read-back: what the object builders must make of the dictionaries of the semantic writer's blobs. *)
From Coq Require Import String Ascii List Bool Arith.
From KV Require Import Lib.Str Lib.ODict Model.Vpp Model.VppWriter Model.Uml Model.UmlBlob Model.UmlWriter Model.UmlSem
                       Proofs.UmlBlobDefs Proofs.UmlBlobStruct.
Import ListNotations.
Open Scope string_scope.

(* GetModelElement finds every element the diagram knows, with its NAME *)
Definition g_names (S : sdiagram) (g : string -> option velem) : Prop :=
  forall id n, name_of S id = Some n -> exists v, g id = Some v /\ ve_name v = n.

(* a class before its namespace is known *)
Definition rclass0 (S : sdiagram) (c : sclass) : rclass := set_ns (rclass_of S c) "".

(* an inheritance before PostProjectParseFix: the ends named by their paths *)
Definition rinh0 (S : sdiagram) (i : sinh) (real : bool) : rinh :=
  {| ri_id := si_id i; ri_real := real; ri_from := type_name S (si_from i); ri_from_id := last (si_from i) "";
     ri_to := type_name S (si_to i); ri_to_id := last (si_to i) "" |}.

Definition goal_param : Prop := forall S g p, g_names S g -> param_ok S p = true ->
  parse_param g (node_pv (tree_of_param p)) = Some (rparam_of S p).
Definition goal_op : Prop := forall S g o, g_names S g -> op_ok S o = true ->
  parse_operation g (node_pv (tree_of_op o)) = Some (rop_of S o).
Definition goal_attr : Prop := forall S g a, g_names S g -> attr_ok S a = true ->
  parse_attribute g (node_pv (tree_of_attr a)) = Some (rattr_of S a).
Definition goal_class : Prop := forall S g (P : velem -> option UmlBlob.pv) v c, g_names S g -> class_ok S c = true ->
  P v = Some (top_pv (tree_of_class c)) -> ve_id v = sc_id c -> ve_name v = sc_name c ->
  parse_class g P v = Some (rclass0 S c).
Definition goal_package : Prop := forall S (P : velem -> option UmlBlob.pv) v p, package_ok S p = true ->
  P v = Some (top_pv (tree_of_package p)) -> ve_id v = sk_id p -> ve_name v = sk_name p ->
  parse_package P v = Some (rpackage_of p).
Definition goal_inh : Prop := forall S g (P : velem -> option UmlBlob.pv) v i real, g_names S g -> inh_ok S i = true ->
  P v = Some (top_pv (tree_of_inh i)) -> ve_id v = si_id i ->
  parse_inheritance g P v real = Some (rinh0 S i real).
Definition goal_assoc : Prop := forall S g (P : velem -> option UmlBlob.pv) v x, g_names S g -> assoc_ok S x = true ->
  P v = Some (top_pv_c (tree_of_assoc x)) -> ve_id v = sx_id x -> ve_name v = ostr (sx_name x) ->
  parse_association g P v = Some (rassoc_of S x).
