(* Proofs about Model/PreserveCore.v over abstract lines. *)
From Coq Require Import List Bool Lia.
From KV Require Import Lib.ODict Model.PreserveCore.
Import ListNotations.

Section Proofs.
  Context {line key : Type}.
  Variable keqb : key -> key -> bool.
  Hypothesis keqb_spec : forall a b, keqb a b = true <-> a = b.
  Variable T : line -> line.
  Variable is_tag : line -> bool.
  Variable kof : line -> key.
  Variable sub_of : key -> line -> bool.
  Variable kpfx : key -> bool.
  Variable vis : line -> list line.
  Variable nl : line -> line.
  Variable key_line : key -> line.
  Variable path_line sep_line : line.

  Notation tags := (list (key * list line)).
  Notation lookup := (lookup keqb).
  Notation upsert := (upsert keqb).
  Notation memk := (memk keqb).

  (* ---------------------------------------------------------------- basic dictionary facts *)
  Lemma keqb_refl k : keqb k k = true.
  Proof. apply keqb_spec; reflexivity. Qed.

  Lemma keqb_neq a b : a <> b -> keqb a b = false.
  Proof. intros H; destruct (keqb a b) eqn:E; [apply keqb_spec in E; contradiction|reflexivity]. Qed.

  Lemma memk_In k ks : memk k ks = true <-> In k ks.
  Proof.
    unfold PreserveCore.memk. rewrite existsb_exists. split.
    - intros [x [Hx Hk]]. apply keqb_spec in Hk. subst; assumption.
    - intros H; exists k; split; [assumption|apply keqb_refl].
  Qed.

  Lemma memk_false k ks : memk k ks = false <-> ~ In k ks.
  Proof.
    rewrite <- memk_In. destruct (memk k ks); split; intros H.
    - discriminate.
    - exfalso; apply H; reflexivity.
    - intros H1; discriminate.
    - reflexivity.
  Qed.

  Lemma lookup_None k (d : tags) : lookup k d = None <-> ~ In k (keys d).
  Proof.
    induction d as [|[k' v] d IH]; simpl; [tauto|].
    destruct (keqb k k') eqn:E.
    - apply keqb_spec in E; subst. split; [discriminate|intros H; exfalso; apply H; left; reflexivity].
    - rewrite IH. split; intros H.
      + intros [H1|H1]; [subst; rewrite keqb_refl in E; discriminate|auto].
      + intros H1; apply H; right; assumption.
  Qed.

  Lemma lookup_Some_In k v (d : tags) : lookup k d = Some v -> In k (keys d).
  Proof.
    induction d as [|[k' v'] d IH]; simpl; [discriminate|].
    destruct (keqb k k') eqn:E.
    - apply keqb_spec in E; subst. intros _. left; reflexivity.
    - intros H; right; apply IH; assumption.
  Qed.

  Lemma upsert_notin k v (d : tags) : ~ In k (keys d) -> upsert k v d = d ++ [(k, v)].
  Proof.
    induction d as [|[k' v'] d IH]; simpl; intros H; [reflexivity|].
    destruct (keqb k k') eqn:E.
    - apply keqb_spec in E; subst; exfalso; apply H; left; reflexivity.
    - rewrite IH; [reflexivity|]. intros H1; apply H; right; assumption.
  Qed.

  Lemma lookup_app k (d1 d2 : tags) :
    lookup k (d1 ++ d2) = match lookup k d1 with Some v => Some v | None => lookup k d2 end.
  Proof.
    induction d1 as [|[k' v'] d1 IH]; simpl; [reflexivity|].
    destruct (keqb k k'); [reflexivity|apply IH].
  Qed.

  (* ---------------------------------------------------------------- structured files *)
  Notation item := (item line).
  Notation flatten := (@flatten line).
  Notation disk := (disk T kof vis).
  Notation written_items := (written_items T kof).
  Notation pair_keys := (pair_keys kof).

  Definition collected (U : key -> list line) (I : list item) : tags :=
    map (fun k => (k, U k)) (pair_keys I).

  Lemma keys_collected U I : keys (collected U I) = pair_keys I.
  Proof. unfold collected, keys. rewrite map_map. simpl. apply map_id. Qed.

  (* well-formedness of a fresh file (all conditions are boolean and evaluated on every real run) *)
  Definition wf_item (it : item) : Prop :=
    match it with
    | Plain l => (forall x, In x (vis l) -> is_tag x = false) /\ kpfx (kof l) = false
    | Pair o c => is_tag (T o) = true /\ is_tag (T c) = true /\
                  kof (T o) = kof o /\ kof c = kof o /\ kpfx (kof o) = true
    end.

  Definition wf (I : list item) : Prop := Forall wf_item I /\ NoDup (pair_keys I).

  Definition user_ok (U : key -> list line) : Prop :=
    forall k l, In l (U k) -> is_tag l = false.

  (* ---------------------------------------------------------------- CollectFile *)
  Notation cfrom := (collect_from keqb is_tag kof).
  Notation cstep := (collect_step keqb is_tag kof).

  Lemma cfrom_cons s l r : cfrom s (l :: r) = cfrom (cstep s l) r.
  Proof. reflexivity. Qed.

  Lemma cfrom_app s a b : cfrom s (a ++ b) = cfrom (cfrom s a) b.
  Proof. unfold collect_from. apply fold_left_app. Qed.

  Lemma step_plain k acc l : is_tag l = false -> cstep (mkC false k [] acc) l = mkC false k [] acc.
  Proof. intros H. unfold collect_step. simpl. rewrite H. reflexivity. Qed.

  Lemma step_open k cur acc l : is_tag l = true -> cstep (mkC false k cur acc) l = mkC true (kof l) [] acc.
  Proof. intros H. unfold collect_step. simpl. rewrite H. reflexivity. Qed.

  Lemma step_close k cur acc l : is_tag l = true ->
    cstep (mkC true k cur acc) l = mkC false k [] (upsert k cur acc).
  Proof. intros H. unfold collect_step. simpl. rewrite H. reflexivity. Qed.

  Lemma step_body k cur acc l : is_tag l = false -> cstep (mkC true k cur acc) l = mkC true k (cur ++ [l]) acc.
  Proof. intros H. unfold collect_step. simpl. rewrite H. reflexivity. Qed.

  Lemma collect_block (B : list line) k acc : (forall l, In l B -> is_tag l = false) ->
    forall cur, cfrom (mkC true k cur acc) B = mkC true k (cur ++ B) acc.
  Proof.
    induction B as [|l B IH]; intros HB cur.
    - simpl. rewrite app_nil_r. reflexivity.
    - rewrite cfrom_cons, step_body by (apply HB; left; reflexivity).
      rewrite IH by (intros; apply HB; right; assumption).
      rewrite <- app_assoc. reflexivity.
  Qed.

  Lemma disk_pair U o c I : disk U (Pair o c :: I) = T o :: (U (kof o) ++ T c :: disk U I).
  Proof. unfold disk. simpl. rewrite <- app_assoc. reflexivity. Qed.

  Lemma disk_plain U l I : disk U (Plain l :: I) = vis l ++ disk U I.
  Proof. reflexivity. Qed.

  Lemma collect_plain_lines (B : list line) k acc : (forall l, In l B -> is_tag l = false) ->
    cfrom (mkC false k [] acc) B = mkC false k [] acc.
  Proof.
    induction B as [|l B IH]; intros HB; [reflexivity|].
    rewrite cfrom_cons, step_plain by (apply HB; left; reflexivity).
    apply IH. intros; apply HB; right; assumption.
  Qed.

  Lemma collect_disk U I : Forall wf_item I -> user_ok U ->
    forall k0 acc, (forall k, In k (pair_keys I) -> ~ In k (keys acc)) -> NoDup (pair_keys I) ->
    exists k1, cfrom (mkC false k0 [] acc) (disk U I) = mkC false k1 [] (acc ++ collected U I).
  Proof.
    intros Hwf HU. induction Hwf as [|it I Hit Hwf IH]; intros k0 acc Hdisj Hnd.
    - exists k0. simpl. rewrite app_nil_r. reflexivity.
    - destruct it as [l|o c].
      + destruct Hit as [H1 H2]. rewrite disk_plain, cfrom_app, collect_plain_lines by assumption.
        apply IH; assumption.
      + destruct Hit as (Ho & Hc & Hko & Hkc & Hp).
        simpl in Hnd. inversion Hnd as [|? ? Hnotin Hnd']; subst.
        rewrite disk_pair, cfrom_cons, step_open by assumption.
        rewrite cfrom_app, collect_block by (apply HU).
        rewrite cfrom_cons, step_close by assumption. simpl app.
        rewrite Hko.
        rewrite upsert_notin by (apply Hdisj; left; reflexivity).
        destruct (IH (kof o) (acc ++ [(kof o, U (kof o))])) as [k1 Hk1].
        * intros k Hk. unfold keys. rewrite map_app. simpl. intros Hin. apply in_app_or in Hin.
          destruct Hin as [Hin|[Hin|[]]].
          -- apply (Hdisj k); [right; assumption|assumption].
          -- subst. contradiction.
        * assumption.
        * exists k1. rewrite Hk1. unfold collected. simpl. rewrite <- app_assoc. reflexivity.
  Qed.

  Theorem collect_file_disk U I k0 : wf I -> user_ok U ->
    collect_file keqb is_tag kof k0 (disk U I) = collected U I.
  Proof.
    intros [Hwf Hnd] HU. unfold collect_file.
    destruct (collect_disk U I Hwf HU k0 [] (fun _ _ H => H) Hnd) as [k1 H].
    rewrite H. reflexivity.
  Qed.

  (* ---------------------------------------------------------------- Emplace, non-replace mode *)
  Definition body (tg : tags) (k : key) : list line :=
    match lookup k tg with Some b => b | None => [] end.

  Definition emplaced (tg : tags) (I : list item) : list line :=
    flat_map (fun it => match it with
                        | Plain l => [l]
                        | Pair o c => o :: body tg (kof o) ++ [c]
                        end) I.

  Fixpoint used_keys (tg : tags) (I : list item) : list key :=
    match I with
    | [] => []
    | Plain _ :: r => used_keys tg r
    | Pair o _ :: r => (if ODict.mem keqb (kof o) tg then [kof o] else []) ++ used_keys tg r
    end.

  (* fresh-side well-formedness: what Emplace needs of the lines it scans *)
  Definition wf_fresh_item (it : item) : Prop :=
    match it with
    | Plain l => kpfx (kof l) = false
    | Pair o c => kof c = kof o
    end.

  Definition keys_pfx (tg : tags) : Prop := forall k, In k (keys tg) -> kpfx k = true.

  Notation estep := (emplace_step keqb kof sub_of kpfx).

  Lemma estep_none tg f tl out used l : lookup (kof l) tg = None ->
    estep false tg (mkE f tl out used) l = mkE f tl (out ++ [l]) used.
  Proof. intros H. unfold emplace_step. simpl. rewrite H. reflexivity. Qed.

  Lemma estep_open tg tl out used l b : lookup (kof l) tg = Some b ->
    estep false tg (mkE false tl out used) l = mkE true (Some l) ((out ++ [l]) ++ b) (used ++ [kof l]).
  Proof. intros H. unfold emplace_step. simpl. rewrite H. reflexivity. Qed.

  Lemma estep_close tg tl out used l b : lookup (kof l) tg = Some b ->
    estep false tg (mkE true tl out used) l = mkE false None (out ++ [l]) used.
  Proof. intros H. unfold emplace_step. simpl. rewrite H. reflexivity. Qed.

  Lemma emplace_items tg I : Forall wf_fresh_item I -> keys_pfx tg ->
    forall tl out used, exists tl',
    fold_left (estep false tg) (flatten I) (mkE false tl out used)
    = mkE false tl' (out ++ emplaced tg I) (used ++ used_keys tg I).
  Proof.
    intros Hwf Hk. induction Hwf as [|it I Hit Hwf IH]; intros tl out used.
    - exists tl. simpl. rewrite !app_nil_r. reflexivity.
    - destruct it as [l|o c].
      + assert (Hl : lookup (kof l) tg = None).
        { apply lookup_None. intros Hin. apply Hk in Hin. simpl in Hit. congruence. }
        change (flatten (Plain l :: I)) with (l :: flatten I).
        cbn [fold_left]. rewrite estep_none by assumption.
        destruct (IH tl (out ++ [l]) used) as [tl' H]. exists tl'. rewrite H.
        change (emplaced tg (Plain l :: I)) with ([l] ++ emplaced tg I).
        rewrite <- app_assoc. reflexivity.
      + simpl in Hit.
        change (flatten (Pair o c :: I)) with (o :: c :: flatten I).
        change (emplaced tg (Pair o c :: I)) with ((o :: body tg (kof o) ++ [c]) ++ emplaced tg I).
        cbn [fold_left used_keys]. unfold body, ODict.mem.
        destruct (lookup (kof o) tg) as [b|] eqn:El.
        * rewrite (estep_open tg tl out used o b El).
          rewrite (estep_close tg (Some o) _ (used ++ [kof o]) c b) by (rewrite Hit; assumption).
          destruct (IH None (((out ++ [o]) ++ b) ++ [c]) (used ++ [kof o])) as [tl' H]. exists tl'.
          rewrite H. f_equal.
          -- rewrite <- !app_assoc. simpl. rewrite <- app_assoc. reflexivity.
          -- rewrite <- app_assoc. reflexivity.
        * rewrite (estep_none tg false tl out used o El).
          rewrite (estep_none tg false tl _ used c) by (rewrite Hit; assumption).
          destruct (IH tl ((out ++ [o]) ++ [c]) used) as [tl' H]. exists tl'.
          rewrite H. f_equal. rewrite <- !app_assoc. reflexivity.
  Qed.

  Theorem emplace_lines_items tg I : Forall wf_fresh_item I -> keys_pfx tg ->
    emplace_lines keqb kof sub_of kpfx false tg (flatten I) = (emplaced tg I, used_keys tg I).
  Proof.
    intros Hwf Hk. unfold emplace_lines.
    destruct (emplace_items tg I Hwf Hk None [] []) as [tl' H]. rewrite H. reflexivity.
  Qed.

  Lemma used_keys_spec tg I k : In k (used_keys tg I) <-> In k (pair_keys I) /\ In k (keys tg).
  Proof.
    induction I as [|[l|o c] I IH]; simpl.
    - tauto.
    - exact IH.
    - rewrite in_app_iff, IH. unfold ODict.mem.
      destruct (lookup (kof o) tg) as [b|] eqn:El; simpl.
      + apply lookup_Some_In in El. split.
        * intros [[H|[]]|[H1 H2]]; [subst; auto|auto].
        * intros [[H|H] H2]; [left; left; assumption|right; auto].
      + apply lookup_None in El. split.
        * intros [[]|[H1 H2]]; auto.
        * intros [[H|H] H2]; [subst; contradiction|right; auto].
  Qed.

  (* ---------------------------------------------------------------- LostCode *)
  Notation lost_code := (lost_code keqb nl key_line path_line sep_line).
  Notation lost_entry := (lost_entry nl key_line path_line sep_line).

  Lemma lost_code_all_used used (tg : tags) :
    (forall k, In k (keys tg) -> In k used) -> lost_code used tg = [].
  Proof.
    induction tg as [|[k b] tg IH]; simpl; intros H; [reflexivity|].
    assert (Hm : memk k used = true) by (apply memk_In; apply H; left; reflexivity).
    rewrite Hm. simpl. apply IH. intros k' Hk'. apply H. right. assumption.
  Qed.

  (* the LostCode pseudo-file is exactly the concatenation, in collection order, of the entries of the
     tags that were not used and are not empty *)
  Definition is_lost (used : list key) (kb : key * list line) : bool :=
    negb (memk (fst kb) used) && match snd kb with [] => false | _ => true end.

  Lemma lost_code_spec used (tg : tags) :
    lost_code used tg = flat_map (fun kb => lost_entry (fst kb) (snd kb)) (filter (is_lost used) tg).
  Proof.
    induction tg as [|[k b] tg IH]; simpl; [reflexivity|].
    unfold is_lost at 1. simpl. destruct (memk k used); simpl; [exact IH|].
    destruct b as [|l b]; simpl; [exact IH|]. rewrite IH. reflexivity.
  Qed.

  (* ---------------------------------------------------------------- one regeneration of one file *)
  Notation regen_one := (regen_one keqb T is_tag kof sub_of kpfx nl key_line path_line sep_line).
  Notation preserve_one := (preserve_one keqb is_tag kof sub_of kpfx nl key_line path_line sep_line).

  Lemma wf_keys_pfx U I : Forall wf_item I -> keys_pfx (collected U I).
  Proof.
    intros Hwf k Hk. rewrite keys_collected in Hk.
    induction Hwf as [|it I Hit Hwf IH]; simpl in Hk; [contradiction|].
    destruct it as [l|o c]; [auto|]. destruct Hk as [Hk|Hk]; [|auto].
    subst. apply Hit.
  Qed.

  Lemma wf_item_fresh it : wf_item it -> wf_fresh_item it.
  Proof. destruct it; simpl; tauto. Qed.

  Lemma body_collected U I k : NoDup (pair_keys I) ->
    body (collected U I) k = if memk k (pair_keys I) then U k else [].
  Proof.
    intros _. unfold body, collected.
    induction (pair_keys I) as [|k' ks IH]; simpl; [reflexivity|].
    destruct (keqb k k') eqn:E; simpl.
    - apply keqb_spec in E; subst; reflexivity.
    - exact IH.
  Qed.

  Lemma disk_ext U1 U2 I : (forall k, In k (pair_keys I) -> U1 k = U2 k) -> disk U1 I = disk U2 I.
  Proof.
    induction I as [|[l|o c] I IH]; simpl; intros H; [reflexivity| |].
    - rewrite IH by assumption. reflexivity.
    - rewrite (H (kof o)) by (left; reflexivity). rewrite IH; [reflexivity|].
      intros k Hk. apply H. right; assumption.
  Qed.

  Lemma written_ext U1 U2 I : (forall k, In k (pair_keys I) -> U1 k = U2 k) -> written_items U1 I = written_items U2 I.
  Proof.
    induction I as [|[l|o c] I IH]; simpl; intros H; [reflexivity| |].
    - rewrite IH by assumption. reflexivity.
    - rewrite (H (kof o)) by (left; reflexivity). rewrite IH; [reflexivity|].
      intros k Hk. apply H. right; assumption.
  Qed.

  Lemma written_emplaced tg I' : map T (emplaced tg I') = written_items (fun k => map T (body tg k)) I'.
  Proof.
    unfold emplaced, PreserveCore.written_items. induction I' as [|[l|o c] I' IH].
    - reflexivity.
    - cbn [flat_map]. rewrite map_app, IH. reflexivity.
    - cbn [flat_map]. rewrite map_app, IH. f_equal. cbn [map]. rewrite map_app. reflexivity.
  Qed.

  Lemma map_T_fixed (B : list line) : (forall l, In l B -> T l = l) -> map T B = B.
  Proof.
    induction B as [|x xs IH]; simpl; intros H; [reflexivity|].
    rewrite H by (left; reflexivity). f_equal. apply IH. intros l Hl. apply H. right; assumption.
  Qed.

  (* C02 core: the old disk content [disk U I] (model I, blocks U) regenerated with the fresh file
     [flatten I'] gives the fresh file with each old block under the tag of the same cleaned name,
     and the LostCode pseudo-file holds exactly the non-empty blocks whose tag vanished. *)
  Theorem regen_evolution U I I' k0 :
    wf I -> user_ok U -> Forall wf_fresh_item I' ->
    (forall k l, In l (U k) -> T l = l) ->
    regen_one k0 (flatten I') (disk U I)
    = (written_items (fun k => if memk k (pair_keys I) then U k else []) I',
       map T (flat_map (fun kb => lost_entry (fst kb) (snd kb))
                (filter (is_lost (used_keys (collected U I) I')) (collected U I)))).
  Proof.
    intros HwfI HU HwfI' HT. unfold PreserveCore.regen_one, PreserveCore.preserve_one.
    rewrite (collect_file_disk U I k0 HwfI HU).
    rewrite (emplace_lines_items (collected U I) I' HwfI' (wf_keys_pfx U I (proj1 HwfI))).
    f_equal.
    - unfold written. rewrite written_emplaced. apply written_ext. intros k _.
      rewrite (body_collected U I k (proj2 HwfI)).
      destruct (memk k (pair_keys I)); [|reflexivity]. apply map_T_fixed. apply HT.
    - unfold written. rewrite lost_code_spec. reflexivity.
  Qed.

  (* C01 core: regenerating with the same fresh file is the identity on the disk content and
     produces no LostCode. *)
  Theorem regen_fixed_point U I k0 :
    wf I -> user_ok U -> (forall k l, In l (U k) -> T l = l) ->
    regen_one k0 (flatten I) (disk U I) = (written_items U I, []).
  Proof.
    intros HwfI HU HT.
    rewrite (regen_evolution U I I k0 HwfI HU (Forall_impl _ wf_item_fresh (proj1 HwfI)) HT).
    f_equal.
    - apply written_ext. intros k Hk. apply memk_In in Hk. rewrite Hk. reflexivity.
    - assert (Hf : forall tg, (forall kb, In kb tg -> In kb (collected U I)) ->
                   filter (is_lost (used_keys (collected U I) I)) tg = []).
      { induction tg as [|[k b] tg IHtg]; intros Hsub; [reflexivity|].
        cbn [filter]. unfold is_lost at 1. cbn [fst snd].
        assert (Hk : In k (keys (collected U I))).
        { apply in_map_iff. exists (k, b). split; [reflexivity|apply Hsub; left; reflexivity]. }
        assert (Hu : In k (used_keys (collected U I) I)).
        { apply used_keys_spec. split; [|assumption]. rewrite keys_collected in Hk. assumption. }
        apply memk_In in Hu. rewrite Hu. cbn [negb andb].
        apply IHtg. intros kb Hkb. apply Hsub. right; assumption. }
      rewrite Hf by auto. reflexivity.
  Qed.

  (* ---------------------------------------------------------------- Emplace, replace mode (FileSync) *)
  (* the destination file: plain lines and tag pairs WITH their bodies *)
  Inductive bitem := BPlain (l : line) | BBlock (o : line) (b : list line) (c : line).

  Definition bflatten (B : list bitem) : list line :=
    flat_map (fun it => match it with BPlain l => [l] | BBlock o b c => o :: b ++ [c] end) B.

  (* the specification of the synchronisation: bodies of shared pairs replaced, everything else verbatim *)
  Definition synced (tg : tags) (B : list bitem) : list line :=
    flat_map (fun it => match it with
                        | BPlain l => [l]
                        | BBlock o b c => match lookup (kof o) tg with
                                          | Some a => o :: a ++ [c]
                                          | None => o :: b ++ [c]
                                          end
                        end) B.

  Definition wf_bitem (tg : tags) (it : bitem) : Prop :=
    match it with
    | BPlain l => kpfx (kof l) = false
    | BBlock o b c => kof c = kof o /\ (forall l, In l b -> kpfx (kof l) = false) /\
                      (ODict.mem keqb (kof o) tg = true -> sub_of (kof c) o = true /\ kpfx (kof c) = true)
    end.

  Lemma lookup_nopfx tg l : keys_pfx tg -> kpfx (kof l) = false -> lookup (kof l) tg = None.
  Proof. intros Hk Hl. apply lookup_None. intros Hin. apply Hk in Hin. congruence. Qed.

  Lemma rstep_none tg f tl out used l : lookup (kof l) tg = None ->
    estep true tg (mkE f tl out used) l
    = mkE f tl (if negb f || (match tl with Some t => sub_of (kof l) t | None => false end) && kpfx (kof l)
                then out ++ [l] else out) used.
  Proof. intros H. unfold emplace_step. cbn [e_found e_tagline e_out e_used]. rewrite H. reflexivity. Qed.

  Lemma rfold_skip tg o out used (b : list line) : keys_pfx tg ->
    (forall l, In l b -> kpfx (kof l) = false) ->
    fold_left (estep true tg) b (mkE true (Some o) out used) = mkE true (Some o) out used.
  Proof.
    intros Hk. induction b as [|l b IH]; intros Hb; [reflexivity|]. cbn [fold_left].
    rewrite rstep_none by (apply lookup_nopfx; [assumption|apply Hb; left; reflexivity]).
    rewrite (Hb l (or_introl eq_refl)). cbn [negb orb andb]. rewrite andb_false_r.
    apply IH. intros; apply Hb; right; assumption.
  Qed.

  Lemma rfold_keep tg tl out used (b : list line) : keys_pfx tg ->
    (forall l, In l b -> kpfx (kof l) = false) ->
    fold_left (estep true tg) b (mkE false tl out used) = mkE false tl (out ++ b) used.
  Proof.
    intros Hk. revert out. induction b as [|l b IH]; intros out Hb; [rewrite app_nil_r; reflexivity|].
    cbn [fold_left].
    rewrite rstep_none by (apply lookup_nopfx; [assumption|apply Hb; left; reflexivity]).
    cbn [negb orb]. rewrite IH by (intros; apply Hb; right; assumption).
    rewrite <- app_assoc. reflexivity.
  Qed.

  Lemma sync_items tg B : keys_pfx tg -> Forall (wf_bitem tg) B ->
    forall tl out used, exists tl' used',
    fold_left (estep true tg) (bflatten B) (mkE false tl out used) = mkE false tl' (out ++ synced tg B) used'.
  Proof.
    intros Hk Hwf. induction Hwf as [|it B Hit Hwf IH]; intros tl out used.
    - exists tl, used. simpl. rewrite app_nil_r. reflexivity.
    - destruct it as [l|o b c].
      + change (bflatten (BPlain l :: B)) with (l :: bflatten B).
        change (synced tg (BPlain l :: B)) with ([l] ++ synced tg B).
        cbn [fold_left]. simpl in Hit.
        rewrite rstep_none by (apply lookup_nopfx; assumption). cbn [negb orb].
        destruct (IH tl (out ++ [l]) used) as [tl' [used' H]]. exists tl', used'. rewrite H.
        rewrite <- app_assoc. reflexivity.
      + destruct Hit as (Hkc & Hb & Hshared).
        replace (bflatten (BBlock o b c :: B)) with ((o :: b) ++ c :: bflatten B)
          by (unfold bflatten; simpl; rewrite <- app_assoc; reflexivity).
        rewrite fold_left_app. cbn [fold_left]. unfold ODict.mem in Hshared.
        destruct (lookup (kof o) tg) as [a|] eqn:El.
        * destruct (Hshared eq_refl) as [Hs Hp].
          assert (E1 : estep true tg (mkE false tl out used) o = mkE true (Some o) ((out ++ [o]) ++ a) (used ++ [kof o])).
          { unfold emplace_step. cbn [e_found e_tagline e_out e_used]. rewrite El. reflexivity. }
          rewrite E1. rewrite rfold_skip by assumption.
          assert (E2 : estep true tg (mkE true (Some o) ((out ++ [o]) ++ a) (used ++ [kof o])) c
                       = mkE false None (((out ++ [o]) ++ a) ++ [c]) (used ++ [kof o])).
          { unfold emplace_step. cbn [e_found e_tagline e_out e_used]. rewrite Hkc, El.
            rewrite <- Hkc, Hs, Hp. reflexivity. }
          rewrite E2.
          destruct (IH None ((((out ++ [o]) ++ a) ++ [c])) (used ++ [kof o])) as [tl' [used' H]].
          exists tl', used'. rewrite H. f_equal.
          change (synced tg (BBlock o b c :: B)) with
            ((match lookup (kof o) tg with Some a => o :: a ++ [c] | None => o :: b ++ [c] end) ++ synced tg B).
          rewrite El. rewrite <- !app_assoc. cbn [app]. rewrite <- ?app_assoc. reflexivity.
        * assert (E1 : estep true tg (mkE false tl out used) o = mkE false tl (out ++ [o]) used).
          { rewrite rstep_none by assumption. reflexivity. }
          rewrite E1. rewrite rfold_keep by assumption.
          assert (E2 : estep true tg (mkE false tl ((out ++ [o]) ++ b) used) c = mkE false tl (((out ++ [o]) ++ b) ++ [c]) used).
          { rewrite rstep_none by (rewrite Hkc; assumption). reflexivity. }
          rewrite E2.
          destruct (IH tl ((((out ++ [o]) ++ b) ++ [c])) used) as [tl' [used' H]].
          exists tl', used'. rewrite H. f_equal.
          change (synced tg (BBlock o b c :: B)) with
            ((match lookup (kof o) tg with Some a => o :: a ++ [c] | None => o :: b ++ [c] end) ++ synced tg B).
          rewrite El. rewrite <- !app_assoc. cbn [app]. rewrite <- ?app_assoc. reflexivity.
  Qed.

  (* C18 core *)
  Theorem sync_spec tg B : keys_pfx tg -> Forall (wf_bitem tg) B ->
    fst (emplace_lines keqb kof sub_of kpfx true tg (bflatten B)) = synced tg B.
  Proof.
    intros Hk Hwf. unfold emplace_lines.
    destruct (sync_items tg B Hk Hwf None [] []) as [tl' [used' H]]. rewrite H. reflexivity.
  Qed.

  (* idempotence: the synchronised destination, re-read as items, is a fixed point of the synchronisation *)
  Definition resync (tg : tags) (B : list bitem) : list bitem :=
    map (fun it => match it with
                   | BPlain l => BPlain l
                   | BBlock o b c => BBlock o (match lookup (kof o) tg with Some a => a | None => b end) c
                   end) B.

  Lemma bflatten_resync tg B : bflatten (resync tg B) = synced tg B.
  Proof.
    unfold bflatten, synced, resync. induction B as [|[l|o b c] B IH]; cbn [map flat_map]; [reflexivity| |].
    - rewrite IH. reflexivity.
    - rewrite IH. destruct (lookup (kof o) tg); reflexivity.
  Qed.

  Lemma synced_resync tg B : synced tg (resync tg B) = synced tg B.
  Proof.
    unfold synced, resync. induction B as [|[l|o b c] B IH]; cbn [map flat_map]; [reflexivity| |].
    - rewrite IH. reflexivity.
    - rewrite IH. destruct (lookup (kof o) tg); reflexivity.
  Qed.

  Definition bodies_ok (tg : tags) : Prop :=
    forall k a, lookup k tg = Some a -> forall l, In l a -> kpfx (kof l) = false.

  Lemma wf_resync tg B : bodies_ok tg -> Forall (wf_bitem tg) B -> Forall (wf_bitem tg) (resync tg B).
  Proof.
    intros Hb Hwf. unfold resync. apply Forall_forall. intros it Hit. apply in_map_iff in Hit as [it0 [E Hin]].
    rewrite Forall_forall in Hwf. specialize (Hwf it0 Hin). subst it.
    destruct it0 as [l|o b c]; [exact Hwf|]. destruct Hwf as (H1 & H2 & H3). split; [assumption|]. split; [|assumption].
    destruct (lookup (kof o) tg) as [a|] eqn:El; [apply (Hb _ _ El)|assumption].
  Qed.
End Proofs.
