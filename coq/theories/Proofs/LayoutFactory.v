(* C12 -- clauses "defaults" and "arguments": what the generated factories return. *)
From Coq Require Import String Ascii List Bool NArith ZArith Lia.
From KV Require Import Model.CValue Model.Layout Model.ProtoLang Spec.LayoutSpec
                       Proofs.LayoutBasics Proofs.LayoutEnv Proofs.LayoutPacked.
Import ListNotations.
Open Scope list_scope.

(* the initialiser GetFactoryCreateParams/_processDefaults renders for a member *)
Definition dinit (m : member) : init := if has_default m then process_defaults m else IList [].

(* deep well-formedness w.r.t. the final environment *)
Fixpoint deep_ok (E : env) (m : member) : Prop :=
  match m with
  | MPrim _ p (Some d) => (String.eqb d "" || lit_ok p d) = true
  | MPrim _ _ None => True
  | MStruct _ sn ms =>
      lookup sn E = Some (minfo ms) /\ prim_of_name sn = None /\ ms <> []
      /\ (fix go (l : list member) : Prop := match l with [] => True | x :: r => deep_ok E x /\ go r end) ms
  end.

Lemma deep_ok_struct : forall E n sn ms,
  deep_ok E (MStruct n sn ms) <->
  lookup sn E = Some (minfo ms) /\ prim_of_name sn = None /\ ms <> [] /\ Forall (deep_ok E) ms.
Proof.
  intros. cbn [deep_ok].
  assert (G : forall l, (fix go (l : list member) : Prop := match l with [] => True | x :: r => deep_ok E x /\ go r end) l
                        <-> Forall (deep_ok E) l).
  { induction l as [|x r IH]; [split; [constructor | trivial]|].
    split; [intros [A B]; constructor; [assumption | now apply IH] | intros F; inversion F; subst; split; [assumption | now apply IH]]. }
  rewrite G. tauto.
Qed.

(* ---------------------------------------------------------------- unfolding agg_init *)
Lemma agg_init_struct : forall E v ty xs si,
  prim_of_name ty = None -> lookup ty E = Some si ->
  agg_init E v ty (IList xs) = init_fields (agg_init E v) (si_size si) xs (si_fields si) 0.
Proof. intros E v ty xs si P L. cbn [agg_init]. rewrite P, L. reflexivity. Qed.

Lemma agg_init_prim_zero : forall E v p, agg_init E v (prim_name p) (IList []) = Some (zeros (prim_size p)).
Proof. intros. cbn [agg_init]. now rewrite prim_of_name_name. Qed.

Lemma agg_init_prim_lit : forall E v p d, agg_init E v (prim_name p) (ILit d) = conv p (parse_lit d).
Proof. intros. cbn [agg_init]. now rewrite prim_of_name_name. Qed.

Lemma agg_init_var : forall E v ty x b, lookup x v = Some (ty, b) -> agg_init E v ty (IVar x) = Some b.
Proof. intros E v ty x b L. cbn [agg_init]. rewrite L, String.eqb_refl. reflexivity. Qed.

(* ---------------------------------------------------------------- members back to back *)
Lemma init_fields_defaults : forall rec ms off total,
  Forall (fun m => rec (mem_ty m) (dinit m) = Some (default_bytes m)) ms ->
  total = (off + ms_size ms)%N ->
  init_fields rec total (map dinit ms) (packed_fields off (map member_triple ms)) off
  = Some (concat (map default_bytes ms)).
Proof.
  intros rec ms. induction ms as [|m r IH]; intros off total F T.
  - cbn [map init_fields concat]. subst total. unfold ms_size. cbn [map fold_right].
    now rewrite N.add_0_r, N.sub_diag.
  - inversion F as [|? ? Hm Fr]; subst.
    cbn [map init_fields packed_fields member_triple fi_ty fi_off fi_size concat].
    rewrite Hm. rewrite (IH (off + m_size m)%N _ Fr); [|now rewrite ms_size_cons, N.add_assoc].
    now rewrite N.sub_diag.
Qed.

Lemma init_fields_vars : forall rec ms vals off total,
  Forall2 (fun m b => rec (mem_ty m) (IVar (mem_name m)) = Some b) ms vals ->
  total = (off + ms_size ms)%N ->
  init_fields rec total (map (fun m => IVar (mem_name m)) ms) (packed_fields off (map member_triple ms)) off
  = Some (concat vals).
Proof.
  intros rec ms vals off total F. revert off total.
  induction F as [|m b r vr Hm Fr IH]; intros off total T.
  - cbn [map init_fields concat]. subst total. unfold ms_size. cbn [map fold_right].
    now rewrite N.add_0_r, N.sub_diag.
  - cbn [map init_fields packed_fields member_triple fi_ty fi_off fi_size concat].
    rewrite Hm. rewrite (IH (off + m_size m)%N); [|subst total; now rewrite ms_size_cons, N.add_assoc].
    now rewrite N.sub_diag.
Qed.

(* ---------------------------------------------------------------- default initialisers evaluate to the declared defaults *)
Lemma default_init : forall E m, deep_ok E m -> forall v, agg_init E v (mem_ty m) (dinit m) = Some (default_bytes m).
Proof.
  intros E. induction m as [n p d | n sn ms IH] using member_ind'; intros D v.
  - unfold dinit. cbn [has_default mem_ty default_bytes]. destruct d as [d|].
    + destruct (String.eqb d "") eqn:Ee; cbn [negb process_defaults].
      * apply agg_init_prim_zero.
      * rewrite agg_init_prim_lit. cbn [deep_ok] in D. rewrite Ee in D. cbn [orb] in D. now apply lit_ok_bytes.
    + apply agg_init_prim_zero.
  - apply deep_ok_struct in D. destruct D as [L [P [NE F]]].
    unfold dinit. cbn [has_default mem_ty default_bytes].
    destruct ms as [|m0 r0] eqn:Ems; [congruence|]. rewrite <- Ems in *. cbn [process_defaults].
    change (map (fun x => if has_default x then process_defaults x else IList []) ms) with (map dinit ms).
    rewrite (agg_init_struct E v sn (map dinit ms) (minfo ms) P L).
    unfold minfo at 2. unfold packed_info. cbn [si_fields]. rewrite minfo_size.
    apply init_fields_defaults; [|reflexivity].
    clear - IH F. induction IH as [|x r Hx Hr IHr]; [constructor|].
    inversion F; subst. constructor; [now apply Hx | now apply IHr].
Qed.

Lemma deep_sizeof : forall E m, deep_ok E m -> sizeof E (mem_ty m) = Some (m_size m).
Proof.
  intros E m D. destruct m as [n p d | n sn ms]; unfold sizeof, ty_size_align; cbn [mem_ty].
  - now rewrite prim_of_name_name.
  - apply deep_ok_struct in D. destruct D as [L [P _]]. rewrite P, L. cbn [option_map fst]. now rewrite minfo_size.
Qed.

Lemma default_param : forall i E m, (forall p, in_keys i (prim_name p) = false) -> deep_ok E m ->
  cp_default (factory_param i m) = Some (dinit m).
Proof.
  intros i E m NP D. unfold factory_param, dinit. cbn [cp_default].
  destruct (has_default m) eqn:H; [reflexivity|].
  destruct m as [n p d | n sn ms]; cbn [mem_ty].
  - now rewrite NP.
  - apply deep_ok_struct in D. destruct D as [_ [_ [NE _]]]. cbn [has_default] in H. destruct ms; [congruence | discriminate].
Qed.

(* ---------------------------------------------------------------- binding the parameters *)
Definition bound (ms : list member) (vals : list (list ascii)) : venv :=
  map (fun mb => (mem_name (fst mb), (mem_ty (fst mb), snd mb))) (combine ms vals).

Lemma bind_ok : forall i E ms args,
  (forall p, in_keys i (prim_name p) = false) -> Forall (deep_ok E) ms ->
  Forall2 (fun m a => N.of_nat (length a) = m_size m) (firstn (length args) ms) args ->
  bind_params E (map (factory_param i) ms) args
  = Some (bound ms (args ++ map default_bytes (skipn (length args) ms))).
Proof.
  intros i E ms. induction ms as [|m r IH]; intros args NP D F.
  - rewrite firstn_nil in F. inversion F; subst. reflexivity.
  - inversion D as [|? ? Dm Dr]; subst.
    destruct args as [|a args'].
    + cbn [length firstn skipn app map bind_params].
      rewrite (default_param i E m NP Dm).
      change (cp_ty (factory_param i m)) with (mem_ty m). change (cp_name (factory_param i m)) with (mem_name m).
      rewrite (default_init E m Dm []).
      specialize (IH [] NP Dr). cbn [length firstn skipn app] in IH. rewrite IH; [|constructor].
      reflexivity.
    + cbn [length firstn] in F. inversion F as [|? ? ? ? Ha Fr]; subst.
      cbn [length skipn app map bind_params].
      change (cp_ty (factory_param i m)) with (mem_ty m). change (cp_name (factory_param i m)) with (mem_name m).
      rewrite (deep_sizeof E m Dm), Ha, N.eqb_refl.
      rewrite (IH args' NP Dr Fr). reflexivity.
Qed.

Lemma bound_lookup : forall ms vals pre,
  length ms = length vals -> NoDup (map mem_name ms) ->
  (forall m, In m ms -> lookup (mem_name m) pre = None) ->
  Forall2 (fun m b => lookup (mem_name m) (pre ++ bound ms vals) = Some (mem_ty m, b)) ms vals.
Proof.
  induction ms as [|m r IH]; intros vals pre LEN ND FR; destruct vals as [|b vr]; try discriminate; [constructor|].
  inversion ND as [|? ? NI NDr]; subst. cbn [length] in LEN. injection LEN as LEN.
  constructor.
  - rewrite lookup_app, (FR m (or_introl eq_refl)). unfold bound. cbn [combine map fst snd lookup]. now rewrite String.eqb_refl.
  - unfold bound. cbn [combine map fst snd].
    change ((mem_name m, (mem_ty m, b)) :: map (fun mb => (mem_name (fst mb), (mem_ty (fst mb), snd mb))) (combine r vr))
      with ([(mem_name m, (mem_ty m, b))] ++ bound r vr).
    rewrite app_assoc. apply IH; try assumption.
    intros m' HI. rewrite lookup_app, (FR m' (or_intror HI)). cbn [lookup].
    destruct (String.eqb (mem_name m') (mem_name m)) eqn:E; [|reflexivity].
    apply String.eqb_eq in E. exfalso. apply NI. rewrite <- E. now apply in_map.
Qed.

(* ---------------------------------------------------------------- the header initialiser *)
Definition lit_is (l : lit) (z : Z) : bool := match l with LInt z' => Z.eqb z z' | _ => false end.

Fixpoint check_from (fuel : nat) (z : Z) : bool :=
  match fuel with
  | O => true
  | S f => lit_is (parse_lit (dec_of_Z z)) z && check_from f (z + 1)%Z
  end.

Lemma check_from_sound : forall fuel z0, check_from fuel z0 = true ->
  forall z, (z0 <= z < z0 + Z.of_nat fuel)%Z -> lit_is (parse_lit (dec_of_Z z)) z = true.
Proof.
  induction fuel as [|f IH]; intros z0 H z R; [lia|].
  cbn [check_from] in H. apply andb_true_iff in H. destruct H as [H1 H2].
  destruct (Z.eq_dec z z0) as [->|NE]; [exact H1|].
  apply (IH _ H2). lia.
Qed.

(* str(int) followed by g++'s reading of a decimal literal is the identity on 0..65535: by evaluation of all cases *)
Lemma parse_dec_all : check_from (Z.to_nat 65536) 0 = true.
Proof. vm_compute. reflexivity. Qed.

Lemma parse_dec : forall z, fits16 z = true -> parse_lit (dec_of_Z z) = LInt z.
Proof.
  intros z H. unfold fits16 in H. apply andb_true_iff in H. destruct H as [H1 H2].
  apply Z.leb_le in H1. apply Z.leb_le in H2.
  pose proof (check_from_sound _ _ parse_dec_all z) as A.
  rewrite Z2Nat.id in A by lia. specialize (A ltac:(lia)).
  unfold lit_is in A. destruct (parse_lit (dec_of_Z z)); try discriminate.
  apply Z.eqb_eq in A. now subst.
Qed.

Lemma conv_u16 : forall z, fits16 z = true -> conv U16 (LInt z) = Some (le_bytes 2 (Z.to_N z)).
Proof.
  intros z H. unfold conv. cbn [int_range prim_nbytes]. unfold fits16 in H. rewrite H.
  apply andb_true_iff in H. destruct H as [H1 H2]. apply Z.leb_le in H1. apply Z.leb_le in H2.
  change (2 ^ (8 * Z.of_nat 2))%Z with 65536%Z. rewrite Z.mod_small by lia. reflexivity.
Qed.

Lemma conv_u32 : forall n, (n < 4294967296)%N -> conv U32 (LInt (Z.of_N n)) = Some (le_bytes 4 n).
Proof.
  intros n H. unfold conv. cbn [int_range prim_nbytes].
  assert (A : ((0 <=? Z.of_N n)%Z && (Z.of_N n <=? 4294967295)%Z) = true).
  { apply andb_true_iff. split; apply Z.leb_le; lia. }
  rewrite A. change (2 ^ (8 * Z.of_nat 4))%Z with 4294967296%Z. rewrite Z.mod_small by lia. now rewrite N2Z.id.
Qed.

Lemma hdr_eval : forall i E v m,
  lookup hdr_name E = Some hdr_spec ->
  sizeof E (m_name m) = Some (hdr_size + ms_size (m_members m))%N ->
  fits16 (i_preamble i) = true -> fits16 (m_id m) = true -> (ms_size (m_members m) < 4294967296)%N ->
  agg_init E v hdr_name (hdr_init i m)
  = Some (hdr_bytes (i_preamble i) (m_id m) (Z.of_N (ms_size (m_members m)))).
Proof.
  intros i E v m L S P I Z.
  unfold hdr_init. rewrite (agg_init_struct E v hdr_name _ hdr_spec eq_refl L).
  change (si_fields hdr_spec) with
    [ {| fi_name := "Preamble"; fi_ty := prim_name U16; fi_off := 0; fi_size := 2 |};
      {| fi_name := "TypeID"; fi_ty := prim_name U16; fi_off := 2; fi_size := 2 |};
      {| fi_name := "PayloadSize"; fi_ty := prim_name U32; fi_off := 4; fi_size := 4 |} ].
  change (si_size hdr_spec) with 8%N.
  cbn [init_fields fi_ty fi_off fi_size].
  rewrite !agg_init_prim_lit, (parse_dec _ P), (parse_dec _ I), (conv_u16 _ P), (conv_u16 _ I).
  assert (SD : agg_init E v (prim_name U32) (ISizeDiff (m_name m) hdr_name) = Some (le_bytes 4 (ms_size (m_members m)))).
  { cbn [agg_init]. rewrite prim_of_name_name, S.
    assert (SH : sizeof E hdr_name = Some 8%N).
    { unfold sizeof, ty_size_align. change (prim_of_name hdr_name) with (@None prim). now rewrite L. }
    rewrite SH. unfold hdr_size.
    destruct (N.leb_spec 8 (8 + ms_size (m_members m))) as [_|C]; [|lia].
    replace (8 + ms_size (m_members m) - 8)%N with (ms_size (m_members m)) by lia.
    now apply conv_u32. }
  rewrite SD. unfold hdr_bytes. rewrite N2Z.id.
  change (0 - 0)%N with 0%N. change (2 - (0 + 2))%N with 0%N. change (4 - (2 + 2))%N with 0%N. change (8 - (4 + 4))%N with 0%N.
  rewrite !zeros_0, app_nil_r. reflexivity.
Qed.

(* ---------------------------------------------------------------- every member of a well-formed interface is deep_ok *)
Definition deep_reg (E : env) (reg : list (string * list member)) : Prop :=
  forall sn ms, lookup sn reg = Some ms ->
    lookup sn E = Some (minfo ms) /\ prim_of_name sn = None /\ ms <> [] /\ Forall (deep_ok E) ms.

Lemma deep_of_ok : forall E reg m, deep_reg E reg -> member_ok reg m = true -> deep_ok E m.
Proof.
  intros E reg m DR OK. destruct m as [n p d | n sn ms].
  - cbn [member_ok deep_ok] in *. destruct d; [exact OK | exact I].
  - cbn [member_ok] in OK. destruct (lookup sn reg) as [ms'|] eqn:L; [|discriminate].
    apply members_eqb_eq in OK. subst ms'. apply deep_ok_struct. now apply DR.
Qed.

Lemma deeps_of_ok : forall E reg ms, deep_reg E reg -> members_ok reg ms = true -> Forall (deep_ok E) ms.
Proof.
  intros E reg ms DR OK. unfold members_ok in OK. apply andb_true_iff in OK. destruct OK as [OK _].
  apply Forall_forall. intros m HI. rewrite forallb_forall in OK. eapply deep_of_ok; eauto.
Qed.

Lemma deep_reg_structs : forall E ss reg,
  structs_ok reg ss = true -> deep_reg E reg ->
  (forall s, In s ss -> lookup (s_name s) E = Some (struct_spec s) /\ prim_of_name (s_name s) = None) ->
  deep_reg E (reg ++ map (fun s => (s_name s, s_members s)) ss).
Proof.
  intros E ss. induction ss as [|s r IH]; intros reg OK DR FR.
  - cbn [map]. now rewrite app_nil_r.
  - cbn [structs_ok] in OK. apply andb_true_iff in OK. destruct OK as [OK OKr].
    apply andb_true_iff in OK. destruct OK as [NE MO].
    cbn [map]. change ((s_name s, s_members s) :: map (fun s0 => (s_name s0, s_members s0)) r)
      with ([(s_name s, s_members s)] ++ map (fun s0 => (s_name s0, s_members s0)) r).
    rewrite app_assoc. apply IH; [assumption| |intros s' HI; apply FR; now right].
    intros sn ms L. rewrite lookup_app in L. destruct (lookup sn reg) as [ms0|] eqn:L0.
    + injection L as <-. now apply DR.
    + cbn [lookup] in L. destruct (String.eqb sn (s_name s)) eqn:Ee; [|discriminate].
      injection L as <-. apply String.eqb_eq in Ee. subst sn.
      destruct (FR s (or_introl eq_refl)) as [A B].
      split; [exact A|]. split; [exact B|]. split; [destruct (s_members s); [discriminate | congruence]|].
      eapply deeps_of_ok; eauto.
Qed.

Lemma wf_deep : forall i, wf_facts i -> deep_reg (spec_env i) (registry i).
Proof.
  intros i W. unfold registry.
  change (map (fun s => (s_name s, s_members s)) (i_structs i)) with ([] ++ map (fun s => (s_name s, s_members s)) (i_structs i)).
  apply deep_reg_structs; [exact (wf_structs i W) | intros sn ms L; discriminate|].
  intros s HI. split; [now apply (spec_env_struct i W) | now apply (key_noprim_struct i W)].
Qed.

Lemma msg_ok_parts : forall i m, msg_ok i m = true ->
  fits16 (m_id m) = true /\ members_ok (registry i) (m_members m) = true
  /\ (ms_size (m_members m) < 4294967296)%N.
Proof.
  intros i m MO. unfold msg_ok in MO.
  apply andb_true_iff in MO. destruct MO as [MO S].
  apply andb_true_iff in MO. destruct MO as [MO _].
  apply andb_true_iff in MO. destruct MO as [F M]. apply N.ltb_lt in S. auto.
Qed.

Lemma Forall2_imp : forall A B (P Q : A -> B -> Prop) l l',
  (forall a b, P a b -> Q a b) -> Forall2 P l l' -> Forall2 Q l l'.
Proof. intros A B P Q l l' H F. induction F; constructor; auto. Qed.

(* ---------------------------------------------------------------- finding the factory *)
Lemma create_eqb : forall a b, String.eqb ("Create" ++ a)%string ("Create" ++ b)%string = String.eqb a b.
Proof. intros. reflexivity. Qed.

Lemma find_app' : forall A (p : A -> bool) l1 l2,
  find p (l1 ++ l2) = match find p l1 with Some x => Some x | None => find p l2 end.
Proof. induction l1 as [|x r IH]; intros; cbn [app find]; [reflexivity|]. destruct (p x); [reflexivity | apply IH]. Qed.

Lemma find_map_none : forall A (key : A -> string) (F : A -> cfactory) l k,
  (forall a, cf_name (F a) = ("Create" ++ key a)%string) -> (forall a, In a l -> key a <> k) ->
  find (fun f => String.eqb (cf_name f) ("Create" ++ k)%string) (map F l) = None.
Proof.
  intros A key F l k HF. induction l as [|a r IH]; intros G; [reflexivity|].
  cbn [map find]. rewrite HF, create_eqb.
  destruct (String.eqb (key a) k) eqn:E; [apply String.eqb_eq in E; exfalso; apply (G a); [now left | exact E]|].
  apply IH. intros a' HI. apply G. now right.
Qed.

Lemma find_map_key : forall A (key : A -> string) (F : A -> cfactory) l x,
  (forall a, cf_name (F a) = ("Create" ++ key a)%string) -> NoDup (map key l) -> In x l ->
  find (fun f => String.eqb (cf_name f) ("Create" ++ key x)%string) (map F l) = Some (F x).
Proof.
  intros A key F l x HF. induction l as [|a r IH]; intros ND HI; [destruct HI|].
  cbn [map find]. rewrite HF, create_eqb. cbn [map] in ND. inversion ND as [|? ? NI NDr]; subst.
  destruct HI as [->|HI]; [now rewrite String.eqb_refl|].
  destruct (String.eqb (key a) (key x)) eqn:E.
  - apply String.eqb_eq in E. exfalso. apply NI. rewrite E. now apply in_map.
  - now apply IH.
Qed.

Lemma find_factory_msg : forall i, wf_facts i -> forall m, In m (i_msgs i) ->
  find_factory (emit i) ("Create" ++ m_name m)%string = Some (msg_factory i m).
Proof.
  intros i W m HI. destruct (keys_parts i W) as [NH [NS [NM DJ]]].
  unfold find_factory, emit. cbn [cg_factories]. rewrite find_app'.
  rewrite (find_map_none strct s_name (struct_factory i) (i_structs i) (m_name m)); [|reflexivity|].
  - apply (find_map_key msg m_name (msg_factory i) (i_msgs i) m); [reflexivity | assumption | assumption].
  - intros s HS E. apply (DJ (m_name m)); [rewrite <- E; now apply in_map | now apply in_map].
Qed.

Lemma find_factory_struct : forall i, wf_facts i -> forall s, In s (i_structs i) ->
  find_factory (emit i) ("Create" ++ s_name s)%string = Some (struct_factory i s).
Proof.
  intros i W s HI. destruct (keys_parts i W) as [NH [NS [NM DJ]]].
  unfold find_factory, emit. cbn [cg_factories]. rewrite find_app'.
  now rewrite (find_map_key strct s_name (struct_factory i) (i_structs i) s).
Qed.

(* ---------------------------------------------------------------- the message factories *)
Theorem msg_factory_value : forall i, wf_iface i = true -> forall m, In m (i_msgs i) ->
  forall args,
  (length args <= length (m_members m))%nat ->
  Forall2 (fun x a => N.of_nat (length a) = m_size x) (firstn (length args) (m_members m)) args ->
  call (emit i) ("Create" ++ m_name m)%string args = Some (msg_value i m args).
Proof.
  intros i WF m HI args LEN F.
  pose proof (wf_iface_facts i WF) as W. pose proof (wf_no_prim_key i W) as NP.
  destruct (msg_ok_parts i m (wf_msgs i W m HI)) as [FID [MO SZ]].
  pose proof (deeps_of_ok _ _ _ (wf_deep i W) MO) as D.
  unfold call. rewrite (env_exact i WF), (find_factory_msg i W m HI).
  unfold msg_factory at 1. cbn [cf_params]. rewrite (bind_ok i (spec_env i) (m_members m) args NP D F).
  unfold msg_factory. cbn [cf_ret cf_body].
  set (vals := args ++ map default_bytes (skipn (length args) (m_members m))).
  rewrite (agg_init_struct _ _ (m_name m) _ (msg_spec m) (key_noprim_msg i W m HI) (spec_env_msg i W m HI)).
  unfold msg_spec at 2. unfold packed_info. cbn [si_fields packed_fields].
  assert (SZM : si_size (msg_spec m) = (hdr_size + ms_size (m_members m))%N).
  { unfold msg_spec, packed_info. cbn [si_size map snd fold_right]. now rewrite triples_size. }
  rewrite SZM. cbn [init_fields fi_ty fi_off fi_size].
  rewrite (hdr_eval i (spec_env i) (bound (m_members m) vals) m (spec_env_hdr i)); try assumption.
  2:{ unfold sizeof, ty_size_align. rewrite (key_noprim_msg i W m HI), (spec_env_msg i W m HI). cbn [option_map fst]. now rewrite SZM. }
  2:{ exact (wf_pre i W). }
  assert (LV : length (m_members m) = length vals).
  { unfold vals. rewrite app_length, map_length, skipn_length. lia. }
  assert (NDn : NoDup (map mem_name (m_members m))).
  { unfold members_ok in MO. apply andb_true_iff in MO. destruct MO as [_ MO]. now apply nodupb_NoDup. }
  pose proof (bound_lookup (m_members m) vals [] LV NDn (fun _ _ => eq_refl)) as BL. cbn [app] in BL.
  rewrite (init_fields_vars (agg_init (spec_env i) (bound (m_members m) vals)) (m_members m) vals).
  - unfold msg_value. fold vals. change (0 - 0)%N with 0%N. rewrite zeros_0. cbn [app].
    unfold vals. now rewrite concat_app.
  - eapply Forall2_imp; [|exact BL]. intros x b Hx. now apply agg_init_var.
  - unfold hdr_size. reflexivity.
Qed.

(* ---------------------------------------------------------------- the struct (payload) factories *)
Lemma structs_ok_names : forall ss reg s, structs_ok reg ss = true -> In s ss ->
  nodupb (map mem_name (s_members s)) = true.
Proof.
  induction ss as [|s0 r IH]; intros reg s OK HI; [destruct HI|].
  cbn [structs_ok] in OK. apply andb_true_iff in OK. destruct OK as [OK OKr].
  apply andb_true_iff in OK. destruct OK as [_ MO].
  destruct HI as [->|HI]; [|eapply IH; eauto].
  unfold members_ok in MO. apply andb_true_iff in MO. tauto.
Qed.

Theorem struct_factory_value : forall i, wf_iface i = true -> forall s, In s (i_structs i) ->
  forall args,
  (length args <= length (s_members s))%nat ->
  Forall2 (fun x a => N.of_nat (length a) = m_size x) (firstn (length args) (s_members s)) args ->
  call (emit i) ("Create" ++ s_name s)%string args = Some (struct_value s args).
Proof.
  intros i WF s HI args LEN F.
  pose proof (wf_iface_facts i WF) as W. pose proof (wf_no_prim_key i W) as NP.
  destruct (keys_parts i W) as [NH [NS [NM DJ]]].
  assert (LR : lookup (s_name s) (registry i) = Some (s_members s)).
  { unfold registry. now apply (lookup_map_entry _ _ s_name s_members (i_structs i) s NS HI). }
  destruct (wf_deep i W _ _ LR) as [_ [_ [_ D]]].
  unfold call. rewrite (env_exact i WF), (find_factory_struct i W s HI).
  unfold struct_factory at 1. cbn [cf_params]. rewrite (bind_ok i (spec_env i) (s_members s) args NP D F).
  unfold struct_factory. cbn [cf_ret cf_body].
  set (vals := args ++ map default_bytes (skipn (length args) (s_members s))).
  rewrite (agg_init_struct _ _ (s_name s) _ (struct_spec s) (key_noprim_struct i W s HI) (spec_env_struct i W s HI)).
  unfold struct_spec at 2. unfold packed_info. cbn [si_fields].
  change (struct_spec s) with (minfo (s_members s)). rewrite minfo_size.
  assert (LV : length (s_members s) = length vals).
  { unfold vals. rewrite app_length, map_length, skipn_length. lia. }
  pose proof (nodupb_NoDup _ (structs_ok_names _ _ s (wf_structs i W) HI)) as NDn.
  pose proof (bound_lookup (s_members s) vals [] LV NDn (fun _ _ => eq_refl)) as BL. cbn [app] in BL.
  rewrite (init_fields_vars (agg_init (spec_env i) (bound (s_members s) vals)) (s_members s) vals).
  - unfold struct_value. fold vals. unfold vals. now rewrite concat_app.
  - eapply Forall2_imp; [|exact BL]. intros x b Hx. now apply agg_init_var.
  - reflexivity.
Qed.

(* ---------------------------------------------------------------- an argument lands in the member of the same name *)
Lemma field_of_concat : forall ms vals,
  Forall2 (fun m b => N.of_nat (length b) = m_size m) ms vals ->
  forall off (pre : list ascii) j f (b : list ascii) (rest : list ascii),
  N.of_nat (length pre) = off ->
  nth_error (packed_fields off (map member_triple ms)) j = Some f -> nth_error vals j = Some b ->
  firstn (N.to_nat (fi_size f)) (skipn (N.to_nat (fi_off f)) (pre ++ concat vals ++ rest)) = b
  /\ fi_name f = match nth_error ms j with Some m => mem_name m | None => fi_name f end.
Proof.
  intros ms vals F. induction F as [|m b0 r vr Hm Fr IH]; intros off pre j f b rest HP HF HV.
  - destruct j; discriminate.
  - destruct j as [|j]; cbn [map packed_fields member_triple nth_error concat] in *.
    + injection HF as <-. injection HV as <-. cbn [fi_size fi_off fi_name]. split; [|reflexivity].
      rewrite <- HP, Nnat.Nat2N.id, skipn_app, skipn_all, Nat.sub_diag. cbn [skipn app].
      rewrite <- Hm, Nnat.Nat2N.id, <- app_assoc, firstn_app, firstn_all, Nat.sub_diag. cbn [firstn]. now rewrite app_nil_r.
    + rewrite <- app_assoc. rewrite app_assoc.
      apply (IH (off + m_size m)%N (pre ++ b0) j f b rest); try assumption.
      rewrite app_length, Nnat.Nat2N.inj_add, HP, Hm. reflexivity.
Qed.

Theorem msg_arg_in_field : forall i m args vals j f x a,
  vals = args ++ map default_bytes (skipn (length args) (m_members m)) ->
  (length args <= length (m_members m))%nat ->
  Forall2 (fun x a => N.of_nat (length a) = m_size x) (firstn (length args) (m_members m)) args ->
  nth_error args j = Some a -> nth_error (m_members m) j = Some x ->
  nth_error (si_fields (msg_spec m)) (S j) = Some f ->
  fi_name f = mem_name x /\ field_bytes (msg_spec m) (S j) (msg_value i m args) = a.
Proof.
  intros i m args vals j f x a EV LEN F HA HX HF.
  assert (FV : Forall2 (fun m b => N.of_nat (length b) = m_size m) (m_members m) vals).
  { subst vals. rewrite <- (firstn_skipn (length args) (m_members m)) at 1.
    apply Forall2_app; [exact F|].
    induction (skipn (length args) (m_members m)) as [|y r IH]; [constructor|].
    cbn [map]. constructor; [apply default_bytes_length | exact IH]. }
  assert (HVj : nth_error vals j = Some a).
  { subst vals. rewrite nth_error_app1; [exact HA|]. apply nth_error_Some. congruence. }
  unfold field_bytes. rewrite HF.
  unfold msg_spec, packed_info in HF. cbn [si_fields packed_fields nth_error] in HF.
  pose (pre := hdr_bytes (i_preamble i) (m_id m) (Z.of_N (ms_size (m_members m)))).
  assert (LP : N.of_nat (length pre) = (0 + hdr_size)%N).
  { unfold pre, hdr_bytes. rewrite !app_length, !length_le_bytes. reflexivity. }
  destruct (field_of_concat _ _ FV _ pre j f a [] LP HF HVj) as [B NM].
  rewrite HX in NM. split; [exact NM|].
  unfold msg_value. fold pre. rewrite <- concat_app, <- EV. rewrite app_nil_r in B. exact B.
Qed.

(* ---------------------------------------------------------------- the two named instances *)
Lemma Forall2_len : forall A B (P : A -> B -> Prop) l l', Forall2 P l l' -> length l = length l'.
Proof. intros A B P l l' F. induction F; cbn [length]; congruence. Qed.

Theorem msg_defaults : forall i, wf_iface i = true -> forall m, In m (i_msgs i) ->
  call (emit i) ("Create" ++ m_name m)%string []
  = Some (hdr_bytes (i_preamble i) (m_id m) (Z.of_N (si_size (msg_spec m) - hdr_size))
          ++ concat (map default_bytes (m_members m))).
Proof.
  intros i WF m HI. rewrite (msg_factory_value i WF m HI [] (Nat.le_0_l _) (Forall2_nil _)).
  unfold msg_value, msg_spec, packed_info, hdr_size. cbn [si_size map snd fold_right concat app length skipn].
  rewrite triples_size.
  now replace (8 + ms_size (m_members m) - 8)%N with (ms_size (m_members m)) by (now rewrite N.add_comm, N.add_sub).
Qed.

Theorem msg_args : forall i, wf_iface i = true -> forall m, In m (i_msgs i) ->
  forall args, Forall2 (fun x a => N.of_nat (length a) = m_size x) (m_members m) args ->
  call (emit i) ("Create" ++ m_name m)%string args
  = Some (hdr_bytes (i_preamble i) (m_id m) (Z.of_N (ms_size (m_members m))) ++ concat args)
  /\ forall j a x f, nth_error args j = Some a -> nth_error (m_members m) j = Some x ->
       nth_error (si_fields (msg_spec m)) (S j) = Some f ->
       fi_name f = mem_name x /\ field_bytes (msg_spec m) (S j) (msg_value i m args) = a.
Proof.
  intros i WF m HI args F. pose proof (Forall2_len _ _ _ _ _ F) as L.
  assert (F' : Forall2 (fun x a => N.of_nat (length a) = m_size x) (firstn (length args) (m_members m)) args)
    by (rewrite <- L, firstn_all; exact F).
  split.
  - rewrite (msg_factory_value i WF m HI args); [|rewrite L; apply le_n | exact F'].
    unfold msg_value. rewrite <- L, skipn_all. cbn [map concat]. now rewrite app_nil_r.
  - intros j a x f HA HX HF. eapply msg_arg_in_field; eauto. rewrite L. apply le_n.
Qed.
