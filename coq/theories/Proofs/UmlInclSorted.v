(* The include / forward-declaration lists of the UML class generator are sorted(set(...)): sorted w.r.t. the byte order on the
   FULL names, duplicate free, and dependent only on the SET of collected names (not on the iteration order of the Python set,
   nor on how often a name was added).  Pointer uses are covered, <vector> is included when a member needs it, every forward
   declarable type gets its forward declaration. *)
From Coq Require Import String Ascii List Bool Arith Lia Permutation Sorting.Sorted.
From KV Require Import Lib.Str Lib.ODict Model.Vpp Model.Uml Model.UmlBlob Model.UmlIncl Proofs.SortedSet.
Import ListNotations.
Open Scope string_scope.

(* ---------------------------------------------------------------- (1) sort_strings = py_sorted, dedupe *)

Lemma insert_sorted_py : forall x l, UmlIncl.insert_sorted x l = SortedSet.insert x l.
Proof. intros x l. induction l as [|y r IH]; cbn; [reflexivity|]. rewrite IH. reflexivity. Qed.

Lemma sort_strings_py : forall l, sort_strings l = py_sorted l.
Proof. induction l as [|x r IH]; cbn; [reflexivity|]. rewrite IH. apply insert_sorted_py. Qed.
Print Assumptions sort_strings_py.

Lemma existsb_eqb_in : forall x l, existsb (String.eqb x) l = true <-> In x l.
Proof.
  intros x l. rewrite existsb_exists. split.
  - intros [y [Hy E]]. apply String.eqb_eq in E. subst y. exact Hy.
  - intros H. exists x. split; [exact H|apply String.eqb_refl].
Qed.

Lemma existsb_eqb_notin : forall x l, existsb (String.eqb x) l = false <-> ~ In x l.
Proof.
  intros x l. rewrite <- existsb_eqb_in. destruct (existsb (String.eqb x) l); split; intros H; try reflexivity; try discriminate.
  - exfalso. apply H. reflexivity.
Qed.

Lemma dedupe_in : forall l seen x, In x (dedupe l seen) <-> In x l /\ ~ In x seen.
Proof.
  induction l as [|a r IH]; intros seen x; cbn [dedupe].
  - split; [intros []|intros [[] _]].
  - destruct (existsb (String.eqb a) seen) eqn:E.
    + apply existsb_eqb_in in E. rewrite IH. split.
      * intros [H1 H2]. split; [right; exact H1|exact H2].
      * intros [[H1|H1] H2]; [subst a; contradiction|split; assumption].
    + apply existsb_eqb_notin in E. split.
      * intros [H|H]; [subst a; split; [left; reflexivity|exact E]|].
        apply IH in H. destruct H as [H1 H2]. split; [right; exact H1|]. intros H3. apply H2. right. exact H3.
      * intros [[H1|H1] H2]; [left; exact H1|].
        destruct (string_dec a x) as [Eq|Ne]; [left; exact Eq|]. right. apply IH. split; [exact H1|].
        intros [H3|H3]; [contradiction|contradiction].
Qed.
Print Assumptions dedupe_in.

Lemma dedupe_nodup : forall l seen, NoDup (dedupe l seen).
Proof.
  induction l as [|a r IH]; intros seen; cbn [dedupe]; [constructor|].
  destruct (existsb (String.eqb a) seen); [apply IH|].
  constructor; [|apply IH]. intros H. apply dedupe_in in H. destruct H as [_ H]. apply H. left. reflexivity.
Qed.
Print Assumptions dedupe_nodup.

(* ---------------------------------------------------------------- (2) sorted_set *)

Lemma sorted_set_py : forall l, sorted_set l = py_sorted (dedupe l []).
Proof. intros l. unfold sorted_set. apply sort_strings_py. Qed.

Lemma sorted_set_sorted : forall l, StronglySorted le_s (sorted_set l).
Proof. intros l. rewrite sorted_set_py. apply py_sorted_sorted. Qed.
Print Assumptions sorted_set_sorted.

Lemma sorted_set_nodup : forall l, NoDup (sorted_set l).
Proof. intros l. rewrite sorted_set_py. eapply Permutation_NoDup; [apply py_sorted_perm|apply dedupe_nodup]. Qed.
Print Assumptions sorted_set_nodup.

Lemma sorted_set_in : forall l x, In x (sorted_set l) <-> In x l.
Proof.
  intros l x. rewrite sorted_set_py. split.
  - intros H. eapply Permutation_in in H; [|apply Permutation_sym, py_sorted_perm]. apply dedupe_in in H. apply H.
  - intros H. eapply Permutation_in; [apply py_sorted_perm|]. apply dedupe_in. split; [exact H|intros []].
Qed.
Print Assumptions sorted_set_in.

(* ---------------------------------------------------------------- (3) only the SET matters *)

Theorem sorted_set_ext : forall l1 l2, (forall x, In x l1 <-> In x l2) -> sorted_set l1 = sorted_set l2.
Proof.
  intros l1 l2 H. apply sorted_perm_unique; try apply sorted_set_sorted.
  apply NoDup_Permutation; try apply sorted_set_nodup.
  intros x. rewrite !sorted_set_in. apply H.
Qed.
Print Assumptions sorted_set_ext.

(* ---------------------------------------------------------------- (4) the two dependency functions *)

Lemma sorted_set_spec : forall raw,
  StronglySorted le_s (sorted_set raw) /\ NoDup (sorted_set raw) /\ (forall x, In x (sorted_set raw) <-> In x raw)
  /\ (forall l, (forall x, In x l <-> In x raw) -> sorted_set l = sorted_set raw).
Proof.
  intros raw. split; [apply sorted_set_sorted|]. split; [apply sorted_set_nodup|]. split; [apply sorted_set_in|].
  intros l H. apply sorted_set_ext. exact H.
Qed.

Corollary includes_sorted : forall d c,
  StronglySorted le_s (nfd d c) /\ NoDup (nfd d c) /\ (forall x, In x (nfd d c) <-> In x (nfd_raw d c))
  /\ (forall l, (forall x, In x l <-> In x (nfd_raw d c)) -> sorted_set l = nfd d c).
Proof. intros d c. unfold nfd. apply sorted_set_spec. Qed.
Print Assumptions includes_sorted.

Corollary forward_sorted : forall d c,
  StronglySorted le_s (fd d c) /\ NoDup (fd d c) /\ (forall x, In x (fd d c) <-> In x (fd_raw d c))
  /\ (forall l, (forall x, In x l <-> In x (fd_raw d c)) -> sorted_set l = fd d c).
Proof. intros d c. unfold fd. apply sorted_set_spec. Qed.
Print Assumptions forward_sorted.

(* ---------------------------------------------------------------- (5) total order on full names *)

Lemma full_name_order : forall a b, le_s a b \/ le_s b a.
Proof. intros a b. unfold le_s. apply String.leb_total. Qed.
Print Assumptions full_name_order.

Lemma full_name_antisym : forall a b, le_s a b -> le_s b a -> a = b.
Proof. intros a b H1 H2. unfold le_s in *. apply String.leb_antisym; assumption. Qed.
Print Assumptions full_name_antisym.

Example same_name_tie : sorted_set ["B::K"; "A::K"; "B::K"] = ["A::K"; "B::K"].
Proof. vm_compute. reflexivity. Qed.
Print Assumptions same_name_tie.

(* ---------------------------------------------------------------- (6) pointer uses *)

Lemma pointer_use_covered : forall d c t,
  In t (pointer_types c ++ assoc_pointers d c)%list -> In t (fd d c) \/ In t (nfd d c).
Proof.
  intros d c t H. destruct (existsb (String.eqb t) (value_types c)) eqn:E.
  - right. unfold nfd. apply sorted_set_in. apply existsb_eqb_in in E. unfold nfd_raw.
    apply in_or_app. right. apply in_or_app. left. exact E.
  - left. unfold fd. apply sorted_set_in. unfold fd_raw. apply filter_In. split; [exact H|]. rewrite E. reflexivity.
Qed.
Print Assumptions pointer_use_covered.

(* ---------------------------------------------------------------- (7) <vector> *)

Lemma fold_none_stays : forall (A : Type) (F : option bool -> A -> option bool) (l : list A),
  (forall i, F None i = None) -> fold_left F l None = None.
Proof. intros A F l HN. induction l as [|i r IH]; cbn; [reflexivity|]. rewrite HN. exact IH. Qed.

Lemma fold_true_stays : forall (A : Type) (F : option bool -> A -> option bool) (l : list A),
  (forall i, F None i = None) -> (forall i, F (Some true) i = Some true \/ F (Some true) i = None) ->
  forall v, fold_left F l (Some true) = Some v -> v = true.
Proof.
  intros A F l HN HT. induction l as [|i r IH]; cbn; intros v H.
  - inversion H. reflexivity.
  - destruct (HT i) as [E|E]; rewrite E in H.
    + apply IH. exact H.
    + rewrite (fold_none_stays A F r HN) in H. discriminate.
Qed.

Lemma vector_from_member : forall fuel d c v, own_vector d c = true -> requires_vector fuel d c = Some v -> v = true.
Proof.
  intros fuel d c v Hown H. destruct fuel as [|f]; [discriminate|].
  cbn [requires_vector] in H. rewrite Hown in H.
  eapply fold_true_stays; [| |exact H].
  - intros i. reflexivity.
  - intros i. cbv beta.
    destruct (contains (ic_id c) (ii_to i) && ii_real i); [|left; reflexivity].
    destruct (find_icls (i_classes d) (ii_from_id i)) as [p|]; [|right; reflexivity].
    destruct (ic_pure p); left; reflexivity.
Qed.
Print Assumptions vector_from_member.

Lemma vector_included : forall fuel nsf d c l,
  own_vector d c = true -> header_includes fuel nsf d c = Some l -> In "#include <vector>" l.
Proof.
  intros fuel nsf d c l Hown H. unfold header_includes in H.
  destruct (requires_vector fuel d c) as [v|] eqn:E; [|discriminate].
  apply (vector_from_member fuel d c v Hown) in E. subst v. inversion H. subst l.
  apply in_or_app. right. left. reflexivity.
Qed.
Print Assumptions vector_included.

Lemma to_many_end_vector : forall d c m, In m (assoc_member_mults d c) -> is_vector m = true -> own_vector d c = true.
Proof.
  intros d c m Hin Hv. unfold own_vector.
  assert (E : existsb is_vector (assoc_member_mults d c) = true) by (apply existsb_exists; exists m; split; assumption).
  rewrite E. rewrite orb_true_r. reflexivity.
Qed.
Print Assumptions to_many_end_vector.

Lemma to_many_attr_vector : forall d c a, In a (ic_attrs c) -> is_vector (it_mult a) = true -> own_vector d c = true.
Proof.
  intros d c a Hin Hv. unfold own_vector.
  assert (E : existsb (fun a => is_vector (it_mult a)) (ic_attrs c) = true) by (apply existsb_exists; exists a; split; assumption).
  rewrite E. reflexivity.
Qed.
Print Assumptions to_many_attr_vector.

(* ---------------------------------------------------------------- (8) forward declarations *)

(* (k, v) is a member of the grouping m: some entry (k, vs) with v among vs *)
Definition grouped (m : list (string * list string)) (k v : string) : Prop := exists vs, In (k, vs) m /\ In v vs.

Lemma grouped_flat : forall m k v,
  grouped m k v <-> In (k, v) (flat_map (fun kv : string * list string => map (fun n => (fst kv, n)) (snd kv)) m).
Proof.
  intros m k v. unfold grouped. rewrite in_flat_map. split.
  - intros [vs [H1 H2]]. exists (k, vs). split; [exact H1|]. cbn. apply in_map_iff. exists v. split; [reflexivity|exact H2].
  - intros [[k' vs] [H1 H2]]. cbn in H2. apply in_map_iff in H2. destruct H2 as [n [E Hn]]. inversion E. subst.
    exists vs. split; assumption.
Qed.

Lemma group_add_in : forall k v m, grouped (group_add k v m) k v.
Proof.
  intros k v m. induction m as [|[k' vs] r IH]; cbn [group_add].
  - exists [v]. split; left; reflexivity.
  - destruct (String.eqb k k') eqn:E.
    + apply String.eqb_eq in E. subst k'. exists (vs ++ [v])%list. split; [left; reflexivity|].
      apply in_or_app. right. left. reflexivity.
    + destruct IH as [ws [H1 H2]]. exists ws. split; [right; exact H1|exact H2].
Qed.

Lemma group_add_keep : forall k v k' v' m, grouped m k v -> grouped (group_add k' v' m) k v.
Proof.
  intros k v k' v' m. induction m as [|[k2 vs] r IH]; intros [ws [H1 H2]]; cbn [group_add].
  - destruct H1.
  - destruct (String.eqb k' k2) eqn:E.
    + destruct H1 as [H1|H1].
      * inversion H1. subst. exists (ws ++ [v'])%list. split; [left; reflexivity|]. apply in_or_app. left. exact H2.
      * exists ws. split; [right; exact H1|exact H2].
    + destruct H1 as [H1|H1].
      * exists ws. split; [left; exact H1|exact H2].
      * destruct IH as [ws' [H3 H4]]; [exists ws; split; assumption|]. exists ws'. split; [right; exact H3|exact H4].
Qed.

Lemma group_fold_keep : forall (kf vf : string -> string) names m k v,
  grouped m k v -> grouped (fold_left (fun m f => group_add (kf f) (vf f) m) names m) k v.
Proof.
  intros kf vf names. induction names as [|f r IH]; intros m k v H; cbn [fold_left]; [exact H|].
  apply IH. apply group_add_keep. exact H.
Qed.

Lemma group_fold_in : forall (kf vf : string -> string) names m t,
  In t names -> grouped (fold_left (fun m f => group_add (kf f) (vf f) m) names m) (kf t) (vf t).
Proof.
  intros kf vf names. induction names as [|f r IH]; intros m t H; cbn [fold_left]; [destruct H|].
  destruct H as [H|H].
  - subst f. apply group_fold_keep. apply group_add_in.
  - apply IH. exact H.
Qed.

(* the namespace / class name _getNamespaceToClassesFromFullyQualifiedNames computes for a forward declaration *)
Definition fwd_name (t : string) : string := List.last (split2 ":" ":" t) "".
Definition fwd_ns (t : string) : string := rstrip_char ":" (substring 0 (String.length t - String.length (fwd_name t)) t).

Lemma ns_to_classes_fwd : forall cns names,
  ns_to_classes false cns names = fold_left (fun m f => group_add (fwd_ns f) (fwd_name f) m) names [].
Proof. intros cns names. reflexivity. Qed.

Lemma ns_to_classes_in : forall cns names t, In t names -> grouped (ns_to_classes false cns names) (fwd_ns t) (fwd_name t).
Proof. intros cns names t H. rewrite ns_to_classes_fwd. apply group_fold_in. exact H. Qed.

Lemma in_wrapped : forall (h f x : string) (ls : list string),
  In x ls -> In x (match ls with [] => [] | y :: r => h :: (y :: r) ++ [f] end)%list.
Proof. intros h f x ls H. destruct ls as [|y r]; [destruct H|]. right. apply in_or_app. left. exact H. Qed.

Lemma forward_declared : forall d c t, In t (fd d c) ->
  In (rstrip_char ":" (substring 0 (String.length t - String.length (List.last (split2 ":" ":" t) "")) t), List.last (split2 ":" ":" t) "")
     (flat_map (fun kv : string * list string => map (fun n => (fst kv, n)) (snd kv)) (ns_to_classes false (ic_ns c) (fd d c)))
  /\ In ("    class " ++ List.last (split2 ":" ":" t) "" ++ ";") (forward_decls d c)
  /\ In (ns_begin (rstrip_char ":" (substring 0 (String.length t - String.length (List.last (split2 ":" ":" t) "")) t))) (forward_decls d c).
Proof.
  intros d c t H. change (List.last (split2 ":" ":" t) "") with (fwd_name t).
  change (rstrip_char ":" (substring 0 (String.length t - String.length (fwd_name t)) t)) with (fwd_ns t).
  pose proof (ns_to_classes_in (ic_ns c) (fd d c) t H) as G.
  split; [apply grouped_flat; exact G|].
  destruct G as [vs [H1 H2]]. unfold forward_decls.
  split; apply in_wrapped; apply in_flat_map; exists (fwd_ns t, vs); (split; [exact H1|]); cbn [fst snd].
  - right. apply in_or_app. left. apply in_map_iff. exists (fwd_name t). split; [reflexivity|exact H2].
  - left. reflexivity.
Qed.
Print Assumptions forward_declared.

(* the existential form *)
Corollary forward_declared_ex : forall d c t, In t (fd d c) ->
  exists ns name,
    In (ns, name) (flat_map (fun kv : string * list string => map (fun n => (fst kv, n)) (snd kv)) (ns_to_classes false (ic_ns c) (fd d c)))
    /\ In ("    class " ++ name ++ ";") (forward_decls d c) /\ In (ns_begin ns) (forward_decls d c).
Proof. intros d c t H. eexists. eexists. apply (forward_declared d c t H). Qed.
Print Assumptions forward_declared_ex.
