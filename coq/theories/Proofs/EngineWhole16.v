(* C16: the whole pipeline on a template of in_grammar16 (several blocks of several kinds, text between them). *)
From Coq Require Import String Ascii List Bool Arith Lia.
From KV Require Import Lib.Str Lib.StrOps Lib.ODict Gen.Tags Gen.Pipeline Model.Engine Model.EngineSM Model.EngineDomain
                       Model.EngineDomain16 Spec.RefExpand Spec.RefExpand16
                       Proofs.StrProofs Proofs.EngineStr Proofs.EngineRepl Proofs.EngineC17 Proofs.EnginePipe Proofs.EngineC16
                       Proofs.EngineBlock Proofs.EngineMsg Proofs.EngineEv Proofs.EngineTT Proofs.EngineTps Proofs.TagFree Proofs.EngineTrans.
Import ListNotations.
Open Scope string_scope.
Open Scope list_scope.

(* ---------------------------------------------------------------- items and what they look like between the stages *)
Definition item_tags (it : item16) : option (string * string) :=
  match it with Text _ => None | Raw _ => None | Block k _ _ _ => Some (stage_tags k) | SigBlock _ _ _ => Some sig_tags
              | TransBlock _ _ _ => Some pst_tags | EvBlock _ _ _ => Some (stage_tags KEvent) | MsgBlock _ _ _ _ => Some (stage_tags KMsg) | InitLine _ => None | UserLine _ => None | TableLine _ _ => None end.
Definition item_lines (it : item16) : list string :=
  match it with Text _ => [] | Raw _ => [] | Block _ _ _ b => map render_line b | SigBlock _ _ b => map render_line b
              | TransBlock _ _ b => flat_map render_titem b | EvBlock _ _ b => map render_line b | MsgBlock _ _ _ b => map render_line b | InitLine _ => [] | UserLine _ => [] | TableLine _ _ => [] end.
Definition item_bl (it : item16) : string :=
  match it with Text _ => EmptyString | Raw _ => EmptyString | Block k ib _ _ => (ib ++ begin_line (block_word k))%string
              | SigBlock ib _ _ => (ib ++ begin_line "PER_ACTION_SIGNATURE")%string
              | TransBlock ib _ _ => (ib ++ begin_line "PER_STATETRANSITION")%string | EvBlock ib _ _ => (ib ++ begin_line "PER_EVENT")%string | MsgBlock ib _ _ _ => (ib ++ begin_line "PER_MSG")%string | InitLine _ => EmptyString | UserLine _ => EmptyString | TableLine _ _ => EmptyString end.
Definition item_el (it : item16) : string :=
  match it with Text _ => EmptyString | Raw _ => EmptyString | Block k _ ie _ => (ie ++ end_line (block_word k))%string
              | SigBlock _ ie _ => (ie ++ end_line "PER_ACTION_SIGNATURE")%string
              | TransBlock _ ie _ => (ie ++ end_line "PER_STATETRANSITION")%string | EvBlock _ ie _ => (ie ++ end_line "PER_EVENT")%string | MsgBlock _ ie sfx _ => (ie ++ "<<<PER_MSG_END>>>" ++ sfx ++ nl_str)%string | InitLine _ => EmptyString | UserLine _ => EmptyString | TableLine _ _ => EmptyString end.
Definition item_inner (m : smodel) (it : item16) : list string -> option string -> option (list string) :=
  match it with
  | Text _ => fun _ _ => None
  | Raw _ => fun _ _ => None
  | Block k _ _ _ => match k with
                     | KMsg => inner_msgs (if_msgids m) (if_msgs m)
                     | KEvent => inner_events (if_sigs m) (sm_events m)
                     | _ => inner_of_kind k (items_of (elements_of_model m) k)
                     end
  | SigBlock _ _ _ => inner_actionsigs (sm_actionsigs m)
  | TransBlock _ _ _ => inner_tps (sm_tps m)
  | EvBlock _ _ _ => inner_events (if_sigs m) (sm_events m)
  | MsgBlock _ _ _ _ => inner_msgs (if_msgids m) (if_msgs m)
  | InitLine _ => fun _ _ => None
  | UserLine _ => fun _ _ => None
  | TableLine _ _ => fun _ _ => None
  end.

Definition inb (y : string) (l : list string) : bool := existsb (String.eqb y) l.

(* after the stages whose begin tags are in [done] *)
Definition view (e : elements) (done : list string) (it : item16) : list string :=
  match item_tags it with
  | Some (b, _) => if inb b done then ref_item16 e it else render_item16 it
  | None => match it with
            | InitLine _ => ref_item16 e it
            | TableLine _ ee => if inb (ttt_tag ee) done then ref_item16 e it else render_item16 it
            | _ => render_item16 it
            end
  end.

Lemma render_block_shape it b e : item_tags it = Some (b, e) ->
  render_item16 it = item_bl it :: item_lines it ++ [item_el it].
Proof. destruct it; cbn [item_tags]; intros H; try discriminate; reflexivity. Qed.

(* the admission of an item for the element lists, as far as the expander stages need it: a user line's condition (about the
   user-tag phase) is not needed there *)
Definition wf_x (e : elements) (it : item16) : bool := match it with UserLine _ => true | _ => item16_wf e it end.

Lemma wf_x_of_wf e it : item16_wf e it = true -> wf_x e it = true.
Proof. destruct it; try (intros H; exact H). intros _. reflexivity. Qed.

Lemma wf_x_user a e it : wf_x (with_user a e) it = wf_x e it.
Proof. destruct it as [l|rs|k ib ie body|ib ie body|ib ie body|ib ie body|ib ie sfx body|il|ul|pre ee]; try reflexivity. Qed.

(* the block theorems, per item *)
Lemma item_expands m it :
  item16_ok it = true -> wf_x (elements_of_model m) it = true -> item_tags it <> None ->
  item_inner m it (item_lines it) None = Some (ref_item16 (elements_of_model m) it).
Proof.
  destruct it as [l|rs|k ib ie body|ib ie body|ib ie body|ib ie body|ib ie sfx body|il|ul|pre ee]; cbn [item16_ok wf_x item16_wf item_tags item_inner item_lines ref_item16]; intros Ho Hw Hn.
  - contradiction.
  - contradiction.
  - apply andb_prop in Ho as [_ Ho]. destruct k; try (apply inner_block; assumption).
    + cbn [items_of elements_of_model el_events table_of_kind] in *. apply plain_ev_block_is_ref; assumption.
    + cbn [items_of elements_of_model el_msgs table_of_kind] in *. apply plain_msg_block_is_ref; assumption.
  - apply andb_prop in Ho as [_ Ho]. cbn [elements_of_model el_sigs]. apply sig_block_is_ref; assumption.
  - apply andb_prop in Ho as [_ Ho]. cbn [elements_of_model el_tps] in *. apply inner_tps_is_ref; assumption.
  - apply andb_prop in Ho as [_ Ho]. cbn [elements_of_model el_events el_evsigs] in *. apply ev_block_is_ref; assumption.
  - apply andb_prop in Ho as [_ Ho]. cbn [elements_of_model el_msgs el_msgids] in *. apply andb_prop in Hw as [Hi Hw]. apply msg_block_is_ref; assumption.
  - contradiction.
  - contradiction.
  - contradiction.
Qed.

Lemma msg_keys_same ids name i : map fst (msg_table ids name i) = msg_keys.
Proof. reflexivity. Qed.

Lemma keys_same k name i : map fst (table_of_kind k name i) = keys_of k.
Proof. destruct k; reflexivity. Qed.
Lemma sig_keys_same ae i : map fst (sig_table ae i) = sig_keys.
Proof. reflexivity. Qed.

Lemma ref_block_tagfree {A} (tb : A -> nat -> list (string * string)) keys :
  (forall x i, map fst (tb x i) = keys) -> forall body, forallb (body_line_ok keys) body = true ->
  forall items k,
  forallb (fun ix => forallb (fun kv => no_lg (snd kv)) (tb (snd ix) (fst ix))
                     && forallb (fun l => let out := render_line (map (subst16 (tb (snd ix) (fst ix))) l) in
                                          negb (isspace out) && negb (unmodelled out)) body) (enumerate_from k items) = true ->
  forallb tagfree (flat_map (fun ix => map (fun l => render_line (map (subst16 (tb (snd ix) (fst ix))) l)) body) (enumerate_from k items)) = true.
Proof.
  intros Hk body Hb. induction items as [|x items IH]; intros k W; [reflexivity|].
  cbn [enumerate_from forallb fst snd] in W. apply andb_prop in W as [W1 W]. apply andb_prop in W1 as [Wv _].
  cbn [enumerate_from flat_map fst snd]. rewrite forallb_app', (IH (S k) W), andb_true_r.
  clear IH W. induction body as [|l body IHb]; [reflexivity|].
  cbn [forallb] in Hb. apply andb_prop in Hb as [H1 H2]. cbn [map forallb]. rewrite (IHb H2), andb_true_r.
  unfold body_line_ok in H1. repeat (apply andb_prop in H1 as [H1 ?K]).
  apply copy_tagfree; [exact H1| rewrite Hk; exact K2 | exact Wv].
Qed.

Lemma ev_block_tagfree sigs items body : ev_block_wf sigs items body = true -> forallb tagfree (ref_ev_block sigs items body) = true.
Proof.
  unfold ev_block_wf, ref_ev_block. generalize 0. induction items as [|x items IH]; intros k W; [reflexivity|].
  cbn [enumerate_from forallb flat_map fst snd] in *. apply andb_prop in W as [W1 W]. rewrite forallb_app', (IH _ W), andb_true_r.
  apply andb_prop in W1 as [_ W1]. clear -W1. induction body as [|l body IHb]; [reflexivity|]. cbn [forallb map] in *. apply andb_prop in W1 as [A B].
  rewrite (IHb B), andb_true_r. apply andb_prop in A as [_ A]. exact A.
Qed.

Lemma expanded_tagfree e it : item16_ok it = true -> wf_x e it = true -> item_tags it <> None ->
  forallb tagfree (ref_item16 e it) = true.
Proof.
  destruct it as [l|rs|k ib ie body|ib ie body|ib ie body|ib ie body|ib ie sfx body|il|ul|pre ee]; cbn [item16_ok wf_x item16_wf item_tags ref_item16]; intros Ho Hw Hn; [contradiction|contradiction| | | | | |contradiction|contradiction|contradiction].
  - apply andb_prop in Ho as [_ Ho]. unfold ref_block, block_wf in *. apply (ref_block_tagfree (table_of_kind k) (keys_of k) (keys_same k) body Ho _ 0 Hw).
  - apply andb_prop in Ho as [_ Ho]. unfold ref_block, block_wf in *. apply (ref_block_tagfree sig_table sig_keys sig_keys_same body Ho _ 0 Hw).
  - apply andb_prop in Ho as [_ Ho]. apply ref_trans_tagfree; assumption.
  - apply ev_block_tagfree. exact Hw.
  - apply andb_prop in Ho as [_ Ho]. apply andb_prop in Hw as [_ Hw]. unfold ref_block, block_wf in *.
    apply (ref_block_tagfree (msg_table (el_msgids e)) msg_keys (msg_keys_same (el_msgids e)) body Ho _ 0 Hw).
Qed.

Lemma text_tagfree l : text_ok l = true -> tagfree (l ++ nl_str)%string = true /\ (count_char LF (l ++ nl_str)%string <=? 1)%nat = true.
Proof.
  unfold text_ok. intros H. apply andb_prop in H as [H1 H2]. split.
  - unfold tagfree. apply no3_app; [exact H1|reflexivity].
  - clear H1. induction l as [|c l IH]; [reflexivity|]. cbn [no_char] in H2. apply andb_prop in H2 as [Hc H2].
    apply negb_true_iff in Hc. cbn [append count_char]. rewrite Hc. cbn [Nat.add]. apply IH. exact H2.
Qed.

Definition is_init (it : item16) : bool := match it with InitLine _ => true | UserLine _ => true | TableLine _ _ => true | _ => false end.   (* not plain text *)

Lemma plain_item_line it : item_tags it = None -> is_init it = false -> item16_ok it = true ->
  exists s, render_item16 it = [s] /\ (forall e, ref_item16 e it = [s]) /\ tagfree s = true /\ (count_char LF s <=? 1)%nat = true.
Proof.
  destruct it as [l|rs|k ib ie body|ib ie body|ib ie body|ib ie body|ib ie sfx body|il|ul|pre ee]; cbn [item_tags item16_ok is_init]; intros T I H; try discriminate.
  - destruct (text_tagfree l H) as [A B]. exists (l ++ nl_str)%string. repeat split; auto.
  - apply andb_prop in H as [A B]. exists rs. repeat split; auto.
Qed.

(* a line that mentions the initial state, after filterInitialState *)
Lemma init_item_tagfree e il : item16_ok (InitLine il) = true -> item16_wf e (InitLine il) = true ->
  tagfree (render_line (map (subst16 (init_table (el_first e))) il)) = true.
Proof.
  cbn [item16_ok item16_wf]. intros Ho Hw. apply andb_prop in Ho as [Ho _]. apply andb_prop in Ho as [H1 H2].
  apply copy_tagfree; [exact H1|exact H2|exact Hw].
Qed.

(* ---------------------------------------------------------------- the begin / end lines of a block *)
Lemma item_lines_ok it tags : item16_ok it = true -> item_tags it = Some tags ->
  block_lines_ok tags (item_bl it) (item_el it) = true.
Proof.
  destruct it as [l|rs|k ib ie body|ib ie body|ib ie body|ib ie body|ib ie sfx body|il|ul|pre ee]; cbn [item16_ok item_tags item_bl item_el]; intros H T; inversion T; subst;
    apply andb_prop in H as [H _]; exact H.
Qed.

Lemma const_facts tags bl el st : block_lines_ok tags bl el = true -> In st all_stages -> own_stage st tags = false ->
  stage_inert bl st = true /\ stage_inert el st = true.
Proof.
  unfold block_lines_ok. intros H Hst Ho. apply andb_prop in H as [H _]. apply andb_prop in H as [H _]. apply andb_prop in H as [_ C].
  rewrite forallb_forall in C. specialize (C st Hst). rewrite Ho in C. cbn [orb] in C. apply andb_prop in C. exact C.
Qed.

Lemma const_load tags bl el : block_lines_ok tags bl el = true -> load_inert bl = true /\ load_inert el = true.
Proof. unfold block_lines_ok. intros H. apply andb_prop in H as [H L2]. apply andb_prop in H as [_ L1]. auto. Qed.

Lemma item_lines_inert it : item16_ok it = true -> forallb inert (item_lines it) = true.
Proof.
  assert (B : forall keys body, forallb (body_line_ok keys) body = true -> forallb inert (map render_line body) = true).
  { intros keys. induction body as [|l body IH]; [reflexivity|]. cbn [forallb map]. intros H. apply andb_prop in H as [H1 H2].
    rewrite (IH H2), andb_true_r. unfold body_line_ok in H1. repeat (apply andb_prop in H1 as [H1 ?K]). unfold inert. rewrite K0, K. reflexivity. }
  destruct it as [l|rs|k ib ie body|ib ie body|ib ie body|ib ie body|ib ie sfx body|il|ul|pre ee]; cbn [item16_ok item_lines]; intros H; try reflexivity;
    apply andb_prop in H as [_ H]; [exact (B _ _ H)|exact (B _ _ H)|exact (trans_lines_inert _ H)| |exact (B _ _ H)].
  apply (B ev_keys). revert H. apply forallb_impl. intros l Hl. unfold ev_line_ok in Hl. apply andb_prop in Hl as [Hl _]. exact Hl.
Qed.

Lemma lines_stage_inert st ls : In st all_stages -> forallb inert ls = true -> forallb (fun s => stage_inert s st) ls = true.
Proof.
  intros Hst. apply forallb_impl. intros s H. unfold inert in H. apply andb_prop in H as [_ H].
  unfold expand_inert in H. rewrite forallb_forall in H. apply H. exact Hst.
Qed.

(* the stage is not the item's own pending one *)
Definition pending_ok (st : stage) (done : list string) (it : item16) : Prop :=
  match it with
  | TableLine _ ee => own_single st ee = false \/ inb (ttt_tag ee) done = true
  | _ => match item_tags it with Some tags => own_stage st tags = false \/ inb (fst tags) done = true | None => True end
  end.

Lemma table_item_tagfree e pre ee : item16_wf e (TableLine pre ee) = true -> forallb tagfree (ref_item16 e (TableLine pre ee)) = true.
Proof. cbn [item16_wf ref_item16]. intros H. exact H. Qed.

(* every line of an item, as it looks after the stages in [done], is inert for a stage that is not the item's own pending one *)
Lemma view_lines_inert e done it st :
  In st all_stages -> item16_ok it = true -> wf_x e it = true -> pending_ok st done it ->
  forallb (fun s => stage_inert s st) (view e done it) = true.
Proof.
  intros Hst Ho Hw Hown. unfold view. destruct (item_tags it) as [[b e']|] eqn:T.
  - assert (Hown' : match item_tags it with Some tags => own_stage st tags = false \/ inb (fst tags) done = true | None => True end)
      by (destruct it; try exact Hown; cbn [item_tags] in T; discriminate).
    rewrite T in Hown'.
    clear Hown. rename Hown' into Hown. cbn [fst] in Hown. destruct (inb b done) eqn:D.
    + apply (forallb_impl tagfree); [intros s Hs; apply tagfree_stage_inert; exact Hs|].
      apply expanded_tagfree; [assumption|assumption|rewrite T; discriminate].
    + destruct Hown as [Hown|Hown]; [|discriminate].
      rewrite (render_block_shape it b e' T). destruct (const_facts _ _ _ st (item_lines_ok it _ Ho T) Hst Hown) as [Cb Ce]. cbn [forallb]. rewrite Cb. cbn [andb]. rewrite forallb_app'.
      rewrite (lines_stage_inert st _ Hst (item_lines_inert it Ho)). cbn [forallb andb]. rewrite Ce. reflexivity.
  - destruct (is_init it) eqn:I.
    + destruct it as [l|rs|k ib ie body|ib ie body|ib ie body|ib ie body|ib ie sfx body|il|ul|pre ee]; try discriminate.
      * cbn [ref_item16 forallb]. rewrite (tagfree_stage_inert _ st (init_item_tagfree e _ Ho Hw)). reflexivity.
      * (* a user line: as it stands, inert for every stage *)
        cbn [render_item16 forallb item16_ok] in *. rewrite andb_true_r. unfold plain_line_ok in Ho. apply andb_prop in Ho as [Ho _]. apply andb_prop in Ho as [_ Ho].
        unfold common_inert in Ho. apply andb_prop in Ho as [_ Ho]. unfold expand_inert in Ho. rewrite forallb_forall in Ho. exact (Ho st Hst).
      * unfold pending_ok in Hown. destruct (inb (ttt_tag ee) done) eqn:D.
        -- apply (forallb_impl tagfree); [intros s Hs; apply tagfree_stage_inert; exact Hs|]. apply table_item_tagfree. exact Hw.
        -- destruct Hown as [Hown|Hown]; [|discriminate]. cbn [render_item16 forallb]. rewrite andb_true_r.
           cbn [item16_ok] in Ho. apply andb_prop in Ho as [_ Ho]. rewrite forallb_forall in Ho. specialize (Ho st Hst). rewrite Hown in Ho. exact Ho.
    + destruct (plain_item_line it T I Ho) as (s0 & R & _ & Tf & _).
      assert (V : match it with InitLine _ => ref_item16 e it | TableLine _ ee => if inb (ttt_tag ee) done then ref_item16 e it else render_item16 it | _ => render_item16 it end = render_item16 it)
        by (destruct it; try discriminate; reflexivity).
      rewrite V, R. cbn [forallb]. rewrite (tagfree_stage_inert _ st Tf). reflexivity.
Qed.

(* ---------------------------------------------------------------- a stage that is nobody's pending own stage: identity *)
Section Steps.
  Variables (m : smodel) (t : template16).
  Let e := elements_of_model m.
  Hypothesis Hok : forallb item16_ok t = true.
  Hypothesis Hwf : forallb (wf_x e) t = true.

  Lemma In_ok it : In it t -> item16_ok it = true /\ wf_x e it = true.
  Proof. intros H. rewrite forallb_forall in Hok, Hwf. auto. Qed.

  Lemma step_id st done :
    In st all_stages -> stage_total m st = true ->
    (forall it, In it t -> pending_ok st done it) ->
    apply_stage m (Some (flat_map (view e done) t)) st = Some (flat_map (view e done) t).
  Proof.
    intros Hst Htot Hown. apply apply_stage_id; [exact Htot|]. intros l Hl. apply in_flat_map in Hl as (it & Hit & Hl).
    destruct (In_ok it Hit) as [Ho Hw].
    assert (F : forallb (fun s => stage_inert s st) (view e done it) = true).
    { apply view_lines_inert; try assumption. exact (Hown it Hit). }
    rewrite forallb_forall in F. apply F. exact Hl.
  Qed.

  (* the own stage of some items: their blocks are replaced by the reference blocks *)
  Lemma step_own b et f inner coll done :
    let st : stage := ("Pair", b, et, inner, coll) in
    In st all_stages -> inb b done = false -> (forall ee, String.eqb (ttt_tag ee) b = false) ->
    (forall it tags, In it t -> item_tags it = Some tags -> String.eqb (fst tags) b = true ->
        snd tags = et /\ forall x, f x None = item_inner m it x None) ->
    pair_expand b et f (flat_map (view e done) t) = Some (flat_map (view e (b :: done)) t).
  Proof.
    intros st Hst Hnd Hpair Hown. unfold pair_expand.
    assert (G : forall t', (forall it, In it t' -> In it t) ->
                pair_go b et f false [] None (flat_map (view e done) t') = Some (flat_map (view e (b :: done)) t')).
    { induction t' as [|it t' IH]; intros Hsub; [reflexivity|].
      assert (Hit : In it t) by (apply Hsub; left; reflexivity).
      assert (IH' := IH (fun x Hx => Hsub x (or_intror Hx))). clear IH.
      destruct (In_ok it Hit) as [Ho Hw]. cbn [flat_map].
      assert (NotOwn : pending_ok st done it ->
                       view e (b :: done) it = view e done it ->
                       pair_go b et f false [] None (view e done it ++ flat_map (view e done) t')
                       = Some (view e (b :: done) it ++ flat_map (view e (b :: done)) t')).
      { intros Hcond Hsame. pose proof (view_lines_inert e done it st Hst Ho Hw Hcond) as F.
        assert (Hnb : forallb (not_be b et) (view e done it) = true).
        { apply (forallb_impl (fun s => stage_inert s st)); [|exact F]. intros s Hs. exact Hs. }
        rewrite (pb_pre b et f _ _ None Hnb), IH', Hsame. reflexivity. }
      destruct (item_tags it) as [[b' e']|] eqn:T.
      - destruct (String.eqb b' b) eqn:Eb.
        + apply String.eqb_eq in Eb. subst b'. destruct (Hown it (b, e') Hit T (String.eqb_refl b)) as [Ee Hf]. cbn [snd] in Ee. subst e'.
          unfold view at 1 3. rewrite T, Hnd. unfold inb at 1. cbn [existsb]. rewrite String.eqb_refl. cbn [orb].
          rewrite (render_block_shape it b et T).
          destruct (block_lines_facts _ _ _ (item_lines_ok it _ Ho T)) as (C & C3 & C2 & C1 & C0). cbn [fst snd] in C, C3, C2, C1, C0.
          assert (Hnb : forallb (not_be b et) (item_lines it) = true).
          { apply (forallb_impl (fun s => stage_inert s st)); [|exact (lines_stage_inert st _ Hst (item_lines_inert it Ho))]. intros s Hs. exact Hs. }
          cbn [app]. rewrite <- app_assoc. cbn [app].
          pose proof (pair_block b et f [] (item_bl it) (item_lines it) (item_el it)
                                 (flat_map (view e done) t') eq_refl Hnb C C3 C2 C1 C0) as PB.
          cbn [app] in PB. rewrite PB, Hf.
          rewrite (item_expands m it Ho Hw) by (rewrite T; discriminate). rewrite IH'. reflexivity.
        + apply NotOwn.
          * assert (P : match item_tags it with Some tags => own_stage st tags = false \/ inb (fst tags) done = true | None => True end)
              by (rewrite T; left; cbn [own_stage st fst]; rewrite Eb; reflexivity).
            destruct it; try exact P; cbn [item_tags] in T; discriminate.
          * unfold view. rewrite T. unfold inb. cbn [existsb]. rewrite Eb. reflexivity.
      - apply NotOwn.
        + destruct it as [l|rs|k ib ie body|ib ie body|ib ie body|ib ie body|ib ie sfx body|il|ul|pre ee]; try (cbn [item_tags] in T; discriminate T); try exact I.
          left. reflexivity.
        + unfold view. rewrite T. destruct it as [l|rs|k ib ie body|ib ie body|ib ie body|ib ie body|ib ie sfx body|il|ul|pre ee]; try reflexivity.
          (* a table line: the begin tag of a pair stage is not its tag *)
          unfold inb. cbn [existsb]. rewrite (Hpair ee). reflexivity. }
    apply G. auto.
  Qed.
End Steps.

(* ---------------------------------------------------------------- all stages of expand_secondfiltering, in source order *)
Definition stage_kind (st : stage) : string := let '(kind, _, _, _, _) := st in kind.
Definition stage_b (st : stage) : string := let '(_, b, _, _, _) := st in b.
Definition marks (st : stage) : bool := String.eqb (stage_kind st) "Pair" || String.eqb (stage_kind st) "Single".

Definition done_after (done : list string) (st : stage) : list string :=
  if marks st then stage_b st :: done else done.

Fixpoint fresh_b (stages : list stage) (done : list string) : bool :=
  match stages with
  | [] => true
  | st :: r => (negb (marks st) || negb (inb (stage_b st) done)) && fresh_b r (done_after done st)
  end.

Lemma ttt_tags_differ ee ee' : String.eqb (ttt_tag ee') (ttt_tag ee) = Bool.eqb ee' ee.
Proof. destruct ee, ee'; reflexivity. Qed.

Lemma stage_cases m st : In st all_stages ->
  (marks st = false /\ stage_total m st = true)
  \/ (exists b inner coll, st = ("Single", b, "", inner, coll) /\
        ((single_of m inner coll = None /\ forall ee, String.eqb (ttt_tag ee) b = false)
         \/ (exists ee, b = ttt_tag ee /\ single_of m inner coll = Some (sml_print (sm_states m) (sm_rows m) ee)))
        /\ forall it tags, item_tags it = Some tags -> String.eqb (fst tags) b = false)
  \/ (exists b et inner coll f, st = ("Pair", b, et, inner, coll) /\ inner_of m inner coll = Some f
      /\ (forall ee, String.eqb (ttt_tag ee) b = false)
      /\ forall it tags, item_tags it = Some tags -> String.eqb (fst tags) b = true ->
           snd tags = et /\ forall x, f x None = item_inner m it x None).
Proof.
  unfold all_stages, second_stages, second_stages_iface. cbn [app In]. intros H.
  repeat (destruct H as [H|H]; [subst st;
    first [ left; split; reflexivity
          | right; left; do 3 eexists; split; [reflexivity|]; split;
            [first [ left; split; [reflexivity|intros []; reflexivity] | right; exists true; split; reflexivity | right; exists false; split; reflexivity ]
            |intros it tags T; destruct it as [l|rs|k ib ie body|ib ie body|ib ie body|ib ie body|ib ie sfx body|il|ul|pre ee]; cbn [item_tags] in T; try discriminate;
             inversion T; subst tags; clear T; try destruct k; reflexivity]
          | right; right; do 5 eexists; split; [reflexivity|]; split; [reflexivity|]; split; [intros []; reflexivity|];
            intros it tags T E; destruct it as [l|rs|k ib ie body|ib ie body|ib ie body|ib ie body|ib ie sfx body|il|ul|pre ee]; cbn [item_tags] in T; [discriminate|discriminate| | | | | |discriminate|discriminate|discriminate];
            inversion T; subst tags; clear T; [destruct k| | | |]; cbn [fst snd stage_tags sig_tags pst_tags] in *;
            first [ split; [reflexivity|intros x; reflexivity] | vm_compute in E; discriminate E ] ] |]).
  contradiction.
Qed.

Lemma apply_stage_pair m ls b et inner coll :
  apply_stage m (Some ls) ("Pair", b, et, inner, coll)
  = match inner_of m inner coll with Some f => pair_expand b et f ls | None => None end.
Proof. reflexivity. Qed.

Lemma apply_stage_single m ls b inner coll :
  apply_stage m (Some ls) ("Single", b, "", inner, coll)
  = match single_of m inner coll with
    | Some f => Some (single_expand b f ls)
    | None => if existsb (fun l => hasSpecificTag l b) ls then None else Some ls
    end.
Proof. reflexivity. Qed.

Lemma flat_map_flat_map {A B C} (g : B -> list C) (f : A -> list B) l : flat_map g (flat_map f l) = flat_map (fun x => flat_map g (f x)) l.
Proof. induction l as [|x l IH]; [reflexivity|]. cbn [flat_map]. rewrite flat_map_app, IH. reflexivity. Qed.

Lemma flat_map_ext_in' {A B} (f g : A -> list B) l : (forall x, In x l -> f x = g x) -> flat_map f l = flat_map g l.
Proof. intros H. induction l as [|x l IH]; [reflexivity|]. cbn [flat_map]. rewrite (H x (or_introl eq_refl)), IH; [reflexivity|]. intros y Hy. apply H. right. exact Hy. Qed.

Section Single.
  Variables (m : smodel) (t : template16).
  Let e := elements_of_model m.
  Hypothesis Hok : forallb item16_ok t = true.
  Hypothesis Hwf : forallb (wf_x e) t = true.

  (* a single-tag stage: the table lines that carry its tag are replaced by the printed table, everything else stays *)
  Lemma step_single b inner coll done :
    let st : stage := ("Single", b, "", inner, coll) in
    In st all_stages -> inb b done = false ->
    ((single_of m inner coll = None /\ forall ee, String.eqb (ttt_tag ee) b = false)
     \/ (exists ee, b = ttt_tag ee /\ single_of m inner coll = Some (sml_print (sm_states m) (sm_rows m) ee))) ->
    (forall it tags, item_tags it = Some tags -> String.eqb (fst tags) b = false) ->
    apply_stage m (Some (flat_map (view e done) t)) st = Some (flat_map (view e (b :: done)) t).
  Proof.
    intros st Hst Hnd Hcase Hpair. unfold st. rewrite apply_stage_single.
    (* items whose view does not change and whose lines the stage leaves alone *)
    assert (Other : forall it, In it t -> (forall pre ee, it = TableLine pre ee -> String.eqb (ttt_tag ee) b = false) ->
              view e (b :: done) it = view e done it /\ forallb (fun s => negb (hasSpecificTag s b)) (view e done it) = true).
    { intros it Hit Hnt. destruct (In_ok m t Hok Hwf it Hit) as [Ho Hw]. split.
      - unfold view. destruct (item_tags it) as [[b' et']|] eqn:T.
        + unfold inb. cbn [existsb]. pose proof (Hpair it _ T) as P. cbn [fst] in P. rewrite P. reflexivity.
        + destruct it as [l|rs|k ib ie body|ib ie body|ib ie body|ib ie body|ib ie sfx body|il|ul|pre ee]; try reflexivity.
          unfold inb. cbn [existsb]. rewrite (Hnt pre ee eq_refl). reflexivity.
      - apply (view_lines_inert e done it st Hst Ho Hw).
        destruct it as [l|rs|k ib ie body|ib ie body|ib ie body|ib ie body|ib ie sfx body|il|ul|pre ee]; cbn [pending_ok item_tags]; try exact I; try (left; reflexivity).
        left. unfold own_single, st. cbn [String.eqb andb]. rewrite String.eqb_sym. rewrite (Hnt pre ee eq_refl). reflexivity. }
    destruct Hcase as [[Hn Hno]|(ee & -> & Hs)].
    - rewrite Hn.
      assert (V : flat_map (view e (b :: done)) t = flat_map (view e done) t).
      { apply flat_map_ext_in'. intros it Hit. apply (Other it Hit). intros pre ee _. apply Hno. }
      rewrite V.
      assert (E : existsb (fun l => hasSpecificTag l b) (flat_map (view e done) t) = false).
      { apply not_true_iff_false. intros E. apply existsb_exists in E as (l & Hl & E). apply in_flat_map in Hl as (it & Hit & Hl).
        destruct (Other it Hit (fun pre ee _ => Hno ee)) as [_ F]. rewrite forallb_forall in F. specialize (F l Hl). rewrite E in F. discriminate. }
      rewrite E. reflexivity.
    - rewrite Hs. f_equal. unfold single_expand. rewrite flat_map_flat_map. apply flat_map_ext_in'. intros it Hit.
      destruct (In_ok m t Hok Hwf it Hit) as [Ho Hw].
      assert (Own : forall pre ee', it = TableLine pre ee' -> Bool.eqb ee' ee = true ->
                flat_map (fun l => if hasSpecificTag l (ttt_tag ee) then sml_print (sm_states m) (sm_rows m) ee (getWhitespace l) else [l]) (view e done it)
                = view e (ttt_tag ee :: done) it).
      { intros pre ee' -> Eb. apply Bool.eqb_prop in Eb. subst ee'. unfold view. cbn [item_tags]. rewrite Hnd. unfold inb at 1. cbn [existsb]. rewrite String.eqb_refl. cbn [orb].
        cbn [render_item16 flat_map item16_ok] in *. do 3 (apply andb_prop in Ho as [Ho ?K]). apply String.eqb_eq in K0. rewrite K1, K0, app_nil_r. reflexivity. }
      assert (Gen : forall it', In it' t -> (forall pre ee0, it' = TableLine pre ee0 -> String.eqb (ttt_tag ee0) (ttt_tag ee) = false) ->
                flat_map (fun l => if hasSpecificTag l (ttt_tag ee) then sml_print (sm_states m) (sm_rows m) ee (getWhitespace l) else [l]) (view e done it')
                = view e (ttt_tag ee :: done) it').
      { intros it' Hit' Hnt. destruct (Other it' Hit' Hnt) as [V F]. rewrite V. clear V.
        induction (view e done it') as [|x xs IHx]; [reflexivity|]. cbn [forallb flat_map] in *. apply andb_prop in F as [F1 F2].
        apply negb_true_iff in F1. rewrite F1, (IHx F2). reflexivity. }
      destruct it as [l|rs|k ib ie body|ib ie body|ib ie body|ib ie body|ib ie sfx body|il|ul|pre ee']; try (apply Gen; [exact Hit|intros ? ? E; discriminate E]).
      destruct (Bool.eqb ee' ee) eqn:Eb; [exact (Own pre ee' eq_refl Eb)|].
      apply Gen; [exact Hit|]. intros ? ? E. inversion E; subst. rewrite ttt_tags_differ. exact Eb.
  Qed.
End Single.

Section Compose.
  Variables (m : smodel) (t : template16).
  Notation e := (elements_of_model m).
  Hypothesis Hok : forallb item16_ok t = true.
  Hypothesis Hwf : forallb (wf_x e) t = true.

  Lemma fold_stages : forall stages done,
    (forall st, In st stages -> In st all_stages) -> fresh_b stages done = true ->
    fold_left (apply_stage m) stages (Some (flat_map (view e done) t))
    = Some (flat_map (view e (fold_left done_after stages done)) t).
  Proof.
    induction stages as [|st stages IH]; intros done Hin Hf; [reflexivity|].
    cbn [fresh_b] in Hf. apply andb_prop in Hf as [Hf1 Hf2]. cbn [fold_left].
    assert (Hst : In st all_stages) by (apply Hin; left; reflexivity).
    assert (Hin' : forall s, In s stages -> In s all_stages) by (intros s Hs; apply Hin; right; exact Hs).
    destruct (stage_cases m st Hst) as [[Hk Ht]|[(b & inner & coll & Est & Hcase & Hpair)|(b & et & inner & coll & f & Est & Ef & Hnt & Hown)]].
    - rewrite (step_id m t Hok Hwf st done Hst Ht).
      + unfold done_after at 2. rewrite Hk. apply IH; [exact Hin'|]. unfold done_after in Hf2. rewrite Hk in Hf2. exact Hf2.
      + intros it _. destruct st as [[[[kind b0] e0] i0] c0]. unfold marks in Hk. cbn [stage_kind] in Hk. apply orb_false_elim in Hk as [Hk1 Hk2].
        destruct it as [l|rs|k ib ie body|ib ie body|ib ie body|ib ie body|ib ie sfx body|il|ul|pre ee]; cbn [pending_ok item_tags]; try exact I; left; cbn [own_stage own_single]; rewrite ?Hk1, ?Hk2; reflexivity.
    - subst st. unfold marks in Hf1. cbn [stage_kind stage_b String.eqb] in Hf1. cbn in Hf1. apply negb_true_iff in Hf1.
      rewrite (step_single m t Hok Hwf b inner coll done Hst Hf1 Hcase (fun it tags T => Hpair it tags T)).
      change (done_after done ("Single", b, "", inner, coll)) with (b :: done). apply IH; [exact Hin'|]. exact Hf2.
    - subst st. unfold marks in Hf1. cbn [stage_kind stage_b] in Hf1. rewrite String.eqb_refl in Hf1. cbn [negb orb] in Hf1. apply negb_true_iff in Hf1.
      rewrite apply_stage_pair, Ef.
      rewrite (step_own m t Hok Hwf b et f inner coll done Hst Hf1 Hnt).
      + change (done_after done ("Pair", b, et, inner, coll)) with (b :: done). apply IH; [exact Hin'|]. exact Hf2.
      + intros it tags _ T E. exact (Hown it tags T E).
  Qed.

  Definition done_final : list string := fold_left done_after all_stages [].

  Lemma fresh_all : fresh_b all_stages [] = true.
  Proof. vm_compute. reflexivity. Qed.

  Lemma all_done it tags : item_tags it = Some tags -> inb (fst tags) done_final = true.
  Proof.
    destruct it as [l|rs|k ib ie body|ib ie body|ib ie body|ib ie body|ib ie sfx body|il|ul|pre ee]; cbn [item_tags]; intros T; inversion T; subst; [destruct k| | | |]; vm_compute; reflexivity.
  Qed.

  Lemma view_final : flat_map (view e done_final) t = flat_map (mid_item16 e) t.
  Proof.
    clear Hok Hwf. induction t as [|it t' IH]; [reflexivity|]. cbn [flat_map]. rewrite IH. f_equal.
    unfold view. destruct (item_tags it) as [[b et]|] eqn:T.
    - pose proof (all_done it (b, et) T) as D. cbn [fst] in D. rewrite D. destruct it; cbn [item_tags] in T; try discriminate; reflexivity.
    - destruct it as [l|rs|k ib ie body|ib ie body|ib ie body|ib ie body|ib ie sfx body|il|ul|pre ee]; cbn [item_tags] in T; try discriminate; try reflexivity.
      assert (D : inb (ttt_tag ee) done_final = true) by (destruct ee; vm_compute; reflexivity). rewrite D. reflexivity.
  Qed.

  (* filterInitialState is the first stage: it rewrites exactly the lines that mention the initial state *)
  Definition init_stage : stage := ("Init", "", "", "filterInitialState", "").
  Definition rest_stages : list stage := tl all_stages.

  Lemma stages_split : all_stages = init_stage :: rest_stages.
  Proof. reflexivity. Qed.

  Lemma init_in : In init_stage all_stages.
  Proof. rewrite stages_split. left. reflexivity. Qed.

  Lemma init_fold_chain s :
    fold_left (fun acc tv => replace_all (fst tv) (if String.eqb (snd tv) "camel" then camel_case_small (sm_first m) else sm_first m) acc) init_state_tags s
    = chain (init_table (sm_first m)) s.
  Proof. reflexivity. Qed.

  Lemma view_initial : flat_map (view e []) t = filterInitialState m (render16 t).
  Proof.
    unfold render16. revert Hok Hwf. induction t as [|it t' IH]; intros Ho Hw; [reflexivity|].
    cbn [forallb] in Ho, Hw. apply andb_prop in Ho as [Hi Ho]. apply andb_prop in Hw as [Wi Hw].
    cbn [flat_map]. unfold filterInitialState in *. rewrite map_app, <- (IH Ho Hw). f_equal.
    destruct (match it with InitLine _ => true | _ => false end) eqn:I.
    - destruct it as [l|rs|k ib ie body|ib ie body|ib ie body|ib ie body|ib ie sfx body|il|ul|pre ee]; try discriminate.
      unfold view. cbn [item_tags ref_item16 render_item16 map elements_of_model el_first]. f_equal.
      rewrite init_fold_chain. symmetry. cbn [item16_ok wf_x item16_wf elements_of_model el_first] in Hi, Wi.
      apply andb_prop in Hi as [Hi _]. apply andb_prop in Hi as [H1 _].
      apply chain_render; [|exact H1].
      unfold init_table in *. cbn [forallb snd] in Wi. apply andb_prop in Wi as [W1 W2]. apply andb_prop in W2 as [W2 _].
      cbn [forallb]. unfold kv_ok. cbn [fst snd]. rewrite W1, W2. reflexivity.
    - assert (V : view e [] it = render_item16 it).
      { unfold view. destruct (item_tags it) as [[b et]|]; [reflexivity|]. destruct it; try discriminate; reflexivity. }
      pose proof (view_lines_inert e [] it init_stage init_in Hi Wi) as F.
      rewrite V in *. fold (filterInitialState m (render_item16 it)). symmetry. apply filterInitialState_id.
      intros l Hl.
      assert (C : pending_ok init_stage [] it)
        by (destruct it as [l0|rs|k ib ie body|ib ie body|ib ie body|ib ie body|ib ie sfx body|il|ul|pre ee]; cbn [pending_ok item_tags]; try exact Logic.I; left; reflexivity).
      specialize (F C). rewrite forallb_forall in F. exact (F l Hl).
  Qed.

  Lemma fresh_rest : fresh_b rest_stages [] = true.
  Proof. vm_compute. reflexivity. Qed.

  Lemma done_rest : fold_left done_after rest_stages [] = done_final.
  Proof. reflexivity. Qed.

  (* expand_secondfiltering on the rendered template: the lines that mention the initial state are rewritten, every block is
     replaced by its reference block *)
  Theorem second_filter16 : second_filter m (render16 t) = Some (flat_map (mid_item16 e) t).
  Proof.
    unfold second_filter. fold all_stages. rewrite stages_split. cbn [fold_left].
    change (apply_stage m (Some (render16 t)) init_stage) with (Some (filterInitialState m (render16 t))).
    rewrite <- view_initial.
    rewrite (fold_stages rest_stages [] (fun st H => or_intror H) fresh_rest). rewrite done_rest, view_final. reflexivity.
  Qed.
End Compose.

(* ---------------------------------------------------------------- the phases around expand_secondfiltering *)
Lemma ut_step_tagfree d dflts s : tagfree s = true -> ut_step d dflts ut_init s = (ut_init, [s]).
Proof. intros H. unfold ut_step. cbn [is_processing_if ut_init]. rewrite (tagfree_hasTag s H). reflexivity. Qed.

Lemma ut_scan_tagfree d dflts : forall ls, forallb tagfree ls = true -> ut_scan d dflts ut_init ls = ls.
Proof.
  induction ls as [|s ls IH]; [reflexivity|]. cbn [forallb]. intros H. apply andb_prop in H as [H1 H2].
  cbn [ut_scan]. rewrite (ut_step_tagfree d dflts s H1), (IH H2). reflexivity.
Qed.

Lemma do_for_plain ls : forallb for_plain ls = true -> do_for_lines ls = Some ls.
Proof.
  intros H. unfold do_for_lines. change for_stage with (TAG_FOR_BEGIN, TAG_FOR_END, snd for_stage). cbn iota. apply pair_go_id. intros l Hl.
  rewrite forallb_forall in H. specialize (H l Hl). unfold for_plain in H. apply andb_prop in H as [H1 H2]. apply negb_true_iff in H1, H2. split; assumption.
Qed.

Lemma tagfree_for_plain s : tagfree s = true -> for_plain s = true.
Proof. intros H. unfold for_plain. rewrite !(tagfree_specific s _ H). reflexivity. Qed.

Lemma do_for_tagfree ls : forallb tagfree ls = true -> do_for_lines ls = Some ls.
Proof. intros H. apply do_for_plain. revert H. apply forallb_impl. exact tagfree_for_plain. Qed.


Lemma item_no_user a e it : (match it with UserLine _ => false | _ => true end) = true ->
  ref_item16 (with_user a e) it = ref_item16 e it /\ item16_wf (with_user a e) it = item16_wf e it.
Proof. destruct it; try discriminate; intros _; split; reflexivity. Qed.

Lemma lines_no_user a e t : no_user_lines t = true -> flat_map (ref_item16 (with_user a e)) t = flat_map (ref_item16 e) t.
Proof.
  induction t as [|it t IH]; [reflexivity|]. cbn [no_user_lines forallb flat_map]. intros H. apply andb_prop in H as [H1 H2].
  fold (no_user_lines t) in H2. rewrite (IH H2), (proj1 (item_no_user a e it H1)). reflexivity.
Qed.

Lemma ref16_no_user a e t : no_user_lines t = true -> ref16 (with_user a e) t = ref16 e t.
Proof. intros H. unfold ref16. rewrite (lines_no_user a e t H). reflexivity. Qed.

Lemma wf_no_user a e t : no_user_lines t = true -> wf_elements16 t (with_user a e) = wf_elements16 t e.
Proof.
  unfold wf_elements16. induction t as [|it t IH]; [reflexivity|]. cbn [no_user_lines forallb]. intros H. apply andb_prop in H as [H1 H2].
  fold (no_user_lines t) in H2. rewrite (IH H2), (proj2 (item_no_user a e it H1)). reflexivity.
Qed.

Section Whole.
  Variables (m : smodel) (dict : list (string * string)) (t : template16) (a : usertags).
  Notation e0 := (elements_of_model m).
  Notation e := (with_user a e0).
  Hypothesis Hd : dict_ok dict = true.
  Hypothesis Hg : in_grammar16 t = true.
  Hypothesis Hw : wf_elements16 t e = true.

  Lemma grammar_items : forallb item16_ok t = true.
  Proof. unfold in_grammar16 in Hg. apply andb_prop in Hg. tauto. Qed.

  Lemma wf_items_x : forallb (wf_x e0) t = true.
  Proof.
    unfold wf_elements16 in Hw. revert Hw. apply forallb_impl. intros it H. rewrite <- (wf_x_user a). apply wf_x_of_wf. exact H.
  Qed.

  Lemma render16_load_inert : forallb load_inert (render16 t) = true.
  Proof.
    pose proof grammar_items as Ho. unfold render16. clear Hg Hw. induction t as [|it t' IH]; [reflexivity|].
    cbn [forallb] in Ho. apply andb_prop in Ho as [Hi Ho]. cbn [flat_map]. rewrite forallb_app', (IH Ho), andb_true_r.
    destruct (item_tags it) as [[b et]|] eqn:T.
    - rewrite (render_block_shape it b et T). destruct (const_load _ _ _ (item_lines_ok it _ Hi T)) as [Lb Le].
      cbn [forallb]. rewrite Lb. cbn [andb]. rewrite forallb_app'. cbn [forallb]. rewrite Le, !andb_true_r.
      generalize (item_lines_inert it Hi). apply forallb_impl. intros s0 K. unfold inert in K. apply andb_prop in K. tauto.
    - destruct (is_init it) eqn:I.
      + destruct it as [l|rs|k ib ie body|ib ie body|ib ie body|ib ie body|ib ie sfx body|il|ul|pre ee]; try discriminate; cbn [render_item16 forallb item16_ok] in *.
        * apply andb_prop in Hi as [_ Hi]. rewrite Hi. reflexivity.
        * unfold plain_line_ok in Hi. apply andb_prop in Hi as [Hi _]. apply andb_prop in Hi as [_ Hi]. unfold common_inert in Hi.
          apply andb_prop in Hi as [Hi _]. rewrite Hi. reflexivity.
        * do 3 (apply andb_prop in Hi as [Hi _]). rewrite Hi. reflexivity.
      + destruct (plain_item_line it T I Hi) as (s0 & R & _ & Tf & Tc). rewrite R. cbn [forallb]. rewrite (tagfree_load_inert _ Tf Tc). reflexivity.
  Qed.

  (* per item: after the expander stages its lines are tag-free, or it is a user line as it stands *)
  Lemma item_mid it : item16_ok it = true -> item16_wf e it = true ->
    (forallb tagfree (mid_item16 e0 it) = true /\ ref_item16 e it = mid_item16 e0 it)
    \/ exists l, it = UserLine l /\ plain_line_ok l = true /\ for_plain (ref_line a l) = true.
  Proof.
    intros Hi Wi. destruct (item_tags it) as [tags|] eqn:T.
    - left. assert (R : ref_item16 e it = mid_item16 e0 it) by (destruct it; cbn [item_tags] in T; try discriminate; reflexivity). split; [|exact R].
      rewrite <- R. apply expanded_tagfree; [exact Hi|apply wf_x_of_wf; exact Wi|rewrite T; discriminate].
    - destruct (is_init it) eqn:I.
      + destruct it as [l|rs|k ib ie body|ib ie body|ib ie body|ib ie body|ib ie sfx body|il|ul|pre ee]; try discriminate.
        * left. split; [|reflexivity]. cbn [mid_item16 ref_item16 forallb]. rewrite (init_item_tagfree e0 _ Hi Wi). reflexivity.
        * right. exists ul. cbn [item16_ok item16_wf el_user with_user] in *. auto.
        * left. split; [|reflexivity]. exact (table_item_tagfree e0 pre ee Wi).
      + left. destruct (plain_item_line it T I Hi) as (s0 & _ & R & Tf & _). split.
        * assert (M : mid_item16 e0 it = ref_item16 e0 it) by (destruct it; try discriminate; reflexivity). rewrite M, R. cbn [forallb]. rewrite Tf. reflexivity.
        * rewrite (R e). destruct it; try discriminate; cbn [mid_item16]; rewrite (R e0); reflexivity.
  Qed.

  (* the user-tag phase: user lines get their values / defaults, everything else is left alone *)
  Lemma usertags_phase dflts : ut_scan a dflts ut_init (flat_map (mid_item16 e0) t) = flat_map (ref_item16 e) t.
  Proof.
    pose proof grammar_items as Ho. unfold wf_elements16 in Hw. clear Hg. revert Ho Hw. induction t as [|it t' IH]; intros Ho Hw'; [reflexivity|].
    cbn [forallb] in Ho, Hw'. apply andb_prop in Ho as [Hi Ho]. apply andb_prop in Hw' as [Wi Hw'].
    cbn [flat_map]. destruct (item_mid it Hi Wi) as [[Tf R]|(l & -> & Hp & _)].
    - rewrite R. clear R. induction (mid_item16 e0 it) as [|s ls IHs]; [exact (IH Ho Hw')|].
      cbn [forallb app] in *. apply andb_prop in Tf as [T1 T2]. cbn [ut_scan]. rewrite (ut_step_tagfree a dflts s T1). cbn [app]. f_equal. exact (IHs T2).
    - cbn [mid_item16 ref_item16 app el_user with_user]. cbn [ut_scan].
      rewrite (step_plain_outside a dflts ut_init l Hp eq_refl). cbn [app can_process_else ut_init]. f_equal. exact (IH Ho Hw').
  Qed.

  Lemma ref_lines_for_plain : forallb for_plain (flat_map (ref_item16 e) t) = true.
  Proof.
    pose proof grammar_items as Ho. unfold wf_elements16 in Hw. clear Hg. revert Ho Hw. induction t as [|it t' IH]; intros Ho Hw'; [reflexivity|].
    cbn [forallb] in Ho, Hw'. apply andb_prop in Ho as [Hi Ho]. apply andb_prop in Hw' as [Wi Hw'].
    cbn [flat_map]. rewrite forallb_app', (IH Ho Hw'), andb_true_r. destruct (item_mid it Hi Wi) as [[Tf R]|(l & -> & _ & Hf)].
    - rewrite R. revert Tf. apply forallb_impl. exact tagfree_for_plain.
    - cbn [ref_item16 forallb el_user with_user]. rewrite Hf. reflexivity.
  Qed.

  (* without user lines every line of the result is tag-free *)
  Lemma ref_lines_tagfree : no_user_lines t = true -> forallb tagfree (flat_map (ref_item16 e) t) = true.
  Proof.
    pose proof grammar_items as Ho. unfold wf_elements16 in Hw. clear Hg. revert Ho Hw. induction t as [|it t' IH]; intros Ho Hw' Hn; [reflexivity|].
    cbn [forallb no_user_lines] in Ho, Hw', Hn. apply andb_prop in Ho as [Hi Ho]. apply andb_prop in Hw' as [Wi Hw']. apply andb_prop in Hn as [N1 N2].
    cbn [flat_map]. rewrite forallb_app', (IH Ho Hw' N2), andb_true_r. destruct (item_mid it Hi Wi) as [[Tf R]|(l & -> & _)]; [rewrite R; exact Tf|discriminate].
  Qed.

  (* with user lines whose tags all get a value or a default *)
  Lemma ref_lines_tagfree_user : user_lines_closed a t = true -> forallb tagfree (flat_map (ref_item16 e) t) = true.
  Proof.
    pose proof grammar_items as Ho. unfold wf_elements16 in Hw. clear Hg. revert Ho Hw. induction t as [|it t' IH]; intros Ho Hw' Hn; [reflexivity|].
    cbn [forallb user_lines_closed] in Ho, Hw', Hn. apply andb_prop in Ho as [Hi Ho]. apply andb_prop in Hw' as [Wi Hw']. apply andb_prop in Hn as [N1 N2].
    cbn [flat_map]. rewrite forallb_app', (IH Ho Hw' N2), andb_true_r. destruct (item_mid it Hi Wi) as [[Tf R]|(l & -> & _)]; [rewrite R; exact Tf|].
    cbn [ref_item16 forallb el_user with_user]. unfold tagfree. rewrite N1. reflexivity.
  Qed.

  (* the generated file: for any assignment of user tags and any template lines that the first filtering turns into render16 t *)
  Theorem generate_is_ref lines :
    load_file dict lines = Some (render16 t) -> generate_file m dict a lines = Some (ref16 e t).
  Proof.
    intros Hl. pose proof grammar_items as Ho.
    unfold generate_file, generate. rewrite phases_eq. cbn [fold_left].
    rewrite !phase_skip by (cbn [In]; tauto).
    rewrite phase_load. cbn [map_files]. rewrite Hl.
    rewrite phase_expand. cbn [map_files]. rewrite (second_filter16 m t Ho wf_items_x).
    rewrite phase_usertags. unfold do_user_tags. cbn [map fst snd]. unfold do_user_tags_file.
    rewrite usertags_phase.
    rewrite phase_for. cbn [map_files]. rewrite (do_for_plain _ ref_lines_for_plain).
    rewrite !phase_skip by (cbn [In]; tauto). rewrite phase_write. cbn [map_files].
    rewrite !phase_skip by (cbn [In]; tauto). reflexivity.
  Qed.
End Whole.

(* the template itself as the file (no user tags assigned) *)
Theorem engine16_is_ref m dict t :
  dict_ok dict = true -> in_grammar16 t = true -> wf_elements16 t (elements_of_model m) = true ->
  engine16 m dict t = Some (ref16 (elements_of_model m) t).
Proof.
  intros Hd Hg Hw. pose proof Hg as G. unfold in_grammar16 in G. apply andb_prop in G as [_ Hfmn].
  assert (E : with_user [] (elements_of_model m) = elements_of_model m) by reflexivity.
  unfold engine16. rewrite <- E. apply generate_is_ref.
  - exact Hg.
  - rewrite E. exact Hw.
  - apply load_file_id; [exact Hd| |exact Hfmn]. apply (render16_load_inert t). exact Hg.
Qed.

(* the same against the table: the reference the check computes (ref16_rows) *)
Theorem engine16_is_ref_table tt structs protos msgs m dict t :
  tt_model tt structs protos msgs = Some m -> dict_ok dict = true -> in_grammar16 t = true ->
  wf16_rows tt structs protos msgs t = true ->
  engine16 m dict t = Some (ref16_rows tt structs protos msgs t).
Proof.
  intros Hm Hd Hg Hw. unfold wf16_rows, ref16_rows in *.
  rewrite <- (Proofs.EngineTps.model_elements_full tt structs protos msgs m Hm) in *.
  apply engine16_is_ref; assumption.
Qed.
