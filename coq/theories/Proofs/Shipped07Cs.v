(* C07, USER-tag half, for the shipped file Test.TEMPLATEStateMachine.cs: the cleaned names of its USER tags are pairwise distinct for EVERY
   element lists with names_ok whose guards are not named like a state hook (On<State>Entry / On<State>Exit), hence the generated file is a
   well-formed fresh file.  (The file has one line with a user tag outside blocks: #define VERBOSE_<<<Verbose=1>>>.) *)
From Coq Require Import String Ascii List Bool Arith Lia.
From KV Require Import Lib.Str Lib.StrOps Lib.ODict Gen.Tags Gen.Templates Model.PreserveCore Model.Preserve Model.Engine Model.EngineSM
                       Model.EngineDomain Model.EngineDomain16 Model.EngineDomain07 Model.Parse16 Spec.RefExpand Spec.RefExpand16
                       Proofs.StrProofs Proofs.EngineStr Proofs.EngineRepl Proofs.PreserveStr Proofs.CharClass Proofs.TagShapeProofs Proofs.EngineWhole16 Proofs.Shipped16
                       Proofs.Shipped07 Proofs.PreserveTop Proofs.Shipped07Cpp.
Import ListNotations.
Open Scope string_scope.
Open Scope list_scope.

Definition lines_cs : list string := file_of "Test.TEMPLATEStateMachine.cs" tmpl_cs.
Definition t_cs : template16 :=
  Eval vm_compute in match shipped16 dict0 lines_cs with Some (_, t) => t | None => [] end.
Definition l0_cs : list string :=
  Eval vm_compute in match shipped16 dict0 lines_cs with Some (l, _) => l | None => [] end.

Lemma shipped_cs : shipped16 dict0 lines_cs = Some (l0_cs, t_cs).
Proof. vm_compute. reflexivity. Qed.

Lemma grammar07_cs : in_grammar07 t_cs = true.
Proof. vm_compute. reflexivity. Qed.

Notation sp := (split_on USC).

(* ---------------------------------------------------------------- string facts *)
Lemma app_inv_tail_s c : forall a b, (a ++ c)%string = (b ++ c)%string -> a = b.
Proof.
  induction a as [|x a IH]; intros b H.
  - destruct b as [|y b]; [reflexivity|]. exfalso. apply (f_equal String.length) in H. cbn [append String.length] in H. rewrite length_app_s in H. lia.
  - destruct b as [|y b].
    + exfalso. apply (f_equal String.length) in H. cbn [append String.length] in H. rewrite length_app_s in H. lia.
    + cbn [append] in H. inversion H. subst. f_equal. apply IH. assumption.
Qed.

Fixpoint lastc (s : string) : option ascii :=
  match s with EmptyString => None | String c r => match r with EmptyString => Some c | _ => lastc r end end.

Lemma lastc_app a b : b <> EmptyString -> lastc (a ++ b)%string = lastc b.
Proof.
  intros Hb. induction a as [|c a IH]; [reflexivity|]. cbn [append lastc]. rewrite IH.
  destruct (a ++ b)%string eqn:E; [|reflexivity]. destruct a; cbn [append] in E; [contradiction|discriminate].
Qed.

(* ---------------------------------------------------------------- the keys of the file, written out *)
Definition hkeys (s : string) : list string := [(P ++ ("On" ++ (s ++ "Entry")))%string; (P ++ ("On" ++ (s ++ "Exit")))%string].
Definition fixed1c : list string := ["{{{USER_USING_DECLARATIONS"; "{{{USER_CONSTRUCTOR"].
Definition fixed2c : list string := ["{{{USER_MEMBERS"; "{{{USER_UNIT_TEST_STATES"; "{{{USER_TESTS"; "{{{USER_TEST_SUITE_TESTS"].

Definition keys_cs (e : elements) : list string :=
  fixed1c ++ flat_map (fun ix : nat * string => [gkey (snd ix)]) (enumerate_from 0 (el_guards e))
  ++ flat_map (fun ix : nat * (string * string) => [sigkey (snd ix)]) (enumerate_from 0 (el_sigs e))
  ++ flat_map (fun ix : nat * string => hkeys (snd ix)) (enumerate_from 0 (el_states e))
  ++ fixed2c.

(* as computed: the two signature blocks without USER tags contribute (symbolically) empty lists *)
Definition keys_cs_raw (e : elements) : list string :=
  fixed1c ++ flat_map (fun ix : nat * string => [gkey (snd ix)]) (enumerate_from 0 (el_guards e))
  ++ flat_map (fun ix : nat * (string * string) => [sigkey (snd ix)]) (enumerate_from 0 (el_sigs e))
  ++ flat_map (fun ix : nat * string => hkeys (snd ix)) (enumerate_from 0 (el_states e))
  ++ flat_map (fun ix : nat * (string * string) => @nil string) (enumerate_from 0 (el_sigs e))
  ++ flat_map (fun ix : nat * (string * string) => @nil string) (enumerate_from 0 (el_sigs e))
  ++ fixed2c.

Lemma keys_cs_raw_eq e : keys07 e t_cs = keys_cs_raw e.
Proof. vm_compute. reflexivity. Qed.

Lemma flat_map_nil {A B} (l : list A) : flat_map (fun _ : A => @nil B) l = [].
Proof. induction l as [|x l IH]; [reflexivity|]. cbn [flat_map app]. exact IH. Qed.

Lemma keys_cs_eq e : keys07 e t_cs = keys_cs e.
Proof. rewrite keys_cs_raw_eq. unfold keys_cs_raw, keys_cs. rewrite !flat_map_nil. reflexivity. Qed.

(* guards are not named like the hooks of a state *)
Definition names_ok_cs (e : elements) : bool := names_ok t_cs e && hooks_free e.

Lemma sp_hkey s suf : name_ok s = true -> no_char USC suf = true ->
  sp (P ++ ("On" ++ (s ++ suf)))%string = ["{{{USER"; ("On" ++ (s ++ suf))%string].
Proof.
  intros Hs Hf. unfold P. change ("{{{USER_" ++ ("On" ++ (s ++ suf)))%string with ("{{{USER" ++ String USC ("On" ++ (s ++ suf)))%string.
  rewrite (sp_app "{{{USER" _ eq_refl), sp_nosep; [reflexivity|]. rewrite !no_char_app, (name_no_usc s Hs), Hf. reflexivity.
Qed.

Lemma fixed_p1_forbidden_cs x : In x (fixed1c ++ fixed2c) -> In (p1 x) (forbidden t_cs) /\ prefixb "On" (p1 x) = false.
Proof.
  intros H. cbn [fixed1c fixed2c app In] in H.
  repeat (destruct H as [H|H]; [subst x; split; [vm_compute; repeat (first [left; reflexivity | right])|reflexivity]|]). contradiction.
Qed.

Lemma fixed_nodup_cs : NoDup (fixed1c ++ fixed2c).
Proof. apply nodupb_NoDup. vm_compute. reflexivity. Qed.

Section NoDupKeysCs.
  Variable e : elements.
  Hypothesis Hok : names_ok_cs e = true.

  Let Hok1 : names_ok t_cs e = true := proj1 (andb_prop _ _ Hok).
  Let Hhook : hooks_free e = true := proj2 (andb_prop _ _ Hok).

  Lemma ok_parts_cs :
    (forall n, In n (all_names e) -> name_ok n = true)
    /\ (forall n, In n (all_names e) -> ~ In n (forbidden t_cs))
    /\ NoDup (el_states e) /\ NoDup (el_guards e)
    /\ nodup_pairs (el_sigs e) = true
    /\ (forall ae, In ae (el_sigs e) -> sig_event_name (snd ae) = snd ae).
  Proof.
    pose proof Hok1 as H. unfold names_ok in H. repeat (apply andb_prop in H as [H ?K]).
    rewrite forallb_forall in H, K8, K. repeat split.
    - exact H.
    - intros n Hn Hf. specialize (K8 n Hn). apply negb_true_iff in K8.
      assert (E : existsb (String.eqb n) (forbidden t_cs) = true) by (apply existsb_exists; exists n; split; [exact Hf|apply String.eqb_refl]).
      congruence.
    - apply nodupb_NoDup. exact K7.
    - apply nodupb_NoDup. exact K4.
    - exact K3.
    - intros ae Hae. apply String.eqb_eq. apply K. exact Hae.
  Qed.

  Let Hn := proj1 ok_parts_cs.
  Let Hf := proj1 (proj2 ok_parts_cs).
  Let NdS := proj1 (proj2 (proj2 ok_parts_cs)).
  Let NdG := proj1 (proj2 (proj2 (proj2 ok_parts_cs))).
  Let NdP := proj1 (proj2 (proj2 (proj2 (proj2 ok_parts_cs)))).
  Let Hev := proj2 (proj2 (proj2 (proj2 (proj2 ok_parts_cs)))).

  Lemma guard_name_cs g : In g (el_guards e) -> In g (all_names e).
  Proof. intros H. unfold all_names. do 3 (apply in_or_app; right). apply in_or_app. left. exact H. Qed.
  Lemma state_name_cs s : In s (el_states e) -> In s (all_names e).
  Proof. intros H. unfold all_names. apply in_or_app. left. exact H. Qed.
  Lemma sig_names_cs ae : In ae (el_sigs e) -> In (fst ae) (all_names e) /\ In (snd ae) (all_names e).
  Proof.
    intros H. assert (I : forall n, In n [fst ae; snd ae] -> In n (all_names e)).
    { intros n Hn'. unfold all_names. do 4 (apply in_or_app; right). apply in_or_app. left. apply in_flat_map. exists ae. auto. }
    split; apply I; cbn; auto.
  Qed.

  Definition Gkc : list string := map gkey (el_guards e).
  Definition Hkc : list string := flat_map hkeys (el_states e).
  Definition Pkc : list string := map sigkey (el_sigs e).
  Definition Fxc : list string := fixed1c ++ fixed2c.

  Lemma in_Gkc x : In x Gkc -> exists g, In g (el_guards e) /\ sp x = ["{{{USER"; g].
  Proof. intros H. apply in_map_iff in H as (g & E & Hg). subst x. exists g. split; [exact Hg|apply sp_gkey, Hn, guard_name_cs, Hg]. Qed.

  Lemma in_Hkc x : In x Hkc -> exists s, In s (el_states e) /\ (sp x = ["{{{USER"; ("On" ++ (s ++ "Entry"))%string] \/ sp x = ["{{{USER"; ("On" ++ (s ++ "Exit"))%string]).
  Proof.
    intros H. apply in_flat_map in H as (s & Hs & Hx). exists s. split; [exact Hs|].
    pose proof (Hn s (state_name_cs s Hs)) as Ns. cbn [hkeys In] in Hx. destruct Hx as [E|[E|[]]]; subst x.
    - left. apply sp_hkey; [exact Ns|reflexivity].
    - right. apply sp_hkey; [exact Ns|reflexivity].
  Qed.

  Lemma in_Pkc x : In x Pkc -> exists ae, In ae (el_sigs e) /\ sp x = ["{{{USER"; fst ae; snd ae].
  Proof.
    intros H. apply in_map_iff in H as (ae & E & Hae). subst x. exists ae. split; [exact Hae|].
    destruct (sig_names_cs ae Hae) as [Na Ne]. destruct ae as [a ev]. cbn [fst snd] in *.
    apply sp_sigkey; [apply Hn, Na|apply Hn, Ne|exact (Hev (a, ev) Hae)].
  Qed.

  Lemma fixed_vs_name_cs x n : In x Fxc -> In n (all_names e) -> p1 x = n -> False.
  Proof. intros Hx Hnm E. apply (Hf n Hnm). rewrite <- E. apply fixed_p1_forbidden_cs. exact Hx. Qed.

  Lemma disj_F_Gc : disj Fxc Gkc.
  Proof. intros x Hx Hg. destruct (in_Gkc x Hg) as (g & Hg' & E). apply (fixed_vs_name_cs x g Hx (guard_name_cs g Hg')). unfold p1. rewrite E. reflexivity. Qed.
  Lemma disj_F_Hc : disj Fxc Hkc.
  Proof.
    intros x Hx Hs. destruct (fixed_p1_forbidden_cs x Hx) as [_ Np]. destruct (in_Hkc x Hs) as (s & _ & [E|E]); unfold p1 in Np; rewrite E in Np; cbn [nth] in Np; discriminate Np.
  Qed.
  Lemma disj_F_Pc : disj Fxc Pkc.
  Proof. intros x Hx Hp. destruct (in_Pkc x Hp) as (ae & Hae & E). apply (fixed_vs_name_cs x (fst ae) Hx (proj1 (sig_names_cs ae Hae))). unfold p1. rewrite E. reflexivity. Qed.
  Lemma disj_G_Hc : disj Gkc Hkc.
  Proof.
    intros x Hg Hs. destruct (in_Gkc x Hg) as (g & Hg' & E). destruct (in_Hkc x Hs) as (s & Hs' & E').
    unfold hooks_free in Hhook. rewrite forallb_forall in Hhook. specialize (Hhook g Hg'). rewrite forallb_forall in Hhook. specialize (Hhook s Hs').
    apply andb_prop in Hhook as [H1 H2]. apply negb_true_iff in H1, H2.
    destruct E' as [E'|E']; rewrite E in E'; inversion E' as [Eg]; subst g; rewrite String.eqb_refl in *; discriminate.
  Qed.
  Lemma disj_G_Pc : disj Gkc Pkc.
  Proof. intros x Hg Hp. destruct (in_Gkc x Hg) as (g & _ & E). destruct (in_Pkc x Hp) as (ae & _ & E'). rewrite E in E'. discriminate. Qed.
  Lemma disj_P_Hc : disj Pkc Hkc.
  Proof. intros x Hp Hs. destruct (in_Pkc x Hp) as (ae & _ & E). destruct (in_Hkc x Hs) as (s & _ & [E'|E']); rewrite E in E'; discriminate. Qed.

  Lemma nodup_Gc : NoDup Gkc.
  Proof.
    unfold Gkc. assert (G : forall l, (forall g, In g l -> In g (el_guards e)) -> NoDup l -> NoDup (map gkey l)).
    { induction l as [|g l IH]; intros Hs Hd; [constructor|]. inversion Hd as [|? ? Hx Hd']; subst. cbn [map]. constructor.
      - intros Hin. apply in_map_iff in Hin as (g' & E & Hg'). apply Hx.
        assert (E2 : sp (gkey g') = sp (gkey g)) by (rewrite E; reflexivity).
        rewrite (sp_gkey g' (Hn g' (guard_name_cs g' (Hs g' (or_intror Hg'))))), (sp_gkey g (Hn g (guard_name_cs g (Hs g (or_introl eq_refl))))) in E2.
        inversion E2. subst. exact Hg'.
      - apply IH; [intros y Hy; apply Hs; right; exact Hy|exact Hd']. }
    apply G; [auto|exact NdG].
  Qed.

  Lemma nodup_Pc : NoDup Pkc.
  Proof.
    unfold Pkc. assert (G : forall l, (forall ae, In ae l -> In ae (el_sigs e)) -> NoDup l -> NoDup (map sigkey l)).
    { induction l as [|ae l IH]; intros Hs Hd; [constructor|]. inversion Hd as [|? ? Hx Hd']; subst. cbn [map]. constructor.
      - intros Hin. apply in_map_iff in Hin as (ae' & E & Hae'). apply Hx.
        assert (S1 : sp (sigkey ae') = ["{{{USER"; fst ae'; snd ae']).
        { destruct (sig_names_cs ae' (Hs ae' (or_intror Hae'))) as [Na Ne]. destruct ae' as [a ev]. cbn [fst snd] in *.
          apply sp_sigkey; [apply Hn, Na|apply Hn, Ne|exact (Hev (a, ev) (Hs _ (or_intror Hae')))]. }
        assert (S2 : sp (sigkey ae) = ["{{{USER"; fst ae; snd ae]).
        { destruct (sig_names_cs ae (Hs ae (or_introl eq_refl))) as [Na Ne]. destruct ae as [a ev]. cbn [fst snd] in *.
          apply sp_sigkey; [apply Hn, Na|apply Hn, Ne|exact (Hev (a, ev) (Hs _ (or_introl eq_refl)))]. }
        rewrite E, S2 in S1. inversion S1. destruct ae, ae'. cbn [fst snd] in *. subst. exact Hae'.
      - apply IH; [intros y Hy; apply Hs; right; exact Hy|exact Hd']. }
    apply G; [auto|apply nodup_pairs_NoDup; exact NdP].
  Qed.

  Lemma ee_core s s' : (s ++ "Entry")%string <> (s' ++ "Exit")%string.
  Proof. intros E'. apply (f_equal lastc) in E'. rewrite !lastc_app in E' by discriminate. discriminate E'. Qed.

  Lemma entry_exit_differ s s' : ("On" ++ (s ++ "Entry"))%string <> ("On" ++ (s' ++ "Exit"))%string.
  Proof. intros E. cbn [append] in E. inversion E as [E']. exact (ee_core s s' E'). Qed.

  Lemma hook_inj suf s s' : ("On" ++ (s ++ suf))%string = ("On" ++ (s' ++ suf))%string -> s = s'.
  Proof. intros E. cbn [append] in E. inversion E as [E']. exact (app_inv_tail_s suf s s' E'). Qed.

  Lemma nodup_Hc : NoDup Hkc.
  Proof.
    unfold Hkc. assert (G : forall l, (forall s, In s l -> In s (el_states e)) -> NoDup l -> NoDup (flat_map hkeys l)).
    { induction l as [|s l IH]; intros Hs Hd; [constructor|]. inversion Hd as [|? ? Hx Hd']; subst. cbn [flat_map].
      pose proof (Hn s (state_name_cs s (Hs s (or_introl eq_refl)))) as Ns.
      pose proof (sp_hkey s "Entry" Ns eq_refl) as K1. pose proof (sp_hkey s "Exit" Ns eq_refl) as K2.
      assert (Rest : forall x, In x (flat_map hkeys l) -> exists s', In s' l /\ (nth 1 (sp x) "" = ("On" ++ (s' ++ "Entry"))%string \/ nth 1 (sp x) "" = ("On" ++ (s' ++ "Exit"))%string)).
      { intros x Hx'. apply in_flat_map in Hx' as (s' & Hs' & Hk). exists s'. split; [exact Hs'|].
        pose proof (Hn s' (state_name_cs s' (Hs s' (or_intror Hs')))) as Ns'. cbn [hkeys In] in Hk. destruct Hk as [E|[E|[]]]; subst x.
        - left. rewrite (sp_hkey s' "Entry" Ns' eq_refl). reflexivity.
        - right. rewrite (sp_hkey s' "Exit" Ns' eq_refl). reflexivity. }
      unfold hkeys at 1. cbn [app]. constructor; [|constructor].
      - intros [E|Hin].
        + assert (E2 : sp (P ++ ("On" ++ (s ++ "Exit")))%string = sp (P ++ ("On" ++ (s ++ "Entry")))%string) by (rewrite E; reflexivity).
          rewrite K1, K2 in E2. inversion E2 as [E3]. symmetry in E3. exact (ee_core s s E3).
        + destruct (Rest _ Hin) as (s' & Hs' & [E|E]); rewrite K1 in E; cbn [nth] in E.
          * apply (hook_inj "Entry") in E. subst s'. contradiction.
          * exact (entry_exit_differ s s' E).
      - intros Hin. destruct (Rest _ Hin) as (s' & Hs' & [E|E]); rewrite K2 in E; cbn [nth] in E.
        + symmetry in E. exact (entry_exit_differ s' s E).
        + apply (hook_inj "Exit") in E. subst s'. contradiction.
      - apply IH; [intros y Hy; apply Hs; right; exact Hy|exact Hd']. }
    apply G; [auto|exact NdS].
  Qed.

  Lemma keys_cs_groups : keys_cs e = fixed1c ++ Gkc ++ Pkc ++ Hkc ++ fixed2c.
  Proof.
    unfold keys_cs, Gkc, Hkc, Pkc. rewrite (flat_map_enum (fun g => [gkey g])), (flat_map_enum hkeys), (flat_map_enum (fun ae => [sigkey ae])).
    assert (M : forall {A} (f : A -> string) l, flat_map (fun x => [f x]) l = map f l).
    { intros A f l. induction l as [|x l IH]; [reflexivity|]. cbn [flat_map map app]. rewrite IH. reflexivity. }
    rewrite !M. reflexivity.
  Qed.

  Lemma in_fixed1c x : In x fixed1c -> In x Fxc.
  Proof. intros H. apply in_or_app. left. exact H. Qed.
  Lemma in_fixed2c x : In x fixed2c -> In x Fxc.
  Proof. intros H. apply in_or_app. right. exact H. Qed.

  Theorem nodup_keys_cs : NoDup (keys07 e t_cs).
  Proof.
    rewrite keys_cs_eq, keys_cs_groups.
    assert (D12 : disj fixed1c fixed2c).
    { intros x H1 H2. clear -H1 H2. cbn [fixed1c fixed2c In] in *. destruct H1 as [H1|[H1|[]]]; subst x;
      repeat (destruct H2 as [H2|H2]; [discriminate|]); contradiction. }
    assert (N1 : NoDup fixed1c) by (apply nodupb_NoDup; reflexivity).
    assert (N2 : NoDup fixed2c) by (apply nodupb_NoDup; vm_compute; reflexivity).
    apply NoDup_app_intro; [exact N1| |].
    - apply NoDup_app_intro; [exact nodup_Gc| |].
      + apply NoDup_app_intro; [exact nodup_Pc| |].
        * apply NoDup_app_intro; [exact nodup_Hc|exact N2|].
          intros x Hh H2. exact (disj_F_Hc x (in_fixed2c x H2) Hh).
        * apply disj_app_r; [exact disj_P_Hc|]. intros x Hp H2. exact (disj_F_Pc x (in_fixed2c x H2) Hp).
      + apply disj_app_r; [exact disj_G_Pc|]. apply disj_app_r; [exact disj_G_Hc|]. intros x Hg H2. exact (disj_F_Gc x (in_fixed2c x H2) Hg).
    - apply disj_app_r; [intros x H1 Hg; exact (disj_F_Gc x (in_fixed1c x H1) Hg)|].
      apply disj_app_r; [intros x H1 Hp; exact (disj_F_Pc x (in_fixed1c x H1) Hp)|].
      apply disj_app_r; [intros x H1 Hh; exact (disj_F_Hc x (in_fixed1c x H1) Hh)|exact D12].
  Qed.
End NoDupKeysCs.

(* ---------------------------------------------------------------- the theorems for Test.TEMPLATEStateMachine.cs *)
Lemma items_ok_cs : forallb item16_ok t_cs = true.
Proof. vm_compute. reflexivity. Qed.

Lemma names_fine_of_cs e : names_ok_cs e = true -> names_fine e.
Proof. intros H. exact (proj1 (ok_parts_cs e H)). Qed.

Definition fresh_cs (e : elements) : list string := flat_map (ref_item16 e) t_cs.

Theorem wf_fresh_cs e : names_ok_cs e = true -> user_lines_plain e t_cs = true -> wf_fresh_file (fresh_cs e) = true.
Proof.
  intros H Hu. apply fresh_of_template; [exact (names_fine_of_cs e H)|exact grammar07_cs|exact Hu|exact items_ok_cs|exact (nodup_keys_cs e H)].
Qed.

(* for EVERY model with admissible names and EVERY assignment of user tags under which the user line's output is a plain line: what
   smgen.Generate writes for the file is createoutput of those lines, and they are a well-formed fresh file *)
Theorem shipped_cs_wf_out m (a : usertags) :
  names_ok_cs (with_user a (elements_of_model m)) = true -> user_lines_plain (with_user a (elements_of_model m)) t_cs = true ->
  generate_file m dict0 a lines_cs = Some (concat_lines (map tab4 (fresh_cs (with_user a (elements_of_model m)))))
  /\ wf_fresh_file (fresh_cs (with_user a (elements_of_model m))) = true.
Proof.
  intros H Hu. pose proof (names_fine_of_cs _ H) as Hn.
  assert (G7 : inky t_cs = true) by (vm_compute; reflexivity).
  pose proof (names_wf16 _ t_cs Hn items_ok_cs G7 Hu) as W.
  split; [exact (shipped_output_user lines_cs l0_cs t_cs shipped_cs m a W)|exact (wf_fresh_cs _ H Hu)].
Qed.

(* regenerating over ANY user edits of the blocks of that file is a fixed point (C01 instantiated) *)
Theorem fixed_point_cs e path (u : string -> list string) :
  names_ok_cs e = true -> user_lines_plain e t_cs = true -> (forall k, block_ok (u k) = true) ->
  regen_file path (fresh_cs e) (on_disk u (items_of (fresh_cs e)))
  = (on_disk u (items_of (fresh_cs e)), []).
Proof.
  intros H Hu' Hu. destruct (wf_fresh_file_inv _ (wf_fresh_cs e H Hu')) as (Ok & Pa & Wf).
  exact (regen_file_fixed_point path u (fresh_cs e) _ Pa Wf Ok Hu).
Qed.
