(* C19 adaptor: the two shipped class diagrams, as the adaptor reads them from kojen/test/blob.xml, re-expressed as semantic
   diagrams (Gen/UmlSemShipped.v, regenerated on every run: every class, operation, parameter, attribute, literal, package,
   realisation / generalisation and association with the names, types, values, visibilities and flags read; layouts from a fixed
   seed, noise reduced to scalar properties) and the domain of the semantic read-back theorem. *)
From Coq Require Import String Ascii List Bool Arith.
From KV Require Import Lib.Str Model.Vpp Model.Uml Model.UmlBlob Model.UmlWriter Model.UmlSem Gen.UmlSemShipped.
Import ListNotations.
Open Scope string_scope.

Definition sem_counts (S : sdiagram) : nat * nat * nat * nat :=
  let r := rdiagram_of S in (List.length (rd_classes r), List.length (rd_packages r), List.length (rd_assocs r), List.length (rd_inhs r)).

Lemma calib_sem_names : map sd_name shipped_sem = ["TestClassDiagram"; "ProtocolStack"].
Proof. vm_compute. reflexivity. Qed.

Lemma calib_sem_counts : map sem_counts shipped_sem = [(20, 3, 8, 7); (10, 2, 1, 7)].
Proof. vm_compute. reflexivity. Qed.

(* both lie in the domain of C19_adaptor_roundtrip (TestClassDiagram holds an association whose NAME has a colon:
   Const: This should appear in constructor) *)
Definition colon_named (S : sdiagram) : list string :=
  flat_map (fun se => match snd se with EAssoc x => if no_char ":" (ostr (sx_name x)) then [] else [ostr (sx_name x)] | _ => [] end) (sd_shapes S).

Lemma calib_sem_domain :
  map sdiagram_ok shipped_sem = [true; true] /\ map colon_named shipped_sem = [["Const: This should appear in constructor"]; []].
Proof. split; vm_compute; reflexivity. Qed.
