(* C19 adaptor: the two shipped class diagrams as SEMANTIC diagrams (Gen/UmlSemShipped.v, regenerated on every run from
   kojen/test/blob.xml by translator/umlblob.py: every class, operation, parameter, attribute, literal, package, realisation /
   generalisation and association with what the semantic model knows about it; EVERY OTHER property of the rows -- model
   views, qualifiers, reference lists, HTML documentation, author and time stamps -- kept as an inert property; each element
   with its own line break style) and the domain of the semantic read-back theorem. *)
From Coq Require Import String Ascii List Bool Arith.
From KV Require Import Lib.Str Model.Vpp Model.Uml Model.UmlBlob Model.UmlWriter Model.UmlSem Gen.UmlBlobShipped Gen.UmlSemShipped.
Import ListNotations.
Open Scope string_scope.

Definition sem_counts (S : sdiagram) : nat * nat * nat * nat :=
  let r := rdiagram_of S in (List.length (rd_classes r), List.length (rd_packages r), List.length (rd_assocs r), List.length (rd_inhs r)).

Lemma calib_sem_names : map sd_name shipped_sem = ["ProtocolStack"; "TestClassDiagram"].
Proof. vm_compute. reflexivity. Qed.

Lemma calib_sem_counts : map sem_counts shipped_sem = [(10, 2, 1, 7); (20, 3, 8, 7)].
Proof. vm_compute. reflexivity. Qed.

(* writing them gives the shipped rows back, byte for byte: the project file encode_project produces IS the project that holds
   the rows of the shipped diagram as read off blob.xml (Gen/UmlBlobShipped.v; C19_adaptor_calibration: those are the stored
   rows) *)
Lemma calib_sem_exact : map encode_project shipped_sem = map encode_cdiagram shipped_W.
Proof. vm_compute. reflexivity. Qed.

(* and both lie in the domain of C19_adaptor_roundtrip *)
Definition count_slots (S : sdiagram) : nat * nat :=
  let lays := flat_map (fun se => match snd se with
                | EClass c => sc_layout c :: flat_map (fun m => match m with
                                 | MOp o => so_layout o :: map sp_layout (so_params o)
                                 | MAttr a => [sa_layout a]
                                 | MLit _ _ _ l => [l] end) (sc_members c)
                | EPackage p => [sk_layout p]
                | EInh i => [si_layout i]
                | EAssoc x => [sx_layout x; se_layout (sx_from x); se_layout (sx_to x)]
                | EOther _ _ _ _ _ l => [l]
                end) (sd_shapes S) in
  (List.length (filter (fun s => match s with STag _ => true | _ => false end) (concat lays)),
   List.length (filter (fun s => match s with SInert _ => true | _ => false end) (concat lays))).

Lemma calib_sem_domain : map sdiagram_ok shipped_sem = [true; true] /\ map count_slots shipped_sem = [(157, 461); (357, 999)].
Proof. split; vm_compute; reflexivity. Qed.
