(* C19, the two language back ends: the source of LanguageCPP / LanguageCsharp.GetOperationPerVisibility, GetOperationSignature,
   DeclareFunction, ParameterString, the nested-namespace functions, the layout of the class-diagram templates and the project-file
   block of umlgen still have the shape Model/Uml.v and Model/UmlCs.v were written against (Gen/UmlCsSrc.v is regenerated from the
   Python sources on every run; a changed branch condition, call or template breaks these equalities, i.e. the build of Props/C19.v). *)
From Coq Require Import String Ascii List Bool.
From KV Require Import Lib.Str Gen.UmlCsSrc.
Import ListNotations.
Open Scope string_scope.

Definition languages_expected : Prop :=
  (ops_tests_cpp =
  ["not REALIZING_CLASS";
   "for (id, inheritance) in classObj.parent_classDiagram.inheritence.items()";
   "inheritance.CLASS_TO_ID.find(classObj.ID) > -1";
   "inheritance.IS_REALIZATION or REALIZING_CLASS";
   "realizeObj.PURE_VIRTUAL_INTERFACE";
   "not REALIZING_CLASS";
   "realized_result";
   "for operation in classObj.OPERATIONS";
   "REALIZING_CLASS and self.GetOperationSignature(classObj, operation) in DECLARED";
   "visibility.lower().strip() == operation.VISIBILITY.lower().strip() or visibility.lower().strip() == 'all'";
   "for param in operation.PARAMETERS";
   "not is_impl";
   "not param['defaultvalue'].strip()";
   "is_constructor";
   "not REALIZING_CLASS";
   "not is_impl";
   "classObj.PURE_VIRTUAL_INTERFACE";
   "not REALIZING_CLASS";
   "is_constructor";
   "is_constructor";
   "result.replace('\n', '').strip()";
   "is_impl";
   "not REALIZING_CLASS";
   "not REALIZING_CLASS"])
  /\ (ops_first_statement_cpp = "result = ''")
  /\ (ops_declare_calls_cpp =
  ["self.DeclareFunction(return_type, classname, operation.NAME, is_impl, params, classObj.PURE_VIRTUAL_INTERFACE or operation.VIRTUAL, operation.IS_STATIC, operation.IS_CONST)"])
  /\ (ops_recursive_calls_cpp =
  ["self.GetOperationPerVisibility(realizeObj, is_impl, visibility, classObj.NAME if not REALIZING_CLASS else REALIZING_CLASS, DECLARED)"])
  /\ (sig_return_cpp = "(operation.NAME.strip(), tuple(types), operation.IS_CONST)")
  /\ (declare_function_cpp = ("if parameters is None:" ++ bs [10] ++ "    parameters = []" ++ bs [10] ++ "if str(type(parameters)) == ""<type 'list'>"" or str(type(parameters)) == ""<class 'list'>"":" ++ bs [10] ++ "    parameter_string = self.ParameterString(parameters)" ++ bs [10] ++ "    if is_impl:" ++ bs [10] ++ "        if classname.replace(' ', '') != '':" ++ bs [10] ++ "            return returntype + ' ' + classname + '::' + functionname + '(' + parameter_string + ')' + (' const' if is_const else '')" ++ bs [10] ++ "        return returntype + ' ' + functionname + '(' + parameter_string + ')' + (' const' if is_const else '')" ++ bs [10] ++ "    if virtual and (not is_static):" ++ bs [10] ++ "        return 'virtual ' + returntype + ' ' + functionname + '(' + parameter_string + ')' + (' const' if is_const else '')" ++ bs [10] ++ "    return ('static ' if is_static else '') + returntype + ' ' + functionname + '(' + parameter_string + ')' + (' const' if is_const else '')" ++ bs [10] ++ "raise Exception(""Please use list when passing parameters into 'DeclareFunction'"")"))
  /\ (ops_tests_cs =
  ["not REALIZING_CLASS";
   "for (id, inheritance) in classObj.parent_classDiagram.inheritence.items()";
   "inheritance.CLASS_TO_ID.find(classObj.ID) > -1";
   "inheritance.IS_REALIZATION or REALIZING_CLASS";
   "realizeObj.PURE_VIRTUAL_INTERFACE";
   "not REALIZING_CLASS";
   "realized_result";
   "for operation in classObj.OPERATIONS";
   "REALIZING_CLASS and self.GetOperationSignature(classObj, operation) in DECLARED";
   "visibility.lower().strip() == operation.VISIBILITY.lower().strip() or visibility.lower().strip() == 'all'";
   "for param in operation.PARAMETERS";
   "param['direction'].strip().find('inout') > -1";
   "param['direction'].strip().find('out') > -1";
   "not is_impl";
   "not param['defaultvalue'].strip()";
   "is_constructor";
   "not REALIZING_CLASS";
   "REALIZING_CLASS and declaration.startswith('virtual ')";
   "not classObj.PURE_VIRTUAL_INTERFACE or REALIZING_CLASS";
   "is_constructor";
   "is_constructor";
   "result.replace('\n', '').strip()";
   "is_impl";
   "not REALIZING_CLASS";
   "not REALIZING_CLASS"])
  /\ (ops_first_statement_cs = "is_impl = not classObj.PURE_VIRTUAL_INTERFACE")
  /\ (ops_declare_calls_cs =
  ["self.DeclareFunction(return_type, classname, operation.NAME, is_impl, params, operation.VIRTUAL, operation.IS_STATIC, False)"])
  /\ (ops_recursive_calls_cs =
  ["self.GetOperationPerVisibility(realizeObj, is_impl, visibility, classObj.NAME if not REALIZING_CLASS else REALIZING_CLASS, DECLARED)"])
  /\ (sig_return_cs = "(operation.NAME.strip(), tuple(types))")
  /\ (declare_function_cs = ("if parameters is None:" ++ bs [10] ++ "    parameters = []" ++ bs [10] ++ "if str(type(parameters)) == ""<type 'list'>"" or str(type(parameters)) == ""<class 'list'>"":" ++ bs [10] ++ "    parameter_string = self.ParameterString(parameters)" ++ bs [10] ++ "    if virtual and (not is_static):" ++ bs [10] ++ "        return 'virtual ' + returntype + ' ' + functionname + '(' + parameter_string + ')' + (' const' if is_const else '')" ++ bs [10] ++ "    return ('static ' if is_static else '') + returntype + ' ' + functionname + '(' + parameter_string + ')' + (' const' if is_const else '')" ++ bs [10] ++ "raise Exception(""Please use list when passing parameters into 'DeclareFunction'"")"))
  /\ (parameter_string_cs = parameter_string_cpp)
  /\ (ns_functions_cs = ns_functions_cpp)
  /\ (ns_functions_cpp =
  [("if isinstance(classObj, Class):" ++ bs [10] ++ "    result = _getFormatNestedNamespaceBegin(classObj.NAMESPACE)" ++ bs [10] ++ "    return result" ++ bs [10] ++ "else:" ++ bs [10] ++ "    raise RuntimeError('Language Feature Not Implemented')");
   ("if isinstance(classObj, Class):" ++ bs [10] ++ "    result = _getFormatNestedNamespaceEnd(classObj.NAMESPACE)" ++ bs [10] ++ "    return result + ' // end namespace ' + classObj.NAMESPACE" ++ bs [10] ++ "else:" ++ bs [10] ++ "    raise RuntimeError('classObj Not of type Class')")])
  /\ (template_files_layout =
  [("ClassTemplate.t", (true, (["<<<PUBLIC_OPERATIONS_DECLARE>>>"; "<<<PROTECTED_OPERATIONS_DECLARE>>>"; "<<<PRIVATE_OPERATIONS_DECLARE>>>"], [])));
   ("ClassTemplate.tpp", (true, (["<<<OPERATIONS_IMPLEMENTATION>>>"], [])));
   ("EnumTemplate.t", (true, ([], [])));
   ("InterfaceTemplate.t", (true, (["<<<PUBLIC_OPERATIONS_DECLARE>>>"; "<<<PROTECTED_OPERATIONS_DECLARE>>>"; "<<<PRIVATE_OPERATIONS_DECLARE>>>"], [])));
   ("StructTemplate.t", (true, ([], [])))])
  /\ (template_files_cs_layout =
  [("ClassTemplate.cs", (true, (["<<<PUBLIC_OPERATIONS_DECLARE>>>"; "<<<PROTECTED_OPERATIONS_DECLARE>>>"; "<<<PRIVATE_OPERATIONS_DECLARE>>>"], ["public class"])));
   ("EnumTemplate.cs", (true, ([], ["public enum"])));
   ("InterfaceTemplate.cs", (true, (["<<<PUBLIC_OPERATIONS_DECLARE>>>"; "<<<PROTECTED_OPERATIONS_DECLARE>>>"; "<<<PRIVATE_OPERATIONS_DECLARE>>>"], ["public interface"])));
   ("Project.csproj", (false, ([], [])));
   ("StructTemplate.cs", (true, ([], ["public struct"])))])
  /\ (project_block =
  ["dict_to_replace_filenames['Project'] = namespace";
   "CGenerator.loadtemplates_firstfiltering(self, dict_to_replace_lines, dict_to_replace_filenames, 'Project')";
   "namespaces_in_project = {}";
   "namespaces_in_project = classdiagram.GetNamespaceDependencies()";
   "namespaces_in_project[self.classdiagramname] = set()";
   "namespaces_in_project['Project'] = set()"]).

Lemma language_pins : languages_expected.
Proof. unfold languages_expected. repeat split; vm_compute; reflexivity. Qed.
