(* Proofs for C19 over Model/Uml.v. *)
From Coq Require Import String Ascii List Bool Arith Lia.
From KV Require Import Lib.Str Lib.ODict Model.Vpp Gen.UmlSrc Model.Uml.
Import ListNotations.
Open Scope string_scope.

(* ---------------------------------------------------------------- the source still has the shape kind_of models *)

Lemma kind_tests_pinned : kind_tests =
  ["not classobj.IS_ENUM and (not classobj.IS_STRUCT) and (not classobj.AUTOGEN) and (not classobj.PURE_VIRTUAL_INTERFACE)";
   "not classobj.IS_ENUM and (not classobj.IS_STRUCT) and (not classobj.AUTOGEN) and classobj.PURE_VIRTUAL_INTERFACE";
   "classobj.IS_ENUM and (not classobj.IS_STRUCT)";
   "not classobj.IS_ENUM and classobj.IS_STRUCT"].
Proof. vm_compute. reflexivity. Qed.

(* ---------------------------------------------------------------- counting *)

Definition count {A} (P : A -> bool) (l : list A) : nat := List.length (filter P l).

Lemma count_app {A} (P : A -> bool) a b : count P (a ++ b)%list = count P a + count P b.
Proof. unfold count. rewrite filter_app, app_length. reflexivity. Qed.

Lemma count_concat_cons {A} (P : A -> bool) x (l : list (list A)) :
  count P (List.concat (x :: l)) = count P x + count P (List.concat l).
Proof. cbn [List.concat]. apply count_app. Qed.

Lemma collect_cons_inv {A} (o : option A) l r :
  collect (o :: l) = Some r -> exists x xs, o = Some x /\ collect l = Some xs /\ r = x :: xs.
Proof.
  cbn [collect]. destruct o as [x|]; [|discriminate]. destruct (collect l) as [xs|]; [|discriminate].
  intros H. inversion H. eauto.
Qed.

Lemma collect_in {A B} (g : A -> option B) ps rs p :
  collect (map g ps) = Some rs -> In p ps -> exists r, g p = Some r /\ In r rs.
Proof.
  revert rs. induction ps as [|q ps IH]; intros rs H Hin; [destruct Hin|].
  cbn [map] in H. apply collect_cons_inv in H. destruct H as (x & xs & Hx & Hc & ->).
  destruct Hin as [->|Hin].
  - exists x. split; [exact Hx|left; reflexivity].
  - destruct (IH xs Hc Hin) as (r & Hr & Hi). exists r. split; [exact Hr|right; exact Hi].
Qed.

(* own operations: the three visibility filters partition what "all" selects *)
Lemma vis_all o : vis_match "all" o = true.
Proof. unfold vis_match. replace (lower (py_strip "all")) with "all" by (vm_compute; reflexivity). rewrite String.eqb_refl. apply orb_true_r. Qed.

Lemma vis_partition o : vis3 o = true ->
  (if vis_match "public" o then 1 else 0) + (if vis_match "protected" o then 1 else 0) + (if vis_match "private" o then 1 else 0) = 1.
Proof.
  unfold vis3, vis_match.
  replace (lower (py_strip "public")) with "public" by (vm_compute; reflexivity).
  replace (lower (py_strip "protected")) with "protected" by (vm_compute; reflexivity).
  replace (lower (py_strip "private")) with "private" by (vm_compute; reflexivity).
  change ("public" =? "all") with false. change ("protected" =? "all") with false. change ("private" =? "all") with false.
  rewrite !orb_false_r. cbn [existsb]. rewrite orb_false_r.
  set (v := lower (py_strip (o_vis o))).
  rewrite (String.eqb_sym v "public"), (String.eqb_sym v "protected"), (String.eqb_sym v "private").
  destruct ("public" =? v) eqn:E1.
  - apply String.eqb_eq in E1. subst v. rewrite <- E1. intros _. reflexivity.
  - destruct ("protected" =? v) eqn:E2.
    + apply String.eqb_eq in E2. rewrite <- E2. intros _. reflexivity.
    + destruct ("private" =? v) eqn:E3; [intros _; reflexivity|cbn; discriminate].
Qed.

Lemma own_partition (P : entry -> bool) realizing dcl c : forallb vis3 (c_ops c) = true ->
  count P (own_entries "public" realizing dcl c) + count P (own_entries "protected" realizing dcl c)
  + count P (own_entries "private" realizing dcl c) = count P (own_entries "all" realizing dcl c).
Proof.
  unfold own_entries. induction (c_ops c) as [|o ops IH]; intros H; [reflexivity|].
  cbn [forallb] in H. apply andb_true_iff in H. destruct H as [Ho Hr]. specialize (IH Hr).
  pose proof (vis_partition o Ho) as Hp. cbn [filter]. rewrite (vis_all o).
  set (mk := fun o0 : oper => {| en_class := if realizing =? "" then c_name c else realizing; en_owner := c_name c;
                                 en_owner_pure := c_pure c; en_realised := negb (realizing =? ""); en_op := o0 |}) in *.
  destruct (keep realizing dcl o); cbn [andb]; [|exact IH].
  cbn [map]. unfold count in *. cbn [filter].
  destruct (vis_match "public" o), (vis_match "protected" o), (vis_match "private" o); cbn [map filter] in *; try (cbn in Hp; lia);
    destruct (P (mk o)); cbn [List.length] in *; lia.
Qed.

(* the main counting lemma: at every fuel, for every realising class *)
Lemma ops_partition (P : entry -> bool) d : wf_vis d = true ->
  (forall c, In c (classes d) -> True) ->
  forall fuel realizing dcl c a b g al,
    (forall p, find_class (classes d) (c_id p) = Some p -> forallb vis3 (c_ops p) = true) ->
    forallb vis3 (c_ops c) = true ->
    ops_of fuel d "public" realizing dcl c = Some a -> ops_of fuel d "protected" realizing dcl c = Some b ->
    ops_of fuel d "private" realizing dcl c = Some g -> ops_of fuel d "all" realizing dcl c = Some al ->
    count P a + count P b + count P g = count P al.
Proof.
  intros _ _. induction fuel as [|f IH]; intros realizing dcl c a b g al Hall Hc Ha Hb Hg Hal; [discriminate|].
  cbn [ops_of] in Ha, Hb, Hg, Hal.
  destruct (parents_of d realizing c) as [ps|] eqn:Hps; [|discriminate].
  set (r' := if realizing =? "" then c_name c else realizing) in *.
  set (d' := if realizing =? "" then declared_of c else dcl) in *.
  destruct (collect (map (ops_of f d "public" r' d') ps)) as [ra|] eqn:Ca; [|discriminate].
  destruct (collect (map (ops_of f d "protected" r' d') ps)) as [rb|] eqn:Cb; [|discriminate].
  destruct (collect (map (ops_of f d "private" r' d') ps)) as [rg|] eqn:Cg; [|discriminate].
  destruct (collect (map (ops_of f d "all" r' d') ps)) as [rl|] eqn:Cl; [|discriminate].
  inversion Ha; inversion Hb; inversion Hg; inversion Hal; subst a b g al. clear Ha Hb Hg Hal.
  rewrite !count_app. pose proof (own_partition P realizing d' c Hc) as Hown.
  assert (Hpar : forall p, In p ps -> forallb vis3 (c_ops p) = true).
  { unfold parents_of in Hps.
    destruct (collect (map (fun i => find_class (classes d) (i_from i))
               (filter (fun i => contains (c_id c) (i_to i) && (i_real i || negb (realizing =? ""))) (inhs d)))) as [qs|] eqn:Cq; [|discriminate].
    inversion Hps; subst ps. intros p Hp. apply filter_In in Hp. destruct Hp as [Hp _].
    clear - Cq Hp Hall.
    revert qs Cq Hp. induction (filter _ (inhs d)) as [|i is IHi]; intros qs Cq Hp.
    - cbn in Cq. inversion Cq; subst. destruct Hp.
    - cbn [map] in Cq. apply collect_cons_inv in Cq. destruct Cq as (x & xs & Hx & Hcs & ->).
      destruct Hp as [->|Hp]; [|eapply IHi; eauto].
      apply Hall. assert (Hid : c_id p = i_from i).
      { clear - Hx. induction (classes d) as [|q qs IH]; [discriminate|]. cbn [find_class] in Hx.
        destruct (c_id q =? i_from i) eqn:E; [inversion Hx; subst; apply String.eqb_eq; exact E|auto]. }
      rewrite Hid. exact Hx. }
  assert (Hsum : count P (List.concat ra) + count P (List.concat rb) + count P (List.concat rg) = count P (List.concat rl)).
  { clear Hown Hps. revert ra rb rg rl Ca Cb Cg Cl Hpar. induction ps as [|p ps IHp]; intros ra rb rg rl Ca Cb Cg Cl Hpar.
    - cbn in Ca, Cb, Cg, Cl. inversion Ca; inversion Cb; inversion Cg; inversion Cl; subst. reflexivity.
    - cbn [map] in Ca, Cb, Cg, Cl.
      apply collect_cons_inv in Ca. destruct Ca as (xa & xsa & Ha & Ca & ->).
      apply collect_cons_inv in Cb. destruct Cb as (xb & xsb & Hb & Cb & ->).
      apply collect_cons_inv in Cg. destruct Cg as (xg & xsg & Hg & Cg & ->).
      apply collect_cons_inv in Cl. destruct Cl as (xl & xsl & Hl & Cl & ->).
      rewrite !count_concat_cons.
      pose proof (IH r' d' p xa xb xg xl Hall (Hpar p (or_introl eq_refl)) Ha Hb Hg Hl) as H1.
      pose proof (IHp xsa xsb xsg xsl Ca Cb Cg Cl (fun q Hq => Hpar q (or_intror Hq))) as H2. lia. }
  lia.
Qed.

Lemma find_class_vis d : wf_vis d = true -> forall p, find_class (classes d) (c_id p) = Some p -> forallb vis3 (c_ops p) = true.
Proof.
  unfold wf_vis. intros H p Hp. rewrite forallb_forall in H. apply H.
  clear H. induction (classes d) as [|q qs IH]; [discriminate|]. cbn [find_class] in Hp.
  destruct (c_id q =? c_id p); [inversion Hp; left; reflexivity|right; auto].
Qed.

(* decls vs defs of one class *)
Lemma decl_def_count d fuel c dl df (P : entry -> bool) :
  wf_vis d = true -> forallb vis3 (c_ops c) = true ->
  decls_of fuel d c = Some dl -> defs_of fuel d c = Some df -> count P dl = count P df.
Proof.
  intros Hwf Hc Hd Hf. unfold decls_of, defs_of in *.
  destruct (ops_of fuel d "public" "" [] c) as [a|] eqn:Ea; [|discriminate].
  destruct (ops_of fuel d "protected" "" [] c) as [b|] eqn:Eb; [|discriminate].
  destruct (ops_of fuel d "private" "" [] c) as [g|] eqn:Eg; [|discriminate].
  inversion Hd; subst dl. rewrite !count_app, Nat.add_assoc.
  eapply ops_partition; eauto. apply find_class_vis. exact Hwf.
Qed.

(* exactly one definition under distinct signatures *)
Lemma count_one_of_nodup {A} (eqb : A -> A -> bool) (l : list A) x :
  (forall a b, eqb a b = true <-> a = b) -> NoDup l -> In x l -> count (eqb x) l = 1.
Proof.
  intros Heq Hnd Hin. unfold count. induction l as [|y l IH]; [destruct Hin|].
  inversion Hnd as [|? ? Hny Hnd']; subst. cbn [filter].
  destruct (eqb x y) eqn:E.
  - apply Heq in E. subst y. cbn [List.length]. f_equal.
    assert (Hz : filter (eqb x) l = []).
    { clear - Heq Hny. induction l as [|z l IH]; [reflexivity|]. cbn [filter].
      destruct (eqb x z) eqn:E; [apply Heq in E; subst; exfalso; apply Hny; left; reflexivity|].
      apply IH. intros H. apply Hny. right. exact H. }
    rewrite Hz. reflexivity.
  - destruct Hin as [->|Hin]; [assert (eqb x x = true) by (apply Heq; reflexivity); congruence|]. apply IH; assumption.
Qed.

(* ---------------------------------------------------------------- realised interfaces *)

Lemma in_concat_of {A} (r : list A) rs x : In r rs -> In x r -> In x (List.concat rs).
Proof. intros Hr Hx. apply in_concat. exists r. split; assumption. Qed.

Lemma realised_emitted d fuel vis dcl c i p o l :
  In i (inhs d) -> contains (c_id c) (i_to i) = true -> i_real i = true ->
  find_class (classes d) (i_from i) = Some p -> c_pure p = true ->
  In o (c_ops p) -> vis_match vis o = true -> c_name c <> "" ->
  existsb (key_eqb (sig_key o)) (declared_of c) = false ->
  ops_of (S (S fuel)) d vis "" dcl c = Some l ->
  In {| en_class := c_name c; en_owner := c_name p; en_owner_pure := true; en_realised := true; en_op := o |} l.
Proof.
  intros Hi Hto Hre Hp Hpure Ho Hv Hne Hnd H.
  remember (S fuel) as f1 eqn:Hf1.
  cbn [ops_of] in H. destruct (parents_of d "" c) as [ps|] eqn:Hps; [|discriminate].
  change ("" =? "") with true in H. cbn iota in H.
  destruct (collect (map (ops_of f1 d vis (c_name c) (declared_of c)) ps)) as [rs|] eqn:Hc; [|discriminate].
  inversion H; subst l. apply in_or_app. left.
  assert (Hin : In p ps).
  { unfold parents_of in Hps.
    destruct (collect (map (fun i0 => find_class (classes d) (i_from i0))
               (filter (fun i0 => contains (c_id c) (i_to i0) && (i_real i0 || negb ("" =? ""))) (inhs d)))) as [qs|] eqn:Cq; [|discriminate].
    inversion Hps; subst ps. apply filter_In. split; [|exact Hpure].
    assert (Hf : In i (filter (fun i0 => contains (c_id c) (i_to i0) && (i_real i0 || negb ("" =? ""))) (inhs d))).
    { apply filter_In. split; [exact Hi|]. rewrite Hto, Hre. reflexivity. }
    destruct (collect_in _ _ _ i Cq Hf) as (r & Hr & Hrin). rewrite Hp in Hr. inversion Hr; subst. exact Hrin. }
  destruct (collect_in _ _ _ p Hc Hin) as (r & Hr & Hrin).
  eapply in_concat_of; [exact Hrin|].
  subst f1. cbn [ops_of] in Hr. destruct (parents_of d (c_name c) p) as [pps|]; [|discriminate].
  match type of Hr with context [collect ?x] => destruct (collect x) as [rrs|]; [|discriminate] end. injection Hr as <-.
  apply in_or_app. right. unfold own_entries.
  assert (Hn : (c_name c =? "") = false) by (apply String.eqb_neq; exact Hne).
  rewrite Hn, Hpure. cbn [negb].
  apply in_map_iff. exists o. split; [reflexivity|]. apply filter_In. split; [assumption|].
  unfold keep. rewrite Hn, Hnd, Hv. reflexivity.
Qed.

(* a realised operation is declared "override" and defined under the realising class's name *)
Lemma realised_rendering cn pn o :
  exists pre, decl_line {| en_class := cn; en_owner := pn; en_owner_pure := true; en_realised := true; en_op := o |} = pre ++ " override;".
Proof. unfold decl_line. cbn [en_owner_pure en_realised]. eexists. reflexivity. Qed.

(* ---------------------------------------------------------------- cyclic realisation: every fuel runs out *)

Definition cyc_iface : cls :=
  {| c_id := "I"; c_name := "ILoop"; c_ns := "N"; c_enum := false; c_struct := false; c_autogen := false; c_pure := true;
     c_ops := [{| o_name := "F"; o_vis := "public"; o_ret := "void"; o_params := []; o_virtual := false; o_static := false; o_const := false |}] |}.
Definition cyc_class : cls :=
  {| c_id := "C"; c_name := "CImpl"; c_ns := "N"; c_enum := false; c_struct := false; c_autogen := false; c_pure := false; c_ops := [] |}.
Definition cyc_diagram : cdiagram :=
  {| classes := [cyc_class; cyc_iface]; inhs := [{| i_to := "C"; i_from := "I"; i_real := true |}; {| i_to := "I"; i_from := "I"; i_real := true |}] |}.

Lemma cycle_iface_none fuel vis r dcl : ops_of fuel cyc_diagram vis r dcl cyc_iface = None.
Proof.
  revert r dcl. induction fuel as [|f IH]; intros r dcl; [reflexivity|].
  cbn [ops_of].
  assert (Hp : parents_of cyc_diagram r cyc_iface = Some [cyc_iface]).
  { unfold parents_of, cyc_diagram. cbn [inhs classes filter map].
    change (contains (c_id cyc_iface) "C") with false. change (contains (c_id cyc_iface) "I") with true.
    cbn [andb orb i_real i_from collect find_class]. reflexivity. }
  rewrite Hp. cbn [map collect]. rewrite IH. reflexivity.
Qed.

Lemma cycle_none fuel vis : ops_of fuel cyc_diagram vis "" [] cyc_class = None.
Proof.
  destruct fuel as [|f]; [reflexivity|]. cbn [ops_of].
  assert (Hp : parents_of cyc_diagram "" cyc_class = Some [cyc_iface]) by (vm_compute; reflexivity).
  rewrite Hp. cbn [map collect]. rewrite cycle_iface_none. reflexivity.
Qed.

(* ---------------------------------------------------------------- fuel: acyclic diagrams never run out *)

Lemma collect_total {A B} (g : A -> option B) l :
  (forall x, In x l -> exists y, g x = Some y) ->
  exists ys, collect (map g l) = Some ys /\ (forall y, In y ys -> exists x, In x l /\ g x = Some y).
Proof.
  induction l as [|a l IH]; intros H.
  - exists []. split; [reflexivity|]. intros y [].
  - destruct (H a (or_introl eq_refl)) as (y & Hy).
    destruct (IH (fun x Hx => H x (or_intror Hx))) as (ys & Hc & Hys).
    exists (y :: ys). split; [cbn [map collect]; rewrite Hy, Hc; reflexivity|].
    intros z [<-|Hz]; [exists a; split; [left; reflexivity|exact Hy]|].
    destruct (Hys z Hz) as (x & Hx & Hg). exists x. split; [right; exact Hx|exact Hg].
Qed.

Lemma parents_within d r c : closed d = true ->
  exists ps, parents_of d r c = Some ps /\ (forall p, In p ps -> In p (edge_parents d c)).
Proof.
  intros Hcl. unfold parents_of.
  set (Q := fun i => contains (c_id c) (i_to i) && (i_real i || negb (r =? ""))).
  destruct (collect_total (fun i => find_class (classes d) (i_from i)) (filter Q (inhs d))) as (qs & Hc & Hqs).
  { intros i Hi. apply filter_In in Hi. destruct Hi as [Hi _]. unfold closed in Hcl. rewrite forallb_forall in Hcl.
    specialize (Hcl i Hi). destruct (find_class (classes d) (i_from i)) as [p|]; [exists p; reflexivity|discriminate]. }
  rewrite Hc. eexists. split; [reflexivity|].
  intros p Hp. apply filter_In in Hp. destruct Hp as [Hp Hpure]. destruct (Hqs p Hp) as (i & Hi & Hf).
  unfold edge_parents. apply filter_In. split; [|exact Hpure].
  apply in_flat_map. exists i. split; [|rewrite Hf; left; reflexivity].
  apply filter_In in Hi. destruct Hi as [Hi HQ]. apply filter_In. split; [exact Hi|].
  unfold Q in HQ. apply andb_true_iff in HQ. tauto.
Qed.

Lemma fuel_enough d : closed d = true ->
  forall n c, bounded n d c = true -> forall vis r dcl, exists l, ops_of n d vis r dcl c = Some l.
Proof.
  intros Hcl. induction n as [|m IH]; intros c Hb vis r dcl; [discriminate|].
  cbn [bounded] in Hb. rewrite forallb_forall in Hb. cbn [ops_of].
  destruct (parents_within d r c Hcl) as (ps & Hps & Hsub). rewrite Hps.
  destruct (collect_total (ops_of m d vis (if r =? "" then c_name c else r) (if r =? "" then declared_of c else dcl)) ps) as (rs & Hc & _).
  { intros p Hp. apply IH. apply Hb. apply Hsub. exact Hp. }
  rewrite Hc. eexists. reflexivity.
Qed.

Lemma acyclic_returns d c : acyclic d = true -> closed d = true -> In c (classes d) ->
  exists dl df, decls_of (List.length (classes d)) d c = Some dl /\ defs_of (List.length (classes d)) d c = Some df.
Proof.
  intros Ha Hcl Hc. unfold acyclic in Ha. rewrite forallb_forall in Ha. specialize (Ha c Hc).
  unfold decls_of, defs_of.
  destruct (fuel_enough d Hcl _ c Ha "public" "" []) as (a & ->).
  destruct (fuel_enough d Hcl _ c Ha "protected" "" []) as (b & ->).
  destruct (fuel_enough d Hcl _ c Ha "private" "" []) as (g & ->).
  destruct (fuel_enough d Hcl _ c Ha "all" "" []) as (al & ->).
  eexists. eexists. split; reflexivity.
Qed.

Lemma acyclic_decl_def d c (P : entry -> bool) : acyclic d = true -> closed d = true -> wf_vis d = true -> In c (classes d) ->
  exists dl df, decls_of (List.length (classes d)) d c = Some dl /\ defs_of (List.length (classes d)) d c = Some df
                /\ count P dl = count P df.
Proof.
  intros Ha Hcl Hwf Hc. destruct (acyclic_returns d c Ha Hcl Hc) as (dl & df & Hd & Hf).
  exists dl, df. split; [exact Hd|]. split; [exact Hf|].
  eapply decl_def_count; eauto. unfold wf_vis in Hwf. rewrite forallb_forall in Hwf. apply Hwf. exact Hc.
Qed.

(* the boolean really excludes cycles: a set of classes each of which has a parent edge into the set (e.g. the classes on a
   cycle) contains no bounded class, for any bound *)
Lemma cycle_unbounded d (S : list cls) :
  (forall x, In x S -> exists y, In y S /\ In y (edge_parents d x)) ->
  forall n x, In x S -> bounded n d x = false.
Proof.
  intros HS. induction n as [|m IH]; intros x Hx; [reflexivity|].
  cbn [bounded]. destruct (HS x Hx) as (y & Hy & Hedge).
  destruct (forallb (bounded m d) (edge_parents d x)) eqn:E; [|reflexivity].
  rewrite forallb_forall in E. specialize (E y Hedge). rewrite (IH y Hy) in E. discriminate.
Qed.

(* a class realising an interface that generalises another one: acyclic, closed, and it returns *)
Definition ok_base : cls :=
  {| c_id := "J"; c_name := "IBase"; c_ns := "N"; c_enum := false; c_struct := false; c_autogen := false; c_pure := true;
     c_ops := [{| o_name := "G"; o_vis := "protected"; o_ret := "int"; o_params := []; o_virtual := false; o_static := false; o_const := true |}] |}.
Definition ok_diagram : cdiagram :=
  {| classes := [cyc_class; cyc_iface; ok_base];
     inhs := [{| i_to := "C"; i_from := "I"; i_real := true |}; {| i_to := "I"; i_from := "J"; i_real := false |}] |}.

Lemma ok_diagram_facts :
  acyclic ok_diagram = true /\ closed ok_diagram = true /\ wf_vis ok_diagram = true /\ acyclic cyc_diagram = false
  /\ option_map (map def_head) (defs_of 3 ok_diagram cyc_class) = Some ["int CImpl::G() const"; "void CImpl::F()"].
Proof. repeat split; vm_compute; reflexivity. Qed.
