(* CleanUpLine keeps the USER tag prefix: a line that contains the prefix still contains it after cleaning.
   Hence every key that CollectFile produces contains the prefix (no hypothesis needed on the source file A of FileSync,
   nor on old files in general). *)
From Coq Require Import String Ascii List Bool Arith Lia.
From KV Require Import Lib.Str Lib.ODict Model.PreserveCore Model.Preserve Gen.Tags Proofs.StrProofs Proofs.PreserveCoreProofs Proofs.PreserveTree.
Import ListNotations.
Open Scope string_scope.

Lemma append_assoc_c (a b c : string) : ((a ++ b) ++ c)%string = (a ++ (b ++ c))%string.
Proof. induction a; simpl; congruence. Qed.

Lemma prefixb_app p b : prefixb p (p ++ b) = true.
Proof. induction p as [|c p IH]; simpl; [reflexivity|]. rewrite ascii_eqb_refl. exact IH. Qed.

Lemma contains_intro p a b : contains p (a ++ p ++ b) = true.
Proof.
  induction a as [|c a IH].
  - simpl. destruct (p ++ b) eqn:E; cbn [contains]; rewrite <- E, prefixb_app; reflexivity.
  - change ((String c a ++ p ++ b)%string) with (String c (a ++ p ++ b)%string).
    cbn [contains]. rewrite IH. apply orb_true_r.
Qed.

Lemma prefixb_split p s : prefixb p s = true -> exists b, s = (p ++ b)%string.
Proof.
  revert s. induction p as [|c p IH]; intros s H.
  - exists s. reflexivity.
  - destruct s as [|d s]; [discriminate|]. simpl in H. apply andb_prop in H as [H1 H2].
    apply Ascii.eqb_eq in H1. subst d. destruct (IH s H2) as [b Hb]. exists b. simpl. rewrite Hb. reflexivity.
Qed.

Lemma contains_split p s : contains p s = true -> exists a b, s = (a ++ p ++ b)%string.
Proof.
  induction s as [|c s IH]; cbn [contains]; intros H.
  - rewrite orb_false_r in H. apply prefixb_split in H as [b Hb]. exists "", b. exact Hb.
  - apply orb_prop in H as [H|H].
    + apply prefixb_split in H as [b Hb]. exists "", b. exact Hb.
    + destruct (IH H) as [a [b Hab]]. exists (String c a), b. simpl. rewrite Hab. reflexivity.
Qed.

(* ---------------------------------------------------------------- remove_char *)
Lemma remove_char_app c a b : remove_char c (a ++ b) = (remove_char c a ++ remove_char c b)%string.
Proof. induction a as [|x a IH]; simpl; [reflexivity|]. destruct (Ascii.eqb x c); simpl; rewrite IH; reflexivity. Qed.

Lemma remove_char_id c p : no_char c p = true -> remove_char c p = p.
Proof.
  induction p as [|x p IH]; simpl; [reflexivity|]. intros H. apply andb_prop in H as [H1 H2].
  apply negb_true_iff in H1. rewrite H1, IH by assumption. reflexivity.
Qed.

Lemma contains_remove_char c p s : no_char c p = true -> contains p s = true -> contains p (remove_char c s) = true.
Proof.
  intros Hc H. apply contains_split in H as [a [b E]]. subst s.
  rewrite !remove_char_app, (remove_char_id c p Hc). apply contains_intro.
Qed.

(* ---------------------------------------------------------------- remove2 *)
Lemma remove2_cons x y c r : r <> "" -> (Ascii.eqb c x && match r with String d _ => Ascii.eqb d y | _ => false end) = false ->
  remove2 x y (String c r) = String c (remove2 x y r).
Proof. destruct r as [|d r']; [contradiction|]. intros _ H. cbn [remove2]. rewrite H. reflexivity. Qed.

Lemma remove2_through x y p b : no_char x p = true -> remove2 x y (p ++ b) = (p ++ remove2 x y b)%string.
Proof.
  induction p as [|c p IH]; [reflexivity|]. intros H. cbn [no_char] in H. apply andb_prop in H as [H1 H2].
  apply negb_true_iff in H1.
  change ((String c p ++ b)%string) with (String c (p ++ b)%string).
  specialize (IH H2).
  remember ((p ++ b)%string) as t eqn:E. destruct t as [|d r].
  - destruct p; [|discriminate]. simpl in E. subst b. reflexivity.
  - rewrite remove2_cons; [rewrite IH; reflexivity|discriminate|rewrite H1; reflexivity].
Qed.

Lemma remove2_keeps x y p b : p <> "" -> no_char x p = true -> no_char y p = true ->
  forall n a, String.length a <= n -> exists a', remove2 x y (a ++ p ++ b) = (a' ++ p ++ remove2 x y b)%string.
Proof.
  intros Hne Hx Hy. induction n as [|n IH]; intros a Hlen.
  - destruct a; [|simpl in Hlen; lia]. exists "". simpl. apply remove2_through. assumption.
  - destruct a as [|c a1]; [exists ""; simpl; apply remove2_through; assumption|].
    simpl in Hlen.
    change ((String c a1 ++ p ++ b)%string) with (String c (a1 ++ p ++ b)%string).
    assert (Hr : (a1 ++ p ++ b)%string <> "") by (destruct a1; [destruct p; [contradiction|discriminate]|discriminate]).
    destruct (Ascii.eqb c x && match (a1 ++ p ++ b)%string with String d _ => Ascii.eqb d y | _ => false end) eqn:E.
    + (* a match: the next character is y, so it lies in a1 (the first character of p is not y) *)
      apply andb_prop in E as [E1 E2].
      destruct a1 as [|d a2].
      * exfalso. simpl in E2. destruct p as [|q p']; [contradiction|]. simpl in E2.
        cbn [no_char] in Hy. apply andb_prop in Hy as [Hy1 _]. apply negb_true_iff in Hy1. congruence.
      * change ((String d a2 ++ p ++ b)%string) with (String d (a2 ++ p ++ b)%string) in *.
        cbn [remove2]. rewrite E1, E2. cbn [andb].
        apply (IH a2). simpl in Hlen. lia.
    + rewrite remove2_cons by assumption.
      destruct (IH a1 ltac:(lia)) as [a' Ha']. exists (String c a'). rewrite Ha'. reflexivity.
Qed.

Lemma contains_remove2 x y p s : p <> "" -> no_char x p = true -> no_char y p = true ->
  contains p s = true -> contains p (remove2 x y s) = true.
Proof.
  intros Hne Hx Hy H. apply contains_split in H as [a [b E]]. subst s.
  destruct (remove2_keeps x y p b Hne Hx Hy (String.length a) a (le_n _)) as [a' Ha']. rewrite Ha'. apply contains_intro.
Qed.

(* ---------------------------------------------------------------- the whole chain *)
Definition pat_ok (p pat : string) : bool :=
  match pat with
  | String a EmptyString => no_char a p
  | String a (String b EmptyString) => no_char a p && no_char b p
  | _ => true
  end.

Lemma contains_clean_step p s pat : p <> "" -> pat_ok p pat = true -> contains p s = true -> contains p (clean_step s pat) = true.
Proof.
  intros Hne Hok H. unfold clean_step. destruct pat as [|a [|b [|c r]]]; try assumption.
  - apply contains_remove_char; assumption.
  - simpl in Hok. apply andb_prop in Hok as [H1 H2]. apply contains_remove2; assumption.
Qed.

Lemma contains_clean_with p pats : p <> "" -> forallb (pat_ok p) pats = true ->
  forall s, contains p s = true -> contains p (clean_with pats s) = true.
Proof.
  intros Hne. unfold clean_with. induction pats as [|pat pats IH]; intros Hok s H; [assumption|].
  simpl in Hok. apply andb_prop in Hok as [H1 H2]. simpl. apply IH; [assumption|].
  apply contains_clean_step; assumption.
Qed.

(* source-derived obligation: no pattern of CleanUpLine's chain touches a character of the tag prefix *)
Lemma clean_patterns_ok : forallb (pat_ok tag_prefix) clean_patterns = true.
Proof. vm_compute. reflexivity. Qed.

Theorem kpfx_of_tag l : is_tag l = true -> kpfx (kof l) = true.
Proof.
  unfold is_tag, kpfx, kof. apply contains_clean_with; [discriminate|apply clean_patterns_ok].
Qed.

(* ---------------------------------------------------------------- every collected key contains the prefix *)
Lemma collect_keys_pfx ls : forall s,
  (forall k, In k (keys (c_acc s)) -> kpfx k = true) -> (c_preserving s = true -> kpfx (c_key s) = true) ->
  forall k, In k (keys (c_acc (collect_from String.eqb is_tag kof s ls))) -> kpfx k = true.
Proof.
  induction ls as [|l ls IH]; intros s Hacc Hkey; [exact Hacc|].
  unfold collect_from. cbn [fold_left]. fold (collect_from String.eqb is_tag kof (collect_step String.eqb is_tag kof s l) ls).
  destruct s as [pres key cur acc]. cbn [c_acc c_key c_preserving] in *.
  apply IH; unfold collect_step; cbn [c_acc c_key c_preserving c_cur]; destruct pres, (is_tag l) eqn:Et; cbn [andb c_acc c_key c_preserving].
  - intros k Hk.
    destruct (in_dec string_dec key (keys acc)) as [Hin|Hnin].
    + rewrite (keys_upsert key cur acc Hin) in Hk. apply Hacc. exact Hk.
    + rewrite (keys_upsert_new key cur acc Hnin) in Hk.
      apply in_app_or in Hk as [Hk|[Hk|[]]]; [apply Hacc; exact Hk|subst k; apply Hkey; reflexivity].
  - exact Hacc.
  - exact Hacc.
  - exact Hacc.
  - discriminate.
  - intros _. apply Hkey. reflexivity.
  - intros _. apply kpfx_of_tag. exact Et.
  - discriminate.
Qed.

Theorem collect_keys_have_prefix ls : @keys_pfx string string kpfx (collect ls).
Proof.
  unfold keys_pfx, collect, collect_file. intros k Hk.
  apply (collect_keys_pfx ls (mkC false "" [] [])); [intros k0 []|discriminate|exact Hk].
Qed.
