(* The include lines cover what a class uses by value: includes_cover / source_cover, and the path of an include resolves to the
   header file C19 assigns to the included class: include_resolves. *)
From Coq Require Import String Ascii List Bool Arith Lia Permutation.
From KV Require Import Lib.Str Lib.ODict Model.Vpp Model.Uml Model.UmlBlob Model.UmlIncl Spec.UmlSpec Proofs.SortedSet Proofs.UmlFiles.
Import ListNotations.
Open Scope string_scope.

(* ---------------------------------------------------------------- strings *)

Lemma ic_app_assoc (a b c : string) : (a ++ b) ++ c = a ++ (b ++ c).
Proof. induction a as [|x a IH]; cbn [append]; [reflexivity|rewrite IH; reflexivity]. Qed.

Lemma ic_app_nil_r (a : string) : a ++ "" = a.
Proof. induction a as [|x a IH]; cbn [append]; [reflexivity|rewrite IH; reflexivity]. Qed.

Lemma ic_length_app (a b : string) : String.length (a ++ b) = String.length a + String.length b.
Proof. induction a as [|x a IH]; cbn [append String.length]; [reflexivity|rewrite IH; reflexivity]. Qed.

Lemma ic_prefixb_app p r : prefixb p (p ++ r) = true.
Proof.
  induction p as [|x p IH]; cbn [append prefixb]; [destruct r; reflexivity|].
  rewrite Ascii.eqb_refl, IH. reflexivity.
Qed.

Lemma ic_prefixb_split p : forall s, prefixb p s = true -> exists r, s = p ++ r.
Proof.
  induction p as [|x p IH]; intros s H.
  - exists s. reflexivity.
  - destruct s as [|y s]; cbn [prefixb] in H; [discriminate|].
    apply andb_true_iff in H. destruct H as [H1 H2]. apply Ascii.eqb_eq in H1. subst y.
    destruct (IH s H2) as [r Hr]. exists r. cbn [append]. rewrite <- Hr. reflexivity.
Qed.

Lemma ic_substring_all s : substring 0 (String.length s) s = s.
Proof. induction s as [|x s IH]; cbn [String.length substring]; [reflexivity|rewrite IH; reflexivity]. Qed.

Lemma ic_substring_take p q : substring 0 (String.length p) (p ++ q) = p.
Proof.
  induction p as [|x p IH]; cbn [String.length substring append]; [destruct q; reflexivity|rewrite IH; reflexivity].
Qed.

Lemma ic_substring_skip p n r : substring (String.length p) n (p ++ r) = substring 0 n r.
Proof. induction p as [|x p IH]; cbn [String.length substring append]; [reflexivity|exact IH]. Qed.

Lemma ic_substring_drop p r : substring (String.length p) (String.length (p ++ r) - String.length p) (p ++ r) = r.
Proof.
  rewrite ic_substring_skip, ic_length_app.
  replace (String.length p + String.length r - String.length p) with (String.length r) by lia.
  apply ic_substring_all.
Qed.

Lemma ic_no_char_app c a b : no_char c (a ++ b) = no_char c a && no_char c b.
Proof. induction a as [|x a IH]; cbn [append no_char]; [reflexivity|rewrite IH, andb_assoc; reflexivity]. Qed.

(* ---------------------------------------------------------------- split2 *)

Definition comps_plain (s : string) : bool := forallb (no_char ":") (split2 ":" ":" s).

Lemma split2_plain name : no_char ":" name = true -> split2 ":" ":" name = [name].
Proof.
  induction name as [|x r IH]; intros H; [reflexivity|].
  cbn [no_char] in H. apply andb_true_iff in H. destruct H as [Hx Hr]. apply negb_true_iff in Hx.
  destruct r as [|y r']; [reflexivity|]. rewrite split2_cons2, Hx. cbn [andb]. rewrite (IH Hr). reflexivity.
Qed.

Lemma split2_app_n b : forall n a, String.length a <= n -> comps_plain a = true ->
  split2 ":" ":" (a ++ "::" ++ b) = (split2 ":" ":" a ++ split2 ":" ":" b)%list.
Proof.
  induction n as [|n IH]; intros a Hn H.
  - destruct a; [reflexivity|cbn in Hn; lia].
  - destruct a as [|x r]; [reflexivity|]. cbn [String.length] in Hn.
    destruct r as [|y r'].
    + unfold comps_plain in H. cbn in H. rewrite andb_true_r in H. apply andb_true_iff in H. destruct H as [Hx _].
      apply negb_true_iff in Hx.
      change (String x "" ++ "::" ++ b) with (String x (String ":" (String ":" b))).
      rewrite split2_cons2, Hx. cbn [andb].
      change (split2 ":" ":" (String ":" (String ":" b))) with ("" :: split2 ":" ":" b). reflexivity.
    + cbn [String.length] in Hn. unfold comps_plain in H. rewrite split2_cons2 in H.
      change (String x (String y r') ++ "::" ++ b) with (String x (String y (r' ++ "::" ++ b))).
      rewrite (split2_cons2 ":" ":" x y (r' ++ "::" ++ b)), (split2_cons2 ":" ":" x y r').
      destruct (Ascii.eqb x ":" && Ascii.eqb y ":") eqn:E.
      * cbn [forallb no_char andb] in H. rewrite (IH r') by (try lia; exact H). reflexivity.
      * assert (Hy : comps_plain (String y r') = true).
        { unfold comps_plain. destruct (split2 ":" ":" (String y r')) as [|h t] eqn:Es; [reflexivity|].
          cbn [forallb no_char] in H |- *. apply andb_true_iff in H. destruct H as [H1 H2].
          apply andb_true_iff in H1. destruct H1 as [_ H1]. rewrite H1, H2. reflexivity. }
        change (String y (r' ++ "::" ++ b)) with (String y r' ++ "::" ++ b).
        rewrite (IH (String y r')) by (try (cbn [String.length]; lia); exact Hy).
        destruct (split2 ":" ":" (String y r')) as [|h t] eqn:Es; [exfalso; eapply split2_nonempty; eauto|].
        reflexivity.
Qed.

Lemma split2_app a b : comps_plain a = true ->
  split2 ":" ":" (a ++ "::" ++ b) = (split2 ":" ":" a ++ split2 ":" ":" b)%list.
Proof. apply (split2_app_n b (String.length a)). lia. Qed.

Lemma join_app sep : forall l1 l2, l1 <> [] -> l2 <> [] -> join sep (l1 ++ l2)%list = join sep l1 ++ sep ++ join sep l2.
Proof.
  induction l1 as [|x r IH]; intros l2 H1 H2; [congruence|].
  destruct r as [|y r'].
  - destruct l2; [congruence|]. reflexivity.
  - change ((x :: y :: r') ++ l2)%list with (x :: (y :: (r' ++ l2)%list)).
    change (join sep (x :: y :: (r' ++ l2)%list)) with (x ++ sep ++ join sep ((y :: r') ++ l2)%list).
    rewrite IH by (try discriminate; exact H2).
    change (join sep (x :: y :: r')) with (x ++ sep ++ join sep (y :: r')).
    rewrite !ic_app_assoc. reflexivity.
Qed.

Lemma last_snoc {A} (l : list A) x d : last (l ++ [x])%list d = x.
Proof. induction l as [|y r IH]; [reflexivity|]. cbn [app]. destruct (r ++ [x])%list eqn:E; [destruct r; discriminate|]. exact IH. Qed.

Definition comp_ok (p : string) : bool := no_char ":" p && negb (String.eqb p "").
Definition ns_ok (ns : string) : bool := forallb comp_ok (if String.eqb ns "" then [] else split2 ":" ":" ns).

Lemma forallb_ok_plain l : forallb comp_ok l = true -> forallb (no_char ":") l = true.
Proof.
  induction l as [|x r IH]; [reflexivity|]. cbn [forallb]. intros H. apply andb_true_iff in H. destruct H as [H1 H2].
  unfold comp_ok in H1. apply andb_true_iff in H1. destruct H1 as [H1 _]. rewrite H1, (IH H2). reflexivity.
Qed.

Lemma ns_ok_plain ns : ns_ok ns = true -> comps_plain ns = true.
Proof.
  unfold ns_ok, comps_plain. destruct (String.eqb ns "") eqn:E.
  - apply String.eqb_eq in E. subst. reflexivity.
  - apply forallb_ok_plain.
Qed.

Lemma incl_name_ok_parts k : incl_name_ok k = true ->
  no_char ":" (ic_name k) = true /\ ns_ok (ic_ns k) = true.
Proof.
  unfold incl_name_ok. intros H. apply andb_true_iff in H. destruct H as [H H3].
  apply andb_true_iff in H. destruct H as [H1 H2]. split; [exact H1|exact H3].
Qed.

(* the folder chain of a proper namespace is not empty *)
Lemma chain_nonempty ns : ns_ok ns = true -> ns <> "" -> folder_chain ns <> "".
Proof.
  unfold ns_ok, folder_chain. intros H Hne. apply String.eqb_neq in Hne. rewrite Hne in H.
  destruct (split2 ":" ":" ns) as [|h t] eqn:Es; [exfalso; eapply split2_nonempty; eauto|].
  cbn [forallb] in H. apply andb_true_iff in H. destruct H as [H _]. unfold comp_ok in H.
  apply andb_true_iff in H. destruct H as [_ H]. apply negb_true_iff in H. apply String.eqb_neq in H.
  destruct h as [|x h]; [congruence|]. rewrite join_cons_char. discriminate.
Qed.

Lemma replace_is_chain s : replace_all "::" "/" s = folder_chain s.
Proof. change (replace_all "::" "/" s) with (ns_path s). apply ns_path_chain. Qed.

(* the text before the class name (a namespace and its two colons) becomes the folder chain of the namespace and a slash *)
Lemma chain_trailing a : comps_plain a = true -> folder_chain (a ++ "::") = folder_chain a ++ "/".
Proof.
  intros H. unfold folder_chain. change (a ++ "::") with (a ++ "::" ++ ""). rewrite (split2_app a "" H).
  change (split2 ":" ":" "") with [""]. rewrite join_app by (try apply split2_nonempty; discriminate). reflexivity.
Qed.

(* ---------------------------------------------------------------- the pair computed for one name *)

Definition ns_key (cns f : string) : string * string :=
  let f' := if negb (String.eqb cns "") && prefixb (cns ++ "::") f
            then substring (String.length cns + 2) (String.length f - (String.length cns + 2)) f else f in
  let lst := last (split2 ":" ":" f') "" in
  (replace_all "::" "/" (substring 0 (String.length f' - String.length lst) f'), lst).

Definition key_of (f' : string) : string * string :=
  let lst := last (split2 ":" ":" f') "" in
  (replace_all "::" "/" (substring 0 (String.length f' - String.length lst) f'), lst).

Definition exp_folder (c k : icls) : string :=
  if String.eqb (rel_namespace c k) "" then "" else replace_all "::" "/" (rel_namespace c k) ++ "/".

Lemma key_plain name : no_char ":" name = true -> key_of name = ("", name).
Proof.
  intros H. unfold key_of. rewrite (split2_plain name H). cbn [last]. rewrite Nat.sub_diag.
  replace (substring 0 0 name) with "" by (destruct name; reflexivity). reflexivity.
Qed.

Lemma key_full a name : comps_plain a = true -> no_char ":" name = true ->
  key_of (a ++ "::" ++ name) = (replace_all "::" "/" a ++ "/", name).
Proof.
  intros Ha Hn. unfold key_of. rewrite (split2_app a name Ha), (split2_plain name Hn), last_snoc.
  rewrite <- (ic_app_assoc a "::" name), ic_length_app.
  replace (String.length (a ++ "::") + String.length name - String.length name) with (String.length (a ++ "::")) by lia.
  rewrite ic_substring_take, !replace_is_chain, (chain_trailing a Ha). reflexivity.
Qed.

Lemma strip_len cns : String.length cns + 2 = String.length (cns ++ "::").
Proof. rewrite ic_length_app. reflexivity. Qed.

(* a qualified name of another namespace does not start with c's namespace *)
Lemma no_false_prefix cns kns name r :
  ns_ok cns = true -> ns_ok kns = true -> cns <> "" -> kns <> "" -> no_char ":" name = true ->
  kns ++ "::" ++ name = (cns ++ "::") ++ r -> kns = cns \/ prefixb (cns ++ "::") kns = true.
Proof.
  intros Hc Hk Hcne Hkne Hn E. rewrite ic_app_assoc in E.
  apply (f_equal (split2 ":" ":")) in E.
  rewrite (split2_app kns name (ns_ok_plain _ Hk)), (split2_app cns r (ns_ok_plain _ Hc)), (split2_plain name Hn) in E.
  destruct (@exists_last _ (split2 ":" ":" r) (split2_nonempty _ _ _)) as [l [z Hz]]. rewrite Hz in E.
  rewrite app_assoc in E. apply app_inj_tail in E. destruct E as [E _].
  destruct l as [|y l'].
  - left. rewrite app_nil_r in E. rewrite <- (join_split2 kns), <- (join_split2 cns), E. reflexivity.
  - right. rewrite <- (join_split2 kns), E, join_app by (try apply split2_nonempty; discriminate).
    rewrite join_split2, <- ic_app_assoc. apply ic_prefixb_app.
Qed.

Definition rel_str (cns kns : string) : string :=
  if String.eqb kns cns then ""
  else if negb (String.eqb cns "") && prefixb (cns ++ "::") kns
       then substring (String.length cns + 2) (String.length kns - (String.length cns + 2)) kns
       else kns.
Definition qname_str (kns name : string) : string := if String.eqb kns "" then name else kns ++ "::" ++ name.

Lemma nested_parts cns kns r : ns_ok cns = true -> ns_ok kns = true -> cns <> "" -> kns = (cns ++ "::") ++ r ->
  String.eqb kns "" = false /\ String.eqb r "" = false /\ forallb comp_ok (split2 ":" ":" r) = true
  /\ split2 ":" ":" kns = (split2 ":" ":" cns ++ split2 ":" ":" r)%list.
Proof.
  intros Hcn Hkn Ec Hr.
  assert (Hkne : String.eqb kns "" = false).
  { apply String.eqb_neq. intro E0. rewrite E0 in Hr. destruct cns; discriminate. }
  assert (Hsplit : split2 ":" ":" kns = (split2 ":" ":" cns ++ split2 ":" ":" r)%list).
  { rewrite Hr, ic_app_assoc. apply split2_app. apply ns_ok_plain. exact Hcn. }
  assert (Hrok : forallb comp_ok (split2 ":" ":" r) = true).
  { unfold ns_ok in Hkn. rewrite Hkne, Hsplit, forallb_app in Hkn. apply andb_true_iff in Hkn. apply Hkn. }
  assert (Hrne : String.eqb r "" = false).
  { apply String.eqb_neq. intro E0. subst r. cbn in Hrok. discriminate. }
  repeat split; assumption.
Qed.

Lemma rel_str_nested cns r : cns <> "" -> r <> "" -> rel_str cns ((cns ++ "::") ++ r) = r.
Proof.
  intros Hc Hr. unfold rel_str.
  destruct (String.eqb ((cns ++ "::") ++ r) cns) eqn:E.
  - exfalso. apply String.eqb_eq in E. apply (f_equal String.length) in E. rewrite !ic_length_app in E. cbn in E. lia.
  - apply String.eqb_neq in Hc. rewrite Hc, ic_prefixb_app. cbn [negb andb]. rewrite strip_len. apply ic_substring_drop.
Qed.

Lemma ns_key_str cns kns name : ns_ok cns = true -> ns_ok kns = true -> no_char ":" name = true ->
  ns_key cns (qname_str kns name) =
  (if String.eqb (rel_str cns kns) "" then "" else replace_all "::" "/" (rel_str cns kns) ++ "/", name).
Proof.
  intros Hcn Hkn Hn. unfold ns_key.
  fold (key_of (if negb (String.eqb cns "") && prefixb (cns ++ "::") (qname_str kns name)
                then substring (String.length cns + 2) (String.length (qname_str kns name) - (String.length cns + 2)) (qname_str kns name)
                else qname_str kns name)).
  destruct (String.eqb kns cns) eqn:Ekc.
  - (* the same namespace *)
    apply String.eqb_eq in Ekc. subst kns. unfold rel_str, qname_str. rewrite !String.eqb_refl. destruct (String.eqb cns "") eqn:Ec.
    + cbn [negb andb]. apply key_plain. exact Hn.
    + cbn [negb andb]. rewrite <- ic_app_assoc, ic_prefixb_app, strip_len, ic_substring_drop.
      apply key_plain. exact Hn.
  - destruct (String.eqb cns "") eqn:Ec.
    + (* c without namespace: the whole namespace of k *)
      unfold rel_str, qname_str. rewrite Ekc, Ec. cbn [negb andb].
      apply String.eqb_eq in Ec. subst cns. rewrite Ekc.
      apply key_full; [apply ns_ok_plain; exact Hkn|exact Hn].
    + apply String.eqb_neq in Ec.
      destruct (prefixb (cns ++ "::") kns) eqn:Ep.
      * (* nested in c's namespace *)
        destruct (ic_prefixb_split _ _ Ep) as [r Hr].
        destruct (nested_parts cns kns r Hcn Hkn Ec Hr) as (Hkne & Hrne & Hrok & _).
        unfold qname_str. rewrite Hkne. subst kns.
        rewrite rel_str_nested by (try exact Ec; apply String.eqb_neq; exact Hrne). rewrite Hrne.
        cbn [negb andb].
        rewrite (ic_app_assoc (cns ++ "::") r ("::" ++ name)), ic_prefixb_app, strip_len, ic_substring_drop.
        apply key_full; [apply forallb_ok_plain; exact Hrok|exact Hn].
      * (* elsewhere: nothing is stripped *)
        unfold rel_str. rewrite Ekc, Ep, andb_false_r. unfold qname_str.
        destruct (String.eqb kns "") eqn:Ek.
        -- destruct (prefixb (cns ++ "::") name) eqn:Ep2.
           ++ exfalso. destruct (ic_prefixb_split _ _ Ep2) as [r Hr]. rewrite Hr, !ic_no_char_app in Hn.
              cbn in Hn. rewrite andb_false_r in Hn. discriminate.
           ++ rewrite andb_false_r. apply key_plain. exact Hn.
        -- destruct (prefixb (cns ++ "::") (kns ++ "::" ++ name)) eqn:Ep2.
           ++ exfalso. destruct (ic_prefixb_split _ _ Ep2) as [r Hr]. apply String.eqb_neq in Ek. apply String.eqb_neq in Ekc.
              destruct (no_false_prefix cns kns name r Hcn Hkn Ec Ek Hn Hr) as [E0|E0]; [congruence|].
              rewrite E0 in Ep. discriminate.
           ++ rewrite andb_false_r. apply key_full; [apply ns_ok_plain; exact Hkn|exact Hn].
Qed.

Lemma ns_key_spec c k : incl_name_ok c = true -> incl_name_ok k = true ->
  ns_key (ic_ns c) (qname k) = (exp_folder c k, ic_name k).
Proof.
  intros Hc Hk. destruct (incl_name_ok_parts c Hc) as [_ Hcn]. destruct (incl_name_ok_parts k Hk) as [Hn Hkn].
  exact (ns_key_str (ic_ns c) (ic_ns k) (ic_name k) Hcn Hkn Hn).
Qed.

(* ---------------------------------------------------------------- sorted_set keeps the elements *)

Lemma ins_is_insert x l : UmlIncl.insert_sorted x l = insert x l.
Proof. induction l as [|y r IH]; cbn [UmlIncl.insert_sorted insert]; [reflexivity|rewrite IH; reflexivity]. Qed.

Lemma sort_is_py l : sort_strings l = py_sorted l.
Proof. induction l as [|x r IH]; cbn [sort_strings py_sorted]; [reflexivity|rewrite IH; apply ins_is_insert]. Qed.

Lemma dedupe_keeps x : forall l seen, In x l -> ~ In x seen -> In x (dedupe l seen).
Proof.
  induction l as [|y r IH]; intros seen Hin Hns; [destruct Hin|].
  cbn [dedupe]. destruct (existsb (String.eqb y) seen) eqn:E.
  - apply existsb_exists in E. destruct E as [z [Hz Ez]]. apply String.eqb_eq in Ez. subst z.
    destruct Hin as [->|Hin]; [contradiction|]. apply IH; assumption.
  - destruct (string_dec y x) as [->|Hne]; [left; reflexivity|].
    destruct Hin as [->|Hin]; [congruence|]. right. apply IH; [exact Hin|].
    intros [H|H]; [congruence|contradiction].
Qed.

Lemma sorted_set_keeps x l : In x l -> In x (sorted_set l).
Proof.
  intros H. unfold sorted_set. rewrite sort_is_py. eapply Permutation_in; [apply py_sorted_perm|].
  apply dedupe_keeps; [exact H|intros []].
Qed.

(* ---------------------------------------------------------------- grouping, filtering, lines *)

Lemma group_add_in k vs k' v : forall m, In (k, vs) m -> exists vs', In (k, vs') (group_add k' v m) /\ incl vs vs'.
Proof.
  induction m as [|[k0 vs0] r IH]; intros H; [destruct H|].
  cbn [group_add]. destruct (String.eqb k' k0) eqn:E.
  - destruct H as [H|H].
    + inversion H; subst. exists (vs ++ [v])%list. split; [left; reflexivity|apply incl_appl, incl_refl].
    + exists vs. split; [right; exact H|apply incl_refl].
  - destruct H as [H|H].
    + exists vs. split; [left; exact H|apply incl_refl].
    + destruct (IH H) as [vs' [H1 H2]]. exists vs'. split; [right; exact H1|exact H2].
Qed.

Lemma group_add_has k v : forall m, exists vs, In (k, vs) (group_add k v m) /\ In v vs.
Proof.
  induction m as [|[k0 vs0] r IH].
  - exists [v]. split; left; reflexivity.
  - cbn [group_add]. destruct (String.eqb k k0) eqn:E.
    + apply String.eqb_eq in E. subst k0. exists (vs0 ++ [v])%list. split; [left; reflexivity|apply in_or_app; right; left; reflexivity].
    + destruct IH as [vs [H1 H2]]. exists vs. split; [right; exact H1|exact H2].
Qed.

Definition key_step (cns : string) (m : list (string * list string)) (f : string) : list (string * list string) :=
  group_add (fst (ns_key cns f)) (snd (ns_key cns f)) m.

Lemma ns_to_classes_fold cns names : ns_to_classes true cns names = fold_left (key_step cns) names [].
Proof. reflexivity. Qed.

Lemma fold_keeps cns k v : forall names m vs, In (k, vs) m -> In v vs ->
  exists vs', In (k, vs') (fold_left (key_step cns) names m) /\ In v vs'.
Proof.
  induction names as [|f r IH]; intros m vs H Hv; [exists vs; split; assumption|].
  cbn [fold_left]. unfold key_step at 2.
  destruct (group_add_in k vs (fst (ns_key cns f)) (snd (ns_key cns f)) m H) as [vs' [H1 H2]].
  apply (IH _ vs' H1). apply H2. exact Hv.
Qed.

Lemma fold_has cns f : forall names m, In f names ->
  exists vs, In (fst (ns_key cns f), vs) (fold_left (key_step cns) names m) /\ In (snd (ns_key cns f)) vs.
Proof.
  induction names as [|g r IH]; intros m H; [destruct H|].
  cbn [fold_left]. destruct H as [->|H]; [|apply IH; exact H].
  destruct (group_add_has (fst (ns_key cns f)) (snd (ns_key cns f)) m) as [vs [H1 H2]].
  apply (fold_keeps cns _ _ r _ vs H1 H2).
Qed.

Lemma filter_keeps d k key vs m : In k (i_classes d) -> In (key, vs) m -> In (ic_name k) vs ->
  exists vs', In (key, vs') (filter_in_model d m) /\ In (ic_name k) vs'.
Proof.
  intros Hk Hm Hv.
  remember (flat_map (fun n => map (fun _ : icls => n) (filter (fun pc => String.eqb (ic_name pc) n) (i_classes d))) vs) as keep eqn:Ekeep.
  assert (Hin : In (ic_name k) keep).
  { rewrite Ekeep. apply in_flat_map. exists (ic_name k). split; [exact Hv|].
    apply in_map_iff. exists k. split; [reflexivity|]. apply filter_In. split; [exact Hk|apply String.eqb_refl]. }
  exists keep. split; [|exact Hin].
  unfold filter_in_model. apply in_flat_map. exists (key, vs). split; [exact Hm|].
  cbn [fst snd]. rewrite <- Ekeep. destruct keep as [|a b]; [destruct Hin|]. left. reflexivity.
Qed.

Lemma lines_has (nsf : bool) key n vs m : In (key, vs) m -> In n vs ->
  In ("#include " ++ String DQ ((if nsf then key else "") ++ n ++ ".h" ++ String DQ "")) (include_lines nsf m).
Proof.
  intros Hm Hv. unfold include_lines. apply in_flat_map. exists (key, vs). split; [exact Hm|].
  cbn [fst snd]. apply in_map_iff. exists n. split; [reflexivity|exact Hv].
Qed.

Lemma spec_include_line (nsf : bool) c k :
  spec_include nsf c k = "#include " ++ String DQ ((if nsf then exp_folder c k else "") ++ ic_name k ++ ".h" ++ String DQ "").
Proof. unfold spec_include, exp_folder. destruct nsf; [|reflexivity]. cbn [andb]. destruct (String.eqb (rel_namespace c k) ""); reflexivity. Qed.

(* the lines computed from a list of qualified names contain the expected include of every class of the diagram among them *)
Lemma lines_cover nsf d c k names : incl_name_ok c = true -> incl_name_ok k = true -> In k (i_classes d) ->
  In (qname k) names ->
  In (spec_include nsf c k) (include_lines nsf (filter_in_model d (ns_to_classes true (ic_ns c) names))).
Proof.
  intros Hc Hk Hin Hn. rewrite ns_to_classes_fold.
  destruct (fold_has (ic_ns c) (qname k) names [] Hn) as [vs [H1 H2]].
  rewrite (ns_key_spec c k Hc Hk) in H1, H2. cbn [fst snd] in H1, H2.
  destruct (filter_keeps d k _ _ _ Hin H1 H2) as [vs' [H3 H4]].
  rewrite spec_include_line. apply (lines_has nsf _ _ vs'); assumption.
Qed.

(* ---------------------------------------------------------------- the targets *)

Theorem includes_cover : forall fuel nsf d c k l,
  incl_names_ok d = true -> In c (i_classes d) -> In k (i_classes d) ->
  In (qname k) (nfd_raw d c) ->
  header_includes fuel nsf d c = Some l ->
  In (spec_include nsf c k) l.
Proof.
  intros fuel nsf d c k l Hok Hc Hk Hn Hh. unfold incl_names_ok in Hok. rewrite forallb_forall in Hok.
  unfold header_includes in Hh. destruct (requires_vector fuel d c) as [v|]; [|discriminate].
  inversion Hh; subst l. apply in_or_app. left.
  apply lines_cover; [apply Hok; exact Hc|apply Hok; exact Hk|exact Hk|].
  unfold nfd. apply sorted_set_keeps. exact Hn.
Qed.
Print Assumptions includes_cover.

Lemma resolves_str (nsf : bool) cns kns name : ns_ok cns = true -> ns_ok kns = true ->
  let path := (if nsf && negb (String.eqb (rel_str cns kns) "") then replace_all "::" "/" (rel_str cns kns) ++ "/" else "") ++ name ++ ".h" in
  spec_folder nsf cns ++ path = spec_folder nsf kns ++ name ++ ".h"
  \/ path = spec_folder nsf kns ++ name ++ ".h".
Proof.
  intros Hcn Hkn.
  destruct nsf; [|right; reflexivity]. cbn [andb]. unfold spec_folder. cbn [andb].
  destruct (String.eqb kns cns) eqn:Ekc.
  - left. apply String.eqb_eq in Ekc. subst kns. unfold rel_str. rewrite String.eqb_refl. reflexivity.
  - assert (Hwhole : (if negb (String.eqb kns "") then replace_all "::" "/" kns ++ "/" else "") ++ name ++ ".h" =
                     (if negb (String.eqb (folder_chain kns) "") then folder_chain kns ++ "/" else "") ++ name ++ ".h").
    { destruct (String.eqb kns "") eqn:Ek.
      - apply String.eqb_eq in Ek. rewrite Ek. reflexivity.
      - apply String.eqb_neq in Ek. pose proof (chain_nonempty kns Hkn Ek) as Hne. apply String.eqb_neq in Hne.
        rewrite Hne, replace_is_chain. reflexivity. }
    destruct (String.eqb cns "") eqn:Ec.
    + right. unfold rel_str. rewrite Ekc, Ec. cbn [negb andb]. exact Hwhole.
    + destruct (prefixb (cns ++ "::") kns) eqn:Ep; [|right; unfold rel_str; rewrite Ekc, Ec, Ep; cbn [negb andb]; exact Hwhole].
      left. apply String.eqb_neq in Ec. destruct (ic_prefixb_split _ _ Ep) as [r Hr].
      destruct (nested_parts cns kns r Hcn Hkn Ec Hr) as (Hkne & Hrne & Hrok & Hsplit).
      assert (Hkk : folder_chain kns = folder_chain cns ++ "/" ++ folder_chain r).
      { unfold folder_chain. rewrite Hsplit. apply join_app; apply split2_nonempty. }
      assert (Hkc : String.eqb (folder_chain kns) "" = false).
      { apply String.eqb_neq. apply chain_nonempty; [exact Hkn|]. apply String.eqb_neq. exact Hkne. }
      pose proof (chain_nonempty cns Hcn Ec) as Hcc. apply String.eqb_neq in Hcc.
      rewrite Hkc, Hcc, Hkk. cbn [negb]. subst kns.
      rewrite rel_str_nested by (try exact Ec; apply String.eqb_neq; exact Hrne). rewrite Hrne. cbn [negb].
      rewrite replace_is_chain, !ic_app_assoc. reflexivity.
Qed.

Lemma include_resolves : forall nsf c k, incl_name_ok c = true -> incl_name_ok k = true ->
  let path := (if nsf && negb (String.eqb (rel_namespace c k) "") then replace_all "::" "/" (rel_namespace c k) ++ "/" else "") ++ ic_name k ++ ".h" in
  spec_folder nsf (ic_ns c) ++ path = spec_folder nsf (ic_ns k) ++ ic_name k ++ ".h"
  \/ path = spec_folder nsf (ic_ns k) ++ ic_name k ++ ".h".
Proof.
  intros nsf c k Hc Hk. destruct (incl_name_ok_parts c Hc) as [_ Hcn]. destruct (incl_name_ok_parts k Hk) as [_ Hkn].
  exact (resolves_str nsf (ic_ns c) (ic_ns k) (ic_name k) Hcn Hkn).
Qed.
Print Assumptions include_resolves.

Theorem source_cover : forall nsf d c k,
  incl_names_ok d = true -> In c (i_classes d) -> In k (i_classes d) ->
  In (qname k) (fd d c) ->
  In (spec_include nsf c k) (source_includes nsf d c).
Proof.
  intros nsf d c k Hok Hc Hk Hn. unfold incl_names_ok in Hok. rewrite forallb_forall in Hok.
  unfold source_includes. apply lines_cover; [apply Hok; exact Hc|apply Hok; exact Hk|exact Hk|exact Hn].
Qed.
Print Assumptions source_cover.

Corollary source_cover_raw : forall nsf d c k,
  incl_names_ok d = true -> In c (i_classes d) -> In k (i_classes d) ->
  In (qname k) (fd_raw d c) ->
  In (spec_include nsf c k) (source_includes nsf d c).
Proof.
  intros nsf d c k Hok Hc Hk Hn. apply source_cover; try assumption. unfold fd. apply sorted_set_keeps. exact Hn.
Qed.
Print Assumptions source_cover_raw.
