(* C19: the semantic read-back theorem and the generator theorems stated from a semantic class diagram through its project file. *)
From Coq Require Import String Ascii List Bool Arith.
From KV Require Import Lib.Str Lib.ODict Model.Vpp Gen.UmlSrc Model.Uml Spec.UmlSpec Model.UmlBlob Model.UmlWriter Model.UmlSem
                       Proofs.UmlProofs Proofs.UmlFiles Proofs.UmlBlobTop Proofs.UmlBlobRound Proofs.UmlBlobVis Proofs.UmlBlobCompose
                       Proofs.UmlSemGoals Proofs.UmlSemWf Proofs.UmlSemOp Proofs.UmlSemAttr Proofs.UmlSemClass Proofs.UmlSemAssoc Proofs.UmlSemLoad.
Import ListNotations.
Open Scope string_scope.

Lemma load_roundtrip : forall S : sdiagram, sdiagram_ok S = true ->
  load_cdiagram (encode_project S) (sd_name S) = Some (rdiagram_of S).
Proof.
  intros S H. unfold encode_project.
  change (sd_name S) with (wd_name (tree_of S)).
  rewrite (load_struct (tree_of S) (tree_of_wf_drawn S H)).
  exact (load_semantic (build_class build_op build_attr) build_package build_inh build_assoc S H).
Qed.

Lemma adaptor_roundtrip : forall S : sdiagram, sdiagram_ok S = true ->
  adaptor (encode_project S) (sd_name S) = Some (cdiagram_of S).
Proof. intros S H. unfold adaptor. rewrite (load_roundtrip S H). reflexivity. Qed.

(* any project that contains the diagram's rows *)
Lemma adaptor_roundtrip_hosted : forall (S : sdiagram) (d : db), sdiagram_ok S = true -> chosts d (tree_of S) = true ->
  adaptor d (sd_name S) = Some (cdiagram_of S).
Proof. intros S d H Hh. exact (adaptor_hosted d (tree_of S) _ Hh (adaptor_roundtrip S H)). Qed.

Lemma files_from_diagram : forall (S : sdiagram) (d : db) (nsf : bool),
  sdiagram_ok S = true -> chosts d (tree_of S) = true -> files_hyp nsf (cdiagram_of S) = true ->
  adaptor d (sd_name S) = Some (cdiagram_of S) /\ files_of template_files nsf (cdiagram_of S) = expected_files nsf (cdiagram_of S).
Proof. intros S d nsf H Hh Hf. exact (files_from_project d (tree_of S) _ nsf Hh (adaptor_roundtrip S H) Hf). Qed.

Lemma decl_def_from_diagram : forall (S : sdiagram) (d : db) (k : cls) (P : entry -> bool),
  sdiagram_ok S = true -> chosts d (tree_of S) = true ->
  acyclic (cdiagram_of S) = true -> closed (cdiagram_of S) = true -> In k (classes (cdiagram_of S)) ->
  adaptor d (sd_name S) = Some (cdiagram_of S)
  /\ exists dl df, decls_of (List.length (classes (cdiagram_of S))) (cdiagram_of S) k = Some dl
                   /\ defs_of (List.length (classes (cdiagram_of S))) (cdiagram_of S) k = Some df /\ count P dl = count P df.
Proof. intros S d k P H Hh Ha Hc Hk. exact (decl_def_from_project d (tree_of S) _ k P Hh (adaptor_roundtrip S H) Ha Hc Hk). Qed.

Lemma realised_from_diagram : forall (D : sdiagram) (d : db) fuel vis dcl (k : cls) (i : inh) (p : cls) (o : oper) l,
  sdiagram_ok D = true -> chosts d (tree_of D) = true ->
  In i (inhs (cdiagram_of D)) -> contains (c_id k) (i_to i) = true -> i_real i = true ->
  find_class (classes (cdiagram_of D)) (i_from i) = Some p -> c_pure p = true ->
  In o (c_ops p) -> vis_match vis o = true -> c_name k <> "" ->
  existsb (key_eqb (sig_key o)) (declared_of k) = false ->
  ops_of (S (S fuel)) (cdiagram_of D) vis "" dcl k = Some l ->
  adaptor d (sd_name D) = Some (cdiagram_of D)
  /\ In {| en_class := c_name k; en_owner := c_name p; en_owner_pure := true; en_realised := true; en_op := o |} l.
Proof.
  intros D d fuel vis dcl k i p o l H Hh. intros.
  eapply (realised_from_project d (tree_of D) (cdiagram_of D)); eauto. exact (adaptor_roundtrip D H).
Qed.
