(* C13 x C12: which messages of the C12 interface domain can be transmitted at all.  sizeof(<Msg>) in the generated program
   is 8 + the (recursive) sum of the member sizes (C12); SendData's uint16 length transmits the whole message iff that is
   < 2^16; the C12 domain (wf_iface allows payloads up to 2^32) contains interfaces beyond the bound: struct nesting
   multiplies sizes. *)
From Coq Require Import String Ascii List Bool Arith NArith ZArith Lia.
From KV Require Import Lib.Str Lib.ByteSeq Gen.CxxConn Model.Conn Model.Proto Proofs.ByteSeqProofs Proofs.ProtoProofs
                       Model.CValue Model.Layout Model.ProtoLang Spec.LayoutSpec Proofs.LayoutBasics Proofs.LayoutPacked.
Import ListNotations.
Open Scope N_scope.
Open Scope list_scope.

Definition msg_sizeof (m : msg) : N := hdr_size + ms_size (m_members m).
(* the bound of C13_round_trip, evaluated on an interface *)
Definition transmittable (m : msg) : bool := msg_sizeof m <? 2 ^ send_len_bits.

Theorem msg_sizeof_is_sizeof i m : wf_iface i = true -> In m (i_msgs i) ->
  option_map si_size (layout_of (emit i) (m_name m)) = Some (msg_sizeof m).
Proof.
  intros W Hm. destruct (packed_layouts i W) as (_ & _ & H). rewrite (H m Hm). cbn [option_map]. f_equal.
  unfold msg_spec, packed_info, msg_sizeof. cbn [si_size map snd fold_right]. now rewrite triples_size.
Qed.

Lemma sent_len (b : list byte) : len (sent_bytes b) = len b mod 65536.
Proof.
  unfold sent_bytes, wrap. change (2 ^ send_len_bits) with 65536.
  unfold take, len. rewrite firstn_length.
  assert (N.of_nat (length b) mod 65536 <= N.of_nat (length b)) by (apply N.mod_le; lia). lia.
Qed.

Theorem sent_whole_iff (b : list byte) : sent_bytes b = b <-> len b < 65536.
Proof.
  split.
  - intros H. pose proof (sent_len b) as Hl. rewrite H in Hl.
    assert (len b mod 65536 < 65536) by (apply N.mod_lt; lia). lia.
  - apply sent_bytes_small.
Qed.

(* an interface of the C12 domain whose message has 65544 bytes: 32 x (32 x (8 x uint64)) *)
Definition big_s1 : list member := map (fun k => MPrim (String (ascii_of_nat (97 + k)) "") U64 None) (seq 0 8).
Definition big_s2 : list member := map (fun k => MStruct (String (ascii_of_nat (65 + k)) "") "sOne" big_s1) (seq 0 32).
Definition big_msg_members : list member := map (fun k => MStruct (String (ascii_of_nat (65 + k)) "") "sTwo" big_s2) (seq 0 32).
Definition big_iface : iface :=
  {| i_preamble := 21930%Z;
     i_structs := [{| s_name := "sOne"; s_members := big_s1 |}; {| s_name := "sTwo"; s_members := big_s2 |}];
     i_msgs := [{| m_name := "MsgBig"; m_id := 1%Z; m_members := big_msg_members |}] |}.

Theorem domain_exceeds_bound :
  wf_iface big_iface = true /\ forall m, In m (i_msgs big_iface) -> msg_sizeof m = 65544 /\ transmittable m = false.
Proof.
  split; [vm_compute; reflexivity |]. intros m [<- | []]. split; vm_compute; reflexivity.
Qed.
