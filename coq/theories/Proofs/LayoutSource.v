(* C12 -- the constants the model hard-codes agree with what the source says NOW (Gen/LayoutSrc.v is regenerated
   from kojentypes.py and allplatforms/CPP/basetypes.h on every run): the protocol header's name, member name in a
   message, field names / types / order, and the C types basetypes.h (GCC, LP64 branch) gives the integer names,
   whose x86-64 SysV sizes and signedness must be the ones of Model/CValue.prim_size / int_range. *)
From Coq Require Import String Ascii List Bool NArith ZArith.
From KV Require Import Lib.Str Model.CValue Model.Layout Model.ProtoLang Gen.LayoutSrc.
Import ListNotations.
Open Scope string_scope.

(* x86-64 SysV (LP64): size and signedness of the C types that occur in basetypes.h *)
Definition ctype_info (c : string) : option (N * bool) :=
  if String.eqb c "signed char" then Some (1%N, true) else if String.eqb c "unsigned char" then Some (1%N, false)
  else if String.eqb c "signed short" then Some (2%N, true) else if String.eqb c "unsigned short" then Some (2%N, false)
  else if String.eqb c "signed int" then Some (4%N, true) else if String.eqb c "unsigned int" then Some (4%N, false)
  else if String.eqb c "signed long" then Some (8%N, true) else if String.eqb c "unsigned long" then Some (8%N, false)
  else None.

Definition typedef_ok (p : prim) : bool :=
  match int_range p with
  | None => true                               (* float, double, bool are built in *)
  | Some (lo, _) =>
      match lookup (prim_name p) src_typedefs with
      | Some c => match ctype_info c with
                  | Some (sz, sg) => N.eqb sz (prim_size p) && Bool.eqb sg (lo <? 0)%Z
                  | None => false
                  end
      | None => false
      end
  end.

Lemma source_constants :
  src_hdr_name = hdr_name /\ src_hdr_member = hdr_member
  /\ src_hdr_fields = map (fun f => (fst f, prim_name (snd f))) hdr_fields
  /\ forallb typedef_ok all_prims = true.
Proof. vm_compute. repeat split; reflexivity. Qed.
