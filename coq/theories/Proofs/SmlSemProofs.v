(* C09_sem: the executable reading of the emitted boost::sml table (Model/SmlTT.v: sml_run, under the semantics of
   boost::sml stated there) makes exactly the callbacks of the table interpreter. *)
From Coq Require Import String Ascii List Bool Arith Lia.
From KV Require Import Lib.TableDef Model.TTable Gen.SmlTmpl Model.SmlTT Spec.TableInterp
                       Proofs.TTableProofs Proofs.TTableSigProofs Proofs.SmlProofs.
Import ListNotations.
Open Scope string_scope.

(* ---- hook rows of the generated table are wired to the state's own functor instances *)
Definition hook_named (i : smlitem) : Prop :=
  match i with
  | IEntry s a => a = (camel_small s ++ sml_entry_suffix)%string
  | IExit s a => a = (camel_small s ++ sml_exit_suffix)%string
  | IRow _ => True
  end.

Lemma hooks_named : forall s i, In i (hooks s) -> hook_named i.
Proof. intros s i [H|[H|[]]]; subst; reflexivity. Qed.

Lemma gen_rows_named : forall ee t first seen i, In i (gen_rows ee first seen t) -> hook_named i.
Proof.
  intros ee t. induction t as [|r rest IH]; intros first seen i H; [destruct H|].
  cbn [gen_rows] in H. destruct H as [H|H]; [subst; exact I|]. apply in_app_or in H as [H|H].
  - destruct (ee && negb (mem (r_src r) seen)); [eapply hooks_named; exact H|destruct H].
  - eapply IH. exact H.
Qed.

Lemma gen_sml_named : forall ee t i, In i (gen_sml ee t) -> hook_named i.
Proof.
  intros ee t i H. unfold gen_sml in H. apply in_app_or in H as [H|H]; [eapply gen_rows_named; exact H|].
  destruct (ee && sml_hooks_for_all_states); [|destruct H].
  apply in_flat_map in H as (s & _ & H). eapply hooks_named. exact H.
Qed.

Lemma hook_cbs_repeat : forall ex s e items, (forall i, In i items -> hook_named i) ->
  hook_cbs ex s e items = repeat (if ex then CExit s e else CEntry s e) (count (is_hook_of ex s) items).
Proof.
  intros ex s e items. induction items as [|i items IH]; intro H; [reflexivity|].
  assert (hook_named i) as Hi by (apply H; left; reflexivity).
  assert (forall j, In j items -> hook_named j) as H' by (intros; apply H; right; assumption).
  unfold hook_cbs in *. cbn [flat_map]. unfold count in *. cbn [filter]. rewrite IH by assumption. clear IH.
  destruct i as [r|s' a|s' a]; destruct ex; cbn [is_hook_of hook_named] in *; try reflexivity.
  - destruct (String.eqb s' s) eqn:E; [|reflexivity]. apply String.eqb_eq in E. subst s' a.
    rewrite String.eqb_refl. reflexivity.
  - destruct (String.eqb s' s) eqn:E; [|reflexivity]. apply String.eqb_eq in E. subst s' a.
    rewrite String.eqb_refl. reflexivity.
Qed.

Lemma hook_cbs_once : forall t ex s e, forallb row_ok t = true -> In s (states t) ->
  hook_cbs ex s e (gen_sml true t) = [if ex then CExit s e else CEntry s e].
Proof.
  intros t ex s e Hwf Hs. rewrite hook_cbs_repeat by (apply gen_sml_named).
  rewrite (sml_entry_exit t Hwf s ex Hs). reflexivity.
Qed.

(* ---- stepping does not look at the initial marker *)
Definition strip (r : smlrow) : smlrow := mkSml false (q_src r) (q_ev r) (q_guard r) (q_act r) (q_target r).

Lemma sml_step_strip : forall items gv e cur rows n,
  sml_step items gv n cur e rows = sml_step items gv n cur e (map strip rows).
Proof.
  induction rows as [|r rows IH]; intro n; [reflexivity|]. cbn [map sml_step strip q_src q_ev q_guard q_act q_target].
  unfold sml_act_cbs. cbn [q_act strip]. rewrite !IH. reflexivity.
Qed.

Lemma strip_spec_rows : forall t, map strip (spec_rows t) = map (spec_row false) t.
Proof.
  intros [|r t]; [reflexivity|]. cbn [spec_rows map]. f_equal. rewrite map_map. apply map_ext. reflexivity.
Qed.

(* ---- one event *)
Lemma camel_not_none : forall a, is_none a = false -> String.eqb (camel_small a) sml_none = false.
Proof.
  intros a H. rewrite <- is_none_camel in H. unfold is_none in H. apply orb_false_iff in H as [_ H].
  destruct (String.eqb (camel_small a) sml_none) eqn:E; [|reflexivity].
  apply String.eqb_eq in E. rewrite E in H. discriminate.
Qed.

Section Step.
  Variables (t : table) (gv : gval) (e : string).
  Hypothesis Hwf : forallb row_ok t = true.
  Hypothesis Hnames : sml_names_ok t = true.
  Let items := gen_sml true t.
  Let gvc : gval := fun n g => gv n (camel_small g).

  Lemma fire_sml : forall r cur, In r t -> r_src r = cur ->
    (match q_target (spec_row false r) with
     | Some tgt => ((hook_cbs true cur e items ++ sml_act_cbs (spec_row false r) e ++ hook_cbs false tgt e items)%list, tgt)
     | None => (sml_act_cbs (spec_row false r) e, cur)
     end) = (map camel_cb (fst (fire r cur e)), snd (fire r cur e)).
  Proof.
    intros r cur Hr Hs. destruct (sml_refs_declared t Hwf r Hr) as (Isrc & _ & Inext & _ & _).
    unfold fire, act_cbs, sml_act_cbs. cbn [spec_row q_target q_act].
    assert (forall a, opt (r_act r) = Some a -> String.eqb (camel_small a) sml_none = false) as Ha.
    { intros a E. apply opt_some in E as [-> E]. apply camel_not_none. assumption. }
    destruct (opt (r_next r)) as [nx|] eqn:En.
    - unfold items. rewrite !hook_cbs_once by (auto; subst; auto). subst cur.
      destruct (opt (r_act r)) as [a|] eqn:Ea.
      + rewrite (Ha a eq_refl). reflexivity.
      + rewrite String.eqb_refl. reflexivity.
    - destruct (opt (r_act r)) as [a|] eqn:Ea.
      + rewrite (Ha a eq_refl). reflexivity.
      + rewrite String.eqb_refl. reflexivity.
  Qed.

  Lemma guard_not_gnone : forall r g, In r t -> opt (r_guard r) = Some g -> String.eqb (camel_small g) sml_gnone = false.
  Proof.
    intros r g Hr Hg. destruct (sml_refs_declared t Hwf r Hr) as (_ & _ & _ & Iguard & _).
    specialize (Iguard g Hg). unfold sml_names_ok in Hnames. rewrite forallb_forall in Hnames.
    apply negb_true_iff. apply Hnames. assumption.
  Qed.

  Lemma sml_step_rows : forall rows cur n, (forall r, In r rows -> In r t) ->
    sml_step items gv n cur e (map (spec_row false) rows) =
    let '(tr, s, n') := step_rows_quiet gvc n cur e (rows_for rows cur e) in (map camel_cb tr, s, n').
  Proof.
    induction rows as [|r rows IH]; intros cur n Hin; [reflexivity|].
    assert (In r t) as Hr by (apply Hin; left; reflexivity).
    assert (forall r0, In r0 rows -> In r0 t) as Hin' by (intros; apply Hin; right; assumption).
    cbn [map sml_step]. unfold rows_for. cbn [filter]. fold (rows_for rows cur e).
    change (q_src (spec_row false r)) with (r_src r). change (q_ev (spec_row false r)) with (r_ev r).
    destruct (String.eqb (r_src r) cur && String.eqb (r_ev r) e) eqn:M; [|apply IH; assumption].
    apply andb_true_iff in M as [Ms _]. apply String.eqb_eq in Ms.
    rewrite (fire_sml r cur Hr Ms). cbn [fst snd step_rows_quiet].
    change (q_guard (spec_row false r)) with (match opt (r_guard r) with Some g => camel_small g | None => sml_gnone end).
    destruct (opt (r_guard r)) as [g|] eqn:Eg.
    - rewrite (guard_not_gnone r g Hr Eg). unfold gvc at 1. destruct (gv n (camel_small g)); [reflexivity|].
      rewrite IH by assumption. destruct (step_rows_quiet gvc (S n) cur e (rows_for rows cur e)) as [[tr s] n']. reflexivity.
    - rewrite String.eqb_refl. destruct (fire r cur e). reflexivity.
  Qed.

  Lemma step_state_in : forall rows cur n, (forall r, In r rows -> In r t) -> In cur (states t) ->
    In (snd (fst (step_rows_quiet gvc n cur e rows))) (states t).
  Proof.
    induction rows as [|r rows IH]; intros cur n Hin Hc; [exact Hc|].
    assert (In r t) as Hr by (apply Hin; left; reflexivity).
    assert (In (snd (fire r cur e)) (states t)) as Hf.
    { unfold fire. destruct (opt (r_next r)) as [nx|] eqn:En; cbn [snd]; [|exact Hc].
      destruct (sml_refs_declared t Hwf r Hr) as (_ & _ & Inext & _). apply Inext. exact En. }
    cbn [step_rows_quiet]. destruct (opt (r_guard r)).
    - destruct (gvc n s); [exact Hf|].
      specialize (IH cur (S n) (fun r0 H => Hin r0 (or_intror H)) Hc).
      destruct (step_rows_quiet gvc (S n) cur e rows) as [[tr c] n']. exact IH.
    - exact Hf.
  Qed.
End Step.

Lemma sml_run_from_interp : forall t gv evs cur n, forallb row_ok t = true -> sml_names_ok t = true -> In cur (states t) ->
  sml_run_from (gen_sml true t) gv n cur evs =
  camel_steps (interp_from_quiet t (fun n g => gv n (camel_small g)) n cur evs).
Proof.
  induction evs as [|e evs IH]; intros cur n Hwf Hn Hc; [reflexivity|].
  cbn [sml_run_from interp_from_quiet]. rewrite (sml_rows true t Hwf), sml_step_strip, strip_spec_rows.
  rewrite (sml_step_rows t gv e Hwf Hn t cur n (fun r H => H)).
  pose proof (step_state_in t gv e Hwf (rows_for t cur e) cur n) as Hs.
  destruct (step_rows_quiet (fun n0 g => gv n0 (camel_small g)) n cur e (rows_for t cur e)) as [[tr s] n'].
  cbn [fst snd] in Hs. unfold camel_steps. cbn [map fst snd]. f_equal.
  apply IH; auto. apply Hs; [|assumption]. intros r H. unfold rows_for in H. apply filter_In in H as [H _]. exact H.
Qed.

Theorem sml_sem : forall t, t <> [] -> forallb row_ok t = true -> sml_names_ok t = true -> forall evs gv,
  sml_run (gen_sml true t) evs gv = camel_steps (table_interp_quiet t evs (fun n g => gv n (camel_small g))).
Proof.
  intros t Hne Hwf Hn evs gv. destruct t as [|r t]; [congruence|].
  assert (In (r_src r) (states (r :: t))) as Hs.
  { apply src_in_states; [left; reflexivity|]. cbn [forallb] in Hwf. apply andb_true_iff in Hwf as [Hr _].
    apply (row_ok_fields r Hr). }
  assert (sml_initial (gen_sml true (r :: t)) = r_src r) as Hi.
  { unfold sml_initial. rewrite (sml_rows true (r :: t) Hwf). cbn [spec_rows filter spec_row q_init].
    reflexivity. }
  unfold sml_run, table_interp_quiet. rewrite Hi. cbn [first_state]. unfold camel_steps at 1. cbn [map fst snd camel_cb].
  rewrite (hook_cbs_once (r :: t) false (r_src r) startup_event Hwf Hs). f_equal.
  apply sml_run_from_interp; assumption.
Qed.
