(* C12 -- basic facts: bytes, literals, association lists, the induction principle of interface members. *)
From Coq Require Import String Ascii List Bool NArith ZArith Lia.
From KV Require Import Model.CValue Model.Layout Model.ProtoLang Spec.LayoutSpec.
Import ListNotations.

(* ---------------------------------------------------------------- bytes *)
Lemma length_le_bytes : forall n v, length (le_bytes n v) = n.
Proof. induction n; intros; cbn [le_bytes length]; [reflexivity | now rewrite IHn]. Qed.

Lemma length_zeros : forall n, length (zeros n) = N.to_nat n.
Proof. intros. unfold zeros. apply repeat_length. Qed.

Lemma zeros_0 : zeros 0 = [].
Proof. reflexivity. Qed.

Lemma prim_of_name_name : forall p, prim_of_name (prim_name p) = Some p.
Proof. destruct p; reflexivity. Qed.

Lemma prim_size_pos : forall p, (0 < prim_size p)%N.
Proof. destruct p; reflexivity. Qed.

Lemma conv_length : forall p l b, conv p l = Some b -> length b = prim_nbytes p.
Proof.
  intros p l b H. unfold conv in H.
  destruct (int_range p) as [[lo hi]|] eqn:R.
  - destruct l; try discriminate.
    + destruct ((lo <=? z)%Z && (z <=? hi)%Z); [|discriminate]. injection H as <-. apply length_le_bytes.
    + injection H as <-. apply length_le_bytes.
  - destruct p; try discriminate; destruct l; try discriminate.
    + destruct (Z.abs z <=? 16777216)%Z; [|discriminate]. injection H as <-. reflexivity.
    + injection H as <-. reflexivity.
    + destruct (Z.abs z <=? 9007199254740992)%Z; [|discriminate]. injection H as <-. reflexivity.
    + injection H as <-. reflexivity.
    + destruct z as [|[q|q|]|]; try discriminate; inversion H; reflexivity.
    + inversion H. reflexivity.
Qed.

Lemma lit_bytes_length : forall p d, length (lit_bytes p d) = prim_nbytes p.
Proof.
  intros. unfold lit_bytes. destruct (conv p (parse_lit d)) eqn:C.
  - eapply conv_length; eauto.
  - rewrite length_zeros. unfold prim_size. apply Nnat.Nat2N.id.
Qed.

Lemma lit_ok_bytes : forall p d, lit_ok p d = true -> conv p (parse_lit d) = Some (lit_bytes p d).
Proof. intros p d. unfold lit_ok, lit_bytes. destruct (conv p (parse_lit d)); [reflexivity | discriminate]. Qed.

(* ---------------------------------------------------------------- association lists *)
Lemma lookup_app : forall A k (l1 l2 : list (string * A)),
  lookup k (l1 ++ l2) = match lookup k l1 with Some v => Some v | None => lookup k l2 end.
Proof.
  induction l1 as [|[k' v] r IH]; intros; cbn [lookup app]; [reflexivity|].
  destruct (String.eqb k k'); [reflexivity | apply IH].
Qed.

Lemma lookup_none_notin : forall A k (l : list (string * A)), lookup k l = None <-> ~ In k (map fst l).
Proof.
  induction l as [|[k' v] r IH]; cbn [lookup map fst In]; [tauto|].
  destruct (String.eqb k k') eqn:E.
  - apply String.eqb_eq in E. subst. split; [discriminate | intros H; exfalso; apply H; now left].
  - apply String.eqb_neq in E. rewrite IH. split; intros H; [intros [H1|H1]; [congruence | tauto] | tauto].
Qed.

Lemma lookup_map_entry : forall A B (key : A -> string) (val : A -> B) (l : list A) (x : A),
  NoDup (map key l) -> In x l -> lookup (key x) (map (fun a => (key a, val a)) l) = Some (val x).
Proof.
  induction l as [|a r IH]; intros x ND HI; [destruct HI|].
  cbn [map lookup]. inversion ND; subst.
  destruct HI as [->|HI]; [now rewrite String.eqb_refl|].
  destruct (String.eqb (key x) (key a)) eqn:E.
  - apply String.eqb_eq in E. exfalso. apply H1. rewrite <- E. now apply in_map.
  - now apply IH.
Qed.

Lemma existsb_eqb_In : forall x l, existsb (String.eqb x) l = true <-> In x l.
Proof.
  intros. rewrite existsb_exists. split.
  - intros [y [HI E]]. apply String.eqb_eq in E. now subst.
  - intros HI. exists x. split; [assumption | apply String.eqb_refl].
Qed.

Lemma nodupb_NoDup : forall l, nodupb l = true -> NoDup l.
Proof.
  induction l as [|x r IH]; intros H; [constructor|].
  cbn [nodupb] in H. apply andb_true_iff in H. destruct H as [H1 H2].
  constructor; [|now apply IH].
  intros HI. apply existsb_eqb_In in HI. rewrite HI in H1. discriminate.
Qed.

Lemma NoDup_app_parts : forall A (a b : list A), NoDup (a ++ b) ->
  NoDup a /\ NoDup b /\ (forall x, In x a -> In x b -> False).
Proof.
  induction a as [|x r IH]; intros b H; cbn [app] in H.
  - split; [constructor|]. split; [assumption|]. intros x [].
  - inversion H as [|? ? NI ND]; subst. destruct (IH b ND) as [A1 [A2 A3]].
    split; [|split; [assumption|]].
    + constructor; [|assumption]. intros HI. apply NI. apply in_or_app. now left.
    + intros y [<-|HI] HB; [apply NI; apply in_or_app; now right | eauto].
Qed.

(* ---------------------------------------------------------------- members *)
Fixpoint member_ind' (P : member -> Prop)
    (HP : forall n p d, P (MPrim n p d))
    (HS : forall n sn ms, Forall P ms -> P (MStruct n sn ms)) (m : member) : P m :=
  match m with
  | MPrim n p d => HP n p d
  | MStruct n sn ms =>
      HS n sn ms ((fix go (l : list member) : Forall P l :=
                     match l with
                     | [] => Forall_nil P
                     | x :: r => Forall_cons x (member_ind' P HP HS x) (go r)
                     end) ms)
  end.

Lemma member_eqb_eq : forall a b, member_eqb a b = true -> a = b.
Proof.
  induction a as [n p d | n sn ms IH] using member_ind'; intros b H; destruct b as [n' p' d' | n' sn' ms']; try discriminate.
  - cbn [member_eqb] in H. apply andb_true_iff in H. destruct H as [H H3]. apply andb_true_iff in H. destruct H as [H1 H2].
    apply String.eqb_eq in H1. subst.
    assert (p = p') by (destruct p, p'; try discriminate; reflexivity). subst.
    destruct d, d'; try discriminate; [apply String.eqb_eq in H3; now subst | reflexivity].
  - cbn [member_eqb] in H. apply andb_true_iff in H. destruct H as [H H3]. apply andb_true_iff in H. destruct H as [H1 H2].
    apply String.eqb_eq in H1. apply String.eqb_eq in H2. subst. f_equal.
    revert ms' H3. induction IH as [|x r Hx Hr IHr]; intros ms' H3; destruct ms' as [|y r']; try discriminate; [reflexivity|].
    apply andb_true_iff in H3. destruct H3 as [Hxy Hrr]. f_equal; [now apply Hx | now apply IHr].
Qed.

Lemma members_eqb_eq : forall l l', members_eqb l l' = true -> l = l'.
Proof.
  induction l as [|x r IH]; intros [|y r'] H; try discriminate; [reflexivity|].
  cbn [members_eqb] in H. apply andb_true_iff in H. destruct H as [H1 H2].
  f_equal; [now apply member_eqb_eq | now apply IH].
Qed.

Lemma ms_size_cons : forall m r, ms_size (m :: r) = (m_size m + ms_size r)%N.
Proof. reflexivity. Qed.

Lemma m_size_struct : forall n sn ms, m_size (MStruct n sn ms) = ms_size ms.
Proof. reflexivity. Qed.

Lemma triples_size : forall ms, fold_right N.add 0%N (map snd (map member_triple ms)) = ms_size ms.
Proof.
  induction ms as [|m r IH]; [reflexivity|].
  cbn [map fold_right]. rewrite IH. reflexivity.
Qed.

Lemma default_bytes_length : forall m, N.of_nat (length (default_bytes m)) = m_size m.
Proof.
  induction m as [n p d | n sn ms IH] using member_ind'.
  - cbn [default_bytes m_size]. unfold prim_size.
    destruct d as [d|]; [destruct (String.eqb d "")|]; try (rewrite length_zeros; unfold prim_size; now rewrite Nnat.Nat2N.id).
    now rewrite lit_bytes_length.
  - rewrite m_size_struct. cbn [default_bytes].
    induction IH as [|x r Hx Hr IHr]; [reflexivity|].
    cbn [map concat]. rewrite app_length, Nnat.Nat2N.inj_add, Hx, IHr. reflexivity.
Qed.

(* ---------------------------------------------------------------- rounding *)
Lemma roundup_1 : forall x, roundup x 1 = x.
Proof. intros. unfold roundup. rewrite N.add_sub, N.div_1_r, N.mul_1_r. reflexivity. Qed.
