(* C19 adaptor: the string literals of the functions Model/UmlBlob.v models are still the ones it was written against
   (Gen/UmlBlobSrc.v is regenerated from vppclassdiagram.py / vppfs.py / LanguageCPP.py on every run; a renamed key, a changed code or
   a changed branch literal breaks these equalities, i.e. the build of Props/C19.v). *)
From Coq Require Import String Ascii List Bool.
From KV Require Import Lib.Str Gen.UmlBlobSrc.
Import ListNotations.
Open Scope string_scope.

Definition adaptor_literals_expected : Prop :=
  (literals_class_operation =
  ["name"; "public"; "void"; ""; ""; "child_0"; "visibility"; "visibility"; "package"; "public"; "returnType_0"; "returnType_0"; "typeModifier"; "typeModifier"; "child"; "parameter"; "type"; "child_0"; ""; "type_string"; "type_string"; "type_0"; ""; "inout"; "direction"; "direction"; "const"; "in"; "direction"; "out"; ""; "typeModifier"; "typeModifier"; ""; "defaultValue_string"; "defaultValue_string"; ""; "multiplicity"; "multiplicity"; "const"; "type"; "name"; "name"; "modifier"; "defaultvalue"; "multiplicity"; "direction"; "documentation_plain"; "documentation_plain"; "abstract"; (" IS this member const? Declaring a member function with the const keyword specifies that the function is " ++ bs [10] ++ "            a ""read-only"" function that does not modify the object for which it is called. " ++ bs [10] ++ "            If func does not change anything on it ( it can change on Logger) It can be ""labeled"" as ""query""." ++ bs [10] ++ "        "); "query"; "scope"; "scope"])
  /\ (literals_class_attribute =
  [""; "name"; "private"; ""; ""; "void"; ""; "child_0"; "visibility"; "visibility"; "typeModifier"; "typeModifier"; "type_0"; "type_0"; "documentation_plain"; "documentation_plain"; "hasSetter"; "hasGetter"; "scope"; "scope"; "initialValue_string"; "initialValue_string"; "readOnly"; "multiplicity"; "multiplicity"])
  /\ (literals_stereotypes =
  ["child"; "stereotype"; "interface"; "autogen"; "enumeration"; "struct"; "packed"; "Class : unhandled stereotype : "; "abstract"; "documentation_plain"; "child"; "type"; "type"; "enumerationliteral"; "name"])
  /\ (literals_parse_attributes =
  ["child"; "child"; "attribute"; "type"])
  /\ (literals_parse_operations =
  ["child"; "child"; "operation"; "type"])
  /\ (literals_package =
  ["child"; "child"])
  /\ (literals_inheritance =
  ["child"; "fromModel_0"; "fromModel_0"; ":"; "toModel_0"; "toModel_0"; ":"])
  /\ (literals_association =
  ["documentation_plain"; "documentation_plain"; "child"; "child"; "type"; "associationend"; "child"; "Direction"; "0"; "EndModelElement_0"; "EndModelElement_0"; ":"; "Direction"; "1"; "EndModelElement_0"; "EndModelElement_0"; ":"; "aggregationKind"; "aggregationKind"; "Aggregation"; "aggregationKind"; "Composition"; "multiplicity"; "multiplicity"; "Direction"; "0"; "Direction"; "1"; "Direction"; "0"; "Composition"; "1"; "Direction"; "1"; "Association"; "0"; "visibility"; "visibility"; "Direction"; "0"; "Direction"; "1"; "Direction"; "0"; "Direction"; "1"; "providePropertyGetterMethod"; "Direction"; "0"; "Direction"; "1"; "providePropertySetterMethod"; "Direction"; "0"; "Direction"; "1"; "readOnly"; "Direction"; "0"; "Direction"; "1"])
  /\ (literals_nested_type_names =
  [":"; ""; "::"; ":"])
  /\ (literals_values_from_outside =
  [";"; ":"; ":"; "id"; "name"; "type"; ";"; "="; "="; ","; ""; "<"; ">"; ">"; ""; (bs [10]); ""; (bs [9]); ""; "("; ""; ")"; ""; "<"; ","; ""; "_"; "Oops >> "])
  /\ (literals_parse_blob =
  [""; ""; """"; "\"; "{"; "child_"; "}"])
  /\ (literals_split_outside_quotes =
  [""; ""; """"; "\"; ""])
  /\ (literals_unquote_name =
  [""""; """"])
  /\ (literals_container_type =
  ["*"; "vector"; "0..1"; "none"; "0..*"; "vector"; "1..*"; "vector"; ".."; ".."; "array:"; "vector"; "0"; "none"; "1"; "none"; "array:"; "none"; "none"])
  /\ (literals_type_and_name =
  ["[]"; "std::vector<"; ">"; "vector"; "std::vector<"; ">"; "array"; "["; ":"; "]"])
  /\ (literals_default_format =
  ["[]"; " = {"; "}"; "vector"; " = {"; "}"; "array"; ""; " = "])
  /\ (literals_loadandtest =
  ["Class"; "Package"; "Association"; "Realization"; "Generalization"; "Realization"; "Usage"; "Class Diagram : unhandled model-element type : "; ":"; ""; "::"; ":"])
  /\ (visibility_codes = [("Public", "71"); ("Protected", "67"); ("Private", "66"); ("Package", "68")]
  /\ vis_strings = ["public"; "public"; "protected"; "private"; "package"]
  /\ (scope_classifier, direction_in, direction_out, aggregation_kind__aggregate, aggregation_kind__composite) = ("65", "65", "66", "66", "67")
  /\ clean_modifier_chain = [("*", ""); ("&", ""); ("]", ""); ("[", ""); ("boolean", "bool")]
  /\ loadandtest_dispatch = ["Class"; "Package"; "Association"; "Realization"; "Generalization"; "Realization"; "Usage"]).

Lemma pins_all : adaptor_literals_expected.
Proof. unfold adaptor_literals_expected. repeat split; vm_compute; reflexivity. Qed.
