(* CleanUpLine (kof) on strings without a backslash: it distributes over concatenation, keeps identifier characters,
   and never introduces a character. *)
From Coq Require Import String Ascii List Bool Arith Lia.
From KV Require Import Lib.Str Lib.StrOps Lib.ODict Model.PreserveCore Model.Preserve Gen.Tags
                       Proofs.StrProofs Proofs.CleanProofs Proofs.PreserveStr Proofs.EngineStr Proofs.CharClass.
Import ListNotations.
Open Scope string_scope.

Definition nobs (s : string) : bool := no_char BSL s.

Definition pat_simple (pat : string) : bool :=
  match pat with
  | String _ EmptyString => true
  | String a (String _ EmptyString) => Ascii.eqb a BSL
  | _ => false
  end.

Lemma pats_simple : forallb pat_simple clean_patterns = true.
Proof. vm_compute. reflexivity. Qed.

Lemma no_char_remove_char c d s : no_char c s = true -> no_char c (remove_char d s) = true.
Proof.
  induction s as [|x s IH]; [reflexivity|]. cbn [no_char remove_char]. intros H. apply andb_prop in H as [H1 H2].
  destruct (Ascii.eqb x d); [exact (IH H2)|]. cbn [no_char]. rewrite H1, (IH H2). reflexivity.
Qed.

Lemma remove2_nochar x y s : no_char x s = true -> remove2 x y s = s.
Proof. intros H. pose proof (remove2_through x y s "" H) as R. rewrite app_nil_r_s in R. rewrite R. cbn [remove2]. apply app_nil_r_s. Qed.

Lemma clean_step_app pat a b : pat_simple pat = true -> nobs a = true -> nobs b = true ->
  clean_step (a ++ b) pat = (clean_step a pat ++ clean_step b pat)%string.
Proof.
  intros Hp Ha Hb. destruct pat as [|x [|y [|z r]]]; try discriminate; cbn [clean_step].
  - apply remove_char_app.
  - cbn [pat_simple] in Hp. apply Ascii.eqb_eq in Hp. subst x.
    rewrite !remove2_nochar; try assumption; [reflexivity|]. unfold nobs in *. rewrite no_char_append, Ha, Hb. reflexivity.
Qed.

Lemma clean_step_nobs pat s : pat_simple pat = true -> nobs s = true -> nobs (clean_step s pat) = true.
Proof.
  intros Hp Hs. destruct pat as [|x [|y [|z r]]]; try discriminate; cbn [clean_step].
  - apply no_char_remove_char. exact Hs.
  - cbn [pat_simple] in Hp. apply Ascii.eqb_eq in Hp. subst x. rewrite remove2_nochar; assumption.
Qed.

Lemma clean_with_app : forall pats a b, forallb pat_simple pats = true -> nobs a = true -> nobs b = true ->
  clean_with pats (a ++ b) = (clean_with pats a ++ clean_with pats b)%string.
Proof.
  unfold clean_with. induction pats as [|pat pats IH]; intros a b Hp Ha Hb; [reflexivity|].
  cbn [forallb] in Hp. apply andb_prop in Hp as [H1 H2]. cbn [fold_left].
  rewrite (clean_step_app pat a b H1 Ha Hb). apply IH; [exact H2| |]; apply clean_step_nobs; assumption.
Qed.

Lemma kof_app a b : nobs a = true -> nobs b = true -> kof (a ++ b) = (kof a ++ kof b)%string.
Proof. intros Ha Hb. unfold kof. apply clean_with_app; [exact pats_simple|assumption|assumption]. Qed.

(* cleaning only deletes *)
Lemma clean_step_no_char c pat s : pat_simple pat = true -> nobs s = true -> no_char c s = true -> no_char c (clean_step s pat) = true.
Proof.
  intros Hp Hs Hc. destruct pat as [|x [|y [|z r]]]; try discriminate; cbn [clean_step].
  - apply no_char_remove_char. exact Hc.
  - cbn [pat_simple] in Hp. apply Ascii.eqb_eq in Hp. subst x. rewrite remove2_nochar; assumption.
Qed.

Lemma kof_no_char c s : nobs s = true -> no_char c s = true -> no_char c (kof s) = true.
Proof.
  unfold kof, clean_with. pose proof pats_simple as Hp. revert s Hp. generalize clean_patterns.
  induction l as [|pat pats IH]; intros s Hp Hs Hc; [exact Hc|].
  cbn [forallb] in Hp. apply andb_prop in Hp as [H1 H2]. cbn [fold_left].
  apply IH; [exact H2|apply clean_step_nobs; assumption|apply clean_step_no_char; assumption].
Qed.

(* identifier characters are kept *)
Definition pat_avoids (P : ascii -> bool) (pat : string) : bool := match pat with String c _ => negb (P c) | EmptyString => false end.

Lemma clean_step_id P pat s : pat_simple pat = true -> pat_avoids P pat = true -> allc P s = true -> clean_step s pat = s.
Proof.
  intros Hp Ha Hs. destruct pat as [|x [|y [|z r]]]; try discriminate; cbn [clean_step];
    unfold pat_avoids in Ha; rename Ha into Hx; apply negb_true_iff in Hx.
  - apply remove_char_id. exact (allc_no_char P x s Hx Hs).
  - apply remove2_nochar. exact (allc_no_char P x s Hx Hs).
Qed.

Lemma pats_avoid_ident : forallb (pat_avoids identc) clean_patterns = true.
Proof. vm_compute. reflexivity. Qed.

Lemma kof_ident s : allc identc s = true -> kof s = s.
Proof.
  unfold kof, clean_with. pose proof pats_simple as Hp. pose proof pats_avoid_ident as Ha. revert Hp Ha. generalize clean_patterns.
  induction l as [|pat pats IH]; intros Hp Ha Hs; [reflexivity|].
  cbn [forallb] in Hp, Ha. apply andb_prop in Hp as [H1 H2]. apply andb_prop in Ha as [A1 A2]. cbn [fold_left].
  rewrite (clean_step_id identc pat s H1 A1 Hs). apply IH; assumption.
Qed.

Lemma ident_nobs s : allc identc s = true -> nobs s = true.
Proof. apply allc_no_char. reflexivity. Qed.
