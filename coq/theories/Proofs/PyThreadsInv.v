(* C11 -- control-point description of the reachable states of the LTS running the CURRENT skeleton (Gen/PySync.v),
   the invariant, and the simulation lemma: every step of every thread from a described state leads to a described
   state satisfying the invariant, and decreases the rank unless it is an idle turn of the worker's polling loop.
   All proofs are re-checked against the regenerated Gen/PySync.v on every run. *)
From Coq Require Import String List Bool Arith NArith Lia.
From KV Require Import Model.PySyncIR Model.PyThreads Model.PyMachine Gen.PySync Spec.PyThreadsSpec.
Import ListNotations.
Open Scope list_scope.

Definition rt : string := "runThreaded"%string.
Definition kr : string := "keepRunning"%string.
Definition Ltrig : kitem := KOp (If (CFlag rt) [Put] [Process]).
Definition Lloop : kitem := KOp (While (CFlag kr) [TryEmpty [Get; Process; TaskDone] []]).
Definition wtail : list kitem := [KOp TaskDone; KTry []; Lloop].
Definition stop3 : list kitem := [KOp QueueJoin; KOp (SetFlag kr false); KOp ThreadJoin; KMark MStopRet].
Definition stopk : list kitem :=
  [KOp (If (CFlag rt) [If (CFlag kr) [QueueJoin; SetFlag kr false; ThreadJoin] []] []); KMark MStopRet].
Definition mtail : list kitem := KMark MStopCall :: stopk.

(* the skeleton the proofs are about: fails to type-check/prove when the template's skeleton changes *)
Lemma prog_shape :
  the_prog = mkProg [SetFlagParam rt; SetFlag kr true; NewQueue; If (CFlag rt) [ThreadStart] []]
                    [If (CFlag rt) [Put] [Process]]
                    [While (CFlag kr) [TryEmpty [Get; Process; TaskDone] []]]
                    [If (CFlag rt) [If (CFlag kr) [QueueJoin; SetFlag kr false; ThreadJoin] []] []].
Proof. reflexivity. Qed.

(* ---- a thread inside a sequence of Trigger calls *)
Inductive tphase := TIdle | TRead (e : ev) | TPut (e : ev).

Definition tthread (ph : tphase) (r : list ev) (tail : list kitem) : thread :=
  match ph with
  | TIdle => mkThread (map KCall r ++ tail) None
  | TRead e => mkThread (Ltrig :: map KCall r ++ tail) (Some e)
  | TPut e => mkThread (KOp Put :: map KCall r ++ tail) (Some e)
  end.

Definition ph_pend (ph : tphase) (r : list ev) : list ev :=
  match ph with TIdle => r | TRead e => e :: r | TPut e => e :: r end.

Inductive mshape :=
| M0 | M1 | M2 | M3 | M4 | M5
| MT (ph : tphase) (r : list ev)
| MS1 | MS2 | MS3 | MS4 | MS5 | MS6 | MS7.

Definition minit_tail (ms : list ev) : list kitem := KMark MInitDone :: map KCall ms ++ mtail.

Definition mthread (ms : list ev) (m : mshape) : thread :=
  match m with
  | M0 => mkThread (KOp (SetFlagParam rt) :: KOp (SetFlag kr true) :: KOp NewQueue :: KOp (If (CFlag rt) [ThreadStart] []) :: minit_tail ms) None
  | M1 => mkThread (KOp (SetFlag kr true) :: KOp NewQueue :: KOp (If (CFlag rt) [ThreadStart] []) :: minit_tail ms) None
  | M2 => mkThread (KOp NewQueue :: KOp (If (CFlag rt) [ThreadStart] []) :: minit_tail ms) None
  | M3 => mkThread (KOp (If (CFlag rt) [ThreadStart] []) :: minit_tail ms) None
  | M4 => mkThread (KOp ThreadStart :: minit_tail ms) None
  | M5 => mkThread (minit_tail ms) None
  | MT ph r => tthread ph r mtail
  | MS1 => mkThread stopk None
  | MS2 => mkThread (KOp (If (CFlag kr) [QueueJoin; SetFlag kr false; ThreadJoin] []) :: [KMark MStopRet]) None
  | MS3 => mkThread stop3 None
  | MS4 => mkThread (tl stop3) None
  | MS5 => mkThread (tl (tl stop3)) None
  | MS6 => mkThread [KMark MStopRet] None
  | MS7 => mkThread [] None
  end.

Inductive wshape := W0 | W1 | W2 (e : ev) | W3 (e : ev) (ph : tphase) (r : list ev) | W6 | W7.

Definition wthread (w : wshape) : thread :=
  match w with
  | W0 => mkThread [Lloop] None
  | W1 => mkThread (KOp Get :: KOp Process :: wtail) None
  | W2 e => mkThread (KOp Process :: wtail) (Some e)
  | W3 e ph r => tthread ph r (KEnd e :: wtail)
  | W6 => mkThread wtail None
  | W7 => mkThread [] None
  end.

Definition pthread (p : tphase * list ev) : thread := tthread (fst p) (snd p) [].

Record astate := mkA { a_sh : shared; a_m : mshape; a_w : wshape; a_p : list (tphase * list ev); a_done : list ev }.

Definition conc (c : config) (a : astate) : state :=
  mkState (a_sh a) (mthread (mscript c) (a_m a)) (wthread (a_w a)) (map pthread (a_p a)).

(* ---- what the control point of main determines *)
Definition mnum (m : mshape) : nat :=
  match m with M0 => 0 | M1 => 1 | M2 => 2 | M3 => 3 | M4 => 4 | M5 => 5 | MT _ _ => 6
             | MS1 => 7 | MS2 => 8 | MS3 => 9 | MS4 => 10 | MS5 => 11 | MS6 => 12 | MS7 => 13 end.

Definition flags_of (m : mshape) : list (string * bool) :=
  match m with
  | M0 => []
  | M1 => [(rt, true)]
  | MS5 | MS6 | MS7 => [(rt, true); (kr, false)]
  | _ => [(rt, true); (kr, true)]
  end.

Definition winfl (w : wshape) : list ev := match w with W2 e => [e] | W3 e _ _ => [e] | _ => [] end.
Definition winfl_n (w : wshape) : nat := match w with W2 _ | W3 _ _ _ | W6 => 1 | _ => 0 end.
Definition wopen (w : wshape) : list lg := match w with W3 e _ _ => [LBegin 1 e] | _ => [] end.
Definition wbegun (w : wshape) : list ev := match w with W3 e _ _ => [e] | _ => [] end.
Definition wheld (w : wshape) : list ev := match w with W2 e => [e] | _ => [] end.
Definition wpend (w : wshape) : list ev := match w with W3 _ ph r => ph_pend ph r | _ => [] end.
Definition mpend (ms : list ev) (m : mshape) : list ev :=
  match m with M0 | M1 | M2 | M3 | M4 | M5 => ms | MT ph r => ph_pend ph r | _ => [] end.

(* ---- identities: every event identity of the scenario is, at any time, either begun or still pending somewhere *)
Fixpoint cnt (x : N) (l : list N) : nat :=
  match l with [] => 0 | y :: r => (if N.eqb x y then 1 else 0) + cnt x r end.
Definition ecnt (x : N) (l : list ev) : nat := cnt x (evs_ids l).
Definition ppend (p : tphase * list ev) : list ev := ph_pend (fst p) (snd p).
Definition sumf {A} (f : A -> nat) (l : list A) : nat := fold_right (fun a n => f a + n) 0 l.

Definition tokens (x : N) (c : config) (a : astate) : nat :=
  cnt x (map ev_id (a_done a)) + cnt x (map ev_id (wbegun (a_w a)))
  + ecnt x (mpend (mscript c) (a_m a)) + ecnt x (wpend (a_w a)) + ecnt x (wheld (a_w a))
  + sumf (fun p => ecnt x (ppend p)) (a_p a) + ecnt x (queue (a_sh a)).

Record AInv (c : config) (a : astate) : Prop := mkAInv {
  i_flags : flags (a_sh a) = flags_of (a_m a);
  i_started : started (a_sh a) = Nat.leb 5 (mnum (a_m a));
  i_inited : inited (a_sh a) = Nat.leb 6 (mnum (a_m a));
  i_sc : stop_called (a_sh a) = Nat.leb 7 (mnum (a_m a));
  i_sr : stop_returned (a_sh a) = Nat.leb 13 (mnum (a_m a));
  i_unf : unfinished (a_sh a) = length (queue (a_sh a)) + winfl_n (a_w a);
  i_fifo : a_done a ++ wbegun (a_w a) ++ wheld (a_w a) ++ queue (a_sh a) = map snd (puts (a_sh a));
  i_log : log (a_sh a) = plog (a_done a) ++ wopen (a_w a);
  i_w0 : mnum (a_m a) < 5 -> a_w a = W0;
  i_quiet : mnum (a_m a) < 6 -> puts (a_sh a) = [] /\ queue (a_sh a) = [] /\ a_done a = [] /\ (a_w a = W0 \/ a_w a = W1);
  i_w7 : a_w a = W7 -> 11 <= mnum (a_m a);
  i_joined : 12 <= mnum (a_m a) -> a_w a = W7;
  i_pre : 7 <= mnum (a_m a) -> prefix (pre_stop (a_sh a)) (puts (a_sh a));
  i_drained : 10 <= mnum (a_m a) -> prefix (map snd (pre_stop (a_sh a))) (a_done a);
  i_ordm : puts_by 0 (puts (a_sh a)) ++ mpend (mscript c) (a_m a) = mscript c;
  i_ordw : puts_by 1 (puts (a_sh a)) ++ wpend (a_w a) = flat_map ev_children (a_done a ++ wbegun (a_w a));
  i_ordp : forall i p, nth_error (a_p a) i = Some p ->
           puts_by (2 + i) (puts (a_sh a)) ++ ph_pend (fst p) (snd p) = nth i (pscripts c) [];
  i_np : length (a_p a) = length (pscripts c);
  i_tok : forall x, tokens x c a = cnt x (all_ids c)
}.

(* ---------------------------------------------------------------- small facts *)
Lemma cnt_app : forall x a b, cnt x (a ++ b) = cnt x a + cnt x b.
Proof. induction a; cbn; intros; auto. rewrite IHa. lia. Qed.

Lemma evs_ids_app : forall a b, evs_ids (a ++ b) = evs_ids a ++ evs_ids b.
Proof. intros. unfold evs_ids. apply flat_map_app. Qed.

Lemma ev_ids_unfold : forall e, ev_ids e = ev_id e :: evs_ids (ev_children e).
Proof.
  destruct e as [i c]. cbn [ev_ids ev_id ev_children]. f_equal.
Qed.

Lemma ecnt_nil : forall x, ecnt x [] = 0.
Proof. reflexivity. Qed.
Lemma ecnt_app : forall x a b, ecnt x (a ++ b) = ecnt x a + ecnt x b.
Proof. intros. unfold ecnt. rewrite evs_ids_app, cnt_app. reflexivity. Qed.
Lemma ecnt_cons : forall x e l, ecnt x (e :: l) = cnt x [ev_id e] + ecnt x (ev_children e) + ecnt x l.
Proof.
  intros. change (e :: l) with ([e] ++ l). rewrite ecnt_app. f_equal. unfold ecnt. unfold evs_ids at 1. cbn [flat_map].
  rewrite app_nil_r, ev_ids_unfold. cbn [cnt]. lia.
Qed.

Lemma sumf_upd : forall {A} (f : A -> nat) i x l p, nth_error l i = Some p -> sumf f (upd i x l) + f p = sumf f l + f x.
Proof.
  intros A f i x l. unfold sumf. revert i. induction l; destruct i; cbn; intros; try discriminate.
  - inversion H; subst. lia.
  - specialize (IHl _ _ H). lia.
Qed.

Lemma drop_try_calls : forall r tail, drop_try tail = tail -> drop_try (map KCall r ++ tail) = map KCall r ++ tail.
Proof. intros [|e r] tail H; cbn; auto. Qed.

Lemma costs_app : forall a b, costs (a ++ b) = costs a + costs b.
Proof. induction a; intros; [reflexivity|]. unfold costs in *. cbn [app fold_right]. rewrite IHa. lia. Qed.

Lemma contw_app : forall a b, contw (a ++ b) = contw a + contw b.
Proof. induction a; intros; [reflexivity|]. unfold contw in *. cbn [app fold_right]. rewrite IHa. lia. Qed.

Lemma contw_calls : forall r, contw (map KCall r) = costs r.
Proof. induction r; [reflexivity|]. unfold contw, costs in *. cbn [map fold_right kw]. rewrite IHr. reflexivity. Qed.

Lemma pcost_children : forall e, pcost e = 1 + costs (ev_children e).
Proof.
  destruct e as [i c]. cbn [pcost ev_children]. f_equal.
Qed.

Definition ph_rank (ph : tphase) (r : list ev) : nat :=
  match ph with TIdle => costs r | TRead e => 2 + qw e + costs r | TPut e => 1 + qw e + costs r end.

Lemma trank_tthread : forall ph r tail, trank (tthread ph r tail) = ph_rank ph r + contw tail.
Proof.
  intros [|e|e] r tail; unfold trank; cbn [tthread cont cur ph_rank];
    change (Ltrig :: map KCall r ++ tail) with ([Ltrig] ++ map KCall r ++ tail);
    change (KOp Put :: map KCall r ++ tail) with ([KOp Put] ++ map KCall r ++ tail);
    rewrite ?contw_app, ?contw_calls; cbn; lia.
Qed.

Definition mrank (ms : list ev) (m : mshape) : nat :=
  match m with
  | M0 => 13 + costs ms | M1 => 12 + costs ms | M2 => 11 + costs ms | M3 => 10 + costs ms | M4 => 9 + costs ms
  | M5 => 8 + costs ms | MT ph r => 7 + ph_rank ph r
  | MS1 => 6 | MS2 => 5 | MS3 => 4 | MS4 => 3 | MS5 => 2 | MS6 => 1 | MS7 => 0
  end.

Definition wr (w : wshape) (q : list ev) : nat :=
  match w with
  | W0 => 1
  | W1 => match q with [] => 1 | _ => 0 end
  | W2 e => 3 + pcost e
  | W3 e ph r => 3 + ph_rank ph r
  | W6 => 2
  | W7 => 0
  end.

Definition prank (p : tphase * list ev) : nat := ph_rank (fst p) (snd p).
Definition sum (l : list nat) : nat := fold_right Nat.add 0 l.

Lemma mrank_ok : forall ms m, trank (mthread ms m) = mrank ms m.
Proof.
  intros ms m; destruct m; cbn [mthread]; try (rewrite trank_tthread; cbn; lia);
    unfold trank; cbn [cont cur tl]; unfold minit_tail, mtail, stopk, stop3; cbn [tl];
    repeat match goal with |- context [contw (?x :: ?r)] => change (contw (x :: r)) with (kw x + contw r) end;
    rewrite ?contw_app, ?contw_calls;
    repeat match goal with |- context [contw (?x :: ?r)] => change (contw (x :: r)) with (kw x + contw r) end;
    cbn; lia.
Qed.

Lemma wr_ok : forall w q, wrank (wthread w) q = wr w q.
Proof.
  intros w q; destruct w as [| |e|e ph r| |]; try reflexivity.
  cbn [wthread wr]. rewrite <- (Nat.add_comm (ph_rank ph r)).
  change 3 with (contw (KEnd e :: wtail)). rewrite <- trank_tthread.
  destruct ph, r; reflexivity.
Qed.

Lemma sum_tranks : forall ps, fold_right (fun t n => trank t + n) 0 (map pthread ps) = sum (map prank ps).
Proof.
  induction ps as [|p ps IH]; [reflexivity|]. cbn [map fold_right sum]. rewrite IH. unfold pthread at 1.
  rewrite trank_tthread. unfold prank, sum. cbn [contw fold_right]. lia.
Qed.

Definition qsum (q : list ev) : nat := fold_right (fun e n => qw e + n) 0 q.

Definition arank (c : config) (a : astate) : nat :=
  mrank (mscript c) (a_m a) + wr (a_w a) (queue (a_sh a)) + sum (map prank (a_p a)) + qsum (queue (a_sh a)).

Lemma rank_conc : forall c a, rank (conc c a) = arank c a.
Proof. intros. unfold rank, arank, conc. cbn [tmain tworker tprods sh]. rewrite mrank_ok, wr_ok, sum_tranks. reflexivity. Qed.

Lemma qsum_app : forall a b, qsum (a ++ b) = qsum a + qsum b.
Proof. induction a; intros; [reflexivity|]. unfold qsum in *. cbn [app fold_right]. rewrite IHa. lia. Qed.

Lemma map_upd : forall {A B} (f : A -> B) i x l, upd i (f x) (map f l) = map f (upd i x l).
Proof. intros A B f i x l. revert i. induction l; destruct i; cbn; auto. f_equal. auto. Qed.

Lemma sum_upd : forall (f : tphase * list ev -> nat) i x l p, nth_error l i = Some p ->
  sum (map f (upd i x l)) + f p = sum (map f l) + f x.
Proof.
  intros f i x l. unfold sum. revert i. induction l; destruct i; cbn; intros; try discriminate.
  - inversion H; subst. lia.
  - specialize (IHl _ _ H). lia.
Qed.

Lemma nth_upd_same : forall {A} i (x : A) l, i < length l -> nth_error (upd i x l) i = Some x.
Proof. intros A i x l. revert i. induction l; destruct i; cbn; intros; try lia; auto. apply IHl. lia. Qed.

Lemma nth_upd_other : forall {A} i j (x : A) l, i <> j -> nth_error (upd i x l) j = nth_error l j.
Proof. intros A i j x l. revert i j. induction l; destruct i, j; cbn; intros; auto; try lia. Qed.

Lemma length_upd : forall {A} i (x : A) l, length (upd i x l) = length l.
Proof. intros A i x l. revert i. induction l; destruct i; cbn; auto. Qed.

Lemma puts_by_app : forall t a b, puts_by t (a ++ b) = puts_by t a ++ puts_by t b.
Proof. intros. unfold puts_by. rewrite filter_app, map_app. reflexivity. Qed.

Lemma puts_by_one : forall t u e, puts_by t [(u, e)] = if Nat.eqb u t then [e] else [].
Proof. intros. unfold puts_by. cbn. destruct (Nat.eqb u t); reflexivity. Qed.

Lemma plog_app : forall a b, plog (a ++ b) = plog a ++ plog b.
Proof. intros. unfold plog. apply flat_map_app. Qed.

Lemma lookup_rt : forall m, 1 <= mnum m -> lookup rt (flags_of m) = Some true.
Proof. destruct m; cbn; intros; try lia; reflexivity. Qed.

Lemma lookup_kr : forall m, 2 <= mnum m -> lookup kr (flags_of m) = Some (Nat.ltb (mnum m) 11).
Proof. destruct m; cbn; intros; try lia; reflexivity. Qed.

(* ---------------------------------------------------------------- one Trigger call, step by step *)
Definition sh_put (tid : nat) (e : ev) (s : shared) : shared :=
  mkShared (flags s) (queue s ++ [e]) (S (unfinished s)) (started s) (inited s) (stop_called s) (stop_returned s)
           (puts s ++ [(tid, e)]) (pre_stop s) (log s).

Lemma exec_trig : forall tid wfin ph r tail s th' s' l,
  drop_try tail = tail -> lookup rt (flags s) = Some true ->
  exec the_prog true tid wfin (tthread ph r tail) s = Some (th', s', l) ->
  match ph, r with
  | TIdle, e :: r' => th' = tthread (TRead e) r' tail /\ s' = s /\ l = LCall (ev_id e)
  | TIdle, [] => exec the_prog true tid wfin (mkThread tail None) s = Some (th', s', l)
  | TRead e, _ => th' = tthread (TPut e) r tail /\ s' = s /\ l = LReadFlag rt true
  | TPut e, _ => th' = tthread TIdle r tail /\ s' = sh_put tid e s /\ l = LPut (ev_id e)
  end.
Proof.
  intros tid wfin ph r tail s th' s' l Ht Hrt H.
  destruct ph as [|e|e]; [destruct r as [|e r]|..]; cbn in H.
  - exact H.
  - rewrite ?drop_try_calls in H by exact Ht. inversion H; subst. auto.
  - fold rt in H. rewrite Hrt in H. cbn in H. rewrite ?drop_try_calls in H by exact Ht. inversion H; subst. auto.
  - rewrite ?drop_try_calls in H by exact Ht. inversion H; subst. auto.
Qed.
