(* C20, table level: on any project that hosts a well-formed diagram D whose blobs parse as expected (parse_ok),
   the reader's model returns the specified table. *)
From Coq Require Import String Ascii List Bool Arith Lia.
From KV Require Import Lib.Str Lib.ODict Gen.VppSrc Model.Vpp Model.VppWriter Spec.VppSpec Proofs.VppDefs.
Import ListNotations.
Open Scope string_scope.

(* ---------------------------------------------------------------- generic facts *)

Lemma existsb_eqb_In : forall x l, existsb (String.eqb x) l = true <-> In x l.
Proof.
  intros x l. rewrite existsb_exists. split.
  - intros [y [Hy He]]. apply String.eqb_eq in He. subst; auto.
  - intros H. exists x. split; auto. apply String.eqb_refl.
Qed.

Lemma existsb_eqb_nIn : forall x l, existsb (String.eqb x) l = false <-> ~ In x l.
Proof.
  intros x l. rewrite <- existsb_eqb_In. destruct (existsb (String.eqb x) l); split; intros; congruence.
Qed.

Lemma nodupb_NoDup : forall l, nodupb l = true -> NoDup l.
Proof.
  induction l as [|x r IH]; intros H.
  - constructor.
  - cbn [nodupb] in H. apply andb_true_iff in H. destruct H as [H1 H2].
    constructor.
    + apply negb_true_iff in H1. apply existsb_eqb_nIn in H1. exact H1.
    + auto.
Qed.

Lemma upsert_fresh : forall (V : Type) k (v : V) d,
  ~ In k (map fst d) -> upsert String.eqb k v d = (d ++ [(k, v)])%list.
Proof.
  intros V k v d. induction d as [|[k' v'] r IH]; intros H.
  - reflexivity.
  - cbn [upsert app]. cbn [map fst In] in H.
    destruct (String.eqb k k') eqn:E.
    + apply String.eqb_eq in E. subst. exfalso. apply H. left. reflexivity.
    + rewrite IH; auto.
Qed.

Lemma lookup_upsert : forall (V : Type) k k' (v : V) d,
  lookup String.eqb k' (upsert String.eqb k v d) = if String.eqb k' k then Some v else lookup String.eqb k' d.
Proof.
  intros V k k' v d. induction d as [|[k0 v0] r IH].
  - cbn [upsert lookup]. reflexivity.
  - cbn [upsert]. destruct (String.eqb k k0) eqn:E.
    + apply String.eqb_eq in E. subst k0. cbn [lookup]. destruct (String.eqb k' k); reflexivity.
    + cbn [lookup]. rewrite IH. destruct (String.eqb k' k0) eqn:E0; auto.
      destruct (String.eqb k' k) eqn:E1; auto.
      apply String.eqb_eq in E0. apply String.eqb_eq in E1. subst. rewrite String.eqb_refl in E. discriminate.
Qed.

(* ---------------------------------------------------------------- (H1) the diagram id *)

Definition is_sd (g : diag) : bool := String.eqb (dg_type g) "StateDiagram".

Lemma dts_eq : diagram_type_state = "StateDiagram".
Proof. reflexivity. Qed.

Lemma none_str_eq : none_str = "None".
Proof. reflexivity. Qed.

Lemma sd_fold : forall ds acc,
  NoDup (map fst acc ++ map dg_id ds)%list ->
  fold_left (fun acc d => if String.eqb (dg_type d) diagram_type_state
                          then upsert String.eqb (dg_id d) (dg_name d) acc else acc) ds acc
  = (acc ++ map (fun g => (dg_id g, dg_name g)) (filter is_sd ds))%list.
Proof.
  rewrite dts_eq.
  induction ds as [|g ds IH]; intros acc H.
  - cbn. rewrite app_nil_r. reflexivity.
  - cbn [fold_left filter]. cbn [map] in H.
    pose proof (NoDup_remove _ _ _ H) as [H1 H2].
    unfold is_sd at 1. destruct (String.eqb (dg_type g) "StateDiagram").
    + rewrite upsert_fresh.
      * rewrite IH.
        -- cbn [map]. rewrite <- app_assoc. reflexivity.
        -- rewrite map_app. rewrite <- app_assoc. exact H.
      * intro Hin. apply H2. apply in_or_app. left. exact Hin.
    + apply IH. exact H1.
Qed.

Lemma find_sd : forall ds nm g,
  find (fun g => String.eqb (dg_type g) "StateDiagram" && String.eqb (dg_name g) nm) ds = Some g ->
  find (fun kv : string * string => String.eqb (snd kv) nm) (map (fun g => (dg_id g, dg_name g)) (filter is_sd ds))
  = Some (dg_id g, dg_name g).
Proof.
  induction ds as [|g0 ds IH]; intros nm g H.
  - discriminate.
  - cbn [find filter] in *. unfold is_sd at 1.
    destruct (String.eqb (dg_type g0) "StateDiagram"); cbn [andb] in H.
    + cbn [map find snd]. destruct (String.eqb (dg_name g0) nm).
      * inversion H. reflexivity.
      * auto.
    + auto.
Qed.

Lemma h1_id : forall (d : db) (D : diagram),
  hosts d D = true -> id_from_name (state_diagrams (db_diagrams d)) (d_name D) = Some (d_id D).
Proof.
  intros d D H. unfold hosts in H.
  repeat (apply andb_true_iff in H; destruct H as [H ?]).
  apply nodupb_NoDup in H.
  unfold state_diagrams. rewrite sd_fold by exact H.
  cbn [app]. unfold id_from_name.
  destruct (find (fun g => String.eqb (dg_type g) "StateDiagram" && String.eqb (dg_name g) (d_name D)) (db_diagrams d)) as [g|] eqn:F;
    [|discriminate].
  rewrite (find_sd _ _ _ F). cbn [fst]. f_equal. apply String.eqb_eq. assumption.
Qed.

(* ---------------------------------------------------------------- (H2) the shapes of the diagram *)

Ltac split_andb :=
  repeat match goal with
         | H : andb _ _ = true |- _ => apply andb_true_iff in H; destruct H
         end.
Ltac eqb_to_eq :=
  repeat match goal with
         | H : String.eqb _ _ = true |- _ => apply String.eqb_eq in H
         end.

Lemma delem_eqb_eq : forall a b, delem_eqb a b = true -> a = b.
Proof.
  intros [a1 a2 a3 a4] [b1 b2 b3 b4] H. unfold delem_eqb in H.
  cbn [de_id de_shape de_diagram de_model] in H. split_andb. eqb_to_eq.
  destruct a4, b4; cbn [ostr] in *; try discriminate; subst; reflexivity.
Qed.

Lemma melem_eqb_eq : forall a b, melem_eqb a b = true -> a = b.
Proof.
  intros [a1 a2 a3 a4 a5] [b1 b2 b3 b4 b5] H. unfold melem_eqb in H.
  cbn [me_id me_type me_parent me_name me_blob] in H. split_andb. eqb_to_eq.
  destruct a3, b3; cbn [ostr] in *; try discriminate;
    destruct a4, b4; cbn [ostr] in *; try discriminate; subst; reflexivity.
Qed.

Lemma list_eqb_eq : forall (A : Type) (eqb : A -> A -> bool),
  (forall a b, eqb a b = true -> a = b) -> forall l1 l2, list_eqb eqb l1 l2 = true -> l1 = l2.
Proof.
  intros A eqb He. induction l1 as [|x l1 IH]; intros [|y l2] H; cbn [list_eqb] in H; try discriminate.
  - reflexivity.
  - apply andb_true_iff in H. destruct H as [H1 H2]. f_equal; auto.
Qed.

Lemma h2_elems : forall (d : db) (D : diagram),
  hosts d D = true -> diagram_elements (db_delems d) (d_id D) = delem_rows D.
Proof.
  intros d D H. unfold hosts in H. split_andb.
  unfold diagram_elements. apply (list_eqb_eq _ _ delem_eqb_eq). assumption.
Qed.

(* ---------------------------------------------------------------- (H3) the model element rows *)

Lemma gme_row : forall ms id, get_model_element ms id = option_map velem_of (row_with_id ms id).
Proof.
  unfold row_with_id. induction ms as [|m ms IH]; intros id.
  - reflexivity.
  - cbn [get_model_element find]. destruct (String.eqb (me_id m) id).
    + reflexivity.
    + apply IH.
Qed.

Lemma h3_rows : forall (d : db) (D : diagram),
  hosts d D = true ->
  forall m, In m (melem_rows D) -> get_model_element (db_melems d) (me_id m) = Some (velem_of m).
Proof.
  intros d D H m Hin. unfold hosts in H. split_andb.
  match goal with H : forallb _ _ = true |- _ => rewrite forallb_forall in H; pose proof (H m Hin) as Hm end.
  rewrite gme_row.
  destruct (row_with_id (db_melems d) (me_id m)) as [m'|]; [|discriminate].
  apply melem_eqb_eq in Hm. subst. reflexivity.
Qed.

(* ---------------------------------------------------------------- (T1) first loop of LoadAndTest *)

Definition l_inits (l : list elem) : list pelem := flat_map (fun e => match e with EInit _ p => [p] | _ => [] end) l.
Definition l_states (l : list elem) : list pelem := flat_map (fun e => match e with EState _ p => [p] | _ => [] end) l.
Definition l_trans (l : list elem) : list dtrans := flat_map (fun e => match e with ETrans _ t => [t] | _ => [] end) l.

Lemma l_inits_cons : forall e l,
  l_inits (e :: l) = (match e with EInit _ p => [p] | _ => [] end ++ l_inits l)%list.
Proof. reflexivity. Qed.
Lemma l_states_cons : forall e l,
  l_states (e :: l) = (match e with EState _ p => [p] | _ => [] end ++ l_states l)%list.
Proof. reflexivity. Qed.
Lemma l_trans_cons : forall e l,
  l_trans (e :: l) = (match e with ETrans _ t => [t] | _ => [] end ++ l_trans l)%list.
Proof. reflexivity. Qed.

Definition pv (p : pelem) : velem := velem_of (melem_of_pelem p).

Definition acc_step (acc : sdiag) (e : elem) : sdiag :=
  match e with
  | EInit _ p => {| sd_init := Some (pv p); sd_trans := sd_trans acc; sd_states := sd_states acc |}
  | EState _ p => {| sd_init := sd_init acc; sd_trans := sd_trans acc;
                     sd_states := upsert String.eqb (p_id p) (pv p) (sd_states acc) |}
  | ETrans _ t => {| sd_init := sd_init acc; sd_trans := upsert String.eqb (t_id t) (parsed t) (sd_trans acc);
                     sd_states := sd_states acc |}
  | EOther _ _ => acc
  end.

Definition tr_entry (t : dtrans) : string * ptrans := (t_id t, parsed t).
Definition st_entry (p : pelem) : string * velem := (p_id p, pv p).

Lemma fold_acc_trans : forall l s,
  NoDup (map fst (sd_trans s) ++ map model_id l)%list ->
  sd_trans (fold_left acc_step l s) = (sd_trans s ++ map tr_entry (l_trans l))%list.
Proof.
  induction l as [|e l IH]; intros s H.
  - cbn. rewrite app_nil_r. reflexivity.
  - cbn [fold_left]. rewrite l_trans_cons. cbn [map] in H.
    pose proof (NoDup_remove _ _ _ H) as [H1 H2].
    destruct e as [de p|de p|de p|de t]; cbn [acc_step app].
    + rewrite IH; [reflexivity| exact H1].
    + rewrite IH; [reflexivity| exact H1].
    + rewrite IH; [reflexivity| exact H1].
    + rewrite IH; cbn [sd_trans].
      * rewrite upsert_fresh.
        -- rewrite <- app_assoc. reflexivity.
        -- intro Hin. apply H2. apply in_or_app. left. exact Hin.
      * rewrite upsert_fresh.
        -- rewrite map_app. rewrite <- app_assoc. exact H.
        -- intro Hin. apply H2. apply in_or_app. left. exact Hin.
Qed.

Lemma fold_acc_states : forall l s,
  NoDup (map fst (sd_states s) ++ map model_id l)%list ->
  sd_states (fold_left acc_step l s) = (sd_states s ++ map st_entry (l_states l))%list.
Proof.
  induction l as [|e l IH]; intros s H.
  - cbn. rewrite app_nil_r. reflexivity.
  - cbn [fold_left]. rewrite l_states_cons. cbn [map] in H.
    pose proof (NoDup_remove _ _ _ H) as [H1 H2].
    destruct e as [de p|de p|de p|de t]; cbn [acc_step app].
    + rewrite IH; [reflexivity| exact H1].
    + rewrite IH; cbn [sd_states].
      * rewrite upsert_fresh.
        -- rewrite <- app_assoc. reflexivity.
        -- intro Hin. apply H2. apply in_or_app. left. exact Hin.
      * rewrite upsert_fresh.
        -- rewrite map_app. rewrite <- app_assoc. exact H.
        -- intro Hin. apply H2. apply in_or_app. left. exact Hin.
    + rewrite IH; [reflexivity| exact H1].
    + rewrite IH; [reflexivity| exact H1].
Qed.

Lemma fold_acc_init : forall l s,
  sd_init (fold_left acc_step l s) = fold_left (fun _ p => Some (pv p)) (l_inits l) (sd_init s).
Proof.
  induction l as [|e l IH]; intros s.
  - reflexivity.
  - cbn [fold_left]. rewrite l_inits_cons. rewrite IH.
    destruct e as [de p|de p|de p|de t]; reflexivity.
Qed.

Lemma disp_init : lookup String.eqb "InitialPseudoState" type_dispatch = Some "init".
Proof. reflexivity. Qed.
Lemma disp_state : lookup String.eqb "State2" type_dispatch = Some "state".
Proof. reflexivity. Qed.
Lemma disp_trans : lookup String.eqb "Transition2" type_dispatch = Some "transition".
Proof. reflexivity. Qed.
Lemma disp_note : lookup String.eqb "NOTE" type_dispatch = Some "pass".
Proof. reflexivity. Qed.
Lemma disp_anchor : lookup String.eqb "Anchor" type_dispatch = Some "pass".
Proof. reflexivity. Qed.

Definition rowf (D : diagram) (e : elem) : delem :=
  {| de_id := shape_id e; de_shape := me_type (melem_of_elem e); de_diagram := d_id D;
     de_model := Some (me_id (melem_of_elem e)) |}.

Section Table.
  Variable ms : list melem.
  Variable D : diagram.
  Hypothesis Hwf : wf_diagram D = true.
  Hypothesis Hms : forall m, In m (melem_rows D) -> get_model_element ms (me_id m) = Some (velem_of m).
  Hypothesis Hp : parse_ok D.

  Lemma trans_eq : transitions D = l_trans (d_elems D). Proof. reflexivity. Qed.
  Lemma states_eq : states D = l_states (d_elems D). Proof. reflexivity. Qed.
  Lemma inits_eq : inits D = l_inits (d_elems D). Proof. reflexivity. Qed.

  Lemma wf_types : forall e, In e (d_elems D) ->
    match e with
    | EInit _ p => p_type p = "InitialPseudoState"
    | EState _ p => p_type p = "State2"
    | EOther _ p => p_type p = "NOTE" \/ p_type p = "Anchor"
    | ETrans _ _ => True
    end.
  Proof.
    intros e He. pose proof Hwf as H. unfold wf_diagram in H. split_andb.
    match goal with H : forallb _ (d_elems D) = true |- _ => rewrite forallb_forall in H; pose proof (H e He) as Ht end.
    destruct e; auto.
    - apply String.eqb_eq; auto.
    - apply String.eqb_eq; auto.
    - apply orb_true_iff in Ht. destruct Ht as [Ht|Ht]; apply String.eqb_eq in Ht; auto.
  Qed.

  Lemma wf_one_init : exists p0, inits D = [p0].
  Proof.
    pose proof Hwf as H. unfold wf_diagram in H. split_andb.
    match goal with H : Nat.eqb _ 1 = true |- _ => apply Nat.eqb_eq in H; rename H into Hl end.
    destruct (inits D) as [|p0 [|p1 r]]; try discriminate. exists p0. reflexivity.
  Qed.

  Lemma wf_nodup_ids : NoDup (map model_id (d_elems D)).
  Proof.
    pose proof Hwf as H. unfold wf_diagram in H. split_andb.
    apply nodupb_NoDup. assumption.
  Qed.

  Lemma wf_nodup_names : NoDup (map (fun p => ostr (p_name p)) (states D)).
  Proof.
    pose proof Hwf as H. unfold wf_diagram in H. split_andb.
    apply nodupb_NoDup. assumption.
  Qed.

  Lemma wf_trans_refs : forall t, In t (transitions D) ->
    In (t_to t) (map p_id (states D))
    /\ In (t_from t) (map p_id (states D) ++ map p_id (inits D))%list
    /\ (forall g, t_guard t = Some g -> In g (map g_id (d_guards D)))
    /\ (forall a, t_effect t = Some a -> In a (map p_id (d_acts D))).
  Proof.
    intros t Ht. pose proof Hwf as H. unfold wf_diagram in H. split_andb.
    match goal with H : forallb _ (transitions D) = true |- _ => rewrite forallb_forall in H; pose proof (H t Ht) as Hr end.
    split_andb. unfold in_ids in *.
    repeat split.
    - apply existsb_eqb_In. assumption.
    - apply existsb_eqb_In. assumption.
    - intros g Hg. match goal with H : match t_guard t with _ => _ end = true |- _ => rewrite Hg in H; apply existsb_eqb_In in H; exact H end.
    - intros a Ha. match goal with H : match t_effect t with _ => _ end = true |- _ => rewrite Ha in H; apply existsb_eqb_In in H; exact H end.
  Qed.

  Lemma elem_row_in : forall e, In e (d_elems D) -> In (melem_of_elem e) (melem_rows D).
  Proof. intros e He. unfold melem_rows. apply in_or_app. left. apply in_map. exact He. Qed.

  Lemma trans_in_elems : forall l t, In t (l_trans l) -> exists de, In (ETrans de t) l.
  Proof.
    induction l as [|e l IH]; intros t Ht.
    - destruct Ht.
    - rewrite l_trans_cons in Ht. apply in_app_or in Ht. destruct Ht as [Ht|Ht].
      + destruct e as [de p|de p|de p|de t0]; cbn [In] in Ht; try contradiction.
        destruct Ht as [Ht|[]]. subst. exists de. left. reflexivity.
      + destruct (IH t Ht) as [de Hde]. exists de. right. exact Hde.
  Qed.

  Lemma load_step_ok : forall s e, In e (d_elems D) ->
    load_step ms (Some s) (rowf D e) = Some (acc_step s e).
  Proof.
    intros s e He. unfold load_step. cbn [rowf de_model].
    rewrite (Hms _ (elem_row_in _ He)).
    pose proof (wf_types _ He) as Ht.
    destruct e as [de p|de p|de p|de t]; cbn [melem_of_elem].
    - change (ve_type (velem_of (melem_of_pelem p))) with (p_type p). rewrite Ht. rewrite disp_init. reflexivity.
    - change (ve_type (velem_of (melem_of_pelem p))) with (p_type p). rewrite Ht. rewrite disp_state. reflexivity.
    - change (ve_type (velem_of (melem_of_pelem p))) with (p_type p).
      destruct Ht as [Ht|Ht]; rewrite Ht; [rewrite disp_note|rewrite disp_anchor]; reflexivity.
    - change (ve_type (velem_of (melem_of_trans t))) with "Transition2". rewrite disp_trans.
      destruct Hp as [Hp1 _]. rewrite Hp1.
      + reflexivity.
      + rewrite trans_eq. clear - He. induction (d_elems D) as [|e l IH].
        * destruct He.
        * rewrite l_trans_cons. apply in_or_app. destruct He as [He|He].
          -- subst. left. left. reflexivity.
          -- right. auto.
  Qed.

  Lemma load_fold_ok : forall l s, (forall e, In e l -> In e (d_elems D)) ->
    fold_left (load_step ms) (map (rowf D) l) (Some s) = Some (fold_left acc_step l s).
  Proof.
    induction l as [|e l IH]; intros s Hl.
    - reflexivity.
    - cbn [map fold_left]. rewrite load_step_ok by (apply Hl; left; reflexivity).
      apply IH. intros e' He'. apply Hl. right. exact He'.
  Qed.

  Definition s0 : sdiag := {| sd_init := None; sd_trans := []; sd_states := [] |}.
  Definition sF : sdiag := fold_left acc_step (d_elems D) s0.

  Lemma load_all : fold_left (load_step ms) (delem_rows D) (Some s0) = Some sF.
  Proof. unfold delem_rows. apply (load_fold_ok (d_elems D) s0). auto. Qed.

  Lemma sF_trans : sd_trans sF = map tr_entry (transitions D).
  Proof. unfold sF. rewrite fold_acc_trans. reflexivity. cbn. apply wf_nodup_ids. Qed.

  Lemma sF_states : sd_states sF = map st_entry (states D).
  Proof. unfold sF. rewrite fold_acc_states. reflexivity. cbn. apply wf_nodup_ids. Qed.

  Lemma sF_init : forall p0, inits D = [p0] -> sd_init sF = Some (pv p0).
  Proof. intros p0 H. unfold sF. rewrite fold_acc_init. rewrite <- inits_eq. rewrite H. reflexivity. Qed.

  (* ---------------------------------------------------------------- (T2) second loop of LoadAndTest *)

  Lemma find_id_some : forall (A : Type) (idf : A -> string) l k,
    In k (map idf l) -> exists x, find (fun x => String.eqb (idf x) k) l = Some x /\ In x l /\ idf x = k.
  Proof.
    intros A idf. induction l as [|a l IH]; intros k Hk.
    - destruct Hk.
    - cbn [find]. destruct (String.eqb (idf a) k) eqn:E.
      + exists a. split; [reflexivity|]. split; [left; reflexivity|]. apply String.eqb_eq. exact E.
      + cbn [map In] in Hk. destruct Hk as [Hk|Hk].
        * subst. rewrite String.eqb_refl in E. discriminate.
        * destruct (IH k Hk) as [x [H1 [H2 H3]]]. exists x. split; [exact H1|]. split; [right; exact H2|exact H3].
  Qed.

  Lemma guard_lookup : forall g, In g (map g_id (d_guards D)) ->
    exists v, get_model_element ms g = Some v /\ parse_guard v = Some (guard_text (d_guards D) g).
  Proof.
    intros g Hg. destruct (find_id_some _ g_id _ _ Hg) as [g' [Hf [Hin Hid]]].
    exists (velem_of (melem_of_guard g')). split.
    - rewrite <- Hid. apply (Hms (melem_of_guard g')). unfold melem_rows.
      apply in_or_app. right. apply in_or_app. left. apply in_map. exact Hin.
    - destruct Hp as [_ Hp2]. rewrite (Hp2 g' Hin). unfold guard_text. rewrite Hf. reflexivity.
  Qed.

  Lemma act_lookup : forall a, In a (map p_id (d_acts D)) ->
    exists v, get_model_element ms a = Some v /\ ve_name v = name_of (d_acts D) a.
  Proof.
    intros a Ha. destruct (find_id_some _ p_id _ _ Ha) as [p' [Hf [Hin Hid]]].
    exists (velem_of (melem_of_pelem p')). split.
    - rewrite <- Hid. apply (Hms (melem_of_pelem p')). unfold melem_rows.
      apply in_or_app. right. apply in_or_app. right. apply in_map. exact Hin.
    - unfold name_of. rewrite Hf. reflexivity.
  Qed.

  Definition ga_g (gs : list (string * string)) (t : dtrans) : list (string * string) :=
    match t_guard t with None => gs | Some g => upsert String.eqb g (guard_text (d_guards D) g) gs end.
  Definition ga_a (acts : list (string * string)) (t : dtrans) : list (string * string) :=
    match t_effect t with None => acts | Some a => upsert String.eqb a (name_of (d_acts D) a) acts end.

  Lemma ga_step_ok : forall t gs acts, In t (transitions D) ->
    ga_step ms (Some (gs, acts)) (tr_entry t) = Some (ga_g gs t, ga_a acts t).
  Proof.
    intros t gs acts Ht. destruct (wf_trans_refs t Ht) as (_ & _ & Hg & Ha).
    unfold ga_step, tr_entry, ga_g, ga_a. cbn [snd parsed pt_guard pt_act].
    destruct (t_guard t) as [g|].
    - destruct (guard_lookup g (Hg g eq_refl)) as [v [Hv1 Hv2]]. rewrite Hv1, Hv2.
      destruct (t_effect t) as [a|].
      + destruct (act_lookup a (Ha a eq_refl)) as [w [Hw1 Hw2]]. rewrite Hw1, Hw2. reflexivity.
      + reflexivity.
    - destruct (t_effect t) as [a|].
      + destruct (act_lookup a (Ha a eq_refl)) as [w [Hw1 Hw2]]. rewrite Hw1, Hw2. reflexivity.
      + reflexivity.
  Qed.

  Definition gs_ok (l : list dtrans) (gs : list (string * string)) : Prop :=
    forall t g, In t l -> t_guard t = Some g -> lookup String.eqb g gs = Some (guard_text (d_guards D) g).
  Definition acts_ok (l : list dtrans) (acts : list (string * string)) : Prop :=
    forall t a, In t l -> t_effect t = Some a -> lookup String.eqb a acts = Some (name_of (d_acts D) a).

  Lemma ga_fold : forall l, (forall t, In t l -> In t (transitions D)) ->
    exists gs acts, fold_left (ga_step ms) (map tr_entry l) (Some ([], [])) = Some (gs, acts)
                    /\ gs_ok l gs /\ acts_ok l acts.
  Proof.
    induction l as [|t l IH] using rev_ind; intros Hl.
    - exists [], []. split; [reflexivity|]. split; intros t g [].
    - destruct IH as [gs [acts [Hf [Hg Ha]]]].
      { intros t' Ht'. apply Hl. apply in_or_app. left. exact Ht'. }
      exists (ga_g gs t), (ga_a acts t). split; [|split].
      + rewrite map_app, fold_left_app, Hf. cbn [map fold_left]. apply ga_step_ok.
        apply Hl. apply in_or_app. right. left. reflexivity.
      + intros t' g Ht' Hgt. unfold ga_g. apply in_app_or in Ht'. destruct Ht' as [Ht'|[Ht'|[]]].
        * pose proof (Hg t' g Ht' Hgt) as Hlk. destruct (t_guard t) as [g0|]; [|exact Hlk].
          rewrite lookup_upsert. destruct (String.eqb g g0) eqn:E; [|exact Hlk].
          apply String.eqb_eq in E. subst. reflexivity.
        * subst t'. rewrite Hgt. rewrite lookup_upsert, String.eqb_refl. reflexivity.
      + intros t' a Ht' Hat. unfold ga_a. apply in_app_or in Ht'. destruct Ht' as [Ht'|[Ht'|[]]].
        * pose proof (Ha t' a Ht' Hat) as Hlk. destruct (t_effect t) as [a0|]; [|exact Hlk].
          rewrite lookup_upsert. destruct (String.eqb a a0) eqn:E; [|exact Hlk].
          apply String.eqb_eq in E. subst. reflexivity.
        * subst t'. rewrite Hat. rewrite lookup_upsert, String.eqb_refl. reflexivity.
  Qed.

  (* ---------------------------------------------------------------- (T3) GetTransitionTable: generic part *)

  Definition grp (K : list string) (rows : list row) : list (string * list row) :=
    map (fun s => (s, filter (fun r => String.eqb (src r) s) rows)) K.
  Definition add_key (K : list string) (s : string) : list string :=
    if existsb (String.eqb s) K then K else (K ++ [s])%list.

  Lemma grp_keys : forall K rows, map fst (grp K rows) = K.
  Proof. intros K rows. unfold grp. rewrite map_map. cbn [fst]. apply map_id. Qed.

  Lemma lookup_grp : forall K rows s,
    lookup String.eqb s (grp K rows)
    = if existsb (String.eqb s) K then Some (filter (fun r => String.eqb (src r) s) rows) else None.
  Proof.
    induction K as [|k K IH]; intros rows s.
    - reflexivity.
    - cbn [grp map lookup existsb]. destruct (String.eqb s k) eqn:E.
      + apply String.eqb_eq in E. subst. reflexivity.
      + cbn [orb]. apply IH.
  Qed.

  Lemma upsert_same : forall (V : Type) k (v : V) d, lookup String.eqb k d = Some v -> upsert String.eqb k v d = d.
  Proof.
    intros V k v. induction d as [|[k0 v0] r IH]; intros H.
    - discriminate.
    - cbn [lookup upsert] in *. destruct (String.eqb k k0).
      + inversion H. reflexivity.
      + rewrite IH; auto.
  Qed.

  Lemma grp_snoc_key : forall K rows s, grp (K ++ [s]) rows = (grp K rows ++ [(s, filter (fun r => String.eqb (src r) s) rows)])%list.
  Proof. intros. unfold grp. rewrite map_app. reflexivity. Qed.

  Lemma filter_none : forall (A : Type) (f : A -> bool) l, (forall x, In x l -> f x = false) -> filter f l = [].
  Proof.
    intros A f. induction l as [|a l IH]; intros H.
    - reflexivity.
    - cbn [filter]. rewrite (H a) by (left; reflexivity). apply IH. intros x Hx. apply H. right. exact Hx.
  Qed.

  Definition rows_in (K : list string) (rows : list row) : Prop := forall r, In r rows -> In (src r) K.

  (* o1 of the second loop: the key is there afterwards, with its rows so far (none when it is new) *)
  Lemma ensure_key : forall K rows s, rows_in K rows ->
    (if mem String.eqb s (grp K rows) then grp K rows else upsert String.eqb s [] (grp K rows)) = grp (add_key K s) rows.
  Proof.
    intros K rows s Hin. unfold mem, add_key. rewrite lookup_grp.
    destruct (existsb (String.eqb s) K) eqn:E.
    - reflexivity.
    - apply existsb_eqb_nIn in E. rewrite upsert_fresh by (rewrite grp_keys; exact E).
      rewrite grp_snoc_key. f_equal. f_equal. f_equal. symmetry. apply filter_none.
      intros r Hr. apply String.eqb_neq. intro Heq. apply E. rewrite <- Heq. apply Hin. exact Hr.
  Qed.

  Lemma upsert_grp_nil : forall K s, upsert String.eqb s [] (grp K []) = grp (add_key K s) [].
  Proof.
    intros K s. rewrite <- (ensure_key K [] s) by (intros r []).
    unfold mem. rewrite lookup_grp. destruct (existsb (String.eqb s) K) eqn:E.
    - apply upsert_same. rewrite lookup_grp, E. reflexivity.
    - reflexivity.
  Qed.

  Lemma grp_snoc_notin : forall K rows r, ~ In (src r) K -> grp K (rows ++ [r]) = grp K rows.
  Proof.
    intros K rows r Hn. unfold grp. apply map_ext_in. intros s Hs. f_equal.
    rewrite filter_app. cbn [filter]. destruct (String.eqb (src r) s) eqn:E.
    - apply String.eqb_eq in E. subst. contradiction.
    - apply app_nil_r.
  Qed.

  Lemma upsert_grp_app : forall K rows r s, NoDup K -> In s K -> src r = s ->
    upsert String.eqb s (filter (fun r => String.eqb (src r) s) rows ++ [r])%list (grp K rows) = grp K (rows ++ [r]).
  Proof.
    induction K as [|k K IH]; intros rows r s Hnd Hin Hs.
    - destruct Hin.
    - inversion Hnd as [|k' K' Hk HK]. subst k' K'.
      cbn [grp map upsert]. destruct (String.eqb s k) eqn:E.
      + apply String.eqb_eq in E. subst k. f_equal.
        * f_equal. rewrite filter_app. cbn [filter]. rewrite Hs, String.eqb_refl. reflexivity.
        * symmetry. apply grp_snoc_notin. rewrite Hs. exact Hk.
      + f_equal.
        * f_equal. rewrite filter_app. cbn [filter]. rewrite Hs, E. symmetry. apply app_nil_r.
        * apply IH; auto. destruct Hin as [Hin|Hin]; auto. subst. rewrite String.eqb_refl in E. discriminate.
  Qed.

  Lemma flat_map_grp : forall K rows,
    flat_map snd (grp K rows) = flat_map (fun s => filter (fun r => String.eqb (src r) s) rows) K.
  Proof. induction K as [|k K IH]; intros rows; cbn [grp map flat_map snd]; [reflexivity|]. f_equal. apply IH. Qed.

  Lemma add_key_dedup : forall l K seen,
    (forall x, existsb (String.eqb x) seen = existsb (String.eqb x) K) ->
    fold_left add_key l K = (K ++ dedup seen l)%list.
  Proof.
    induction l as [|x l IH]; intros K seen H.
    - cbn. symmetry. apply app_nil_r.
    - cbn [fold_left dedup]. unfold add_key at 2. rewrite H.
      destruct (existsb (String.eqb x) K) eqn:E.
      + apply IH. exact H.
      + rewrite (IH (K ++ [x])%list (x :: seen)).
        * rewrite <- app_assoc. reflexivity.
        * intros y. cbn [existsb]. rewrite existsb_app. cbn [existsb]. rewrite H.
          destruct (String.eqb y x); destruct (existsb (String.eqb y) K); reflexivity.
  Qed.

  Lemma nodup_snoc : forall (K : list string) s, NoDup K -> ~ In s K -> NoDup (K ++ [s])%list.
  Proof.
    induction K as [|k K IH]; intros s H Hn.
    - cbn. constructor; [intros []|constructor].
    - inversion H as [|k' K' Hk HK]. subst. cbn [app]. constructor.
      + intro Hin. apply in_app_or in Hin. destruct Hin as [Hin|[Hin|[]]]; [contradiction|].
        subst. apply Hn. left. reflexivity.
      + apply IH; auto. intro Hin. apply Hn. right. exact Hin.
  Qed.

  Lemma add_key_nodup : forall K s, NoDup K -> NoDup (add_key K s).
  Proof.
    intros K s H. unfold add_key. destruct (existsb (String.eqb s) K) eqn:E; auto.
    apply existsb_eqb_nIn in E. apply nodup_snoc; auto.
  Qed.

  Lemma add_key_in : forall K s, In s (add_key K s).
  Proof.
    intros K s. unfold add_key. destruct (existsb (String.eqb s) K) eqn:E.
    - apply existsb_eqb_In. exact E.
    - apply in_or_app. right. left. reflexivity.
  Qed.

  Lemma add_key_incl : forall K s x, In x K -> In x (add_key K s).
  Proof.
    intros K s x H. unfold add_key. destruct (existsb (String.eqb s) K); auto. apply in_or_app. left. exact H.
  Qed.

  Lemma add_key_fold_nodup : forall l K, NoDup K -> NoDup (fold_left add_key l K).
  Proof. induction l as [|x l IH]; intros K H; cbn [fold_left]; auto. apply IH. apply add_key_nodup. exact H. Qed.

  (* ---------------------------------------------------------------- (T3) names of states *)

  Lemma state_name_ok : forall ps id, In id (map p_id ps) ->
    state_name (map st_entry ps) (Some id) = Some (name_of ps id).
  Proof.
    intros ps id. unfold state_name, name_of. induction ps as [|p ps IH]; intros H.
    - destruct H.
    - cbn [map st_entry lookup find]. rewrite (String.eqb_sym id (p_id p)).
      destruct (String.eqb (p_id p) id) eqn:E.
      + reflexivity.
      + apply IH. destruct H as [H|H]; auto. subst. rewrite String.eqb_refl in E. discriminate.
  Qed.

  Lemma nodup_map_inj : forall (A : Type) (f : A -> string) l x y,
    NoDup (map f l) -> In x l -> In y l -> f x = f y -> x = y.
  Proof.
    intros A f. induction l as [|a l IH]; intros x y Hnd Hx Hy Hf.
    - destruct Hx.
    - cbn [map] in Hnd. inversion Hnd as [|k K Hk HK]. subst.
      destruct Hx as [Hx|Hx]; destruct Hy as [Hy|Hy].
      + subst. reflexivity.
      + subst. exfalso. apply Hk. rewrite Hf. apply in_map. exact Hy.
      + subst. exfalso. apply Hk. rewrite <- Hf. apply in_map. exact Hx.
      + apply IH; auto.
  Qed.

  Lemma name_of_inj : forall ps a b, NoDup (map (fun p => ostr (p_name p)) ps) ->
    In a (map p_id ps) -> In b (map p_id ps) -> name_of ps a = name_of ps b -> a = b.
  Proof.
    intros ps a b Hnd Ha Hb Hn.
    destruct (find_id_some _ p_id _ _ Ha) as [x [Hfx [Hix Hx]]].
    destruct (find_id_some _ p_id _ _ Hb) as [y [Hfy [Hiy Hy]]].
    unfold name_of in Hn. rewrite Hfx, Hfy in Hn.
    rewrite <- Hx, <- Hy. f_equal. exact (nodup_map_inj _ _ _ _ _ Hnd Hix Hiy Hn).
  Qed.

  (* ---------------------------------------------------------------- (T3) the two loops *)

  Section Loops.
    Variable p0 : pelem.
    Hypothesis Hini : inits D = [p0].
    Variables gs acts : list (string * string).
    Hypothesis Hgs : gs_ok (transitions D) gs.
    Hypothesis Hacts : acts_ok (transitions D) acts.

    Definition ST : list (string * velem) := map st_entry (states D).
    Definition to_nm (t : dtrans) : string := name_of (states D) (t_to t).
    Definition nonini (t : dtrans) : bool := negb (is_initial D t).

    Lemma is_initial_eq : forall t, is_initial D t = String.eqb (t_from t) (p_id p0).
    Proof.
      intros t. unfold is_initial. rewrite Hini. cbn [existsb]. rewrite orb_false_r. apply String.eqb_sym.
    Qed.

    Lemma init_step_ok : forall t K, In t (transitions D) ->
      tt_init_step (p_id p0) ST (Some (grp K [])) (tr_entry t)
      = Some (grp (if is_initial D t then add_key K (to_nm t) else K) []).
    Proof.
      intros t K Ht. unfold tt_init_step. cbn [tr_entry snd parsed pt_from pt_to opt_eqb].
      rewrite <- is_initial_eq. destruct (is_initial D t); [|reflexivity].
      destruct (wf_trans_refs t Ht) as (Hto & _).
      unfold ST. rewrite state_name_ok by exact Hto. rewrite upsert_grp_nil. reflexivity.
    Qed.

    Lemma init_fold : forall l K, (forall t, In t l -> In t (transitions D)) ->
      fold_left (tt_init_step (p_id p0) ST) (map tr_entry l) (Some (grp K []))
      = Some (grp (fold_left add_key (map to_nm (filter (is_initial D) l)) K) []).
    Proof.
      induction l as [|t l IH]; intros K Hl.
      - reflexivity.
      - cbn [map fold_left filter]. rewrite init_step_ok by (apply Hl; left; reflexivity).
        destruct (is_initial D t); cbn [map fold_left]; apply IH; intros t' Ht'; apply Hl; right; exact Ht'.
    Qed.

    Lemma from_in_states : forall t, In t (transitions D) -> is_initial D t = false -> In (t_from t) (map p_id (states D)).
    Proof.
      intros t Ht Hn. destruct (wf_trans_refs t Ht) as (_ & Hfrom & _).
      apply in_app_or in Hfrom. destruct Hfrom as [H|H]; [exact H|].
      rewrite Hini in H. cbn [map In] in H. destruct H as [H|[]].
      rewrite is_initial_eq in Hn. rewrite <- H, String.eqb_refl in Hn. discriminate.
    Qed.

    Lemma row_step_ok : forall t K rows, In t (transitions D) -> NoDup K -> rows_in K rows ->
      tt_row_step (p_id p0) ST gs acts (Some (grp K rows)) (tr_entry t)
      = Some (if is_initial D t then grp K rows
              else grp (add_key K (src (row_of D t))) (rows ++ [row_of D t])).
    Proof.
      intros t K rows Ht Hnd Hin. unfold tt_row_step.
      cbn [tr_entry snd parsed pt_from pt_to pt_act pt_guard pt_name opt_eqb].
      rewrite <- is_initial_eq. destruct (is_initial D t) eqn:Ei; [reflexivity|].
      destruct (wf_trans_refs t Ht) as (Hto & _).
      pose proof (from_in_states t Ht Ei) as Hfrom.
      unfold ST. rewrite (state_name_ok _ _ Hfrom). rewrite (state_name_ok _ _ Hto).
      rewrite (ensure_key K rows _ Hin).
      set (from := name_of (states D) (t_from t)).
      set (to := name_of (states D) (t_to t)).
      assert (Ha : named acts (t_effect t)
                   = Some (match t_effect t with Some a => name_of (d_acts D) a | None => "None" end)).
      { unfold named. destruct (t_effect t) as [a|] eqn:Ea; [|reflexivity]. exact (Hacts t a Ht Ea). }
      assert (Hg : named gs (t_guard t)
                   = Some (match t_guard t with Some g => guard_text (d_guards D) g | None => "None" end)).
      { unfold named. destruct (t_guard t) as [g|] eqn:Eg; [|reflexivity]. exact (Hgs t g Ht Eg). }
      rewrite Ha, Hg.
      assert (Hnext : (if String.eqb to from then none_str else to)
                      = (if String.eqb (t_to t) (t_from t) then "None" else to)).
      { destruct (String.eqb (t_to t) (t_from t)) eqn:E.
        - apply String.eqb_eq in E. unfold to, from. rewrite E, String.eqb_refl. reflexivity.
        - destruct (String.eqb to from) eqn:E2; [|reflexivity].
          apply String.eqb_eq in E2. unfold to, from in E2.
          apply (name_of_inj _ _ _ wf_nodup_names Hto Hfrom) in E2. rewrite E2, String.eqb_refl in E. discriminate. }
      rewrite Hnext.
      rewrite lookup_grp.
      assert (Hk : existsb (String.eqb from) (add_key K from) = true).
      { apply existsb_eqb_In. apply add_key_in. }
      rewrite Hk.
      rewrite upsert_grp_app.
      - reflexivity.
      - apply add_key_nodup. exact Hnd.
      - apply add_key_in.
      - reflexivity.
    Qed.

    Lemma row_fold : forall l K rows, (forall t, In t l -> In t (transitions D)) -> NoDup K -> rows_in K rows ->
      fold_left (tt_row_step (p_id p0) ST gs acts) (map tr_entry l) (Some (grp K rows))
      = Some (grp (fold_left add_key (map src (map (row_of D) (filter nonini l))) K)
                  (rows ++ map (row_of D) (filter nonini l))).
    Proof.
      induction l as [|t l IH]; intros K rows Hl Hnd Hin.
      - cbn. rewrite app_nil_r. reflexivity.
      - cbn [map fold_left filter]. rewrite row_step_ok; auto; [|apply Hl; left; reflexivity].
        replace (nonini t) with (negb (is_initial D t)) by reflexivity. destruct (is_initial D t); cbn [negb].
        + apply IH; auto. intros t' Ht'. apply Hl. right. exact Ht'.
        + rewrite IH.
          * cbn [map fold_left]. rewrite <- app_assoc. reflexivity.
          * intros t' Ht'. apply Hl. right. exact Ht'.
          * apply add_key_nodup. exact Hnd.
          * intros r Hr. apply in_app_or in Hr. destruct Hr as [Hr|[Hr|[]]].
            -- apply add_key_incl. apply Hin. exact Hr.
            -- subst r. apply add_key_in.
    Qed.

    Lemma tt_ok : forall s, sd_trans s = map tr_entry (transitions D) -> sd_states s = ST -> sd_init s = Some (pv p0) ->
      transition_table s gs acts = Some (expected_rows D).
    Proof.
      intros s H1 H2 H3. unfold transition_table. rewrite H1, H2, H3.
      change (ve_id (pv p0)) with (p_id p0).
      pose proof (init_fold (transitions D) [] (fun t H => H)) as Hf1. change (grp [] []) with (@nil (string * list row)) in Hf1 at 1.
      rewrite Hf1.
      rewrite row_fold; auto.
      - cbn [app]. rewrite flat_map_grp. rewrite <- fold_left_app.
        rewrite (add_key_dedup _ [] []) by reflexivity. cbn [app].
        match goal with |- match _ with [] => _ | _ :: _ => ?X end = _ => change X with (Some (expected_rows D)) end.
        destruct (transitions D) eqn:E.
        + cbn [map]. unfold expected_rows, drawn_rows, initial_targets. rewrite E. reflexivity.
        + cbn [map]. reflexivity.
      - apply add_key_fold_nodup. constructor.
      - intros r [].
    Qed.
  End Loops.

  Lemma load_diagram_ok : load_diagram ms (delem_rows D) = Some (expected_rows D).
  Proof.
    unfold load_diagram. pose proof load_all as HL. unfold s0 in HL. rewrite HL. clear HL.
    destruct wf_one_init as [p0 Hini].
    rewrite sF_trans.
    destruct (ga_fold (transitions D) (fun t H => H)) as [gs [acts [Hf [Hg Ha]]]].
    rewrite Hf.
    apply (tt_ok p0 Hini gs acts Hg Ha).
    - apply sF_trans.
    - apply sF_states.
    - apply sF_init. exact Hini.
  Qed.

End Table.

Lemma table_level : forall (D : diagram) (d : db) (nm : string),
  wf_diagram D = true -> hosts d D = true -> py_strip nm = d_name D -> parse_ok D ->
  extract d nm = Some (expected_rows D).
Proof.
  intros D d nm Hwf Hh Hn Hp. unfold extract. rewrite Hn. rewrite (h1_id d D Hh).
  rewrite (h2_elems d D Hh).
  apply load_diagram_ok; auto. apply h3_rows. exact Hh.
Qed.

Print Assumptions table_level.
