(* C13 bridge: what the engine writes from the WHOLE shipped TEMPLATEReceiver.cpp / TEMPLATETransmitter.cpp is the reference expansion
   of the files; the receiver's switch has exactly one case per message of the interface, in interface order, labelled with the
   message's type id as the interface prints it (0 included); the transmitter has one Transmit<Msg> with the retry loop per message. *)
From Coq Require Import String Ascii List Bool Arith NArith Lia.
From KV Require Import Lib.Str Lib.StrOps Lib.ODict Lib.ByteSeq Gen.Tags Gen.Templates Model.Engine Model.EngineSM Model.EngineDomain
                       Model.EngineDomain16 Model.Parse16 Spec.RefExpand Spec.RefExpand16 Model.ProtoRender Model.Conn Model.Proto
                       Proofs.EngineStr Proofs.EngineWhole16 Proofs.Shipped16 Proofs.ProtoProofs.
Import ListNotations.
Open Scope string_scope.
Open Scope list_scope.

Lemma rx_file16_checked : shipped16 dict0 rx_file = Some (render16 rx_file16, rx_file16).
Proof. vm_compute. reflexivity. Qed.
Lemma tx_file16_checked : shipped16 dict0 tx_file = Some (render16 tx_file16, tx_file16).
Proof. vm_compute. reflexivity. Qed.
Lemma rx_file16_opt_eq : rx_file16_opt = Some rx_file16.
Proof. vm_compute. reflexivity. Qed.
Lemma tx_file16_opt_eq : tx_file16_opt = Some tx_file16.
Proof. vm_compute. reflexivity. Qed.

Lemma rx_block : nth_error rx_file16 25 = Some (MsgBlock "        " "        " "" rx_body).
Proof. vm_compute. reflexivity. Qed.
Lemma tx_block : nth_error tx_file16 15 = Some (Block KMsg "    " "    " tx_body).
Proof. vm_compute. reflexivity. Qed.
Lemma tx_test_block : nth_error tx_file16 19 = Some (MsgBlock "        " "        " "   " tx_test_body).
Proof. vm_compute. reflexivity. Qed.

(* ---------------------------------------------------------------- the blocks, for every list of messages *)
Ltac norm_line := unfold render_line; cbn; repeat (progress (rewrite ?app_assoc_s; cbn [append])); reflexivity.

Lemma rx_block_text ids : forall msgs k,
  flat_map (fun ix => map (fun l => render_line (map (subst16 (msg_table ids (snd ix) (fst ix))) l)) rx_body) (enumerate_from k msgs)
  = map (fun n => rx_case n (idof ids n)) msgs.
Proof.
  induction msgs as [|n msgs IH]; intros k; [reflexivity|]. cbn [enumerate_from flat_map map fst snd]. rewrite (IH (S k)).
  unfold rx_body, rx_case, msg_table, proto_table. cbn [map app]. f_equal. norm_line.
Qed.

Lemma tx_block_text : forall msgs k,
  flat_map (fun ix => map (fun l => render_line (map (subst16 (proto_table (snd ix) (fst ix))) l)) tx_body) (enumerate_from k msgs)
  = flat_map tx_fn msgs.
Proof.
  induction msgs as [|n msgs IH]; intros k; [reflexivity|]. cbn [enumerate_from flat_map fst snd]. rewrite (IH (S k)). f_equal.
  unfold tx_body, tx_fn, proto_table. cbn [map].
  repeat match goal with |- cons _ _ = cons _ _ => apply f_equal2; [norm_line|] end. reflexivity.
Qed.

Lemma tx_test_text ids : forall msgs k,
  flat_map (fun ix => map (fun l => render_line (map (subst16 (msg_table ids (snd ix) (fst ix))) l)) tx_test_body) (enumerate_from k msgs)
  = map tx_test msgs.
Proof.
  induction msgs as [|n msgs IH]; intros k; [reflexivity|]. cbn [enumerate_from flat_map map fst snd]. rewrite (IH (S k)).
  unfold tx_test_body, tx_test, msg_table, proto_table. cbn [map app]. f_equal. norm_line.
Qed.

(* the ids of an interface with distinct message names *)
Lemma idof_ids : forall (i : ifc3), nodupb (names_of i) = true ->
  map (fun n => rx_case n (idof (ids_of i) n)) (names_of i) = map (fun x => rx_case (fst (fst x)) (id_text (snd (fst x)))) i.
Proof.
  assert (G : forall (i : ifc3) pre, (forall n, In n (names_of i) -> lookup String.eqb n pre = None) -> nodupb (names_of i) = true ->
            map (fun n => rx_case n (idof (pre ++ ids_of i) n)) (names_of i) = map (fun x => rx_case (fst (fst x)) (id_text (snd (fst x)))) i).
  { induction i as [|[[n id] sz] i IH]; intros pre Hpre Hn; [reflexivity|].
    cbn [names_of map fst snd nodupb] in *. fold (names_of i) in *. apply andb_prop in Hn as [Hn1 Hn2]. f_equal.
    - unfold idof, ids_of. cbn [map fst snd]. rewrite Proofs.EngineMsg.lookup_app, (Hpre n (or_introl eq_refl)). cbn [lookup]. rewrite String.eqb_refl. reflexivity.
    - specialize (IH (pre ++ [(n, id_text id)])). unfold ids_of in *. cbn [map fst snd]. rewrite <- app_assoc in IH. cbn [app] in IH. apply IH; [|exact Hn2].
      intros x Hx. rewrite Proofs.EngineMsg.lookup_app, (Hpre x (or_intror Hx)). cbn [lookup].
      destruct (String.eqb x n) eqn:E; [|reflexivity]. apply String.eqb_eq in E. subst x. apply negb_true_iff in Hn1.
      assert (T : existsb (String.eqb n) (names_of i) = true) by (apply existsb_exists; exists n; split; [exact Hx|apply String.eqb_refl]).
      rewrite T in Hn1. discriminate. }
  intros i Hn. exact (G i [] (fun _ _ => eq_refl) Hn).
Qed.

(* ---------------------------------------------------------------- the whole files *)
Section Files.
  Variables (structs protos : list string) (i : ifc3) (a : usertags).
  Notation m := (proto_model structs protos i).
  Notation e := (with_user a (elements_of_model m)).

  Theorem rx_engine : rx_wf structs protos i a = true ->
    generate_file m dict0 a rx_file = Some (rx_ref structs protos i a)
    /\ nth_error rx_file16 25 = Some (MsgBlock "        " "        " "" rx_body)
    /\ ref_item16 e (MsgBlock "        " "        " "" rx_body) = map (fun x => rx_case (fst (fst x)) (id_text (snd (fst x)))) i.
  Proof.
    intros Hw. unfold rx_wf in Hw. rewrite rx_file16_opt_eq in Hw. apply andb_prop in Hw as [Hn Hw]. split; [|split; [exact rx_block|]].
    - exact (shipped_output_user rx_file (render16 rx_file16) rx_file16 rx_file16_checked m a Hw).
    - cbn [ref_item16 el_msgids el_msgs with_user elements_of_model if_msgids if_msgs with_msgids proto_model]. unfold ref_block.
      rewrite rx_block_text. apply idof_ids. exact Hn.
  Qed.

  Theorem tx_engine : tx_wf structs protos i a = true ->
    generate_file m dict0 a tx_file = Some (tx_ref structs protos i a)
    /\ nth_error tx_file16 15 = Some (Block KMsg "    " "    " tx_body)
    /\ ref_item16 e (Block KMsg "    " "    " tx_body) = flat_map tx_fn (names_of i)
    /\ nth_error tx_file16 19 = Some (MsgBlock "        " "        " "   " tx_test_body)
    /\ ref_item16 e (MsgBlock "        " "        " "   " tx_test_body) = map tx_test (names_of i).
  Proof.
    intros Hw. unfold tx_wf in Hw. rewrite tx_file16_opt_eq in Hw. apply andb_prop in Hw as [Hn Hw].
    split; [|split; [exact tx_block|split; [|split; [exact tx_test_block|]]]].
    - exact (shipped_output_user tx_file (render16 tx_file16) tx_file16 tx_file16_checked m a Hw).
    - cbn [ref_item16 items_of el_msgs with_user elements_of_model if_msgs with_msgids proto_model table_of_kind]. unfold ref_block. apply tx_block_text.
    - cbn [ref_item16 el_msgids el_msgs with_user elements_of_model if_msgids if_msgs with_msgids proto_model]. unfold ref_block. apply tx_test_text.
  Qed.

  (* C13_delivery over the engine's output: the i-th case of the switch the engine writes is labelled with the id of the i-th message and calls
     its handler; a message with that type id reaches exactly that handler *)
  Theorem delivery_engine : rx_wf structs protos i a = true -> iface_ok (ifc_of i) = true ->
    generate_file m dict0 a rx_file = Some (rx_ref structs protos i a)
    /\ ref_item16 e (MsgBlock "        " "        " "" rx_body) = map (fun x => rx_case (fst (fst x)) (id_text (snd (fst x)))) i
    /\ forall unh msg k name id size, nth_error i k = Some (name, id, size) -> type_id msg = id ->
         nth_error (ref_item16 e (MsgBlock "        " "        " "" rx_body)) k = Some (rx_case name (id_text id))
         /\ dispatch (ifc_of i) unh msg = [Handler k (take size msg)].
  Proof.
    intros Hw Hi. destruct (rx_engine Hw) as (G & _ & R). split; [exact G|]. split; [exact R|].
    intros unh msg k name id size Hk Ht. split.
    - rewrite R. rewrite nth_error_map, Hk. reflexivity.
    - apply (dispatch_hit (ifc_of i) unh msg k id size Hi); [|exact Ht]. unfold ifc_of. rewrite nth_error_map, Hk. reflexivity.
  Qed.
End Files.
