(* C17: the FOR loop proper (innerexpand_for_loop) equals the reference ref_for, for all bodies and item lists. *)
From Coq Require Import String Ascii List Bool Arith Lia.
From KV Require Import Lib.Str Lib.StrOps Lib.ODict Gen.Tags Model.Engine Model.EngineDomain Spec.RefExpand
                       Proofs.StrProofs Proofs.EngineStr Proofs.EngineRepl Proofs.Alpha Proofs.CharClass.
Import ListNotations.
Open Scope string_scope.
Open Scope list_scope.

Definition isSome {A} (o : option A) : bool := match o with Some _ => true | None => false end.

(* what the engine's tests say about a (substituted) body line agrees with its segments *)
Definition good_line (l : uline) : Prop :=
  line_ok l = true
  /\ hasSpecificTag (render_line l) TAG_FIRST = mentions "FIRST" l
  /\ hasSpecificTag (render_line l) TAG_LAST = mentions "LAST" l
  /\ (mentions "FIRST" l && mentions "LAST" l) = false.

Lemma tag_pats : TAG_FIRST = pat "FIRST" /\ TAG_LAST = pat "LAST" /\ TAG_EACH = pat "EACH" /\ TAG_EACH_SMALL = pat "each"
                 /\ TAG_NUM = pat "NUM" /\ TAG_ALPH = pat "ALPH".
Proof. repeat split; reflexivity. Qed.

Section Loop.
  Variables (item0 itemN : string).
  Hypothesis H0 : no_lg (strip item0) = true.
  Hypothesis HN : no_lg (strip itemN) = true.

  Definition firstv (l : uline) : string := render_line (map (put "FIRST" (strip item0)) l).
  Definition lastv (l : uline) : string := render_line (map (put "LAST" (strip itemN)) l).

  Definition upd (st : forst) (L : list uline) : forst :=
    {| fs_first_done := fs_first_done st || isSome (List.find (mentions "FIRST") L);
       fs_last_done := fs_last_done st || isSome (List.find (mentions "LAST") L);
       fs_first := match List.find (mentions "FIRST") L with
                   | Some l => if fs_first_done st then fs_first st else Some (firstv l)
                   | None => fs_first st
                   end;
       fs_last := match List.find (mentions "LAST") L with
                  | Some l => if fs_last_done st then fs_last st else Some (lastv l)
                  | None => fs_last st
                  end |}.

  Definition eachv (item : string) (cnt : nat) (l : uline) : string := render_line (each_line (strip item) cnt l).

  Lemma each_chain item cnt l : line_ok l = true -> no_lg (strip item) = true ->
    replace_all TAG_ALPH (alphabet_to_string (alpha_at cnt))
      (replace_all TAG_NUM (dec cnt)
         (replace_all TAG_EACH_SMALL (camel_case_small (strip item))
            (replace_all TAG_EACH (strip item) (render_line l)))) = eachv item cnt l.
  Proof.
    intros Hl Hi. destruct tag_pats as (_ & _ & E1 & E2 & E3 & E4). rewrite E1, E2, E3, E4, alpha_letter.
    unfold eachv, each_line.
    assert (Hc : no_lg (camel_case_small (strip item)) = true).
    { destruct (strip item) as [|c s]; [reflexivity|]. cbn [camel_case_small no_lg] in *. apply andb_prop in Hi as [Hc Hs]. rewrite Hs, andb_true_r.
      unfold lower_c. destruct (is_upper c) eqn:U; [|exact Hc].
      unfold is_upper in U. apply andb_prop in U as [U1 U2]. apply Nat.leb_le in U1, U2.
      apply negb_true_iff. unfold is_lg.
      assert (N : nat_of_ascii (ascii_of_nat (nat_of_ascii c + 32)) = nat_of_ascii c + 32) by (apply nat_ascii_embedding; lia).
      destruct (Ascii.eqb (ascii_of_nat (nat_of_ascii c + 32)) LT) eqn:E; [apply Ascii.eqb_eq in E; rewrite E in N; cbn in N; lia|].
      destruct (Ascii.eqb (ascii_of_nat (nat_of_ascii c + 32)) GT) eqn:E'; [apply Ascii.eqb_eq in E'; rewrite E' in N; cbn in N; lia|]. reflexivity. }
    rewrite (replace_all_render "EACH" _ l eq_refl eq_refl Hl).
    rewrite (replace_all_render "each" _ _ eq_refl eq_refl (put_ok _ _ _ Hi Hl)).
    change (camel_case_small (strip item)) with (small_first (strip item)) in *.
    rewrite (replace_all_render "NUM" _ _ eq_refl eq_refl (put_ok _ _ _ Hc (put_ok _ _ _ Hi Hl))).
    assert (Hd : no_lg (dec cnt) = true) by (apply ident_no_lg, dec_ident).
    rewrite (replace_all_render "ALPH" _ _ eq_refl eq_refl (put_ok _ _ _ Hd (put_ok _ _ _ Hc (put_ok _ _ _ Hi Hl)))).
    reflexivity.
  Qed.

  Lemma forst_eq a b c d a' b' c' d' : a = a' -> b = b' -> c = c' -> d = d' ->
    {| fs_first_done := a; fs_last_done := b; fs_first := c; fs_last := d |}
    = {| fs_first_done := a'; fs_last_done := b'; fs_first := c'; fs_last := d' |}.
  Proof. intros; subst; reflexivity. Qed.

  Ltac upd_tac := unfold upd; cbn [List.find fs_first_done fs_last_done fs_first fs_last isSome orb];
                  repeat match goal with H : mentions _ _ = _ |- _ => rewrite H end;
                  cbn [isSome orb]; apply forst_eq;
                  repeat match goal with |- context [List.find ?f ?L] => destruct (List.find f L) end; reflexivity.

  Lemma upd_first_done ld f la l L : mentions "FIRST" l = true -> mentions "LAST" l = false ->
    upd {| fs_first_done := true; fs_last_done := ld; fs_first := f; fs_last := la |} (l :: L)
    = upd {| fs_first_done := true; fs_last_done := ld; fs_first := f; fs_last := la |} L.
  Proof. intros MF ML. upd_tac. Qed.
  Lemma upd_first_new ld f la l L : mentions "FIRST" l = true -> mentions "LAST" l = false ->
    upd {| fs_first_done := false; fs_last_done := ld; fs_first := f; fs_last := la |} (l :: L)
    = upd {| fs_first_done := true; fs_last_done := ld; fs_first := Some (firstv l); fs_last := la |} L.
  Proof. intros MF ML. upd_tac. Qed.
  Lemma upd_last_done fd f la l L : mentions "FIRST" l = false -> mentions "LAST" l = true ->
    upd {| fs_first_done := fd; fs_last_done := true; fs_first := f; fs_last := la |} (l :: L)
    = upd {| fs_first_done := fd; fs_last_done := true; fs_first := f; fs_last := la |} L.
  Proof. intros MF ML. upd_tac. Qed.
  Lemma upd_last_new fd f la l L : mentions "FIRST" l = false -> mentions "LAST" l = true ->
    upd {| fs_first_done := fd; fs_last_done := false; fs_first := f; fs_last := la |} (l :: L)
    = upd {| fs_first_done := fd; fs_last_done := true; fs_first := f; fs_last := Some (lastv l) |} L.
  Proof. intros MF ML. upd_tac. Qed.
  Lemma upd_ord st l L : mentions "FIRST" l = false -> mentions "LAST" l = false -> upd st (l :: L) = upd st L.
  Proof. intros MF ML. destruct st. upd_tac. Qed.

  (* the loop over the body lines for one item *)
  Lemma for_lines_spec item cnt : no_lg (strip item) = true -> forall L st, Forall good_line L ->
    for_lines item0 itemN item cnt (alpha_at cnt) st (map render_line L)
    = (upd st L, map (eachv item cnt) (filter ordinary L)).
  Proof.
    intros Hi. destruct tag_pats as (EF & EL & _).
    induction L as [|l L IH]; intros st HL.
    - destruct st as [fd ld f la]. cbn [map for_lines]. unfold upd. cbn [List.find isSome fs_first_done fs_last_done fs_first fs_last]. rewrite !orb_false_r. reflexivity.
    - inversion HL as [|? ? Hl HL']; subst. destruct Hl as (Hok & Hf & Hla & Hnb).
      cbn [map for_lines]. rewrite Hf, Hla. unfold ordinary. cbn [filter].
      destruct st as [fd ld f la]. cbn [fs_first_done fs_last_done fs_first fs_last].
      destruct (mentions "FIRST" l) eqn:MF; destruct (mentions "LAST" l) eqn:ML; cbn [andb negb] in *; try discriminate.
      + destruct fd; cbn [negb andb].
        * rewrite (IH _ HL'), (upd_first_done _ _ _ l L MF ML). reflexivity.
        * rewrite (IH _ HL'), (upd_first_new _ _ _ l L MF ML). rewrite EF, (replace_all_render "FIRST" _ l eq_refl eq_refl Hok). reflexivity.
      + destruct ld; cbn [negb andb].
        * rewrite (IH _ HL'), (upd_last_done _ _ _ l L MF ML). reflexivity.
        * rewrite (IH _ HL'), (upd_last_new _ _ _ l L MF ML). rewrite EL, (replace_all_render "LAST" _ l eq_refl eq_refl Hok). reflexivity.
      + rewrite (IH _ HL'), (each_chain item cnt l Hok Hi), (upd_ord _ l L MF ML). reflexivity.
  Qed.

  Lemma upd_idem st L : upd (upd st L) L = upd st L.
  Proof.
    destruct st as [fd ld f la]. unfold upd. cbn [fs_first_done fs_last_done fs_first fs_last].
    destruct (List.find (mentions "FIRST") L), (List.find (mentions "LAST") L), fd, ld; reflexivity.
  Qed.

  (* the loop over the items *)
  Lemma for_items_spec L : Forall good_line L -> forall items cnt st,
    Forall (fun it => no_lg (strip it) = true) items ->
    Engine.for_items item0 itemN cnt (alpha_at cnt) st (map render_line L) items
    = (match items with [] => st | _ => upd st L end,
       flat_map (fun ix => map (eachv (snd ix) (fst ix)) (filter ordinary L)) (enumerate_from cnt items)).
  Proof.
    intros HL. induction items as [|it items IH]; intros cnt st Hit; [reflexivity|].
    inversion Hit as [|? ? Hi Hit']; subst. cbn [Engine.for_items enumerate_from flat_map fst snd].
    rewrite (for_lines_spec it cnt Hi L st HL). rewrite <- alpha_at_S, (IH (S cnt) _ Hit').
    f_equal. destruct items; [reflexivity|apply upd_idem].
  Qed.
End Loop.

(* ---------------------------------------------------------------- lists of items *)
Lemma no_lg_allc s : no_lg s = allc (fun c => negb (is_lg c)) s.
Proof. induction s as [|c s IH]; [reflexivity|]. cbn [no_lg allc]. rewrite IH. reflexivity. Qed.

Lemma allc_split P c : forall s, allc P s = true -> Forall (fun x => allc P x = true) (split_on c s).
Proof.
  induction s as [|d s IH]; intros H; [constructor; [reflexivity|constructor]|].
  cbn [allc] in H. apply andb_prop in H as [Hd Hs]. specialize (IH Hs). cbn [split_on].
  destruct (Ascii.eqb d c); [constructor; [reflexivity|exact IH]|].
  destruct (split_on c s) as [|x xs]; [constructor; [cbn [allc]; rewrite Hd; reflexivity|constructor]|].
  inversion IH; subst. constructor; [cbn [allc]; rewrite Hd; assumption|assumption].
Qed.

Lemma allc_strip P s : allc P s = true -> allc P (strip s) = true.
Proof. intros H. unfold strip. apply allc_rstrip, allc_lstrip. exact H. Qed.

Lemma split_on_nonempty c s : split_on c s <> [].
Proof. destruct s as [|d s]; cbn [split_on]; [discriminate|]. destruct (Ascii.eqb d c); [discriminate|]. destruct (split_on c s); discriminate. Qed.

Definition engine_items (csv : string) : list string := split_on COMMA (rstrip_c COMMA (lstrip_c COMMA (strip csv))).

Lemma engine_items_no_lg csv : no_lg csv = true -> Forall (fun it => no_lg (strip it) = true) (engine_items csv).
Proof.
  intros H. rewrite no_lg_allc in H. unfold engine_items, rstrip_c, lstrip_c.
  assert (A : allc (fun c => negb (is_lg c)) (rstrip_by (Ascii.eqb COMMA) (lstrip_by (Ascii.eqb COMMA) (strip csv))) = true)
    by (apply allc_rstrip, allc_lstrip, allc_strip; exact H).
  pose proof (allc_split _ COMMA _ A) as F. revert F. apply Forall_impl. intros x Hx. rewrite no_lg_allc. apply allc_strip. exact Hx.
Qed.

Lemma last_map_strip : forall l, last (map strip l) EmptyString = strip (last l EmptyString).
Proof. induction l as [|x l IH]; [reflexivity|]. destruct l as [|y l']; [reflexivity|]. cbn [map last] in *. exact IH. Qed.

Lemma hd_map_strip l : hd EmptyString (map strip l) = strip (hd EmptyString l).
Proof. destruct l; reflexivity. Qed.

Lemma enum_map {B} (g : nat -> string -> list B) : forall l k,
  flat_map (fun ix => g (fst ix) (snd ix)) (enumerate_from k (map strip l))
  = flat_map (fun ix => g (fst ix) (strip (snd ix))) (enumerate_from k l).
Proof. induction l as [|x l IH]; intros k; [reflexivity|]. cbn [map enumerate_from flat_map fst snd]. rewrite IH. reflexivity. Qed.

Lemma render_line_cons l : exists c x, render_line l = String c x.
Proof. unfold render_line. destruct (render_body l) as [|c x]; [exists LF, EmptyString; reflexivity|exists c, (x ++ nl_str)%string; reflexivity]. Qed.

(* the engine's loop over a csv of items = the reference over the trimmed items *)
Theorem for_process_is_ref csv L : no_lg csv = true -> Forall good_line L ->
  for_process csv (map render_line L) = ref_for (map strip (engine_items csv)) L.
Proof.
  intros Hc HL. unfold for_process. fold (engine_items csv). set (E := engine_items csv).
  pose proof (engine_items_no_lg csv Hc) as HE. fold E in HE.
  change reset_alphabet with (alpha_at 0).
  rewrite (for_items_spec (hd EmptyString E) (last E EmptyString) L HL E 0 _ HE).
  assert (NE : E <> []) by (apply split_on_nonempty).
  destruct E as [|e0 r] eqn:EE; [contradiction|]. rewrite <- EE in *.
  unfold ref_for. rewrite hd_map_strip, last_map_strip.
  unfold upd. cbn [fs_first_done fs_last_done fs_first fs_last].
  f_equal; [|f_equal].
  - destruct (List.find (mentions "FIRST") L) as [l|]; [|reflexivity]. unfold firstv.
    destruct (render_line_cons (map (put "FIRST" (strip (hd EmptyString E))) l)) as (c & x & R). rewrite R. reflexivity.
  - rewrite (enum_map (fun i it => map (fun l => render_line (each_line it i l)) (filter ordinary L))). reflexivity.
  - destruct (List.find (mentions "LAST") L) as [l|]; [|reflexivity]. unfold lastv.
    destruct (render_line_cons (map (put "LAST" (strip (last E EmptyString))) l)) as (c & x & R). rewrite R. reflexivity.
Qed.

(* ---------------------------------------------------------------- a count: "_0_,_1_,...," read back as items *)
Definition cpiece (k : nat) : string := ("_" ++ dec k ++ "_")%string.

Definition cchar (c : ascii) : bool := is_digit c || Ascii.eqb c USC.         (* characters of a piece *)

Lemma cpiece_chars k : allc cchar (cpiece k) = true.
Proof.
  unfold cpiece. cbn [append allc]. rewrite allc_app. cbn [allc]. rewrite andb_true_r. cbn [cchar]. 
  replace (cchar "_"%char) with true by reflexivity. cbn [andb].
  apply (allc_impl is_digit); [intros c H; unfold cchar; rewrite H; reflexivity|apply allc_dec].
Qed.

Lemma split_on_app_sep c : forall a b, split_on c (a ++ String c b)%string = split_on c a ++ split_on c b.
Proof.
  induction a as [|d a IH]; intros b.
  - cbn [append split_on]. rewrite ascii_eqb_refl. reflexivity.
  - cbn [append split_on]. destruct (Ascii.eqb d c); rewrite IH; [reflexivity|].
    pose proof (split_on_nonempty c a) as N. destruct (split_on c a) as [|x xs]; [contradiction|]. reflexivity.
Qed.

Lemma split_on_none c s : no_char c s = true -> split_on c s = [s].
Proof.
  induction s as [|d s IH]; [reflexivity|]. cbn [no_char]. intros H. apply andb_prop in H as [Hd Hs]. apply negb_true_iff in Hd.
  cbn [split_on]. rewrite Hd, (IH Hs). reflexivity.
Qed.

Lemma lstrip_by_id f s : allc (fun c => negb (f c)) s = true -> lstrip_by f s = s.
Proof. destruct s as [|c s]; [reflexivity|]. cbn [allc lstrip_by]. intros H. apply andb_prop in H as [Hc _]. apply negb_true_iff in Hc. rewrite Hc. reflexivity. Qed.

Lemma rstrip_by_id f : forall s, allc (fun c => negb (f c)) s = true -> rstrip_by f s = s.
Proof.
  induction s as [|c s IH]; [reflexivity|]. cbn [allc rstrip_by]. intros H. apply andb_prop in H as [Hc Hs]. apply negb_true_iff in Hc.
  rewrite (IH Hs). destruct s; [rewrite Hc; reflexivity|reflexivity].
Qed.

Lemma strip_id s : allc (fun c => negb (is_ws c)) s = true -> strip s = s.
Proof. intros H. unfold strip. rewrite (lstrip_by_id is_ws s H). apply rstrip_by_id. exact H. Qed.

Lemma cchar_not_ws c : cchar c = true -> negb (is_ws c) = true.
Proof.
  unfold cchar. intros H. apply orb_prop in H as [H|H].
  - unfold is_digit in H. apply andb_prop in H as [H1 H2]. apply Nat.leb_le in H1, H2. unfold is_ws. apply negb_true_iff.
    destruct (9 <=? nat_of_ascii c)%nat eqn:A; destruct (nat_of_ascii c <=? 13)%nat eqn:B; destruct (28 <=? nat_of_ascii c)%nat eqn:C;
      destruct (nat_of_ascii c <=? 32)%nat eqn:D; try reflexivity;
      repeat match goal with K : (_ <=? _)%nat = true |- _ => apply Nat.leb_le in K end; lia.
  - apply Ascii.eqb_eq in H. subst c. reflexivity.
Qed.

Lemma cpiece_strip k : strip (cpiece k) = cpiece k.
Proof. apply strip_id. apply (allc_impl cchar); [exact cchar_not_ws|apply cpiece_chars]. Qed.

Lemma cpiece_no_comma k : no_char COMMA (cpiece k) = true.
Proof. apply (allc_no_char cchar); [reflexivity|apply cpiece_chars]. Qed.

(* the count without its final comma *)
Fixpoint cbody (n : nat) : string :=
  match n with
  | O => EmptyString
  | S O => cpiece 0
  | S (S k as m) => (cbody m ++ String COMMA (cpiece m))%string
  end.

Lemma count_csv_cbody : forall k, count_csv (S k) = (cbody (S k) ++ String COMMA EmptyString)%string.
Proof.
  induction k as [|k IH].
  - cbn [count_csv cbody]. unfold cpiece. cbn [append]. rewrite !app_assoc_s. reflexivity.
  - change (count_csv (S (S k))) with (count_csv (S k) ++ "_" ++ dec (S k) ++ "_" ++ ",")%string. rewrite IH.
    change (cbody (S (S k))) with (cbody (S k) ++ String COMMA (cpiece (S k)))%string. unfold cpiece.
    rewrite !app_assoc_s. cbn [append]. rewrite !app_assoc_s. reflexivity.
Qed.

Lemma split_cbody : forall k, split_on COMMA (cbody (S k)) = count_items (S k).
Proof.
  induction k as [|k IH].
  - cbn [cbody count_items app]. apply split_on_none. apply cpiece_no_comma.
  - change (cbody (S (S k))) with (cbody (S k) ++ String COMMA (cpiece (S k)))%string.
    rewrite split_on_app_sep, IH, (split_on_none _ _ (cpiece_no_comma (S k))). reflexivity.
Qed.

Definition ccsv (c : ascii) : bool := cchar c || Ascii.eqb c COMMA.

Lemma cbody_chars : forall k, allc ccsv (cbody (S k)) = true.
Proof.
  induction k as [|k IH].
  - cbn [cbody]. apply (allc_impl cchar); [intros c H; unfold ccsv; rewrite H; reflexivity|apply cpiece_chars].
  - change (cbody (S (S k))) with (cbody (S k) ++ String COMMA (cpiece (S k)))%string. rewrite allc_app, IH. cbn [allc andb].
    replace (ccsv COMMA) with true by reflexivity. cbn [andb].
    apply (allc_impl cchar); [intros c H; unfold ccsv; rewrite H; reflexivity|apply cpiece_chars].
Qed.

Lemma cbody_head k : exists r, cbody (S k) = String USC r.
Proof. induction k as [|k [r E]]; [eexists; reflexivity|]. change (cbody (S (S k))) with (cbody (S k) ++ String COMMA (cpiece (S k)))%string. rewrite E. eexists. reflexivity. Qed.

Lemma rstrip_comma_end : forall s, (exists a, s = (a ++ "_")%string) -> rstrip_by (Ascii.eqb COMMA) (s ++ String COMMA EmptyString)%string = s.
Proof.
  induction s as [|c s IH]; intros [a E].
  - destruct a; discriminate.
  - cbn [append rstrip_by]. destruct s as [|d s'].
    + destruct a as [|x a']; cbn in E; [inversion E; reflexivity|inversion E as [[E1 E2]]; destruct a'; discriminate].
    + rewrite IH; [reflexivity|]. destruct a as [|x a']; [discriminate|]. cbn in E. inversion E. exists a'. assumption.
Qed.

Lemma cbody_tail k : exists a, cbody (S k) = (a ++ "_")%string.
Proof.
  destruct k as [|k].
  - exists ("_" ++ dec 0)%string. reflexivity.
  - exists (cbody (S k) ++ String COMMA ("_" ++ dec (S k)))%string.
    change (cbody (S (S k))) with (cbody (S k) ++ String COMMA (cpiece (S k)))%string. unfold cpiece.
    rewrite app_assoc_s. cbn [append]. rewrite ?app_assoc_s. reflexivity.
Qed.

Lemma ccsv_not_ws c : ccsv c = true -> negb (is_ws c) = true.
Proof. unfold ccsv. intros H. apply orb_prop in H as [H|H]; [apply cchar_not_ws; exact H|apply Ascii.eqb_eq in H; subst c; reflexivity]. Qed.

Lemma count_engine_items k : engine_items (count_csv (S k)) = count_items (S k).
Proof.
  unfold engine_items. rewrite count_csv_cbody.
  assert (A : allc ccsv (cbody (S k) ++ String COMMA EmptyString) = true).
  { rewrite allc_app, cbody_chars. reflexivity. }
  rewrite (strip_id _ (allc_impl _ _ _ ccsv_not_ws A)).
  assert (Ls : lstrip_c COMMA (cbody (S k) ++ String COMMA EmptyString)%string = (cbody (S k) ++ String COMMA EmptyString)%string).
  { destruct (cbody_head k) as [r E]. rewrite E. reflexivity. }
  rewrite Ls.
  unfold rstrip_c. rewrite (rstrip_comma_end _ (cbody_tail k)). apply split_cbody.
Qed.

Lemma count_items_strip : forall n, map strip (count_items n) = count_items n.
Proof.
  induction n as [|n IH]; [reflexivity|]. cbn [count_items]. rewrite map_app, IH. cbn [map]. fold (cpiece n). rewrite cpiece_strip. reflexivity.
Qed.

Lemma count_csv_no_lg k : no_lg (count_csv (S k)) = true.
Proof.
  rewrite count_csv_cbody, no_lg_allc.
  apply (allc_impl ccsv); [|rewrite allc_app, cbody_chars; reflexivity].
  intros c H. apply negb_true_iff. unfold is_lg. unfold ccsv, cchar in H.
  destruct (Ascii.eqb c LT) eqn:E1; [apply Ascii.eqb_eq in E1; subst c; discriminate|].
  destruct (Ascii.eqb c GT) eqn:E2; [apply Ascii.eqb_eq in E2; subst c; discriminate|]. reflexivity.
Qed.

(* ---------------------------------------------------------------- C17_for *)
Theorem for_loop_is_ref v L items :
  no_lg v = true -> Forall good_line L -> RefExpand.for_items v = Some items -> items <> [] ->
  innerexpand_for_loop (map render_line L) (Some v) = Some (ref_for items L).
Proof.
  intros Hv HL Hi Hne. unfold RefExpand.for_items in Hi. unfold innerexpand_for_loop.
  change (chr 44) with COMMA in Hi.
  destruct (has_char COMMA v) eqn:C.
  - destruct (isnumeric (strip v)) eqn:N; [discriminate|]. inversion Hi. subst items. cbn [andb negb].
    rewrite (for_process_is_ref v L Hv HL). reflexivity.
  - destruct (isnumeric (strip v)) eqn:N; [|discriminate]. inversion Hi. subst items. cbn [andb negb].
    destruct (undec (strip v)) as [|k] eqn:U; [contradiction Hne; reflexivity|].
    rewrite (for_process_is_ref _ L (count_csv_no_lg k) HL), count_engine_items, count_items_strip. reflexivity.
Qed.
