(* C17: the phases around the user-tag phase (load, expand, FOR, write) on templates of the grammar, and the whole pipeline. *)
From Coq Require Import String Ascii List Bool Arith Lia.
From KV Require Import Lib.Str Lib.StrOps Lib.ODict Gen.Tags Gen.Pipeline Model.Engine Model.EngineSM Model.EngineDomain
                       Spec.RefExpand Proofs.StrProofs Proofs.EngineStr Proofs.EngineRepl Proofs.EngineC17 Proofs.EngineFor.
Import ListNotations.
Open Scope string_scope.
Open Scope list_scope.

(* ---------------------------------------------------------------- load *)
Lemma first_filter_tags_nonempty : forallb (fun t => negb (String.eqb t "")) first_filter_tags = true.
Proof. vm_compute. reflexivity. Qed.

Lemma fold_replace_id : forall (dict : list (string * string)) l,
  (forall tv, In tv dict -> fst tv <> "" /\ contains (fst tv) l = false) ->
  fold_left (fun acc tv => replace_all (fst tv) (snd tv) acc) dict l = l.
Proof.
  induction dict as [|tv dict IH]; intros l H; [reflexivity|].
  cbn [fold_left]. destruct (H tv (or_introl eq_refl)) as [H1 H2].
  rewrite (replace_all_nomatch _ _ _ H1 H2). apply IH. intros x Hx. apply H. right. assumption.
Qed.

Lemma process_line_id dict l : dict_ok dict = true -> load_inert l = true -> process_line dict l = [l].
Proof.
  intros Hd Hl. unfold load_inert in Hl. apply andb_prop in Hl as [Hl Hc]. apply andb_prop in Hl as [_ Hf].
  unfold process_line. rewrite fold_replace_id.
  - apply Nat.leb_le in Hc. destruct (1 <? count_char LF l)%nat eqn:E; [apply Nat.ltb_lt in E; lia|reflexivity].
  - intros tv Hin. unfold dict_ok in Hd. rewrite forallb_forall in Hd. specialize (Hd tv Hin).
    apply existsb_exists in Hd as (k & Hk & Ek). apply String.eqb_eq in Ek. rewrite Ek.
    rewrite forallb_forall in Hf. pose proof first_filter_tags_nonempty as N. rewrite forallb_forall in N.
    split.
    + specialize (N k Hk). apply negb_true_iff in N. intros E0. rewrite E0 in N. discriminate.
    + specialize (Hf k Hk). apply negb_true_iff in Hf. assumption.
Qed.

Lemma load_file_id dict ls :
  dict_ok dict = true -> forallb load_inert ls = true -> list_eqb (filter_multiple_newlines ls) ls = true ->
  load_file dict ls = Some ls.
Proof.
  intros Hd Hl Hf. unfold load_file.
  assert (E : existsb (fun l => hasSpecificTag l TAG_EXTENDS || hasSpecificTag l TAG_EXCLUDE) ls = false).
  { clear Hf. induction ls as [|l ls IH]; [reflexivity|]. cbn [forallb] in Hl. apply andb_prop in Hl as [H1 H2].
    cbn [existsb]. rewrite (IH H2), orb_false_r. unfold load_inert in H1.
    repeat (apply andb_prop in H1 as [H1 ?K]). apply negb_true_iff in H1, K1. rewrite H1, K1. reflexivity. }
  rewrite E.
  assert (F : flat_map (process_line dict) ls = ls).
  { clear Hf E. induction ls as [|l ls IH]; [reflexivity|]. cbn [forallb] in Hl. apply andb_prop in Hl as [H1 H2].
    cbn [flat_map]. rewrite (process_line_id dict l Hd H1), (IH H2). reflexivity. }
  rewrite F. f_equal. apply list_eqb_eq. assumption.
Qed.

(* ---------------------------------------------------------------- expand: every stage is the identity on inert lines *)
Section PairId.
  Variables (bt et : string) (f : list string -> option string -> option (list string)).
  Lemma pair_go_id : forall ls p,
    (forall l, In l ls -> hasSpecificTag l bt = false /\ hasSpecificTag l et = false) ->
    pair_go bt et f false [] p ls = Some ls.
  Proof.
    induction ls as [|l ls IH]; intros p H; [reflexivity|].
    destruct (H l (or_introl eq_refl)) as [Hb He].
    cbn [pair_go]. rewrite Hb, He. cbn [orb andb negb].
    rewrite IH by (intros x Hx; apply H; right; assumption). reflexivity.
  Qed.
End PairId.

Definition stage_total (m : smodel) (st : stage) : bool :=
  let '(kind, b, e, inner, coll) := st in
  if String.eqb kind "Init" then true else if String.eqb kind "Single" then true
  else if String.eqb kind "Pair" then match inner_of m inner coll with Some _ => true | None => false end
  else false.

Lemma init_tags_nonempty : forallb (fun tv => negb (String.eqb (fst tv) "")) init_state_tags = true.
Proof. vm_compute. reflexivity. Qed.

Lemma filterInitialState_id m ls :
  (forall l, In l ls -> forallb (fun tv => negb (contains (fst tv) l)) init_state_tags = true) ->
  filterInitialState m ls = ls.
Proof.
  intros H. unfold filterInitialState. induction ls as [|l ls IH]; [reflexivity|].
  cbn [map]. rewrite IH by (intros x Hx; apply H; right; assumption). f_equal.
  specialize (H l (or_introl eq_refl)). pose proof init_tags_nonempty as N.
  revert H N. generalize init_state_tags. intros tags. revert l.
  induction tags as [|tv tags IHt]; intros l H N; [reflexivity|].
  cbn [forallb] in H, N. apply andb_prop in H as [H1 H2]. apply andb_prop in N as [N1 N2].
  cbn [fold_left]. apply negb_true_iff in H1, N1.
  rewrite replace_all_nomatch; [apply IHt; assumption| |assumption].
  intros E0. rewrite E0 in N1. discriminate.
Qed.

Lemma apply_stage_id m st ls :
  stage_total m st = true -> (forall l, In l ls -> stage_inert l st = true) ->
  apply_stage m (Some ls) st = Some ls.
Proof.
  destruct st as [[[[kind b] e] inner] coll]. unfold stage_total, apply_stage, stage_inert. intros T H.
  destruct (String.eqb kind "Init").
  - f_equal. apply filterInitialState_id. assumption.
  - destruct (String.eqb kind "Single").
    + assert (E : existsb (fun l => hasSpecificTag l b) ls = false).
      { induction ls as [|l ls IH]; [reflexivity|]. cbn [existsb].
        rewrite IH by (intros x Hx; apply H; right; assumption).
        specialize (H l (or_introl eq_refl)). apply negb_true_iff in H. rewrite H. reflexivity. }
      rewrite E. destruct (single_of m inner coll) as [f|]; [|reflexivity]. f_equal. unfold single_expand.
      clear -E. induction ls as [|l ls IH]; [reflexivity|]. cbn [existsb] in E. apply orb_false_elim in E as [E1 E2].
      cbn [flat_map]. rewrite E1, (IH E2). reflexivity.
    + destruct (String.eqb kind "Pair"); [|discriminate].
      destruct (inner_of m inner coll) as [f|]; [|discriminate].
      apply pair_go_id. intros l Hl. specialize (H l Hl). apply andb_prop in H as [H1 H2].
      apply negb_true_iff in H1, H2. split; assumption.
Qed.

Lemma stages_total m : forallb (stage_total m) (second_stages ++ second_stages_iface) = true.
Proof. reflexivity. Qed.

Lemma second_filter_id m ls : forallb expand_inert ls = true -> second_filter m ls = Some ls.
Proof.
  intros H. unfold second_filter. pose proof (stages_total m) as T.
  assert (I : forall st, In st (second_stages ++ second_stages_iface) -> forall l, In l ls -> stage_inert l st = true).
  { intros st Hst l Hl. rewrite forallb_forall in H. specialize (H l Hl). unfold expand_inert in H.
    rewrite forallb_forall in H. apply H. assumption. }
  revert T I. generalize (second_stages ++ second_stages_iface). intros stages.
  induction stages as [|st stages IH]; intros T I; [reflexivity|].
  cbn [forallb] in T. apply andb_prop in T as [T1 T2]. cbn [fold_left].
  rewrite (apply_stage_id m st ls T1 (I st (or_introl eq_refl))).
  apply IH; [assumption|]. intros s Hs. apply I. right. assumption.
Qed.

(* ---------------------------------------------------------------- the FOR phase on the output of the user-tag phase *)
Section ForPhase.
  Variables (a : assign) (dflts : usertags).
  Notation PG := (pair_go TAG_FOR_BEGIN TAG_FOR_END innerexpand_for_loop).

  Lemma for_plain_parts l : for_plain l = true -> hasSpecificTag l TAG_FOR_BEGIN = false /\ hasSpecificTag l TAG_FOR_END = false.
  Proof. unfold for_plain. intros H. apply andb_prop in H as [H1 H2]. apply negb_true_iff in H1, H2. tauto. Qed.

  Lemma pg_plains : forall ls r p, forallb for_plain ls = true ->
    PG false [] p (ls ++ r) = option_map (app ls) (PG false [] p r).
  Proof.
    induction ls as [|l ls IH]; intros r p H.
    - cbn [app]. destruct (PG false [] p r); reflexivity.
    - cbn [forallb] in H. apply andb_prop in H as [H1 H2]. destruct (for_plain_parts l H1) as [Hb He].
      cbn [app pair_go]. rewrite Hb, He. cbn [orb andb negb]. rewrite (IH r p H2).
      destruct (PG false [] p r); reflexivity.
  Qed.

  Lemma pg_snip : forall ls snip p r, forallb for_plain ls = true ->
    PG true snip p (ls ++ r) = PG true (snip ++ ls) p r.
  Proof.
    induction ls as [|l ls IH]; intros snip p r H.
    - cbn [app]. rewrite app_nil_r. reflexivity.
    - cbn [forallb] in H. apply andb_prop in H as [H1 H2]. destruct (for_plain_parts l H1) as [Hb He].
      cbn [app pair_go]. rewrite Hb, He. cbn [orb andb negb]. rewrite (IH _ p r H2).
      rewrite <- app_assoc. cbn [app].
      destruct (PG true (snip ++ l :: ls) p r); reflexivity.
  Qed.

  Lemma for_end_facts : hasSpecificTag render_for_end TAG_FOR_BEGIN = false /\ hasSpecificTag render_for_end TAG_FOR_END = true.
  Proof. vm_compute. auto. Qed.

  (* substituting user tags keeps a line inside the segment syntax, and cannot create a FIRST / LAST tag *)
  Hypothesis Ha : assign_ok a = true.

  Lemma subst_line_ok l : line_ok l = true -> line_ok (subst a l) = true.
  Proof.
    unfold assign_ok in Ha. apply andb_prop in Ha as [Hv _].
    induction l as [|g l IH]; [reflexivity|]. cbn [line_ok forallb subst map]. intros H. apply andb_prop in H as [Hg Hl].
    fold (line_ok l) in Hl. fold (subst a l). fold (line_ok (subst a l)). rewrite (IH Hl), andb_true_r.
    destruct g as [s|n d]; [exact Hg|]. cbn [subst_seg]. unfold value_of.
    destruct (lookup String.eqb n a) as [v|] eqn:E.
    - cbn [seg_ok]. clear -Hv E. induction a as [|[k x] a' IHa]; [discriminate|]. cbn [forallb lookup snd] in *.
      apply andb_prop in Hv as [H1 H2]. destruct (String.eqb n k); [inversion E; subst; exact (no_lg_lit_ok _ H1)|exact (IHa H2 E)].
    - destruct d as [d|]; cbn [seg_ok] in *; [apply andb_prop in Hg as [_ Hd]; exact (no_lg_lit_ok _ Hd)|exact Hg].
  Qed.

  Lemma mentions_subst n l : mentions n (subst a l) = true -> mentions n l = true.
  Proof.
    unfold mentions. induction l as [|g l IH]; [discriminate|]. cbn [subst map existsb]. intros H. apply orb_prop in H as [H|H].
    - destruct g as [s|m d]; [discriminate|]. cbn [subst_seg] in H. destruct (value_of a m); [discriminate|].
      destruct d; [discriminate|]. cbn [is_named] in *. rewrite H. reflexivity.
    - rewrite (IH H). apply orb_true_r.
  Qed.

  Lemma pg_for h body r p :
    item_ok (For h body) = true -> item_wf a dflts (For h body) = true ->
    PG false [] p (ut_item a (For h body) ++ r)
    = match ref_item a (For h body) with
      | Some out => option_map (app out) (PG false [] (Some (hdr_value a h)) r)
      | None => None
      end.
  Proof.
    intros Hok W. cbn [item_wf] in W. repeat (apply andb_prop in W as [W ?Wx]).
    apply negb_true_iff in Wx3, Wx6. apply String.eqb_eq in Wx1.
    cbn [item_ok] in Hok. apply andb_prop in Hok as [Hok Hnb]. apply andb_prop in Hok as [_ Hpl].
    set (v := hdr_value a h) in *.
    assert (Hbody : forallb for_plain (map (ref_line a) body) = true).
    { clear -Wx. induction body as [|l body IH]; [reflexivity|]. cbn [forallb map] in *.
      apply andb_prop in Wx as [H1 H2]. rewrite (IH H2), andb_true_r.
      unfold body_line_wf in H1. apply andb_prop in H1 as [H1 _]. apply andb_prop in H1 as [H1 _]. assumption. }
    assert (Good : Forall good_line (map (subst a) body)).
    { clear -Wx Hnb Hpl Ha. induction body as [|l body IH]; [constructor|]. cbn [forallb map] in *.
      apply andb_prop in Wx as [W1 W2]. apply andb_prop in Hnb as [N1 N2]. apply andb_prop in Hpl as [P1 P2].
      constructor; [|exact (IH P2 N2 W2)].
      unfold body_line_wf in W1. apply andb_prop in W1 as [W1 WL]. apply andb_prop in W1 as [_ WF].
      apply Bool.eqb_prop in WF, WL. unfold plain_line_ok in P1. apply andb_prop in P1 as [P1 _]. apply andb_prop in P1 as [P1 _].
      repeat split; [apply subst_line_ok; exact P1|exact WF|exact WL|].
      apply negb_true_iff in N1. destruct (mentions "FIRST" (subst a l)) eqn:MF; [|reflexivity].
      destruct (mentions "LAST" (subst a l)) eqn:ML; [|reflexivity].
      rewrite (mentions_subst _ _ MF), (mentions_subst _ _ ML) in N1. discriminate. }
    cbn [ut_item ref_item]. fold v. cbn [app pair_go]. rewrite Wx4, Wx3, Wx2, Wx1. cbn [orb andb negb app].
    rewrite <- app_assoc. rewrite (pg_snip _ [] _ _ Hbody). cbn [app pair_go].
    destruct for_end_facts as [Fb Fe]. rewrite Fb, Fe. cbn [orb andb negb app].
    destruct (for_items v) as [[|i items]|] eqn:EI; try discriminate.
    assert (EO : innerexpand_for_loop (map (ref_line a) body) (Some v) = Some (ref_for (i :: items) (map (subst a) body))).
    { replace (map (ref_line a) body) with (map render_line (map (subst a) body)) by (rewrite map_map; reflexivity).
      apply for_loop_is_ref; [exact W|exact Good|exact EI|discriminate]. }
    assert (Ev : match v with EmptyString => None | String _ _ => Some v end = Some v).
    { destruct v; [discriminate|reflexivity]. }
    rewrite Ev, EO. cbn [option_map].
    destruct (PG false [] (Some v) r); reflexivity.
  Qed.

  Lemma forallb_app' {A} (f : A -> bool) x y : forallb f (x ++ y) = forallb f x && forallb f y.
  Proof. induction x; cbn [app forallb]; [reflexivity|]. rewrite IHx. apply andb_assoc. Qed.

  Lemma map_plain : forall ls, forallb (line_wf a) ls = true -> forallb for_plain (map (ref_line a) ls) = true.
  Proof. induction ls as [|l ls IH]; [reflexivity|]. cbn [forallb map]. intros H. apply andb_prop in H as [H1 H2].
         unfold line_wf in H1. rewrite H1, (IH H2). reflexivity. Qed.

  Lemma cond_plain brs els :
    forallb (fun br => forallb (line_wf a) (snd br)) brs = true ->
    match els with Some ls => forallb (line_wf a) ls | None => true end = true ->
    forallb for_plain (ref_cond a brs els) = true.
  Proof.
    intros Hb He. unfold ref_cond. rewrite forallb_app'. apply andb_true_intro. split.
    - clear He. induction brs as [|b brs IH]; [reflexivity|]. cbn [forallb flat_map] in *.
      apply andb_prop in Hb as [H1 H2]. rewrite forallb_app', (IH H2), andb_true_r.
      destruct (assigned a (fst b)); [apply map_plain; assumption|reflexivity].
    - destruct (existsb _ brs); [reflexivity|]. destruct els as [ls|]; [apply map_plain; assumption|reflexivity].
  Qed.

  Lemma pg_items : forall t p, forallb item_ok t = true -> forallb (item_wf a dflts) t = true ->
    PG false [] p (flat_map (ut_item a) t) = ref_lines a t.
  Proof.
    induction t as [|it t IH]; intros p Hk W; [reflexivity|].
    cbn [forallb] in W, Hk. apply andb_prop in W as [Wi W]. apply andb_prop in Hk as [Hi Hk]. cbn [flat_map ref_lines].
    destruct it as [l|b elifs els|h body].
    - cbn [ut_item ref_item item_wf] in *. rewrite (pg_plains [ref_line a l] _ p); [|cbn [forallb]; unfold line_wf in Wi; rewrite Wi; reflexivity].
      rewrite (IH p Hk W). destruct (ref_lines a t); reflexivity.
    - cbn [ut_item ref_item]. cbn [item_wf] in Wi. apply andb_prop in Wi as [Wb We].
      rewrite (pg_plains _ _ p (cond_plain _ _ Wb We)). rewrite (IH p Hk W). destruct (ref_lines a t); reflexivity.
    - rewrite (pg_for h body _ p Hi Wi). destruct (ref_item a (For h body)); [|reflexivity].
      rewrite (IH _ Hk W). destruct (ref_lines a t); reflexivity.
  Qed.

  Lemma do_for_ok t : forallb item_ok t = true -> forallb (item_wf a dflts) t = true -> do_for_lines (flat_map (ut_item a) t) = ref_lines a t.
  Proof. intros Hk W. exact (pg_items t None Hk W). Qed.
End ForPhase.

(* ---------------------------------------------------------------- the whole pipeline *)
Lemma const_inert : common_inert render_else = true /\ common_inert render_endif = true /\ common_inert render_for_end = true.
Proof. vm_compute. auto. Qed.

Lemma render_inert_lines : forall t, forallb item_ok t = true ->
  forallb (fun l => load_inert l && expand_inert l) (render t) = true.
Proof.
  destruct const_inert as (Celse & Cendif & Cforend). unfold common_inert in *.
  assert (PL : forall ls, forallb plain_line_ok ls = true -> forallb (fun l => load_inert l && expand_inert l) (map render_line ls) = true).
  { induction ls as [|l ls IH]; [reflexivity|]. cbn [forallb map]. intros H. apply andb_prop in H as [H1 H2].
    rewrite (IH H2), andb_true_r. unfold plain_line_ok in H1. apply andb_prop in H1 as [H1 _]. apply andb_prop in H1 as [_ H1]. exact H1. }
  assert (BR1 : forall kw chk b, branch_ok kw chk b = true ->
               forallb (fun l => load_inert l && expand_inert l) (render_branch kw b) = true).
  { intros kw chk b H1. unfold branch_ok in H1. apply andb_prop in H1 as [H1 Hb]. apply andb_prop in H1 as [H1 _].
    unfold render_branch. cbn [forallb]. unfold common_inert in H1. rewrite H1, (PL _ Hb). reflexivity. }
  assert (BR : forall kw chk brs, forallb (branch_ok kw chk) brs = true ->
               forallb (fun l => load_inert l && expand_inert l) (flat_map (render_branch kw) brs) = true).
  { intros kw chk. induction brs as [|b brs IH]; [reflexivity|]. cbn [forallb flat_map]. intros H. apply andb_prop in H as [H1 H2].
    rewrite forallb_app', (IH H2), (BR1 _ _ _ H1). reflexivity. }
  induction t as [|it t IH]; intros H; [reflexivity|].
  cbn [forallb] in H. apply andb_prop in H as [Hi H]. unfold render. cbn [flat_map]. fold (render t).
  rewrite forallb_app', (IH H), andb_true_r.
  destruct it as [l|b elifs els|h body]; cbn [item_ok render_item] in *.
  - apply (PL [l]). cbn [forallb]. rewrite Hi. reflexivity.
  - apply andb_prop in Hi as [Hi He]. apply andb_prop in Hi as [Hb Helifs].
    rewrite !forallb_app'. rewrite (BR1 _ _ _ Hb), (BR _ _ elifs Helifs). cbn [forallb andb]. rewrite Cendif, andb_true_r.
    destruct els as [ls|]; [|reflexivity]. cbn [forallb]. rewrite Celse. apply PL. assumption.
  - repeat (apply andb_prop in Hi as [Hi ?Hx]). cbn [forallb]. unfold common_inert in Hx2. rewrite Hx2. cbn [andb].
    rewrite forallb_app', (PL _ Hx0). cbn [forallb andb]. rewrite Cforend. reflexivity.
Qed.

Lemma phases_eq : generate_phases = ["model"; "events_from_structs"; "load"; "expand"; "usertags"; "for"; "preserve"; "write"; "copy"; "return"]%string.
Proof. vm_compute. reflexivity. Qed.

Section Phases.
  Variables (m : smodel) (dict : list (string * string)) (a : usertags) (cm : cmodel).
  Lemma phase_skip ph : In ph ["model"; "events_from_structs"; "preserve"; "copy"; "return"]%string -> phase m dict a (Some cm) ph = Some cm.
  Proof. intros H. cbn [In] in H. repeat (destruct H as [H|H]; [subst ph; reflexivity|]). contradiction. Qed.
  Lemma phase_load : phase m dict a (Some cm) "load" = map_files (load_file dict) cm.   Proof. reflexivity. Qed.
  Lemma phase_expand : phase m dict a (Some cm) "expand" = map_files (second_filter m) cm.   Proof. reflexivity. Qed.
  Lemma phase_usertags : phase m dict a (Some cm) "usertags" = Some (do_user_tags a cm).   Proof. reflexivity. Qed.
  Lemma phase_for : phase m dict a (Some cm) "for" = map_files do_for_lines cm.   Proof. reflexivity. Qed.
  Lemma phase_write : phase m dict a (Some cm) "write" = map_files (fun ls => Some (map tab4 ls)) cm.   Proof. reflexivity. Qed.
  Lemma phase_none ph : phase m dict a None ph = None.   Proof. reflexivity. Qed.
End Phases.

Theorem engine17_is_ref m dict (a : assign) t :
  dict_ok dict = true -> in_grammar17 t = true -> wf_assign17 t a = true ->
  engine17 m dict a t = ref17 a t.
Proof.
  intros Hd G W. unfold in_grammar17 in G. apply andb_prop in G as [G Hfmn]. apply andb_prop in G as [_ Hitems].
  unfold wf_assign17 in W. apply andb_prop in W as [Wa Wi]. pose proof Wa as Wa0. unfold assign_ok in Wa. apply andb_prop in Wa as [_ Hfe].
  apply negb_true_iff in Hfe.
  pose proof (render_inert_lines t Hitems) as I.
  assert (I1 : forallb load_inert (render t) = true /\ forallb expand_inert (render t) = true).
  { revert I. generalize (render t). induction l as [|x l IH]; [auto|]. cbn [forallb]. intros H. apply andb_prop in H as [H1 H2].
    apply andb_prop in H1 as [H1 H1']. destruct (IH H2) as [A B]. rewrite H1, H1', A, B. auto. }
  destruct I1 as [IL IE].
  unfold engine17, generate_file, generate. rewrite phases_eq. cbn [fold_left].
  rewrite !phase_skip by (cbn [In]; tauto).
  rewrite phase_load. cbn [map_files]. rewrite (load_file_id dict _ Hd IL Hfmn).
  rewrite phase_expand. cbn [map_files]. rewrite (second_filter_id m _ IE).
  rewrite phase_usertags. unfold do_user_tags. cbn [map fst snd].
  unfold do_user_tags_file. rewrite (scan_template a _ t Hitems Wi Hfe).
  rewrite phase_for. cbn [map_files]. rewrite (do_for_ok a _ Wa0 t Hitems Wi). unfold ref17.
  destruct (ref_lines a t) as [ls|]; [|reflexivity].
  rewrite !phase_skip by (cbn [In]; tauto). rewrite phase_write. cbn [map_files].
  rewrite !phase_skip by (cbn [In]; tauto). reflexivity.
Qed.
