(* C19 semantic read-back: explicit form of the dictionaries of structured blobs. *)
From Coq Require Import String Ascii List Bool Arith.
From KV Require Import Lib.Str Lib.ODict Model.Vpp Model.VppWriter Model.Uml Model.UmlBlob Model.UmlWriter Model.UmlSem
                       Proofs.UmlBlobDefs Proofs.UmlBlobStruct.
Import ListNotations.
Open Scope string_scope.

Fixpoint indexed (k : string) (ids : list string) (n : nat) : list (string * UmlBlob.pv) :=
  match ids with [] => [] | i :: r => (k ++ "_" ++ dec n, PStr i) :: indexed k r (S n) end.

(* the dictionary entries an item writes *)
Definition item_entries (it : witem) : list (string * UmlBlob.pv) :=
  match it with
  | IField _ k v => if String.eqb (py_strip (remove_char "," (unq v))) "" then [] else [(k, PStr (unq v))]     (* a blank value is dropped *)
  | IRefs _ k _ _ _ ids => indexed k ids 0
  | IRaw s => vstep [] (repr_body SQ (chop s))          (* free text: what Get_ValuesFromOutside makes of that one piece *)
  | _ => []
  end.
Definition entries (its : list witem) : list (string * UmlBlob.pv) := flat_map item_entries its.

Fixpoint numbered (vals : list UmlBlob.pv) (n : nat) : list (string * UmlBlob.pv) :=
  match vals with [] => [] | v :: r => ("child_" ++ dec n, v) :: numbered r (S n) end.

Definition tags_of (l : list slot) : list tag := flat_map (fun s => match s with STag t => [t] | _ => [] end) l.
Definition tag_entries (f : tag -> option witem) (t : tag) : list (string * UmlBlob.pv) :=
  match f t with Some it => item_entries it | None => [] end.
