(* C19 semantic read-back: explicit form of the dictionaries of structured blobs. *)
From Coq Require Import String Ascii List Bool Arith.
From KV Require Import Lib.Str Lib.ODict Model.Vpp Model.VppWriter Model.Uml Model.UmlBlob Model.UmlWriter Model.UmlSem
                       Proofs.UmlBlobDefs Proofs.UmlBlobStruct.
Import ListNotations.
Open Scope string_scope.

Fixpoint indexed (k : string) (ids : list string) (n : nat) : list (string * UmlBlob.pv) :=
  match ids with [] => [] | i :: r => (k ++ "_" ++ dec n, PStr i) :: indexed k r (S n) end.

(* the dictionary entries an item writes *)
Definition item_entries (it : witem) : list (string * UmlBlob.pv) :=
  match it with
  | IField _ k v => [(k, PStr (unq v))]
  | IRefs _ k _ _ _ ids => indexed k ids 0
  | _ => []
  end.
Definition entries (its : list witem) : list (string * UmlBlob.pv) := flat_map item_entries its.

Fixpoint numbered (vals : list UmlBlob.pv) (n : nat) : list (string * UmlBlob.pv) :=
  match vals with [] => [] | v :: r => ("child_" ++ dec n, v) :: numbered r (S n) end.

(* items that write what they say: no free text, no scalar property with an empty value *)
Definition item_simple (it : witem) : bool :=
  match it with
  | IField _ _ v => negb (String.eqb (py_strip (remove_char "," (unq v))) "")
  | IRaw _ | IInert _ => false
  | _ => true
  end.

Definition tags_of (l : list slot) : list tag := flat_map (fun s => match s with STag t => [t] | SNoise _ _ => [] end) l.
Definition tag_entries (f : tag -> option witem) (t : tag) : list (string * UmlBlob.pv) :=
  match f t with Some it => item_entries it | None => [] end.
