(* C10: the generated C# handlers implement the table; state classes; context declarations. *)
From Coq Require Import String Ascii List Bool Arith Lia.
From KV Require Import Lib.TableDef Model.TTable Model.CsShape Spec.TableInterp Gen.CsTmpl Model.CsSM
                       Proofs.TTableProofs Proofs.SmlProofs.
Import ListNotations.
Open Scope string_scope.

(* ------------------------------------------------------------------ closed form of one row's tokens *)
Definition cs_body (r : row) : list ctok :=
  ((match opt (r_next r) with Some _ => [TExit (r_src r)] | None => [] end) ++
   (match opt (r_act r) with Some a => [TAction a] | None => [] end) ++
   (match opt (r_next r) with Some n => [TEnter n; TSetState n] | None => [] end) ++ [TReturn])%list.

Definition cs_row_stmt (r : row) : cstmt :=
  match opt (r_guard r) with
  | Some g => CIf g (map CAtom (cs_body r))
  | None => CBlock (map CAtom (cs_body r))
  end.

Lemma cs_row_closed : forall r,
  cs_row r = ((match opt (r_guard r) with Some g => [TIf g] | None => [] end) ++ TOpen :: cs_body r ++ [TClose])%list.
Proof.
  intro r. unfold cs_row, cs_pgt, cs_body. cbn [flat_map cs_inst app].
  destruct (opt (r_guard r)); destruct (opt (r_next r)); destruct (opt (r_act r)); reflexivity.
Qed.

(* ------------------------------------------------------------------ brace parser, relationally *)
Definition is_atom (a : ctok) : bool := match a with TIf _ | TOpen | TClose => false | _ => true end.

Inductive CP : list ctok -> list cstmt -> list ctok -> Prop :=
| CP_nil : CP [] [] []
| CP_close : forall r, CP (TClose :: r) [] (TClose :: r)
| CP_block : forall r body r' ss r'', CP r body (TClose :: r') -> CP r' ss r'' -> CP (TOpen :: r) (CBlock body :: ss) r''
| CP_if : forall g r body r' ss r'', CP r body (TClose :: r') -> CP r' ss r'' -> CP (TIf g :: TOpen :: r) (CIf g body :: ss) r''
| CP_atom : forall a r ss r'', is_atom a = true -> CP r ss r'' -> CP (a :: r) (CAtom a :: ss) r''.

Lemma CP_len : forall ts ss rest, CP ts ss rest -> length rest <= length ts.
Proof. induction 1; cbn [length] in *; lia. Qed.

Lemma parse_cs_complete : forall ts ss rest, CP ts ss rest ->
  forall fuel, length ts < fuel -> parse_cs fuel ts = Some (ss, rest).
Proof.
  induction 1; intros fuel Hf; (destruct fuel as [|f]; [cbn [length] in Hf; lia|]); cbn [parse_cs].
  - reflexivity.
  - reflexivity.
  - pose proof (CP_len _ _ _ H) as L. cbn [length] in Hf, L.
    rewrite IHCP1 by lia. rewrite IHCP2 by lia. reflexivity.
  - pose proof (CP_len _ _ _ H) as L. cbn [length] in Hf, L.
    rewrite IHCP1 by lia. rewrite IHCP2 by lia. reflexivity.
  - cbn [length] in Hf. destruct a; try discriminate; rewrite IHCP by lia; reflexivity.
Qed.

Lemma CP_atoms : forall atoms rest ss r'', forallb is_atom atoms = true -> CP rest ss r'' ->
  CP (atoms ++ rest) (map CAtom atoms ++ ss) r''.
Proof.
  induction atoms as [|a atoms IH]; intros rest ss r'' Ha Hp; [exact Hp|].
  cbn [forallb] in Ha. apply andb_true_iff in Ha as [H1 H2]. cbn [map app]. apply CP_atom; auto.
Qed.

Lemma cs_body_atoms : forall r, forallb is_atom (cs_body r) = true.
Proof. intro r. unfold cs_body. destruct (opt (r_next r)); destruct (opt (r_act r)); reflexivity. Qed.

Lemma CP_row : forall r rest ss r'', CP rest ss r'' -> CP (cs_row r ++ rest) (cs_row_stmt r :: ss) r''.
Proof.
  intros r rest ss r'' Hp. rewrite cs_row_closed. unfold cs_row_stmt.
  assert (CP (cs_body r ++ TClose :: rest) (map CAtom (cs_body r)) (TClose :: rest)) as Hb.
  { rewrite <- (app_nil_r (map CAtom (cs_body r))). apply CP_atoms; [apply cs_body_atoms|constructor]. }
  destruct (opt (r_guard r)); cbn [app]; rewrite <- app_assoc; cbn [app].
  - eapply CP_if; [exact Hb|exact Hp].
  - eapply CP_block; [exact Hb|exact Hp].
Qed.

Lemma CP_rows : forall rows, CP (flat_map cs_row rows) (map cs_row_stmt rows) [].
Proof.
  induction rows as [|r rows IH]; [constructor|]. cbn [flat_map map]. apply CP_row. exact IH.
Qed.

Theorem parse_cs_handler : forall t s e, parse_braces (cs_handler t s e) = Some (map cs_row_stmt (trans_of t s e)).
Proof.
  intros. unfold parse_braces, cs_handler. rewrite (parse_cs_complete _ _ _ (CP_rows (trans_of t s e))) by lia. reflexivity.
Qed.

(* ------------------------------------------------------------------ execution *)
Lemma cseq_ext : forall r k k', (forall m, k m = k' m) -> cseq r k = cseq r k'.
Proof. intros [[b t] m] k k' H. destruct b; cbn [cseq]; [reflexivity|]. rewrite H. reflexivity. Qed.

Lemma exec_go : forall gv e body m,
  (fix go (ss : list cstmt) (m : csst) : cres :=
     match ss with [] => (false, [], m) | x :: r => cseq (exec_cstmt gv e x m) (go r) end) body m = exec_cs gv e body m.
Proof.
  induction body as [|x r IH]; intro m; [reflexivity|]. cbn [exec_cs]. apply cseq_ext. exact IH.
Qed.

Lemma exec_cs_body : forall gv e r m, c_obj m = r_src r -> c_obj m = c_enum m ->
  exec_cs gv e (map CAtom (cs_body r)) m =
  (true, fst (fire r (c_obj m) e), mkCs (snd (fire r (c_obj m) e)) (snd (fire r (c_obj m) e)) (c_n m)).
Proof.
  intros gv e r [o en n] Ho He. cbn [c_obj c_enum c_n] in *. subst. unfold cs_body, fire, act_cbs.
  destruct (opt (r_next r)); destruct (opt (r_act r)); reflexivity.
Qed.

(* guard evaluations in table order up to the first row that fires (as in the Python proof) *)
Fixpoint scan (gv : gval) (n : nat) (e : string) (rows : list row) : list cb * nat * option row :=
  match rows with
  | [] => ([], n, None)
  | r :: rest =>
      match opt (r_guard r) with
      | None => ([], n, Some r)
      | Some g => if gv n g then ([CGuard g e], S n, Some r)
                  else let '(t, n', o) := scan gv (S n) e rest in (CGuard g e :: t, n', o)
      end
  end.

Lemma step_quiet_scan : forall gv e cur rows n,
  step_rows_quiet gv n cur e rows =
  let '(t, n', o) := scan gv n e rows in
  match o with
  | Some r => ((t ++ fst (fire r cur e))%list, snd (fire r cur e), n')
  | None => (t, cur, n')
  end.
Proof.
  induction rows as [|r rows IH]; intro n; cbn [step_rows_quiet scan]; [reflexivity|].
  destruct (opt (r_guard r)) as [g|].
  - destruct (gv n g); [reflexivity|]. rewrite IH. destruct (scan gv (S n) e rows) as [[t n'] o]. destruct o; reflexivity.
  - destruct (fire r cur e). reflexivity.
Qed.

Lemma exec_cs_rows : forall gv e rows s n, (forall r, In r rows -> r_src r = s) ->
  exec_cs gv e (map cs_row_stmt rows) (mkCs s s n) =
  let '(t, n', o) := scan gv n e rows in
  match o with
  | Some r => (true, (t ++ fst (fire r s e))%list, mkCs (snd (fire r s e)) (snd (fire r s e)) n')
  | None => (false, t, mkCs s s n')
  end.
Proof.
  induction rows as [|r rows IH]; intros s n Hs; [reflexivity|].
  assert (r_src r = s) as Hr by (apply Hs; left; reflexivity).
  assert (forall r0, In r0 rows -> r_src r0 = s) as Hs' by (intros; apply Hs; right; assumption).
  cbn [map exec_cs scan]. unfold cs_row_stmt at 1. destruct (opt (r_guard r)) as [g|]; cbn [exec_cstmt c_n c_obj c_enum].
  - destruct (gv n g).
    + cbn [cseq]. rewrite exec_go, exec_cs_body by (cbn; auto). cbn [cseq app c_obj c_n]. reflexivity.
    + cbn [cseq]. rewrite IH by assumption. destruct (scan gv (S n) e rows) as [[t n'] o]. destruct o; reflexivity.
  - rewrite exec_go, exec_cs_body by (cbn; auto). cbn [cseq app c_obj c_n]. reflexivity.
Qed.

Definition cs_out (r : cres) : list cb * csst := (snd (fst r), snd r).

Theorem cs_handler_sem : forall t s e gv n,
  exists prog, parse_braces (cs_handler t s e) = Some prog /\
    cs_out (exec_cs gv e prog (mkCs s s n)) =
    let '(tr, c, n') := step_rows_quiet gv n s e (rows_for t s e) in (tr, mkCs c c n').
Proof.
  intros t s e gv n. exists (map cs_row_stmt (trans_of t s e)). split; [apply parse_cs_handler|].
  rewrite exec_cs_rows, step_quiet_scan.
  - unfold trans_of. destruct (scan gv n e (rows_for t s e)) as [[tr n'] o]. destruct o; reflexivity.
  - intros r Hr. unfold trans_of, rows_for in Hr. apply filter_In in Hr as [_ Hr].
    apply andb_true_iff in Hr as [Hr _]. apply String.eqb_eq. assumption.
Qed.

(* a pair the table does not list has no handler (the base class's empty virtual runs) and no rows *)
Theorem cs_unlisted : forall t s e, forallb row_ok t = true -> ~ In e (cs_handlers t s) -> rows_for t s e = [].
Proof.
  intros t s e Hwf Hn. unfold cs_handlers in Hn.
  destruct (rows_for t s e) as [|r l] eqn:E; [reflexivity|]. exfalso. apply Hn.
  assert (In r (rows_for t s e)) as Hin by (rewrite E; left; reflexivity).
  unfold rows_for in Hin. apply filter_In in Hin as [Hin Hc]. apply andb_true_iff in Hc as [Hs He].
  apply String.eqb_eq in He. subst e.
  unfold events_of. apply In_present_dedup.
  - apply in_map. apply filter_In. split; assumption.
  - rewrite forallb_forall in Hwf. apply (row_ok_fields r (Hwf r Hin)).
Qed.

Theorem cs_listed : forall t s e, In e (cs_handlers t s) -> rows_for t s e <> [].
Proof.
  intros t s e H. unfold cs_handlers, events_of in H. apply (proj1 (In_dedup _ _)) in H. unfold present in H.
  apply filter_In in H as [H _]. apply in_map_iff in H as (r & E & Hr). apply filter_In in Hr as [Hr Hs].
  intro Hnil. assert (In r (rows_for t s e)) as Hin.
  { unfold rows_for. apply filter_In. split; auto. rewrite Hs, E, String.eqb_refl. reflexivity. }
  rewrite Hnil in Hin. destruct Hin.
Qed.

(* every state that can be entered has its class *)
Theorem cs_state_classes : forall t s, In s (states t) -> In s (cs_classes t).
Proof.
  intros t s H. unfold cs_classes. rewrite tps_states_all. destruct (mem s (src_states t)) eqn:M.
  - apply in_or_app. left. apply mem_In. assumption.
  - apply in_or_app. right. apply filter_In. split; [assumption|]. rewrite M. reflexivity.
Qed.

Theorem cs_classes_nodup_states : forall t s, In s (cs_classes t) -> forallb row_ok t = true -> In s (states t).
Proof.
  intros t s H Hwf. unfold cs_classes in H. rewrite tps_states_all in H. apply in_app_or in H as [H|H].
  - unfold src_states in H. apply (proj1 (In_dedup _ _)) in H. unfold present in H. apply filter_In in H as [H Hn].
    apply in_map_iff in H as (r & <- & Hr). apply src_in_states; [assumption|]. apply negb_true_iff. assumption.
  - apply filter_In in H as [H _]. assumption.
Qed.
