(* C10: the generated C# handlers implement the table; state classes; context declarations. *)
From Coq Require Import String Ascii List Bool Arith Lia.
From KV Require Import Lib.TableDef Model.TTable Model.CsShape Spec.TableInterp Gen.CsTmpl Model.CsSM
                       Proofs.TTableProofs Proofs.SmlProofs.
Import ListNotations.
Open Scope string_scope.

(* ------------------------------------------------------------------ closed form of one row's tokens *)
Definition cs_body (r : row) : list ctok :=
  ((match opt (r_next r) with Some _ => [TExit (r_src r)] | None => [] end) ++
   (match opt (r_act r) with Some a => [TAction a] | None => [] end) ++
   (match opt (r_next r) with Some n => [TEnter n; TSetState n] | None => [] end) ++ [TReturn])%list.

Definition cs_row_stmt (r : row) : cstmt :=
  match opt (r_guard r) with
  | Some g => CIf g (map CAtom (cs_body r))
  | None => CBlock (map CAtom (cs_body r))
  end.

Lemma cs_row_closed : forall r,
  cs_row r = ((match opt (r_guard r) with Some g => [TIf g] | None => [] end) ++ TOpen :: cs_body r ++ [TClose])%list.
Proof.
  intro r. unfold cs_row, cs_pgt, cs_body. cbn [flat_map cs_inst app].
  destruct (opt (r_guard r)); destruct (opt (r_next r)); destruct (opt (r_act r)); reflexivity.
Qed.

(* ------------------------------------------------------------------ brace parser, relationally *)
Definition is_atom (a : ctok) : bool := match a with TIf _ | TOpen | TClose => false | _ => true end.

Inductive CP : list ctok -> list cstmt -> list ctok -> Prop :=
| CP_nil : CP [] [] []
| CP_close : forall r, CP (TClose :: r) [] (TClose :: r)
| CP_block : forall r body r' ss r'', CP r body (TClose :: r') -> CP r' ss r'' -> CP (TOpen :: r) (CBlock body :: ss) r''
| CP_if : forall g r body r' ss r'', CP r body (TClose :: r') -> CP r' ss r'' -> CP (TIf g :: TOpen :: r) (CIf g body :: ss) r''
| CP_atom : forall a r ss r'', is_atom a = true -> CP r ss r'' -> CP (a :: r) (CAtom a :: ss) r''.

Lemma CP_len : forall ts ss rest, CP ts ss rest -> length rest <= length ts.
Proof. induction 1; cbn [length] in *; lia. Qed.

Lemma parse_cs_complete : forall ts ss rest, CP ts ss rest ->
  forall fuel, length ts < fuel -> parse_cs fuel ts = Some (ss, rest).
Proof.
  induction 1; intros fuel Hf; (destruct fuel as [|f]; [cbn [length] in Hf; lia|]); cbn [parse_cs].
  - reflexivity.
  - reflexivity.
  - pose proof (CP_len _ _ _ H) as L. cbn [length] in Hf, L.
    rewrite IHCP1 by lia. rewrite IHCP2 by lia. reflexivity.
  - pose proof (CP_len _ _ _ H) as L. cbn [length] in Hf, L.
    rewrite IHCP1 by lia. rewrite IHCP2 by lia. reflexivity.
  - cbn [length] in Hf. destruct a; try discriminate; rewrite IHCP by lia; reflexivity.
Qed.

Lemma CP_atoms : forall atoms rest ss r'', forallb is_atom atoms = true -> CP rest ss r'' ->
  CP (atoms ++ rest) (map CAtom atoms ++ ss) r''.
Proof.
  induction atoms as [|a atoms IH]; intros rest ss r'' Ha Hp; [exact Hp|].
  cbn [forallb] in Ha. apply andb_true_iff in Ha as [H1 H2]. cbn [map app]. apply CP_atom; auto.
Qed.

Lemma cs_body_atoms : forall r, forallb is_atom (cs_body r) = true.
Proof. intro r. unfold cs_body. destruct (opt (r_next r)); destruct (opt (r_act r)); reflexivity. Qed.

Lemma CP_row : forall r rest ss r'', CP rest ss r'' -> CP (cs_row r ++ rest) (cs_row_stmt r :: ss) r''.
Proof.
  intros r rest ss r'' Hp. rewrite cs_row_closed. unfold cs_row_stmt.
  assert (CP (cs_body r ++ TClose :: rest) (map CAtom (cs_body r)) (TClose :: rest)) as Hb.
  { rewrite <- (app_nil_r (map CAtom (cs_body r))). apply CP_atoms; [apply cs_body_atoms|constructor]. }
  destruct (opt (r_guard r)); cbn [app]; rewrite <- app_assoc; cbn [app].
  - eapply CP_if; [exact Hb|exact Hp].
  - eapply CP_block; [exact Hb|exact Hp].
Qed.

Lemma CP_rows : forall rows, CP (flat_map cs_row rows) (map cs_row_stmt rows) [].
Proof.
  induction rows as [|r rows IH]; [constructor|]. cbn [flat_map map]. apply CP_row. exact IH.
Qed.

Theorem parse_cs_handler : forall t s e, parse_braces (cs_handler t s e) = Some (map cs_row_stmt (trans_of t s e)).
Proof.
  intros. unfold parse_braces, cs_handler. rewrite (parse_cs_complete _ _ _ (CP_rows (trans_of t s e))) by lia. reflexivity.
Qed.

(* ------------------------------------------------------------------ execution *)
Lemma cseq_ext : forall r k k', (forall m, k m = k' m) -> cseq r k = cseq r k'.
Proof. intros [[b t] m] k k' H. destruct b; cbn [cseq]; [reflexivity|]. rewrite H. reflexivity. Qed.

Lemma exec_go : forall gv e body m,
  (fix go (ss : list cstmt) (m : csst) : cres :=
     match ss with [] => (false, [], m) | x :: r => cseq (exec_cstmt gv e x m) (go r) end) body m = exec_cs gv e body m.
Proof.
  induction body as [|x r IH]; intro m; [reflexivity|]. cbn [exec_cs]. apply cseq_ext. exact IH.
Qed.

(* ---- the helper methods, as their source-derived IR (Gen/CsTmpl.v) has them NOW: these three equations are what a
   change of Enter<StateT>() / Exit<StateT>() / Reset() / the constructor breaks *)
Lemma cs_exit_ok : forall e t o en n, String.eqb o "" = false ->
  cs_exit e t (mkCs o en n true false) = (false, [CExit o e], mkCs o en n true false).
Proof.
  intros e t o en n H. unfold cs_exit, cs_exit_ir. cbn [exec_h exec_h1]. unfold hook. cbn [c_ctl c_obj andb]. rewrite H. reflexivity.
Qed.

Lemma cs_enter_ok : forall e t o en n, String.eqb t "" = false ->
  cs_enter e t (mkCs o en n true false) = (false, [CEntry t e], mkCs t en n true false).
Proof.
  intros e t o en n H. unfold cs_enter, cs_enter_ir.
  cbn [exec_h exec_h1 cseq]. unfold hook. cbn [c_ctl c_obj c_enum c_n c_err andb]. rewrite H. reflexivity.
Qed.

Lemma cs_ctor_ok : forall e first, String.eqb first "" = false ->
  cs_ctor e first (mkCs "" "" 0 false false) = (false, [CEntry first e], mkCs first first 0 true false).
Proof.
  intros e first H. unfold cs_ctor, cs_ctor_ir.
  cbn [exec_h exec_h1 c_ctl c_obj c_enum c_n c_err cseq as_call_cs].
  unfold cs_reset, cs_reset_ir. cbn [exec_h exec_h1 c_ctl c_obj c_enum c_n c_err cseq as_call_cs].
  rewrite cs_enter_ok by assumption. reflexivity.
Qed.

Lemma is_none_false_neq : forall x, is_none x = false -> String.eqb x "" = false.
Proof. intros x H. unfold is_none in H. apply orb_false_iff in H as [H _]. exact H. Qed.

Lemma exec_cs_body : forall gv e r s n, r_src r = s -> String.eqb s "" = false ->
  exec_cs gv e (map CAtom (cs_body r)) (mkCs s s n true false) =
  (true, fst (fire r s e), mkCs (snd (fire r s e)) (snd (fire r s e)) n true false).
Proof.
  intros gv e r s n Hs Hne. subst s. unfold cs_body, fire, act_cbs.
  destruct (opt (r_next r)) as [nx|] eqn:En; destruct (opt (r_act r)) as [a|];
    cbn [map app exec_cs exec_cstmt exec_ctok cseq fst snd];
    try (apply opt_some in En as [-> En]; apply is_none_false_neq in En);
    rewrite ?cs_exit_ok, ?cs_enter_ok by assumption; cbn [cseq app c_obj c_enum c_n c_ctl c_err];
    rewrite ?cs_enter_ok by assumption; cbn [cseq app c_obj c_enum c_n c_ctl c_err]; reflexivity.
Qed.

(* guard evaluations in table order up to the first row that fires (as in the Python proof) *)
Fixpoint scan (gv : gval) (n : nat) (e : string) (rows : list row) : list cb * nat * option row :=
  match rows with
  | [] => ([], n, None)
  | r :: rest =>
      match opt (r_guard r) with
      | None => ([], n, Some r)
      | Some g => if gv n g then ([CGuard g e], S n, Some r)
                  else let '(t, n', o) := scan gv (S n) e rest in (CGuard g e :: t, n', o)
      end
  end.

Lemma step_quiet_scan : forall gv e cur rows n,
  step_rows_quiet gv n cur e rows =
  let '(t, n', o) := scan gv n e rows in
  match o with
  | Some r => ((t ++ fst (fire r cur e))%list, snd (fire r cur e), n')
  | None => (t, cur, n')
  end.
Proof.
  induction rows as [|r rows IH]; intro n; cbn [step_rows_quiet scan]; [reflexivity|].
  destruct (opt (r_guard r)) as [g|].
  - destruct (gv n g); [reflexivity|]. rewrite IH. destruct (scan gv (S n) e rows) as [[t n'] o]. destruct o; reflexivity.
  - destruct (fire r cur e). reflexivity.
Qed.

Lemma exec_cs_rows : forall gv e rows s n, (forall r, In r rows -> r_src r = s) -> String.eqb s "" = false ->
  exec_cs gv e (map cs_row_stmt rows) (mkCs s s n true false) =
  let '(t, n', o) := scan gv n e rows in
  match o with
  | Some r => (true, (t ++ fst (fire r s e))%list, mkCs (snd (fire r s e)) (snd (fire r s e)) n' true false)
  | None => (false, t, mkCs s s n' true false)
  end.
Proof.
  induction rows as [|r rows IH]; intros s n Hs Hne; [reflexivity|].
  assert (r_src r = s) as Hr by (apply Hs; left; reflexivity).
  assert (forall r0, In r0 rows -> r_src r0 = s) as Hs' by (intros; apply Hs; right; assumption).
  cbn [map exec_cs scan]. unfold cs_row_stmt at 1.
  destruct (opt (r_guard r)) as [g|]; cbn [exec_cstmt c_n c_obj c_enum c_ctl c_err].
  - destruct (gv n g).
    + cbn [cseq]. rewrite exec_go, exec_cs_body by assumption. cbn [cseq app]. reflexivity.
    + cbn [cseq]. rewrite IH by assumption. destruct (scan gv (S n) e rows) as [[t n'] o]. destruct o; reflexivity.
  - rewrite exec_go, exec_cs_body by assumption. cbn [cseq app]. reflexivity.
Qed.

Definition cs_out (r : cres) : list cb * csst := (snd (fst r), snd r).

Theorem cs_handler_sem : forall t s e gv n, String.eqb s "" = false ->
  exists prog, parse_braces (cs_handler t s e) = Some prog /\
    cs_out (exec_cs gv e prog (mkCs s s n true false)) =
    let '(tr, c, n') := step_rows_quiet gv n s e (rows_for t s e) in (tr, mkCs c c n' true false).
Proof.
  intros t s e gv n Hne. exists (map cs_row_stmt (trans_of t s e)). split; [apply parse_cs_handler|].
  rewrite exec_cs_rows, step_quiet_scan.
  - unfold trans_of. destruct (scan gv n e (rows_for t s e)) as [[tr n'] o]. destruct o; reflexivity.
  - intros r Hr. unfold trans_of, rows_for in Hr. apply filter_In in Hr as [_ Hr].
    apply andb_true_iff in Hr as [Hr _]. apply String.eqb_eq. assumption.
  - assumption.
Qed.

(* a pair the table does not list has no handler (the base class's empty virtual runs) and no rows *)
Theorem cs_unlisted : forall t s e, forallb row_ok t = true -> ~ In e (cs_handlers t s) -> rows_for t s e = [].
Proof.
  intros t s e Hwf Hn. unfold cs_handlers in Hn.
  destruct (rows_for t s e) as [|r l] eqn:E; [reflexivity|]. exfalso. apply Hn.
  assert (In r (rows_for t s e)) as Hin by (rewrite E; left; reflexivity).
  unfold rows_for in Hin. apply filter_In in Hin as [Hin Hc]. apply andb_true_iff in Hc as [Hs He].
  apply String.eqb_eq in He. subst e.
  unfold events_of. apply In_present_dedup.
  - apply in_map. apply filter_In. split; assumption.
  - rewrite forallb_forall in Hwf. apply (row_ok_fields r (Hwf r Hin)).
Qed.

Theorem cs_listed : forall t s e, In e (cs_handlers t s) -> rows_for t s e <> [].
Proof.
  intros t s e H. unfold cs_handlers, events_of in H. apply (proj1 (In_dedup _ _)) in H. unfold present in H.
  apply filter_In in H as [H _]. apply in_map_iff in H as (r & E & Hr). apply filter_In in Hr as [Hr Hs].
  intro Hnil. assert (In r (rows_for t s e)) as Hin.
  { unfold rows_for. apply filter_In. split; auto. rewrite Hs, E, String.eqb_refl. reflexivity. }
  rewrite Hnil in Hin. destruct Hin.
Qed.

(* every state that can be entered has its class *)
Theorem cs_state_classes : forall t s, In s (states t) -> In s (cs_classes t).
Proof.
  intros t s H. unfold cs_classes. rewrite tps_states_all. destruct (mem s (src_states t)) eqn:M.
  - apply in_or_app. left. apply mem_In. assumption.
  - apply in_or_app. right. apply filter_In. split; [assumption|]. rewrite M. reflexivity.
Qed.

Theorem cs_classes_nodup_states : forall t s, In s (cs_classes t) -> forallb row_ok t = true -> In s (states t).
Proof.
  intros t s H Hwf. unfold cs_classes in H. rewrite tps_states_all in H. apply in_app_or in H as [H|H].
  - unfold src_states in H. apply (proj1 (In_dedup _ _)) in H. unfold present in H. apply filter_In in H as [H Hn].
    apply in_map_iff in H as (r & <- & Hr). apply src_in_states; [assumption|]. apply negb_true_iff. assumption.
  - apply filter_In in H as [H _]. assumption.
Qed.

(* ------------------------------------------------------------------ the whole machine *)
Lemma fire_state_nonempty : forall r cur e, String.eqb cur "" = false -> String.eqb (snd (fire r cur e)) "" = false.
Proof.
  intros r cur e H. unfold fire. destruct (opt (r_next r)) as [n|] eqn:E; cbn [snd]; [|assumption].
  apply opt_some in E as [-> E]. apply is_none_false_neq. assumption.
Qed.

Lemma step_quiet_state_nonempty : forall gv e cur rows n, String.eqb cur "" = false ->
  String.eqb (snd (fst (step_rows_quiet gv n cur e rows))) "" = false.
Proof.
  induction rows as [|r rows IH]; intros n H; cbn [step_rows_quiet]; [assumption|].
  destruct (opt (r_guard r)).
  - destruct (gv n s); [cbn [fst snd]; apply fire_state_nonempty; assumption|].
    specialize (IH (S n) H). destruct (step_rows_quiet gv (S n) cur e rows) as [[t c] n']. exact IH.
  - cbn [fst]. apply fire_state_nonempty. assumption.
Qed.

Lemma cs_trigger_step : forall t gv e s n, forallb row_ok t = true -> String.eqb s "" = false ->
  cs_trigger t gv e (mkCs s s n true false) =
  let '(tr, c, n') := step_rows_quiet gv n s e (rows_for t s e) in (false, tr, mkCs c c n' true false).
Proof.
  intros t gv e s n Hwf Hne. unfold cs_trigger. change cs_trigger_dispatches_synchronously with true.
  cbn [andb c_obj]. destruct (mem e (cs_handlers t s)) eqn:M.
  - destruct (cs_handler_sem t s e gv n Hne) as (prog & Hp & Hx). rewrite Hp.
    destruct (step_rows_quiet gv n s e (rows_for t s e)) as [[tr c] n'].
    destruct (exec_cs gv e prog (mkCs s s n true false)) as [[b tr'] m']. unfold cs_out in Hx. cbn [fst snd] in Hx.
    injection Hx as -> ->. reflexivity.
  - rewrite (cs_unlisted t s e Hwf); [reflexivity|]. intro H. apply mem_In in H. congruence.
Qed.

Lemma cs_run_from_interp : forall t gv evs s n, forallb row_ok t = true -> String.eqb s "" = false ->
  cs_run_from t gv (mkCs s s n true false) evs = Some (interp_from_quiet t gv n s evs).
Proof.
  induction evs as [|e evs IH]; intros s n Hwf Hne; [reflexivity|].
  cbn [cs_run_from interp_from_quiet]. rewrite cs_trigger_step by assumption.
  pose proof (step_quiet_state_nonempty gv e s (rows_for t s e) n Hne) as Hc.
  destruct (step_rows_quiet gv n s e (rows_for t s e)) as [[tr c] n']. cbn [fst snd] in Hc.
  cbn [c_err c_enum]. rewrite IH by assumption. reflexivity.
Qed.

Theorem cs_sem : forall t, wf_table t = true -> forall evs gv, run_cs t evs gv = Some (table_interp_quiet t evs gv).
Proof.
  intros t Hwf evs gv. unfold wf_table in Hwf. do 6 (apply andb_true_iff in Hwf as [Hwf _]).
  apply andb_true_iff in Hwf as [Hnil Hrows].
  destruct t as [|r t]; [discriminate|].
  assert (String.eqb (r_src r) "" = false) as Hne.
  { pose proof Hrows as H4. cbn [forallb] in H4. apply andb_true_iff in H4 as [H4 _]. apply is_none_false_neq. apply (row_ok_fields r H4). }
  unfold run_cs, table_interp_quiet. cbn [getfirststate first_state].
  rewrite cs_ctor_ok by assumption. cbn [c_err c_enum].
  rewrite cs_run_from_interp by assumption. reflexivity.
Qed.
