(* C07, USER-tag half, for the shipped file Test.TEMPLATEStateMachine.cpp: the cleaned names of its USER tags are pairwise
   distinct for EVERY element lists with names_ok, hence the generated file is a well-formed fresh file. *)
From Coq Require Import String Ascii List Bool Arith Lia.
From KV Require Import Lib.Str Lib.StrOps Lib.ODict Gen.Tags Gen.Templates Model.PreserveCore Model.Preserve Model.Engine Model.EngineSM
                       Model.EngineDomain Model.EngineDomain16 Model.EngineDomain07 Model.Parse16 Spec.RefExpand Spec.RefExpand16
                       Proofs.StrProofs Proofs.EngineStr Proofs.PreserveStr Proofs.CharClass Proofs.TagShapeProofs Proofs.EngineWhole16 Proofs.Shipped16 Proofs.Shipped07 Proofs.PreserveTop.
Import ListNotations.
Open Scope string_scope.
Open Scope list_scope.

Definition lines_cpp : list string := file_of "Test.TEMPLATEStateMachine.cpp" tmpl_cpp.
Definition t_cpp : template16 :=
  Eval vm_compute in match shipped16 dict0 lines_cpp with Some (_, t) => t | None => [] end.
Definition l0_cpp : list string :=
  Eval vm_compute in match shipped16 dict0 lines_cpp with Some (l, _) => l | None => [] end.

Lemma shipped_cpp : shipped16 dict0 lines_cpp = Some (l0_cpp, t_cpp).
Proof. vm_compute. reflexivity. Qed.

Lemma grammar07_cpp : in_grammar07 t_cpp = true.
Proof. vm_compute. reflexivity. Qed.

(* ---------------------------------------------------------------- splitting at '_' *)
Notation sp := (split_on USC).

Lemma sp_nosep x : no_char USC x = true -> sp x = [x].
Proof.
  induction x as [|c x IH]; [reflexivity|]. cbn [no_char]. intros H. apply andb_prop in H as [Hc Hx]. apply negb_true_iff in Hc.
  cbn [split_on]. rewrite Hc, (IH Hx). reflexivity.
Qed.

Lemma sp_app x r : no_char USC x = true -> sp (x ++ String USC r)%string = x :: sp r.
Proof.
  induction x as [|c x IH]; intros H.
  - cbn [append split_on]. rewrite ascii_eqb_refl. reflexivity.
  - cbn [no_char] in H. apply andb_prop in H as [Hc Hx]. apply negb_true_iff in Hc.
    cbn [append split_on]. rewrite Hc, (IH Hx). reflexivity.
Qed.

Lemma name_no_usc n : name_ok n = true -> no_char USC n = true.
Proof.
  unfold name_ok. intros H. apply andb_prop in H as [_ H]. rewrite all_alnum_allc in H.
  exact (allc_no_char CharClass.alnumc USC n eq_refl H).
Qed.

(* ---------------------------------------------------------------- the keys of the file, written out *)
Definition P : string := "{{{USER_".
Definition gkey (g : string) : string := (P ++ (g ++ ""))%string.
Definition skeys (s : string) : list string := [(P ++ (s ++ "_on_entry"))%string; (P ++ (s ++ "_on_exit"))%string].
Definition sigkey (ae : string * string) : string := (P ++ (fst ae ++ ("_" ++ (sig_event_name (snd ae) ++ ""))))%string.
Definition fixed1 : list string := ["{{{USER_HEADER_INCLUDES"].
Definition fixed2 : list string :=
  ["{{{USER_PUBLIC_MEMBERS"; "{{{USER_CConsoleX_CONSTRUCTOR"; "{{{USER_TEST_SUITE_FIXTURE_LOCALS"; "{{{USER_TEST_SUITE_FIXTURE_SETUP";
   "{{{USER_TEST_SUITE_FIXTURE_TEARDOWN"; "{{{USER_UNIT_TEST_STATES"; "{{{USER_TESTS"; "{{{USER_TEST_SUITE_TESTS"].

Definition keys_cpp (e : elements) : list string :=
  fixed1 ++ flat_map (fun ix : nat * string => [gkey (snd ix)]) (enumerate_from 0 (el_guards e))
  ++ flat_map (fun ix : nat * string => skeys (snd ix)) (enumerate_from 0 (el_states e))
  ++ flat_map (fun ix : nat * (string * string) => [sigkey (snd ix)]) (enumerate_from 0 (el_sigs e))
  ++ fixed2.

Lemma keys_cpp_eq e : keys07 e t_cpp = keys_cpp e.
Proof. vm_compute. reflexivity. Qed.

(* ---------------------------------------------------------------- list toolkit *)
Definition disj (a b : list string) : Prop := forall x, In x a -> In x b -> False.

Lemma NoDup_app_intro (a b : list string) : NoDup a -> NoDup b -> disj a b -> NoDup (a ++ b).
Proof.
  induction a as [|x a IH]; intros Ha Hb Hd; [exact Hb|]. inversion Ha as [|? ? Hx Ha']; subst. cbn [app]. constructor.
  - intros Hin. apply in_app_or in Hin as [Hin|Hin]; [contradiction|]. exact (Hd x (or_introl eq_refl) Hin).
  - apply IH; [assumption|assumption|]. intros y Hy1 Hy2. exact (Hd y (or_intror Hy1) Hy2).
Qed.

Lemma disj_app_r a b c : disj a b -> disj a c -> disj a (b ++ c).
Proof. intros H1 H2 x Hx Hy. apply in_app_or in Hy as [Hy|Hy]; [exact (H1 x Hx Hy)|exact (H2 x Hx Hy)]. Qed.

Lemma disj_sym a b : disj a b -> disj b a.
Proof. intros H x Hx Hy. exact (H x Hy Hx). Qed.

Lemma flat_map_enum {A} (f : A -> list string) : forall l k,
  flat_map (fun ix : nat * A => f (snd ix)) (enumerate_from k l) = flat_map f l.
Proof. induction l as [|x l IH]; intros k; [reflexivity|]. cbn [enumerate_from flat_map snd]. rewrite IH. reflexivity. Qed.

(* ---------------------------------------------------------------- the pieces of the keys *)
Definition p1 (x : string) : string := nth 1 (sp x) EmptyString.
Definition len (x : string) : nat := List.length (sp x).

Lemma sp_gkey g : name_ok g = true -> sp (gkey g) = ["{{{USER"; g].
Proof.
  intros H. unfold gkey. rewrite app_nil_r_s. unfold P.
  change ("{{{USER_" ++ g)%string with ("{{{USER" ++ String USC g)%string.
  rewrite (sp_app "{{{USER" g eq_refl), (sp_nosep g (name_no_usc g H)). reflexivity.
Qed.

Lemma sp_skey s suf : name_ok s = true ->
  sp (P ++ (s ++ String USC suf))%string = "{{{USER" :: s :: sp suf.
Proof.
  intros H. unfold P.
  change ("{{{USER_" ++ (s ++ String USC suf))%string with ("{{{USER" ++ String USC (s ++ String USC suf))%string.
  rewrite (sp_app "{{{USER" _ eq_refl), (sp_app s suf (name_no_usc s H)). reflexivity.
Qed.

Lemma sp_sigkey a e : name_ok a = true -> name_ok e = true -> sig_event_name e = e ->
  sp (sigkey (a, e)) = ["{{{USER"; a; e].
Proof.
  intros Ha He Ee. unfold sigkey. cbn [fst snd]. rewrite Ee, app_nil_r_s.
  change ("_" ++ e)%string with (String USC e). rewrite (sp_skey a e Ha), (sp_nosep e (name_no_usc e He)). reflexivity.
Qed.

Lemma fixed_p1_forbidden x : In x (fixed1 ++ fixed2) -> In (p1 x) (forbidden t_cpp).
Proof.
  intros H. cbn [fixed1 fixed2 app In] in H.
  repeat (destruct H as [H|H]; [subst x; vm_compute; repeat (first [left; reflexivity | right])|]). contradiction.
Qed.

Lemma fixed_nodup : NoDup (fixed1 ++ fixed2).
Proof. apply nodupb_NoDup. vm_compute. reflexivity. Qed.

Section Keys.
  Variable e : elements.
  Hypothesis Hok : names_ok t_cpp e = true.

  Lemma ok_parts :
    (forall n, In n (all_names e) -> name_ok n = true)
    /\ (forall n, In n (all_names e) -> ~ In n (forbidden t_cpp))
    /\ NoDup (el_states e) /\ NoDup (el_guards e)
    /\ nodup_pairs (el_sigs e) = true
    /\ (forall ae, In ae (el_sigs e) -> sig_event_name (snd ae) = snd ae).
  Proof.
    unfold names_ok in Hok. repeat (apply andb_prop in Hok as [Hok ?K]).
    rewrite forallb_forall in Hok, K8, K. repeat split.
    - exact Hok.
    - intros n Hn Hf. specialize (K8 n Hn). apply negb_true_iff in K8.
      assert (E : existsb (String.eqb n) (forbidden t_cpp) = true) by (apply existsb_exists; exists n; split; [exact Hf|apply String.eqb_refl]).
      congruence.
    - apply nodupb_NoDup. exact K7.
    - apply nodupb_NoDup. exact K4.
    - exact K3.
    - intros ae Hae. apply String.eqb_eq. apply K. exact Hae.
  Qed.
End Keys.

Section NoDupKeys.
  Variable e : elements.
  Hypothesis Hok : names_ok t_cpp e = true.

  Let Hn := proj1 (ok_parts e Hok).
  Let Hf := proj1 (proj2 (ok_parts e Hok)).
  Let NdS := proj1 (proj2 (proj2 (ok_parts e Hok))).
  Let NdG := proj1 (proj2 (proj2 (proj2 (ok_parts e Hok)))).
  Let NdP := proj1 (proj2 (proj2 (proj2 (proj2 (ok_parts e Hok))))).
  Let Hev := proj2 (proj2 (proj2 (proj2 (proj2 (ok_parts e Hok))))).

  Lemma guard_name g : In g (el_guards e) -> In g (all_names e).
  Proof. intros H. unfold all_names. do 3 (apply in_or_app; right). apply in_or_app. left. exact H. Qed.
  Lemma state_name s : In s (el_states e) -> In s (all_names e).
  Proof. intros H. unfold all_names. apply in_or_app. left. exact H. Qed.
  Lemma sig_names ae : In ae (el_sigs e) -> In (fst ae) (all_names e) /\ In (snd ae) (all_names e).
  Proof.
    intros H. assert (I : forall n, In n [fst ae; snd ae] -> In n (all_names e)).
    { intros n Hn'. unfold all_names. do 4 (apply in_or_app; right). apply in_or_app. left. apply in_flat_map. exists ae. auto. }
    split; apply I; cbn; auto.
  Qed.

  Definition Gk : list string := map gkey (el_guards e).
  Definition Sk : list string := flat_map skeys (el_states e).
  Definition Pk : list string := map sigkey (el_sigs e).

  (* what a key of each group looks like after splitting at '_' *)
  Lemma in_Gk x : In x Gk -> exists g, In g (el_guards e) /\ sp x = ["{{{USER"; g].
  Proof. intros H. apply in_map_iff in H as (g & E & Hg). subst x. exists g. split; [exact Hg|apply sp_gkey, Hn, guard_name, Hg]. Qed.

  Lemma in_Sk x : In x Sk -> exists s, In s (el_states e) /\ (sp x = ["{{{USER"; s; "on"; "entry"] \/ sp x = ["{{{USER"; s; "on"; "exit"]).
  Proof.
    intros H. apply in_flat_map in H as (s & Hs & Hx). exists s. split; [exact Hs|].
    pose proof (Hn s (state_name s Hs)) as Ns. cbn [skeys In] in Hx. destruct Hx as [E|[E|[]]]; subst x.
    - left. change ("_on_entry") with (String USC "on_entry"). rewrite (sp_skey s "on_entry" Ns). reflexivity.
    - right. change ("_on_exit") with (String USC "on_exit"). rewrite (sp_skey s "on_exit" Ns). reflexivity.
  Qed.

  Lemma in_Pk x : In x Pk -> exists ae, In ae (el_sigs e) /\ sp x = ["{{{USER"; fst ae; snd ae].
  Proof.
    intros H. apply in_map_iff in H as (ae & E & Hae). subst x. exists ae. split; [exact Hae|].
    destruct (sig_names ae Hae) as [Na Ne]. destruct ae as [a ev]. cbn [fst snd] in *.
    apply sp_sigkey; [apply Hn, Na|apply Hn, Ne|exact (Hev (a, ev) Hae)].
  Qed.

  Definition Fx : list string := fixed1 ++ fixed2.

  Lemma fixed_vs_name x n : In x Fx -> In n (all_names e) -> p1 x = n -> False.
  Proof. intros Hx Hnm E. apply (Hf n Hnm). rewrite <- E. apply fixed_p1_forbidden. exact Hx. Qed.

  Lemma disj_F_G : disj Fx Gk.
  Proof. intros x Hx Hg. destruct (in_Gk x Hg) as (g & Hg' & E). apply (fixed_vs_name x g Hx (guard_name g Hg')). unfold p1. rewrite E. reflexivity. Qed.
  Lemma disj_F_S : disj Fx Sk.
  Proof. intros x Hx Hs. destruct (in_Sk x Hs) as (s & Hs' & [E|E]); apply (fixed_vs_name x s Hx (state_name s Hs')); unfold p1; rewrite E; reflexivity. Qed.
  Lemma disj_F_P : disj Fx Pk.
  Proof. intros x Hx Hp. destruct (in_Pk x Hp) as (ae & Hae & E). apply (fixed_vs_name x (fst ae) Hx (proj1 (sig_names ae Hae))). unfold p1. rewrite E. reflexivity. Qed.
  Lemma disj_G_S : disj Gk Sk.
  Proof. intros x Hg Hs. destruct (in_Gk x Hg) as (g & _ & E). destruct (in_Sk x Hs) as (s & _ & [E'|E']); rewrite E in E'; discriminate. Qed.
  Lemma disj_G_P : disj Gk Pk.
  Proof. intros x Hg Hp. destruct (in_Gk x Hg) as (g & _ & E). destruct (in_Pk x Hp) as (ae & _ & E'). rewrite E in E'. discriminate. Qed.
  Lemma disj_S_P : disj Sk Pk.
  Proof. intros x Hs Hp. destruct (in_Pk x Hp) as (ae & _ & E). destruct (in_Sk x Hs) as (s & _ & [E'|E']); rewrite E in E'; discriminate. Qed.

  Lemma nodup_G : NoDup Gk.
  Proof.
    unfold Gk. assert (G : forall l, (forall g, In g l -> In g (el_guards e)) -> NoDup l -> NoDup (map gkey l)).
    { induction l as [|g l IH]; intros Hs Hd; [constructor|]. inversion Hd as [|? ? Hx Hd']; subst. cbn [map]. constructor.
      - intros Hin. apply in_map_iff in Hin as (g' & E & Hg'). apply Hx.
        assert (E2 : sp (gkey g') = sp (gkey g)) by (rewrite E; reflexivity).
        rewrite !sp_gkey in E2 by (apply Hn, guard_name, Hs; [right; exact Hg'|left; reflexivity] || apply Hn, guard_name, Hs; auto using in_eq, in_cons).
        inversion E2. subst. exact Hg'.
      - apply IH; [intros y Hy; apply Hs; right; exact Hy|exact Hd']. }
    apply G; [auto|exact NdG].
  Qed.

  Lemma nodup_pairs_NoDup : forall l : list (string * string), nodup_pairs l = true -> NoDup l.
  Proof.
    induction l as [|x l IH]; [constructor|]. cbn [nodup_pairs]. intros H. apply andb_prop in H as [H1 H2]. constructor; [|exact (IH H2)].
    intros Hin. apply negb_true_iff in H1.
    assert (E : existsb (fun y => String.eqb (fst y) (fst x) && String.eqb (snd y) (snd x)) l = true).
    { apply existsb_exists. exists x. split; [exact Hin|]. rewrite !String.eqb_refl. reflexivity. }
    congruence.
  Qed.

  Lemma nodup_P : NoDup Pk.
  Proof.
    unfold Pk. assert (G : forall l, (forall ae, In ae l -> In ae (el_sigs e)) -> NoDup l -> NoDup (map sigkey l)).
    { induction l as [|ae l IH]; intros Hs Hd; [constructor|]. inversion Hd as [|? ? Hx Hd']; subst. cbn [map]. constructor.
      - intros Hin. apply in_map_iff in Hin as (ae' & E & Hae'). apply Hx.
        assert (I1 : In (sigkey ae') Pk) by (apply in_map; apply Hs; right; exact Hae').
        assert (I2 : In (sigkey ae) Pk) by (apply in_map; apply Hs; left; reflexivity).
        assert (S1 : sp (sigkey ae') = ["{{{USER"; fst ae'; snd ae']).
        { destruct (sig_names ae' (Hs ae' (or_intror Hae'))) as [Na Ne]. destruct ae' as [a ev]. cbn [fst snd] in *.
          apply sp_sigkey; [apply Hn, Na|apply Hn, Ne|exact (Hev (a, ev) (Hs _ (or_intror Hae')))]. }
        assert (S2 : sp (sigkey ae) = ["{{{USER"; fst ae; snd ae]).
        { destruct (sig_names ae (Hs ae (or_introl eq_refl))) as [Na Ne]. destruct ae as [a ev]. cbn [fst snd] in *.
          apply sp_sigkey; [apply Hn, Na|apply Hn, Ne|exact (Hev (a, ev) (Hs _ (or_introl eq_refl)))]. }
        rewrite E, S2 in S1. inversion S1. destruct ae, ae'. cbn [fst snd] in *. subst. exact Hae'.
      - apply IH; [intros y Hy; apply Hs; right; exact Hy|exact Hd']. }
    apply G; [auto|apply nodup_pairs_NoDup; exact NdP].
  Qed.

  Lemma nodup_S : NoDup Sk.
  Proof.
    unfold Sk. assert (G : forall l, (forall s, In s l -> In s (el_states e)) -> NoDup l -> NoDup (flat_map skeys l)).
    { induction l as [|s l IH]; intros Hs Hd; [constructor|]. inversion Hd as [|? ? Hx Hd']; subst. cbn [flat_map].
      pose proof (Hn s (state_name s (Hs s (or_introl eq_refl)))) as Ns.
      assert (K1 : sp (P ++ (s ++ "_on_entry"))%string = ["{{{USER"; s; "on"; "entry"]).
      { change ("_on_entry") with (String USC "on_entry"). rewrite (sp_skey s "on_entry" Ns). reflexivity. }
      assert (K2 : sp (P ++ (s ++ "_on_exit"))%string = ["{{{USER"; s; "on"; "exit"]).
      { change ("_on_exit") with (String USC "on_exit"). rewrite (sp_skey s "on_exit" Ns). reflexivity. }
      assert (Rest : forall x, In x (flat_map skeys l) -> exists s', In s' l /\ nth 1 (sp x) "" = s').
      { intros x Hx'. apply in_flat_map in Hx' as (s' & Hs' & Hk).
        assert (I : In x Sk) by (apply in_flat_map; exists s'; split; [apply Hs; right; exact Hs'|exact Hk]).
        exists s'. split; [exact Hs'|].
        pose proof (Hn s' (state_name s' (Hs s' (or_intror Hs')))) as Ns'. cbn [skeys In] in Hk. destruct Hk as [E|[E|[]]]; subst x.
        - change ("_on_entry") with (String USC "on_entry"). rewrite (sp_skey s' "on_entry" Ns'). reflexivity.
        - change ("_on_exit") with (String USC "on_exit"). rewrite (sp_skey s' "on_exit" Ns'). reflexivity. }
      unfold skeys at 1. cbn [app]. constructor; [|constructor].
      - intros [E|Hin].
        + assert (E2 : sp (P ++ (s ++ "_on_exit"))%string = sp (P ++ (s ++ "_on_entry"))%string) by (rewrite E; reflexivity).
          rewrite K1, K2 in E2. discriminate.
        + destruct (Rest _ Hin) as (s' & Hs' & E). rewrite K1 in E. cbn [nth] in E. subst s'. contradiction.
      - intros Hin. destruct (Rest _ Hin) as (s' & Hs' & E). rewrite K2 in E. cbn [nth] in E. subst s'. contradiction.
      - apply IH; [intros y Hy; apply Hs; right; exact Hy|exact Hd']. }
    apply G; [auto|exact NdS].
  Qed.

  Lemma keys_cpp_groups : keys_cpp e = fixed1 ++ Gk ++ Sk ++ Pk ++ fixed2.
  Proof.
    unfold keys_cpp, Gk, Sk, Pk. rewrite (flat_map_enum (fun g => [gkey g])), (flat_map_enum skeys), (flat_map_enum (fun ae => [sigkey ae])).
    assert (M : forall {A} (f : A -> string) l, flat_map (fun x => [f x]) l = map f l).
    { intros A f l. induction l as [|x l IH]; [reflexivity|]. cbn [flat_map map app]. rewrite IH. reflexivity. }
    rewrite !M. reflexivity.
  Qed.

  Lemma in_fixed1 x : In x fixed1 -> In x Fx.
  Proof. intros H. apply in_or_app. left. exact H. Qed.
  Lemma in_fixed2 x : In x fixed2 -> In x Fx.
  Proof. intros H. apply in_or_app. right. exact H. Qed.

  Theorem nodup_keys_cpp : NoDup (keys07 e t_cpp).
  Proof.
    rewrite keys_cpp_eq, keys_cpp_groups. pose proof fixed_nodup as NF.
    assert (D12 : disj fixed1 fixed2).
    { intros x H1 H2. clear -H1 H2. cbn [fixed1 fixed2 In] in *. destruct H1 as [H1|[]]. subst x.
      repeat (destruct H2 as [H2|H2]; [discriminate|]). contradiction. }
    assert (N1 : NoDup fixed1) by (apply nodupb_NoDup; reflexivity).
    assert (N2 : NoDup fixed2) by (apply nodupb_NoDup; vm_compute; reflexivity).
    apply NoDup_app_intro; [exact N1| |].
    - apply NoDup_app_intro; [exact nodup_G| |].
      + apply NoDup_app_intro; [exact nodup_S| |].
        * apply NoDup_app_intro; [exact nodup_P|exact N2|].
          intros x Hp H2. exact (disj_F_P x (in_fixed2 x H2) Hp).
        * apply disj_app_r; [exact disj_S_P|]. intros x Hs H2. exact (disj_F_S x (in_fixed2 x H2) Hs).
      + apply disj_app_r; [exact disj_G_S|]. apply disj_app_r; [exact disj_G_P|]. intros x Hg H2. exact (disj_F_G x (in_fixed2 x H2) Hg).
    - apply disj_app_r; [intros x H1 Hg; exact (disj_F_G x (in_fixed1 x H1) Hg)|].
      apply disj_app_r; [intros x H1 Hs; exact (disj_F_S x (in_fixed1 x H1) Hs)|].
      apply disj_app_r; [intros x H1 Hp; exact (disj_F_P x (in_fixed1 x H1) Hp)|exact D12].
  Qed.
End NoDupKeys.

(* ---------------------------------------------------------------- the theorems for Test.TEMPLATEStateMachine.cpp *)
Lemma items_ok_cpp : forallb item16_ok t_cpp = true.
Proof. vm_compute. reflexivity. Qed.

Lemma names_fine_of e : names_ok t_cpp e = true -> names_fine e.
Proof. intros H. exact (proj1 (ok_parts e H)). Qed.

(* the lines the engine produces for the file (before createoutput's TAB filter), for element lists with admissible names *)
Definition fresh_cpp (e : elements) : list string := flat_map (ref_item16 e) t_cpp.

Theorem wf_fresh_cpp e : names_ok t_cpp e = true -> wf_fresh_file (fresh_cpp e) = true.
Proof.
  intros H. apply fresh_of_template; [exact (names_fine_of e H)|exact grammar07_cpp|reflexivity|exact items_ok_cpp|exact (nodup_keys_cpp e H)].
Qed.

(* for EVERY model with admissible names and EVERY assignment of user tags: what smgen.Generate writes for the file is
   createoutput of those lines, they carry no generator tag, and they are a well-formed fresh file *)
Theorem shipped_cpp_wf_out m (a : usertags) :
  names_ok t_cpp (elements_of_model m) = true ->
  generate_file m dict0 a lines_cpp = Some (concat_lines (map tab4 (fresh_cpp (elements_of_model m))))
  /\ forallb TagShape.no_generator_tag (fresh_cpp (elements_of_model m)) = true
  /\ wf_fresh_file (fresh_cpp (elements_of_model m)) = true.
Proof.
  intros H. pose proof (names_fine_of _ H) as Hn.
  assert (G7 : inky t_cpp = true) by (vm_compute; reflexivity).
  pose proof (names_wf16 _ t_cpp Hn items_ok_cpp G7 eq_refl) as W.
  assert (NU : no_user_lines t_cpp = true) by (vm_compute; reflexivity).
  destruct (shipped_output lines_cpp l0_cpp t_cpp shipped_cpp m a NU W) as [O T].
  split; [exact O|]. split; [exact T|exact (wf_fresh_cpp _ H)].
Qed.

(* regenerating over ANY user edits of the blocks of that file is a fixed point (C01 instantiated) *)
Theorem fixed_point_cpp e path (u : string -> list string) :
  names_ok t_cpp e = true -> (forall k, block_ok (u k) = true) ->
  regen_file path (fresh_cpp e) (on_disk u (items_of (fresh_cpp e)))
  = (on_disk u (items_of (fresh_cpp e)), []).
Proof.
  intros H Hu. destruct (wf_fresh_file_inv _ (wf_fresh_cpp e H)) as (Ok & Pa & Wf).
  exact (regen_file_fixed_point path u (fresh_cpp e) _ Pa Wf Ok Hu).
Qed.
