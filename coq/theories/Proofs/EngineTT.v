(* C16: the element lists the engine's table model builds (dictionary insertion, Model/EngineSM.v: tt_model) are the
   first-appearance lists of the table (Model/TTable.v: dedup / filter). *)
From Coq Require Import String Ascii List Bool Arith Lia.
From KV Require Import Lib.Str Lib.StrOps Lib.ODict Lib.TableDef Model.TTable Model.Engine Model.EngineSM
                       Model.EngineDomain16 Spec.RefExpand Spec.RefExpand16 Proofs.EngineBlock.
Import ListNotations.
Open Scope string_scope.
Open Scope list_scope.

Definition inb (y : string) (l : list string) : bool := existsb (String.eqb y) l.
Definition adds (acc l : list string) : list string := fold_left (fun a x => add_new x a) l acc.

Lemma present_is_none x : EngineSM.present x = negb (is_none x).
Proof. unfold EngineSM.present, is_none. rewrite negb_orb, lower_same. reflexivity. Qed.

Lemma filter_drop_in x acc : inb x acc = true -> forall L,
  filter (fun y => negb (inb y acc)) (filter (fun y => negb (String.eqb y x)) L) = filter (fun y => negb (inb y acc)) L.
Proof.
  intros Hx. induction L as [|y L IH]; [reflexivity|]. cbn [filter].
  destruct (String.eqb y x) eqn:E; cbn [negb filter].
  - apply String.eqb_eq in E. subst y. rewrite Hx. cbn [negb]. exact IH.
  - destruct (negb (inb y acc)); rewrite IH; reflexivity.
Qed.

Lemma inb_app y a b : inb y (a ++ b) = inb y a || inb y b.
Proof. unfold inb. apply existsb_app. Qed.

Lemma filter_split x acc : forall L,
  filter (fun y => negb (inb y (acc ++ [x]))) L = filter (fun y => negb (inb y acc)) (filter (fun y => negb (String.eqb y x)) L).
Proof.
  induction L as [|y L IH]; [reflexivity|]. cbn [filter]. rewrite inb_app. unfold inb at 2. cbn [existsb]. rewrite orb_false_r.
  destruct (String.eqb y x) eqn:E; cbn [negb filter].
  - rewrite orb_true_r. cbn [negb]. exact IH.
  - rewrite orb_false_r. destruct (negb (inb y acc)); rewrite IH; reflexivity.
Qed.

(* inserting the elements of l into an insertion-ordered dictionary that holds acc *)
Lemma adds_dedup : forall l acc, adds acc l = acc ++ filter (fun y => negb (inb y acc)) (dedup l).
Proof.
  induction l as [|x l IH]; intros acc; [cbn; rewrite app_nil_r; reflexivity|].
  unfold adds. cbn [fold_left]. fold (adds (add_new x acc) l). rewrite IH. unfold add_new. fold (inb x acc).
  cbn [dedup filter]. destruct (inb x acc) eqn:E; cbn [negb].
  - rewrite (filter_drop_in x acc E). reflexivity.
  - rewrite <- app_assoc. cbn [app]. rewrite filter_split. reflexivity.
Qed.

Lemma filter_all {A} (L : list A) : filter (fun _ => true) L = L.
Proof. induction L as [|y L IH]; [reflexivity|]. cbn [filter]. rewrite IH. reflexivity. Qed.

Lemma adds_nil l : adds [] l = dedup l.
Proof.
  rewrite adds_dedup. cbn [app]. change (fun y => negb (inb y [])) with (fun _ : string => true). apply filter_all.
Qed.

(* ---------------------------------------------------------------- the four name lists *)
Lemma collect_adds f g : (forall r, g (row_of r) = f r) -> forall tt acc,
  fold_left (fun a r => if EngineSM.present (f r) then add_new (f r) a else a) tt acc
  = adds acc (TTable.present (map g (table_of tt))).
Proof.
  intros Hfg. induction tt as [|r tt IH]; intros acc; [reflexivity|].
  cbn [fold_left table_of map]. fold (table_of tt). unfold TTable.present. cbn [filter]. rewrite Hfg, present_is_none.
  destruct (negb (is_none (f r))).
  - unfold adds. cbn [fold_left]. apply IH.
  - apply IH.
Qed.

Theorem tt_events_first_appearance tt : tt_collect r_event tt = TTable.events (table_of tt).
Proof. unfold tt_collect, TTable.events. rewrite (collect_adds r_event r_ev (fun _ => eq_refl)). apply adds_nil. Qed.
Theorem tt_actions_first_appearance tt : tt_collect r_action tt = TTable.actions (table_of tt).
Proof. unfold tt_collect, TTable.actions. rewrite (collect_adds r_action r_act (fun _ => eq_refl)). apply adds_nil. Qed.
Theorem tt_guards_first_appearance tt : tt_collect r_guard tt = TTable.guards (table_of tt).
Proof. unfold tt_collect, TTable.guards. rewrite (collect_adds r_guard TableDef.r_guard (fun _ => eq_refl)). apply adds_nil. Qed.

Lemma states_adds : forall tt acc,
  fold_left (fun acc r => let a1 := if EngineSM.present (r_state r) then add_new (r_state r) acc else acc in
                          if EngineSM.present (EngineSM.r_next r) then add_new (EngineSM.r_next r) a1 else a1) tt acc
  = adds acc (TTable.present (flat_map (fun r => [r_src r; TableDef.r_next r]) (table_of tt))).
Proof.
  induction tt as [|r tt IH]; intros acc; [reflexivity|].
  cbn [fold_left table_of map flat_map app]. fold (table_of tt). unfold TTable.present. cbn [filter].
  cbn [row_of r_src TableDef.r_next]. rewrite !present_is_none.
  destruct (negb (is_none (r_state r))); destruct (negb (is_none (EngineSM.r_next r))); unfold adds; cbn [fold_left]; apply IH.
Qed.

Theorem tt_states_first_appearance tt : tt_states tt = TTable.states (table_of tt).
Proof. unfold tt_states, TTable.states. rewrite states_adds. apply adds_nil. Qed.

(* the events of the generator: the table's events followed by the interface's structs that are not among them *)
Lemma add_missing_adds : forall extra l, fold_left (fun acc s => add_new s acc) extra l = add_missing l extra.
Proof.
  induction extra as [|x extra IH]; intros l; [reflexivity|]. cbn [fold_left add_missing]. rewrite IH. f_equal.
  unfold add_new. replace (TTable.mem x l) with (existsb (String.eqb x) l); [reflexivity|].
  induction l as [|y l IHl]; [reflexivity|]. cbn [existsb TTable.mem]. rewrite IHl. reflexivity.
Qed.

(* ---------------------------------------------------------------- the same for any key type (used for the signature pairs) *)
Section Generic.
  Variables (A : Type) (eqb : A -> A -> bool).
  Hypothesis eqb_eq : forall x y, eqb x y = true <-> x = y.

  Fixpoint gdedup (l : list A) : list A :=
    match l with [] => [] | x :: r => x :: filter (fun y => negb (eqb y x)) (gdedup r) end.
  Definition ginb (x : A) (l : list A) : bool := existsb (fun y => eqb y x) l.
  Definition gadds (acc l : list A) : list A := fold_left (fun a x => if ginb x a then a else a ++ [x]) l acc.

  Lemma gfilter_drop_in x acc : ginb x acc = true -> forall L,
    filter (fun y => negb (ginb y acc)) (filter (fun y => negb (eqb y x)) L) = filter (fun y => negb (ginb y acc)) L.
  Proof.
    intros Hx. induction L as [|y L IH]; [reflexivity|]. cbn [filter].
    destruct (eqb y x) eqn:E; cbn [negb filter].
    - apply eqb_eq in E. subst y. rewrite Hx. cbn [negb]. exact IH.
    - destruct (negb (ginb y acc)); rewrite IH; reflexivity.
  Qed.

  Lemma eqb_sym' x y : eqb x y = eqb y x.
  Proof.
    destruct (eqb x y) eqn:E1, (eqb y x) eqn:E2; try reflexivity.
    - apply eqb_eq in E1. subst. assert (eqb y y = true) by (apply eqb_eq; reflexivity). congruence.
    - apply eqb_eq in E2. subst. assert (eqb x x = true) by (apply eqb_eq; reflexivity). congruence.
  Qed.

  Lemma gfilter_split x acc : forall L,
    filter (fun y => negb (ginb y (acc ++ [x]))) L = filter (fun y => negb (ginb y acc)) (filter (fun y => negb (eqb y x)) L).
  Proof.
    induction L as [|y L IH]; [reflexivity|]. cbn [filter]. unfold ginb at 1. rewrite existsb_app. fold (ginb y acc).
    cbn [existsb]. rewrite orb_false_r, (eqb_sym' x y).
    destruct (eqb y x) eqn:E; cbn [negb filter].
    - rewrite orb_true_r. cbn [negb]. exact IH.
    - rewrite orb_false_r. destruct (negb (ginb y acc)); rewrite IH; reflexivity.
  Qed.

  Lemma gadds_dedup : forall l acc, gadds acc l = acc ++ filter (fun y => negb (ginb y acc)) (gdedup l).
  Proof.
    induction l as [|x l IH]; intros acc; [cbn; rewrite app_nil_r; reflexivity|].
    unfold gadds. cbn [fold_left]. fold (gadds (if ginb x acc then acc else acc ++ [x]) l). rewrite IH.
    cbn [gdedup filter]. destruct (ginb x acc) eqn:E; cbn [negb].
    - rewrite (gfilter_drop_in x acc E). reflexivity.
    - rewrite <- app_assoc. cbn [app]. rewrite gfilter_split. reflexivity.
  Qed.

  Lemma gadds_nil l : gadds [] l = gdedup l.
  Proof. rewrite gadds_dedup. cbn [app]. change (fun y => negb (ginb y [])) with (fun _ : A => true). apply filter_all. Qed.
End Generic.

Lemma pair_eqb_eq : forall x y : string * string, pair_eqb x y = true <-> x = y.
Proof.
  intros [a b] [c d]. unfold pair_eqb. cbn [fst snd]. rewrite andb_true_iff, !String.eqb_eq. split; [intros [? ?]; subst; reflexivity|intros E; inversion E; auto].
Qed.

Lemma gdedup_pair l : gdedup _ pair_eqb l = dedup_pair l.
Proof. induction l as [|x l IH]; [reflexivity|]. cbn [gdedup dedup_pair]. rewrite IH. reflexivity. Qed.

Lemma sigs_adds : forall tt acc,
  map snd (fold_left (fun acc r =>
     if EngineSM.present (r_action r) then
       if sig_mem (r_action r) (r_event r) acc then acc else acc ++ [((r_action r ++ "|" ++ r_event r)%string, (r_action r, r_event r))]
     else acc) tt acc)
  = gadds _ pair_eqb (map snd acc) (map (fun r => (r_act r, r_ev r)) (filter (fun r => negb (is_none (r_act r))) (table_of tt))).
Proof.
  induction tt as [|r tt IH]; intros acc; [reflexivity|].
  cbn [fold_left table_of map filter]. fold (table_of tt). cbn [row_of r_act r_ev]. rewrite present_is_none.
  destruct (negb (is_none (r_action r))); [|apply IH].
  cbn [map]. unfold gadds. cbn [fold_left]. rewrite IH. unfold gadds. f_equal. cbn [row_of r_act r_ev].
  assert (E : sig_mem (r_action r) (r_event r) acc = ginb _ pair_eqb (r_action r, r_event r) (map snd acc)).
  { unfold sig_mem, ginb. clear. induction acc as [|[k [a0 e0]] acc IHa]; [reflexivity|]. cbn [map existsb fst snd]. rewrite IHa. reflexivity. }
  rewrite E. destruct (ginb _ pair_eqb (r_action r, r_event r) (map snd acc)); [reflexivity|].
  rewrite map_app. reflexivity.
Qed.

Theorem tt_sigs_first_appearance tt : map snd (tt_actionsigs tt) = TTable.actionsignatures (table_of tt).
Proof.
  unfold tt_actionsigs, TTable.actionsignatures. rewrite sigs_adds. cbn [map]. rewrite (gadds_nil _ pair_eqb pair_eqb_eq). apply gdedup_pair.
Qed.

(* the element lists of the engine's model are the reference's element lists of the table *)
Theorem model_elements tt structs protos msgs m :
  tt_model tt structs protos msgs = Some m -> sm_tps m = tps_of (table_of tt) ->
  elements_of_model m = elements_of (table_of tt) structs protos msgs.
Proof.
  unfold tt_model. destruct (fold_left tps_step tt (Some [])) as [tps|]; [|discriminate]. intros E Ht. inversion E. subst m. clear E.
  cbn [sm_tps] in Ht.
  unfold elements_of_model, elements_of. cbn [sm_states sm_events sm_actions sm_guards sm_actionsigs sm_tps sm_first sm_rows if_structs if_protos if_msgs].
  rewrite Ht, tt_states_first_appearance, tt_actions_first_appearance, tt_guards_first_appearance, tt_sigs_first_appearance.
  rewrite add_missing_adds, tt_events_first_appearance.
  replace (match tt with [] => "NO TT PRESENT!" | r :: _ => r_state r end) with (TTable.getfirststate (table_of tt)) by (destruct tt; reflexivity).
  unfold table_of. rewrite map_map. reflexivity.
Qed.
