(* C19, "every operation once": under once_hyp (no signature is reached through two paths) the operations emitted for a
   class have pairwise different signature keys, hence exactly one declaration and one definition each; the diamond
   (K-C19-1b: an interface reached through two realisation paths) is outside the hypothesis and is emitted twice. *)
From Coq Require Import String Ascii List Bool Arith Lia.
From KV Require Import Lib.Str Lib.ODict Model.Vpp Gen.UmlSrc Model.Uml Proofs.UmlProofs.
Import ListNotations.
Open Scope string_scope.

(* ---------------------------------------------------------------- key_eqb is Leibniz equality *)

Lemma strs_eqb_eq a : forall b, strs_eqb a b = true <-> a = b.
Proof.
  induction a as [|x a IH]; intros [|y b]; cbn [strs_eqb].
  - split; reflexivity.
  - split; discriminate.
  - split; discriminate.
  - rewrite andb_true_iff, String.eqb_eq, IH. split; [intros [-> ->]; reflexivity|intros H; inversion H; auto].
Qed.

Lemma key_eqb_eq (a b : string * list string * bool) : key_eqb a b = true <-> a = b.
Proof.
  destruct a as [[a1 a2] a3], b as [[b1 b2] b3]. unfold key_eqb. cbn [fst snd].
  rewrite !andb_true_iff, String.eqb_eq, strs_eqb_eq, Bool.eqb_true_iff.
  split; [intros [[-> ->] ->]; reflexivity|intros H; inversion H; auto].
Qed.

Lemma key_eqb_refl k : key_eqb k k = true.
Proof. apply key_eqb_eq. reflexivity. Qed.

Lemma key_eqb_sym a b : key_eqb a b = key_eqb b a.
Proof.
  destruct (key_eqb a b) eqn:E1, (key_eqb b a) eqn:E2; try reflexivity.
  - apply key_eqb_eq in E1. subst. rewrite key_eqb_refl in E2. discriminate.
  - apply key_eqb_eq in E2. subst. rewrite key_eqb_refl in E1. discriminate.
Qed.

Lemma existsb_key k l : existsb (key_eqb k) l = true <-> In k l.
Proof.
  rewrite existsb_exists. split.
  - intros (x & Hx & E). apply key_eqb_eq in E. subst. exact Hx.
  - intros H. exists k. split; [exact H|apply key_eqb_refl].
Qed.

Lemma keys_nodup_iff l : keys_nodup l = true <-> NoDup l.
Proof.
  induction l as [|k r IH]; cbn [keys_nodup].
  - split; [constructor|reflexivity].
  - rewrite andb_true_iff, negb_true_iff, IH. split.
    + intros [H1 H2]. constructor; [|exact H2]. intros Hin. apply existsb_key in Hin. congruence.
    + intros H. inversion H as [|? ? Hn Hr]; subst. split; [|exact Hr].
      destruct (existsb (key_eqb k) r) eqn:E; [|reflexivity]. apply existsb_key in E. contradiction.
Qed.

(* ---------------------------------------------------------------- lists *)

Lemma nodup_map_filter {A B} (f : A -> B) (Q : A -> bool) l : NoDup (map f l) -> NoDup (map f (filter Q l)).
Proof.
  induction l as [|a l IH]; cbn [map filter]; intros H; [constructor|].
  inversion H as [|? ? Hn Hr]; subst. destruct (Q a); [|auto].
  cbn [map]. constructor; [|auto].
  intros Hin. apply Hn. apply in_map_iff in Hin. destruct Hin as (x & Hx & Hi). apply filter_In in Hi.
  apply in_map_iff. exists x. tauto.
Qed.

Lemma nodup_app {A} (a b : list A) : NoDup a -> NoDup b -> (forall x, In x a -> ~ In x b) -> NoDup (a ++ b)%list.
Proof.
  induction a as [|y a IH]; cbn [app]; intros Ha Hb Hd; [exact Hb|].
  inversion Ha as [|? ? Hn Hr]; subst. constructor.
  - intros Hin. apply in_app_or in Hin. destruct Hin as [Hin|Hin]; [auto|]. apply (Hd y (or_introl eq_refl)). exact Hin.
  - apply IH; auto. intros x Hx. apply Hd. right. exact Hx.
Qed.

(* ---------------------------------------------------------------- (1) ops_of emits own_entries along the visit list *)

Definition ekey (e : entry) : string * list string * bool := sig_key (en_op e).

(* one level of the recursion, given the statement one fuel below *)
Lemma collect_step d vis r dcl f :
  (forall c l, ops_of f d vis r dcl c = Some l ->
     exists vs, visited f d r c = Some vs /\ l = flat_map (own_entries vis r dcl) vs) ->
  forall ps rs, collect (map (ops_of f d vis r dcl) ps) = Some rs ->
    exists vss, collect (map (visited f d r) ps) = Some vss
                /\ List.concat rs = flat_map (own_entries vis r dcl) (List.concat vss).
Proof.
  intros IH. induction ps as [|p ps IHp]; intros rs Hc.
  - cbn in Hc. injection Hc as <-. exists []. split; reflexivity.
  - cbn [map] in Hc. apply collect_cons_inv in Hc. destruct Hc as (x & xs & Hx & Hcs & ->).
    destruct (IH p x Hx) as (v & Hv & ->). destruct (IHp xs Hcs) as (vss & Hvs & Hcc).
    exists (v :: vss). split; [cbn [map collect]; rewrite Hv, Hvs; reflexivity|].
    cbn [List.concat]. rewrite flat_map_app, Hcc. reflexivity.
Qed.

(* below the top: a realising class is known, its name and its declared signatures are passed down unchanged *)
Lemma ops_visited_gen d vis r dcl : r <> "" -> forall fuel c l,
  ops_of fuel d vis r dcl c = Some l ->
  exists vs, visited fuel d r c = Some vs /\ l = flat_map (own_entries vis r dcl) vs.
Proof.
  intros Hr. assert (Hn : (r =? "") = false) by (apply String.eqb_neq; exact Hr).
  induction fuel as [|f IH]; intros c l H; [discriminate|].
  cbn [ops_of] in H. cbn [visited]. rewrite Hn in H. rewrite Hn.
  destruct (parents_of d r c) as [ps|]; [|discriminate].
  destruct (collect (map (ops_of f d vis r dcl) ps)) as [rs|] eqn:Hc; [|discriminate].
  injection H as <-.
  destruct (collect_step d vis r dcl f IH ps rs Hc) as (vss & Hvs & Hcc).
  rewrite Hvs. eexists. split; [reflexivity|].
  rewrite flat_map_app, Hcc. cbn [flat_map]. rewrite app_nil_r. reflexivity.
Qed.

Lemma ops_of_visited : forall fuel d vis c l, c_name c <> "" -> ops_of fuel d vis "" [] c = Some l ->
  exists vs, visited fuel d "" c = Some (vs ++ [c])%list
             /\ l = (flat_map (own_entries vis (c_name c) (declared_of c)) vs ++ own_entries vis "" (declared_of c) c)%list.
Proof.
  intros fuel d vis c l Hne H. destruct fuel as [|f]; [discriminate|].
  cbn [ops_of] in H. cbn [visited]. change ("" =? "") with true in *. cbn iota in *.
  destruct (parents_of d "" c) as [ps|]; [|discriminate].
  destruct (collect (map (ops_of f d vis (c_name c) (declared_of c)) ps)) as [rs|] eqn:Hc; [|discriminate].
  injection H as <-.
  destruct (collect_step d vis (c_name c) (declared_of c) f (ops_visited_gen d vis _ _ Hne f) ps rs Hc) as (vss & Hvs & Hcc).
  rewrite Hvs. exists (List.concat vss). split; [reflexivity|]. rewrite Hcc. reflexivity.
Qed.
Print Assumptions ops_of_visited.

(* the converse: where the visit list exists, the operations exist (at every visibility) *)
Lemma visited_ops_gen d vis r dcl : r <> "" -> forall fuel c vs,
  visited fuel d r c = Some vs -> ops_of fuel d vis r dcl c = Some (flat_map (own_entries vis r dcl) vs).
Proof.
  intros Hr. assert (Hn : (r =? "") = false) by (apply String.eqb_neq; exact Hr).
  induction fuel as [|f IH]; intros c vs H; [discriminate|].
  cbn [visited] in H. cbn [ops_of]. rewrite Hn in H. rewrite Hn.
  destruct (parents_of d r c) as [ps|]; [|discriminate].
  destruct (collect (map (visited f d r) ps)) as [vss|] eqn:Hc; [|discriminate].
  injection H as <-.
  assert (Hrs : collect (map (ops_of f d vis r dcl) ps) = Some (map (flat_map (own_entries vis r dcl)) vss)).
  { clear - IH Hc. revert vss Hc. induction ps as [|p ps IHp]; intros vss Hc.
    - cbn in Hc. injection Hc as <-. reflexivity.
    - cbn [map] in Hc. apply collect_cons_inv in Hc. destruct Hc as (x & xs & Hx & Hcs & ->).
      cbn [map collect]. rewrite (IH p x Hx), (IHp xs Hcs). reflexivity. }
  rewrite Hrs. f_equal. rewrite flat_map_app. cbn [flat_map]. rewrite app_nil_r. f_equal.
  clear. induction vss as [|v vss IHv]; [reflexivity|]. cbn [map List.concat]. rewrite flat_map_app, IHv. reflexivity.
Qed.

Lemma visited_ops : forall fuel d vis c vs0, c_name c <> "" -> visited fuel d "" c = Some vs0 ->
  exists l, ops_of fuel d vis "" [] c = Some l.
Proof.
  intros fuel d vis c vs0 Hne H. destruct fuel as [|f]; [discriminate|].
  cbn [visited] in H. cbn [ops_of]. change ("" =? "") with true in *. cbn iota in *.
  destruct (parents_of d "" c) as [ps|]; [|discriminate].
  destruct (collect (map (visited f d (c_name c)) ps)) as [vss|] eqn:Hc; [|discriminate].
  assert (Hrs : exists rs, collect (map (ops_of f d vis (c_name c) (declared_of c)) ps) = Some rs).
  { clear - Hne Hc. revert vss Hc. induction ps as [|p ps IHp]; intros vss Hc.
    - exists []. reflexivity.
    - cbn [map] in Hc. apply collect_cons_inv in Hc. destruct Hc as (x & xs & Hx & Hcs & ->).
      destruct (IHp xs Hcs) as (rs & Hrs). cbn [map collect].
      rewrite (visited_ops_gen d vis (c_name c) (declared_of c) Hne f p x Hx), Hrs. eexists. reflexivity. }
  destruct Hrs as (rs & ->). eexists. reflexivity.
Qed.

(* ---------------------------------------------------------------- (2) pairwise different signature keys *)

Lemma own_keys vis r D p :
  map ekey (own_entries vis r D p) = map sig_key (filter (fun o => keep r D o && vis_match vis o) (c_ops p)).
Proof. unfold own_entries. rewrite map_map. reflexivity. Qed.

Lemma realised_keys vis r D vs :
  map ekey (flat_map (own_entries vis r D) vs)
  = map sig_key (filter (fun o => keep r D o && vis_match vis o) (flat_map c_ops vs)).
Proof.
  induction vs as [|p vs IH]; [reflexivity|].
  cbn [flat_map]. rewrite map_app, filter_app, map_app, IH, own_keys. reflexivity.
Qed.

Lemma declared_flat vs : flat_map declared_of vs = map sig_key (flat_map c_ops vs).
Proof.
  induction vs as [|p vs IH]; [reflexivity|]. cbn [flat_map]. rewrite map_app, IH. reflexivity.
Qed.

Theorem once_unique : forall d vis c l, c_name c <> "" -> once_hyp d c = true ->
  ops_of (List.length (classes d)) d vis "" [] c = Some l -> keys_nodup (map (fun e => sig_key (en_op e)) l) = true.
Proof.
  intros d vis c l Hne Hh Hl. destruct (ops_of_visited _ _ _ _ _ Hne Hl) as (vs & Hv & ->).
  unfold once_hyp in Hh. rewrite Hv, removelast_last in Hh. apply andb_true_iff in Hh. destruct Hh as [H1 H2].
  apply keys_nodup_iff in H1. apply keys_nodup_iff in H2. apply keys_nodup_iff.
  change (fun e => sig_key (en_op e)) with ekey.
  rewrite map_app, realised_keys, own_keys. rewrite declared_flat in H2. unfold declared_of in H1.
  apply nodup_app.
  - apply nodup_map_filter. exact H2.
  - apply nodup_map_filter. exact H1.
  - intros k Ha Hb.
    apply in_map_iff in Ha. destruct Ha as (o & <- & Ho). apply filter_In in Ho. destruct Ho as [_ Ho].
    apply andb_true_iff in Ho. destruct Ho as [Hk _]. unfold keep in Hk.
    assert (Hn : (c_name c =? "") = false) by (apply String.eqb_neq; exact Hne).
    rewrite Hn in Hk. cbn [orb] in Hk. apply negb_true_iff in Hk.
    assert (Hin : In (sig_key o) (declared_of c)).
    { apply in_map_iff in Hb. destruct Hb as (o' & E & Ho'). apply filter_In in Ho'. destruct Ho' as [Ho' _].
      unfold declared_of. apply in_map_iff. exists o'. split; assumption. }
    apply existsb_key in Hin. congruence.
Qed.
Print Assumptions once_unique.

(* ---------------------------------------------------------------- (3) exactly one declaration, one definition *)

Lemma filter_key_none (l : list entry) k : ~ In k (map ekey l) -> filter (fun x => key_eqb (ekey x) k) l = [].
Proof.
  induction l as [|a l IH]; intros Hn; [reflexivity|]. cbn [filter].
  destruct (key_eqb (ekey a) k) eqn:E.
  - apply key_eqb_eq in E. exfalso. apply Hn. left. exact E.
  - apply IH. intros H. apply Hn. right. exact H.
Qed.

Lemma count_key_one (l : list entry) e :
  NoDup (map ekey l) -> In e l -> count (fun x => key_eqb (ekey x) (ekey e)) l = 1.
Proof.
  unfold count. induction l as [|a l IH]; intros Hnd Hin; [destruct Hin|].
  cbn [map] in Hnd. inversion Hnd as [|? ? Hn Hr]; subst. cbn [filter].
  destruct (key_eqb (ekey a) (ekey e)) eqn:E.
  - apply key_eqb_eq in E. rewrite <- E. rewrite (filter_key_none l (ekey a) Hn). reflexivity.
  - destruct Hin as [->|Hin]; [rewrite key_eqb_refl in E; discriminate|]. apply IH; assumption.
Qed.

Theorem once_unique_count : forall d c df dl e, c_name c <> "" -> once_hyp d c = true -> wf_vis d = true ->
  forallb vis3 (c_ops c) = true ->
  defs_of (List.length (classes d)) d c = Some df -> decls_of (List.length (classes d)) d c = Some dl -> In e df ->
  count (fun x => key_eqb (sig_key (en_op x)) (sig_key (en_op e))) df = 1
  /\ count (fun x => key_eqb (sig_key (en_op x)) (sig_key (en_op e))) dl = 1.
Proof.
  intros d c df dl e Hne Hh Hwf Hv Hdf Hdl Hin.
  assert (H1 : count (fun x => key_eqb (sig_key (en_op x)) (sig_key (en_op e))) df = 1).
  { apply (count_key_one df e); [|exact Hin]. apply keys_nodup_iff.
    exact (once_unique d "all" c df Hne Hh Hdf). }
  split; [exact H1|].
  rewrite (decl_def_count d _ c dl df _ Hwf Hv Hdl Hdf). exact H1.
Qed.
Print Assumptions once_unique_count.

(* ---------------------------------------------------------------- (4) the known exception: a diamond (K-C19-1b) *)

Definition diamond_f : oper :=
  {| o_name := "f"; o_vis := "public"; o_ret := "void"; o_params := []; o_virtual := false; o_static := false; o_const := false |}.
Definition diamond_base : cls :=
  {| c_id := "J"; c_name := "IBase"; c_ns := "N"; c_enum := false; c_struct := false; c_autogen := false; c_pure := true;
     c_ops := [diamond_f] |}.
Definition diamond_ia : cls :=
  {| c_id := "A"; c_name := "IA"; c_ns := "N"; c_enum := false; c_struct := false; c_autogen := false; c_pure := true; c_ops := [] |}.
Definition diamond_ib : cls :=
  {| c_id := "B"; c_name := "IB"; c_ns := "N"; c_enum := false; c_struct := false; c_autogen := false; c_pure := true; c_ops := [] |}.
Definition diamond_c : cls :=
  {| c_id := "C"; c_name := "C"; c_ns := "N"; c_enum := false; c_struct := false; c_autogen := false; c_pure := false; c_ops := [] |}.
Definition diamond : cdiagram :=
  {| classes := [diamond_c; diamond_ia; diamond_ib; diamond_base];
     inhs := [{| i_to := "C"; i_from := "A"; i_real := true |}; {| i_to := "C"; i_from := "B"; i_real := true |};
              {| i_to := "A"; i_from := "J"; i_real := true |}; {| i_to := "B"; i_from := "J"; i_real := false |}] |}.

(* the diagram is otherwise inside the input domain: acyclic, closed, three visibilities; IBase is visited twice *)
Example diamond_domain :
  acyclic diamond = true /\ closed diamond = true /\ wf_vis diamond = true
  /\ visited 4 diamond "" diamond_c = Some [diamond_base; diamond_ia; diamond_base; diamond_ib; diamond_c].
Proof. repeat split; vm_compute; reflexivity. Qed.

Example diamond_twice :
  once_hyp diamond diamond_c = false
  /\ (exists df, defs_of 4 diamond diamond_c = Some df
                 /\ count (fun x => key_eqb (sig_key (en_op x)) (sig_key diamond_f)) df = 2).
Proof.
  split; [vm_compute; reflexivity|].
  eexists. split; [vm_compute; reflexivity|]. vm_compute. reflexivity.
Qed.
Print Assumptions diamond_twice.

(* both definitions carry the same head: a redefinition in the generated source *)
Example diamond_heads : option_map (map def_head) (defs_of 4 diamond diamond_c) = Some ["void C::f()"; "void C::f()"].
Proof. vm_compute. reflexivity. Qed.

(* ---------------------------------------------------------------- (5) the hypothesis is satisfiable *)

Example once_nonvacuous : once_hyp ok_diagram cyc_class = true /\ c_name cyc_class <> "".
Proof. split; [vm_compute; reflexivity|discriminate]. Qed.
Print Assumptions once_nonvacuous.
