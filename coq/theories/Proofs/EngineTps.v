(* C16: the transition structure the engine's table model builds by nested dictionary insertion (set_transitions_per_state)
   is the reference structure of the table: source states in first-appearance order, then target-only states; per state its
   events in first-appearance order; per (state, event) the rows in table order. *)
From Coq Require Import String Ascii List Bool Arith Lia.
From KV Require Import Lib.Str Lib.StrOps Lib.ODict Lib.TableDef Gen.Tags Model.TTable Model.Engine Model.EngineSM Model.EngineDomain16
                       Spec.RefExpand Spec.RefExpand16 Proofs.TTableProofs Proofs.EngineBlock Proofs.EngineTT.
Import ListNotations.
Open Scope string_scope.
Open Scope list_scope.

(* ---------------------------------------------------------------- association lists built by map *)
Section AMap.
  Context {V : Type}.
  Variable f : string -> V.
  Definition amap (L : list string) : list (string * V) := map (fun x => (x, f x)) L.

  Lemma lookup_amap s : forall L, lookup String.eqb s (amap L) = if inb s L then Some (f s) else None.
  Proof.
    induction L as [|x L IH]; [reflexivity|]. cbn [amap map lookup inb existsb]. fold (amap L). fold (inb s L).
    destruct (String.eqb s x) eqn:E; [apply String.eqb_eq in E; subst; reflexivity|exact IH].
  Qed.

  Lemma mem_amap s L : ODict.mem String.eqb s (amap L) = inb s L.
  Proof. unfold ODict.mem. rewrite lookup_amap. destruct (inb s L); reflexivity. Qed.

  Lemma upsert_amap_notin s v : forall L, inb s L = false -> upsert String.eqb s v (amap L) = amap L ++ [(s, v)].
  Proof.
    induction L as [|x L IH]; [reflexivity|]. cbn [inb existsb]. fold (inb s L). intros H. apply orb_false_elim in H as [H1 H2].
    cbn [amap map upsert app]. fold (amap L). rewrite H1, (IH H2). reflexivity.
  Qed.

  Lemma upsert_amap_in s v : forall L, NoDup L -> inb s L = true ->
    upsert String.eqb s v (amap L) = map (fun x => (x, if String.eqb s x then v else f x)) L.
  Proof.
    induction L as [|x L IH]; intros Hd H; [discriminate|]. inversion Hd as [|? ? Hx Hd']; subst.
    cbn [inb existsb] in H. fold (inb s L) in H. cbn [amap map upsert]. fold (amap L).
    destruct (String.eqb s x) eqn:E.
    - apply String.eqb_eq in E. subst x. f_equal. apply map_ext_in. intros y Hy.
      destruct (String.eqb s y) eqn:E2; [apply String.eqb_eq in E2; subst; contradiction|reflexivity].
    - cbn [orb] in H. rewrite (IH Hd' H). reflexivity.
  Qed.
End AMap.

Lemma inb_In s L : inb s L = true <-> In s L.
Proof.
  unfold inb. rewrite existsb_exists. split; [intros (x & Hx & E); apply String.eqb_eq in E; subst; exact Hx|intros H; exists s; split; [exact H|apply String.eqb_refl]].
Qed.

Lemma add_new_eq x L : add_new x L = if inb x L then L else L ++ [x].
Proof. reflexivity. Qed.

Lemma dedup_snoc l x : dedup (l ++ [x]) = add_new x (dedup l).
Proof. rewrite <- !adds_nil. unfold adds. rewrite fold_left_app. reflexivity. Qed.

Lemma tpresent_snoc l x : TTable.present (l ++ [x]) = TTable.present l ++ (if is_none x then [] else [x]).
Proof. unfold TTable.present. rewrite filter_app. cbn [filter]. destruct (is_none x); reflexivity. Qed.

Lemma in_dedup_present x l : In x (dedup (TTable.present l)) -> is_none x = false.
Proof. intros H. apply (proj1 (In_dedup _ _)) in H. unfold TTable.present in H. apply filter_In in H as [_ H]. apply negb_true_iff in H. exact H. Qed.

(* ---------------------------------------------------------------- the reference structure of a prefix of the table *)
Definition srcs (P : list EngineSM.row) : list string := dedup (TTable.present (map r_state P)).
Definition sel (s : string) (P : list EngineSM.row) : list EngineSM.row := filter (fun r => String.eqb (r_state r) s) P.
Definition evs (P : list EngineSM.row) (s : string) : list string := dedup (TTable.present (map r_event (sel s P))).
Definition rws (P : list EngineSM.row) (s e : string) : list EngineSM.row :=
  filter (fun r => String.eqb (r_state r) s && String.eqb (r_event r) e) P.
Definition Ev (P : list EngineSM.row) (s : string) : list (string * list transition) :=
  amap (fun e => map transition_of (rws P s e)) (evs P s).
Definition St (P : list EngineSM.row) : tps_t := amap (Ev P) (srcs P).

Lemma srcs_snoc P r : srcs (P ++ [r]) = if EngineSM.present (r_state r) then add_new (r_state r) (srcs P) else srcs P.
Proof.
  unfold srcs. rewrite map_app. cbn [map]. rewrite tpresent_snoc, present_is_none. destruct (is_none (r_state r)); cbn [negb].
  - rewrite app_nil_r. reflexivity.
  - apply dedup_snoc.
Qed.

Lemma sel_snoc s P r : sel s (P ++ [r]) = sel s P ++ (if String.eqb (r_state r) s then [r] else []).
Proof. unfold sel. rewrite filter_app. reflexivity. Qed.

Lemma evs_snoc P r s : evs (P ++ [r]) s
  = if String.eqb (r_state r) s && EngineSM.present (r_event r) then add_new (r_event r) (evs P s) else evs P s.
Proof.
  unfold evs. rewrite sel_snoc. destruct (String.eqb (r_state r) s); cbn [andb]; [|rewrite app_nil_r; reflexivity].
  rewrite map_app. cbn [map]. rewrite tpresent_snoc, present_is_none. destruct (is_none (r_event r)); cbn [negb]; [rewrite app_nil_r; reflexivity|apply dedup_snoc].
Qed.

Lemma rws_snoc P r s e : rws (P ++ [r]) s e = rws P s e ++ (if String.eqb (r_state r) s && String.eqb (r_event r) e then [r] else []).
Proof. unfold rws. rewrite filter_app. reflexivity. Qed.

Lemma srcs_nodup P : NoDup (srcs P).
Proof. apply NoDup_dedup. Qed.
Lemma evs_nodup P s : NoDup (evs P s).
Proof. apply NoDup_dedup. Qed.

Lemma in_srcs_present P s : In s (srcs P) -> EngineSM.present s = true.
Proof. intros H. rewrite present_is_none. apply in_dedup_present in H. rewrite H. reflexivity. Qed.
Lemma in_evs_present P s e : In e (evs P s) -> EngineSM.present e = true.
Proof. intros H. rewrite present_is_none. apply in_dedup_present in H. rewrite H. reflexivity. Qed.

Lemma sel_nil P s : EngineSM.present s = true -> inb s (srcs P) = false -> sel s P = [].
Proof.
  intros Hp Hn. unfold sel. induction P as [|r P IH]; [reflexivity|]. cbn [filter].
  assert (Hn' : inb s (srcs P) = false).
  { destruct (inb s (srcs P)) eqn:E; [|reflexivity]. apply inb_In in E. exfalso.
    assert (I : In s (srcs (r :: P))).
    { unfold srcs in *. apply (proj2 (In_dedup _ _)). apply (proj1 (In_dedup _ _)) in E. unfold TTable.present in *. apply filter_In in E as [E1 E2]. apply filter_In. split; [right; exact E1|exact E2]. }
    apply inb_In in I. congruence. }
  destruct (String.eqb (r_state r) s) eqn:E; [|exact (IH Hn')].
  apply String.eqb_eq in E. exfalso. assert (I : In s (srcs (r :: P))).
  { unfold srcs. apply (proj2 (In_dedup _ _)). unfold TTable.present. apply filter_In. split; [left; exact E|]. rewrite present_is_none in Hp. exact Hp. }
  apply inb_In in I. congruence.
Qed.

Lemma Ev_nil P s : EngineSM.present s = true -> inb s (srcs P) = false -> Ev P s = [].
Proof. intros Hp Hn. unfold Ev, evs. rewrite (sel_nil P s Hp Hn). reflexivity. Qed.

Lemma rws_sel P s e : rws P s e = filter (fun r => String.eqb (r_event r) e) (sel s P).
Proof.
  unfold rws, sel. induction P as [|r P IH]; [reflexivity|]. cbn [filter]. destruct (String.eqb (r_state r) s); cbn [andb filter]; rewrite IH; reflexivity.
Qed.

Lemma rws_nil P s e : EngineSM.present e = true -> inb e (evs P s) = false -> rws P s e = [].
Proof.
  intros Hp Hn. rewrite rws_sel. unfold evs in Hn. induction (sel s P) as [|r Q IH]; [reflexivity|]. cbn [filter].
  assert (Hn' : inb e (dedup (TTable.present (map r_event Q))) = false).
  { destruct (inb e (dedup (TTable.present (map r_event Q)))) eqn:E; [|reflexivity]. apply inb_In in E. exfalso.
    assert (I : In e (dedup (TTable.present (map r_event (r :: Q))))).
    { apply (proj2 (In_dedup _ _)). apply (proj1 (In_dedup _ _)) in E. unfold TTable.present in *. apply filter_In in E as [E1 E2]. apply filter_In. split; [right; exact E1|exact E2]. }
    apply inb_In in I. congruence. }
  destruct (String.eqb (r_event r) e) eqn:E; [|exact (IH Hn')].
  apply String.eqb_eq in E. exfalso. assert (I : In e (dedup (TTable.present (map r_event (r :: Q))))).
  { apply (proj2 (In_dedup _ _)). unfold TTable.present. apply filter_In. split; [left; exact E|]. rewrite present_is_none in Hp. exact Hp. }
  apply inb_In in I. congruence.
Qed.

(* ---------------------------------------------------------------- one row more *)
Lemma amap_ext_in {V} (f g : string -> V) L : (forall x, In x L -> f x = g x) -> amap f L = amap g L.
Proof. intros H. unfold amap. apply map_ext_in. intros x Hx. rewrite (H x Hx). reflexivity. Qed.

Lemma Ev_other P r s' : String.eqb (r_state r) s' = false -> Ev (P ++ [r]) s' = Ev P s'.
Proof.
  intros H. unfold Ev. rewrite evs_snoc, H. cbn [andb]. apply amap_ext_in. intros e' _. rewrite rws_snoc, H. cbn [andb]. rewrite app_nil_r. reflexivity.
Qed.

Lemma Ev_noevent P r s' : EngineSM.present (r_event r) = false -> Ev (P ++ [r]) s' = Ev P s'.
Proof.
  intros H. unfold Ev. rewrite evs_snoc, H, andb_false_r. apply amap_ext_in. intros e' He'. rewrite rws_snoc.
  destruct (String.eqb (r_event r) e') eqn:E; [|rewrite andb_false_r, app_nil_r; reflexivity].
  apply String.eqb_eq in E. subst e'. rewrite (in_evs_present P s' _ He') in H. discriminate.
Qed.

Lemma Ev_same P r : EngineSM.present (r_event r) = true ->
  upsert String.eqb (r_event r)
    ((match lookup String.eqb (r_event r) (Ev P (r_state r)) with Some l => l | None => [] end) ++ [transition_of r]) (Ev P (r_state r))
  = Ev (P ++ [r]) (r_state r).
Proof.
  set (s := r_state r). set (e := r_event r). intros He.
  unfold Ev at 3. rewrite evs_snoc. fold s e. rewrite String.eqb_refl, He. cbn [andb]. rewrite add_new_eq.
  unfold Ev at 1 2. rewrite lookup_amap.
  destruct (inb e (evs P s)) eqn:I.
  - rewrite (upsert_amap_in _ e _ (evs P s) (evs_nodup P s) I). apply map_ext_in. intros e' _. f_equal.
    rewrite rws_snoc. fold s e. rewrite String.eqb_refl. cbn [andb].
    destruct (String.eqb e e') eqn:E.
    + apply String.eqb_eq in E. subst e'. rewrite map_app. reflexivity.
    + rewrite app_nil_r. reflexivity.
  - rewrite (upsert_amap_notin _ e _ (evs P s) I). unfold amap. rewrite map_app. cbn [map]. f_equal.
    + apply map_ext_in. intros e' He'. f_equal. rewrite rws_snoc. fold s e. rewrite String.eqb_refl. cbn [andb].
      destruct (String.eqb e e') eqn:E; [|rewrite app_nil_r; reflexivity].
      apply String.eqb_eq in E. subst e'. apply inb_In in He'. congruence.
    + f_equal. f_equal. rewrite rws_snoc. fold s e. rewrite !String.eqb_refl. cbn [andb]. rewrite (rws_nil P s e He I). reflexivity.
Qed.

Lemma NoDup_snoc {A} (L : list A) x : NoDup L -> ~ In x L -> NoDup (L ++ [x]).
Proof.
  induction L as [|a L IH]; intros N H; cbn [app]; [constructor; [intros []|constructor]|].
  inversion N; subst. constructor.
  - intros I. apply in_app_or in I as [I|[I|[]]]; [contradiction|]. subst. apply H. left. reflexivity.
  - apply IH; [assumption|]. intros I. apply H. right. exact I.
Qed.

Lemma step_spec P r t : tps_step (Some (St P)) r = Some t -> t = St (P ++ [r]).
Proof.
  unfold tps_step. set (s := r_state r). set (e := r_event r).
  assert (M : ODict.mem String.eqb s (St P) = inb s (srcs P)) by apply mem_amap.
  (* the table after the state has been inserted *)
  assert (T1 : EngineSM.present s = true ->
               (if EngineSM.present s && negb (ODict.mem String.eqb s (St P)) then St P ++ [(s, [])] else St P) = amap (Ev P) (add_new s (srcs P))).
  { intros Hs. rewrite Hs, M, add_new_eq. cbn [andb]. destruct (inb s (srcs P)) eqn:I; cbn [negb]; [reflexivity|].
    unfold St, amap. rewrite map_app. cbn [map]. rewrite (Ev_nil P s Hs I). reflexivity. }
  destruct (EngineSM.present e) eqn:He.
  - destruct (EngineSM.present s) eqn:Hs.
    + rewrite (T1 eq_refl). rewrite lookup_amap.
      assert (I1 : inb s (add_new s (srcs P)) = true).
      { rewrite add_new_eq. destruct (inb s (srcs P)) eqn:I; [exact I|]. unfold inb. rewrite existsb_app. cbn [existsb]. rewrite String.eqb_refl. apply orb_true_r. }
      rewrite I1. intros H. inversion H. clear H.
      assert (ND : NoDup (add_new s (srcs P))).
      { rewrite add_new_eq. destruct (inb s (srcs P)) eqn:I; [apply srcs_nodup|].
        apply NoDup_snoc; [apply srcs_nodup|]. intros Hx. apply inb_In in Hx. congruence. }
      rewrite (upsert_amap_in _ s _ _ ND I1). unfold St. rewrite srcs_snoc. fold s. rewrite Hs.
      apply map_ext_in. intros s' _. f_equal.
      destruct (String.eqb s s') eqn:E.
      * apply String.eqb_eq in E. subst s'. exact (Ev_same P r He).
      * symmetry. apply Ev_other. exact E.
    + cbn [andb]. unfold St at 1. rewrite lookup_amap.
      destruct (inb s (srcs P)) eqn:I; [apply inb_In in I; rewrite (in_srcs_present P s I) in Hs; discriminate|discriminate].
  - destruct (EngineSM.present s) eqn:Hs.
    + rewrite (T1 eq_refl). intros H. inversion H. clear H. unfold St. rewrite srcs_snoc. fold s. rewrite Hs.
      apply amap_ext_in. intros s' _. symmetry. apply Ev_noevent. exact He.
    + cbn [andb]. intros H. inversion H. clear H. unfold St. rewrite srcs_snoc. fold s. rewrite Hs.
      apply amap_ext_in. intros s' _. symmetry. apply Ev_noevent. exact He.
Qed.

(* ---------------------------------------------------------------- the whole fold *)
Lemma fold_none Q : fold_left tps_step Q None = None.
Proof. induction Q as [|r Q IH]; [reflexivity|exact IH]. Qed.

Lemma fold_spec : forall Q P t, fold_left tps_step Q (Some (St P)) = Some t -> t = St (P ++ Q).
Proof.
  induction Q as [|r Q IH]; intros P t H.
  - cbn [fold_left] in H. inversion H. rewrite app_nil_r. reflexivity.
  - cbn [fold_left] in H. destruct (tps_step (Some (St P)) r) as [t1|] eqn:E; [|rewrite fold_none in H; discriminate].
    apply step_spec in E. subst t1. apply IH in H. rewrite <- app_assoc in H. exact H.
Qed.

(* ---------------------------------------------------------------- the closing loop *)
Definition close_step (acc : tps_t) (s : string) : tps_t := if ODict.mem String.eqb s acc then acc else acc ++ [(s, [])].

Lemma mem_snoc_other s s' (acc : tps_t) : String.eqb s' s = false ->
  ODict.mem String.eqb s' (acc ++ [(s, [])]) = ODict.mem String.eqb s' acc.
Proof.
  intros E. unfold ODict.mem. induction acc as [|[k v] acc IH]; cbn [app lookup].
  - rewrite E. reflexivity.
  - destruct (String.eqb s' k); [reflexivity|exact IH].
Qed.

Lemma close_spec : forall L acc, NoDup L ->
  fold_left close_step L acc = acc ++ map (fun s => (s, [])) (filter (fun s => negb (ODict.mem String.eqb s acc)) L).
Proof.
  induction L as [|s L IH]; intros acc N; [cbn; rewrite app_nil_r; reflexivity|].
  inversion N as [|? ? Hs N']; subst. cbn [fold_left filter]. unfold close_step at 2.
  destruct (ODict.mem String.eqb s acc) eqn:M; cbn [negb]; [exact (IH acc N')|].
  rewrite (IH _ N'). cbn [map]. rewrite <- app_assoc. cbn [app]. f_equal. f_equal. f_equal.
  apply filter_ext_in. intros s' Hs'. f_equal. apply mem_snoc_other.
  destruct (String.eqb s' s) eqn:E; [|reflexivity]. apply String.eqb_eq in E. subst s'. contradiction.
Qed.

(* ---------------------------------------------------------------- the declarative side, on the engine's rows *)
Lemma filter_map {A B} (f : A -> B) p l : filter p (map f l) = map f (filter (fun x => p (f x)) l).
Proof. induction l as [|x l IH]; [reflexivity|]. cbn [map filter]. destruct (p (f x)); cbn [map]; rewrite IH; reflexivity. Qed.

Lemma src_states_srcs tt : src_states (table_of tt) = srcs tt.
Proof. unfold src_states, srcs, table_of. rewrite map_map. reflexivity. Qed.

Lemma events_of_evs tt s : events_of (table_of tt) s = evs tt s.
Proof. unfold events_of, evs, sel, table_of. rewrite filter_map, map_map. reflexivity. Qed.

Lemma trans_of_rws tt s e : trans_of (table_of tt) s e = map row_of (rws tt s e).
Proof. unfold trans_of, rows_for, rws, table_of. rewrite filter_map. reflexivity. Qed.

Lemma transition_table r : transition_of r = trans_table (row_of r).
Proof.
  unfold transition_of, trans_table. cbn [row_of r_src r_ev r_act TableDef.r_next TableDef.r_guard]. rewrite !present_is_none.
  destruct (is_none (r_action r)), (is_none (EngineSM.r_guard r)), (is_none (EngineSM.r_next r)); reflexivity.
Qed.

Lemma tmem_inb x l : TTable.mem x l = inb x l.
Proof. induction l as [|y l IH]; [reflexivity|]. cbn [TTable.mem]. rewrite IH. reflexivity. Qed.

Lemma tps_of_amap tt : tps_of (table_of tt) = amap (Ev tt) (tps_states (table_of tt)).
Proof.
  unfold tps_of, amap. apply map_ext. intros s. f_equal. unfold Ev, amap. rewrite events_of_evs. apply map_ext. intros e. f_equal.
  rewrite trans_of_rws, map_map. apply map_ext. intros r. symmetry. apply transition_table.
Qed.

Theorem model_tps tt structs protos msgs m :
  tt_model tt structs protos msgs = Some m -> sm_tps m = tps_of (table_of tt).
Proof.
  unfold tt_model. destruct (fold_left tps_step tt (Some [])) as [tps|] eqn:F; [|discriminate]. intros E. inversion E. clear E. cbn [sm_tps].
  change (Some (@nil (string * list (string * list transition)))) with (Some (St [])) in F. apply fold_spec in F. cbn [app] in F. subst tps.
  rewrite tps_of_amap. unfold tps_close. change (fun (acc : tps_t) (s : string) => if ODict.mem String.eqb s acc then acc else acc ++ [(s, [])]) with close_step.
  rewrite tt_states_first_appearance.
  rewrite close_spec by apply NoDup_dedup.
  unfold tps_states, Gen.TTModelSrc.tt_tps_all_states. rewrite src_states_srcs. unfold amap. rewrite map_app. change (map (fun x => (x, Ev tt x)) (srcs tt)) with (St tt). f_equal.
  assert (FE : filter (fun s => negb (ODict.mem String.eqb s (St tt))) (states (table_of tt))
             = filter (fun s => negb (TTable.mem s (srcs tt))) (states (table_of tt))).
  { apply filter_ext. intros s. unfold St. rewrite mem_amap, tmem_inb. reflexivity. }
  rewrite FE. apply map_ext_in. intros s Hs. apply filter_In in Hs as [H1 H2]. f_equal. symmetry. apply Ev_nil.
  - rewrite present_is_none. unfold states in H1. apply in_dedup_present in H1. rewrite H1. reflexivity.
  - rewrite tmem_inb in H2. apply negb_true_iff in H2. exact H2.
Qed.

(* the element lists of the engine's model are the reference's element lists of the table: no side condition *)
Theorem model_elements_full tt structs protos msgs m :
  tt_model tt structs protos msgs = Some m ->
  elements_of_model m = elements_of (table_of tt) structs protos msgs.
Proof. intros H. exact (model_elements tt structs protos msgs m H (model_tps _ _ _ _ _ H)). Qed.
