(* C10_sem_threaded: in the threaded configuration the dispatch thread handles the triggered events in FIFO order with the
   non-threaded step; under every schedule what has been handled is the interpreter on a prefix of the Trigger order, and
   every schedule that lets the producer finish and then gives the dispatcher enough turns ends with all of it. *)
From Coq Require Import String Ascii List Bool Arith Lia.
From KV Require Import Lib.TableDef Model.TTable Model.CsShape Spec.TableInterp Gen.CsTmpl Model.CsSM Model.CsThreads
                       Proofs.TTableProofs Proofs.SmlProofs Proofs.CsProofs.
Import ListNotations.
Open Scope string_scope.

(* the threaded IR as the templates have it NOW: a changed Trigger tail or dispatch loop stops these from compiling *)
Lemma trigger_thr_ir_now : cs_trigger_thr_ir = [QEnqueue].
Proof. reflexivity. Qed.
Lemma dispatch_loop_ir_now : cs_dispatch_loop_ir = [QTryDequeueDispatch; QSleep].
Proof. reflexivity. Qed.

(* ---- the interpreter on a growing prefix *)
Fixpoint end_state (t : table) (gv : gval) (n : nat) (cur : string) (evs : list string) : string * nat :=
  match evs with
  | [] => (cur, n)
  | e :: r => let '(_, s, n') := step_rows_quiet gv n cur e (rows_for t cur e) in end_state t gv n' s r
  end.

Lemma interp_quiet_app : forall t gv a b cur n,
  interp_from_quiet t gv n cur (a ++ b) =
  (interp_from_quiet t gv n cur a ++ interp_from_quiet t gv (snd (end_state t gv n cur a)) (fst (end_state t gv n cur a)) b)%list.
Proof.
  induction a as [|e a IH]; intros b cur n; [reflexivity|]. cbn [app interp_from_quiet end_state].
  destruct (step_rows_quiet gv n cur e (rows_for t cur e)) as [[tr s] n']. cbn [app]. rewrite IH. reflexivity.
Qed.

Lemma end_state_app : forall t gv a b cur n,
  end_state t gv n cur (a ++ b) = end_state t gv (snd (end_state t gv n cur a)) (fst (end_state t gv n cur a)) b.
Proof.
  induction a as [|e a IH]; intros b cur n; [reflexivity|]. cbn [app end_state].
  destruct (step_rows_quiet gv n cur e (rows_for t cur e)) as [[tr s] n']. apply IH.
Qed.

Lemma end_state_nonempty : forall t gv evs cur n, String.eqb cur "" = false ->
  String.eqb (fst (end_state t gv n cur evs)) "" = false.
Proof.
  induction evs as [|e evs IH]; intros cur n H; [exact H|]. cbn [end_state].
  pose proof (step_quiet_state_nonempty gv e cur (rows_for t cur e) n H) as Hc.
  destruct (step_rows_quiet gv n cur e (rows_for t cur e)) as [[tr s] n']. apply IH. exact Hc.
Qed.

(* ---- invariant *)
Definition Inv (t : table) (gv : gval) (evs : list string) (s : tst) : Prop :=
  t_ppc s = 0 /\ t_dpc s < 2 /\
  exists h, evs = (h ++ t_q s ++ t_pend s)%list /\ t_out s = table_interp_quiet t h gv /\
            t_m s = mkCs (fst (end_state t gv 0 (first_state t) h)) (fst (end_state t gv 0 (first_state t) h))
                         (snd (end_state t gv 0 (first_state t) h)) true false.

Lemma pstep_closed : forall s, t_ppc s = 0 ->
  pstep s = match t_pend s with
            | [] => None
            | e :: rest => Some (mkT rest 0 (t_q s ++ [e]) (t_sig s) (t_dpc s) (t_m s) (t_out s))
            end.
Proof. intros s H. unfold pstep. rewrite trigger_thr_ir_now, H. destruct (t_pend s); reflexivity. Qed.

Section Run.
  Variables (t : table) (gv : gval) (evs : list string).
  Hypothesis Hwf : forallb row_ok t = true.
  Hypothesis Hfirst : String.eqb (first_state t) "" = false.

  Lemma Inv_step : forall s b, Inv t gv evs s -> Inv t gv evs (tstep t gv s b).
  Proof.
    intros s b (Hp & Hd & h & He & Ho & Hm). unfold tstep. destruct b.
    - rewrite pstep_closed by assumption. destruct (t_pend s) as [|e rest] eqn:P; [repeat split; eauto; exists h; rewrite P; auto|].
      repeat split; cbn [t_ppc t_dpc]; auto. exists h. cbn [t_q t_pend t_out t_m]. repeat split; auto.
      rewrite He. rewrite <- !app_assoc. reflexivity.
    - unfold dstep. rewrite dispatch_loop_ir_now. cbn [length].
      assert (t_dpc s = 0 \/ t_dpc s = 1) as [D|D] by lia; rewrite D; cbn [nth_error next_pc Nat.eqb].
      + destruct (t_q s) as [|e q'] eqn:Q.
        * repeat split; cbn [t_ppc t_dpc]; auto. exists h. cbn [t_q t_pend t_out t_m]. try rewrite Q in He. auto.
        * rewrite Hm. rewrite cs_trigger_step by (auto; apply end_state_nonempty; assumption).
          destruct (step_rows_quiet gv (snd (end_state t gv 0 (first_state t) h)) (fst (end_state t gv 0 (first_state t) h)) e
                      (rows_for t (fst (end_state t gv 0 (first_state t) h)) e)) as [[tr c] n'] eqn:S.
          repeat split; cbn [t_ppc t_dpc]; auto. exists (h ++ [e])%list. cbn [t_q t_pend t_out t_m c_enum]. repeat split.
          -- rewrite He. rewrite <- !app_assoc. reflexivity.
          -- rewrite Ho. unfold table_interp_quiet. rewrite interp_quiet_app. cbn [interp_from_quiet]. rewrite S.
             rewrite app_comm_cons. reflexivity.
          -- rewrite end_state_app. cbn [end_state]. rewrite S. reflexivity.
      + repeat split; cbn [t_ppc t_dpc]; auto. exists h. cbn [t_q t_pend t_out t_m]. auto.
  Qed.

  Lemma Inv_run : forall sched s, Inv t gv evs s -> Inv t gv evs (trun t gv sched s).
  Proof. induction sched as [|b sched IH]; intros s H; [exact H|]. cbn [trun fold_left]. apply IH. apply Inv_step. exact H. Qed.

  Lemma Inv_init : t <> [] -> Inv t gv evs (tinit t evs).
  Proof.
    intro Hne. unfold tinit. destruct t as [|r t']; [congruence|]. cbn [getfirststate].
    change (r_src r) with (first_state (r :: t')). rewrite cs_ctor_ok by assumption.
    repeat split; cbn [t_ppc t_dpc]; auto. exists []. cbn [t_q t_pend t_out t_m c_enum app end_state fst snd]. auto.
  Qed.

  (* the producer finishes after as many of its turns as there are events *)
  Lemma pend_step : forall s b, Inv t gv evs s ->
    length (t_pend (tstep t gv s b)) = if b then pred (length (t_pend s)) else length (t_pend s).
  Proof.
    intros s b (Hp & Hd & _). unfold tstep. destruct b.
    - rewrite pstep_closed by assumption. destruct (t_pend s) eqn:P; cbn [t_pend length pred]; rewrite ?P; reflexivity.
    - unfold dstep. rewrite dispatch_loop_ir_now.
      assert (t_dpc s = 0 \/ t_dpc s = 1) as [D|D] by lia; rewrite D; cbn [nth_error]; [|reflexivity].
      destruct (t_q s); [reflexivity|]. destruct (cs_trigger t gv s0 (t_m s)) as [[b' tr] m']. reflexivity.
  Qed.

  Lemma pend_run : forall sched s, Inv t gv evs s ->
    length (t_pend (trun t gv sched s)) = length (t_pend s) - count_choice true sched.
  Proof.
    induction sched as [|b sched IH]; intros s H; [cbn; lia|]. cbn [trun fold_left].
    change (fold_left (tstep t gv) sched (tstep t gv s b)) with (trun t gv sched (tstep t gv s b)).
    rewrite IH by (apply Inv_step; exact H). rewrite pend_step by exact H.
    unfold count_choice. cbn [filter]. destruct b; cbn [Bool.eqb length]; lia.
  Qed.

  Lemma idle_step : forall s b, Inv t gv evs s -> t_pend s = [] -> t_q s = [] ->
    t_q (tstep t gv s b) = [] /\ t_pend (tstep t gv s b) = [].
  Proof.
    intros s b (Hp & Hd & _) P Q. unfold tstep. destruct b.
    - rewrite pstep_closed by assumption. rewrite P. auto.
    - unfold dstep. rewrite dispatch_loop_ir_now.
      assert (t_dpc s = 0 \/ t_dpc s = 1) as [D|D] by lia; rewrite D; cbn [nth_error]; [rewrite Q|]; cbn [t_q t_pend]; auto.
  Qed.

  Lemma idle_run : forall sched s, Inv t gv evs s -> t_pend s = [] -> t_q s = [] ->
    t_q (trun t gv sched s) = [] /\ t_pend (trun t gv sched s) = [].
  Proof.
    induction sched as [|b sched IH]; intros s H P Q; [auto|]. cbn [trun fold_left].
    destruct (idle_step s b H P Q) as [Q' P']. apply IH; auto. apply Inv_step. exact H.
  Qed.

  (* once the producer is done, every dispatcher turn works the queue down *)
  Lemma drain : forall sched s, Inv t gv evs s -> t_pend s = [] ->
    2 * length (t_q s) + t_dpc s <= count_choice false sched ->
    t_q (trun t gv sched s) = [] /\ t_pend (trun t gv sched s) = [].
  Proof.
    induction sched as [|b sched IH]; intros s H Hp Hc.
    - unfold count_choice in Hc. cbn [filter length] in Hc. unfold trun. cbn [fold_left].
      destruct (t_q s); [auto|cbn [length] in Hc; lia].
    - destruct (t_q s) eqn:Qs; [apply (idle_run (b :: sched) s H Hp Qs)|].
      assert (t_q s <> []) as Qne by congruence. rewrite <- Qs in *. clear Qs.
      cbn [trun fold_left]. change (fold_left (tstep t gv) sched (tstep t gv s b)) with (trun t gv sched (tstep t gv s b)).
      pose proof (Inv_step s b H) as H'. destruct H as (Hpp & Hd & _).
      assert (t_pend (tstep t gv s b) = []) as Hp'.
      { unfold tstep. destruct b.
        - rewrite pstep_closed by assumption. rewrite Hp. assumption.
        - unfold dstep. rewrite dispatch_loop_ir_now.
          assert (t_dpc s = 0 \/ t_dpc s = 1) as [D|D] by lia; rewrite D; cbn [nth_error]; [|exact Hp].
          destruct (t_q s) as [|e0 q0]; [exact Hp|]. destruct (cs_trigger t gv e0 (t_m s)) as [[b' tr] m']. exact Hp. }
      apply IH; auto. unfold count_choice in *. cbn [filter] in Hc. unfold tstep. destruct b; cbn [Bool.eqb] in Hc.
      + rewrite pstep_closed by assumption. rewrite Hp. exact Hc.
      + cbn [length] in Hc. unfold dstep. rewrite dispatch_loop_ir_now. cbn [length].
        assert (t_dpc s = 0 \/ t_dpc s = 1) as [D|D] by lia; rewrite D in *; cbn [nth_error next_pc Nat.eqb].
        * revert Hc. destruct (t_q s) as [|e q']; cbn [t_q t_dpc length]; intro Hc; [congruence|].
          destruct (cs_trigger t gv e (t_m s)) as [[b' tr] m']. cbn [t_q t_dpc length]. lia.
        * cbn [t_q t_dpc]. lia.
  Qed.
End Run.

Theorem cs_sem_threaded_safe : forall t, wf_table t = true -> forall evs gv sched,
  exists handled rest, evs = (handled ++ rest)%list /\
    t_out (trun t gv sched (tinit t evs)) = table_interp_quiet t handled gv.
Proof.
  intros t Hwf evs gv sched. unfold wf_table in Hwf. do 6 (apply andb_true_iff in Hwf as [Hwf _]).
  apply andb_true_iff in Hwf as [Hnil Hrows].
  assert (t <> []) as Hne by (destruct t; [discriminate|congruence]).
  assert (String.eqb (first_state t) "" = false) as Hf.
  { destruct t as [|r t']; [congruence|]. cbn [first_state forallb] in *. apply andb_true_iff in Hrows as [Hr _].
    apply is_none_false_neq. apply (row_ok_fields r Hr). }
  destruct (Inv_run t gv evs Hrows Hf sched _ (Inv_init t gv evs Hrows Hf Hne)) as (_ & _ & h & He & Ho & _).
  exists h, (t_q (trun t gv sched (tinit t evs)) ++ t_pend (trun t gv sched (tinit t evs)))%list. split; assumption.
Qed.

Theorem cs_sem_threaded : forall t, wf_table t = true -> forall evs gv sched1 sched2,
  length evs <= count_choice true sched1 -> 2 * length evs + 1 <= count_choice false sched2 ->
  let s := trun t gv (sched1 ++ sched2) (tinit t evs) in
  t_out s = table_interp_quiet t evs gv /\ t_q s = [] /\ t_pend s = [].
Proof.
  intros t Hwf evs gv sched1 sched2 H1 H2. unfold wf_table in Hwf. do 6 (apply andb_true_iff in Hwf as [Hwf _]).
  apply andb_true_iff in Hwf as [Hnil Hrows].
  assert (t <> []) as Hne by (destruct t; [discriminate|congruence]).
  assert (String.eqb (first_state t) "" = false) as Hf.
  { destruct t as [|r t']; [congruence|]. cbn [first_state forallb] in *. apply andb_true_iff in Hrows as [Hr _].
    apply is_none_false_neq. apply (row_ok_fields r Hr). }
  cbv zeta. unfold trun. rewrite fold_left_app. fold (trun t gv sched1 (tinit t evs)).
  set (s1 := trun t gv sched1 (tinit t evs)). fold (trun t gv sched2 s1).
  pose proof (Inv_run t gv evs Hrows Hf sched1 _ (Inv_init t gv evs Hrows Hf Hne)) as I1. fold s1 in I1.
  assert (t_pend s1 = []) as P1.
  { pose proof (pend_run t gv evs Hrows Hf sched1 _ (Inv_init t gv evs Hrows Hf Hne)) as L. fold s1 in L.
    assert (length (t_pend (tinit t evs)) = length evs) as Li.
    { unfold tinit. destruct (cs_ctor startup_event (getfirststate t) (mkCs "" "" 0 false false)) as [[b tr] m]. reflexivity. }
    destruct (t_pend s1); [reflexivity|]. cbn [length] in L. lia. }
  assert (length (t_q s1) <= length evs /\ t_dpc s1 < 2) as [Q1 D1].
  { destruct I1 as (_ & Hd & h & He & _). split; [|assumption]. rewrite He, !app_length. lia. }
  destruct (drain t gv evs Hrows Hf sched2 s1 I1 P1 ltac:(lia)) as [Q2 P2].
  pose proof (Inv_run t gv evs Hrows Hf sched2 s1 I1) as (_ & _ & h & He & Ho & _).
  rewrite Q2, P2, !app_nil_r in He. subst h. auto.
Qed.
