(* C19 adaptor: a project that hosts a class diagram gives what the diagram's own rows give (other rows have no influence);
   the text layer is transparent (structured blobs are read as the dictionaries they stand for). *)
From Coq Require Import String Ascii List Bool Arith Lia.
From KV Require Import Lib.Str Lib.ODict Gen.VppSrc Model.Vpp Model.VppWriter Model.Uml Model.UmlBlob Model.UmlWriter
                       Proofs.VppDefs Proofs.VppTable Proofs.UmlBlobDefs Proofs.UmlBlobStruct Proofs.UmlBlobMono.
Import ListNotations.
Open Scope string_scope.

(* ---------------------------------------------------------------- the class diagram id *)

Definition is_cd (g : diag) : bool := String.eqb (dg_type g) "ClassDiagram".

Lemma cd_fold : forall ds acc,
  NoDup (map fst acc ++ map dg_id ds)%list ->
  fold_left (fun acc d => if String.eqb (dg_type d) "ClassDiagram" then upsert String.eqb (dg_id d) (dg_name d) acc else acc) ds acc
  = (acc ++ map (fun g => (dg_id g, dg_name g)) (filter is_cd ds))%list.
Proof.
  induction ds as [|g ds IH]; intros acc H.
  - cbn. rewrite app_nil_r. reflexivity.
  - cbn [fold_left filter]. cbn [map] in H.
    pose proof (NoDup_remove _ _ _ H) as [H1 H2].
    unfold is_cd at 1. destruct (String.eqb (dg_type g) "ClassDiagram").
    + rewrite upsert_fresh.
      * rewrite IH.
        -- cbn [map]. rewrite <- app_assoc. reflexivity.
        -- rewrite map_app. rewrite <- app_assoc. exact H.
      * intro Hin. apply H2. apply in_or_app. left. exact Hin.
    + apply IH. exact H1.
Qed.

Lemma find_cd : forall ds nm g,
  find (fun g => String.eqb (dg_type g) "ClassDiagram" && String.eqb (dg_name g) nm) ds = Some g ->
  find (fun kv : string * string => String.eqb (snd kv) nm) (map (fun g => (dg_id g, dg_name g)) (filter is_cd ds))
  = Some (dg_id g, dg_name g).
Proof.
  induction ds as [|g0 ds IH]; intros nm g H.
  - discriminate.
  - cbn [find filter] in *. unfold is_cd at 1.
    destruct (String.eqb (dg_type g0) "ClassDiagram"); cbn [andb] in H.
    + cbn [map find snd]. destruct (String.eqb (dg_name g0) nm).
      * inversion H. reflexivity.
      * auto.
    + auto.
Qed.

Lemma chosts_id : forall d W, chosts d W = true -> id_from_name (class_diagrams (db_diagrams d)) (wd_name W) = Some (wd_id W).
Proof.
  intros d W H. unfold chosts in H.
  repeat (apply andb_true_iff in H; destruct H as [H ?]).
  apply nodupb_NoDup in H.
  unfold class_diagrams. rewrite cd_fold by exact H.
  cbn [app]. unfold id_from_name.
  destruct (find (fun g => String.eqb (dg_type g) "ClassDiagram" && String.eqb (dg_name g) (wd_name W)) (db_diagrams d)) as [g|] eqn:F;
    [|discriminate].
  rewrite (find_cd _ _ _ F). cbn [fst]. f_equal. apply String.eqb_eq. assumption.
Qed.

Lemma chosts_elems : forall d W, chosts d W = true -> diagram_elements (db_delems d) (wd_id W) = cdelem_rows W.
Proof.
  intros d W H. unfold chosts in H. repeat (apply andb_true_iff in H; destruct H as [H ?]).
  unfold diagram_elements. apply (list_eqb_eq _ delem_eqb delem_eqb_eq). assumption.
Qed.

Lemma chosts_rows : forall d W, chosts d W = true ->
  g_le (get_model_element (cmelem_rows W)) (get_model_element (db_melems d)).
Proof.
  intros d W H id v Hv. unfold chosts in H. repeat (apply andb_true_iff in H; destruct H as [H ?]).
  rewrite gme_row in Hv. destruct (row_with_id (cmelem_rows W) id) as [m|] eqn:Hm; [|discriminate].
  cbn [option_map] in Hv. inversion Hv; subst v. clear Hv.
  unfold row_with_id in Hm. apply find_some in Hm. destruct Hm as [Hin Hid]. apply String.eqb_eq in Hid. subst id.
  match goal with H : forallb _ (cmelem_rows W) = true |- _ => rewrite forallb_forall in H; specialize (H m Hin) end.
  rewrite gme_row.
  destruct (row_with_id (db_melems d) (me_id m)) as [m'|]; [|discriminate].
  match goal with H : melem_eqb m' m = true |- _ => apply melem_eqb_eq in H; subst m' end. reflexivity.
Qed.

(* the project that holds only the diagram: its own rows *)
Lemma own_id : forall W, id_from_name (class_diagrams (db_diagrams (encode_cdiagram W))) (wd_name W) = Some (wd_id W).
Proof.
  intros W. unfold encode_cdiagram, class_diagrams, cdiagram_row, id_from_name. cbn [db_diagrams fold_left dg_type dg_id dg_name].
  change ("ClassDiagram" =? "ClassDiagram") with true. cbn [upsert find snd fst]. rewrite String.eqb_refl. reflexivity.
Qed.

Lemma own_elems : forall W, diagram_elements (db_delems (encode_cdiagram W)) (wd_id W) = cdelem_rows W.
Proof.
  intros W. unfold encode_cdiagram, diagram_elements, cdelem_rows. cbn [db_delems].
  induction (wd_drawn W) as [|x l IH]; [reflexivity|]. cbn [map filter de_diagram]. rewrite String.eqb_refl, IH. reflexivity.
Qed.

Lemma load_own : forall W, load_cdiagram (encode_cdiagram W) (wd_name W)
  = load_gen (get_model_element (cmelem_rows W)) blob_of (cdelem_rows W).
Proof. intros W. unfold load_cdiagram. rewrite own_id. cbn [bind]. rewrite own_elems. reflexivity. Qed.

(* other rows have no influence: whatever the diagram's own rows give, every project that contains them gives *)
Lemma load_hosted : forall d W r, chosts d W = true ->
  load_cdiagram (encode_cdiagram W) (wd_name W) = Some r -> load_cdiagram d (wd_name W) = Some r.
Proof.
  intros d W r H Hr. rewrite load_own in Hr. unfold load_cdiagram. rewrite (chosts_id d W H). cbn [bind].
  rewrite (chosts_elems d W H). eapply load_gen_mono; [apply chosts_rows; exact H|exact Hr].
Qed.

Lemma adaptor_hosted : forall d W c, chosts d W = true ->
  adaptor (encode_cdiagram W) (wd_name W) = Some c -> adaptor d (wd_name W) = Some c.
Proof.
  intros d W c H Hc. unfold adaptor in *.
  destruct (load_cdiagram (encode_cdiagram W) (wd_name W)) as [r|] eqn:E; [|discriminate].
  rewrite (load_hosted d W r H E). exact Hc.
Qed.

Lemma adaptor_others_no_influence : forall d1 d2 W c, chosts d1 W = true -> chosts d2 W = true ->
  adaptor (encode_cdiagram W) (wd_name W) = Some c -> adaptor d1 (wd_name W) = Some c /\ adaptor d2 (wd_name W) = Some c.
Proof. intros. split; eapply adaptor_hosted; eauto. Qed.

(* ---------------------------------------------------------------- outside the domain: a name with a separator *)

Definition t1 : string := crlftab.
Definition t2 : string := crlftab ++ String TAB "".
Definition t3 : string := crlftab ++ String TAB (String TAB "").

Definition op_node (nm : string) : wnode :=
  WNode "OP00000000000001" (Some nm) "Operation" [IField t3 "visibility" "71"; IField t3 "pmAuthor" (dq ++ "kohja" ++ dq)] t2.

Definition one_class_W (opname : string) : wdiagram :=
  {| wd_id := "DIAGRAM000000001"; wd_name := "D";
     wd_drawn := [("SHAPE00000000001",
                   {| we_parent := None;
                      we_node := WNode "CLASS00000000001" (Some "CFoo") "Class"
                                   [IField t1 "_modelEditable" "T";
                                    IChildren t1 "Child" ("(" ++ t2) (", " ++ t2) (t1 ++ ")") [op_node opname]] crlf |})];
     wd_referenced := [] |}.

Definition op_names (o : option cdiagram) : option (list (list string)) :=
  match o with Some c => Some (map (fun k => map o_name (c_ops k)) (classes c)) | None => None end.

(* an operation called Run is read back as Run (and the blob is in the domain of the text-level theorem) ... *)
Lemma one_class_ok :
  forallb (fun se => wf_node (we_node (snd se))) (wd_drawn (one_class_W "Run")) = true
  /\ op_names (adaptor (encode_cdiagram (one_class_W "Run")) "D") = Some [["Run"]].
Proof. split; vm_compute; reflexivity. Qed.

(* ... and so is an operation called operator<, operator(), operator== or a:b -- since the repair of K-C19-7 the reader takes a
   quoted NAME as it is; before, mass_replace deleted = < > ; ( ) and the double quote from it (operator< was read as operator) *)
Lemma operator_names_ok :
  forallb (fun nm => forallb (fun se => wf_node (we_node (snd se))) (wd_drawn (one_class_W nm))) ["operator<"; "operator()"; "operator=="; "a:b"] = true
  /\ map (fun nm => op_names (adaptor (encode_cdiagram (one_class_W nm)) "D")) ["operator<"; "operator()"; "operator=="; "a:b"]
     = [Some [["operator<"]]; Some [["operator()"]]; Some [["operator=="]]; Some [["a:b"]]].
Proof. split; vm_compute; reflexivity. Qed.
