(* C05: an interrupted output stage leaves every pre-existing (non-temporary) file old or completely new. *)
From Coq Require Import String Ascii List Bool Arith Lia.
From KV Require Import Lib.Str Lib.ODict Model.Preserve Model.Output Gen.Tags Proofs.StrProofs.
Import ListNotations.
Open Scope string_scope.
Open Scope list_scope.

(* ---------------------------------------------------------------- file-system dictionary *)
Lemma get_del p q fs : fs_get p (fs_del q fs) = if String.eqb p q then None else fs_get p fs.
Proof.
  induction fs as [|[r c] fs IH]; simpl.
  - destruct (String.eqb p q); reflexivity.
  - destruct (String.eqb q r) eqn:E.
    + rewrite IH. destruct (String.eqb p q) eqn:E2; [reflexivity|].
      apply String.eqb_eq in E. subst r. rewrite E2. reflexivity.
    + simpl. destruct (String.eqb p r) eqn:E3.
      * apply String.eqb_eq in E3. subst r. rewrite String.eqb_sym in E. rewrite E. reflexivity.
      * exact IH.
Qed.

Lemma get_set p q c fs : fs_get p (fs_set q c fs) = if String.eqb p q then Some c else fs_get p fs.
Proof. unfold fs_set. simpl. destruct (String.eqb p q) eqn:E; [reflexivity|]. rewrite get_del, E. reflexivity. Qed.

(* ---------------------------------------------------------------- temporary names *)
Lemma suffixb_app suf p : suffixb suf (p ++ suf)%string = true.
Proof.
  induction p as [|c p IH].
  - change (("" ++ suf)%string) with suf. destruct suf; cbn [suffixb]; rewrite String.eqb_refl; reflexivity.
  - change ((String c p ++ suf)%string) with (String c (p ++ suf)%string).
    cbn [suffixb]. rewrite IH. apply orb_true_r.
Qed.

Lemma tmp_of_is_tmp t : is_tmp (tmp_of t) = true.
Proof. apply suffixb_app. Qed.

Lemma not_tmp_neq p t : is_tmp p = false -> p <> tmp_of t.
Proof. intros H E. subst p. rewrite tmp_of_is_tmp in H. discriminate. Qed.

(* ---------------------------------------------------------------- operations that cannot touch a non-temporary file *)
Definition tmp_only (o : op) : bool :=
  match o with
  | Mkdirs _ => true
  | OpenTrunc p | CloseFlush p | Remove p => is_tmp p
  | WriteBuf _ _ => true
  | Rename _ _ => false
  end.

Lemma step_tmp_only s o p : tmp_only o = true -> is_tmp p = false ->
  fs_get p (disk_fs (step s o)) = fs_get p (disk_fs s).
Proof.
  intros Ho Hp. destruct o as [d|q|q dta|q|a b|q]; cbn [step disk_fs tmp_only] in *; try reflexivity; try discriminate.
  - rewrite get_set. destruct (String.eqb p q) eqn:E; [|reflexivity]. apply String.eqb_eq in E. subst. congruence.
  - rewrite get_set. destruct (String.eqb p q) eqn:E; [|reflexivity]. apply String.eqb_eq in E. subst. congruence.
  - rewrite get_del. destruct (String.eqb p q) eqn:E; [|reflexivity]. apply String.eqb_eq in E. subst. congruence.
Qed.

Lemma run_tmp_only ops : forall s p, forallb tmp_only ops = true -> is_tmp p = false ->
  fs_get p (disk_fs (run ops s)) = fs_get p (disk_fs s).
Proof.
  induction ops as [|o ops IH]; intros s p H Hp; [reflexivity|].
  simpl in H. apply andb_prop in H as [H1 H2]. unfold run. simpl. fold (run ops (step s o)).
  rewrite IH by assumption. apply step_tmp_only; assumption.
Qed.

Lemma forallb_firstn {A} (f : A -> bool) l k : forallb f l = true -> forallb f (firstn k l) = true.
Proof.
  revert k. induction l as [|x l IH]; intros k H; [destruct k; reflexivity|].
  destruct k; [reflexivity|]. simpl in *. apply andb_prop in H as [H1 H2]. rewrite H1, IH by assumption. reflexivity.
Qed.

(* ---------------------------------------------------------------- one job *)
Definition job_head (t : string) (chunks : list string) : list op :=
  [Mkdirs (dirname t); OpenTrunc (tmp_of t)] ++ map (WriteBuf (tmp_of t)) chunks ++ [CloseFlush (tmp_of t)].

Lemma job_ops_split t chunks : job_ops (t, chunks) = job_head t chunks ++ [Rename (tmp_of t) t].
Proof. unfold job_ops, job_head. cbn [app]. rewrite <- app_assoc. reflexivity. Qed.

Lemma job_head_tmp_only t chunks : forallb tmp_only (job_head t chunks) = true.
Proof.
  unfold job_head. rewrite !forallb_app. simpl. rewrite tmp_of_is_tmp. simpl.
  rewrite andb_true_r. induction chunks; simpl; auto.
Qed.

Lemma append_assoc_s (a b c : string) : ((a ++ b) ++ c)%string = (a ++ (b ++ c))%string.
Proof. induction a; simpl; congruence. Qed.

Definition bufv (tp : string) (s : pstate) : string := match fs_get tp (bufs s) with Some b => b | None => "" end.
Definition diskv (tp : string) (s : pstate) : string := match fs_get tp (disk_fs s) with Some b => b | None => "" end.

(* the writes accumulate in the buffer and do not touch the disk *)
Lemma run_writes tp chunks : forall s,
  disk_fs (run (map (WriteBuf tp) chunks) s) = disk_fs s /\
  bufv tp (run (map (WriteBuf tp) chunks) s) = (bufv tp s ++ concat_lines chunks)%string.
Proof.
  induction chunks as [|c chunks IH]; intros s.
  - split; [reflexivity|]. unfold concat_lines. simpl. rewrite append_empty_r. reflexivity.
  - cbn [map]. unfold run. cbn [fold_left]. fold (run (map (WriteBuf tp) chunks) (step s (WriteBuf tp c))).
    destruct (IH (step s (WriteBuf tp c))) as [H1 H2]. split; [rewrite H1; reflexivity|].
    rewrite H2. unfold bufv at 1. cbn [step bufs]. rewrite get_set, String.eqb_refl. fold (bufv tp s).
    rewrite concat_lines_cons, append_assoc_s. reflexivity.
Qed.

(* after the head of a job the temporary file holds the complete content; no other file changed *)
Lemma run_job_head t chunks s :
  let s' := run (job_head t chunks) s in
  fs_get (tmp_of t) (disk_fs s') = Some (concat_lines chunks) /\
  (forall p, p <> tmp_of t -> fs_get p (disk_fs s') = fs_get p (disk_fs s)).
Proof.
  unfold job_head. unfold run. rewrite !fold_left_app. cbn [fold_left].
  set (s1 := step (step s (Mkdirs (dirname t))) (OpenTrunc (tmp_of t))).
  fold (run (map (WriteBuf (tmp_of t)) chunks) s1).
  destruct (run_writes (tmp_of t) chunks s1) as [H1 H2].
  set (s2 := run (map (WriteBuf (tmp_of t)) chunks) s1) in *.
  assert (Hb1 : bufv (tmp_of t) s1 = "") by (unfold bufv, s1; cbn [step bufs]; rewrite get_set, String.eqb_refl; reflexivity).
  assert (Hd1 : fs_get (tmp_of t) (disk_fs s1) = Some "") by (unfold s1; cbn [step disk_fs]; rewrite get_set, String.eqb_refl; reflexivity).
  split.
  - cbn [step disk_fs]. rewrite get_set, String.eqb_refl. rewrite H1, Hd1. fold (bufv (tmp_of t) s2). rewrite H2, Hb1. reflexivity.
  - intros p Hp. cbn [step disk_fs]. rewrite get_set. apply String.eqb_neq in Hp. rewrite Hp. rewrite H1.
    unfold s1. cbn [step disk_fs]. rewrite get_set, Hp. reflexivity.
Qed.

(* a complete job: its target receives the complete content, every other non-temporary file is unchanged *)
Lemma run_job t chunks s p : is_tmp p = false ->
  fs_get p (disk_fs (run (job_ops (t, chunks)) s))
  = if String.eqb p t then Some (concat_lines chunks) else fs_get p (disk_fs s).
Proof.
  intros Hp. rewrite job_ops_split. unfold run. rewrite fold_left_app. cbn [fold_left].
  fold (run (job_head t chunks) s).
  destruct (run_job_head t chunks s) as [H1 H2].
  set (s' := run (job_head t chunks) s) in *.
  cbn [step]. rewrite H1. cbn [disk_fs]. rewrite get_set. destruct (String.eqb p t) eqn:E; [reflexivity|].
  rewrite get_del.
  assert (Hne : p <> tmp_of t) by (apply not_tmp_neq; assumption).
  apply String.eqb_neq in Hne. rewrite Hne. apply H2. apply String.eqb_neq. assumption.
Qed.

(* a proper prefix of a job changes no non-temporary file *)
Lemma run_job_prefix t chunks k s p : k < length (job_ops (t, chunks)) -> is_tmp p = false ->
  fs_get p (disk_fs (run (firstn k (job_ops (t, chunks))) s)) = fs_get p (disk_fs s).
Proof.
  intros Hk Hp. rewrite job_ops_split in *. rewrite app_length in Hk.
  change (length [Rename (tmp_of t) t]) with 1 in Hk.
  rewrite firstn_app. replace (k - length (job_head t chunks)) with 0 by lia. cbn [firstn]. rewrite app_nil_r.
  apply run_tmp_only; [|assumption]. apply forallb_firstn. apply job_head_tmp_only.
Qed.

(* ---------------------------------------------------------------- a list of jobs, interrupted anywhere *)
Definition new_content (jobs : list (string * list string)) (p : string) : option string :=
  option_map job_content (find (fun j => String.eqb p (fst j)) jobs).

Lemma run_app a b s : run (a ++ b) s = run b (run a s).
Proof. unfold run. apply fold_left_app. Qed.

Theorem jobs_prefix_old_or_new jobs : forall k s p, is_tmp p = false ->
  let d := disk_fs (run (firstn k (jobs_ops jobs)) s) in
  fs_get p d = fs_get p (disk_fs s) \/
  (exists j, In j jobs /\ fst j = p /\ fs_get p d = Some (job_content j)).
Proof.
  induction jobs as [|[t chunks] jobs IH]; intros k s p Hp d.
  - left. unfold d. simpl. rewrite firstn_nil. reflexivity.
  - unfold d. cbn [jobs_ops flat_map]. fold (jobs_ops jobs).
    destruct (Nat.lt_ge_cases k (length (job_ops (t, chunks)))) as [Hlt|Hge].
    + left. rewrite firstn_app. replace (k - length (job_ops (t, chunks))) with 0 by lia. rewrite firstn_O, app_nil_r.
      apply run_job_prefix; assumption.
    + rewrite firstn_app. rewrite firstn_all2 by assumption. rewrite run_app.
      set (s1 := run (job_ops (t, chunks)) s).
      destruct (IH (k - length (job_ops (t, chunks))) s1 p Hp) as [H|[j [Hj [Hf Hc]]]].
      * rewrite H. unfold s1. rewrite run_job by assumption.
        destruct (String.eqb p t) eqn:E.
        -- right. exists (t, chunks). apply String.eqb_eq in E. subst. split; [left; reflexivity|]. split; reflexivity.
        -- left. reflexivity.
      * right. exists j. split; [right; assumption|]. split; assumption.
Qed.

(* with distinct targets the job named in the second alternative is THE job of that path *)
Lemma find_unique jobs j : nodup_str (targets jobs) = true -> In j jobs ->
  find (fun x => String.eqb (fst j) (fst x)) jobs = Some j.
Proof.
  induction jobs as [|x jobs IH]; intros Hn Hin; [contradiction|].
  simpl in Hn. apply andb_prop in Hn as [Hx Hn]. simpl. destruct Hin as [E|Hin].
  - subst x. rewrite String.eqb_refl. reflexivity.
  - destruct (String.eqb (fst j) (fst x)) eqn:E; [|apply IH; assumption].
    apply String.eqb_eq in E. apply negb_true_iff in Hx.
    assert (existsb (String.eqb (fst x)) (targets jobs) = true).
    { apply existsb_exists. exists (fst j). split; [apply in_map; assumption|]. rewrite E. apply String.eqb_refl. }
    congruence.
Qed.

(* C05 *)
Theorem atomic_kill jobs k s p : jobs_okb jobs = true -> is_tmp p = false ->
  let d := crash_kill k (jobs_ops jobs) s in
  fs_get p d = fs_get p (disk_fs s) \/ (new_content jobs p <> None /\ fs_get p d = new_content jobs p).
Proof.
  intros Hok Hp d. unfold jobs_okb in Hok. apply andb_prop in Hok as [Hnd _].
  destruct (jobs_prefix_old_or_new jobs k s p Hp) as [H|[j [Hj [Hf Hc]]]]; [left; exact H|].
  right. unfold new_content. subst p. rewrite (find_unique jobs j Hnd Hj). simpl. split; [discriminate|exact Hc].
Qed.

Lemma cur_tmp_is_tmp jobs k t : cur_tmp k (jobs_ops jobs) = Some t -> is_tmp t = true.
Proof.
  unfold cur_tmp. destruct (nth_error (jobs_ops jobs) k) as [o|] eqn:E; [|discriminate].
  apply nth_error_In in E. unfold jobs_ops in E. apply in_flat_map in E as [[tg chunks] [Hj Ho]].
  unfold job_ops in Ho. simpl in Ho.
  destruct Ho as [Ho|[Ho|Ho]]; [subst o; discriminate|subst o; intros H; inversion H; apply tmp_of_is_tmp|].
  apply in_app_or in Ho as [Ho|[Ho|[Ho|[]]]].
  - apply in_map_iff in Ho as [c [Ec _]]. subst o. intros H; inversion H; apply tmp_of_is_tmp.
  - subst o. intros H; inversion H; apply tmp_of_is_tmp.
  - subst o. intros H; inversion H; apply tmp_of_is_tmp.
Qed.

Theorem atomic_exn jobs k s p : jobs_okb jobs = true -> is_tmp p = false ->
  let d := crash_exn k (jobs_ops jobs) s in
  fs_get p d = fs_get p (disk_fs s) \/ (new_content jobs p <> None /\ fs_get p d = new_content jobs p).
Proof.
  intros Hok Hp d. unfold d, crash_exn.
  destruct (cur_tmp k (jobs_ops jobs)) as [t|] eqn:E.
  - rewrite get_del. destruct (String.eqb p t) eqn:E2.
    + apply String.eqb_eq in E2. subst t. apply cur_tmp_is_tmp in E. congruence.
    + apply (atomic_kill jobs k s p Hok Hp).
  - apply (atomic_kill jobs k s p Hok Hp).
Qed.

(* a run that is not interrupted gives every target its complete content *)
Theorem complete_run jobs s p : jobs_okb jobs = true -> is_tmp p = false ->
  fs_get p (disk_fs (run (jobs_ops jobs) s))
  = match new_content jobs p with Some c => Some c | None => fs_get p (disk_fs s) end.
Proof.
  intros Hok Hp. revert s. unfold jobs_okb in Hok. apply andb_prop in Hok as [Hnd _].
  induction jobs as [|[t chunks] jobs IH]; intros s; [reflexivity|].
  cbn [jobs_ops flat_map]. fold (jobs_ops jobs). rewrite run_app.
  simpl in Hnd. apply andb_prop in Hnd as [Ht Hnd].
  rewrite IH by assumption. unfold new_content. cbn [find fst].
  destruct (String.eqb p t) eqn:E.
  - apply String.eqb_eq in E. subst t.
    assert (Hf : find (fun j => String.eqb p (fst j)) jobs = None).
    { apply negb_true_iff in Ht. clear -Ht. induction jobs as [|x jobs IHj]; [reflexivity|].
      simpl in *. apply orb_false_elim in Ht as [H1 H2]. rewrite H1. apply IHj. assumption. }
    rewrite Hf. cbn [option_map]. rewrite run_job by assumption. rewrite String.eqb_refl. reflexivity.
  - destruct (find (fun j => String.eqb p (fst j)) jobs); [reflexivity|]. cbn [option_map].
    rewrite run_job by assumption. rewrite E. reflexivity.
Qed.

(* ---------------------------------------------------------------- FileSync writes B (and a LostCode file next to it) only *)
Lemma run_tl_job_ops jb s : run (tl (job_ops jb)) s = run (job_ops jb) s.
Proof. destruct jb as [t chunks]. reflexivity. Qed.

Theorem filesync_touches_only_its_targets path_b a b s p :
  jobs_okb (filesync_jobs path_b a b) = true -> is_tmp p = false ->
  ~ In p (targets (filesync_jobs path_b a b)) ->
  fs_get p (disk_fs (run (filesync_ops path_b a b) s)) = fs_get p (disk_fs s).
Proof.
  intros Hok Hp Hnot. unfold filesync_ops.
  destruct (filesync_jobs path_b a b) as [|jb rest] eqn:E; [reflexivity|].
  rewrite run_app, run_tl_job_ops, <- run_app.
  change (job_ops jb ++ jobs_ops rest) with (jobs_ops (jb :: rest)).
  rewrite complete_run by assumption.
  assert (Hn : new_content (jb :: rest) p = None).
  { unfold new_content. clear -Hnot. induction (jb :: rest) as [|x l IH]; [reflexivity|].
    simpl in *. destruct (String.eqb p (fst x)) eqn:Ex.
    - apply String.eqb_eq in Ex. exfalso. apply Hnot. left. symmetry. exact Ex.
    - apply IH. intros H. apply Hnot. right. exact H. }
  rewrite Hn. reflexivity.
Qed.

(* and B receives exactly the synchronised content *)
Theorem filesync_writes_b path_b a b s :
  jobs_okb (filesync_jobs path_b a b) = true -> is_tmp path_b = false ->
  fs_get path_b (disk_fs (run (filesync_ops path_b a b) s))
  = Some (concat_lines (fst (emplace true (collect (read_lines a)) (read_lines b)))).
Proof.
  intros Hok Hp. unfold filesync_ops.
  destruct (filesync_jobs path_b a b) as [|jb rest] eqn:E.
  - unfold filesync_jobs in E. destruct (emplace true _ _). discriminate.
  - rewrite run_app, run_tl_job_ops, <- run_app.
    change (job_ops jb ++ jobs_ops rest) with (jobs_ops (jb :: rest)).
    rewrite complete_run by assumption.
    unfold filesync_jobs in E. destruct (emplace true (collect (read_lines a)) (read_lines b)) as [out used] eqn:Ee.
    inversion E; subst. unfold new_content. cbn [find fst]. rewrite String.eqb_refl. reflexivity.
Qed.
