(* Monotonicity of the class-diagram loader (Model/UmlBlob.v) in the lookup function [g] and extensionality in the blob
   parser [P]: success is stable under extending GetModelElement, and only the blobs of the elements actually asked for
   matter. *)
From Coq Require Import String Ascii List Bool Arith Lia.
From KV Require Import Lib.Str Lib.ODict Gen.VppSrc Model.Vpp Model.Uml Model.UmlBlob.
Import ListNotations.
Open Scope string_scope.

Definition g_le (g1 g2 : string -> option velem) : Prop := forall id v, g1 id = Some v -> g2 id = Some v.

(* ---------------------------------------------------------------- the order on option results *)

Definition ole {A} (o1 o2 : option A) : Prop := forall r, o1 = Some r -> o2 = Some r.

Lemma ole_refl : forall A (o : option A), ole o o.
Proof. intros A o r H. exact H. Qed.

Lemma bind_some : forall A B (e : option A) (f : A -> option B) r,
  bind e f = Some r -> exists x, e = Some x /\ f x = Some r.
Proof. intros A B e f r H. destruct e as [x|]; [exists x; split; [reflexivity | exact H] | discriminate]. Qed.

Lemma bind_some_intro : forall A B (e : option A) (f : A -> option B) x r,
  e = Some x -> f x = Some r -> bind e f = Some r.
Proof. intros A B e f x r He Hf. rewrite He. exact Hf. Qed.

Lemma bind_ole : forall A B (e1 e2 : option A) (f1 f2 : A -> option B),
  ole e1 e2 -> (forall x, ole (f1 x) (f2 x)) -> ole (bind e1 f1) (bind e2 f2).
Proof.
  intros A B e1 e2 f1 f2 He Hf r H. apply bind_some in H. destruct H as [x [H1 H2]].
  eapply bind_some_intro; [apply He; exact H1 | apply Hf; exact H2].
Qed.

Lemma foldM_ole : forall A S (f1 f2 : S -> A -> option S),
  (forall s x, ole (f1 s x) (f2 s x)) -> forall l s, ole (foldM f1 l s) (foldM f2 l s).
Proof.
  intros A S f1 f2 Hf l. induction l as [|x l IH]; intros s.
  - apply ole_refl.
  - cbn [foldM]. apply bind_ole; [apply Hf | intros s'; apply IH].
Qed.

Lemma foldM_mono : forall A S (f1 f2 : S -> A -> option S),
  (forall s x s', f1 s x = Some s' -> f2 s x = Some s') ->
  forall l s r, foldM f1 l s = Some r -> foldM f2 l s = Some r.
Proof. intros A S f1 f2 Hf l s. apply foldM_ole. intros s0 x s' H. apply Hf. exact H. Qed.

(* structural descent: both sides have the same shape and differ only in the lookup function *)
Ltac omono_step :=
  match goal with
  | |- ole ?x ?x => apply ole_refl
  | |- ole (bind _ _) (bind _ _) => apply bind_ole; [ | intros ? ]
  | |- ole (foldM _ ?l ?s) (foldM _ ?l ?s) => apply foldM_ole; intros ? ?
  | |- ole (if ?b then _ else _) (if ?b then _ else _) => destruct b
  | |- ole (match ?x with Some _ => _ | None => _ end) _ => destruct x
  | |- ole (match ?x with PStr _ => _ | PDict _ => _ end) _ => destruct x
  | H : g_le ?g1 ?g2 |- ole (?g1 ?t) (?g2 ?t) => exact (H t)
  end.
Ltac omono := repeat omono_step.

(* ---------------------------------------------------------------- the element builders *)

Section Mono.
Variables g1 g2 : string -> option velem.
Hypothesis Hg : g_le g1 g2.

Lemma nested_type_names_ole : forall ids, ole (nested_type_names g1 ids) (nested_type_names g2 ids).
Proof. intros ids. unfold nested_type_names. omono. Qed.

Ltac omono' := repeat first [ omono_step | apply nested_type_names_ole ].

Lemma parse_param_ole : forall v, ole (parse_param g1 v) (parse_param g2 v).
Proof. intros v. unfold parse_param. omono'. Qed.

Lemma parse_operation_ole : forall c, ole (parse_operation g1 c) (parse_operation g2 c).
Proof. intros c. unfold parse_operation. repeat first [ omono_step | apply nested_type_names_ole | apply parse_param_ole ]. Qed.

Lemma parse_attribute_ole : forall c, ole (parse_attribute g1 c) (parse_attribute g2 c).
Proof. intros c. unfold parse_attribute. omono'. Qed.

Lemma stereo_step_ole : forall f kv, ole (stereo_step g1 f kv) (stereo_step g2 f kv).
Proof. intros f kv. unfold stereo_step. cbv zeta. omono'. Qed.

Lemma over_children_ole : forall S top (f1 f2 : S -> string * pv -> option S) s,
  (forall s kv, ole (f1 s kv) (f2 s kv)) -> ole (over_children top f1 s) (over_children top f2 s).
Proof. intros S top f1 f2 s Hf. unfold over_children. repeat first [ apply Hf | omono_step ]. Qed.

Lemma typed_children_ole : forall A top ty (p : (string -> option velem) -> pv -> option A),
  (forall v, ole (p g1 v) (p g2 v)) -> ole (typed_children g1 top ty p) (typed_children g2 top ty p).
Proof.
  intros A top ty p Hp. unfold typed_children. apply over_children_ole. intros s kv.
  repeat first [ omono_step | apply Hp ].
Qed.

Lemma parse_class_ole : forall P v, ole (parse_class g1 P v) (parse_class g2 P v).
Proof.
  intros P v. unfold parse_class.
  repeat first [ omono_step
               | apply over_children_ole; apply stereo_step_ole
               | apply typed_children_ole; first [ apply parse_operation_ole | apply parse_attribute_ole ] ].
Qed.

Lemma parse_inheritance_ole : forall P v real, ole (parse_inheritance g1 P v real) (parse_inheritance g2 P v real).
Proof. intros P v real. unfold parse_inheritance. omono'. Qed.

Lemma assoc_end_step_ole : forall a vvv, ole (assoc_end_step g1 a vvv) (assoc_end_step g2 a vvv).
Proof. intros a vvv. unfold assoc_end_step. cbv zeta. omono'. Qed.

Lemma parse_association_ole : forall P v, ole (parse_association g1 P v) (parse_association g2 P v).
Proof. intros P v. unfold parse_association. repeat first [ omono_step | apply assoc_end_step_ole ]. Qed.

Lemma load_elem_ole : forall P a1 a2 e, ole a1 a2 -> ole (load_elem g1 P a1 e) (load_elem g2 P a2 e).
Proof.
  intros P a1 a2 e Ha. unfold load_elem. apply bind_ole; [exact Ha | intros d]. cbv zeta.
  repeat first [ omono_step | apply parse_class_ole | apply parse_association_ole | apply parse_inheritance_ole ].
Qed.

Lemma fold_load_elem_ole : forall P l a1 a2, ole a1 a2 ->
  ole (fold_left (load_elem g1 P) l a1) (fold_left (load_elem g2 P) l a2).
Proof.
  intros P l. induction l as [|e l IH]; intros a1 a2 Ha.
  - exact Ha.
  - cbn [fold_left]. apply IH. apply load_elem_ole. exact Ha.
Qed.

Lemma load_gen_ole : forall P elems, ole (load_gen g1 P elems) (load_gen g2 P elems).
Proof.
  intros P elems. unfold load_gen. apply bind_ole; [ | intros r; apply ole_refl ].
  apply fold_load_elem_ole. apply ole_refl.
Qed.

End Mono.

(* ---------------------------------------------------------------- the blob parser only matters on the elements asked for *)

Lemma load_elem_ext : forall g P1 P2 acc e,
  (forall mid v, de_model e = Some mid -> g mid = Some v -> P1 v = P2 v) ->
  load_elem g P1 acc e = load_elem g P2 acc e.
Proof.
  intros g P1 P2 acc e H. unfold load_elem.
  destruct acc as [d|]; [ | reflexivity ]. cbn [bind].
  destruct (de_model e) as [mid|] eqn:Em; [ | reflexivity ]. cbn [bind].
  destruct (g mid) as [v|] eqn:Eg; [ | reflexivity ]. cbn [bind]. cbv zeta.
  unfold parse_class, parse_package, parse_association, parse_inheritance.
  rewrite (H mid v eq_refl Eg). reflexivity.
Qed.

Lemma fold_load_elem_ext : forall g P1 P2 elems acc,
  (forall e mid v, In e elems -> de_model e = Some mid -> g mid = Some v -> P1 v = P2 v) ->
  fold_left (load_elem g P1) elems acc = fold_left (load_elem g P2) elems acc.
Proof.
  intros g P1 P2 elems. induction elems as [|e l IH]; intros acc H.
  - reflexivity.
  - cbn [fold_left]. rewrite (load_elem_ext g P1 P2 acc e).
    + apply IH. intros e' mid v Hin. apply H. right. exact Hin.
    + intros mid v. apply H. left. reflexivity.
Qed.

(* ---------------------------------------------------------------- the two statements *)

Lemma load_gen_mono : forall g1 g2 P elems r,
  g_le g1 g2 -> load_gen g1 P elems = Some r -> load_gen g2 P elems = Some r.
Proof. intros g1 g2 P elems r Hg. apply load_gen_ole. exact Hg. Qed.
Print Assumptions load_gen_mono.

Lemma load_gen_ext : forall g P1 P2 elems,
  (forall e mid v, In e elems -> de_model e = Some mid -> g mid = Some v -> P1 v = P2 v) ->
  load_gen g P1 elems = load_gen g P2 elems.
Proof.
  intros g P1 P2 elems H. unfold load_gen. rewrite (fold_load_elem_ext g P1 P2 elems _ H). reflexivity.
Qed.
Print Assumptions load_gen_ext.
