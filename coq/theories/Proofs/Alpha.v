(* The engine's alphabet counter (get_next_alphabet iterated) is the letter sequence a..z A..Z, cycling. *)
From Coq Require Import String Ascii List Bool Arith Lia.
From KV Require Import Lib.Str Lib.StrOps Model.Engine Spec.RefExpand.
Import ListNotations.
Open Scope string_scope.
Open Scope list_scope.

(* the alphabet counter after i elements *)
Definition alpha_at (i : nat) : nat := Nat.iter i get_next_alphabet reset_alphabet.

Lemma alpha_at_S i : alpha_at (S i) = get_next_alphabet (alpha_at i).
Proof. reflexivity. Qed.

Lemma iter_S {A} (f : A -> A) n x : Nat.iter (S n) f x = f (Nat.iter n f x).
Proof. reflexivity. Qed.

(* the alphabet counter is a..z A..Z, cycling *)
Lemma alpha_at_add i j : alpha_at (i + j) = Nat.iter i get_next_alphabet (alpha_at j).
Proof. unfold alpha_at. induction i; [reflexivity|]. change (S i + j) with (S (i + j)). rewrite !iter_S. rewrite IHi. reflexivity. Qed.

Lemma alpha_period i : alpha_at (52 + i) = alpha_at i.
Proof.
  rewrite Nat.add_comm, alpha_at_add. induction i as [|i IH]; [vm_compute; reflexivity|].
  rewrite iter_S, IH. reflexivity.
Qed.

Lemma alpha_first52 : forallb (fun i => String.eqb (alphabet_to_string (alpha_at i)) (letter i)) (seq 0 52) = true.
Proof. vm_compute. reflexivity. Qed.

Lemma alpha_letter_mod : forall q r, r < 52 -> alphabet_to_string (alpha_at (q * 52 + r)) = letter (q * 52 + r).
Proof.
  induction q as [|q IH]; intros r Hr.
  - cbn [Nat.mul Nat.add]. pose proof alpha_first52 as F. rewrite forallb_forall in F.
    apply String.eqb_eq. apply F. apply in_seq. lia.
  - replace (S q * 52 + r) with (52 + (q * 52 + r)) by lia. rewrite alpha_period, (IH r Hr).
    unfold letter. replace ((52 + (q * 52 + r)) mod 52) with ((q * 52 + r) mod 52); [reflexivity|].
    replace (52 + (q * 52 + r)) with ((q * 52 + r) + 1 * 52) by lia. rewrite Nat.mod_add by lia. reflexivity.
Qed.

Lemma alpha_letter i : alphabet_to_string (alpha_at i) = letter i.
Proof.
  rewrite (Nat.div_mod i 52) by lia. rewrite (Nat.mul_comm 52). apply alpha_letter_mod. apply Nat.mod_upper_bound. lia.
Qed.

