(* The key of smgen's actionsignatures, as its source has it NOW (Gen/TTModelSrc.v): stops compiling, and with it every
   proof of C09 and C10 about action signatures, if the key goes back to the concatenated string. *)
From Coq Require Import String List Bool.
From KV Require Import Lib.TableDef Gen.TTModelSrc Model.TTable.
Import ListNotations.

Lemma actionsignatures_pair : forall t,
  actionsignatures t = dedup_pair (map (fun r => (r_act r, r_ev r)) (filter (fun r => negb (is_none (r_act r))) t)).
Proof. reflexivity. Qed.

