(* C12 -- clause "padding-free": sizeof / alignof / offsetof of everything the generator declares. *)
From Coq Require Import String Ascii List Bool NArith ZArith Lia.
From KV Require Import Model.CValue Model.Layout Model.ProtoLang Spec.LayoutSpec Proofs.LayoutBasics Proofs.LayoutEnv.
Import ListNotations.
Open Scope list_scope.

Section Lookups.
  Variable i : iface.
  Hypothesis W : wf_facts i.

  Lemma keys_parts :
    ~ In hdr_name (map s_name (i_structs i) ++ map m_name (i_msgs i))
    /\ NoDup (map s_name (i_structs i)) /\ NoDup (map m_name (i_msgs i))
    /\ (forall x, In x (map s_name (i_structs i)) -> In x (map m_name (i_msgs i)) -> False).
  Proof.
    pose proof (wf_keys i W) as ND. unfold keys in ND. inversion ND as [|? ? NI NDr]; subst.
    destruct (NoDup_app_parts _ _ _ NDr) as [A [B C]]. auto.
  Qed.

  Lemma spec_env_hdr : lookup hdr_name (spec_env i) = Some hdr_spec.
  Proof. unfold spec_env. cbn [lookup]. now rewrite String.eqb_refl. Qed.

  Lemma spec_env_struct : forall s, In s (i_structs i) -> lookup (s_name s) (spec_env i) = Some (struct_spec s).
  Proof.
    intros s HI. destruct keys_parts as [NH [NS [NM DJ]]].
    unfold spec_env. cbn [lookup].
    destruct (String.eqb (s_name s) hdr_name) eqn:E.
    - apply String.eqb_eq in E. exfalso. apply NH. apply in_or_app. left. rewrite <- E. now apply in_map.
    - rewrite lookup_app. now rewrite (lookup_map_entry _ _ s_name struct_spec (i_structs i) s NS HI).
  Qed.

  Lemma spec_env_msg : forall m, In m (i_msgs i) -> lookup (m_name m) (spec_env i) = Some (msg_spec m).
  Proof.
    intros m HI. destruct keys_parts as [NH [NS [NM DJ]]].
    unfold spec_env. cbn [lookup].
    destruct (String.eqb (m_name m) hdr_name) eqn:E.
    - apply String.eqb_eq in E. exfalso. apply NH. apply in_or_app. right. rewrite <- E. now apply in_map.
    - rewrite lookup_app.
      assert (L : lookup (m_name m) (map (fun s => (s_name s, struct_spec s)) (i_structs i)) = None).
      { apply lookup_none_notin. rewrite map_map. cbn [fst]. intros HS. apply (DJ (m_name m) HS). now apply in_map. }
      rewrite L. now apply (lookup_map_entry _ _ m_name msg_spec (i_msgs i) m NM HI).
  Qed.

  Lemma key_noprim_struct : forall s, In s (i_structs i) -> prim_of_name (s_name s) = None.
  Proof. intros s HI. apply (wf_noprim i W). unfold keys. right. apply in_or_app. left. now apply in_map. Qed.

  Lemma key_noprim_msg : forall m, In m (i_msgs i) -> prim_of_name (m_name m) = None.
  Proof. intros m HI. apply (wf_noprim i W). unfold keys. right. apply in_or_app. right. now apply in_map. Qed.
End Lookups.

Theorem packed_layouts : forall i, wf_iface i = true ->
  layout_of (emit i) hdr_name = Some hdr_spec
  /\ (forall s, In s (i_structs i) -> layout_of (emit i) (s_name s) = Some (struct_spec s))
  /\ (forall m, In m (i_msgs i) -> layout_of (emit i) (m_name m) = Some (msg_spec m)).
Proof.
  intros i WF. pose proof (wf_iface_facts i WF) as W. unfold layout_of. rewrite (env_exact i WF).
  split; [apply spec_env_hdr | split; [apply spec_env_struct | apply spec_env_msg]]; assumption.
Qed.

(* what a packed_info says: alignment 1, members back to back in the given order, no tail padding *)
Fixpoint sumN (l : list N) : N := match l with [] => 0%N | x :: r => (x + sumN r)%N end.

Lemma packed_fields_names : forall l off,
  map (fun f => (fi_name f, fi_ty f, fi_size f)) (packed_fields off l) = l.
Proof.
  induction l as [|[[n t] z] r IH]; intros; [reflexivity|]. cbn [packed_fields map fi_name fi_ty fi_size]. now rewrite IH.
Qed.

Lemma packed_fields_offsets : forall l off k f,
  nth_error (packed_fields off l) k = Some f ->
  fi_off f = (off + sumN (map fi_size (firstn k (packed_fields off l))))%N.
Proof.
  induction l as [|[[n t] z] r IH]; intros off k f H.
  - destruct k; discriminate.
  - destruct k as [|k]; cbn [packed_fields nth_error firstn map sumN] in *.
    + injection H as <-. cbn [fi_off]. now rewrite N.add_0_r.
    + rewrite (IH _ _ _ H). cbn [fi_size]. now rewrite N.add_assoc.
Qed.

Lemma packed_fields_total : forall l off, sumN (map fi_size (packed_fields off l)) = fold_right N.add 0%N (map snd l).
Proof.
  induction l as [|[[n t] z] r IH]; intros; [reflexivity|]. cbn [packed_fields map sumN fold_right snd fi_size]. now rewrite IH.
Qed.

Theorem packed_info_meaning : forall l,
  let info := packed_info l in
  si_align info = 1%N
  /\ si_size info = sumN (map fi_size (si_fields info))
  /\ map (fun f => (fi_name f, fi_ty f, fi_size f)) (si_fields info) = l
  /\ (forall k f, nth_error (si_fields info) k = Some f -> fi_off f = sumN (map fi_size (firstn k (si_fields info)))).
Proof.
  intros l. cbn. split; [reflexivity|]. split; [now rewrite packed_fields_total|].
  split; [apply packed_fields_names|]. intros k f H. now rewrite (packed_fields_offsets _ _ _ _ H).
Qed.

(* the size recorded for a member is the sizeof of its type in the generated program *)
Theorem member_sizes : forall i, wf_iface i = true -> forall e, build_env [] (cg_decls (emit i)) = Some e ->
  (forall s m, In s (i_structs i) -> In m (s_members s) -> sizeof e (mem_ty m) = Some (m_size m))
  /\ (forall g m, In g (i_msgs i) -> In m (m_members g) -> sizeof e (mem_ty m) = Some (m_size m))
  /\ sizeof e hdr_name = Some hdr_size.
Proof.
  intros i WF e B. rewrite (env_exact i WF) in B. injection B as <-.
  pose proof (wf_iface_facts i WF) as W.
  assert (P : forall m, member_ok (registry i) m = true -> sizeof (spec_env i) (mem_ty m) = Some (m_size m)).
  { intros m OK. destruct m as [n p d | n sn ms]; unfold sizeof, ty_size_align; cbn [mem_ty].
    - now rewrite prim_of_name_name.
    - cbn [member_ok] in OK. destruct (lookup sn (registry i)) as [ms'|] eqn:L; [|discriminate].
      apply members_eqb_eq in OK. subst ms'.
      assert (exists s, In s (i_structs i) /\ s_name s = sn /\ s_members s = ms) as [s [HI [<- <-]]].
      { unfold registry in L. clear - L. induction (i_structs i) as [|s r IH]; [discriminate|].
        cbn [map lookup] in L. destruct (String.eqb sn (s_name s)) eqn:E.
        - injection L as <-. apply String.eqb_eq in E. exists s. auto with datatypes.
        - destruct (IH L) as [s' [A B]]. exists s'. auto with datatypes. }
      rewrite (key_noprim_struct i W s HI), (spec_env_struct i W s HI). cbn [option_map fst].
      unfold struct_spec. fold (minfo (s_members s)). now rewrite minfo_size. }
  assert (Q : forall reg reg' m, member_ok reg m = true -> (forall k v, lookup k reg = Some v -> lookup k reg' = Some v) -> member_ok reg' m = true).
  { intros reg reg' m OK EXT. destruct m as [n p d | n sn ms]; cbn [member_ok] in *; [exact OK|].
    destruct (lookup sn reg) as [ms'|] eqn:L; [|discriminate]. now rewrite (EXT _ _ L). }
  split; [|split].
  - (* members of a struct are ok w.r.t. a prefix of the registry, hence w.r.t. the registry *)
    intros s m HS HM. apply P.
    pose proof (wf_structs i W) as SO. unfold registry.
    assert (G : forall ss reg, structs_ok reg ss = true -> In s ss ->
                member_ok (reg ++ map (fun s => (s_name s, s_members s)) ss) m = true).
    { induction ss as [|s0 r IH]; intros reg OK HI; [destruct HI|].
      cbn [structs_ok] in OK. apply andb_true_iff in OK. destruct OK as [OK OKr].
      apply andb_true_iff in OK. destruct OK as [_ MO].
      destruct HI as [->|HI].
      - unfold members_ok in MO. apply andb_true_iff in MO. destruct MO as [MO _].
        rewrite forallb_forall in MO. apply (Q reg); [now apply MO|].
        intros k v L. now rewrite lookup_app, L.
      - cbn [map]. specialize (IH _ OKr HI). rewrite <- app_assoc in IH. exact IH. }
    exact (G _ [] SO HS).
  - intros g m HG HM. apply P. pose proof (wf_msgs i W g HG) as MO. unfold msg_ok in MO.
    apply andb_true_iff in MO. destruct MO as [MO _].
    apply andb_true_iff in MO. destruct MO as [MO _].
    apply andb_true_iff in MO. destruct MO as [_ MO].
    unfold members_ok in MO. apply andb_true_iff in MO. destruct MO as [MO _].
    rewrite forallb_forall in MO. now apply MO.
  - unfold sizeof, ty_size_align. change (prim_of_name hdr_name) with (@None prim).
    now rewrite (spec_env_hdr i).
Qed.
