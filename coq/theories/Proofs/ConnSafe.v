(* C14, safety of the repaired connection layer on EVERY input: arbitrary bytes, arbitrary chunking (chunk length + 8 <= 2^32).
   The model never reads outside the received data, never fails an assert and always terminates within fuel 2*count+2.
   Invariant of the reachable states: the fragment buffer is empty, or starts with the preamble (p0, then p1 once there are two
   bytes) and either holds less than a header with required = 0, or holds at least a header whose PayloadSize passed the
   oversize guard, is shorter than the announced message, and required = announced size - buffered bytes.
   Termination: every recursive call of OnDataReceived is on strictly shorter data, except the two reset-and-rescan calls,
   which are made with a non-empty buffer and continue with an empty one: measure 2*count + [buffer non-empty]. *)
From Coq Require Import String Ascii List Bool Arith NArith ZArith Lia.
From KV Require Import Lib.Str Lib.ByteSeq Gen.CxxConn Model.Conn Proofs.ByteSeqProofs Proofs.ConnProofs.
Import ListNotations.
Open Scope N_scope.
Open Scope list_scope.

Lemma oversize_false_iff p : oversize p = false <-> p + 8 < 4294967296.
Proof.
  unfold oversize. change oversize_guard_bound with 4294967295. rewrite size_of_header_eq, N.ltb_ge. lia.
Qed.

Lemma slice_some off n (l : list byte) : off + n <= len l -> exists r, slice off n l = Some r /\ len r = n.
Proof.
  intros H. unfold slice. apply N.leb_le in H. rewrite H. apply N.leb_le in H.
  eexists. split; [reflexivity |]. unfold take, drop, len in *. rewrite firstn_length, skipn_length. lia.
Qed.

Lemma slice_split off n (l r : list byte) : slice off n l = Some r ->
  exists a c, l = a ++ r ++ c /\ len a = off /\ len r = n.
Proof.
  unfold slice. destruct (N.leb_spec (off + n) (len l)) as [H | H]; [| discriminate].
  intros E. injection E as <-.
  exists (firstn (N.to_nat off) l), (skipn (N.to_nat n) (skipn (N.to_nat off) l)).
  unfold take, drop, len in *. repeat split.
  - rewrite firstn_skipn, firstn_skipn. reflexivity.
  - rewrite firstn_length. lia.
  - rewrite firstn_length, skipn_length. lia.
Qed.

Lemma drop_shorter n (l : list byte) : 0 < n -> l <> [] -> (length (drop n l) < length l)%nat.
Proof.
  intros Hn Hl. unfold drop. rewrite skipn_length. apply len_pos in Hl. unfold len in Hl. lia.
Qed.

Lemma drop_length_le n (l : list byte) : (length (drop n l) <= length l)%nat.
Proof. unfold drop. rewrite skipn_length. lia. Qed.

Lemma payload_size_app (b d : list byte) : 8 <= len b -> payload_size (b ++ d) = payload_size b.
Proof.
  intros H. apply (payload_size_prefix (b ++ d) [] b d); auto.
  - rewrite app_nil_r. reflexivity.
  - rewrite len_app. lia.
Qed.

Section Safe.
  Variables p0 p1 : byte.

  Definition starts_ok (b : list byte) : Prop :=
    match b with
    | [] => True
    | [x] => x = p0
    | x :: y :: _ => x = p0 /\ y = p1
    end.

  Definition inv (st : state) : Prop :=
    starts_ok (buf st) /\
    ((required st = 0 /\ len (buf st) < 8) \/
     (8 <= len (buf st) /\ oversize (payload_size (buf st)) = false /\
      len (buf st) < 8 + payload_size (buf st) /\
      required st = 8 + payload_size (buf st) - len (buf st))).

  Definition ok (o : outcome) : Prop := exists st ds, o = Done st ds /\ inv st.

  Lemma inv_reset : inv reset.
  Proof. split; [exact Logic.I | left; split; [reflexivity | cbn [buf reset]; rewrite len_nil; lia]]. Qed.

  Lemma ok_done st ds : inv st -> ok (Done st ds).
  Proof. intros H. exists st, ds. auto. Qed.

  Lemma ok_deliver m o : ok o -> ok (deliver m o).
  Proof. intros (st & ds & -> & H). exists st, (m :: ds). auto. Qed.

  Lemma starts_ok_app b d :
    starts_ok b -> (b = [] -> starts_ok d) -> (len b = 1 -> d <> [] -> hd0 d = p1) -> starts_ok (b ++ d).
  Proof.
    intros Hb Hnil Hone. destruct b as [| x [| y b]].
    - cbn [app]. auto.
    - cbn [app]. destruct d as [| z d]; [exact Hb |]. cbn [starts_ok] in *. split; [exact Hb |].
      apply (Hone eq_refl). discriminate.
    - exact Hb.
  Qed.

  Lemma starts_ok_assert b : starts_ok b -> 2 <= len b -> assert_ok p0 p1 b = true.
  Proof.
    destruct b as [| x [| y b]]; intros H Hl; try (rewrite ?len_cons, ?len_nil in Hl; lia).
    destruct H as [-> ->]. cbn [assert_ok]. rewrite !Ascii.eqb_refl. reflexivity.
  Qed.

  Lemma fp_spec : forall data k i, find_preamble_from p0 p1 k data = Some i ->
    exists j, i = k + N.of_nat j /\ starts_ok (skipn j data) /\ skipn j data <> [].
  Proof.
    induction data as [| b rest IH]; intros k i H; [discriminate H |].
    cbn [find_preamble_from] in H.
    destruct (Ascii.eqb b p0) eqn:Eb.
    - apply Ascii.eqb_eq in Eb. subst b. destruct rest as [| c rest'].
      + injection H as <-. exists 0%nat. cbn [skipn starts_ok]. repeat split; [lia | discriminate].
      + destruct (Ascii.eqb c p1) eqn:Ec.
        * apply Ascii.eqb_eq in Ec. subst c. injection H as <-. exists 0%nat. cbn [skipn starts_ok].
          repeat split; [lia | discriminate].
        * destruct (IH (k + 1) i H) as (j & -> & Hs & Hn). exists (S j). cbn [skipn]. repeat split; auto. lia.
    - destruct (IH (k + 1) i H) as (j & -> & Hs & Hn). exists (S j). cbn [skipn]. repeat split; auto. lia.
  Qed.

  Section Handle.
    Variable rec : state -> list byte -> outcome.

    (* after a delivered message / a skipped byte: OnDataReceived on what is left, or nothing *)
    Lemma ok_cont data n :
      data <> [] -> 0 < n -> (forall d, (length d < length data)%nat -> ok (rec reset d)) ->
      ok (if n <? len data then rec reset (drop n data) else Done reset []).
    Proof.
      intros Hd Hn Hshort. destruct (n <? len data).
      - apply Hshort. apply drop_shorter; assumption.
      - apply ok_done, inv_reset.
    Qed.

    Lemma handle_safe st data :
      inv st -> data <> [] -> len data + 8 <= 4294967296 -> (buf st = [] -> starts_ok data) ->
      (forall d, (length d < length data)%nat -> ok (rec reset d)) ->
      (buf st <> [] -> ok (rec reset data)) ->
      ok (handle p0 p1 rec st data).
    Proof.
      intros [Hstart Hinv] Hd H32 Hsd Hshort Hsame.
      pose proof (len_pos data Hd) as Hdpos.
      destruct st as [b r]. cbn [buf required] in *.
      unfold handle. cbn [buf]. rewrite size_of_header_eq.
      destruct b as [| x b'] eqn:Eb.
      - (* nothing pending *)
        destruct Hinv as [[Hr _] | [H8 _]]; [| rewrite len_nil in H8; lia]. subst r.
        rewrite len_nil. change (0 <? 0) with false. cbn [orb].
        destruct (N.ltb_spec (len data) 8) as [Hlt | Hge].
        + unfold handle_fragmented. cbn [buf required]. rewrite len_nil.
          change (0 =? 1) with false. change (0 =? 0) with true. cbv beta iota zeta.
          rewrite N.add_0_r, (w32_small (len data)) by lia. rewrite size_of_header_eq.
          apply N.ltb_lt in Hlt. rewrite Hlt. apply N.ltb_lt in Hlt.
          apply ok_done. split; cbn [buf required put app]; [apply Hsd; reflexivity | left; auto].
        + unfold handle_unfragmented. cbv beta iota zeta. rewrite size_of_header_eq.
          apply N.ltb_ge in Hge. rewrite Hge. apply N.ltb_ge in Hge.
          destruct (oversize (payload_size data)) eqn:Eo.
          * apply Hshort. apply drop_shorter; [lia | exact Hd].
          * apply oversize_false_iff in Eo.
            rewrite (w32_small (8 + payload_size data)) by lia.
            destruct (N.ltb_spec (len data) (8 + payload_size data)) as [Hin | Hout].
            -- apply ok_done. split; cbn [buf required app]; [apply Hsd; reflexivity |].
               right. repeat split; auto.
               ++ apply oversize_false_iff. exact Eo.
               ++ apply sub32_small; lia.
            -- apply ok_deliver.
               apply (ok_cont data (8 + payload_size data) Hd); [lia | exact Hshort].
      - (* a fragment is pending *)
        rewrite <- Eb in *. assert (b <> []) as Hb by (rewrite Eb; discriminate).
        pose proof (len_pos b Hb) as Hbpos.
        apply N.ltb_lt in Hbpos. rewrite Hbpos. apply N.ltb_lt in Hbpos. cbn [orb].
        unfold handle_fragmented. cbn [buf required]. cbv beta iota zeta.
        destruct ((len b =? 1) && negb (Ascii.eqb (hd0 data) p1)) eqn:Ec.
        { destruct (Ascii.eqb (hd0 data) p0); [apply Hsame; exact Hb | apply ok_done, inv_reset]. }
        assert (len b = 1 -> data <> [] -> hd0 data = p1) as Hone.
        { intros H1 _. apply N.eqb_eq in H1. rewrite H1 in Ec. cbn [andb] in Ec.
          apply negb_false_iff in Ec. apply Ascii.eqb_eq in Ec. exact Ec. }
        assert (starts_ok (b ++ data)) as Hsbd.
        { apply starts_ok_app; auto; intros E; congruence. }
        destruct Hinv as [[Hr Hb8] | (Hb8 & Hov & Hlt & Hr)].
        + (* less than a header buffered *)
          subst r. change (0 =? 0) with true. cbv beta iota.
          rewrite (w32_small (len data + len b)) by lia. rewrite size_of_header_eq.
          destruct (N.ltb_spec (len data + len b) 8) as [Htot | Htot].
          * apply ok_done. split; cbn [buf required put]; [exact Hsbd | left; split; [reflexivity | rewrite len_app; lia]].
          * rewrite (sub32_small 8 (len b)) by lia.
            destruct (split_at (8 - len b) data) as (h & d2 & Hdata & Hh); [lia |].
            rewrite <- Hh. rewrite Hdata at 1. rewrite slice0_app. cbn [buf put required].
            destruct (oversize (payload_size (b ++ h))) eqn:Eo.
            { apply Hsame. exact Hb. }
            apply oversize_false_iff in Eo.
            assert (len (b ++ h) = 8) as Hbh by (rewrite len_app; lia).
            rewrite (w32_small (8 + payload_size (b ++ h))) by lia.
            assert (len data = len h + len d2) as Hld by (rewrite Hdata, len_app; reflexivity).
            destruct (N.ltb_spec (len data + len b) (8 + payload_size (b ++ h))) as [Hin | Hout].
            -- rewrite (sub32_small (len data) (len h)) by lia.
               replace (len data - len h) with (len d2) by lia.
               rewrite Hdata at 1. rewrite <- (app_nil_r d2) at 2. rewrite slice_app.
               apply ok_done. unfold inv. cbn [buf required].
               assert ((b ++ h) ++ d2 = b ++ data) as Ebd by (rewrite Hdata, app_assoc; reflexivity).
               split; [rewrite Ebd; exact Hsbd |]. right.
               rewrite (payload_size_app (b ++ h) d2) by lia.
               rewrite !len_app. repeat split; try lia.
               ++ apply oversize_false_iff. exact Eo.
               ++ rewrite sub32_small by lia. lia.
            -- rewrite (sub32_small (8 + payload_size (b ++ h)) 8) by lia.
               destruct (slice_some (len h) (8 + payload_size (b ++ h) - 8) data) as (rr & Hsl & Hlr); [lia |].
               rewrite Hsl.
               destruct (slice_split _ _ _ _ Hsl) as (a & c & Hacd & Hla & _).
               assert (starts_ok ((b ++ h) ++ rr)) as Hs2.
               { rewrite <- app_assoc. apply starts_ok_app; auto.
                 - intros E. congruence.
                 - intros H1 Hne. destruct h as [| z h'].
                   + rewrite len_nil in Hh. lia.
                   + cbn [app hd0 hd]. rewrite Hdata in Hone. cbn [app hd0 hd] in Hone. apply Hone; [exact H1 | discriminate]. }
               rewrite (starts_ok_assert _ Hs2) by (rewrite !len_app; lia).
               apply ok_deliver.
               rewrite (w32_small (len h + (8 + payload_size (b ++ h) - 8))) by lia.
               apply (ok_cont data _ Hd); [lia | exact Hshort].
        + (* the header is buffered, part of the payload is missing *)
          assert (r =? 0 = false) as Hr0 by (apply N.eqb_neq; lia). rewrite Hr0. cbv beta iota.
          apply oversize_false_iff in Hov.
          destruct (N.ltb_spec (len data) r) as [Hin | Hout].
          * apply ok_done. unfold inv. cbn [buf required]. split; [exact Hsbd |]. right.
            rewrite (payload_size_app b data Hb8), len_app. repeat split; try lia.
            -- apply oversize_false_iff. exact Hov.
            -- rewrite sub32_small by lia. lia.
          * destruct (slice_some 0 r data) as (rr & Hsl & Hlr); [lia |]. rewrite Hsl. cbn [buf put required].
            destruct (slice_split _ _ _ _ Hsl) as (a & c & Hacd & Hla & _).
            assert (starts_ok (b ++ rr)) as Hs2.
            { apply starts_ok_app; auto; [intros E; congruence | intros H1; lia]. }
            rewrite (starts_ok_assert _ Hs2) by (rewrite len_app; lia).
            apply ok_deliver. apply (ok_cont data r Hd); [lia | exact Hshort].
    Qed.
  End Handle.

  Definition pend (st : state) : nat := match buf st with [] => 0%nat | _ => 1%nat end.

  Lemma on_data_safe : forall fuel st data,
    inv st -> len data + 8 <= 4294967296 -> (2 * length data + pend st < fuel)%nat ->
    ok (on_data p0 p1 fuel st data).
  Proof.
    induction fuel as [| f IH]; intros st data Hinv H32 Hfuel; [lia |].
    cbn [on_data]. cbv zeta.
    destruct data as [| x data'] eqn:Edata.
    - rewrite len_nil. change (0 =? 0) with true. cbv iota. apply ok_done. exact Hinv.
    - rewrite <- Edata in *. assert (data <> []) as Hd by (rewrite Edata; discriminate).
      pose proof (len_pos data Hd) as Hdpos.
      assert (len data =? 0 = false) as Hz by (apply N.eqb_neq; lia). rewrite Hz.
      assert (forall d, (length d <= length data)%nat -> (2 * length d < f)%nat -> ok (on_data p0 p1 f reset d)) as Hrec.
      { intros d Hl Hf. apply IH; [apply inv_reset | unfold len in *; lia | unfold pend; cbn [buf reset]; lia]. }
      assert (forall d, (length d < length data)%nat -> ok (on_data p0 p1 f reset d)) as Hshort.
      { intros d Hl. apply Hrec; lia. }
      assert (buf st <> [] -> ok (on_data p0 p1 f reset data)) as Hsame.
      { intros Hb. apply Hrec; [lia |]. unfold pend in Hfuel. destruct (buf st); [congruence | lia]. }
      destruct (N.eqb_spec (len (buf st)) 0) as [Hb0 | Hb0].
      + apply len_zero in Hb0.
        destruct (N.eqb_spec (len data) 1) as [H1 | H1].
        * destruct (Ascii.eqb (hd0 data) p0) eqn:Eh; [| apply ok_done; exact Hinv].
          apply (handle_safe (on_data p0 p1 f) st data Hinv Hd H32); [| exact Hshort | exact Hsame].
          intros _. rewrite Edata in *. destruct data' as [| y data'']; [| rewrite !len_cons in H1; lia].
          cbn [starts_ok hd0 hd] in *. apply Ascii.eqb_eq. exact Eh.
        * destruct (find_preamble p0 p1 data) as [i |] eqn:Efp; [| apply ok_done; exact Hinv].
          destruct (fp_spec data 0 i Efp) as (j & Hi & Hs & Hn).
          assert (drop i data = skipn j data) as Edrop.
          { unfold drop. rewrite Hi. cbn [N.add]. rewrite Nat2N.id. reflexivity. }
          rewrite Edrop.
          assert (length (skipn j data) <= length data)%nat as Hle by (rewrite skipn_length; lia).
          apply (handle_safe (on_data p0 p1 f) st (skipn j data) Hinv Hn).
          -- unfold len in *. lia.
          -- intros _. exact Hs.
          -- intros d Hl. apply Hshort. lia.
          -- intros Hb. congruence.
      + apply (handle_safe (on_data p0 p1 f) st data Hinv Hd H32); [| exact Hshort | exact Hsame].
        intros Hb. rewrite Hb, len_nil in Hb0. congruence.
  Qed.

  Lemma chunk_ok_bound c : chunk_ok c = true -> len c + 8 <= 4294967296.
  Proof. apply chunk_ok_inv. Qed.

  Lemma feed_safe : forall chunks st, inv st -> forallb chunk_ok chunks = true -> ok (feed p0 p1 st chunks).
  Proof.
    induction chunks as [| c r IH]; intros st Hinv Hc.
    - cbn [feed]. apply ok_done. exact Hinv.
    - cbn [forallb] in Hc. apply andb_true_iff in Hc. destruct Hc as [Hc Hr].
      cbn [feed].
      destruct (on_data_safe (fuel_for c) st c Hinv (chunk_ok_bound c Hc)) as (st1 & ds1 & -> & Hinv1).
      { unfold fuel_for, pend. destruct (buf st); lia. }
      destruct (IH st1 Hinv1 Hr) as (st2 & ds2 & -> & Hinv2).
      exists st2, (ds1 ++ ds2). auto.
  Qed.

  (* the model of the repaired code is memory-safe and terminates on every input *)
  Theorem safe_on_every_input chunks :
    forallb chunk_ok chunks = true ->
    exists st ds, feed p0 p1 init chunks = Done st ds /\ inv st.
  Proof. intros Hc. apply (feed_safe chunks init inv_reset Hc). Qed.
End Safe.
