(* C19 semantic read-back: the CLASS builder.  Class.Parse on the dictionary of a semantic class blob gives the class of
   the specification (before its namespace is known), provided the operation and the attribute builders are right. *)
From Coq Require Import String Ascii List Bool Arith Lia.
From KV Require Import Lib.Str Lib.ODict Model.Vpp Model.VppWriter Model.Uml Model.UmlBlob Model.UmlWriter Model.UmlSem
                       Proofs.UmlBlobDefs Proofs.UmlBlobStruct Proofs.UmlBlobText Proofs.UmlSemDefs Proofs.UmlSemDict Proofs.UmlSemDoc
                       Proofs.UmlSemGoals.
Import ListNotations.
Open Scope string_scope.

Ltac c_split := repeat match goal with H : (_ && _) = true |- _ => apply andb_true_iff in H; destruct H end.

(* ---------------------------------------------------------------- foldM *)

Lemma c_foldM_app : forall (A St : Type) (f : St -> A -> option St) (a b : list A) (s : St),
  foldM f (a ++ b)%list s = bind (foldM f a s) (fun s' => foldM f b s').
Proof.
  intros A St f a. induction a as [|x r IH]; intros b s; [reflexivity|].
  cbn [app foldM]. destruct (f s x) as [s1|]; cbn [bind]; [apply IH|reflexivity].
Qed.

Lemma c_foldM_skip : forall (A St : Type) (f : St -> A -> option St) (l : list A),
  (forall x, In x l -> forall s, f s x = Some s) -> forall s, foldM f l s = Some s.
Proof.
  intros A St f l. induction l as [|x r IH]; intros H s; [reflexivity|].
  cbn [foldM]. rewrite (H x (or_introl eq_refl) s). cbn [bind]. apply IH. intros y Hy. apply H. right. exact Hy.
Qed.

(* ---------------------------------------------------------------- strings *)

Lemma c_len_app : forall a b, String.length (a ++ b) = String.length a + String.length b.
Proof. induction a as [|c a IH]; intro b; [reflexivity|]. cbn [append String.length]. rewrite IH. reflexivity. Qed.

Lemma c_substring_app_len : forall a b, substring 0 (String.length a) (a ++ b) = a.
Proof.
  induction a as [|c a IH]; intro b; [destruct b; reflexivity|].
  cbn [String.length append substring]. rewrite IH. reflexivity.
Qed.

Lemma c_unq_q : forall v, unq (q v) = v.
Proof.
  intro v. unfold q, dq. cbn [append unq]. rewrite Ascii.eqb_refl, c_len_app. cbn [String.length].
  replace (String.length v + 1 - 1) with (String.length v) by lia. apply c_substring_app_len.
Qed.

Lemma c_prefix_contains : forall p s, prefixb p s = true -> contains p s = true.
Proof. intros p s H. destruct s; cbn [contains]; rewrite H; reflexivity. Qed.

Lemma c_prefix_nochar : forall c p s, prefixb p s = true -> no_char c s = true -> no_char c p = true.
Proof.
  intros c p. induction p as [|a p IH]; intros s H Hs; [reflexivity|].
  destruct s as [|b s]; [discriminate H|].
  cbn [prefixb] in H. cbn [no_char] in Hs |- *. c_split.
  match goal with H : Ascii.eqb a b = true |- _ => apply Ascii.eqb_eq in H; subst b end.
  apply andb_true_iff. split; [assumption|]. eapply IH; eassumption.
Qed.

Lemma c_contains_nochar : forall c p s, no_char c s = true -> no_char c p = false -> contains p s = false.
Proof.
  intros c p s. induction s as [|b s IH]; intros Hs Hp.
  - cbn [contains]. destruct (prefixb p "") eqn:E; [|reflexivity].
    rewrite (c_prefix_nochar c p "" E Hs) in Hp. discriminate Hp.
  - cbn [contains]. destruct (prefixb p (String b s)) eqn:E.
    + rewrite (c_prefix_nochar c p _ E Hs) in Hp. discriminate Hp.
    + cbn [orb]. apply IH; [|exact Hp]. cbn [no_char] in Hs. c_split. assumption.
Qed.

Lemma c_lower_app : forall a b, Uml.lower (a ++ b) = Uml.lower a ++ Uml.lower b.
Proof. induction a as [|c a IH]; intro b; [reflexivity|]. cbn [append Uml.lower]. rewrite IH. reflexivity. Qed.

Lemma c_nochar_app : forall c a b, no_char c (a ++ b) = no_char c a && no_char c b.
Proof.
  intros c a b. induction a as [|x a IH]; [reflexivity|]. cbn [append no_char]. rewrite IH. apply andb_assoc.
Qed.

(* decimal numerals *)
Fixpoint c_digits (s : string) : bool :=
  match s with
  | EmptyString => true
  | String c r => Nat.leb 48 (nat_of_ascii c) && Nat.leb (nat_of_ascii c) 57 && c_digits r
  end.

Lemma c_dec_fuel_digits : forall fuel n acc, c_digits acc = true -> c_digits (dec_fuel fuel n acc) = true.
Proof.
  induction fuel as [|f IH]; intros n acc H; [exact H|].
  cbn [dec_fuel].
  assert (Hd : n mod 10 < 10) by (apply Nat.mod_upper_bound; lia).
  assert (Hs : c_digits (String (ascii_of_nat (48 + n mod 10)) acc) = true).
  { cbn [c_digits]. rewrite nat_ascii_embedding by lia. rewrite H.
    replace (Nat.leb 48 (48 + n mod 10)) with true by (symmetry; apply Nat.leb_le; lia).
    replace (Nat.leb (48 + n mod 10) 57) with true by (symmetry; apply Nat.leb_le; lia). reflexivity. }
  destruct (Nat.ltb n 10); [exact Hs|]. apply IH. exact Hs.
Qed.

Lemma c_dec_digits : forall n, c_digits (dec n) = true.
Proof. intro n. unfold dec. apply c_dec_fuel_digits. reflexivity. Qed.

Lemma c_lower_digits : forall s, c_digits s = true -> Uml.lower s = s.
Proof.
  induction s as [|c s IH]; intro H; [reflexivity|].
  cbn [c_digits] in H. c_split. cbn [Uml.lower]. rewrite IH by assumption. f_equal.
  unfold lower_char.
  match goal with H : Nat.leb (nat_of_ascii c) 57 = true |- _ => apply Nat.leb_le in H end.
  replace (Nat.leb 65 (nat_of_ascii c)) with false by (symmetry; apply Nat.leb_gt; lia). reflexivity.
Qed.

Lemma c_nochar_digits : forall c s, c_digits s = true -> 57 < nat_of_ascii c -> no_char c s = true.
Proof.
  intros c s. induction s as [|b s IH]; intros H Hc; [reflexivity|].
  cbn [c_digits] in H. c_split. cbn [no_char]. rewrite IH by assumption.
  destruct (Ascii.eqb b c) eqn:E; [|reflexivity].
  apply Ascii.eqb_eq in E. subst b.
  match goal with H : Nat.leb (nat_of_ascii c) 57 = true |- _ => apply Nat.leb_le in H end. lia.
Qed.

(* the keys of owned elements: child_<n> *)
Lemma c_child_lower : forall n, Uml.lower ("child_" ++ dec n) = "child_" ++ dec n.
Proof. intro n. rewrite c_lower_app, (c_lower_digits _ (c_dec_digits n)). reflexivity. Qed.

Lemma c_child_without : forall c p n,
  no_char c p = false -> no_char c "child_" = true -> 57 < nat_of_ascii c -> contains p (Uml.lower ("child_" ++ dec n)) = false.
Proof.
  intros c p n Hp Hc Hn. rewrite c_child_lower. apply (c_contains_nochar c); [|exact Hp].
  rewrite c_nochar_app, Hc. cbn [andb]. apply c_nochar_digits; [apply c_dec_digits|exact Hn].
Qed.

Lemma c_child_stereo : forall n, contains "stereotype" (Uml.lower ("child_" ++ dec n)) = false.
Proof. intro n. apply (c_child_without "t"%char); [reflexivity|reflexivity|apply Nat.ltb_lt; reflexivity]. Qed.
Lemma c_child_abstract : forall n, contains "abstract" (Uml.lower ("child_" ++ dec n)) = false.
Proof. intro n. apply (c_child_without "b"%char); [reflexivity|reflexivity|apply Nat.ltb_lt; reflexivity]. Qed.
Lemma c_child_doc : forall n, contains "documentation_plain" (Uml.lower ("child_" ++ dec n)) = false.
Proof. intro n. apply (c_child_without "o"%char); [reflexivity|reflexivity|apply Nat.ltb_lt; reflexivity]. Qed.
Lemma c_child_child : forall n, contains "child" (Uml.lower ("child_" ++ dec n)) = true.
Proof. intro n. rewrite c_child_lower. apply c_prefix_contains. reflexivity. Qed.
Lemma c_child_is : forall n, is_child_key ("child_" ++ dec n) = true.
Proof. intro n. unfold is_child_key. apply c_child_child. Qed.

(* the keys of the stereotype references: stereotypes_<n> *)
Lemma c_stereos_lower : forall n, Uml.lower ("stereotypes_" ++ dec n) = "stereotypes_" ++ dec n.
Proof. intro n. rewrite c_lower_app, (c_lower_digits _ (c_dec_digits n)). reflexivity. Qed.
Lemma c_stereos_stereo : forall n, contains "stereotype" (Uml.lower ("stereotypes_" ++ dec n)) = true.
Proof. intro n. rewrite c_stereos_lower. apply c_prefix_contains. reflexivity. Qed.
Lemma c_stereos_notchild : forall n, is_child_key ("stereotypes_" ++ dec n) = false.
Proof.
  intro n. unfold is_child_key. rewrite c_stereos_lower. apply (c_contains_nochar "h"%char); [|reflexivity].
  rewrite c_nochar_app. change (no_char "h" "stereotypes_") with true. cbn [andb].
  apply c_nochar_digits; [apply c_dec_digits|apply Nat.ltb_lt; reflexivity].
Qed.

(* ---------------------------------------------------------------- noise slots *)

Lemma c_noise_parts : forall k, noise_key k = true ->
  contains "child" (Uml.lower k) = false /\ contains "stereotype" (Uml.lower k) = false
  /\ contains "abstract" (Uml.lower k) = false /\ contains "documentation_plain" (Uml.lower k) = false.
Proof.
  intros k H. unfold noise_key in H. c_split.
  match goal with H : forallb _ reserved_parts = true |- _ => unfold reserved_parts in H; cbn [forallb] in H end.
  c_split. repeat match goal with H : negb _ = true |- _ => apply negb_true_iff in H end.
  repeat split; assumption.
Qed.

(* an entry whose key holds none of the words Class.Parse scans for is skipped *)
Lemma c_skip_step : forall g f k v,
  contains "child" (Uml.lower k) = false /\ contains "stereotype" (Uml.lower k) = false
  /\ contains "abstract" (Uml.lower k) = false /\ contains "documentation_plain" (Uml.lower k) = false ->
  stereo_step g f (k, v) = Some f.
Proof.
  intros g f k v [H1 [H2 [H3 H4]]].
  unfold stereo_step. cbn [fst snd]. rewrite H1, H2, H3, H4. reflexivity.
Qed.

Lemma c_noise_step : forall g f k v, noise_key k = true -> stereo_step g f (k, v) = Some f.
Proof. intros g f k v H. apply c_skip_step. exact (c_noise_parts k H). Qed.

(* the keys of an inert property of a class *)
Lemma c_inert_parts : forall l it k, inerts_ok KClass l = true -> In (SInert it) l -> In k (item_keys it) ->
  contains "child" (Uml.lower k) = false /\ contains "stereotype" (Uml.lower k) = false
  /\ contains "abstract" (Uml.lower k) = false /\ contains "documentation_plain" (Uml.lower k) = false.
Proof.
  intros l it k H Hin Hk. destruct (inert_key_free KClass l it k H Hin Hk) as [_ Hp].
  cbn [kind_parts forallb] in Hp. c_split. repeat match goal with H : negb _ = true |- _ => apply negb_true_iff in H end.
  repeat split; assumption.
Qed.

Lemma c_inert_notchild : forall l it k, inerts_ok KClass l = true -> In (SInert it) l -> In k (item_keys it) -> is_child_key k = false.
Proof. intros l it k H Hin Hk. unfold is_child_key. apply (c_inert_parts l it k H Hin Hk). Qed.

Lemma c_noise_notchild : forall k, noise_key k = true -> is_child_key k = false.
Proof. intros k H. unfold is_child_key. apply (c_noise_parts k H). Qed.

Lemma c_noise_unq : forall v, noise_val v = true -> negb (String.eqb (unq v) "") = true.
Proof.
  intros v H. unfold noise_val in H. apply orb_true_iff in H. destruct H as [H|H].
  - c_split. destruct v as [|c r]; [discriminate|].
    match goal with H : negb (prefixb dq (String c r)) = true |- _ => unfold dq in H; cbn [prefixb] in H; rewrite andb_true_r in H;
      apply negb_true_iff in H; rewrite Ascii.eqb_sym in H end.
    cbn [unq]. match goal with H : Ascii.eqb c DQ = false |- _ => rewrite H end. reflexivity.
  - remember (substring 1 (String.length v - 2) v) as u eqn:Eu. clear Eu. c_split.
    match goal with H : String.eqb v (q u) = true |- _ => apply String.eqb_eq in H; subst v end.
    rewrite c_unq_q. assumption.
Qed.

(* a comma-free text is untouched by the comma stripping of the reader *)
Lemma c_remove_none : forall c s, no_char c s = true -> remove_char c s = s.
Proof.
  intros c s. induction s as [|b s IH]; intro H; [reflexivity|].
  cbn [no_char] in H. apply andb_true_iff in H. destruct H as [H1 H2]. apply negb_true_iff in H1.
  cbn [remove_char]. rewrite H1, (IH H2). reflexivity.
Qed.

Lemma c_txt_simple : forall s, txt s = true -> negb (String.eqb s "") = true ->
  negb (String.eqb (py_strip (remove_char "," s)) "") = true.
Proof.
  intros s H Hne. unfold txt in H. c_split.
  match goal with H : no_char "," s = true |- _ => rewrite (c_remove_none _ _ H) end.
  match goal with H : String.eqb (py_strip s) s = true |- _ => apply String.eqb_eq in H; rewrite H end.
  exact Hne.
Qed.

(* the value of a noise slot is kept by the reader *)
Lemma c_noise_simple : forall v, noise_val v = true -> negb (String.eqb (py_strip (remove_char "," (unq v))) "") = true.
Proof.
  intros v H. unfold noise_val in H. apply orb_true_iff in H. destruct H as [H|H].
  - c_split. destruct v as [|c r]; [discriminate|].
    match goal with H : negb (prefixb dq (String c r)) = true |- _ => unfold dq in H; cbn [prefixb] in H; rewrite andb_true_r in H;
      apply negb_true_iff in H; rewrite Ascii.eqb_sym in H end.
    cbn [unq]. match goal with H : Ascii.eqb c DQ = false |- _ => rewrite H end. apply c_txt_simple; assumption.
  - remember (substring 1 (String.length v - 2) v) as u eqn:Eu. clear Eu. c_split.
    match goal with H : String.eqb v (q u) = true |- _ => apply String.eqb_eq in H; subst v end.
    rewrite c_unq_q. apply c_txt_simple; assumption.
Qed.

Definition c_noise_ok (l : list slot) : bool :=
  forallb (fun s => match s with SNoise k v => noise_key k && noise_val v | _ => true end) l.

Lemma c_layout_parts : forall f l, layout_ok f l = true ->
  nodup_tags l [] = true /\ nodups (entry_keys (items_of "" f l)) = true
  /\ forallb (fun k => negb (prefixb "child_" k)) (entry_keys (items_of "" f l)) = true
  /\ c_noise_ok l = true /\ (forall t it, f t = Some it -> has_tag t l = true).
Proof.
  intros f l H. unfold layout_ok in H. c_split. repeat split; try assumption.
  intros t it Ht.
  match goal with H : forallb _ _ = true |- _ => rewrite forallb_forall in H; specialize (H t); rewrite Ht in H; apply H end.
  destruct t; cbn [In]; tauto.
Qed.

Lemma c_noise_in : forall l k v, c_noise_ok l = true -> In (SNoise k v) l -> noise_key k = true /\ noise_val v = true.
Proof.
  intros l k v H Hin. unfold c_noise_ok in H. rewrite forallb_forall in H. specialize (H _ Hin). cbn beta iota in H.
  apply andb_true_iff in H. exact H.
Qed.

(* ---------------------------------------------------------------- entries of a layout *)

Lemma c_entries_one : forall it, entries [it] = item_entries it.
Proof. intro it. unfold entries. cbn [flat_map]. apply app_nil_r. Qed.

Lemma c_entries_cons : forall ws f s r,
  entries (items_of ws f (s :: r)) =
  (match s with SNoise k v => item_entries (IField ws k v) | STag t => tag_entries f t | SInert it => item_entries it end
   ++ entries (items_of ws f r))%list.
Proof.
  intros ws f s r. rewrite items_of_cons, entries_app. destruct s as [k v|t|it].
  - rewrite c_entries_one. reflexivity.
  - rewrite tag_item_entries. reflexivity.
  - rewrite c_entries_one. reflexivity.
Qed.

Lemma c_field_in : forall ws k v kv, In kv (item_entries (IField ws k v)) -> fst kv = k.
Proof.
  intros ws k v kv H. cbn [item_entries] in H. destruct (String.eqb (py_strip (remove_char "," (unq v))) ""); [destruct H|].
  destruct H as [H|[]]. subst kv. reflexivity.
Qed.

Lemma c_inert_in : forall it kv, In kv (item_entries it) -> In (fst kv) (item_keys it).
Proof. intros it kv H. rewrite <- item_entries_keys. apply in_map. exact H. Qed.

(* a property of the KEYS of all entries of a layout *)
Lemma c_entries_all : forall (Q : string -> Prop) ws f l,
  (forall k v, In (SNoise k v) l -> Q k) -> (forall it k, In (SInert it) l -> In k (item_keys it) -> Q k) ->
  (forall t kv, In kv (tag_entries f t) -> Q (fst kv)) ->
  forall kv, In kv (entries (items_of ws f l)) -> Q (fst kv).
Proof.
  intros Q ws f l. induction l as [|s r IH]; intros Hn Hi Ht kv Hin; [destruct Hin|].
  rewrite c_entries_cons in Hin. apply in_app_or in Hin. destruct Hin as [Hin|Hin].
  - destruct s as [k v|t|it].
    + rewrite (c_field_in _ _ _ _ Hin). apply (Hn k v). left. reflexivity.
    + exact (Ht t kv Hin).
    + apply (Hi it); [left; reflexivity|]. apply c_inert_in. exact Hin.
  - apply IH; [| |exact Ht|exact Hin].
    + intros k v Hk. apply (Hn k v). right. exact Hk.
    + intros it k Hk. apply Hi. right. exact Hk.
Qed.

Lemma c_indexed_in : forall k ids n kv, In kv (indexed k ids n) -> exists m i, kv = (k ++ "_" ++ dec m, PStr i).
Proof.
  intros k ids. induction ids as [|i r IH]; intros n kv H; [destruct H|].
  cbn [indexed In] in H. destruct H as [H|H]; [exists n, i; symmetry; exact H|exact (IH _ _ H)].
Qed.

(* ---------------------------------------------------------------- the entries a class writes *)

Definition c_has_doc (c : sclass) : bool :=
  match doc_field (tabsn (sc_nl c) 1) (sc_doc c) with Some _ => true | None => false end.

Definition c_tag_entries (c : sclass) (t : tag) : list (string * UmlBlob.pv) :=
  match t with
  | TStereo => indexed "stereotypes" (sc_stereos c) 0
  | TAbstract => if sc_abstract c then [("abstract", PStr "T")] else []
  | TDoc => if c_has_doc c then [("documentation_plain", PStr (doc_value (sc_doc c)))] else []
  | _ => []
  end.

Lemma c_tag_entries_eq : forall c t, nl_ok (sc_nl c) = true -> doc_ok (tabsn (sc_nl c) 1) (sc_doc c) = true ->
  tag_entries (class_item c) t = c_tag_entries c t.
Proof.
  intros c t Hnl Hdoc. unfold tag_entries. destruct t; cbn [class_item c_tag_entries]; try reflexivity.
  - unfold flag_field. destruct (sc_abstract c); reflexivity.
  - unfold c_has_doc. destruct (doc_field (tabsn (sc_nl c) 1) (sc_doc c)) as [it|] eqn:E; [|reflexivity].
    destruct (doc_entries _ _ _ _ Hnl Hdoc E) as [H _]. exact H.
  - destruct (sc_members c); reflexivity.
  - destruct (sc_stereos c); reflexivity.
Qed.

Lemma c_class_entries_notchild : forall c ws l, nl_ok (sc_nl c) = true -> doc_ok (tabsn (sc_nl c) 1) (sc_doc c) = true ->
  c_noise_ok l = true -> inerts_ok KClass l = true ->
  forall kv, In kv (entries (items_of ws (class_item c) l)) -> is_child_key (fst kv) = false.
Proof.
  intros c ws l Hnl Hdoc Hn Hi. apply (c_entries_all (fun k => is_child_key k = false)).
  - intros k v Hin. apply c_noise_notchild. apply (c_noise_in l k v Hn Hin).
  - intros it k Hin Hk. exact (c_inert_notchild l it k Hi Hin Hk).
  - intros t kv Hin. rewrite (c_tag_entries_eq c t Hnl Hdoc) in Hin. destruct t; cbn [c_tag_entries] in Hin; try (destruct Hin; fail).
    + destruct (sc_abstract c); [|destruct Hin]. destruct Hin as [Hin|[]]. subst kv. reflexivity.
    + destruct (c_has_doc c); [|destruct Hin]. destruct Hin as [Hin|[]]. subst kv. reflexivity.
    + apply c_indexed_in in Hin. destruct Hin as [m [i Hin]]. subst kv. cbn [fst]. apply (c_stereos_notchild m).
Qed.

(* ---------------------------------------------------------------- (1) the flags: what one stereotype / slot does *)

Definition c_apply (f : cflags) (k : skind) : cflags :=
  match k with
  | KIface => {| cf_pure := true; cf_autogen := cf_autogen f; cf_enum := cf_enum f; cf_struct := cf_struct f; cf_packed := cf_packed f; cf_comment := cf_comment f; cf_literals := cf_literals f |}
  | KAutogen => {| cf_pure := cf_pure f; cf_autogen := true; cf_enum := cf_enum f; cf_struct := cf_struct f; cf_packed := cf_packed f; cf_comment := cf_comment f; cf_literals := cf_literals f |}
  | KEnumeration => {| cf_pure := cf_pure f; cf_autogen := cf_autogen f; cf_enum := true; cf_struct := cf_struct f; cf_packed := cf_packed f; cf_comment := cf_comment f; cf_literals := cf_literals f |}
  | KStructure p => {| cf_pure := cf_pure f; cf_autogen := cf_autogen f; cf_enum := cf_enum f; cf_struct := true; cf_packed := cf_packed f || p; cf_comment := cf_comment f; cf_literals := cf_literals f |}
  | KNothing => f
  end.
Definition c_set_pure (f : cflags) : cflags :=
  {| cf_pure := true; cf_autogen := cf_autogen f; cf_enum := cf_enum f; cf_struct := cf_struct f; cf_packed := cf_packed f; cf_comment := cf_comment f; cf_literals := cf_literals f |}.
Definition c_set_comment (f : cflags) (s : string) : cflags :=
  {| cf_pure := cf_pure f; cf_autogen := cf_autogen f; cf_enum := cf_enum f; cf_struct := cf_struct f; cf_packed := cf_packed f; cf_comment := s; cf_literals := cf_literals f |}.
Definition c_add_lits (f : cflags) (ls : list string) : cflags :=
  {| cf_pure := cf_pure f; cf_autogen := cf_autogen f; cf_enum := cf_enum f; cf_struct := cf_struct f; cf_packed := cf_packed f; cf_comment := cf_comment f; cf_literals := (cf_literals f ++ ls)%list |}.

Definition c_slot (S : sdiagram) (c : sclass) (f : cflags) (s : slot) : cflags :=
  match s with
  | STag TStereo => fold_left c_apply (kinds_of S c) f
  | STag TAbstract => if sc_abstract c then c_set_pure f else f
  | STag TDoc => if c_has_doc c then c_set_comment f (doc_value (sc_doc c)) else f
  | _ => f
  end.

Lemma c_step_stereo : forall g f n id e, g id = Some e ->
  stereo_step g f ("stereotypes_" ++ dec n, PStr id) = Some (c_apply f (stereo_kind (ve_name e))).
Proof.
  intros g f n id e Hg. unfold stereo_step. cbn [fst snd]. rewrite c_stereos_stereo. cbn [as_str bind]. rewrite Hg. cbn [bind].
  unfold stereo_kind.
  destruct (contains "interface" (Uml.lower (ve_name e))); [reflexivity|].
  destruct (contains "autogen" (Uml.lower (ve_name e))); [reflexivity|].
  destruct (contains "enumeration" (Uml.lower (ve_name e))); [reflexivity|].
  destruct (contains "struct" (Uml.lower (ve_name e))); reflexivity.
Qed.

Lemma c_step_stereos : forall S g ids, g_names S g -> forallb (fun i => ident i && known S i) ids = true ->
  forall n f, foldM (stereo_step g) (indexed "stereotypes" ids n) f
              = Some (fold_left c_apply (map (fun i => stereo_kind (ostr (name_of S i))) ids) f).
Proof.
  intros S g ids Hg. induction ids as [|i r IH]; intros H n f; [reflexivity|].
  cbn [forallb] in H. c_split. cbn [indexed foldM map fold_left].
  match goal with H : known S i = true |- _ => unfold known in H; destruct (name_of S i) as [nm|] eqn:E; [|discriminate H] end.
  destruct (Hg i nm E) as [e [He1 He2]].
  change ("stereotypes" ++ "_" ++ dec n) with ("stereotypes_" ++ dec n).
  rewrite (c_step_stereo g f n i e He1). cbn [bind ostr]. rewrite He2. apply IH. assumption.
Qed.

Lemma c_step_abstract : forall g f v, stereo_step g f ("abstract", v) = Some (c_set_pure f).
Proof. reflexivity. Qed.
Lemma c_step_doc : forall g f s, stereo_step g f ("documentation_plain", PStr s) = Some (c_set_comment f s).
Proof. reflexivity. Qed.

Lemma c_flags_entries : forall S g c ws, g_names S g -> forallb (fun i => ident i && known S i) (sc_stereos c) = true ->
  nl_ok (sc_nl c) = true -> doc_ok (tabsn (sc_nl c) 1) (sc_doc c) = true ->
  forall l, c_noise_ok l = true -> inerts_ok KClass l = true ->
  forall f, foldM (stereo_step g) (entries (items_of ws (class_item c) l)) f = Some (fold_left (c_slot S c) l f).
Proof.
  intros S g c ws Hg Hs Hnl Hdoc l. induction l as [|s r IH]; intros Hn Hi f; [reflexivity|].
  pose proof Hi as Hi'. unfold inerts_ok in Hi'. cbn [forallb] in Hi'. apply andb_true_iff in Hi'. destruct Hi' as [_ Hi2].
  unfold c_noise_ok in Hn. cbn [forallb] in Hn. apply andb_true_iff in Hn. destruct Hn as [Hn1 Hn2].
  rewrite c_entries_cons, c_foldM_app. cbn [fold_left].
  assert (E : foldM (stereo_step g) (match s with SNoise k v => item_entries (IField ws k v) | STag t => tag_entries (class_item c) t
                                                  | SInert it => item_entries it end) f
              = Some (c_slot S c f s)).
  { destruct s as [k v|t|it].
    - apply andb_true_iff in Hn1. destruct Hn1 as [Hk _]. cbn [c_slot]. apply c_foldM_skip.
      intros [k' v'] Hin f'. apply c_field_in in Hin. cbn [fst] in Hin. subst k'. apply (c_noise_step g f' k _ Hk).
    - rewrite (c_tag_entries_eq c t Hnl Hdoc). destruct t; cbn [c_tag_entries c_slot]; try reflexivity.
      + destruct (sc_abstract c); reflexivity.
      + destruct (c_has_doc c); reflexivity.
      + unfold kinds_of. apply (c_step_stereos S g _ Hg Hs).
    - cbn [c_slot]. apply c_foldM_skip.
      intros [k' v'] Hin f'. apply c_inert_in in Hin. cbn [fst] in Hin. apply c_skip_step.
      apply (c_inert_parts (SInert it :: r) it k' Hi (or_introl eq_refl) Hin). }
  rewrite E. cbn [bind]. apply IH; [exact Hn2|exact Hi2].
Qed.

(* ---------------------------------------------------------------- (1) the flags after all slots *)

Definition c_is_packed (k : skind) : bool := match k with KStructure true => true | _ => false end.

Lemma c_apply_pure : forall ks f, cf_pure (fold_left c_apply ks f) = cf_pure f || existsb (is_kind KIface) ks.
Proof.
  induction ks as [|k r IH]; intro f; [symmetry; apply orb_false_r|].
  cbn [fold_left existsb]. rewrite IH. destruct k; cbn [c_apply cf_pure is_kind orb]; try reflexivity.
  rewrite orb_true_r. reflexivity.
Qed.
Lemma c_apply_autogen : forall ks f, cf_autogen (fold_left c_apply ks f) = cf_autogen f || existsb (is_kind KAutogen) ks.
Proof.
  induction ks as [|k r IH]; intro f; [symmetry; apply orb_false_r|].
  cbn [fold_left existsb]. rewrite IH. destruct k; cbn [c_apply cf_autogen is_kind orb]; try reflexivity.
  rewrite orb_true_r. reflexivity.
Qed.
Lemma c_apply_enum : forall ks f, cf_enum (fold_left c_apply ks f) = cf_enum f || existsb (is_kind KEnumeration) ks.
Proof.
  induction ks as [|k r IH]; intro f; [symmetry; apply orb_false_r|].
  cbn [fold_left existsb]. rewrite IH. destruct k; cbn [c_apply cf_enum is_kind orb]; try reflexivity.
  rewrite orb_true_r. reflexivity.
Qed.
Lemma c_apply_struct : forall ks f, cf_struct (fold_left c_apply ks f) = cf_struct f || existsb (is_kind (KStructure false)) ks.
Proof.
  induction ks as [|k r IH]; intro f; [symmetry; apply orb_false_r|].
  cbn [fold_left existsb]. rewrite IH. destruct k; cbn [c_apply cf_struct is_kind orb]; try reflexivity.
  rewrite orb_true_r. reflexivity.
Qed.
Lemma c_apply_packed : forall ks f, cf_packed (fold_left c_apply ks f) = cf_packed f || existsb c_is_packed ks.
Proof.
  induction ks as [|k r IH]; intro f; [symmetry; apply orb_false_r|].
  cbn [fold_left existsb]. rewrite IH. destruct k as [| | |p|]; cbn [c_apply cf_packed c_is_packed orb]; try reflexivity.
  destruct p; [rewrite orb_assoc; reflexivity|rewrite orb_false_r; reflexivity].
Qed.
Lemma c_apply_comment : forall ks f, cf_comment (fold_left c_apply ks f) = cf_comment f.
Proof. induction ks as [|k r IH]; intro f; [reflexivity|]. cbn [fold_left]. rewrite IH. destruct k; reflexivity. Qed.
Lemma c_apply_literals : forall ks f, cf_literals (fold_left c_apply ks f) = cf_literals f.
Proof. induction ks as [|k r IH]; intro f; [reflexivity|]. cbn [fold_left]. rewrite IH. destruct k; reflexivity. Qed.

Lemma c_has_tag_cons : forall t s r, has_tag t (s :: r) = (match s with STag x => tag_eqb x t | _ => false end) || has_tag t r.
Proof. reflexivity. Qed.

(* a flag that every slot can only raise *)
Lemma c_or_fold : forall S c (proj : cflags -> bool) (X Y : bool),
  (forall f s, proj (c_slot S c f s) = proj f || match s with STag TStereo => X | STag TAbstract => Y | _ => false end) ->
  forall l f, proj (fold_left (c_slot S c) l f) = proj f || (has_tag TStereo l && X) || (has_tag TAbstract l && Y).
Proof.
  intros S c proj X Y H. induction l as [|s r IH]; intro f.
  - cbn [fold_left has_tag existsb andb]. rewrite !orb_false_r. reflexivity.
  - cbn [fold_left]. rewrite IH, H, !c_has_tag_cons.
    destruct s as [k v|t|it]; [|destruct t|]; cbn [tag_eqb orb andb]; rewrite ?orb_false_r; try reflexivity.
    + destruct (proj f), Y, (has_tag TStereo r), X, (has_tag TAbstract r); reflexivity.
    + destruct (proj f), Y, (has_tag TStereo r), X, (has_tag TAbstract r); reflexivity.
Qed.

Lemma c_slot_pure : forall S c f s,
  cf_pure (c_slot S c f s) = cf_pure f || match s with STag TStereo => existsb (is_kind KIface) (kinds_of S c) | STag TAbstract => sc_abstract c | _ => false end.
Proof.
  intros S c f s. destruct s as [k v|t|it]; [|destruct t|]; cbn [c_slot]; rewrite ?orb_false_r; try reflexivity.
  - destruct (sc_abstract c); [cbn [c_set_pure cf_pure]; rewrite orb_true_r|rewrite orb_false_r]; reflexivity.
  - destruct (c_has_doc c); reflexivity.
  - apply c_apply_pure.
Qed.
Lemma c_slot_autogen : forall S c f s,
  cf_autogen (c_slot S c f s) = cf_autogen f || match s with STag TStereo => existsb (is_kind KAutogen) (kinds_of S c) | STag TAbstract => false | _ => false end.
Proof.
  intros S c f s. destruct s as [k v|t|it]; [|destruct t|]; cbn [c_slot]; rewrite ?orb_false_r; try reflexivity.
  - destruct (sc_abstract c); reflexivity.
  - destruct (c_has_doc c); reflexivity.
  - apply c_apply_autogen.
Qed.
Lemma c_slot_enum : forall S c f s,
  cf_enum (c_slot S c f s) = cf_enum f || match s with STag TStereo => existsb (is_kind KEnumeration) (kinds_of S c) | STag TAbstract => false | _ => false end.
Proof.
  intros S c f s. destruct s as [k v|t|it]; [|destruct t|]; cbn [c_slot]; rewrite ?orb_false_r; try reflexivity.
  - destruct (sc_abstract c); reflexivity.
  - destruct (c_has_doc c); reflexivity.
  - apply c_apply_enum.
Qed.
Lemma c_slot_struct : forall S c f s,
  cf_struct (c_slot S c f s) = cf_struct f || match s with STag TStereo => existsb (is_kind (KStructure false)) (kinds_of S c) | STag TAbstract => false | _ => false end.
Proof.
  intros S c f s. destruct s as [k v|t|it]; [|destruct t|]; cbn [c_slot]; rewrite ?orb_false_r; try reflexivity.
  - destruct (sc_abstract c); reflexivity.
  - destruct (c_has_doc c); reflexivity.
  - apply c_apply_struct.
Qed.
Lemma c_slot_packed : forall S c f s,
  cf_packed (c_slot S c f s) = cf_packed f || match s with STag TStereo => existsb c_is_packed (kinds_of S c) | STag TAbstract => false | _ => false end.
Proof.
  intros S c f s. destruct s as [k v|t|it]; [|destruct t|]; cbn [c_slot]; rewrite ?orb_false_r; try reflexivity.
  - destruct (sc_abstract c); reflexivity.
  - destruct (c_has_doc c); reflexivity.
  - apply c_apply_packed.
Qed.

Lemma c_slots_comment : forall S c l f,
  cf_comment (fold_left (c_slot S c) l f) = if has_tag TDoc l && c_has_doc c then doc_value (sc_doc c) else cf_comment f.
Proof.
  intros S c. induction l as [|s r IH]; intro f; [reflexivity|].
  cbn [fold_left]. rewrite IH, c_has_tag_cons.
  destruct s as [k v|t|it]; [|destruct t|]; cbn [c_slot tag_eqb orb]; try reflexivity.
  - destruct (sc_abstract c); reflexivity.
  - destruct (c_has_doc c); cbn [andb]; [|rewrite !andb_false_r; reflexivity].
    destruct (has_tag TDoc r); reflexivity.
  - rewrite c_apply_comment. reflexivity.
Qed.

Lemma c_slots_literals : forall S c l f, cf_literals (fold_left (c_slot S c) l f) = cf_literals f.
Proof.
  intros S c. induction l as [|s r IH]; intro f; [reflexivity|].
  cbn [fold_left]. rewrite IH. destruct s as [k v|t|it]; [|destruct t|]; cbn [c_slot]; try reflexivity.
  - destruct (sc_abstract c); reflexivity.
  - destruct (c_has_doc c); reflexivity.
  - apply c_apply_literals.
Qed.

(* ---------------------------------------------------------------- the owned elements of the class body *)

Lemma c_children_app : forall a b, children_of (a ++ b)%list = (children_of a ++ children_of b)%list.
Proof. intros a b. unfold children_of. apply flat_map_app. Qed.

(* an owned element of an inert property: the reader does not take it for a member *)
Definition c_inert (n : wnode) : bool := kind_child_ok KClass (node_type n).

Definition c_kidsf (c : sclass) (s : slot) : list wnode :=
  match s with
  | STag t => match class_item c t with Some it => kids_of it | None => [] end
  | SInert it => kids_of it
  | SNoise _ _ => []
  end.

Lemma c_item_kids : forall c t,
  match class_item c t with Some it => kids_of it | None => [] end
  = match t with TChild => map tree_of_member (sc_members c) | _ => [] end.
Proof.
  intros c t. destruct t; cbn [class_item]; try reflexivity.
  - unfold flag_field. destruct (sc_abstract c); reflexivity.
  - destruct (sc_doc c) as [v|x]; cbn [doc_field]; [|reflexivity]. unfold text_field. destruct (String.eqb v ""); reflexivity.
  - destruct (sc_members c) as [|m ms]; reflexivity.
  - destruct (sc_stereos c); reflexivity.
Qed.

Lemma c_nodup_seen : forall l seen t, nodup_tags l seen = true -> existsb (tag_eqb t) seen = true -> has_tag t l = false.
Proof.
  induction l as [|s r IH]; intros seen t H Hs; [reflexivity|].
  rewrite c_has_tag_cons. destruct s as [k v|x|it]; cbn [nodup_tags] in H.
  - cbn [orb]. exact (IH seen t H Hs).
  - c_split. destruct (tag_eqb x t) eqn:E.
    + apply tag_eqb_eq in E. subst x.
      match goal with H : negb _ = true |- _ => rewrite Hs in H; discriminate H end.
    + cbn [orb]. apply (IH (x :: seen) t); [assumption|]. cbn [existsb]. rewrite Hs. apply orb_true_r.
  - cbn [orb]. exact (IH seen t H Hs).
Qed.

(* the owned elements of a class body: inert ones, the members (in order), inert ones *)
Lemma c_kids : forall c l seen, nodup_tags l seen = true -> inerts_ok KClass l = true ->
  exists I1 I2, flat_map (c_kidsf c) l = (I1 ++ (if has_tag TChild l then map tree_of_member (sc_members c) else []) ++ I2)%list
                /\ forallb c_inert I1 = true /\ forallb c_inert I2 = true.
Proof.
  intros c l. induction l as [|s r IH]; intros seen H Hi; [exists [], []; repeat split; reflexivity|].
  unfold inerts_ok in Hi. cbn [forallb] in Hi. apply andb_true_iff in Hi. destruct Hi as [Hs Hr].
  cbn [flat_map]. rewrite c_has_tag_cons. destruct s as [k v|t|it]; cbn [nodup_tags] in H.
  - destruct (IH seen H Hr) as [I1 [I2 [E [H1 H2]]]]. exists I1, I2. cbn [c_kidsf app orb]. repeat split; assumption.
  - apply andb_true_iff in H. destruct H as [_ Hnd]. cbn [c_kidsf]. rewrite c_item_kids.
    destruct (IH _ Hnd Hr) as [I1 [I2 [E [H1 H2]]]].
    destruct (tag_eqb t TChild) eqn:Et.
    + apply tag_eqb_eq in Et. subst t.
      assert (Hno : has_tag TChild r = false) by (apply (c_nodup_seen r (TChild :: seen) TChild Hnd); reflexivity).
      rewrite Hno in E. cbn [app] in E. exists [], (I1 ++ I2)%list. cbn [orb app]. rewrite E.
      split; [reflexivity|]. split; [reflexivity|]. rewrite forallb_app, H1, H2. reflexivity.
    + exists I1, I2. cbn [orb].
      replace (match t with TChild => map tree_of_member (sc_members c) | _ => [] end) with (@nil wnode)
        by (destruct t; try reflexivity; discriminate Et).
      cbn [app]. repeat split; assumption.
  - destruct (IH seen H Hr) as [I1 [I2 [E [H1 H2]]]]. exists (kids_of it ++ I1)%list, I2. cbn [c_kidsf orb]. rewrite E.
    split; [apply app_assoc|]. split; [|exact H2]. rewrite forallb_app, H1, andb_true_r.
    destruct it as [ws k v|ws k o sep cl ids|ws k o sep cl ns|x|x]; try reflexivity.
    cbn [kids_of]. unfold inert_ok in Hs. apply andb_true_iff in Hs. destruct Hs as [_ Hs]. exact Hs.
Qed.

Lemma c_class_kids : forall S c, class_ok S c = true ->
  exists I1 I2, children_of (items_of (tabsn (sc_nl c) 1) (class_item c) (sc_layout c))
                = (I1 ++ map tree_of_member (sc_members c) ++ I2)%list
                /\ forallb c_inert I1 = true /\ forallb c_inert I2 = true.
Proof.
  intros S c H. unfold class_ok in H. c_split.
  match goal with H : layout_ok _ _ = true |- _ => destruct (c_layout_parts _ _ H) as [Hd [_ [_ [_ Hp]]]] end.
  match goal with H : inerts_ok KClass _ = true |- _ => destruct (c_kids c (sc_layout c) [] Hd H) as [I1 [I2 [Ekids [HI1 HI2]]]] end.
  exists I1, I2. rewrite children_of_layout. change (flat_map _ (sc_layout c)) with (flat_map (c_kidsf c) (sc_layout c)).
  rewrite Ekids. split; [|split; assumption]. f_equal. f_equal.
  destruct (sc_members c) as [|m ms] eqn:Em; [destruct (has_tag TChild (sc_layout c)); reflexivity|].
  rewrite (Hp TChild (IChildren (tabsn (sc_nl c) 1) "Child" (list_open (sc_nl c) 2) (list_sep (sc_nl c) 2) (list_close (sc_nl c) 1) (map tree_of_member (m :: ms)))); [reflexivity|].
  cbn [class_item]. rewrite Em. reflexivity.
Qed.

(* the dictionary of a member *)
Definition c_mtype (m : smember) : string :=
  match m with MOp _ => "Operation" | MAttr _ => "Attribute" | MLit _ _ _ _ => "EnumerationLiteral" end.
Definition c_mname (m : smember) : string :=
  match m with MOp o => so_name o | MAttr a => sa_name a | MLit _ n _ _ => n end.

Lemma c_member_dict : forall m, exists id its,
  node_pv (tree_of_member m) = PDict [("id", PStr id); ("name", PStr (c_mname m)); ("type", PStr (c_mtype m)); ("child_0", body_pv its)].
Proof.
  intro m. destruct m as [o|a|id nm nl noise]; unfold tree_of_member, tree_of_op, tree_of_attr; rewrite node_explicit; eexists; eexists; reflexivity.
Qed.

Lemma c_member_truthy : forall m, truthy (node_pv (tree_of_member m)) = true.
Proof. intro m. destruct (c_member_dict m) as [id [its E]]. rewrite E. reflexivity. Qed.
Lemma c_member_has_type : forall m, has "type" (node_pv (tree_of_member m)) = true.
Proof. intro m. destruct (c_member_dict m) as [id [its E]]. rewrite E. reflexivity. Qed.
Lemma c_member_type : forall m, sidx "type" (node_pv (tree_of_member m)) = Some (c_mtype m).
Proof. intro m. destruct (c_member_dict m) as [id [its E]]. rewrite E. reflexivity. Qed.
Lemma c_member_name : forall m, sidx "name" (node_pv (tree_of_member m)) = Some (c_mname m).
Proof. intro m. destruct (c_member_dict m) as [id [its E]]. rewrite E. reflexivity. Qed.

(* the dictionary of an owned element of an inert property *)
Lemma c_inert_dict : forall n, exists id nm its,
  node_pv n = PDict [("id", PStr id); ("name", PStr nm); ("type", PStr (node_type n)); ("child_0", body_pv its)].
Proof. intro n. destruct n as [id nm ty its tl]. rewrite node_explicit. eexists. eexists. eexists. reflexivity. Qed.

Lemma c_inert_truthy : forall n, truthy (node_pv n) = true.
Proof. intro n. destruct (c_inert_dict n) as [id [nm [its E]]]. rewrite E. reflexivity. Qed.
Lemma c_inert_has_type : forall n, has "type" (node_pv n) = true.
Proof. intro n. destruct (c_inert_dict n) as [id [nm [its E]]]. rewrite E. reflexivity. Qed.
Lemma c_inert_type : forall n, sidx "type" (node_pv n) = Some (node_type n).
Proof. intro n. destruct (c_inert_dict n) as [id [nm [its E]]]. rewrite E. reflexivity. Qed.

(* ---------------------------------------------------------------- (1) the literals *)

Definition c_lit (m : smember) : list string := match m with MLit _ n _ _ => [n] | _ => [] end.

Lemma c_add_lits_nil : forall f, c_add_lits f [] = f.
Proof. intro f. destruct f as [b1 b2 b3 b4 b5 cm ls]. unfold c_add_lits. cbn [cf_pure cf_autogen cf_enum cf_struct cf_packed cf_comment cf_literals]. rewrite app_nil_r. reflexivity. Qed.
Lemma c_add_lits_add : forall f a b, c_add_lits (c_add_lits f a) b = c_add_lits f (a ++ b)%list.
Proof. intros f a b. unfold c_add_lits. cbn [cf_pure cf_autogen cf_enum cf_struct cf_packed cf_comment cf_literals]. rewrite app_assoc. reflexivity. Qed.

Lemma c_step_child : forall S g f n m, member_ok S m = true ->
  stereo_step g f ("child_" ++ dec n, node_pv (tree_of_member m)) = Some (c_add_lits f (if cf_enum f then c_lit m else [])).
Proof.
  intros S g f n m Hm. unfold stereo_step. cbn [fst snd].
  rewrite c_child_stereo, c_child_abstract, c_child_doc, c_child_child.
  destruct (cf_enum f) eqn:En; [|rewrite c_add_lits_nil; reflexivity].
  rewrite c_member_has_type, c_member_type. cbn [bind].
  destruct m as [o|a|id nm nl noise]; cbn [c_mtype c_lit].
  - change (String.eqb (py_strip (Uml.lower "Operation")) "enumerationliteral") with false. cbn iota. rewrite c_add_lits_nil. reflexivity.
  - change (String.eqb (py_strip (Uml.lower "Attribute")) "enumerationliteral") with false. cbn iota. rewrite c_add_lits_nil. reflexivity.
  - change (String.eqb (py_strip (Uml.lower "EnumerationLiteral")) "enumerationliteral") with true. cbn iota.
    rewrite c_member_name. cbn [bind c_mname].
    cbn [member_ok] in Hm. c_split.
    match goal with H : mname nm = true |- _ => unfold mname, ntxt, UmlDomain.nameok in H end. c_split.
    match goal with H : String.eqb (py_strip nm) nm = true |- _ => apply String.eqb_eq in H; rewrite H end.
    unfold c_add_lits. rewrite En. reflexivity.
Qed.

Lemma c_flags_children : forall S g ms, forallb (member_ok S) ms = true ->
  forall n f, foldM (stereo_step g) (numbered (map node_pv (map tree_of_member ms)) n) f
              = Some (c_add_lits f (if cf_enum f then flat_map c_lit ms else [])).
Proof.
  intros S g ms. induction ms as [|m r IH]; intros H n f.
  - cbn [map numbered foldM flat_map]. destruct (cf_enum f); rewrite c_add_lits_nil; reflexivity.
  - cbn [forallb] in H. c_split. cbn [map numbered foldM flat_map].
    rewrite (c_step_child S g f n m) by assumption. cbn [bind]. rewrite IH by assumption.
    rewrite c_add_lits_add. change (cf_enum (c_add_lits f (if cf_enum f then c_lit m else []))) with (cf_enum f).
    destruct (cf_enum f); reflexivity.
Qed.

Lemma c_step_inert : forall g f k n, c_inert n = true -> stereo_step g f ("child_" ++ dec k, node_pv n) = Some f.
Proof.
  intros g f k n H. unfold stereo_step. cbn [fst snd].
  rewrite c_child_stereo, c_child_abstract, c_child_doc, c_child_child.
  destruct (cf_enum f); [|reflexivity].
  rewrite c_inert_has_type, c_inert_type. cbn [bind].
  unfold c_inert, kind_child_ok in H. c_split.
  match goal with H : negb (String.eqb (py_strip _) _) = true |- _ => apply negb_true_iff in H; rewrite H end. reflexivity.
Qed.

Lemma c_flags_inerts : forall g ns, forallb c_inert ns = true ->
  forall n f, foldM (stereo_step g) (numbered (map node_pv ns) n) f = Some f.
Proof.
  intros g ns. induction ns as [|x r IH]; intros H n f; [reflexivity|].
  cbn [forallb] in H. c_split. cbn [map numbered foldM]. rewrite c_step_inert by assumption. cbn [bind]. apply IH. assumption.
Qed.

(* the flags after the whole body *)
Lemma c_flags_body : forall S g c ws l ms I1 I2 f,
  g_names S g -> forallb (fun i => ident i && known S i) (sc_stereos c) = true ->
  nl_ok (sc_nl c) = true -> doc_ok (tabsn (sc_nl c) 1) (sc_doc c) = true ->
  c_noise_ok l = true -> inerts_ok KClass l = true -> forallb c_inert I1 = true -> forallb c_inert I2 = true ->
  forallb (member_ok S) ms = true ->
  foldM (stereo_step g) (entries (items_of ws (class_item c) l) ++ numbered (map node_pv (I1 ++ map tree_of_member ms ++ I2)) 0)%list f
  = Some (c_add_lits (fold_left (c_slot S c) l f) (if cf_enum (fold_left (c_slot S c) l f) then flat_map c_lit ms else [])).
Proof.
  intros S g c ws l ms I1 I2 f Hg Hst Hnl Hdoc Hn Hi H1 H2 Hm.
  rewrite c_foldM_app, (c_flags_entries S g c ws Hg Hst Hnl Hdoc l Hn Hi). cbn [bind].
  rewrite !map_app, !numbered_app, c_foldM_app.
  rewrite (c_flags_inerts g I1 H1). cbn [bind]. rewrite c_foldM_app, (c_flags_children S g ms Hm). cbn [bind].
  apply (c_flags_inerts g I2 H2).
Qed.

(* ---------------------------------------------------------------- (2), (3) the children of one type *)

Definition c_tstep {A : Type} (g : string -> option velem) (ty : string) (p : (string -> option velem) -> UmlBlob.pv -> option A)
  (acc : list A) (kv : string * UmlBlob.pv) : option (list A) :=
  if is_child_key (fst kv) then
    if truthy (snd kv) then
      t <- sidx "type" (snd kv) ;;
      if String.eqb ty (Uml.lower t) then x <- p g (snd kv) ;; Some (acc ++ [x])%list else Some acc
    else Some acc
  else Some acc.

Lemma c_typed_children_eq : forall A g top ty (p : (string -> option velem) -> UmlBlob.pv -> option A),
  typed_children g top ty p = over_children top (c_tstep g ty p) [].
Proof. reflexivity. Qed.

Lemma c_typed_members : forall A g ty (p : (string -> option velem) -> UmlBlob.pv -> option A) (sel : smember -> list A) ms,
  (forall m, In m ms ->
     if String.eqb ty (Uml.lower (c_mtype m)) then exists x, p g (node_pv (tree_of_member m)) = Some x /\ sel m = [x] else sel m = []) ->
  forall n acc, foldM (c_tstep g ty p) (numbered (map node_pv (map tree_of_member ms)) n) acc = Some (acc ++ flat_map sel ms)%list.
Proof.
  intros A g ty p sel ms. induction ms as [|m r IH]; intros H n acc.
  - cbn [map numbered foldM flat_map]. rewrite app_nil_r. reflexivity.
  - cbn [map numbered foldM flat_map].
    assert (E : c_tstep g ty p acc ("child_" ++ dec n, node_pv (tree_of_member m)) = Some (acc ++ sel m)%list).
    { unfold c_tstep. cbn [fst snd]. rewrite c_child_is, c_member_truthy, c_member_type. cbn [bind].
      specialize (H m (or_introl eq_refl)). destruct (String.eqb ty (Uml.lower (c_mtype m))).
      - destruct H as [x [Hx Hs]]. rewrite Hx, Hs. reflexivity.
      - rewrite H, app_nil_r. reflexivity. }
    rewrite E. cbn [bind]. rewrite IH; [rewrite app_assoc; reflexivity|].
    intros m' Hm'. apply H. right. exact Hm'.
Qed.

Lemma c_typed_inerts : forall A g ty (p : (string -> option velem) -> UmlBlob.pv -> option A) ns,
  ty = "operation" \/ ty = "attribute" -> forallb c_inert ns = true ->
  forall n acc, foldM (c_tstep g ty p) (numbered (map node_pv ns) n) acc = Some acc.
Proof.
  intros A g ty p ns Hty. induction ns as [|x r IH]; intros H n acc; [reflexivity|].
  cbn [forallb] in H. apply andb_true_iff in H. destruct H as [Hx Hr]. cbn [map numbered foldM].
  assert (E : c_tstep g ty p acc ("child_" ++ dec n, node_pv x) = Some acc).
  { unfold c_tstep. cbn [fst snd]. rewrite c_child_is, c_inert_truthy, c_inert_type. cbn [bind].
    unfold c_inert, kind_child_ok in Hx. c_split.
    repeat match goal with H : negb _ = true |- _ => apply negb_true_iff in H end.
    destruct Hty; subst ty; rewrite String.eqb_sym;
      match goal with H : String.eqb (Uml.lower (node_type x)) _ = false |- _ => rewrite H end; reflexivity. }
  rewrite E. cbn [bind]. apply IH. exact Hr.
Qed.

Lemma c_typed_body : forall A g ty (p : (string -> option velem) -> UmlBlob.pv -> option A) (sel : smember -> list A) c ws l ms I1 I2,
  ty = "operation" \/ ty = "attribute" ->
  nl_ok (sc_nl c) = true -> doc_ok (tabsn (sc_nl c) 1) (sc_doc c) = true ->
  c_noise_ok l = true -> inerts_ok KClass l = true -> forallb c_inert I1 = true -> forallb c_inert I2 = true ->
  (forall m, In m ms ->
     if String.eqb ty (Uml.lower (c_mtype m)) then exists x, p g (node_pv (tree_of_member m)) = Some x /\ sel m = [x] else sel m = []) ->
  foldM (c_tstep g ty p) (entries (items_of ws (class_item c) l) ++ numbered (map node_pv (I1 ++ map tree_of_member ms ++ I2)) 0)%list []
  = Some (flat_map sel ms).
Proof.
  intros A g ty p sel c ws l ms I1 I2 Hty Hnl Hdoc Hn Hi H1 H2 H. rewrite c_foldM_app, c_foldM_skip.
  - cbn [bind]. rewrite !map_app, !numbered_app, c_foldM_app.
    rewrite (c_typed_inerts A g ty p I1 Hty H1). cbn [bind]. rewrite c_foldM_app, (c_typed_members A g ty p sel ms H). cbn [bind].
    apply (c_typed_inerts A g ty p I2 Hty H2).
  - intros kv Hin acc. unfold c_tstep. rewrite (c_class_entries_notchild c ws l Hnl Hdoc Hn Hi kv Hin). reflexivity.
Qed.

(* ---------------------------------------------------------------- the top dictionary *)

Lemma c_over_top : forall (St : Type) a b t d (f : St -> string * UmlBlob.pv -> option St) s,
  over_children (PDict [("id", a); ("name", b); ("type", t); ("child_0", PDict d)]) f s = foldM f d s.
Proof.
  intros St a b t d f s. unfold over_children. cbn [items bind foldM fst snd].
  change (is_child_key "id") with false. change (is_child_key "name") with false. change (is_child_key "type") with false.
  change (is_child_key "child_0") with true. cbn iota. cbn [bind]. destruct (foldM f d s); reflexivity.
Qed.

(* ---------------------------------------------------------------- present properties are in the layout *)

Section Present.
Variables (S : sdiagram) (c : sclass) (l : list slot).
Hypothesis Hp : forall t it, class_item c t = Some it -> has_tag t l = true.

Lemma c_stereo_present : forall K, has_tag TStereo l && existsb K (kinds_of S c) = existsb K (kinds_of S c).
Proof.
  intro K. unfold kinds_of. destruct (sc_stereos c) as [|i r] eqn:E; [apply andb_false_r|].
  erewrite Hp; [reflexivity|]. cbn [class_item]. rewrite E. reflexivity.
Qed.

Lemma c_abstract_present : has_tag TAbstract l && sc_abstract c = sc_abstract c.
Proof.
  destruct (sc_abstract c) eqn:E; [|apply andb_false_r].
  erewrite Hp; [reflexivity|]. cbn [class_item]. unfold flag_field. rewrite E. reflexivity.
Qed.

Lemma c_doc_present : (if has_tag TDoc l && c_has_doc c then doc_value (sc_doc c) else "") = doc_value (sc_doc c).
Proof.
  unfold c_has_doc. destruct (doc_field (tabsn (sc_nl c) 1) (sc_doc c)) as [it|] eqn:E.
  - erewrite Hp; [reflexivity|]. cbn [class_item]. exact E.
  - rewrite andb_false_r. symmetry. exact (doc_absent _ _ E).
Qed.
End Present.

(* ---------------------------------------------------------------- the class *)

Definition c_flags0 : cflags :=
  {| cf_pure := false; cf_autogen := false; cf_enum := false; cf_struct := false; cf_packed := false; cf_comment := ""; cf_literals := [] |}.

Lemma build_class : goal_op -> goal_attr -> goal_class.
Proof.
  intros Gop Gattr S g P v c Hg Hc HP Hid Hnm.
  pose proof Hc as Hc'. unfold class_ok in Hc'. c_split.
  match goal with H : forallb (member_ok S) _ = true |- _ => rename H into Hmem end.
  match goal with H : forallb (fun i => ident i && known S i) _ = true |- _ => rename H into Hst end.
  match goal with H : nl_ok _ = true |- _ => rename H into Hnl end.
  match goal with H : doc_ok _ _ = true |- _ => rename H into Hdoc end.
  match goal with H : inerts_ok _ _ = true |- _ => rename H into Hin end.
  match goal with H : layout_ok _ _ = true |- _ => destruct (c_layout_parts _ _ H) as [Hd [Hk [Hch [Hn Hp]]]] end.
  unfold parse_class. rewrite HP. cbn [bind].
  unfold tree_of_class. rewrite top_explicit.
  rewrite body_explicit; [|rewrite entry_keys_ws; exact Hk|rewrite entry_keys_ws; exact Hch].
  destruct (c_class_kids S c Hc) as [I1 [I2 [Ekids [HI1 HI2]]]]. rewrite Ekids.
  rewrite !c_typed_children_eq, !c_over_top.
  (* (2) operations *)
  rewrite (c_typed_body _ g "operation" parse_operation (fun m => match m with MOp o => [rop_of S o] | _ => [] end) c
             (tabsn (sc_nl c) 1) (sc_layout c) (sc_members c) I1 I2 (or_introl eq_refl) Hnl Hdoc Hn Hin HI1 HI2).
  2:{ intros m Hm. rewrite forallb_forall in Hmem. specialize (Hmem m Hm). destruct m as [o|a|id nm nl noise]; cbn [c_mtype].
      - change (String.eqb "operation" (Uml.lower "Operation")) with true. cbn iota.
        exists (rop_of S o). split; [apply Gop; assumption|reflexivity].
      - reflexivity.
      - reflexivity. }
  (* (3) attributes *)
  rewrite (c_typed_body _ g "attribute" parse_attribute (fun m => match m with MAttr a => [rattr_of S a] | _ => [] end) c
             (tabsn (sc_nl c) 1) (sc_layout c) (sc_members c) I1 I2 (or_intror eq_refl) Hnl Hdoc Hn Hin HI1 HI2).
  2:{ intros m Hm. rewrite forallb_forall in Hmem. specialize (Hmem m Hm). destruct m as [o|a|id nm nl noise]; cbn [c_mtype].
      - reflexivity.
      - change (String.eqb "attribute" (Uml.lower "Attribute")) with true. cbn iota.
        exists (rattr_of S a). split; [apply Gattr; assumption|reflexivity].
      - reflexivity. }
  (* (1) flags *)
  fold c_flags0.
  rewrite (c_flags_body S g c (tabsn (sc_nl c) 1) (sc_layout c) (sc_members c) I1 I2 c_flags0 Hg Hst Hnl Hdoc Hn Hin HI1 HI2 Hmem).
  cbn [bind].
  set (F := fold_left (c_slot S c) (sc_layout c) c_flags0).
  unfold c_add_lits. cbn [cf_pure cf_autogen cf_enum cf_struct cf_packed cf_comment cf_literals].
  unfold F.
  rewrite (c_or_fold S c cf_pure _ _ (c_slot_pure S c)), (c_or_fold S c cf_autogen _ _ (c_slot_autogen S c)),
          (c_or_fold S c cf_enum _ _ (c_slot_enum S c)), (c_or_fold S c cf_struct _ _ (c_slot_struct S c)),
          (c_or_fold S c cf_packed _ _ (c_slot_packed S c)), c_slots_comment, c_slots_literals.
  cbn [c_flags0 cf_pure cf_autogen cf_enum cf_struct cf_packed cf_comment cf_literals orb app].
  rewrite !andb_false_r, !orb_false_r, !(c_stereo_present S c _ Hp), (c_abstract_present c _ Hp), (c_doc_present c _ Hp).
  rewrite Hid, Hnm. unfold rclass0, set_ns, rclass_of.
  cbn [rc_id rc_name rc_ns rc_pure rc_autogen rc_enum rc_struct rc_packed rc_comment rc_literals rc_ops rc_attrs].
  rewrite (orb_comm (existsb (is_kind KIface) (kinds_of S c)) (sc_abstract c)).
  reflexivity.
Qed.

Print Assumptions build_class.
