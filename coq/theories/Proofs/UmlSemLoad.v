(* C19 semantic read-back, ClassDiagram.LoadAndTest: given what the object builders make of the element blobs (goal_class,
   goal_package, goal_inh, goal_assoc), loading the rows of a semantic class diagram gives the specified objects: type dispatch,
   dictionaries in shape order, namespaces from the package chain, PostProjectParseFix of the inheritances. *)
From Coq Require Import String Ascii List Bool Arith Lia.
From KV Require Import Lib.Str Lib.ODict Model.Vpp Model.VppWriter Model.Uml Model.UmlBlob Model.UmlWriter Model.UmlSem
                       Proofs.VppDefs Proofs.VppTable Proofs.UmlBlobDefs Proofs.UmlBlobStruct Proofs.UmlBlobText Proofs.UmlBlobTop Proofs.UmlBlobRound
                       Proofs.UmlSemDefs Proofs.UmlSemDict Proofs.UmlSemGoals.
Import ListNotations.
Open Scope string_scope.

(* ---------------------------------------------------------------- generic facts: strings, lists, foldM *)

Lemma sl_app_assoc : forall a b c : string, (a ++ b) ++ c = a ++ (b ++ c).
Proof. induction a as [|x a IH]; intros b c; cbn [append]; [reflexivity | rewrite IH; reflexivity]. Qed.

Lemma sl_app_nil_r : forall a : string, a ++ "" = a.
Proof. induction a as [|x a IH]; cbn [append]; [reflexivity | rewrite IH; reflexivity]. Qed.

Lemma sl_nodups_NoDup : forall l, nodups l = true -> NoDup l.
Proof.
  induction l as [|x r IH]; intros H; [constructor|].
  cbn [nodups] in H. apply andb_true_iff in H. destruct H as [H1 H2].
  constructor; [|auto]. apply negb_true_iff in H1. apply existsb_eqb_nIn in H1. exact H1.
Qed.

Lemma sl_find_unique : forall (A : Type) (key : A -> string) (l : list A) (x : A),
  NoDup (map key l) -> In x l -> find (fun y => String.eqb (key y) (key x)) l = Some x.
Proof.
  intros A key l x. induction l as [|a r IH]; intros Hnd Hin; [destruct Hin|].
  cbn [map] in Hnd. inversion Hnd as [|k ks Hni Hnd']; subst. cbn [find].
  destruct Hin as [->|Hin]; [rewrite String.eqb_refl; reflexivity|].
  destruct (String.eqb (key a) (key x)) eqn:E; [|auto].
  apply String.eqb_eq in E. exfalso. apply Hni. rewrite E. apply in_map. exact Hin.
Qed.

Lemma sl_key_unique : forall (A : Type) (key : A -> string) (l : list A) (x y : A),
  NoDup (map key l) -> In x l -> In y l -> key x = key y -> x = y.
Proof.
  intros A key l x y Hnd Hx Hy E.
  pose proof (sl_find_unique A key l x Hnd Hx) as F1. pose proof (sl_find_unique A key l y Hnd Hy) as F2.
  rewrite E in F1. rewrite F1 in F2. inversion F2. reflexivity.
Qed.

Lemma sl_foldM_app : forall (A St : Type) (f : St -> A -> option St) (l1 l2 : list A) (s : St),
  foldM f (l1 ++ l2)%list s = match foldM f l1 s with Some s' => foldM f l2 s' | None => None end.
Proof.
  intros A St f l1 l2. induction l1 as [|x r IH]; intros s; [reflexivity|].
  cbn [app foldM]. destruct (f s x) as [s'|]; cbn [bind]; [apply IH | reflexivity].
Qed.

Lemma sl_foldM_flat : forall (A B St : Type) (f : St -> B -> option St) (h : A -> list B) (l : list A) (s : St),
  foldM (fun s x => foldM f (h x) s) l s = foldM f (flat_map h l) s.
Proof.
  intros A B St f h l. induction l as [|x r IH]; intros s; [reflexivity|].
  cbn [foldM flat_map]. rewrite sl_foldM_app. destruct (foldM f (h x) s) as [s'|]; cbn [bind]; [apply IH | reflexivity].
Qed.

(* split / join / removelast / rstrip *)

Lemma sl_split_nonempty : forall c s, split_on c s <> [].
Proof.
  intros c s. destruct s as [|x s]; cbn [split_on]; [discriminate|].
  destruct (split_on c s); [discriminate|]. destruct (Ascii.eqb x c); discriminate.
Qed.

Lemma sl_split_none : forall c a, no_char c a = true -> split_on c a = [a].
Proof.
  intros c a. induction a as [|x a IH]; intro H; [reflexivity|].
  cbn [no_char] in H. apply andb_true_iff in H. destruct H as [H1 H2]. apply negb_true_iff in H1.
  cbn [split_on]. rewrite (IH H2), H1. reflexivity.
Qed.

Lemma sl_split_app : forall c a b, split_on c (a ++ String c b) = (split_on c a ++ split_on c b)%list.
Proof.
  intros c a b. induction a as [|x a IH].
  - cbn [append split_on app]. generalize (sl_split_nonempty c b).
    destruct (split_on c b); [congruence|]. intros _. rewrite Ascii.eqb_refl. reflexivity.
  - cbn [append split_on]. rewrite IH. generalize (sl_split_nonempty c a).
    destruct (split_on c a) as [|h t]; [congruence|]. intros _. cbn [app].
    destruct (Ascii.eqb x c); reflexivity.
Qed.

Lemma sl_join_cons2 : forall sep x y r, Uml.join sep (x :: y :: r) = x ++ sep ++ Uml.join sep (y :: r).
Proof. reflexivity. Qed.

Lemma sl_split_join : forall p, p <> [] -> forallb (no_char ":") p = true -> split_on ":" (Uml.join ":" p) = p.
Proof.
  induction p as [|x r IH]; intros Hne H; [congruence|].
  cbn [forallb] in H. apply andb_true_iff in H. destruct H as [Hx Hr].
  destruct r as [|y r].
  - cbn [Uml.join]. apply sl_split_none. exact Hx.
  - rewrite sl_join_cons2. change (":" ++ Uml.join ":" (y :: r)) with (String ":" (Uml.join ":" (y :: r))).
    rewrite sl_split_app, (sl_split_none _ _ Hx), IH; [reflexivity | discriminate | exact Hr].
Qed.

Lemma sl_removelast_str : forall l, removelast_str l = removelast l.
Proof.
  induction l as [|x r IH]; [reflexivity|]. destruct r as [|y r]; [reflexivity|].
  change (x :: removelast_str (y :: r) = x :: removelast (y :: r)). rewrite IH. reflexivity.
Qed.

Lemma sl_rstrip_app2 : forall c a b, rstrip_char c b = "" -> rstrip_char c (a ++ b) = rstrip_char c a.
Proof.
  intros c a b Hb. induction a as [|x a IH]; [exact Hb|].
  cbn [append rstrip_char]. rewrite IH. reflexivity.
Qed.

Lemma sl_rstrip_app1 : forall c a b, rstrip_char c b <> "" -> rstrip_char c (a ++ b) = a ++ rstrip_char c b.
Proof.
  intros c a b Hb. induction a as [|x a IH]; [reflexivity|].
  cbn [append rstrip_char]. rewrite IH.
  destruct (a ++ rstrip_char c b) eqn:E; [|reflexivity].
  exfalso. destruct a; cbn [append] in E; [contradiction | discriminate].
Qed.

Lemma sl_rstrip_id : forall c n, no_char c n = true -> rstrip_char c n = n.
Proof.
  intros c n. induction n as [|x r IH]; intros H; [reflexivity|].
  cbn [no_char] in H. apply andb_true_iff in H. destruct H as [H1 H2]. apply negb_true_iff in H1.
  cbn [rstrip_char]. rewrite (IH H2). destruct r; [rewrite H1; reflexivity | reflexivity].
Qed.

Fixpoint catn (l : list string) : string := match l with [] => "" | n :: r => n ++ "::" ++ catn r end.

Lemma sl_join_nonempty : forall m r, m <> "" -> Uml.join "::" (m :: r) <> "".
Proof.
  intros m r Hm. destruct m as [|a m]; [congruence|]. destruct r as [|y r].
  - cbn [Uml.join]. discriminate.
  - rewrite sl_join_cons2. cbn [append]. discriminate.
Qed.

Lemma sl_rstrip_catn : forall names, forallb (fun n => no_char ":" n && negb (String.eqb n "")) names = true ->
  rstrip_char ":" (catn names) = Uml.join "::" names.
Proof.
  induction names as [|n r IH]; intros H; [reflexivity|].
  cbn [forallb] in H. apply andb_true_iff in H. destruct H as [Hn Hr]. apply andb_true_iff in Hn. destruct Hn as [Hn1 Hn2].
  specialize (IH Hr). cbn [catn].
  destruct r as [|m r].
  - cbn [catn Uml.join]. rewrite sl_rstrip_app2 by reflexivity. apply sl_rstrip_id. exact Hn1.
  - assert (Hm : m <> "").
    { cbn [forallb] in Hr. apply andb_true_iff in Hr. destruct Hr as [Hm _]. apply andb_true_iff in Hm. destruct Hm as [_ Hm].
      apply negb_true_iff in Hm. intro E. subst m. discriminate. }
    pose proof (sl_join_nonempty m r Hm) as Hj. rewrite <- IH in Hj.
    assert (E2 : rstrip_char ":" ("::" ++ catn (m :: r)) = "::" ++ rstrip_char ":" (catn (m :: r))) by (apply sl_rstrip_app1; exact Hj).
    rewrite sl_rstrip_app1; rewrite E2.
    + rewrite IH, sl_join_cons2. reflexivity.
    + cbn [append]. discriminate.
Qed.

(* ---------------------------------------------------------------- the shapes of a diagram: ids, entries, lookups *)

Definition sid_of (se : string * selem) : string := elem_id (snd se).

Definition cls_entries {V : Type} (f : sclass -> V) (l : list (string * selem)) : list (string * V) :=
  flat_map (fun se => match snd se with EClass c => [(sc_id c, f c)] | _ => [] end) l.
Definition pkg_entries {V : Type} (f : spackage -> V) (l : list (string * selem)) : list (string * V) :=
  flat_map (fun se => match snd se with EPackage p => [(sk_id p, f p)] | _ => [] end) l.
Definition inh_entries {V : Type} (f : sinh -> V) (l : list (string * selem)) : list (string * V) :=
  flat_map (fun se => match snd se with EInh i => [(si_id i, f i)] | _ => [] end) l.
Definition assoc_entries {V : Type} (f : sassoc -> V) (l : list (string * selem)) : list (string * V) :=
  flat_map (fun se => match snd se with EAssoc x => [(sx_id x, f x)] | _ => [] end) l.
Definition paths_in (l : list (string * selem)) : list (list string) :=
  flat_map (fun se => match snd se with EPackage p => sk_paths p | _ => [] end) l.

Definition class_of_in (l : list (string * selem)) (id : string) : option sclass :=
  match find (fun se => match snd se with EClass c => String.eqb (sc_id c) id | _ => false end) l with
  | Some (_, EClass c) => Some c
  | _ => None
  end.
Definition pkg_of_in (l : list (string * selem)) (id : string) : option spackage :=
  match find (fun se => match snd se with EPackage k => String.eqb (sk_id k) id | _ => false end) l with
  | Some (_, EPackage k) => Some k
  | _ => None
  end.

Lemma lookup_cls_entries : forall (V : Type) (f : sclass -> V) l id,
  lookup String.eqb id (cls_entries f l) = option_map f (class_of_in l id).
Proof.
  intros V f l id. induction l as [|[sid e] r IH]; [reflexivity|].
  unfold cls_entries, class_of_in in *. cbn [flat_map find snd].
  destruct e as [c|p|i|x|a b c0 d e0]; cbn [app]; try exact IH.
  cbn [lookup]. rewrite (String.eqb_sym (sc_id c) id). destruct (String.eqb id (sc_id c)); [reflexivity | exact IH].
Qed.

Lemma lookup_pkg_entries : forall (V : Type) (f : spackage -> V) l id,
  lookup String.eqb id (pkg_entries f l) = option_map f (pkg_of_in l id).
Proof.
  intros V f l id. induction l as [|[sid e] r IH]; [reflexivity|].
  unfold pkg_entries, pkg_of_in in *. cbn [flat_map find snd].
  destruct e as [c|p|i|x|a b c0 d e0]; cbn [app]; try exact IH.
  cbn [lookup]. rewrite (String.eqb_sym (sk_id p) id). destruct (String.eqb id (sk_id p)); [reflexivity | exact IH].
Qed.

Lemma class_of_in_some : forall l id c, class_of_in l id = Some c -> sc_id c = id /\ exists sid, In (sid, EClass c) l.
Proof.
  intros l id c H. unfold class_of_in in H.
  destruct (find (fun se => match snd se with EClass c => String.eqb (sc_id c) id | _ => false end) l) as [[sid e]|] eqn:F; [|discriminate].
  apply find_some in F. destruct F as [Hin Hp]. cbn [snd] in Hp.
  destruct e; try discriminate. inversion H; subst. split; [apply String.eqb_eq; exact Hp | exists sid; exact Hin].
Qed.

Lemma pkg_of_in_some : forall l id k, pkg_of_in l id = Some k -> sk_id k = id /\ exists sid, In (sid, EPackage k) l.
Proof.
  intros l id k H. unfold pkg_of_in in H.
  destruct (find (fun se => match snd se with EPackage k => String.eqb (sk_id k) id | _ => false end) l) as [[sid e]|] eqn:F; [|discriminate].
  apply find_some in F. destruct F as [Hin Hp]. cbn [snd] in Hp.
  destruct e; try discriminate. inversion H; subst. split; [apply String.eqb_eq; exact Hp | exists sid; exact Hin].
Qed.

Lemma pkg_of_in_exists : forall l id,
  existsb (fun se => match snd se with EPackage k => String.eqb (sk_id k) id | _ => false end) l = true ->
  exists k, pkg_of_in l id = Some k.
Proof.
  intros l id H. apply existsb_exists in H. destruct H as [se [Hin Hp]]. unfold pkg_of_in.
  destruct (find (fun se => match snd se with EPackage k => String.eqb (sk_id k) id | _ => false end) l) as [[sid e]|] eqn:F.
  - apply find_some in F. destruct F as [_ Hq]. cbn [snd] in Hq. destruct e; try discriminate. eexists; reflexivity.
  - pose proof (find_none _ _ F se Hin) as Hn. cbn beta in Hn. rewrite Hp in Hn. discriminate.
Qed.

Lemma keys_cls_entries : forall (V : Type) (f : sclass -> V) l k, In k (map fst (cls_entries f l)) -> In k (map sid_of l).
Proof.
  intros V f l k. induction l as [|[sid e] r IH]; intros H; [exact H|].
  unfold cls_entries in *. cbn [flat_map snd] in H. cbn [map]. unfold sid_of at 1. cbn [snd].
  destruct e; cbn [app map fst In elem_id] in *; try (right; apply IH; exact H).
  destruct H as [H|H]; [left; exact H | right; apply IH; exact H].
Qed.

Lemma nodup_cls_entries : forall (V : Type) (f : sclass -> V) l, NoDup (map sid_of l) -> NoDup (map fst (cls_entries f l)).
Proof.
  intros V f l. induction l as [|[sid e] r IH]; intros H; [constructor|].
  cbn [map] in H. inversion H as [|k ks Hni Hnd]; subst. specialize (IH Hnd).
  unfold cls_entries in *. cbn [flat_map snd]. destruct e; cbn [app map fst]; try exact IH.
  constructor; [|exact IH]. intro Hk. apply Hni. unfold sid_of at 1. cbn [snd elem_id]. apply (keys_cls_entries V f r). exact Hk.
Qed.

Lemma cls_entries_ext : forall (V : Type) (f g : sclass -> V) l,
  (forall sid c, In (sid, EClass c) l -> f c = g c) -> cls_entries f l = cls_entries g l.
Proof.
  intros V f g l. induction l as [|[sid e] r IH]; intros H; [reflexivity|].
  unfold cls_entries in *. cbn [flat_map snd]. rewrite IH by (intros s c Hc; apply (H s c); right; exact Hc).
  destruct e; try reflexivity. rewrite (H sid c) by (left; reflexivity). reflexivity.
Qed.

(* ---------------------------------------------------------------- the rows: GetModelElement, the structural reading *)

Lemma node_id_welem : forall e, node_id (we_node (welem_of e)) = elem_id e.
Proof. destruct e; reflexivity. Qed.
Lemma node_name_welem : forall e, ostr (node_name (we_node (welem_of e))) = elem_name e.
Proof. destruct e; reflexivity. Qed.

Lemma rows_find : forall (sh : list (string * selem)) (rf : list sref) id,
  find (fun m => String.eqb (me_id m) id)
       (map (fun se => melem_of_welem (welem_of (snd se))) sh ++ map (fun r => melem_of_welem (welem_of_ref r)) rf)%list
  = match find (fun se => String.eqb (sid_of se) id) sh with
    | Some se => Some (melem_of_welem (welem_of (snd se)))
    | None => match find (fun r => String.eqb (sr_id r) id) rf with Some r => Some (melem_of_welem (welem_of_ref r)) | None => None end
    end.
Proof.
  intros sh rf id. induction sh as [|a r IH].
  - cbn [map app find]. induction rf as [|x rf IHr]; [reflexivity|].
    cbn [map find]. change (me_id (melem_of_welem (welem_of_ref x))) with (sr_id x).
    destruct (String.eqb (sr_id x) id); [reflexivity | exact IHr].
  - cbn [map app find]. change (me_id (melem_of_welem (welem_of (snd a)))) with (node_id (we_node (welem_of (snd a)))).
    rewrite node_id_welem. unfold sid_of at 1. destruct (String.eqb (elem_id (snd a)) id); [reflexivity | exact IH].
Qed.

Lemma g_find : forall (D : sdiagram) id,
  get_model_element (cmelem_rows (tree_of D)) id
  = match find (fun se => String.eqb (sid_of se) id) (sd_shapes D) with
    | Some se => Some (velem_of (melem_of_welem (welem_of (snd se))))
    | None => match find (fun r => String.eqb (sr_id r) id) (sd_refd D) with Some r => Some (velem_of (melem_of_welem (welem_of_ref r))) | None => None end
    end.
Proof.
  intros D id. rewrite gme_row. unfold row_with_id, cmelem_rows, tree_of. cbn [wd_drawn wd_referenced]. rewrite !map_map.
  cbn [snd]. rewrite (rows_find (sd_shapes D) (sd_refd D) id).
  destruct (find (fun se => String.eqb (sid_of se) id) (sd_shapes D)); [reflexivity|].
  destruct (find (fun r => String.eqb (sr_id r) id) (sd_refd D)); reflexivity.
Qed.

Lemma g_names_rows : forall D : sdiagram, g_names D (get_model_element (cmelem_rows (tree_of D))).
Proof.
  intros D id n H. rewrite g_find. unfold name_of in H. fold sid_of in H.
  change (fun se : string * selem => String.eqb (elem_id (snd se)) id) with (fun se : string * selem => String.eqb (sid_of se) id) in H.
  destruct (find (fun se => String.eqb (sid_of se) id) (sd_shapes D)) as [se|].
  - inversion H; subst. eexists. split; [reflexivity|]. unfold velem_of, melem_of_welem. cbn [ve_name me_name]. apply node_name_welem.
  - destruct (find (fun r => String.eqb (sr_id r) id) (sd_refd D)) as [r|]; [|discriminate].
    inversion H; subst. eexists. split; reflexivity.
Qed.

Lemma find_drawn : forall (sh : list (string * selem)) id,
  find (fun se => String.eqb (node_id (we_node (snd se))) id) (map (fun se => (fst se, welem_of (snd se))) sh)
  = option_map (fun se => (fst se, welem_of (snd se))) (find (fun se => String.eqb (sid_of se) id) sh).
Proof.
  intros sh id. induction sh as [|a r IH]; [reflexivity|].
  cbn [map find snd]. rewrite node_id_welem. unfold sid_of at 1.
  destruct (String.eqb (elem_id (snd a)) id); [reflexivity | exact IH].
Qed.

Lemma at_shape : forall (D : sdiagram) se, NoDup (map sid_of (sd_shapes D)) -> In se (sd_shapes D) ->
  get_model_element (cmelem_rows (tree_of D)) (elem_id (snd se)) = Some (velem_of (melem_of_welem (welem_of (snd se))))
  /\ struct_of (tree_of D) (velem_of (melem_of_welem (welem_of (snd se)))) = Some (top_pv_c (we_node (welem_of (snd se)))).
Proof.
  intros D se Hnd Hin. pose proof (sl_find_unique _ sid_of _ se Hnd Hin) as F. split.
  - rewrite g_find. change (elem_id (snd se)) with (sid_of se). rewrite F. reflexivity.
  - unfold struct_of, tree_of. cbn [wd_drawn].
    change (ve_id (velem_of (melem_of_welem (welem_of (snd se))))) with (node_id (we_node (welem_of (snd se)))).
    rewrite node_id_welem. rewrite find_drawn. change (elem_id (snd se)) with (sid_of se). rewrite F. reflexivity.
Qed.

(* the header of a class / package / inheritance row holds no colon: top_pv_c is top_pv there *)
Lemma sl_txt_textok : forall s, txt s = true -> textok s = true.
Proof.
  intros s H. unfold txt in H. apply andb_true_iff in H. destruct H as [H _]. apply andb_true_iff in H. destruct H as [H _].
  apply andb_true_iff in H. destruct H as [H H3]. apply andb_true_iff in H. destruct H as [H1 H2].
  unfold textok. rewrite H1, H2, H3. reflexivity.
Qed.

Lemma sl_plain_name_char : forall c, plain_char c = true -> name_char c = true.
Proof. intros c. destruct c as [[] [] [] [] [] [] [] []]; vm_compute; intro H; (reflexivity || discriminate H). Qed.

Lemma sl_plain_name_chars : forall s, plain s = true -> name_chars s = true.
Proof.
  induction s as [|c r IH]; intro H; [reflexivity|]. cbn [plain] in H. apply andb_true_iff in H. destruct H as [H1 H2].
  cbn [name_chars]. rewrite (sl_plain_name_char c H1), (IH H2). reflexivity.
Qed.

Lemma sl_txt_nameok : forall s, txt s = true -> nameok s = true.
Proof.
  intros s H. unfold txt in H. apply andb_true_iff in H. destruct H as [H _]. apply andb_true_iff in H. destruct H as [H _].
  apply andb_true_iff in H. destruct H as [H H3]. apply andb_true_iff in H. destruct H as [H1 _].
  unfold nameok. rewrite (sl_plain_name_chars s H1), H3. reflexivity.
Qed.

Lemma sl_headok : forall id nm ty, ident id = true ->
  match nm with Some s => txt s && no_char ":" s | None => true end = true -> ident ty = true -> headok id nm ty = true.
Proof.
  intros id nm ty Hi Hn Ht. unfold ident in Hi, Ht.
  apply andb_true_iff in Hi. destruct Hi as [Hi I3]. apply andb_true_iff in Hi. destruct Hi as [I1 I2].
  apply andb_true_iff in Ht. destruct Ht as [Ht T3]. apply andb_true_iff in Ht. destruct Ht as [T1 T2].
  unfold headok. rewrite (sl_txt_textok _ I1), I2, I3, (sl_txt_textok _ T1), T2, T3.
  destruct nm as [s|]; [|reflexivity]. apply andb_true_iff in Hn. destruct Hn as [N1 N2].
  rewrite (sl_txt_nameok _ N1). reflexivity.
Qed.

Lemma sl_top_plain : forall id nm ty its tl, ident id = true ->
  match nm with Some s => txt s && no_char ":" s | None => true end = true -> ident ty = true ->
  top_pv_c (WNode id nm ty its tl) = top_pv (WNode id nm ty its tl).
Proof. intros id nm ty its tl Hi Hn Ht. apply top_pv_c_plain. apply sl_headok; assumption. Qed.

(* ---------------------------------------------------------------- the type dispatch of LoadAndTest *)

Lemma load_elem_class : forall g (P : velem -> option UmlBlob.pv) d e mid v c0,
  de_model e = Some mid -> g mid = Some v -> ve_type v = "Class" -> parse_class g P v = Some c0 ->
  load_elem g P (Some d) e
  = Some {| rd_classes := upsert String.eqb (ve_id v) c0 (rd_classes d); rd_packages := rd_packages d; rd_assocs := rd_assocs d; rd_inhs := rd_inhs d |}.
Proof.
  intros g P d e mid v c0 Hm Hg Ht Hp. unfold load_elem. cbn [bind]. rewrite Hm. cbn [bind]. rewrite Hg. cbn [bind].
  rewrite Ht. change (String.eqb "Class" "Class") with true. cbv iota. rewrite Hp. reflexivity.
Qed.

Lemma load_elem_package : forall g (P : velem -> option UmlBlob.pv) d e mid v p0,
  de_model e = Some mid -> g mid = Some v -> ve_type v = "Package" -> parse_package P v = Some p0 ->
  load_elem g P (Some d) e
  = Some {| rd_classes := rd_classes d; rd_packages := upsert String.eqb (ve_id v) p0 (rd_packages d); rd_assocs := rd_assocs d; rd_inhs := rd_inhs d |}.
Proof.
  intros g P d e mid v p0 Hm Hg Ht Hp. unfold load_elem. cbn [bind]. rewrite Hm. cbn [bind]. rewrite Hg. cbn [bind].
  rewrite Ht. change (String.eqb "Package" "Class") with false. change (String.eqb "Package" "Package") with true. cbv iota.
  rewrite Hp. reflexivity.
Qed.

Lemma load_elem_inh : forall g (P : velem -> option UmlBlob.pv) d e mid v (real : bool) i0,
  de_model e = Some mid -> g mid = Some v -> ve_type v = (if real then "Realization" else "Generalization") ->
  parse_inheritance g P v real = Some i0 ->
  load_elem g P (Some d) e
  = Some {| rd_classes := rd_classes d; rd_packages := rd_packages d; rd_assocs := rd_assocs d; rd_inhs := upsert String.eqb (ve_id v) i0 (rd_inhs d) |}.
Proof.
  intros g P d e mid v real i0 Hm Hg Ht Hp. unfold load_elem. cbn [bind]. rewrite Hm. cbn [bind]. rewrite Hg. cbn [bind].
  rewrite Ht. destruct real.
  - change (String.eqb "Realization" "Class") with false. change (String.eqb "Realization" "Package") with false.
    change (String.eqb "Realization" "Association") with false. change (String.eqb "Realization" "Realization") with true.
    cbv iota. cbn [orb]. rewrite Hp. reflexivity.
  - change (String.eqb "Generalization" "Class") with false. change (String.eqb "Generalization" "Package") with false.
    change (String.eqb "Generalization" "Association") with false. change (String.eqb "Generalization" "Realization") with false.
    change (String.eqb "Generalization" "Generalization") with true.
    cbv iota. cbn [orb]. rewrite Hp. reflexivity.
Qed.

Lemma load_elem_assoc : forall g (P : velem -> option UmlBlob.pv) d e mid v a0,
  de_model e = Some mid -> g mid = Some v -> ve_type v = "Association" -> parse_association g P v = Some a0 ->
  load_elem g P (Some d) e
  = Some {| rd_classes := rd_classes d; rd_packages := rd_packages d; rd_assocs := upsert String.eqb (ve_id v) a0 (rd_assocs d); rd_inhs := rd_inhs d |}.
Proof.
  intros g P d e mid v a0 Hm Hg Ht Hp. unfold load_elem. cbn [bind]. rewrite Hm. cbn [bind]. rewrite Hg. cbn [bind].
  rewrite Ht. change (String.eqb "Association" "Class") with false. change (String.eqb "Association" "Package") with false.
  change (String.eqb "Association" "Association") with true. cbv iota.
  rewrite Hp. reflexivity.
Qed.

Lemma load_elem_other : forall g (P : velem -> option UmlBlob.pv) d e mid v,
  de_model e = Some mid -> g mid = Some v ->
  existsb (String.eqb (ve_type v)) ["Class"; "Package"; "Association"; "Realization"; "Generalization"] = false ->
  load_elem g P (Some d) e = Some d.
Proof.
  intros g P d e mid v Hm Hg Ht. unfold load_elem. cbn [bind]. rewrite Hm. cbn [bind]. rewrite Hg. cbn [bind].
  cbn [existsb] in Ht. apply orb_false_iff in Ht. destruct Ht as [H1 Ht]. apply orb_false_iff in Ht. destruct Ht as [H2 Ht].
  apply orb_false_iff in Ht. destruct Ht as [H3 Ht]. apply orb_false_iff in Ht. destruct Ht as [H4 Ht].
  apply orb_false_iff in Ht. destruct Ht as [H5 _].
  rewrite H1, H2, H3, H4, H5. reflexivity.
Qed.

(* ---------------------------------------------------------------- the diagram predicate, per shape *)

Definition shape_ok (D : sdiagram) (se : string * selem) : bool :=
  match snd se with
  | EClass c => class_ok D c
  | EPackage p => package_ok D p
  | EInh i => inh_ok D i
  | EAssoc x => assoc_ok D x
  | EOther id nm ty _ nl noise =>
      nl_ok nl && ident id && match nm with Some n => txt n && no_char ":" n | None => true end && ident ty
      && negb (existsb (String.eqb ty) ["Class"; "Package"; "Association"; "Realization"; "Generalization"])
      && layout_ok (fun _ => None) noise && inerts_ok KNone noise
  end.

Lemma sok_split : forall D, sdiagram_ok D = true ->
  forallb (shape_ok D) (sd_shapes D) = true /\ NoDup (map sid_of (sd_shapes D)) /\ NoDup (map (fun p => last p "") (all_paths D)).
Proof.
  intros D H. unfold sdiagram_ok in H. apply andb_true_iff in H. destruct H as [H H4]. apply andb_true_iff in H. destruct H as [H H3].
  apply andb_true_iff in H. destruct H as [H1 _].
  split; [|split; [exact (sl_nodups_NoDup _ H3) | exact (sl_nodups_NoDup _ H4)]].
  apply forallb_forall. intros se Hse. rewrite forallb_forall in H1. specialize (H1 se Hse).
  apply andb_true_iff in H1. destruct H1 as [H1 _]. exact H1.
Qed.

(* what LoadAndTest does with one shape *)
Definition step (D : sdiagram) (d : rdiagram) (se : string * selem) : rdiagram :=
  match snd se with
  | EClass c => {| rd_classes := upsert String.eqb (sc_id c) (rclass0 D c) (rd_classes d); rd_packages := rd_packages d;
                   rd_assocs := rd_assocs d; rd_inhs := rd_inhs d |}
  | EPackage p => {| rd_classes := rd_classes d; rd_packages := upsert String.eqb (sk_id p) (rpackage_of p) (rd_packages d);
                     rd_assocs := rd_assocs d; rd_inhs := rd_inhs d |}
  | EInh i => {| rd_classes := rd_classes d; rd_packages := rd_packages d; rd_assocs := rd_assocs d;
                 rd_inhs := upsert String.eqb (si_id i) (rinh0 D i (si_real i)) (rd_inhs d) |}
  | EAssoc x => {| rd_classes := rd_classes d; rd_packages := rd_packages d;
                   rd_assocs := upsert String.eqb (sx_id x) (rassoc_of D x) (rd_assocs d); rd_inhs := rd_inhs d |}
  | EOther _ _ _ _ _ _ => d
  end.

Lemma load_elem_step : goal_class -> goal_package -> goal_inh -> goal_assoc ->
  forall (D : sdiagram) se e d, sdiagram_ok D = true -> In se (sd_shapes D) -> de_model e = Some (elem_id (snd se)) ->
  load_elem (get_model_element (cmelem_rows (tree_of D))) (struct_of (tree_of D)) (Some d) e = Some (step D d se).
Proof.
  intros GC GP GI GA D se e d Hok Hin Hm.
  destruct (sok_split D Hok) as [Hsh [Hnd _]].
  destruct (at_shape D se Hnd Hin) as [Hg HP].
  rewrite forallb_forall in Hsh. specialize (Hsh se Hin). unfold shape_ok in Hsh.
  pose proof (g_names_rows D) as Hgn.
  remember (velem_of (melem_of_welem (welem_of (snd se)))) as v eqn:Ev.
  assert (Hty : ve_type v = node_type (we_node (welem_of (snd se)))) by (subst v; reflexivity).
  assert (Hid : ve_id v = elem_id (snd se)) by (subst v; exact (node_id_welem (snd se))).
  assert (Hnm : ve_name v = elem_name (snd se)) by (subst v; exact (node_name_welem (snd se))).
  clear Ev. unfold step. destruct (snd se) as [c|p|i|x|id nm ty par nl noise].
  - change (node_type (we_node (welem_of (EClass c)))) with "Class" in Hty.
    change (we_node (welem_of (EClass c))) with (tree_of_class c) in HP. cbn [elem_id] in *. cbn [elem_name] in Hnm.
    assert (Hpl : top_pv_c (tree_of_class c) = top_pv (tree_of_class c)).
    { pose proof Hsh as Hc. unfold class_ok in Hc. do 5 (apply andb_true_iff in Hc; destruct Hc as [Hc _]).
      apply andb_true_iff in Hc. destruct Hc as [Hc C3]. apply andb_true_iff in Hc. destruct Hc as [Hc C2].
      apply andb_true_iff in Hc. destruct Hc as [_ C1].
      unfold tree_of_class. apply sl_top_plain; [exact C1 | rewrite C2, C3; reflexivity | reflexivity]. }
    rewrite Hpl in HP.
    rewrite (load_elem_class _ _ d e _ v (rclass0 D c) Hm Hg Hty (GC D _ _ v c Hgn Hsh HP Hid Hnm)). rewrite Hid. reflexivity.
  - change (node_type (we_node (welem_of (EPackage p)))) with "Package" in Hty.
    change (we_node (welem_of (EPackage p))) with (tree_of_package p) in HP. cbn [elem_id] in *. cbn [elem_name] in Hnm.
    assert (Hpl : top_pv_c (tree_of_package p) = top_pv (tree_of_package p)).
    { pose proof Hsh as Hc. unfold package_ok in Hc. do 3 (apply andb_true_iff in Hc; destruct Hc as [Hc _]).
      apply andb_true_iff in Hc. destruct Hc as [Hc C2]. apply andb_true_iff in Hc. destruct Hc as [_ C1].
      unfold tree_of_package. apply sl_top_plain; [exact C1 | | reflexivity].
      unfold ident in C2. apply andb_true_iff in C2. destruct C2 as [C2 _].
      apply andb_true_iff in C2. destruct C2 as [C2 C3]. rewrite C2, C3. reflexivity. }
    rewrite Hpl in HP.
    rewrite (load_elem_package _ _ d e _ v (rpackage_of p) Hm Hg Hty (GP D _ v p Hsh HP Hid Hnm)). rewrite Hid. reflexivity.
  - change (node_type (we_node (welem_of (EInh i)))) with (if si_real i then "Realization" else "Generalization") in Hty.
    change (we_node (welem_of (EInh i))) with (tree_of_inh i) in HP. cbn [elem_id] in *.
    assert (Hpl : top_pv_c (tree_of_inh i) = top_pv (tree_of_inh i)).
    { pose proof Hsh as Hc. unfold inh_ok in Hc. do 6 (apply andb_true_iff in Hc; destruct Hc as [Hc _]).
      apply andb_true_iff in Hc. destruct Hc as [_ Hc].
      unfold tree_of_inh. apply sl_top_plain; [exact Hc | reflexivity | destruct (si_real i); reflexivity]. }
    rewrite Hpl in HP.
    rewrite (load_elem_inh _ _ d e _ v (si_real i) (rinh0 D i (si_real i)) Hm Hg Hty (GI D _ _ v i (si_real i) Hgn Hsh HP Hid)).
    rewrite Hid. reflexivity.
  - change (node_type (we_node (welem_of (EAssoc x)))) with "Association" in Hty.
    change (we_node (welem_of (EAssoc x))) with (tree_of_assoc x) in HP. cbn [elem_id] in *. cbn [elem_name] in Hnm.
    rewrite (load_elem_assoc _ _ d e _ v (rassoc_of D x) Hm Hg Hty (GA D _ _ v x Hgn Hsh HP Hid Hnm)). rewrite Hid. reflexivity.
  - change (node_type (we_node (welem_of (EOther id nm ty par nl noise)))) with ty in Hty.
    apply (load_elem_other _ _ d e _ v Hm Hg). rewrite Hty.
    do 2 (apply andb_true_iff in Hsh; destruct Hsh as [Hsh _]). apply andb_true_iff in Hsh. destruct Hsh as [_ Hsh].
    apply negb_true_iff in Hsh. exact Hsh.
Qed.

Lemma fold_load_step : goal_class -> goal_package -> goal_inh -> goal_assoc ->
  forall (D : sdiagram), sdiagram_ok D = true ->
  forall (l : list (string * selem)) d, incl l (sd_shapes D) ->
  fold_left (load_elem (get_model_element (cmelem_rows (tree_of D))) (struct_of (tree_of D)))
            (map (fun se => {| de_id := fst se; de_shape := node_type (we_node (welem_of (snd se))); de_diagram := sd_id D;
                               de_model := Some (node_id (we_node (welem_of (snd se)))) |}) l) (Some d)
  = Some (fold_left (step D) l d).
Proof.
  intros GC GP GI GA D Hok l. induction l as [|se r IH]; intros d Hincl; [reflexivity|].
  cbn [map fold_left]. rewrite (load_elem_step GC GP GI GA D se _ d Hok).
  - apply IH. intros x Hx. apply Hincl. right. exact Hx.
  - apply Hincl. left. reflexivity.
  - cbn [de_model]. rewrite node_id_welem. reflexivity.
Qed.

Lemma cdelem_rows_tree : forall D : sdiagram,
  cdelem_rows (tree_of D)
  = map (fun se => {| de_id := fst se; de_shape := node_type (we_node (welem_of (snd se))); de_diagram := sd_id D;
                      de_model := Some (node_id (we_node (welem_of (snd se)))) |}) (sd_shapes D).
Proof. intros D. unfold cdelem_rows, tree_of. cbn [wd_drawn wd_id]. rewrite map_map. reflexivity. Qed.

(* the dictionaries after all shapes: in shape order *)
Lemma fold_step_entries : forall (D : sdiagram) (l : list (string * selem)) d, NoDup (map sid_of l) ->
  (forall x, In x (map sid_of l) -> ~ In x (map fst (rd_classes d)) /\ ~ In x (map fst (rd_packages d)) /\ ~ In x (map fst (rd_inhs d))
             /\ ~ In x (map fst (rd_assocs d))) ->
  fold_left (step D) l d
  = {| rd_classes := (rd_classes d ++ cls_entries (rclass0 D) l)%list; rd_packages := (rd_packages d ++ pkg_entries rpackage_of l)%list;
       rd_assocs := (rd_assocs d ++ assoc_entries (rassoc_of D) l)%list;
       rd_inhs := (rd_inhs d ++ inh_entries (fun i => rinh0 D i (si_real i)) l)%list |}.
Proof.
  intros D l. induction l as [|[sid e] r IH]; intros d Hnd Hfr.
  - cbn [fold_left]. unfold cls_entries, pkg_entries, inh_entries, assoc_entries. cbn [flat_map]. rewrite !app_nil_r. destruct d; reflexivity.
  - cbn [map] in Hnd. inversion Hnd as [|k ks Hni Hnd']; subst.
    assert (Hhd := Hfr (sid_of (sid, e)) (or_introl eq_refl)). destruct Hhd as [F1 [F2 [F3 F4]]].
    assert (Hne : forall x, In x (map sid_of r) -> x <> sid_of (sid, e)) by (intros x Hx E; subst x; exact (Hni Hx)).
    cbn [fold_left]. rewrite IH; [|exact Hnd'|].
    + unfold step, cls_entries, pkg_entries, inh_entries, assoc_entries. cbn [flat_map snd]. unfold sid_of in F1, F2, F3, F4. cbn [snd] in F1, F2, F3, F4.
      destruct e; cbn [elem_id] in F1, F2, F3, F4; cbn [rd_classes rd_packages rd_assocs rd_inhs app].
      * rewrite (upsert_fresh _ _ _ _ F1), <- app_assoc. reflexivity.
      * rewrite (upsert_fresh _ _ _ _ F2), <- app_assoc. reflexivity.
      * rewrite (upsert_fresh _ _ _ _ F3), <- app_assoc. reflexivity.
      * rewrite (upsert_fresh _ _ _ _ F4), <- app_assoc. reflexivity.
      * reflexivity.
    + intros x Hx. specialize (Hne x Hx). destruct (Hfr x (or_intror Hx)) as [G1 [G2 [G3 G4]]].
      unfold step, sid_of in *. cbn [snd] in *.
      destruct e; cbn [elem_id rd_classes rd_packages rd_inhs rd_assocs] in *.
      * rewrite (upsert_fresh _ _ _ _ F1), map_app, in_app_iff. cbn [map fst In]. intuition congruence.
      * rewrite (upsert_fresh _ _ _ _ F2), map_app, in_app_iff. cbn [map fst In]. intuition congruence.
      * rewrite (upsert_fresh _ _ _ _ F3), map_app, in_app_iff. cbn [map fst In]. intuition congruence.
      * rewrite (upsert_fresh _ _ _ _ F4), map_app, in_app_iff. cbn [map fst In]. intuition congruence.
      * intuition.
Qed.

(* ---------------------------------------------------------------- namespaces from the package chain *)

Definition ns_step (pkgs : list (string * rpackage)) (cls : list (string * rclass)) (path : string) : option (list (string * rclass)) :=
  let parts := split_on ":" path in
  ns <- foldM (fun acc pid => p <- lookup String.eqb pid pkgs ;; Some (acc ++ rk_name p ++ "::")) (removelast_str parts) "" ;;
  let ns' := rstrip_char ":" ns in
  match lookup String.eqb (last_of parts) cls with
  | Some c => Some (upsert String.eqb (last_of parts) (set_ns c ns') cls)
  | None => Some cls
  end.

Lemma namespaces_flat : forall d,
  namespaces d = foldM (ns_step (rd_packages d)) (flat_map (fun kp => rk_classes (snd kp)) (rd_packages d)) (rd_classes d).
Proof. intros d. unfold namespaces. rewrite <- sl_foldM_flat. reflexivity. Qed.

Lemma pkg_paths : forall l, flat_map (fun kp : string * rpackage => rk_classes (snd kp)) (pkg_entries rpackage_of l) = map path_text (paths_in l).
Proof.
  induction l as [|[sid e] r IH]; [reflexivity|].
  unfold pkg_entries, paths_in in *. cbn [flat_map snd]. rewrite flat_map_app, map_app, IH.
  destruct e; try reflexivity. cbn [flat_map snd rpackage_of rk_classes]. rewrite app_nil_r. reflexivity.
Qed.

(* the classes with namespaces N (by class id) *)
Definition apply_ns (N : string -> string) (L : list (string * rclass)) : list (string * rclass) :=
  map (fun kc => (fst kc, set_ns (snd kc) (N (fst kc)))) L.

Lemma set_ns_twice : forall c a b, set_ns (set_ns c a) b = set_ns c b.
Proof. intros c a b. destruct c; reflexivity. Qed.

Lemma apply_ns_ext : forall N N' L, (forall k, In k (map fst L) -> N k = N' k) -> apply_ns N L = apply_ns N' L.
Proof.
  intros N N' L H. unfold apply_ns. apply map_ext_in. intros [k c] Hin. cbn [fst snd]. rewrite (H k); [reflexivity|].
  apply (in_map fst) in Hin. exact Hin.
Qed.

Lemma lookup_none_notin : forall (V : Type) k (L : list (string * V)), lookup String.eqb k L = None -> ~ In k (map fst L).
Proof.
  intros V k L. induction L as [|[k0 v0] r IH]; intros H; [intros []|].
  cbn [lookup] in H. destruct (String.eqb k k0) eqn:E; [discriminate|].
  cbn [map fst In]. intros [H1|H1]; [subst k0; rewrite String.eqb_refl in E; discriminate | exact (IH H H1)].
Qed.

Lemma keys_apply_ns : forall N L, map fst (apply_ns N L) = map fst L.
Proof. intros N L. unfold apply_ns. rewrite map_map. reflexivity. Qed.

Lemma upsert_apply_ns : forall N L k c' ns', NoDup (map fst L) -> lookup String.eqb k (apply_ns N L) = Some c' ->
  upsert String.eqb k (set_ns c' ns') (apply_ns N L) = apply_ns (fun id => if String.eqb id k then ns' else N id) L.
Proof.
  intros N L k c' ns'. induction L as [|[k0 c0] r IH]; intros Hnd Hl; [discriminate|].
  cbn [map fst] in Hnd. inversion Hnd as [|kk ks Hni Hnd']; subst.
  unfold apply_ns in *. cbn [map fst snd] in *. cbn [lookup] in Hl. cbn [upsert].
  destruct (String.eqb k k0) eqn:E.
  - apply String.eqb_eq in E. subst k0. inversion Hl; subst. rewrite String.eqb_refl, set_ns_twice. f_equal.
    apply map_ext_in. intros [k1 c1] Hin. cbn [fst snd].
    destruct (String.eqb k1 k) eqn:E1; [|reflexivity].
    apply String.eqb_eq in E1. subst k1. exfalso. apply Hni. apply (in_map fst) in Hin. exact Hin.
  - rewrite (String.eqb_sym k0 k), E. f_equal. apply IH; assumption.
Qed.

Definition nsname (D : sdiagram) (p : list string) : string := Uml.join "::" (map (fun i => ostr (name_of D i)) (removelast p)).
Definition upd (D : sdiagram) (N : string -> string) (p : list string) : string -> string :=
  fun id => if String.eqb id (last p "") then nsname D p else N id.

Definition path_good (D : sdiagram) (p : list string) : Prop :=
  p <> [] /\ forallb (no_char ":") p = true
  /\ forall pid, In pid (removelast p) ->
       exists k, lookup String.eqb pid (pkg_entries rpackage_of (sd_shapes D)) = Some (rpackage_of k)
                 /\ ostr (name_of D pid) = sk_name k /\ ident (sk_name k) = true.

Lemma ns_fold : forall (pkgs : list (string * rpackage)) (nm : string -> string) ids acc,
  (forall pid, In pid ids -> exists pk, lookup String.eqb pid pkgs = Some pk /\ rk_name pk = nm pid) ->
  foldM (fun acc pid => p <- lookup String.eqb pid pkgs ;; Some (acc ++ rk_name p ++ "::")) ids acc = Some (acc ++ catn (map nm ids)).
Proof.
  intros pkgs nm ids. induction ids as [|x r IH]; intros acc H.
  - cbn [foldM map catn]. rewrite sl_app_nil_r. reflexivity.
  - cbn [foldM map catn]. destruct (H x (or_introl eq_refl)) as [pk [Hl Hn]]. rewrite Hl. cbn [bind]. rewrite Hn.
    rewrite IH by (intros pid Hp; apply H; right; exact Hp). rewrite !sl_app_assoc. reflexivity.
Qed.

Lemma ident_parts : forall s, ident s = true -> no_char ":" s = true /\ negb (String.eqb s "") = true.
Proof.
  intros s H. unfold ident in H. apply andb_true_iff in H. destruct H as [H H2]. apply andb_true_iff in H. destruct H as [_ H1].
  split; assumption.
Qed.

Lemma ns_step_apply : forall (D : sdiagram) N L p, path_good D p -> NoDup (map fst L) ->
  ns_step (pkg_entries rpackage_of (sd_shapes D)) (apply_ns N L) (path_text p) = Some (apply_ns (upd D N p) L).
Proof.
  intros D N L p [Hne [Hnc Hpk]] Hnd. unfold ns_step, path_text. rewrite (sl_split_join p Hne Hnc), sl_removelast_str.
  rewrite (ns_fold _ (fun i => ostr (name_of D i)) (removelast p) "").
  2:{ intros pid Hp. destruct (Hpk pid Hp) as [k [Hl [Hn _]]]. exists (rpackage_of k). split; [exact Hl|]. rewrite Hn. reflexivity. }
  cbn [bind append]. rewrite sl_rstrip_catn.
  2:{ apply forallb_forall. intros n Hn. apply in_map_iff in Hn. destruct Hn as [pid [<- Hp]].
      destruct (Hpk pid Hp) as [k [_ [Hn Hi]]]. rewrite Hn. destruct (ident_parts _ Hi) as [A B]. rewrite A, B. reflexivity. }
  unfold last_of. fold (nsname D p).
  destruct (lookup String.eqb (last p "") (apply_ns N L)) as [c|] eqn:Hl.
  - rewrite (upsert_apply_ns N L _ c (nsname D p) Hnd Hl). reflexivity.
  - f_equal. apply apply_ns_ext. intros k Hk. unfold upd.
    destruct (String.eqb k (last p "")) eqn:E; [|reflexivity].
    apply String.eqb_eq in E. subst k. apply lookup_none_notin in Hl. rewrite keys_apply_ns in Hl. contradiction.
Qed.

Lemma ns_fold_paths : forall (D : sdiagram) L paths N, (forall p, In p paths -> path_good D p) -> NoDup (map fst L) ->
  foldM (ns_step (pkg_entries rpackage_of (sd_shapes D))) (map path_text paths) (apply_ns N L)
  = Some (apply_ns (fold_left (upd D) paths N) L).
Proof.
  intros D L paths. induction paths as [|p r IH]; intros N Hg Hnd; [reflexivity|].
  cbn [map foldM fold_left]. rewrite (ns_step_apply D N L p (Hg p (or_introl eq_refl)) Hnd). cbn [bind].
  apply IH; [|exact Hnd]. intros q Hq. apply Hg. right. exact Hq.
Qed.

Lemma upd_final : forall (D : sdiagram) paths N k, NoDup (map (fun p => last p "") paths) ->
  fold_left (upd D) paths N k
  = match find (fun p => String.eqb (last p "") k) paths with Some p => nsname D p | None => N k end.
Proof.
  intros D paths. induction paths as [|p r IH]; intros N k Hnd; [reflexivity|].
  cbn [map] in Hnd. inversion Hnd as [|kk ks Hni Hnd']; subst.
  cbn [fold_left find]. rewrite (IH _ k Hnd').
  destruct (String.eqb (last p "") k) eqn:E.
  - destruct (find (fun p0 => String.eqb (last p0 "") k) r) as [q|] eqn:F.
    + exfalso. apply find_some in F. destruct F as [Hq Eq]. apply String.eqb_eq in E. apply String.eqb_eq in Eq.
      apply Hni. rewrite E, <- Eq. apply (in_map (fun p => last p "")). exact Hq.
    + unfold upd. rewrite String.eqb_sym, E. reflexivity.
  - destruct (find (fun p0 => String.eqb (last p0 "") k) r) as [q|]; [reflexivity|].
    unfold upd. rewrite String.eqb_sym, E. reflexivity.
Qed.

Lemma name_of_shape : forall (D : sdiagram) se, NoDup (map sid_of (sd_shapes D)) -> In se (sd_shapes D) ->
  name_of D (elem_id (snd se)) = Some (elem_name (snd se)).
Proof.
  intros D se Hnd Hin. unfold name_of.
  change (find (fun se0 : string * selem => String.eqb (elem_id (snd se0)) (elem_id (snd se))) (sd_shapes D))
    with (find (fun y => String.eqb (sid_of y) (sid_of se)) (sd_shapes D)).
  rewrite (sl_find_unique _ sid_of _ se Hnd Hin). reflexivity.
Qed.

Lemma all_paths_good : forall D : sdiagram, sdiagram_ok D = true -> forall p, In p (all_paths D) -> path_good D p.
Proof.
  intros D Hok p Hp. destruct (sok_split D Hok) as [Hsh [Hnd _]]. rewrite forallb_forall in Hsh.
  unfold all_paths in Hp. apply in_flat_map in Hp. destruct Hp as [[sid0 e0] [Hin0 Hp]]. cbn [snd] in Hp.
  destruct e0 as [c|k0|i|x|a b c0 d e1]; try (destruct Hp).
  pose proof (Hsh _ Hin0) as Hk0. unfold shape_ok in Hk0. cbn [snd] in Hk0. unfold package_ok in Hk0.
  do 2 (apply andb_true_iff in Hk0; destruct Hk0 as [Hk0 _]). apply andb_true_iff in Hk0. destruct Hk0 as [_ Hk0].
  rewrite forallb_forall in Hk0. specialize (Hk0 p Hp).
  apply andb_true_iff in Hk0. destruct Hk0 as [Hk0 Hpk]. apply andb_true_iff in Hk0. destruct Hk0 as [Hne Hid].
  split; [|split].
  - intro E. subst p. discriminate.
  - apply forallb_forall. intros x Hx. rewrite forallb_forall in Hid. apply (ident_parts x (Hid x Hx)).
  - intros pid Hpid. rewrite forallb_forall in Hpk. specialize (Hpk pid Hpid).
    destruct (pkg_of_in_exists _ _ Hpk) as [k Hk]. exists k.
    destruct (pkg_of_in_some _ _ _ Hk) as [Eid [sid Hin]].
    split; [rewrite lookup_pkg_entries, Hk; reflexivity|].
    split.
    + pose proof (name_of_shape D (sid, EPackage k) Hnd Hin) as Hn. cbn [snd elem_id elem_name] in Hn. rewrite Eid in Hn. rewrite Hn. reflexivity.
    + pose proof (Hsh _ Hin) as Hk1. unfold shape_ok in Hk1. cbn [snd] in Hk1. unfold package_ok in Hk1.
      do 3 (apply andb_true_iff in Hk1; destruct Hk1 as [Hk1 _]).
      apply andb_true_iff in Hk1. destruct Hk1 as [_ Hk1]. exact Hk1.
Qed.

Lemma apply_ns_cls_entries : forall N (f : sclass -> rclass) l,
  apply_ns N (cls_entries f l) = cls_entries (fun c => set_ns (f c) (N (sc_id c))) l.
Proof.
  intros N f l. induction l as [|[sid e] r IH]; [reflexivity|].
  unfold apply_ns, cls_entries in *. cbn [flat_map snd]. rewrite map_app, IH. destruct e; reflexivity.
Qed.

Lemma set_ns_rclass_of : forall (D : sdiagram) c, set_ns (rclass0 D c) (ns_of D (sc_id c)) = rclass_of D c.
Proof. intros D c. unfold rclass0. rewrite set_ns_twice. reflexivity. Qed.

Lemma namespaces_shapes : forall D : sdiagram, sdiagram_ok D = true -> forall asc : list (string * rassoc),
  namespaces {| rd_classes := cls_entries (rclass0 D) (sd_shapes D); rd_packages := pkg_entries rpackage_of (sd_shapes D);
                rd_assocs := asc; rd_inhs := inh_entries (fun i => rinh0 D i (si_real i)) (sd_shapes D) |}
  = Some (cls_entries (rclass_of D) (sd_shapes D)).
Proof.
  intros D Hok asc. destruct (sok_split D Hok) as [_ [Hnd Hlp]].
  rewrite namespaces_flat. cbn [rd_packages rd_classes]. rewrite pkg_paths.
  change (paths_in (sd_shapes D)) with (all_paths D).
  assert (E0 : cls_entries (rclass0 D) (sd_shapes D) = apply_ns (fun _ => "") (cls_entries (rclass0 D) (sd_shapes D))).
  { rewrite apply_ns_cls_entries. apply cls_entries_ext. intros sid c _. unfold rclass0. rewrite set_ns_twice. reflexivity. }
  rewrite E0.
  rewrite (ns_fold_paths D _ (all_paths D) _ (all_paths_good D Hok) (nodup_cls_entries _ _ _ Hnd)).
  f_equal. rewrite apply_ns_cls_entries. apply cls_entries_ext. intros sid c _.
  rewrite (upd_final D (all_paths D) _ (sc_id c) Hlp).
  rewrite <- (set_ns_rclass_of D c). reflexivity.
Qed.

(* ---------------------------------------------------------------- PostProjectParseFix *)

Lemma fix_inh_shapes : forall (D : sdiagram) i,
  fix_inh (cls_entries (rclass_of D) (sd_shapes D)) (rinh0 D i (si_real i)) = rinh_of D i.
Proof.
  intros D i. unfold fix_inh, rinh0, rinh_of. cbn [ri_id ri_real ri_from ri_from_id ri_to ri_to_id].
  rewrite !lookup_cls_entries. unfold end_name, class_of_id. fold (class_of_in (sd_shapes D) (last (si_from i) "")).
  fold (class_of_in (sd_shapes D) (last (si_to i) "")).
  destruct (class_of_in (sd_shapes D) (last (si_from i) "")); destruct (class_of_in (sd_shapes D) (last (si_to i) "")); reflexivity.
Qed.

Lemma fix_inh_entries : forall (D : sdiagram) cls l,
  (forall i, fix_inh cls (rinh0 D i (si_real i)) = rinh_of D i) ->
  map (fun ki : string * rinh => (fst ki, fix_inh cls (snd ki))) (inh_entries (fun i => rinh0 D i (si_real i)) l) = inh_entries (rinh_of D) l.
Proof.
  intros D cls l H. induction l as [|[sid e] r IH]; [reflexivity|].
  unfold inh_entries in *. cbn [flat_map snd]. rewrite map_app, IH. destruct e; try reflexivity.
  cbn [map fst snd]. rewrite H. reflexivity.
Qed.

(* ---------------------------------------------------------------- the whole of LoadAndTest *)

Lemma load_semantic : goal_class -> goal_package -> goal_inh -> goal_assoc ->
  forall S : sdiagram, sdiagram_ok S = true ->
  load_gen (get_model_element (cmelem_rows (tree_of S))) (struct_of (tree_of S)) (cdelem_rows (tree_of S)) = Some (rdiagram_of S).
Proof.
  intros GC GP GI GA D Hok. destruct (sok_split D Hok) as [_ [Hnd _]].
  unfold load_gen. rewrite cdelem_rows_tree.
  rewrite (fold_load_step GC GP GI GA D Hok (sd_shapes D) _ (incl_refl _)).
  rewrite (fold_step_entries D (sd_shapes D) _ Hnd) by (intros x _; cbn [rd_classes rd_packages rd_inhs rd_assocs map]; intuition).
  cbn [bind rd_classes rd_packages rd_assocs rd_inhs app].
  rewrite (namespaces_shapes D Hok). cbn [bind rd_classes rd_packages rd_assocs rd_inhs].
  rewrite (fix_inh_entries D _ (sd_shapes D) (fix_inh_shapes D)). reflexivity.
Qed.

Print Assumptions load_semantic.
