(* C19, the C# back end: every operation once (the corollary of Proofs/UmlUnique.v on the C# view) and the namespace wrap. *)
From Coq Require Import String Ascii List Bool Arith.
From KV Require Import Lib.Str Lib.ODict Model.Vpp Gen.UmlSrc Gen.UmlCsSrc Model.Uml Model.UmlCs Spec.UmlSpec
                       Proofs.UmlProofs Proofs.UmlFiles Proofs.UmlUnique Proofs.UmlCsOps Proofs.UmlCsPins.
Import ListNotations.
Open Scope string_scope.

Definition same_op (e : entry) (x : entry) : bool := key_eqb (sig_key (en_op x)) (sig_key (en_op e)).

(* under "no operation is reached through two paths" (evaluated on the C# view: constness is no part of a C# signature) every
   operation the generated type holds is there exactly once *)
Lemma once_unique_cs : forall d c ms al e, c_name c <> "" -> once_hyp (cs_view d) (cs_cls c) = true -> wf_vis d = true ->
  forallb vis3 (c_ops c) = true ->
  all_cs (List.length (classes d)) d c = Some al -> members_cs (List.length (classes d)) d c = Some ms -> In e al ->
  count (same_op e) al = 1 /\ count (same_op e) ms = 1.
Proof.
  intros d c ms al e Hn Hh Hw Hv Ha Hm Hin. unfold all_cs, members_cs in *. rewrite <- (length_view d) in Ha, Hm.
  apply (once_unique_count (cs_view d) (cs_cls c) al ms e); try assumption.
  - rewrite wf_vis_view. exact Hw.
  - rewrite vis3_ops_view. exact Hv.
Qed.
Print Assumptions once_unique_cs.

(* the namespace functions of LanguageCsharp are, statement for statement, those of LanguageCPP (Gen/UmlCsSrc.v, regenerated on
   every run): the C++ theorem about ns_begin / ns_end is a theorem about the C# output too *)
Lemma namespace_balanced_cs : ns_functions_cs = ns_functions_cpp /\ forall ns body,
  ns_begin ns = lstrip_sp (ns_open_raw ns) /\ ns_end ns = lstrip (ns_close_raw ns) ++ " // end namespace " ++ ns
  /\ ns_open_raw ns = String SP (ns_begin ns) /\ ns_close_raw ns = String SP (lstrip (ns_close_raw ns))
  /\ ns_open_raw ns ++ body ++ ns_close_raw ns = wrap (split2 ":" ":" ns) body
  /\ join "::" (split2 ":" ":" ns) = ns.
Proof. split; [vm_compute; reflexivity | exact namespace_balanced]. Qed.
Print Assumptions namespace_balanced_cs.

(* every C# template wraps its type -- and every operation section -- between the namespace opening and closing, once *)
Lemma templates_wrapped_cs :
  map (fun r => (fst r, fst (snd r))) template_files_cs_layout
  = [("ClassTemplate.cs", true); ("EnumTemplate.cs", true); ("InterfaceTemplate.cs", true); ("Project.csproj", false); ("StructTemplate.cs", true)].
Proof. vm_compute. reflexivity. Qed.
