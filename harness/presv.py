"""Shared machinery for the preservation properties C01-C04 (and parts of C03/C06/C18):
real generator runs, capture of the engine output `fresh`, model-side regeneration, spec-side oracles."""
import copy
import os
from collections import OrderedDict

from . import kj
from .kj import (Generate, blocks, cgen, generate, preservative, quiet, read_tree, scratch, splice,
                 splitlines_keep, tabnorm, tag_pairs, write_tree)

KINDS = ("py", "cs", "cpp", "proto", "uml", "uml_cs")


class Capture:
    """Wrap CGenerator.preserve_usercode_in_files (from outside) to record the engine output at its entry."""

    def __init__(self):
        self.fresh = None
        self.after = None

    def __enter__(self):
        self.orig = cgen.CGenerator.preserve_usercode_in_files
        cap = self

        def wrapped(gen, codemodel, preserve_dir=""):
            cap.fresh = OrderedDict((k, list(v)) for k, v in codemodel.filenames_to_lines.items())
            r = cap.orig(gen, codemodel, preserve_dir)
            cap.after = OrderedDict((k, list(v)) for k, v in codemodel.filenames_to_lines.items())
            return r

        cgen.CGenerator.preserve_usercode_in_files = wrapped
        return self

    def __exit__(self, *a):
        cgen.CGenerator.preserve_usercode_in_files = self.orig


def random_input(rng, kind):
    """(kwargs for kj.generate, description) for one generator kind."""
    if kind in ("py", "cs", "cpp"):
        t = kj.random_table(rng)
        name = rng.choice(["X", "CDPlayer", "Foo", "A"])
        ut = {}
        if rng.random() < 0.4:
            ut["StateMachineThread"] = rng.choice([0, 1])
        if rng.random() < 0.3:
            ut["Verbose"] = rng.choice([0, 1])
        seed = rng.randint(0, 1 << 30)
        return dict(table=t, iface_seed=seed, usertags=ut, name=name, lang=kind), {"table": t, "name": name, "usertags": ut, "iface_seed": seed}
    if kind == "proto":
        seed = rng.randint(0, 1 << 30)
        name = rng.choice(["Proto", "P"])
        return dict(iface_seed=seed, name=name), {"iface_seed": seed, "name": name}
    diag = rng.choice(kj.UML_DIAGRAMS)
    ns = rng.choice(["", "1"])
    return dict(name=diag, ns=ns), {"name": diag, "ns": ns}


IFACES = {}
GENS = {}


def run_kind(kind, outdir, inp):
    """Run the real generator for an input produced by random_input (rebuilds the Interface deterministically)."""
    import random as _r
    if kind in ("py", "cs", "cpp"):
        # "iface_table": the interface is that of another (earlier) table; "reuse_iface": the caller keeps ONE Interface object and hands
        # it to every generation of the case (a build script that is edited and re-run inside one interpreter, a long-lived tool)
        key = inp.get("reuse_iface")
        if key is not None and key in IFACES:
            iface = IFACES[key]
        else:
            iface = kj.events_interface(_r.Random(inp["iface_seed"]), inp.get("iface_table") or inp["table"], inp["lang"], inp.get("usertags"))
            if key is not None:
                IFACES[key] = iface
        extra = inp.get("iface_extra")
        if extra and not getattr(iface, "_kv_extra_done", False):
            # the model change also gives one event another parameter (on the caller's Interface object, in place)
            for st in iface.Structs():
                if st.Name == extra[0]:
                    st.AddType(extra[1], extra[2])
                    break
            iface._kv_extra_done = True
        holder = None
        if inp.get("reuse_gen") is not None:      # the caller also keeps the generator OBJECT (built for this output directory)
            holder = GENS.setdefault((inp["reuse_gen"], os.path.abspath(outdir)), {})
        return generate(kind, outdir, table=[list(r) for r in inp["table"]], iface=iface, name=inp["name"], copy_other=bool(inp.get("copy_other")),
                        holder=holder)
    if kind == "proto":
        iface = kj.random_proto_interface(_r.Random(inp["iface_seed"]))
        return generate(kind, outdir, iface=iface, name=inp["name"], copy_other=bool(inp.get("copy_other")))
    if kind in ("uml_mut", "uml_cs_mut"):
        # a mutant of a shipped class diagram (deterministic in mut_seed), through the real umlgen.GenerateUML
        from . import umlsynth
        cd = umlsynth.load(inp["name"])
        if inp.get("probe"):
            umlsynth.apply_probe(cd, inp["probe"])
        umlsynth.mutate(_r.Random(inp["mut_seed"]), cd, inp["mut_n"])
        return umlsynth.generate(cd, outdir, "cpp" if kind == "uml_mut" else "csharp", bool(inp["ns"]))
    return generate(kind, outdir, name=inp["name"], ns=inp["ns"])


def mutate_input(rng, kind, inp):
    """A changed model for C02/C03 (rows/states/events/guards/actions added, removed, renamed, reordered)."""
    inp = copy.deepcopy(inp)
    if kind in ("py", "cs", "cpp"):
        t = inp["table"]
        op = rng.choice(["drop", "add", "rename_state", "rename_guard", "rename_action", "reorder", "rename_event", "name"])
        if op == "drop":
            if len(t) > 1:
                t.pop(rng.randrange(len(t)))
        elif op == "add":
            t.insert(rng.randrange(len(t) + 1), [rng.choice(t)[0], kj.ident(rng, "Event"), rng.choice(t)[0], kj.ident(rng, "On"), kj.ident(rng, "Guard")])
        elif op == "reorder":
            rng.shuffle(t)
        elif op == "name":
            inp["name"] = inp["name"] + "Z"
        else:
            col = {"rename_state": 0, "rename_event": 1, "rename_action": 3, "rename_guard": 4}[op]
            olds = [r[col] for r in t if r[col] and r[col].lower() != "none"]
            if olds:
                o = rng.choice(olds)
                n = kj.ident(rng, {0: "State", 1: "Event", 3: "On", 4: "Guard"}[col])
                for r in t:
                    for c in ((0, 2) if col == 0 else (col,)):
                        if r[c] == o:
                            r[c] = n
    elif kind == "proto":
        inp["iface_seed"] = inp["iface_seed"] + rng.randint(1, 3)
    else:
        inp["name"] = [d for d in kj.UML_DIAGRAMS if d != inp["name"]][0] if rng.random() < 0.3 else inp["name"]
        inp["ns"] = rng.choice(["", "1"])
    return inp


def user_blocks(rng, tree, density=0.7, marker=True):
    """{(file, pair index): [byte lines]} for a random subset of the tag pairs of every file of `tree`."""
    user = {}
    n = 0
    for rel in sorted(tree):
        lines = splitlines_keep(tree[rel])
        for idx, (o, c, name) in enumerate(tag_pairs(lines)):
            if rng.random() < density:
                mk = None
                if marker:
                    mk = ("F%d_" % n).encode() + rel.encode().replace(b"/", b"_") + b"_" + name.replace(b"{{{USER_", b"")
                user[(rel, idx)] = kj.user_block(rng, mk)
                n += 1
    return user


def old_spec(outdir, names):
    """The raw previous content of each generated name that exists as a file: [[name, bytes], ...].
    Readability (strict UTF-8) is decided by the MODEL (Preserve.classify / utf8_valid), not here."""
    spec = []
    for n in names:
        p = os.path.join(outdir, n)
        if os.path.isfile(p):
            with open(p, "rb") as f:
                spec.append([n, f.read()])
    return spec


def model_regen(km, outdir, old, fresh):
    """The Coq model's regeneration from the raw directory content: ({name: bytes written}, returned list)."""
    fr = [[n, [l.encode("utf-8", "surrogateescape") for l in ls]] for n, ls in fresh.items()]
    written, returned = km.call("regen_dir", outdir, old, fr)
    return OrderedDict((n.decode(), c) for n, c in written), [r.decode() for r in returned]


def apply_model(before_tree, written):
    t = dict(before_tree)
    for n, c in written.items():
        t[n] = c
    return t


def lostcode_files(tree):
    return sorted(k for k in tree if k.endswith(".LostCode.txt"))
